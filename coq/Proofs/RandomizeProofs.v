(* C20: the surrogate generators conserve what they promise, for EVERY draw.
   Model: Model/Randomize.v.  The draws (sigma, ds, us, perm) are universally quantified. *)
From Verif Require Import Base.Prelude Model.Restrict Model.Iset Model.Randomize
  Proofs.BaseLemmas Proofs.RestrictProofs Proofs.FixIsetProofs Proofs.SortInvariance Proofs.UnionProofs.
From Coq Require Import ZifyBool Permutation.

(* ------------------------------------------------------------------ *)
(* A. the Ts constructor                                                 *)

Definition inside (s e x : Z) : Prop := s <= x <= e.
Definition insideb (s e x : Z) : bool := (s <=? x) && (x <=? e).

Lemma filter_all {A} (p : A -> bool) l : Forall (fun x => p x = true) l -> filter p l = l.
Proof. induction 1 as [|x l Hx _ IH]; simpl; [reflexivity|]. rewrite Hx, IH. reflexivity. Qed.

Lemma restrict_single_spec s e l : s < e -> sortedZ l ->
  restrict_ts l [(s, e)] = filter (insideb s e) l.
Proof.
  intros Hse Hs. rewrite restrict_ts_spec; [|assumption|simpl; auto].
  apply filter_ext. intros x. unfold mem, insideb, inb. simpl. rewrite orb_false_r. reflexivity.
Qed.

Lemma restrict_all_inside s e l : s < e -> sortedZ l -> Forall (inside s e) l ->
  restrict_ts l [(s, e)] = l.
Proof.
  intros Hse Hs Hin. rewrite restrict_single_spec by assumption. apply filter_all.
  eapply Forall_impl'; [|exact Hin]. unfold inside, insideb. intros x Hx. lia.
Qed.

Lemma mk_ts_none_fst l : fst (mk_ts l None) = l.
Proof. destruct l; reflexivity. Qed.

Lemma mk_ts_some_fst l s e : fst (mk_ts l (Some [(s, e)])) = restrict_ts l [(s, e)].
Proof. destruct l; reflexivity. Qed.

Lemma mk_ts_some_snd l ep : l <> [] -> snd (mk_ts l (Some ep)) = ep.
Proof. destruct l; [congruence|reflexivity]. Qed.

Lemma sortZ_nonnil l : l <> [] -> sortZ l <> [].
Proof.
  intros H E. apply H. apply length_zero_iff_nil. rewrite <- (sortZ_length l), E. reflexivity.
Qed.

Lemma sortZ_Forall (P : Z -> Prop) l : Forall P l -> Forall P (sortZ l).
Proof. intros H. eapply Permutation_Forall; [apply sortZ_perm|exact H]. Qed.

(* a generator that sorts its candidate stamps and hands them to Ts(..., time_support = [s, e]):
   if every candidate is inside the support, nothing is discarded *)
Lemma sorted_inside_kept s e l : s < e -> Forall (inside s e) l ->
  fst (mk_ts (sortZ l) (Some [(s, e)])) = sortZ l.
Proof.
  intros Hse Hin. rewrite mk_ts_some_fst. apply restrict_all_inside; [assumption|apply sortZ_sorted|].
  apply sortZ_Forall. exact Hin.
Qed.

(* ------------------------------------------------------------------ *)
(* B. shift_timestamps                                                   *)

Lemma wrap_bounds s e sigma t : s < e -> s <= wrap s e sigma t < e.
Proof. intros H. unfold wrap. pose proof (Z.mod_pos_bound (t - s + sigma) (e - s) ltac:(lia)). lia. Qed.

Lemma wrap_congruent s e sigma t : s < e -> exists k, wrap s e sigma t = t + sigma - k * (e - s).
Proof.
  intros H. unfold wrap. exists ((t - s + sigma) / (e - s)).
  pose proof (Z.div_mod (t - s + sigma) (e - s) ltac:(lia)). lia.
Qed.

Lemma shift_ts_fst s e sigma ts : s < e ->
  fst (shift_ts s e sigma ts) = sortZ (map (wrap s e sigma) ts).
Proof.
  intros H. unfold shift_ts. apply sorted_inside_kept; [exact H|].
  apply Forall_forall. intros x Hx. apply in_map_iff in Hx. destruct Hx as (t & <- & _).
  pose proof (wrap_bounds s e sigma t H). unfold inside. lia.
Qed.

Theorem shift_ts_spec s e sigma ts : s < e ->
  length (fst (shift_ts s e sigma ts)) = length ts
  /\ Forall (fun x => s <= x < e) (fst (shift_ts s e sigma ts))
  /\ (ts <> [] -> snd (shift_ts s e sigma ts) = [(s, e)])
  /\ sortedZ (fst (shift_ts s e sigma ts))
  /\ Permutation (map (wrap s e sigma) ts) (fst (shift_ts s e sigma ts)).
Proof.
  intros H. rewrite shift_ts_fst by exact H. repeat split.
  - rewrite sortZ_length, map_length. reflexivity.
  - apply sortZ_Forall. apply Forall_forall. intros x Hx. apply in_map_iff in Hx.
    destruct Hx as (t & <- & _). apply wrap_bounds. exact H.
  - intros Hne. unfold shift_ts. apply mk_ts_some_snd. apply sortZ_nonnil.
    destruct ts; [congruence|discriminate].
  - apply sortZ_sorted.
  - apply sortZ_perm.
Qed.

(* the code before the repair wrapped around 0: timestamps leave the support and are dropped *)
Theorem shift_ts_orig_refuted :
  exists s e sigma ts, s < e /\ Forall (inside s e) ts /\ 0 <= sigma <= e - s
    /\ (length (fst (shift_ts_orig s e sigma ts)) < length ts)%nat.
Proof.
  exists 100000000000, 200000000000, 10000000000, [100000000000; 150000000000; 190000000000].
  split; [lia|]. split; [repeat constructor; unfold inside; lia|]. split; [lia|].
  vm_compute. lia.
Qed.

(* ------------------------------------------------------------------ *)
(* C. resample_timestamps                                                *)

Theorem resample_ts_spec s e us : s < e -> Forall (inside s e) us ->
  fst (resample_ts s e us) = sortZ us
  /\ length (fst (resample_ts s e us)) = length us
  /\ Forall (inside s e) (fst (resample_ts s e us))
  /\ (us <> [] -> snd (resample_ts s e us) = [(s, e)]).
Proof.
  intros H Hin. unfold resample_ts. rewrite sorted_inside_kept by assumption. repeat split.
  - apply sortZ_length.
  - apply sortZ_Forall. exact Hin.
  - intros Hne. apply mk_ts_some_snd. apply sortZ_nonnil. exact Hne.
Qed.

Lemma Forall_hd_last (P : Z -> Prop) l d : l <> [] -> Forall P l -> P (hd d l) /\ P (last l d).
Proof.
  intros Hne H. rewrite Forall_forall in H. split; apply H.
  - destruct l; [congruence|left; reflexivity].
  - destruct (exists_last Hne) as (l' & a & ->). rewrite last_last. apply in_or_app. right. left. reflexivity.
Qed.

(* the Ts form draws from [first stamp, last stamp], which lies inside the support because the stamps do *)
Theorem resample_ts_of_ts s e ts us : s < e -> ts <> [] -> Forall (inside s e) ts ->
  length us = length ts -> Forall (fun u => hd 0 ts <= u <= last ts 0) us ->
  length (fst (resample_ts s e us)) = length ts
  /\ Forall (inside s e) (fst (resample_ts s e us))
  /\ snd (resample_ts s e us) = [(s, e)].
Proof.
  intros H Hne Hin Hl Hu.
  destruct (Forall_hd_last _ ts 0 Hne Hin) as [[H1 _] [_ H2]].
  assert (Hus : Forall (inside s e) us).
  { eapply Forall_impl'; [|exact Hu]. unfold inside. intros u Hx. lia. }
  destruct (resample_ts_spec s e us H Hus) as (_ & A & B & D).
  split; [lia|]. split; [exact B|]. apply D. destruct us; [|discriminate].
  destruct ts; [congruence|discriminate].
Qed.

(* ------------------------------------------------------------------ *)
(* D. shuffle_ts_intervals                                               *)

Lemma diffs_cumsum ds : forall a, diffs (a :: cumsum_from a ds) = ds.
Proof.
  induction ds as [|d r IH]; intros a; [reflexivity|].
  cbn [cumsum_from]. specialize (IH (a + d)). cbn [diffs] in *. rewrite IH. f_equal. lia.
Qed.

Lemma cumsum_length ds : forall a, length (cumsum_from a ds) = length ds.
Proof. induction ds as [|d r IH]; intros a; simpl; [reflexivity|]. rewrite IH. reflexivity. Qed.

Lemma diffs_length a r : length (diffs (a :: r)) = length r.
Proof.
  revert a. induction r as [|b r IH]; intros a; [reflexivity|].
  cbn [diffs]. cbn [length]. f_equal. apply IH.
Qed.

Lemma map_nth_seq (l : list Z) d : map (fun i => nth i l d) (seq 0 (length l)) = l.
Proof.
  induction l as [|a l IH]; [reflexivity|].
  cbn [length seq map nth]. f_equal. rewrite <- seq_shift, map_map. exact IH.
Qed.

Lemma permute_Permutation perm l : Permutation perm (seq 0 (length l)) -> Permutation (permute perm l) l.
Proof.
  intros H. unfold permute. eapply Permutation_trans; [apply Permutation_map; exact H|].
  rewrite map_nth_seq. apply Permutation_refl.
Qed.

Lemma diffs_nonneg l : sortedZ l -> Forall (fun d => 0 <= d) (diffs l).
Proof.
  induction l as [|a r IH]; intros H; [constructor|].
  destruct r as [|b r']; [constructor|].
  cbn [diffs]. constructor.
  - simpl in H. lia.
  - apply IH. eapply sortedZ_tail. exact H.
Qed.

Lemma cumsum_sorted ds : forall a, Forall (fun d => 0 <= d) ds -> sorted_from a (cumsum_from a ds).
Proof.
  induction ds as [|d r IH]; intros a H; [exact I|].
  inversion H as [|? ? Hd Hr]; subst. simpl. split; [lia|]. apply IH. exact Hr.
Qed.

Theorem shuffle_ts_spec t0 r perm : sortedZ (t0 :: r) -> Permutation perm (seq 0 (length r)) ->
  exists out sup, shuffle_ts (t0 :: r) perm = Some (out, sup)
    /\ hd 0 out = t0
    /\ length out = length (t0 :: r)
    /\ diffs out = permute perm (diffs (t0 :: r))
    /\ Permutation (diffs out) (diffs (t0 :: r))
    /\ sortedZ out.
Proof.
  intros Hs Hp. set (ts := t0 :: r) in *.
  exists (t0 :: cumsum_from t0 (permute perm (diffs ts))), (first_last_support (t0 :: cumsum_from t0 (permute perm (diffs ts)))).
  assert (Hp' : Permutation perm (seq 0 (length (diffs ts)))) by (unfold ts; rewrite diffs_length; exact Hp).
  repeat split.
  - cbn [length]. rewrite cumsum_length. unfold permute. rewrite map_length.
    rewrite (Permutation_length Hp), seq_length. reflexivity.
  - apply diffs_cumsum.
  - rewrite diffs_cumsum. apply permute_Permutation. exact Hp'.
  - cbn [sortedZ]. apply cumsum_sorted.
    eapply Permutation_Forall; [apply Permutation_sym, permute_Permutation; exact Hp'|].
    apply diffs_nonneg. exact Hs.
Qed.

(* an empty series is returned unchanged (no draw is consumed) *)
Lemma shuffle_ts_empty perm : shuffle_ts [] perm = Some ([], []).
Proof. reflexivity. Qed.

(* ------------------------------------------------------------------ *)
(* E. jitter_timestamps: the rearrangement lemma by counting            *)

(* in a sorted list the k-th element is <= v exactly when more than k elements are <= v *)
Lemma sorted_nth_cle l : sortedZ l -> forall k v, (k < length l)%nat ->
  (nth k l 0 <= v <-> (k < cle v l)%nat).
Proof.
  induction l as [|a r IH]; intros Hs k v Hk; [simpl in Hk; lia|].
  pose proof (sortedZ_cons_Forall _ _ Hs) as Fa.
  rewrite cle_cons. destruct k as [|k].
  - cbn [nth]. destruct (a <=? v) eqn:E.
    + split; [lia|intros _; lia].
    + rewrite (cle_zero v a r Fa) by lia. split; lia.
  - cbn [nth]. simpl in Hk.
    specialize (IH (sortedZ_tail _ _ Hs) k v ltac:(lia)).
    destruct (a <=? v) eqn:E.
    + rewrite IH. lia.
    + rewrite (cle_zero v a r Fa) by lia.
      assert (In (nth k r 0) r) by (apply nth_In; lia).
      rewrite Forall_forall in Fa. specialize (Fa _ H). split; lia.
Qed.

Lemma cle_shift_up J xs : forall ys, Forall2 (fun x y => y <= x + J) xs ys ->
  forall v, (cle v xs <= cle (v + J) ys)%nat.
Proof.
  induction xs as [|x xs IH]; intros ys H v; inversion H as [|? y ? ys' Hxy Hr]; subst.
  - unfold cle; simpl; lia.
  - rewrite !cle_cons. specialize (IH _ Hr v).
    destruct (x <=? v) eqn:E1; destruct (y <=? v + J) eqn:E2; lia.
Qed.

Lemma cle_shift_down J xs : forall ys, Forall2 (fun x y => x - J <= y) xs ys ->
  forall v, (cle (v - J) ys <= cle v xs)%nat.
Proof.
  induction xs as [|x xs IH]; intros ys H v; inversion H as [|? y ? ys' Hxy Hr]; subst.
  - unfold cle; simpl; lia.
  - rewrite !cle_cons. specialize (IH _ Hr v).
    destruct (x <=? v) eqn:E1; destruct (y <=? v - J) eqn:E2; lia.
Qed.

Lemma Forall2_length' {A B} (R : A -> B -> Prop) l l' : Forall2 R l l' -> length l = length l'.
Proof. induction 1; simpl; congruence. Qed.

Lemma Forall2_impl' {A B} (R R' : A -> B -> Prop) l l' :
  (forall a b, R a b -> R' a b) -> Forall2 R l l' -> Forall2 R' l l'.
Proof. intros H. induction 1; constructor; auto. Qed.

(* sorting a perturbed sorted list: the k-th smallest moves by at most the largest perturbation *)
Theorem rearrangement J xs ys ys' :
  sortedZ xs -> sortedZ ys' -> Permutation ys ys' ->
  Forall2 (fun x y => Z.abs (y - x) <= J) xs ys ->
  forall k, (k < length xs)%nat -> Z.abs (nth k ys' 0 - nth k xs 0) <= J.
Proof.
  intros Hx Hy Hp HF k Hk.
  assert (Hl : length ys' = length xs).
  { rewrite <- (Permutation_length Hp). symmetry. eapply Forall2_length'. exact HF. }
  assert (Hup : Forall2 (fun x y => y <= x + J) xs ys).
  { eapply Forall2_impl'; [|exact HF]. cbv beta. intros; lia. }
  assert (Hdn : Forall2 (fun x y => x - J <= y) xs ys).
  { eapply Forall2_impl'; [|exact HF]. cbv beta. intros; lia. }
  set (xk := nth k xs 0).
  (* upper bound *)
  assert (U : nth k ys' 0 <= xk + J).
  { apply (sorted_nth_cle ys' Hy k (xk + J)); [lia|].
    rewrite <- (cle_perm (xk + J) _ _ Hp).
    pose proof (cle_shift_up J xs ys Hup xk).
    assert (k < cle xk xs)%nat by (apply (sorted_nth_cle xs Hx k xk Hk); unfold xk; lia).
    lia. }
  (* lower bound *)
  assert (L : xk - J <= nth k ys' 0).
  { destruct (Z_lt_le_dec (nth k ys' 0) (xk - J)) as [Hlt|]; [exfalso|assumption].
    assert (H1 : (k < cle (xk - 1 - J) ys')%nat) by (apply (sorted_nth_cle ys' Hy k (xk - 1 - J)); lia).
    rewrite <- (cle_perm (xk - 1 - J) _ _ Hp) in H1.
    pose proof (cle_shift_down J xs ys Hdn (xk - 1)) as H2.
    assert (H3 : ~ (k < cle (xk - 1) xs)%nat).
    { intros H3. apply (sorted_nth_cle xs Hx k (xk - 1) Hk) in H3. unfold xk in H3. lia. }
    lia. }
  lia.
Qed.

Lemma add_draws_length ts ds : length ds = length ts -> length (add_draws ts ds) = length ts.
Proof. intros H. unfold add_draws. rewrite map_length, combine_length. lia. Qed.

Lemma add_draws_Forall2 J ts : forall ds, length ds = length ts -> Forall (fun d => Z.abs d <= J) ds ->
  Forall2 (fun x y => Z.abs (y - x) <= J) ts (add_draws ts ds).
Proof.
  induction ts as [|t r IH]; intros [|d ds] Hl HF; simpl in Hl; try discriminate; [constructor|].
  inversion HF as [|? ? Hd Hr]; subst. unfold add_draws. cbn [combine map fst snd]. constructor.
  - replace (t + d - t) with d by lia. exact Hd.
  - apply IH; [lia|exact Hr].
Qed.

Lemma jitter_free_fst s e ts ds : fst (jitter_ts false s e ts ds) = sortZ (add_draws ts ds).
Proof. unfold jitter_ts. apply mk_ts_none_fst. Qed.

(* keep_tsupport = False: count kept, k-th sorted stamp moves by at most max_jitter *)
Theorem jitter_free_spec J s e ts ds :
  sortedZ ts -> length ds = length ts -> Forall (fun d => Z.abs d <= J) ds ->
  length (fst (jitter_ts false s e ts ds)) = length ts
  /\ sortedZ (fst (jitter_ts false s e ts ds))
  /\ forall k, (k < length ts)%nat -> Z.abs (nth k (fst (jitter_ts false s e ts ds)) 0 - nth k ts 0) <= J.
Proof.
  intros Hs Hl HF. rewrite jitter_free_fst. repeat split.
  - rewrite sortZ_length. apply add_draws_length. exact Hl.
  - apply sortZ_sorted.
  - intros k Hk. eapply rearrangement; [exact Hs|apply sortZ_sorted|apply sortZ_perm| |exact Hk].
    apply add_draws_Forall2; assumption.
Qed.

Lemma filter_length_le' {A} (p : A -> bool) l : (length (filter p l) <= length l)%nat.
Proof. induction l as [|x r IH]; simpl; [lia|]. destruct (p x); simpl; lia. Qed.

(* keep_tsupport = True: the support is kept, the result is exactly the part of the freely jittered
   series that lies inside it (so the count may drop, as documented) *)
Theorem jitter_keep_spec s e ts ds : s < e ->
  fst (jitter_ts true s e ts ds) = filter (insideb s e) (fst (jitter_ts false s e ts ds))
  /\ Forall (inside s e) (fst (jitter_ts true s e ts ds))
  /\ (length (fst (jitter_ts true s e ts ds)) <= length (fst (jitter_ts false s e ts ds)))%nat
  /\ sortedZ (fst (jitter_ts true s e ts ds))
  /\ (add_draws ts ds <> [] -> snd (jitter_ts true s e ts ds) = [(s, e)]).
Proof.
  intros H. rewrite jitter_free_fst. unfold jitter_ts. rewrite mk_ts_some_fst.
  rewrite restrict_single_spec by (try apply sortZ_sorted; exact H). repeat split.
  - apply Forall_forall. intros x Hx. apply filter_In in Hx. unfold inside, insideb in *. lia.
  - apply filter_length_le'.
  - apply filter_sortedZ. apply sortZ_sorted.
  - intros Hne. apply mk_ts_some_snd. apply sortZ_nonnil. exact Hne.
Qed.

(* ------------------------------------------------------------------ *)
(* F. TsGroup forms with the support passed on (shift, resample, jitter keep_tsupport=True):
      member-wise the Ts generator, keys and support kept                 *)

Lemma mk_group_some ms ep :
  mk_group ms (Some ep) = Some (map (fun m : member => (fst m, restrict_ts (fst (snd m)) ep)) ms, ep).
Proof. unfold mk_group. destruct ep; reflexivity. Qed.

Lemma map_keys_combine {A B} (g : list (Z * A)) : forall (xs : list B), length xs = length g ->
  map (fun p : (Z * A) * B => fst (fst p)) (combine g xs) = map fst g.
Proof.
  induction g as [|[k a] g IH]; intros [|x xs] Hl; simpl in Hl; try discriminate; [reflexivity|].
  cbn [combine map fst]. f_equal. apply IH. lia.
Qed.

Theorem shift_group_memberwise s e g sigmas :
  shift_group s e g sigmas =
  Some (map (fun p : (Z * list Z) * Z => (fst (fst p), fst (shift_ts s e (snd p) (snd (fst p))))) (combine g sigmas),
        [(s, e)]).
Proof.
  unfold shift_group. rewrite mk_group_some, map_map. f_equal. f_equal.
  apply map_ext. intros [[k ts] sg]. cbn [fst snd]. f_equal.
  rewrite mk_ts_none_fst. unfold shift_ts. rewrite mk_ts_some_fst. reflexivity.
Qed.

Theorem resample_group_memberwise s e g uss :
  resample_group s e g uss =
  Some (map (fun p : (Z * list Z) * list Z => (fst (fst p), fst (resample_ts s e (snd p)))) (combine g uss),
        [(s, e)]).
Proof.
  unfold resample_group. rewrite mk_group_some, map_map. f_equal. f_equal.
  apply map_ext. intros [[k ts] us]. cbn [fst snd]. f_equal.
  rewrite mk_ts_none_fst. unfold resample_ts. rewrite mk_ts_some_fst. reflexivity.
Qed.

Theorem jitter_group_keep_memberwise s e g dss :
  jitter_group true s e g dss =
  Some (map (fun p : (Z * list Z) * list Z => (fst (fst p), fst (jitter_ts true s e (snd (fst p)) (snd p)))) (combine g dss),
        [(s, e)]).
Proof.
  unfold jitter_group. rewrite mk_group_some, map_map. f_equal. f_equal.
  apply map_ext. intros [[k ts] ds]. cbn [fst snd]. f_equal.
  rewrite mk_ts_none_fst. unfold jitter_ts. rewrite mk_ts_some_fst. reflexivity.
Qed.

(* keys are preserved (one draw per member) *)
Theorem group_keys_kept {B C} (g : list (Z * list Z)) (xs : list B) (f : (Z * list Z) * B -> C) :
  length xs = length g ->
  map fst (map (fun p => (fst (fst p), f p)) (combine g xs)) = map fst g.
Proof. intros Hl. rewrite map_map. cbn [fst]. apply map_keys_combine. exact Hl. Qed.

(* ------------------------------------------------------------------ *)
(* G. TsGroup forms whose support is RECOMPUTED (jitter keep_tsupport=False, shuffle)  *)

Lemma last_default_irrelevant (l : list Z) d d' : l <> [] -> last l d = last l d'.
Proof.
  induction l as [|a r IH]; intros H; [congruence|].
  destruct r as [|b r']; [reflexivity|].
  change (last (b :: r') d = last (b :: r') d'). apply IH. discriminate.
Qed.

Lemma last_cons (r : list Z) x d : last (x :: r) d = last r x.
Proof.
  destruct r as [|b r']; [reflexivity|]. change (last (b :: r') d = last (b :: r') x).
  apply last_default_irrelevant. discriminate.
Qed.

Lemma sorted_from_last l : forall lo, sorted_from lo l ->
  lo <= last l lo /\ Forall (fun x => lo <= x <= last l lo) l.
Proof.
  induction l as [|x r IH]; intros lo H; [simpl; split; [lia|constructor]|].
  destruct H as [H1 H2]. destruct (IH x H2) as [I1 I2]. rewrite last_cons. split; [lia|].
  constructor; [lia|]. eapply Forall_impl'; [|exact I2]. cbv beta. intros; lia.
Qed.

Lemma sorted_inside_first_last t0 r : sortedZ (t0 :: r) -> Forall (inside t0 (last (t0 :: r) t0)) (t0 :: r).
Proof.
  intros H. simpl in H. destruct (sorted_from_last r t0 H) as [H1 H2]. rewrite last_cons.
  constructor; [unfold inside; lia|exact H2].
Qed.

Lemma first_last_support_cons t0 r :
  first_last_support (t0 :: r) = if t0 <? last (t0 :: r) t0 then [(t0, last (t0 :: r) t0)] else [].
Proof.
  unfold first_last_support, mk_iset.
  rewrite (sorted_from_sortZ_id [t0] t0) by (simpl; lia).
  rewrite (sorted_from_sortZ_id [last (t0 :: r) t0] (last (t0 :: r) t0)) by (simpl; lia).
  generalize (last (t0 :: r) t0). intros tl. unfold fix_iset. cbn [combine fix_go].
  destruct (tl <=? t0) eqn:E1; unfold close_pending; destruct (t0 <? tl) eqn:E2; try reflexivity; lia.
Qed.

Lemma mk_ts_none l : mk_ts l None = (l, first_last_support l).
Proof. destruct l; reflexivity. Qed.

(* a default support is empty or one proper interval *)
Definition proper1 (A : iset) : Prop := A = [] \/ exists a b, a < b /\ A = [(a, b)].
Definition touching (A B : iset) : Prop :=
  exists a0 a1 b0 b1, A = [(a0, a1)] /\ B = [(b0, b1)] /\ (a1 = b0 \/ b1 = a0).
(* the series has at least two distinct timestamps *)
Definition nondegenerate (ts : list Z) : Prop := hd 0 ts < last ts 0.

Lemma first_last_support_proper1 ts : proper1 (first_last_support ts).
Proof.
  destruct ts as [|t0 r]; [left; reflexivity|]. rewrite first_last_support_cons.
  destruct (t0 <? last (t0 :: r) t0) eqn:E; [right|left; reflexivity].
  exists t0, (last (t0 :: r) t0). split; [lia|reflexivity].
Qed.

Lemma nondegenerate_covered ts : sortedZ ts -> nondegenerate ts ->
  Forall (fun x => mem x (first_last_support ts) = true) ts.
Proof.
  destruct ts as [|t0 r]; [constructor|]. intros Hs Hn. unfold nondegenerate in Hn. cbn [hd] in Hn.
  rewrite (last_default_irrelevant (t0 :: r) 0 t0) in Hn by discriminate.
  rewrite first_last_support_cons.
  destruct (t0 <? last (t0 :: r) t0) eqn:E; [|lia].
  eapply Forall_impl'; [|apply sorted_inside_first_last; exact Hs].
  unfold inside, mem, inb. cbn [existsb fst snd]. intros x Hx. lia.
Qed.

Lemma proper1_canonical A : proper1 A -> canonical A.
Proof. intros [->|(a & b & H & ->)]; simpl; auto. Qed.

Lemma proper1_concat sups : Forall proper1 sups -> Forall (fun I => fst I < snd I) (concat sups).
Proof.
  induction 1 as [|A sups HA _ IH]; [constructor|]. cbn [concat].
  destruct HA as [->|(a & b & H & ->)]; [exact IH|]. constructor; [exact H|exact IH].
Qed.

Lemma mem_concat x sups : mem x (concat sups) = existsb (mem x) sups.
Proof.
  induction sups as [|A sups IH]; [reflexivity|]. cbn [concat existsb]. rewrite mem_app, IH. reflexivity.
Qed.

(* jitunion of two single intervals that do not touch is already canonical *)
Lemma k_union_single_canonical a0 a1 b0 b1 : a0 < a1 -> b0 < b1 -> a1 <> b0 -> b1 <> a0 ->
  canonical (k_union [(a0, a1)] [(b0, b1)]).
Proof.
  intros Ha Hb N1 N2. unfold k_union. cbn [length Nat.add Nat.mul union_go].
  destruct (b1 <=? a0) eqn:E1.
  - simpl. lia.
  - destruct (b0 <? a1) eqn:E2.
    + destruct (a1 <? b1) eqn:E3; simpl; lia.
    + simpl. lia.
Qed.

(* since 6917604 two supports are united by the n-ary kernel like three or more: the union is canonical and
   covers every member support, touching or not *)
Lemma union_supports_cover sups :
  Forall proper1 sups ->
  canonical (union_supports sups) /\ forall x, mem x (union_supports sups) = existsb (mem x) sups.
Proof.
  intros HP.
  assert (Gen : canonical (mk_iset_pairs (k_union_n (concat sups)))
                /\ forall x, mem x (mk_iset_pairs (k_union_n (concat sups))) = existsb (mem x) sups).
  { pose proof (proper1_concat sups HP) as HF.
    rewrite mk_iset_canonical_id by (apply union_n_canonical; exact HF).
    split; [apply union_n_canonical; exact HF|].
    intros x. rewrite union_n_mem by exact HF. apply mem_concat. }
  destruct sups as [|A [|B r]]; try exact Gen.
  (* one member *)
  inversion HP as [|? ? HA _]; subst. cbn [union_supports existsb]. split; [apply proper1_canonical; exact HA|].
  intros x. rewrite orb_false_r. reflexivity.
Qed.

Definition default_member (m : member) : Prop :=
  sortedZ (fst (snd m)) /\ snd (snd m) = first_last_support (fst (snd m)).

(* TsGroup(dict) without a support: keys kept; every member with >= 2 distinct stamps keeps all of them *)
Theorem mk_group_none_spec ms out G :
  mk_group ms None = Some (out, G) -> Forall default_member ms ->
  map fst out = map fst ms
  /\ Forall2 (fun (m : member) (o : Z * list Z) =>
                fst o = fst m /\ (nondegenerate (fst (snd m)) -> snd o = fst (snd m))) ms out.
Proof.
  intros HG HD. unfold mk_group in HG. cbv zeta in HG.
  set (sups := map (fun m : member => snd (snd m)) ms) in *.
  assert (HP : Forall proper1 sups).
  { unfold sups. apply Forall_forall. intros A HA. apply in_map_iff in HA. destruct HA as (m & <- & Hm).
    rewrite Forall_forall in HD. destruct (HD m Hm) as [_ ->]. apply first_last_support_proper1. }
  destruct (union_supports_cover sups HP) as [Hc Hm].
  change (map (fun m : Z * (list Z * iset) => snd (snd m)) ms) with sups in HG.
  destruct (union_supports sups) as [|I0 G0] eqn:EG; [discriminate|].
  inversion HG; subst out G. clear HG. split.
  - rewrite map_map. reflexivity.
  - assert (Hsub : forall m, In m ms -> forall x, mem x (snd (snd m)) = true -> mem x (I0 :: G0) = true).
    { intros m Hin x Hx. rewrite Hm. apply existsb_exists. exists (snd (snd m)). split; [|exact Hx].
      unfold sups. apply in_map_iff. exists m. split; [reflexivity|exact Hin]. }
    clear Hm EG HP. remember (I0 :: G0) as GG eqn:EGG. clear EGG I0 G0.
    induction ms as [|m ms IH]; [constructor|].
    inversion HD as [|? ? Hd HD']; subst. cbn [map]. constructor.
    + cbn [fst snd]. split; [reflexivity|]. intros Hn. destruct Hd as [Hs He].
      rewrite restrict_ts_spec by assumption. apply filter_all.
      eapply Forall_impl'; [|apply nondegenerate_covered; assumption].
      cbv beta. intros x Hx. apply (Hsub m (or_introl eq_refl)). rewrite He. exact Hx.
    + apply IH; [exact HD'|]. intros m' Hin. apply Hsub. right. exact Hin.
Qed.

Definition no_touching_pair (sups : list iset) : Prop := forall A B, sups = [A; B] -> ~ touching A B.

Lemma no_touching_pair_len sups : length sups <> 2%nat -> no_touching_pair sups.
Proof. intros H A B E. subst sups. simpl in H. congruence. Qed.

Lemma Forall2_map_l {A B C} (f : A -> B) (R : B -> C -> Prop) l : forall out,
  Forall2 R (map f l) out -> Forall2 (fun a o => R (f a) o) l out.
Proof.
  induction l as [|a l IH]; intros out H; inversion H; subst; constructor; auto.
Qed.

Lemma Forall2_compose {A B C} (R1 : A -> B -> Prop) (R2 : B -> C -> Prop) l : forall m o,
  Forall2 R1 l m -> Forall2 R2 m o -> Forall2 (fun a c => exists b, R1 a b /\ R2 b c) l o.
Proof.
  induction l as [|a l IH]; intros m o H1 H2; inversion H1; subst; inversion H2; subst; constructor; eauto.
Qed.

(* --- jitter_timestamps(TsGroup, keep_tsupport=False) --- *)
Definition jittered (p : (Z * list Z) * list Z) : list Z := sortZ (add_draws (snd (fst p)) (snd p)).

Theorem jitter_group_free_spec s e g dss out G :
  jitter_group false s e g dss = Some (out, G) ->
  map fst out = map (fun p : (Z * list Z) * list Z => fst (fst p)) (combine g dss)
  /\ Forall2 (fun (p : (Z * list Z) * list Z) (o : Z * list Z) =>
                fst o = fst (fst p)
                /\ (nondegenerate (jittered p) -> snd o = fst (jitter_ts false s e (snd (fst p)) (snd p))))
             (combine g dss) out.
Proof.
  intros H. unfold jitter_group in H.
  set (f := fun p : (Z * list Z) * list Z => (fst (fst p), mk_ts (sortZ (add_draws (snd (fst p)) (snd p))) None)) in *.
  destruct (mk_group_none_spec _ _ _ H) as [K M].
  - apply Forall_forall. intros m Hm. apply in_map_iff in Hm. destruct Hm as (p & <- & _).
    unfold f, default_member. cbn [fst snd]. rewrite mk_ts_none. cbn [fst snd]. split; [apply sortZ_sorted|reflexivity].
  - split.
    + rewrite K, map_map. reflexivity.
    + apply Forall2_map_l in M. eapply Forall2_impl'; [|exact M]. cbv beta.
      intros p o [H1 H2]. unfold f in *. cbn [fst snd] in *. rewrite mk_ts_none_fst in H2.
      split; [exact H1|]. intros Hn. rewrite jitter_free_fst. apply H2. exact Hn.
Qed.

(* --- shuffle_ts_intervals(TsGroup) --- *)
Definition sumZ' (l : list Z) : Z := fold_right Z.add 0 l.

Lemma sumZ'_perm l l' : Permutation l l' -> sumZ' l = sumZ' l'.
Proof. induction 1; simpl in *; lia. Qed.

Lemma last_cumsum ds : forall a, last (a :: cumsum_from a ds) a = a + sumZ' ds.
Proof.
  induction ds as [|d r IH]; intros a; [simpl; lia|].
  cbn [cumsum_from]. rewrite last_cons.
  rewrite (last_default_irrelevant _ a (a + d)) by discriminate.
  rewrite IH. simpl. lia.
Qed.

Lemma last_sum_diffs r : forall t0, last (t0 :: r) t0 = t0 + sumZ' (diffs (t0 :: r)).
Proof.
  induction r as [|b r IH]; intros t0; [simpl; lia|].
  rewrite last_cons. rewrite (last_default_irrelevant _ t0 b) by discriminate.
  rewrite IH. cbn [diffs]. simpl. lia.
Qed.

Definition shuffled (t0 : Z) (r : list Z) (perm : list nat) : list Z :=
  t0 :: cumsum_from t0 (permute perm (diffs (t0 :: r))).

Lemma shuffled_nondegenerate t0 r perm : Permutation perm (seq 0 (length r)) ->
  nondegenerate (t0 :: r) -> nondegenerate (shuffled t0 r perm).
Proof.
  intros Hp. unfold nondegenerate, shuffled. cbn [hd].
  rewrite (last_default_irrelevant (t0 :: r) 0 t0) by discriminate.
  rewrite (last_default_irrelevant (t0 :: cumsum_from _ _) 0 t0) by discriminate.
  rewrite last_cumsum, last_sum_diffs.
  rewrite (sumZ'_perm _ _ (permute_Permutation perm (diffs (t0 :: r)) ltac:(rewrite diffs_length; exact Hp))).
  lia.
Qed.

Definition valid_shuffle_input (kt : Z * list Z) (perm : list nat) : Prop :=
  sortedZ (snd kt) /\ Permutation perm (seq 0 (length (snd kt) - 1)).

Lemma shuffle_members_spec g : forall perms ms,
  Forall2 valid_shuffle_input g perms -> shuffle_members g perms = Some ms ->
  Forall default_member ms
  /\ Forall2 (fun (kt : Z * list Z) (m : member) =>
                fst m = fst kt
                /\ hd 0 (fst (snd m)) = hd 0 (snd kt)
                /\ length (fst (snd m)) = length (snd kt)
                /\ Permutation (diffs (fst (snd m))) (diffs (snd kt))
                /\ (nondegenerate (snd kt) -> nondegenerate (fst (snd m)))) g ms.
Proof.
  induction g as [|[k ts] g IH]; intros perms ms HV H.
  - inversion HV; subst. simpl in H. inversion H; subst. split; constructor.
  - inversion HV as [|? perm ? perms' [Hs Hp] HV']; subst. cbn [shuffle_members] in H.
    destruct (shuffle_ts ts perm) as [r0|] eqn:E1; [|discriminate].
    destruct (shuffle_members g perms') as [rs|] eqn:E2; [|discriminate].
    inversion H; subst ms. clear H. destruct (IH _ _ HV' E2) as [D1 D2].
    destruct ts as [|t0 r].
    { (* empty member: returned unchanged *)
      cbn in E1. inversion E1; subst. split.
      - constructor; [|exact D1]. split; cbn [fst snd]; [exact I|reflexivity].
      - constructor; [|exact D2]. cbn [fst snd].
        split; [reflexivity|]. split; [reflexivity|]. split; [reflexivity|].
        split; [apply Permutation_refl|]. intros Hn; exact Hn. }
    cbn [snd length] in Hs, Hp.
    replace (S (length r) - 1)%nat with (length r) in Hp by lia.
    destruct (shuffle_ts_spec t0 r perm Hs Hp) as (o & sp & Eo & A1 & A2 & A3 & A4 & A5).
    rewrite E1 in Eo. inversion Eo; subst r0. clear Eo.
    assert (Eq : shuffle_ts (t0 :: r) perm = Some (shuffled t0 r perm, first_last_support (shuffled t0 r perm))) by reflexivity.
    rewrite E1 in Eq.
    inversion Eq; subst o sp. split.
    + constructor; [|exact D1]. split; cbn [fst snd]; [exact A5|reflexivity].
    + constructor; [|exact D2]. cbn [fst snd]. repeat split; try assumption.
      intros Hn. apply shuffled_nondegenerate; assumption.
Qed.

Theorem shuffle_group_spec g perms out G :
  Forall2 valid_shuffle_input g perms ->
  shuffle_group g perms = Some (out, G) ->
  map fst out = map fst g
  /\ Forall2 (fun (kt : Z * list Z) (o : Z * list Z) =>
                fst o = fst kt
                /\ (nondegenerate (snd kt) ->
                    hd 0 (snd o) = hd 0 (snd kt)
                    /\ length (snd o) = length (snd kt)
                    /\ Permutation (diffs (snd o)) (diffs (snd kt)))) g out.
Proof.
  intros HV H. unfold shuffle_group in H.
  destruct (shuffle_members g perms) as [ms|] eqn:E; [|discriminate].
  destruct (shuffle_members_spec g perms ms HV E) as [D1 D2].
  destruct (mk_group_none_spec ms out G H D1) as [K M].
  assert (F : Forall2 (fun (kt : Z * list Z) (o : Z * list Z) =>
                fst o = fst kt
                /\ (nondegenerate (snd kt) ->
                    hd 0 (snd o) = hd 0 (snd kt)
                    /\ length (snd o) = length (snd kt)
                    /\ Permutation (diffs (snd o)) (diffs (snd kt)))) g out).
  { eapply Forall2_impl'; [|exact (Forall2_compose _ _ _ _ _ D2 M)]. cbv beta.
    intros kt o (m & (B1 & B2 & B3 & B4 & B5) & (C1 & C2)). split; [congruence|].
    intros Hn. rewrite (C2 (B5 Hn)). auto. }
  split; [|exact F].
  clear - F. induction F as [|kt o g out [Hk _] _ IH]; [reflexivity|]. cbn [map]. rewrite Hk, IH. reflexivity.
Qed.

(* --- what is FALSE of the faithful model (and of the code): counts in a group with a recomputed support --- *)

(* a member with a single (distinct) timestamp has an empty default support and is emptied by the
   restriction to the union of the members' supports: zero jitter already loses it *)
Theorem group_recomputed_support_refuted_single :
  exists s e g dss out G,
    s < e /\ Forall (fun kt => Forall (inside s e) (snd kt) /\ sortedZ (snd kt)) g
    /\ Forall2 (fun kt ds => length ds = length (snd kt) /\ Forall (fun d => d = 0) ds) g dss
    /\ jitter_group false s e g dss = Some (out, G)
    /\ exists k ts ts', In (k, ts) g /\ In (k, ts') out /\ (length ts' < length ts)%nat.
Proof.
  exists 0, 100, [(0, [10; 20; 30]); (1, [50])], [[0; 0; 0]; [0]], [(0, [10; 20; 30]); (1, [])], [(10, 30)].
  split; [lia|]. split; [repeat constructor; unfold inside; simpl; lia|].
  split; [repeat constructor|]. split; [vm_compute; reflexivity|].
  exists 1, [50], []. simpl. repeat split; auto.
Qed.

(* two members whose recomputed supports touch.  BEFORE 6917604 the pairwise jitunion left the two intervals
   touching, the IntervalSet constructor trimmed 1 us off the earlier one, and a timestamp inside that microsecond
   was dropped: *)
Theorem group_recomputed_support_touching_orig_refuted :
  exists g perms out G,
    Forall2 valid_shuffle_input g perms /\ Forall (fun kt => nondegenerate (snd kt)) g
    /\ shuffle_group_orig g perms = Some (out, G)
    /\ exists k ts ts', In (k, ts) g /\ In (k, ts') out /\ (length ts' < length ts)%nat.
Proof.
  exists [(0, [0; 999500; 1000000]); (1, [1000000; 2000000])], [[0%nat; 1%nat]; [0%nat]],
         [(0, [0; 1000000]); (1, [1000000; 2000000])], [(0, 999000); (1000000, 2000000)].
  split. { repeat constructor; simpl; lia. }
  split. { repeat constructor; unfold nondegenerate; simpl; lia. }
  split; [vm_compute; reflexivity|].
  exists 0, [0; 999500; 1000000], [0; 1000000]. simpl. repeat split; auto.
Qed.

(* ... the same input SINCE 6917604 (n-ary union also for two members): the supports merge into one interval and
   every timestamp is kept *)
Theorem group_recomputed_support_touching_kept :
  shuffle_group [(0, [0; 999500; 1000000]); (1, [1000000; 2000000])] [[0%nat; 1%nat]; [0%nat]]
  = Some ([(0, [0; 999500; 1000000]); (1, [1000000; 2000000])], [(0, 2000000)]).
Proof. vm_compute. reflexivity. Qed.

(* exceptions: a group whose members all have a single distinct timestamp has an empty union of supports
   and the TsGroup constructor raises *)
Theorem group_recomputed_support_raises :
  shuffle_group [(0, [10]); (1, [20; 20])] [[]; [0%nat]] = None
  /\ jitter_group false 0 100 [(0, [10]); (1, [20; 21])] [[0]; [1; 0]] = None.
Proof. vm_compute. repeat split. Qed.

(* special cases kept from before 6917604, when a PAIR of members with touching supports was an exception
   (the hypothesis length g <> 2 is no longer needed: see jitter_group_free_spec / shuffle_group_spec) *)
Corollary jitter_group_free_not2 s e g dss out G :
  length dss = length g -> length g <> 2%nat ->
  jitter_group false s e g dss = Some (out, G) ->
  map fst out = map fst g
  /\ Forall2 (fun (p : (Z * list Z) * list Z) (o : Z * list Z) =>
                fst o = fst (fst p)
                /\ (nondegenerate (jittered p) -> snd o = fst (jitter_ts false s e (snd (fst p)) (snd p))))
             (combine g dss) out.
Proof.
  intros Hl _ H. destruct (jitter_group_free_spec s e g dss out G H) as [K M].
  split; [|exact M]. rewrite K. apply map_keys_combine. exact Hl.
Qed.

Corollary shuffle_group_not2 g perms out G :
  Forall2 valid_shuffle_input g perms -> length g <> 2%nat ->
  shuffle_group g perms = Some (out, G) ->
  map fst out = map fst g
  /\ Forall2 (fun (kt : Z * list Z) (o : Z * list Z) =>
                fst o = fst kt
                /\ (nondegenerate (snd kt) ->
                    hd 0 (snd o) = hd 0 (snd kt)
                    /\ length (snd o) = length (snd kt)
                    /\ Permutation (diffs (snd o)) (diffs (snd kt)))) g out.
Proof.
  intros HV _ H. exact (shuffle_group_spec g perms out G HV H).
Qed.

(* since 9bcff6e an empty member no longer makes shuffle raise: it stays empty, the others are shuffled *)
Theorem shuffle_group_empty_member_ok :
  shuffle_group [(0, [10; 20; 50]); (1, [])] [[1%nat; 0%nat]; []] = Some ([(0, [10; 40; 50]); (1, [])], [(10, 50)]).
Proof. vm_compute. reflexivity. Qed.

(* ------------------------------------------------------------------ *)
(* jitter keep_tsupport = True as a multiset; the empty series            *)
(* ------------------------------------------------------------------ *)
Lemma Permutation_filter' {A} (p : A -> bool) l l' : Permutation l l' -> Permutation (filter p l) (filter p l').
Proof.
  induction 1; simpl.
  - constructor.
  - destruct (p x); [constructor|]; assumption.
  - destruct (p x), (p y); try apply Permutation_refl. apply perm_swap.
  - eapply Permutation_trans; eassumption.
Qed.

(* keep_tsupport = True, exactly: as a multiset the result is the stamps t_k + d_k that fall inside [s, e] *)
Theorem jitter_keep_exact s e ts ds : s < e ->
  Permutation (filter (insideb s e) (add_draws ts ds)) (fst (jitter_ts true s e ts ds)).
Proof.
  intros H. destruct (jitter_keep_spec s e ts ds H) as [E _]. rewrite E, jitter_free_fst.
  apply Permutation_filter'. apply sortZ_perm.
Qed.

Lemma nth_add_draws ts : forall ds k, length ds = length ts -> (k < length ts)%nat ->
  nth k (add_draws ts ds) 0 = nth k ts 0 + nth k ds 0.
Proof.
  unfold add_draws. induction ts as [|t r IH]; intros ds k Hl Hk; simpl in *; [lia|].
  destruct ds as [|d ds']; simpl in *; [lia|]. destruct k; [reflexivity|]. apply IH; lia.
Qed.

(* ... hence every returned stamp is an input stamp moved by its own draw (at most J) and lies inside, and a stamp
   that NO move of at most J can take out of [s, e] is never lost *)
Theorem jitter_keep_members J s e ts ds : s < e -> length ds = length ts -> Forall (fun d => Z.abs d <= J) ds ->
  (forall x, In x (fst (jitter_ts true s e ts ds)) ->
     exists k, (k < length ts)%nat /\ x = nth k ts 0 + nth k ds 0 /\ Z.abs (x - nth k ts 0) <= J /\ inside s e x)
  /\ (forall k, (k < length ts)%nat -> s + J <= nth k ts 0 <= e - J ->
        In (nth k ts 0 + nth k ds 0) (fst (jitter_ts true s e ts ds))).
Proof.
  intros H Hl HJ. pose proof (jitter_keep_exact s e ts ds H) as P.
  assert (La : length (add_draws ts ds) = length ts) by (apply add_draws_length; exact Hl).
  assert (Hd : forall k, (k < length ts)%nat -> Z.abs (nth k ds 0) <= J).
  { intros k Hk. rewrite Forall_forall in HJ. apply HJ. apply nth_In. lia. }
  split.
  - intros x Hx. apply (Permutation_in _ (Permutation_sym P)) in Hx. apply filter_In in Hx. destruct Hx as [Hin Hb].
    destruct (In_nth _ _ 0 Hin) as [k [Hk Ek]]. rewrite La in Hk. rewrite nth_add_draws in Ek by assumption.
    exists k. split; [exact Hk|]. split; [symmetry; exact Ek|]. specialize (Hd k Hk).
    unfold inside, insideb in *. split; lia.
  - intros k Hk Hr. apply (Permutation_in _ P). apply filter_In. split.
    + rewrite <- (nth_add_draws ts ds k Hl Hk). apply nth_In. lia.
    + specialize (Hd k Hk). unfold insideb. lia.
Qed.

Theorem empty_ts_spec s e sigma keep ds perm :
  shift_ts s e sigma [] = ([], []) /\ resample_ts s e [] = ([], [])
  /\ jitter_ts keep s e [] ds = ([], []) /\ shuffle_ts [] perm = Some ([], []).
Proof. repeat split; destruct keep; reflexivity. Qed.
