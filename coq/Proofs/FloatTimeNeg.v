(* Extension of FloatTimeProofs.fmt_lattice to negative instants (range +/- 1e5 s):
   seconds, milliseconds and microseconds denote the same instants on the whole
   microsecond lattice |k| <= 1e11, bit-level binary64. *)
From Coq Require Import PrimFloat Uint63 ZArith Reals Lra Lia Floats.
From Flocq Require Import Core BinarySingleNaN PrimFloat Relative.
From Interval Require Import Tactic.
From Verif Require Import Model.FloatTime Proofs.FloatTimeProofs.
Open Scope float_scope.
Local Notation float := Coq.Floats.PrimFloat.float (only parsing).

Definition fzs (k : Z) : float := if (k <? 0)%Z then - fz (- k) else fz k.
Definition canon_s (k : Z) : float := fzs (1000 * k) / 1e9.

Lemma opp_ok : forall x, fin x -> fin (- x) /\ FR (- x) = (- FR x)%R.
Proof.
  unfold fin, FR. intros x Fx. rewrite opp_equiv.
  rewrite is_finite_Bopp, B2R_Bopp. split. exact Fx. reflexivity.
Qed.

Lemma ltb0_true : forall y, fin y -> (FR y < 0)%R -> (y <? 0) = true.
Proof.
  intros y Fy Hy. rewrite ltb_equiv. rewrite Bltb_correct; [| exact Fy | exact fin_0].
  fold (FR y). fold (FR 0). rewrite FR_0. apply Rlt_bool_true. exact Hy.
Qed.

(* rint is sign-symmetric *)
Lemma rint_neg : forall y, fin y -> (FR y < 0)%R -> rint y = - rint (- y).
Proof.
  intros y Fy Hy. destruct (opp_ok y Fy) as (Fo & Ro).
  unfold rint. rewrite (ltb0_true y Fy Hy).
  assert (L : (- y <? 0) = false).
  { rewrite ltb_equiv. rewrite Bltb_correct; [| exact Fo | exact fin_0].
    fold (FR (- y)). fold (FR 0). rewrite FR_0, Ro. apply Rlt_bool_false. lra. }
  rewrite L. reflexivity.
Qed.

Lemma rint_near_neg : forall (y : float) (n : Z),
  fin y -> (FR y < 0)%R -> (Rabs (FR y + IZR n) < / 2)%R ->
  (0 <= n < 4503599627370496)%Z ->
  rint y = - fz n.
Proof.
  intros y n Fy Hy Hd Hn. rewrite (rint_neg y Fy Hy). f_equal.
  destruct (opp_ok y Fy) as (Fo & Ro).
  apply rint_near.
  - exact Fo.
  - rewrite Ro. lra.
  - rewrite Ro. replace (- FR y - IZR n)%R with (- (FR y + IZR n))%R by ring.
    rewrite Rabs_Ropp. exact Hd.
  - exact Hn.
Qed.

Lemma s_case_neg : forall m : Z, (1 <= m <= 100000000000)%Z ->
  around9 (- fz m / 1e6) = - fz (1000 * m) / 1e9.
Proof.
  intros m Hm. pose proof (kbounds m Hm) as HM.
  destruct (fz_ok m ltac:(lia)) as (F & R & _).
  destruct (opp_ok _ F) as (F0 & R0). rewrite R in R0.
  destruct (step_div (- fz m) 1e6 _ _ F0 R0 FR_1e6) as (e1 & He1 & F1 & R1).
  { lra. }
  { unfold tiny, big. split; interval. }
  destruct (step_mul (- fz m / 1e6) 1e9 _ _ F1 R1 fin_1e9 FR_1e9) as (e2 & He2 & F2 & R2).
  { unfold tiny, big, u in *. split; interval. }
  unfold around9. f_equal.
  apply rint_near_neg.
  - exact F2.
  - rewrite R2. unfold u in *. interval.
  - rewrite R2. rewrite mult_IZR.
    replace (- IZR m / 1000000 * (1 + e1) * 1000000000 * (1 + e2) + 1000 * IZR m)%R
      with (- (1000 * IZR m * (e1 + e2 + e1 * e2)))%R by field.
    unfold u in *. interval.
  - lia.
Qed.

Lemma ms_case_neg : forall m : Z, (1 <= m <= 100000000000)%Z ->
  around9 (- fz m / 1e3 / 1e3) = - fz (1000 * m) / 1e9.
Proof.
  intros m Hm. pose proof (kbounds m Hm) as HM.
  destruct (fz_ok m ltac:(lia)) as (F & R & _).
  destruct (opp_ok _ F) as (F0 & R0). rewrite R in R0.
  destruct (step_div (- fz m) 1e3 _ _ F0 R0 FR_1e3) as (e1 & He1 & F1 & R1).
  { lra. }
  { unfold tiny, big. split; interval. }
  destruct (step_div (- fz m / 1e3) 1e3 _ _ F1 R1 FR_1e3) as (e2 & He2 & F2 & R2).
  { lra. }
  { unfold tiny, big, u in *. split; interval. }
  destruct (step_mul (- fz m / 1e3 / 1e3) 1e9 _ _ F2 R2 fin_1e9 FR_1e9) as (e3 & He3 & F3 & R3).
  { unfold tiny, big, u in *. split; interval. }
  unfold around9. f_equal.
  apply rint_near_neg.
  - exact F3.
  - rewrite R3. unfold u in *. interval.
  - rewrite R3. rewrite mult_IZR.
    replace (- IZR m / 1000 * (1 + e1) / 1000 * (1 + e2) * 1000000000 * (1 + e3) + 1000 * IZR m)%R
      with (- (1000 * IZR m * ((1 + e1) * (1 + e2) * (1 + e3) - 1)))%R by field.
    replace ((1 + e1) * (1 + e2) * (1 + e3) - 1)%R
      with (e1 + e2 + e3 + e1 * e2 + e1 * e3 + e2 * e3 + e1 * e2 * e3)%R by ring.
    unfold u in *. interval.
  - lia.
Qed.

Theorem fmt_lattice_signed : forall k : Z, (-100000000000 <= k <= 100000000000)%Z ->
  fmt 2 (fzs k) = canon_s k /\
  fmt 1 (fzs k / 1e3) = canon_s k /\
  fmt 0 (fzs k / 1e6) = canon_s k.
Proof.
  intros k Hk. unfold canon_s, fzs.
  destruct (Z.ltb_spec k 0) as [Hneg | Hpos].
  - assert (L : (1000 * k <? 0)%Z = true) by (apply Z.ltb_lt; lia).
    rewrite L. replace (- (1000 * k))%Z with (1000 * (- k))%Z by ring.
    assert (Hm : (1 <= - k <= 100000000000)%Z) by lia.
    unfold fmt. repeat split.
    + apply s_case_neg; exact Hm.
    + apply ms_case_neg; exact Hm.
    + apply s_case_neg; exact Hm.
  - assert (L : (1000 * k <? 0)%Z = false) by (apply Z.ltb_ge; lia).
    rewrite L. apply fmt_lattice. lia.
Qed.

(* ret_lattice (ret 2 (canon_of k) = fz k) is FALSE: smallest counterexamples, checked by computation *)
Lemma ret_lattice_us_counterexample :
  (ret 2 (canon_of 8000001) =? fz 8000001) = false.
Proof. vm_compute. reflexivity. Qed.

Lemma ret_lattice_ms_counterexample :
  (ret 1 (canon_of 4194304012) =? fz 4194304012 / 1e3) = false.
Proof. vm_compute. reflexivity. Qed.

Theorem ret_lattice_us_false :
  ~ (forall k : Z, (0 <= k <= 100000000000)%Z -> ret 2 (canon_of k) = fz k).
Proof.
  intro H. specialize (H 8000001%Z ltac:(lia)).
  pose proof ret_lattice_us_counterexample as C. rewrite H in C.
  vm_compute in C. discriminate C.
Qed.

Theorem ret_lattice_ms_false :
  ~ (forall k : Z, (0 <= k <= 100000000000)%Z -> ret 1 (canon_of k) = fz k / 1e3).
Proof.
  intro H. specialize (H 4194304012%Z ltac:(lia)).
  pose proof ret_lattice_ms_counterexample as C. rewrite H in C.
  vm_compute in C. discriminate C.
Qed.

Print Assumptions fmt_lattice_signed.
Print Assumptions ret_lattice_us_false.
Print Assumptions ret_lattice_us_counterexample.
