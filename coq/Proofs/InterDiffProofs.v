(* jitintersect / jitdiff kernels (Model/Iset.v: inter_go, diff_go): membership, canonicity of
   the raw output, parent indices, and "no new endpoints". *)
From Verif Require Import Base.Prelude Model.Iset Proofs.BaseLemmas.
From Coq Require Import ZifyBool.

Ltac blia := cbv beta in *; unfold inb in *; cbn [fst snd] in *; lia.

(* ------------------------------------------------------------------ *)
(* Definitions used in the statements                                   *)

(* x is in the interior-overlap of some pair: the two closed intervals share more than one point *)
Definition proper_meet (x : Z) (A B : iset) : bool :=
  existsb (fun a => existsb (fun b => inb x a && inb x b && (Z.max (fst a) (fst b) <? Z.min (snd a) (snd b))) B) A.
Definition touch_point (x : Z) (A B : iset) : Prop :=
  (In x (ends A) /\ In x (starts B)) \/ (In x (ends B) /\ In x (starts A)).
Definition endpoint (x : Z) (A : iset) : Prop := In x (starts A) \/ In x (ends A).
Definition within (I J : Z * Z) : Prop := fst J <= fst I /\ snd I <= snd J.

(* ------------------------------------------------------------------ *)
(* Generic helpers                                                      *)

Definition pm1 (x : Z) (a b : Z * Z) : bool :=
  inb x a && inb x b && (Z.max (fst a) (fst b) <? Z.min (snd a) (snd b)).

Lemma pm_cons_l x a A B : proper_meet x (a :: A) B = existsb (pm1 x a) B || proper_meet x A B.
Proof. reflexivity. Qed.

Lemma pm_nil_l x B : proper_meet x [] B = false.
Proof. reflexivity. Qed.

Lemma pm_nil_r x A : proper_meet x A [] = false.
Proof. induction A as [|a A IH]; [reflexivity|]. rewrite pm_cons_l, IH. reflexivity. Qed.

Lemma pm_cons_r x A b B :
  proper_meet x A (b :: B) = existsb (fun a => pm1 x a b) A || proper_meet x A B.
Proof.
  induction A as [|a A IH]; [reflexivity|].
  rewrite !pm_cons_l. cbn [existsb]. rewrite IH.
  destruct (pm1 x a b), (existsb (pm1 x a) B), (existsb (fun a0 => pm1 x a0 b) A); reflexivity.
Qed.

(* a predicate that fails on everything starting at or after [e] fails on a canonical list
   that lies after [e] *)
Lemma existsb_canon_false (f : Z * Z -> bool) (e : Z) :
  (forall c, e <= fst c -> f c = false) ->
  forall L lo, canon lo L -> e <= lo + 1 -> existsb f L = false.
Proof.
  intros Hf. induction L as [|[s t] L IH]; intros lo H Hle; [reflexivity|].
  destruct H as (H1 & H2 & H3). cbn [existsb].
  rewrite Hf by (cbn [fst]; lia). cbn [orb]. apply (IH t); [assumption|lia].
Qed.

Lemma mem_lt_head x s e r lo : canon lo ((s, e) :: r) -> x < s -> mem x ((s, e) :: r) = false.
Proof.
  intros (H1 & H2 & H3) Hx. apply (mem_below _ (s - 1)); [|lia].
  cbn [canon]. repeat split; [lia|lia|assumption].
Qed.

Lemma canonical_In_proper A : canonical A -> forall a, In a A -> fst a < snd a.
Proof.
  induction A as [|[s e] r IH]; intros H a Ha; [destruct Ha|].
  destruct Ha as [<-|Ha].
  - cbn [canonical] in H. cbn [fst snd]. tauto.
  - apply IH; [eapply canonical_tail; exact H|exact Ha].
Qed.

Lemma endpoint_cons x a A : endpoint x A -> endpoint x (a :: A).
Proof. unfold endpoint, starts, ends. cbn [map]. intros [H|H]; [left|right]; right; exact H. Qed.

Lemma endpoint_head_fst a A : endpoint (fst a) (a :: A).
Proof. left. left. reflexivity. Qed.

Lemma endpoint_head_snd a A : endpoint (snd a) (a :: A).
Proof. right. left. reflexivity. Qed.

(* ------------------------------------------------------------------ *)
(* jitintersect                                                         *)

Lemma inter_go_nil_l B i j : inter_go [] B i j = [].
Proof. reflexivity. Qed.

Lemma inter_go_nil_r A i j : inter_go A [] i j = [].
Proof. destruct A as [|[s e] A']; reflexivity. Qed.

Lemma inter_go_cons s1 e1 A' s2 e2 B' i j :
  inter_go ((s1, e1) :: A') ((s2, e2) :: B') i j =
  if e2 <=? s1 then inter_go ((s1, e1) :: A') B' i (S j)
  else if s2 <? e1 then
         (Z.max s1 s2, Z.min e1 e2, (i, j))
         :: (if e2 <? e1 then inter_go ((s1, e1) :: A') B' i (S j)
             else inter_go A' ((s2, e2) :: B') (S i) j)
       else inter_go A' ((s2, e2) :: B') (S i) j.
Proof. reflexivity. Qed.

(* 1. exact membership *)
Lemma inter_go_mem x : forall A la, canon la A -> forall B lb i j, canon lb B ->
  mem x (map fst (inter_go A B i j)) = proper_meet x A B.
Proof.
  induction A as [|[s1 e1] A' IHA]; intros la HA.
  - intros. reflexivity.
  - destruct HA as (Hla & Hse1 & HA').
    induction B as [|[s2 e2] B' IHB]; intros lb i j HB.
    + rewrite inter_go_nil_r, pm_nil_r. reflexivity.
    + destruct HB as (Hlb & Hse2 & HB').
      assert (HA : canon (s1 - 1) ((s1, e1) :: A')) by (cbn [canon]; repeat split; [lia|lia|assumption]).
      assert (HB : canon (s2 - 1) ((s2, e2) :: B')) by (cbn [canon]; repeat split; [lia|lia|assumption]).
      rewrite inter_go_cons.
      destruct (e2 <=? s1) eqn:E1; [|destruct (s2 <? e1) eqn:E2; [destruct (e2 <? e1) eqn:E3|]].
      * rewrite (IHB e2 i (S j) HB'), (pm_cons_r x _ (s2, e2) B').
        rewrite (existsb_canon_false (fun a => pm1 x a (s2, e2)) e2) with (lo := s1 - 1);
          [reflexivity| |exact HA|lia].
        intros [cs ce] Hc. unfold pm1. blia.
      * cbn [map fst]. rewrite mem_cons, (IHB e2 i (S j) HB'), (pm_cons_r x _ (s2, e2) B').
        cbn [existsb].
        rewrite (existsb_canon_false (fun a => pm1 x a (s2, e2)) e2) with (lo := e1) (L := A');
          [| |exact HA'|lia].
        2:{ intros [cs ce] Hc. unfold pm1. blia. }
        f_equal. unfold pm1. blia.
      * cbn [map fst]. rewrite mem_cons, (IHA e1 HA' _ (s2 - 1) (S i) j HB), pm_cons_l.
        cbn [existsb].
        rewrite (existsb_canon_false (pm1 x (s1, e1)) e1) with (lo := e2) (L := B');
          [| |exact HB'|lia].
        2:{ intros [cs ce] Hc. unfold pm1. blia. }
        f_equal. unfold pm1. blia.
      * rewrite (IHA e1 HA' _ (s2 - 1) (S i) j HB), pm_cons_l.
        rewrite (existsb_canon_false (pm1 x (s1, e1)) e1) with (lo := s2 - 1);
          [reflexivity| |exact HB|lia].
        intros [cs ce] Hc. unfold pm1. blia.
Qed.

Theorem inter_mem_exact A B x :
  canonical A -> canonical B -> mem x (k_inter A B) = proper_meet x A B.
Proof.
  intros HA HB. destruct (canonical_canon _ HA) as [la Hla]. destruct (canonical_canon _ HB) as [lb Hlb].
  unfold k_inter, k_inter_meta. eapply inter_go_mem; eassumption.
Qed.

(* 2. away from touch points, the proper meet is the plain intersection *)
Lemma pm_mem x A B : canonical A -> canonical B -> ~ touch_point x A B ->
  proper_meet x A B = mem x A && mem x B.
Proof.
  intros HA HB Ht. destruct (proper_meet x A B) eqn:E.
  - apply existsb_exists in E. destruct E as (a & Ha & E).
    apply existsb_exists in E. destruct E as (b & Hb & E).
    apply andb_true_iff in E. destruct E as [E _]. apply andb_true_iff in E. destruct E as [Ea Eb].
    symmetry. apply andb_true_iff. split; apply existsb_exists; eauto.
  - destruct (mem x A) eqn:EA; [|reflexivity]. destruct (mem x B) eqn:EB; [|reflexivity].
    exfalso. apply existsb_exists in EA. destruct EA as (a & Ha & Hxa).
    apply existsb_exists in EB. destruct EB as (b & Hb & Hxb).
    assert (P : pm1 x a b = false).
    { destruct (pm1 x a b) eqn:P; [|reflexivity].
      assert (proper_meet x A B = true); [|congruence].
      apply existsb_exists. exists a. split; [assumption|].
      apply existsb_exists. exists b. split; assumption. }
    pose proof (canonical_In_proper A HA a Ha) as Pa.
    pose proof (canonical_In_proper B HB b Hb) as Pb.
    apply Ht. unfold touch_point, starts, ends.
    destruct a as [sa ea], b as [sb eb]. unfold pm1, inb in *. cbn [fst snd] in *.
    assert (C : (x = sa /\ x = eb) \/ (x = sb /\ x = ea)) by lia.
    destruct C as [[C1 C2]|[C1 C2]]; [right|left]; split; apply in_map_iff.
    + exists (sb, eb). split; [cbn [snd]; lia|assumption].
    + exists (sa, ea). split; [cbn [fst]; lia|assumption].
    + exists (sa, ea). split; [cbn [snd]; lia|assumption].
    + exists (sb, eb). split; [cbn [fst]; lia|assumption].
Qed.

Theorem inter_mem A B x :
  canonical A -> canonical B -> ~ touch_point x A B ->
  mem x (k_inter A B) = mem x A && mem x B.
Proof. intros HA HB Ht. rewrite inter_mem_exact by assumption. apply pm_mem; assumption. Qed.

(* 3. the raw output is canonical *)
Lemma inter_go_canon : forall A la, canon la A -> forall B lb i j, canon lb B ->
  canon (Z.max la lb) (map fst (inter_go A B i j)).
Proof.
  induction A as [|[s1 e1] A' IHA]; intros la HA.
  - intros. exact I.
  - destruct HA as (Hla & Hse1 & HA').
    induction B as [|[s2 e2] B' IHB]; intros lb i j HB.
    + rewrite inter_go_nil_r. exact I.
    + destruct HB as (Hlb & Hse2 & HB').
      assert (HB : canon lb ((s2, e2) :: B')) by (cbn [canon]; repeat split; assumption).
      rewrite inter_go_cons.
      destruct (e2 <=? s1) eqn:E1; [|destruct (s2 <? e1) eqn:E2; [destruct (e2 <? e1) eqn:E3|]].
      * eapply canon_weaken; [|exact (IHB e2 i (S j) HB')]. lia.
      * cbn [map fst canon]. repeat split; [lia|lia|].
        eapply canon_weaken; [|exact (IHB e2 i (S j) HB')]. lia.
      * cbn [map fst canon]. repeat split; [lia|lia|].
        eapply canon_weaken; [|exact (IHA e1 HA' _ lb (S i) j HB)]. lia.
      * eapply canon_weaken; [|exact (IHA e1 HA' _ lb (S i) j HB)]. lia.
Qed.

Theorem inter_raw_canonical A B : canonical A -> canonical B -> canonical (k_inter A B).
Proof.
  intros HA HB. destruct (canonical_canon _ HA) as [la Hla]. destruct (canonical_canon _ HB) as [lb Hlb].
  unfold k_inter, k_inter_meta. eapply canon_canonical. eapply inter_go_canon; eassumption.
Qed.

(* 4. each output interval is the overlap of the two parents whose indices it carries *)
Definition inter_parent_ok (A B : iset) (i j : nat) (r : Z * Z * (nat * nat)) : Prop :=
  let '(s, e, (i0, j0)) := r in
  exists s1 e1 s2 e2, (i <= i0)%nat /\ (j <= j0)%nat /\
    nth_error A (i0 - i) = Some (s1, e1) /\ nth_error B (j0 - j) = Some (s2, e2) /\
    s = Z.max s1 s2 /\ e = Z.min e1 e2 /\ s < e.

Lemma inter_parent_ok_B A B b i j r : inter_parent_ok A B i (S j) r -> inter_parent_ok A (b :: B) i j r.
Proof.
  destruct r as [[s e] [i0 j0]]. cbn. intros (s1 & e1 & s2 & e2 & H1 & H2 & H3 & H4 & H5).
  exists s1, e1, s2, e2. repeat split; try tauto; try lia.
  replace (j0 - j)%nat with (S (j0 - S j)) by lia. exact H4.
Qed.

Lemma inter_parent_ok_A A a B i j r : inter_parent_ok A B (S i) j r -> inter_parent_ok (a :: A) B i j r.
Proof.
  destruct r as [[s e] [i0 j0]]. cbn. intros (s1 & e1 & s2 & e2 & H1 & H2 & H3 & H4 & H5).
  exists s1, e1, s2, e2. repeat split; try tauto; try lia.
  replace (i0 - i)%nat with (S (i0 - S i)) by lia. exact H3.
Qed.

Lemma inter_go_parents : forall A la, canon la A -> forall B lb i j, canon lb B ->
  Forall (inter_parent_ok A B i j) (inter_go A B i j).
Proof.
  induction A as [|[s1 e1] A' IHA]; intros la HA.
  - intros. constructor.
  - destruct HA as (Hla & Hse1 & HA').
    induction B as [|[s2 e2] B' IHB]; intros lb i j HB0.
    + rewrite inter_go_nil_r. constructor.
    + rewrite inter_go_cons.
      pose proof HB0 as (Hlb & Hse2 & HB').
      assert (HB : Forall (inter_parent_ok ((s1, e1) :: A') ((s2, e2) :: B') i j)
                          (inter_go ((s1, e1) :: A') B' i (S j))).
      { eapply Forall_impl'; [|exact (IHB e2 i (S j) HB')]. intros r. apply inter_parent_ok_B. }
      assert (HA : Forall (inter_parent_ok ((s1, e1) :: A') ((s2, e2) :: B') i j)
                          (inter_go A' ((s2, e2) :: B') (S i) j)).
      { eapply Forall_impl'; [|exact (IHA e1 HA' ((s2, e2) :: B') lb (S i) j HB0)].
        intros r. apply inter_parent_ok_A. }
      destruct (e2 <=? s1) eqn:E1; [|destruct (s2 <? e1) eqn:E2; [destruct (e2 <? e1) eqn:E3|]];
        try assumption.
      * constructor; [|assumption]. cbn. exists s1, e1, s2, e2.
        rewrite !Nat.sub_diag. cbn. repeat split; try reflexivity; lia.
      * constructor; [|assumption]. cbn. exists s1, e1, s2, e2.
        rewrite !Nat.sub_diag. cbn. repeat split; try reflexivity; lia.
Qed.

Theorem inter_parents A B :
  canonical A -> canonical B ->
  Forall (fun r => let '(s, e, (i, j)) := r in
            exists s1 e1 s2 e2, nth_error A i = Some (s1, e1) /\ nth_error B j = Some (s2, e2) /\
              s = Z.max s1 s2 /\ e = Z.min e1 e2 /\ s < e) (k_inter_meta A B).
Proof.
  intros HA HB. destruct (canonical_canon _ HA) as [la Hla]. destruct (canonical_canon _ HB) as [lb Hlb].
  unfold k_inter_meta. eapply Forall_impl'; [|eapply inter_go_parents; eassumption].
  intros [[s e] [i0 j0]]. cbn. intros (s1 & e1 & s2 & e2 & H1 & H2 & H3 & H4 & H5).
  rewrite Nat.sub_0_r in H3, H4. exists s1, e1, s2, e2. tauto.
Qed.

(* 5. every output endpoint is an endpoint of an input *)
Lemma inter_go_endpoints : forall A B i j,
  Forall (fun I => (endpoint (fst I) A \/ endpoint (fst I) B) /\ (endpoint (snd I) A \/ endpoint (snd I) B))
         (map fst (inter_go A B i j)).
Proof.
  induction A as [|[s1 e1] A' IHA].
  - intros. constructor.
  - induction B as [|[s2 e2] B' IHB]; intros i j.
    + rewrite inter_go_nil_r. constructor.
    + rewrite inter_go_cons.
      set (P := fun I : Z * Z =>
                  (endpoint (fst I) ((s1, e1) :: A') \/ endpoint (fst I) ((s2, e2) :: B')) /\
                  (endpoint (snd I) ((s1, e1) :: A') \/ endpoint (snd I) ((s2, e2) :: B'))).
      assert (HB : Forall P (map fst (inter_go ((s1, e1) :: A') B' i (S j)))).
      { eapply Forall_impl'; [|exact (IHB i (S j))]. intros I [[H|H] [H'|H']]; subst P; cbv beta;
          auto using endpoint_cons. }
      assert (HA : Forall P (map fst (inter_go A' ((s2, e2) :: B') (S i) j))).
      { eapply Forall_impl'; [|exact (IHA ((s2, e2) :: B') (S i) j)]. intros I [[H|H] [H'|H']]; subst P; cbv beta;
          auto using endpoint_cons. }
      assert (H0 : P (Z.max s1 s2, Z.min e1 e2)).
      { subst P. cbv beta. cbn [fst snd]. split.
        - destruct (Z.max_spec s1 s2) as [[_ ->]|[_ ->]];
            [right; apply (endpoint_head_fst (s2, e2))|left; apply (endpoint_head_fst (s1, e1))].
        - destruct (Z.min_spec e1 e2) as [[_ ->]|[_ ->]];
            [left; apply (endpoint_head_snd (s1, e1))|right; apply (endpoint_head_snd (s2, e2))]. }
      destruct (e2 <=? s1) eqn:E1; [|destruct (s2 <? e1) eqn:E2; [destruct (e2 <? e1) eqn:E3|]];
        try assumption; cbn [map fst]; constructor; assumption.
Qed.

Theorem inter_endpoints A B :
  Forall (fun I => endpoint (fst I) A \/ endpoint (fst I) B) (k_inter A B) /\
  Forall (fun I => endpoint (snd I) A \/ endpoint (snd I) B) (k_inter A B).
Proof.
  unfold k_inter, k_inter_meta.
  split; (eapply Forall_impl'; [|apply inter_go_endpoints]); cbv beta; tauto.
Qed.

(* ------------------------------------------------------------------ *)
(* jitdiff                                                              *)

(* the innermost loop of diff_go, named so that it can be reasoned about separately *)
Definition dinner (A' : iset) (e1 : Z) (i : nat) :=
  fix inner (pe : Z) (prevB : Z * Z) (B : iset) {struct B} : list (Z * Z * nat) :=
    match B with
    | (s2', e2') :: B'' =>
        if s2' <? e1 then (pe, s2', i) :: inner e2' (s2', e2') B''
        else if pe <? e1 then (pe, e1, i) :: diff_go A' B (S i)
             else diff_go A' (prevB :: B) (S i)
    | [] =>
        if pe <? e1 then (pe, e1, i) :: diff_go A' [] (S i)
        else diff_go A' [prevB] (S i)
    end.

Definition drest :=
  fix rest (A : iset) (i : nat) : list (Z * Z * nat) :=
    match A with [] => [] | (s, e) :: A'' => (s, e, i) :: rest A'' (S i) end.

Lemma drest_eq A i : diff_go A [] i = drest A i.
Proof. destruct A as [|[s e] A']; reflexivity. Qed.

Lemma diff_go_nil_l B i : diff_go [] B i = [].
Proof. reflexivity. Qed.

Lemma diff_go_cons_nil s1 e1 A' i :
  diff_go ((s1, e1) :: A') [] i = (s1, e1, i) :: diff_go A' [] (S i).
Proof. rewrite !drest_eq. reflexivity. Qed.

Lemma diff_go_cons_cons s1 e1 A' s2 e2 B' i :
  diff_go ((s1, e1) :: A') ((s2, e2) :: B') i =
  if e2 <=? s1 then diff_go ((s1, e1) :: A') B' i
  else if s2 <? e1 then
         if (s2 <? s1) && (e1 <? e2) then diff_go A' ((s2, e2) :: B') (S i)
         else (if s1 <? s2 then [(s1, s2, i)] else []) ++ dinner A' e1 i e2 (s2, e2) B'
       else (s1, e1, i) :: diff_go A' ((s2, e2) :: B') (S i).
Proof. reflexivity. Qed.

Lemma dinner_nil A' e1 i pe prevB :
  dinner A' e1 i pe prevB [] =
  if pe <? e1 then (pe, e1, i) :: diff_go A' [] (S i) else diff_go A' [prevB] (S i).
Proof. reflexivity. Qed.

Lemma dinner_cons A' e1 i pe prevB s2 e2 B :
  dinner A' e1 i pe prevB ((s2, e2) :: B) =
  if s2 <? e1 then (pe, s2, i) :: dinner A' e1 i e2 (s2, e2) B
  else if pe <? e1 then (pe, e1, i) :: diff_go A' ((s2, e2) :: B) (S i)
       else diff_go A' (prevB :: (s2, e2) :: B) (S i).
Proof. reflexivity. Qed.

Lemma not_endpoint_cons x s e B :
  ~ endpoint x ((s, e) :: B) -> x <> s /\ x <> e /\ ~ endpoint x B.
Proof.
  unfold endpoint, starts, ends. cbn [map fst snd In]. intros H.
  repeat split; intros H'; apply H; subst; tauto.
Qed.

Lemma not_endpoint_nil x : ~ endpoint x [].
Proof. unfold endpoint, starts, ends. cbn. tauto. Qed.

(* 6. membership, away from the endpoints of B *)
Lemma dinner_mem x A' e1 i :
  (forall B lb k, canon lb B -> ~ endpoint x B ->
     mem x (map fst (diff_go A' B k)) = mem x A' && negb (mem x B)) ->
  canon e1 A' ->
  forall B pe ps, ps < pe -> canon pe B -> ~ endpoint x ((ps, pe) :: B) ->
  mem x (map fst (dinner A' e1 i pe (ps, pe) B)) =
  ((pe <? x) && (x <=? e1) && negb (mem x B)) || (mem x A' && negb (mem x ((ps, pe) :: B))).
Proof.
  intros IHA HA'.
  assert (MA : x <= e1 -> mem x A' = false) by (intros; eapply mem_below; eassumption).
  induction B as [|[s2 e2] B IHB]; intros pe ps Hp HB Hx.
  - pose proof (not_endpoint_cons _ _ _ _ Hx) as (Hx1 & Hx2 & Hx3).
    rewrite dinner_nil. destruct (pe <? e1) eqn:E.
    + cbn [map fst]. rewrite mem_cons, (IHA [] 0 (S i) I Hx3). cbn [mem existsb].
      destruct (mem x A'); blia.
    + rewrite (IHA [(ps, pe)] (ps - 1) (S i)); [| cbn [canon]; repeat split; lia | exact Hx].
      cbn [mem existsb]. destruct (mem x A'); blia.
  - pose proof (not_endpoint_cons _ _ _ _ Hx) as (Hx1 & Hx2 & Hx3).
    pose proof (not_endpoint_cons _ _ _ _ Hx3) as (Hx4 & Hx5 & Hx6).
    pose proof HB as (H1 & H2 & H3).
    assert (MB : x <= e2 -> mem x B = false) by (intros; eapply mem_below; eassumption).
    rewrite dinner_cons. destruct (s2 <? e1) eqn:E1; [|destruct (pe <? e1) eqn:E2].
    + cbn [map fst]. rewrite mem_cons, (IHB e2 s2 H2 H3 Hx3), !mem_cons.
      destruct (mem x A'), (mem x B); blia.
    + cbn [map fst]. rewrite mem_cons, (IHA _ pe (S i) HB Hx3), !mem_cons.
      destruct (mem x A'), (mem x B); blia.
    + rewrite (IHA ((ps, pe) :: (s2, e2) :: B) (ps - 1) (S i));
        [| cbn [canon]; repeat split; lia || assumption | exact Hx].
      rewrite !mem_cons. destruct (mem x A'), (mem x B); blia.
Qed.

Lemma diff_go_mem x : forall A la, canon la A -> forall B lb i, canon lb B -> ~ endpoint x B ->
  mem x (map fst (diff_go A B i)) = mem x A && negb (mem x B).
Proof.
  induction A as [|[s1 e1] A' IHA]; intros la HA.
  - intros. reflexivity.
  - destruct HA as (Hla & Hse1 & HA'). specialize (IHA e1 HA').
    assert (MA : x <= e1 -> mem x A' = false) by (intros; eapply mem_below; eassumption).
    induction B as [|[s2 e2] B' IHB]; intros lb i HB Hx.
    + rewrite diff_go_cons_nil. cbn [map fst]. rewrite !mem_cons, (IHA [] 0 (S i) I Hx).
      cbn [mem existsb]. destruct (inb x (s1, e1)), (mem x A'); reflexivity.
    + pose proof HB as (Hlb & Hse2 & HB').
      pose proof (not_endpoint_cons _ _ _ _ Hx) as (Hx1 & Hx2 & Hx3).
      assert (MB : x <= e2 -> mem x B' = false) by (intros; eapply mem_below; eassumption).
      rewrite diff_go_cons_cons.
      destruct (e2 <=? s1) eqn:E1;
        [|destruct (s2 <? e1) eqn:E2; [destruct ((s2 <? s1) && (e1 <? e2)) eqn:E3|]].
      * rewrite (IHB e2 i HB' Hx3), !mem_cons. destruct (mem x A'), (mem x B'); blia.
      * rewrite (IHA _ lb (S i) HB Hx), !mem_cons. destruct (mem x A'), (mem x B'); blia.
      * rewrite map_app, mem_app, (dinner_mem x A' e1 i IHA HA' B' e2 s2 Hse2 HB' Hx), !mem_cons.
        destruct (s1 <? s2) eqn:E4; cbn [map fst mem existsb];
          destruct (mem x A'), (mem x B'); blia.
      * cbn [map fst]. rewrite !mem_cons, (IHA _ lb (S i) HB Hx), !mem_cons.
        destruct (mem x A'), (mem x B'); blia.
Qed.

Theorem diff_mem A B x :
  canonical A -> canonical B -> ~ endpoint x B ->
  mem x (k_diff A B) = mem x A && negb (mem x B).
Proof.
  intros HA HB Hx. destruct (canonical_canon _ HA) as [la Hla]. destruct (canonical_canon _ HB) as [lb Hlb].
  unfold k_diff, k_diff_meta. eapply diff_go_mem; eassumption.
Qed.

(* 7. the raw output is canonical *)
Lemma dinner_canon A' e1 i :
  (forall B lb k, canon lb B -> canon e1 (map fst (diff_go A' B k))) ->
  forall B pe ps lo, ps < pe -> canon pe B -> lo < pe -> lo <= e1 ->
  canon lo (map fst (dinner A' e1 i pe (ps, pe) B)).
Proof.
  intros IHA. induction B as [|[s2 e2] B IHB]; intros pe ps lo Hp HB Hlo Hle.
  - rewrite dinner_nil. destruct (pe <? e1) eqn:E.
    + cbn [map fst canon]. repeat split; [lia|lia|]. apply (IHA [] 0). exact I.
    + eapply canon_weaken; [exact Hle|]. apply (IHA [(ps, pe)] (ps - 1)).
      cbn [canon]. repeat split; lia.
  - pose proof HB as (H1 & H2 & H3).
    rewrite dinner_cons. destruct (s2 <? e1) eqn:E1; [|destruct (pe <? e1) eqn:E2].
    + cbn [map fst canon]. repeat split; [lia|lia|]. apply IHB; [assumption|assumption|lia|lia].
    + cbn [map fst canon]. repeat split; [lia|lia|]. apply (IHA _ pe). exact HB.
    + eapply canon_weaken; [exact Hle|]. apply (IHA _ (ps - 1)).
      cbn [canon]. repeat split; lia || assumption.
Qed.

Lemma diff_go_canon : forall A la, canon la A -> forall B lb i, canon lb B ->
  canon la (map fst (diff_go A B i)).
Proof.
  induction A as [|[s1 e1] A' IHA]; intros la HA.
  - intros. exact I.
  - destruct HA as (Hla & Hse1 & HA'). specialize (IHA e1 HA').
    induction B as [|[s2 e2] B' IHB]; intros lb i HB.
    + rewrite diff_go_cons_nil. cbn [map fst canon]. repeat split; [lia|lia|]. apply (IHA [] 0). exact I.
    + pose proof HB as (Hlb & Hse2 & HB').
      rewrite diff_go_cons_cons.
      destruct (e2 <=? s1) eqn:E1;
        [|destruct (s2 <? e1) eqn:E2; [destruct ((s2 <? s1) && (e1 <? e2)) eqn:E3|]].
      * apply (IHB e2). exact HB'.
      * eapply canon_weaken; [|exact (IHA _ lb (S i) HB)]. lia.
      * rewrite map_app. destruct (s1 <? s2) eqn:E4; cbn [map fst app canon].
        -- repeat split; [lia|lia|]. apply dinner_canon; [exact IHA|lia|exact HB'|lia|lia].
        -- apply dinner_canon; [exact IHA|lia|exact HB'|lia|lia].
      * cbn [map fst canon]. repeat split; [lia|lia|]. exact (IHA _ lb (S i) HB).
Qed.

Theorem diff_raw_canonical A B : canonical A -> canonical B -> canonical (k_diff A B).
Proof.
  intros HA HB. destruct (canonical_canon _ HA) as [la Hla]. destruct (canonical_canon _ HB) as [lb Hlb].
  unfold k_diff, k_diff_meta. eapply canon_canonical. eapply diff_go_canon; eassumption.
Qed.

(* 8. each output interval lies inside the parent whose index it carries *)
Definition diff_parent_ok (A : iset) (i : nat) (r : Z * Z * nat) : Prop :=
  let '(s, e, i0) := r in
  (i <= i0)%nat /\ exists I, nth_error A (i0 - i) = Some I /\ within (s, e) I /\ s < e.

Lemma diff_parent_ok_A A a i r : diff_parent_ok A (S i) r -> diff_parent_ok (a :: A) i r.
Proof.
  destruct r as [[s e] i0]. cbn. intros (H1 & I & H2 & H3). split; [lia|].
  exists I. split; [|exact H3].
  replace (i0 - i)%nat with (S (i0 - S i)) by lia. exact H2.
Qed.

Lemma diff_parent_ok_head s1 e1 A' i s e :
  s1 <= s -> e <= e1 -> s < e -> diff_parent_ok ((s1, e1) :: A') i (s, e, i).
Proof.
  intros. cbn. split; [lia|]. exists (s1, e1). rewrite Nat.sub_diag. cbn.
  unfold within. cbn [fst snd]. repeat split; first [lia|reflexivity].
Qed.

Lemma dinner_parents A' s1 e1 i :
  (forall B lb k, canon lb B -> Forall (diff_parent_ok A' k) (diff_go A' B k)) ->
  forall B pe ps, ps < pe -> canon pe B -> s1 <= pe ->
  Forall (diff_parent_ok ((s1, e1) :: A') i) (dinner A' e1 i pe (ps, pe) B).
Proof.
  intros IHA.
  assert (IHA' : forall B lb, canon lb B ->
            Forall (diff_parent_ok ((s1, e1) :: A') i) (diff_go A' B (S i))).
  { intros B lb HB. eapply Forall_impl'; [|exact (IHA B lb (S i) HB)]. intros r. apply diff_parent_ok_A. }
  induction B as [|[s2 e2] B IHB]; intros pe ps Hp HB Hs.
  - rewrite dinner_nil. destruct (pe <? e1) eqn:E.
    + constructor; [apply diff_parent_ok_head; lia|]. apply (IHA' [] 0). exact I.
    + apply (IHA' [(ps, pe)] (ps - 1)). cbn [canon]. repeat split; lia.
  - pose proof HB as (H1 & H2 & H3).
    rewrite dinner_cons. destruct (s2 <? e1) eqn:E1; [|destruct (pe <? e1) eqn:E2].
    + constructor; [apply diff_parent_ok_head; lia|]. apply IHB; [assumption|assumption|lia].
    + constructor; [apply diff_parent_ok_head; lia|]. apply (IHA' _ pe). exact HB.
    + apply (IHA' _ (ps - 1)). cbn [canon]. repeat split; lia || assumption.
Qed.

Lemma diff_go_parents : forall A la, canon la A -> forall B lb i, canon lb B ->
  Forall (diff_parent_ok A i) (diff_go A B i).
Proof.
  induction A as [|[s1 e1] A' IHA]; intros la HA.
  - intros. constructor.
  - destruct HA as (Hla & Hse1 & HA'). specialize (IHA e1 HA').
    assert (IHA' : forall B lb i, canon lb B ->
              Forall (diff_parent_ok ((s1, e1) :: A') i) (diff_go A' B (S i))).
    { intros B lb i HB. eapply Forall_impl'; [|exact (IHA B lb (S i) HB)]. intros r. apply diff_parent_ok_A. }
    induction B as [|[s2 e2] B' IHB]; intros lb i HB.
    + rewrite diff_go_cons_nil. constructor; [apply diff_parent_ok_head; lia|]. apply (IHA' [] 0). exact I.
    + pose proof HB as (Hlb & Hse2 & HB').
      rewrite diff_go_cons_cons.
      destruct (e2 <=? s1) eqn:E1;
        [|destruct (s2 <? e1) eqn:E2; [destruct ((s2 <? s1) && (e1 <? e2)) eqn:E3|]].
      * apply (IHB e2). exact HB'.
      * exact (IHA' _ lb i HB).
      * apply Forall_app. split.
        -- destruct (s1 <? s2) eqn:E4; [|constructor].
           constructor; [apply diff_parent_ok_head; lia|constructor].
        -- apply dinner_parents; [exact IHA|lia|exact HB'|lia].
      * constructor; [apply diff_parent_ok_head; lia|]. exact (IHA' _ lb i HB).
Qed.

Theorem diff_parents A B :
  canonical A -> canonical B ->
  Forall (fun r => let '(s, e, i) := r in
            exists I, nth_error A i = Some I /\ within (s, e) I /\ s < e) (k_diff_meta A B).
Proof.
  intros HA HB. destruct (canonical_canon _ HA) as [la Hla]. destruct (canonical_canon _ HB) as [lb Hlb].
  unfold k_diff_meta. eapply Forall_impl'; [|eapply diff_go_parents; eassumption].
  intros [[s e] i0]. cbn. intros (H1 & I & H2 & H3).
  rewrite Nat.sub_0_r in H2. exists I. tauto.
Qed.

(* 9. every output endpoint is an endpoint of an input *)
Definition ep_ok (A B : iset) (I : Z * Z) : Prop :=
  (endpoint (fst I) A \/ endpoint (fst I) B) /\ (endpoint (snd I) A \/ endpoint (snd I) B).

Lemma endpoint_incl x A B : incl A B -> endpoint x A -> endpoint x B.
Proof.
  unfold endpoint, starts, ends. intros Hi [H|H]; [left|right];
    apply in_map_iff in H; destruct H as (y & <- & Hy); apply in_map; apply Hi; exact Hy.
Qed.

Lemma ep_ok_mono A0 A1 B0 B1 I : incl A0 A1 -> incl B0 B1 -> ep_ok A0 B0 I -> ep_ok A1 B1 I.
Proof.
  intros HA HB [[H|H] [H'|H']]; split; eauto using endpoint_incl.
Qed.

Ltac ep_head := unfold ep_ok, endpoint, starts, ends; cbn [map fst snd In]; tauto.

Lemma dinner_endpoints A' s1 e1 i :
  (forall B k, Forall (ep_ok A' B) (map fst (diff_go A' B k))) ->
  forall B pe ps,
  Forall (ep_ok ((s1, e1) :: A') ((ps, pe) :: B)) (map fst (dinner A' e1 i pe (ps, pe) B)).
Proof.
  intros IHA.
  assert (IHA' : forall B0 B1 k, incl B0 B1 ->
            Forall (ep_ok ((s1, e1) :: A') B1) (map fst (diff_go A' B0 k))).
  { intros B0 B1 k Hi. eapply Forall_impl'; [|exact (IHA B0 k)]. intros I.
    apply ep_ok_mono; [apply incl_tl, incl_refl|exact Hi]. }
  induction B as [|[s2 e2] B IHB]; intros pe ps.
  - rewrite dinner_nil. destruct (pe <? e1) eqn:E.
    + cbn [map fst]. constructor; [ep_head|]. apply IHA'. apply incl_nil_l.
    + apply IHA'. apply incl_refl.
  - rewrite dinner_cons. destruct (s2 <? e1) eqn:E1; [|destruct (pe <? e1) eqn:E2].
    + cbn [map fst]. constructor; [ep_head|].
      eapply Forall_impl'; [|exact (IHB e2 s2)]. intros I.
      apply ep_ok_mono; [apply incl_refl|apply incl_tl, incl_refl].
    + cbn [map fst]. constructor; [ep_head|]. apply IHA'. apply incl_tl, incl_refl.
    + apply IHA'. apply incl_refl.
Qed.

Lemma diff_go_endpoints : forall A B i, Forall (ep_ok A B) (map fst (diff_go A B i)).
Proof.
  induction A as [|[s1 e1] A' IHA].
  - intros. constructor.
  - assert (IHA' : forall B0 B1 k, incl B0 B1 ->
              Forall (ep_ok ((s1, e1) :: A') B1) (map fst (diff_go A' B0 k))).
    { intros B0 B1 k Hi. eapply Forall_impl'; [|exact (IHA B0 k)]. intros I.
      apply ep_ok_mono; [apply incl_tl, incl_refl|exact Hi]. }
    induction B as [|[s2 e2] B' IHB]; intros i.
    + rewrite diff_go_cons_nil. cbn [map fst]. constructor; [ep_head|]. apply IHA'. apply incl_refl.
    + rewrite diff_go_cons_cons.
      destruct (e2 <=? s1) eqn:E1;
        [|destruct (s2 <? e1) eqn:E2; [destruct ((s2 <? s1) && (e1 <? e2)) eqn:E3|]].
      * eapply Forall_impl'; [|exact (IHB i)]. intros I.
        apply ep_ok_mono; [apply incl_refl|apply incl_tl, incl_refl].
      * apply IHA'. apply incl_refl.
      * rewrite map_app. apply Forall_app. split.
        -- destruct (s1 <? s2) eqn:E4; cbn [map fst]; [|constructor].
           constructor; [ep_head|constructor].
        -- apply dinner_endpoints. exact IHA.
      * cbn [map fst]. constructor; [ep_head|]. apply IHA'. apply incl_refl.
Qed.

Theorem diff_endpoints A B :
  Forall (fun I => endpoint (fst I) A \/ endpoint (fst I) B) (k_diff A B) /\
  Forall (fun I => endpoint (snd I) A \/ endpoint (snd I) B) (k_diff A B).
Proof.
  unfold k_diff, k_diff_meta.
  split; (eapply Forall_impl'; [|apply diff_go_endpoints]); unfold ep_ok; cbv beta; tauto.
Qed.

(* ------------------------------------------------------------------ *)
Print Assumptions inter_mem_exact.
Print Assumptions inter_mem.
Print Assumptions inter_raw_canonical.
Print Assumptions inter_parents.
Print Assumptions inter_endpoints.
Print Assumptions diff_mem.
Print Assumptions diff_raw_canonical.
Print Assumptions diff_parents.
Print Assumptions diff_endpoints.
