(* Proofs about compute_perievent_continuous's model (Model/Perievent.v: pc_win, pc_kernel, scatter,
   pc_columns, pc_public), relative to the nearest-sample theorem (NearestHyp, proved elsewhere). *)
From Verif Require Import Base.Prelude Model.Restrict Model.Count Model.Slice Model.Perievent Proofs.BaseLemmas Proofs.RestrictProofs Proofs.CountProofs Proofs.SliceProofs.
From Coq Require Import ZifyBool.

Definition NearestHyp : Prop := forall es xs, es <> [] -> sortedZ es -> sortedZ xs ->
  pc_epoch_pos es xs 0%nat = map (fun x => argmin_last x es) xs.

(* ------------------------------------------------------------------ *)
(* list utilities                                                      *)
(* ------------------------------------------------------------------ *)
Section ListUtil.
  Context {A : Type}.

  Lemma firstn_repeat (a : A) n : forall k, firstn k (repeat a n) = repeat a (Nat.min k n).
  Proof.
    induction n as [|n IH]; intros k.
    - rewrite Nat.min_0_r. destruct k; reflexivity.
    - destruct k; simpl; [reflexivity|]. rewrite IH. reflexivity.
  Qed.

  Lemma skipn_repeat (a : A) n : forall k, skipn k (repeat a n) = repeat a (n - k).
  Proof.
    induction n as [|n IH]; intros k.
    - destruct k; reflexivity.
    - destruct k; simpl; [reflexivity|]. apply IH.
  Qed.

  Lemma nth_map_Some (l : list A) : forall i, nth i (map Some l) None = nth_error l i.
  Proof. induction l as [|x r IH]; intros [|i]; simpl; auto. Qed.

  Lemma nth_error_firstn (l : list A) : forall n i,
    nth_error (firstn n l) i = if (i <? n)%nat then nth_error l i else None.
  Proof.
    induction l as [|x r IH]; intros n i.
    - rewrite firstn_nil. destruct i; destruct (_ <? _)%nat; reflexivity.
    - destruct n as [|n].
      + simpl. destruct i; reflexivity.
      + destruct i as [|i]; simpl; [reflexivity|]. rewrite IH.
        change (S i <? S n)%nat with (i <? n)%nat. reflexivity.
  Qed.

  Lemma nth_error_skipn' (l : list A) : forall n i, nth_error (skipn n l) i = nth_error l (n + i).
  Proof.
    induction l as [|x r IH]; intros n i.
    - rewrite skipn_nil. destruct i, n; reflexivity.
    - destruct n as [|n]; simpl; [reflexivity|]. apply IH.
  Qed.

  Lemma nth_error_slice lo hi (l : list A) i :
    nth_error (slice lo hi l) i = if (i <? hi - lo)%nat then nth_error l (lo + i) else None.
  Proof. unfold slice. rewrite nth_error_firstn, nth_error_skipn'. reflexivity. Qed.

  Lemma length_slice lo hi (l : list A) : length (slice lo hi l) = Nat.min (hi - lo) (length l - lo).
  Proof. unfold slice. rewrite firstn_length, skipn_length. reflexivity. Qed.

  Lemma length_slice_le lo hi (l : list A) : (length (slice lo hi l) <= hi - lo)%nat.
  Proof. rewrite length_slice. lia. Qed.
End ListUtil.

Lemma nth_map_seq {B} (f : nat -> B) a n d rho : (rho < n)%nat -> nth rho (map f (seq a n)) d = f (a + rho)%nat.
Proof.
  intros H. rewrite (nth_indep _ d (f 0%nat)) by (rewrite map_length, seq_length; exact H).
  rewrite map_nth, seq_nth by exact H. reflexivity.
Qed.

(* ------------------------------------------------------------------ *)
(* window_spec                                                         *)
(* ------------------------------------------------------------------ *)
Theorem window_spec_length : forall (A : Type) n0 n1 (vals : list A) p, length (window_spec n0 n1 vals p) = (n0 + n1 + 1)%nat.
Proof. intros. unfold window_spec. rewrite map_length, seq_length. reflexivity. Qed.

Theorem window_spec_nth : forall (A : Type) n0 n1 (vals : list A) p rho, (rho < n0 + n1 + 1)%nat ->
  nth rho (window_spec n0 n1 vals p) None
  = if ((n0 <=? p + rho) && (p + rho - n0 <? length vals))%nat then nth_error vals (p + rho - n0) else None.
Proof.
  intros A n0 n1 vals p rho H. unfold window_spec. rewrite nth_map_seq by exact H. cbn [Nat.add].
  destruct (n0 <=? p + rho)%nat; cbn [andb]; [|reflexivity].
  destruct (Nat.ltb_spec (p + rho - n0) (length vals)) as [Hl|Hl]; [reflexivity|].
  apply nth_error_None. exact Hl.
Qed.

(* ------------------------------------------------------------------ *)
(* write_rows                                                          *)
(* ------------------------------------------------------------------ *)
Lemma write_rows_blank {A} total st (vals : list A) : (st + length vals <= total)%nat ->
  write_rows (repeat None total) st vals
  = repeat None st ++ map Some vals ++ repeat None (total - st - length vals).
Proof.
  intros H. unfold write_rows. rewrite firstn_repeat, skipn_repeat.
  replace (Nat.min st total) with st by lia.
  replace (total - (st + length vals))%nat with (total - st - length vals)%nat by lia. reflexivity.
Qed.

Lemma write_rows_length {A} (col : list (option A)) st vals : (st + length vals <= length col)%nat ->
  length (write_rows col st vals) = length col.
Proof.
  intros H. unfold write_rows. rewrite !app_length, map_length, skipn_length, firstn_length. lia.
Qed.

Lemma nth_write_rows_blank {A} total st (vals : list A) rho : (st + length vals <= total)%nat ->
  nth rho (write_rows (repeat None total) st vals) None
  = if ((st <=? rho) && (rho <? st + length vals))%nat then nth_error vals (rho - st) else None.
Proof.
  intros H. rewrite write_rows_blank by exact H.
  destruct (Nat.leb_spec st rho) as [H1|H1]; cbn [andb].
  - rewrite app_nth2 by (rewrite repeat_length; lia). rewrite repeat_length.
    destruct (Nat.ltb_spec rho (st + length vals)) as [H2|H2].
    + rewrite app_nth1 by (rewrite map_length; lia). apply nth_map_Some.
    + rewrite app_nth2 by (rewrite map_length; lia).
      destruct (Nat.lt_ge_cases (rho - st - length (map Some vals)) (total - st - length vals)) as [H3|H3].
      * apply nth_repeat_lt. exact H3.
      * apply nth_overflow. rewrite repeat_length. exact H3.
  - rewrite app_nth1 by (rewrite repeat_length; lia). apply nth_repeat_lt. lia.
Qed.

Theorem place_window : forall (A : Type) n0 n1 (vals : list A) p, (p < length vals)%nat ->
  let '(lo, hi, st) := pc_win n0 n1 0 (length vals) p in
  write_rows (repeat None (n0 + n1 + 1)) st (slice lo hi vals) = window_spec n0 n1 vals p.
Proof.
  intros A n0 n1 vals p Hp. unfold pc_win. cbv zeta.
  set (left := Nat.min n0 p). set (right := Nat.min n1 (length vals - p - 1)).
  assert (Hlen : length (slice (0 + p - left) (0 + p + right + 1) vals) = (left + right + 1)%nat).
  { rewrite length_slice. lia. }
  assert (Hfit : (n0 - left + length (slice (0 + p - left) (0 + p + right + 1) vals) <= n0 + n1 + 1)%nat).
  { rewrite Hlen. lia. }
  apply (nth_ext _ _ None None).
  - rewrite write_rows_length by (rewrite repeat_length; exact Hfit).
    rewrite repeat_length, window_spec_length. reflexivity.
  - intros rho Hrho. rewrite write_rows_length in Hrho by (rewrite repeat_length; exact Hfit).
    rewrite repeat_length in Hrho.
    rewrite nth_write_rows_blank by exact Hfit.
    rewrite window_spec_nth by exact Hrho. rewrite Hlen, nth_error_slice.
    destruct (Nat.leb_spec (n0 - left) rho) as [H1|H1];
      destruct (Nat.ltb_spec rho (n0 - left + (left + right + 1))) as [H2|H2];
      destruct (Nat.leb_spec n0 (p + rho)) as [H3|H3];
      destruct (Nat.ltb_spec (p + rho - n0) (length vals)) as [H4|H4]; cbn [andb]; try reflexivity; try lia.
    destruct (Nat.ltb_spec (rho - (n0 - left)) (0 + p + right + 1 - (0 + p - left))) as [H5|H5]; [|lia].
    f_equal. lia.
Qed.

(* ------------------------------------------------------------------ *)
(* scatter                                                             *)
(* ------------------------------------------------------------------ *)
Lemma write_rows_app3 {A} (a b c : list (option A)) (vals : list A) :
  length b = length vals ->
  write_rows (a ++ b ++ c) (length a) vals = a ++ map Some vals ++ c.
Proof.
  intros Hb. unfold write_rows.
  rewrite firstn_app, firstn_all, Nat.sub_diag. cbn [firstn]. rewrite app_nil_r.
  rewrite skipn_app, skipn_all2 by lia. cbn [app].
  replace (length a + length vals - length a)%nat with (length b) by lia.
  rewrite skipn_app, skipn_all, Nat.sub_diag. reflexivity.
Qed.

Lemma write_rows_idem {A} (col : list (option A)) st (vals : list A) : (st + length vals <= length col)%nat ->
  write_rows (write_rows col st vals) st vals = write_rows col st vals.
Proof.
  intros H. unfold write_rows at 2 3.
  assert (E : length (firstn st col) = st) by (apply firstn_length_le; lia).
  pose proof (write_rows_app3 (firstn st col) (map Some vals) (skipn (st + length vals) col) vals
                (map_length _ _)) as W.
  rewrite E in W. exact W.
Qed.

Lemma fold_left_prod {S X Y} (g : X -> Y -> S -> S) (l2 : list Y) : forall (l1 : list X) (M : S),
  fold_left (fun M ws => fold_left (fun M' st => g ws st M') l2 M) l1 M
  = fold_left (fun M q => g (fst q) (snd q) M) (list_prod l1 l2) M.
Proof.
  induction l1 as [|x r IH]; intros M; [reflexivity|].
  cbn [fold_left list_prod]. rewrite fold_left_app, <- IH. f_equal.
  clear. revert M. induction l2 as [|y l2 IH]; intros M; [reflexivity|]. cbn [map fold_left fst snd]. apply IH.
Qed.

Section Scatter.
  Context {A : Type} (total : nat) (data : list A) (wins : list (nat * nat * nat))
          (Hfit : Forall (fun w => (pc_wstart w + pc_wsize w <= total)%nat) wins).

  Let written (w : nat * nat * nat) : list (option A) :=
    write_rows (repeat None total) (pc_wstart w) (slice (fst (fst w)) (snd (fst w)) data).
  Let visited (ps : list (nat * nat)) (w : nat * nat * nat) : bool :=
    existsb (fun q => (pc_wsize w =? fst q)%nat && (pc_wstart w =? snd q)%nat) ps.
  Let state (ps : list (nat * nat)) : list (list (option A)) :=
    map (fun w => if visited ps w then written w else repeat None total) wins.

  Lemma scatter_group_step ps ws st :
    scatter_group data wins ws st (state ps) = state (ps ++ [(ws, st)]).
  Proof.
    unfold scatter_group, state. rewrite combine_map_self, map_map.
    apply map_ext_in. intros w Hin.
    unfold visited. rewrite existsb_app. cbn [existsb fst snd]. rewrite orb_false_r.
    destruct ((pc_wsize w =? ws)%nat && (pc_wstart w =? st)%nat) eqn:E.
    - rewrite orb_true_r.
      assert (Est : st = pc_wstart w) by lia. subst st.
      destruct (existsb _ ps); [|reflexivity].
      unfold written. apply write_rows_idem. rewrite repeat_length.
      rewrite Forall_forall in Hfit. specialize (Hfit w Hin).
      pose proof (length_slice_le (fst (fst w)) (snd (fst w)) data). unfold pc_wsize in Hfit. lia.
    - rewrite orb_false_r. reflexivity.
  Qed.

  Lemma scatter_fold todo : forall done,
    fold_left (fun M q => scatter_group data wins (fst q) (snd q) M) todo (state done) = state (done ++ todo).
  Proof.
    induction todo as [|[ws st] r IH]; intros done.
    - rewrite app_nil_r. reflexivity.
    - cbn [fold_left fst snd]. rewrite scatter_group_step, IH, <- app_assoc. reflexivity.
  Qed.

  Lemma scatter_columns_sec :
    scatter total data wins = map written wins.
  Proof.
    unfold scatter. rewrite fold_left_prod.
    change (map (fun _ => repeat None total) wins) with (state []).
    rewrite scatter_fold. cbn [app]. unfold state. apply map_ext_in. intros w Hin.
    replace (visited _ w) with true; [reflexivity|]. symmetry. unfold visited.
    apply existsb_exists. exists (pc_wsize w, pc_wstart w). split.
    - apply in_prod; apply nodup_In; apply in_map; exact Hin.
    - cbn [fst snd]. rewrite !Nat.eqb_refl. reflexivity.
  Qed.
End Scatter.

Theorem scatter_columns : forall (A : Type) total (data : list A) wins,
  Forall (fun w => (pc_wstart w + pc_wsize w <= total)%nat) wins ->
  scatter total data wins
  = map (fun w => write_rows (repeat None total) (pc_wstart w) (slice (fst (fst w)) (snd (fst w)) data)) wins.
Proof. intros A total data wins H. apply scatter_columns_sec. exact H. Qed.

(* ------------------------------------------------------------------ *)
(* the kernel loop                                                     *)
(* ------------------------------------------------------------------ *)
Lemma argmin_last_go_lt x es : forall i best bd, (best < i)%nat ->
  (argmin_last_go x es i best bd < i + length es)%nat.
Proof.
  induction es as [|y r IH]; intros i best bd H; cbn [argmin_last_go length]; [lia|].
  destruct (Z.abs (y - x) <=? bd).
  - specialize (IH (S i) i (Z.abs (y - x))). lia.
  - specialize (IH (S i) best bd). lia.
Qed.

Lemma argmin_last_lt x es : es <> [] -> (argmin_last x es < length es)%nat.
Proof.
  destruct es as [|y r]; [congruence|]. intros _. unfold argmin_last. cbn [length].
  pose proof (argmin_last_go_lt x r 1 0 (Z.abs (y - x))). lia.
Qed.

Lemma window_spec_nil {A} n0 n1 p : window_spec n0 n1 (@nil A) p = repeat None (n0 + n1 + 1).
Proof.
  apply (nth_ext _ _ None None).
  - rewrite window_spec_length, repeat_length. reflexivity.
  - intros rho H. rewrite window_spec_length in H. rewrite window_spec_nth by exact H.
    rewrite nth_repeat_lt by exact H. cbn [length].
    destruct (n0 <=? p + rho)%nat; cbn [andb]; [|reflexivity].
    destruct (_ <? 0)%nat eqn:E; [lia|reflexivity].
Qed.

Lemma slice_app_mid {A} (pre cur post : list A) lo hi : (hi <= length cur)%nat ->
  slice (length pre + lo) (length pre + hi) (pre ++ cur ++ post) = slice lo hi cur.
Proof.
  intros H. unfold slice.
  rewrite skipn_app, skipn_all2 by lia. cbn [app].
  replace (length pre + lo - length pre)%nat with lo by lia.
  replace (length pre + hi - (length pre + lo))%nat with (hi - lo)%nat by lia.
  rewrite skipn_app, firstn_app, skipn_length.
  replace (hi - lo - (length cur - lo))%nat with 0%nat by lia. cbn [firstn]. apply app_nil_r.
Qed.

Lemma pc_win_fit n0 n1 off len p :
  let w := pc_win n0 n1 off len p in (pc_wstart w + pc_wsize w <= n0 + n1 + 1)%nat.
Proof. unfold pc_win, pc_wstart, pc_wsize. cbn [fst snd]. lia. Qed.

Lemma pc_kernel_go_fit n0 n1 es_xs : forall off,
  Forall (fun w => (pc_wstart w + pc_wsize w <= n0 + n1 + 1)%nat) (pc_kernel_go n0 n1 off es_xs).
Proof.
  induction es_xs as [|[es xs] r IH]; intros off; cbn [pc_kernel_go]; [constructor|].
  apply Forall_app. split; [|apply IH].
  apply Forall_forall. intros w Hin.
  destruct es as [|y es']; [|destruct xs as [|x xs']].
  - apply in_map_iff in Hin. destruct Hin as (? & <- & _). unfold pc_wstart, pc_wsize. cbn [fst snd]. lia.
  - destruct Hin.
  - apply in_map_iff in Hin. destruct Hin as (p & <- & _). apply pc_win_fit.
Qed.

Section Kernel.
  Context {A : Type} (n0 n1 : nat).
  Let blank : list (option A) := repeat None (n0 + n1 + 1).
  Let column (data : list A) (w : nat * nat * nat) : list (option A) :=
    write_rows blank (pc_wstart w) (slice (fst (fst w)) (snd (fst w)) data).

  Lemma column_win (pre vals post : list A) p : (p < length vals)%nat ->
    column (pre ++ vals ++ post) (pc_win n0 n1 (length pre) (length vals) p) = window_spec n0 n1 vals p.
  Proof.
    intros Hp. pose proof (place_window A n0 n1 vals p Hp) as W.
    unfold column, pc_win, pc_wstart in *. cbv zeta in *. cbn [fst snd].
    rewrite <- W. unfold blank. f_equal.
    set (left := Nat.min n0 p). set (right := Nat.min n1 (length vals - p - 1)).
    replace (length pre + p - left)%nat with (length pre + (0 + p - left))%nat by lia.
    replace (length pre + p + right + 1)%nat with (length pre + (0 + p + right + 1))%nat by lia.
    apply slice_app_mid. lia.
  Qed.

  Lemma column_zero data : column data (0, 0, 0)%nat = blank.
  Proof.
    unfold column, pc_wstart. cbn [fst snd]. unfold slice, write_rows. cbn [firstn skipn Nat.sub map app length].
    reflexivity.
  Qed.

  Definition epoch_ok (e : list Z * list Z * list A) : Prop :=
    length (snd e) = length (fst (fst e))
    /\ (fst (fst e) <> [] -> pc_epoch_pos (fst (fst e)) (snd (fst e)) 0%nat
                             = map (fun x => argmin_last x (fst (fst e))) (snd (fst e))).

  Lemma kernel_columns epochs : Forall epoch_ok epochs -> forall pre,
    map (column (pre ++ concat (map snd epochs))) (pc_kernel_go n0 n1 (length pre) (map fst epochs))
    = concat (map (fun e => map (fun x => window_spec n0 n1 (snd e) (argmin_last x (fst (fst e)))) (snd (fst e)))
                  epochs).
  Proof.
    induction 1 as [|[[es xs] vals] r [Hl Hn] Hr IH]; intros pre; [reflexivity|].
    cbn [fst snd] in Hl, Hn.
    cbn [map fst snd concat pc_kernel_go]. rewrite map_app. f_equal.
    - destruct es as [|y es'].
      + destruct vals; [|discriminate Hl]. rewrite !map_map. apply map_ext. intros x.
        rewrite column_zero, window_spec_nil. reflexivity.
      + destruct xs as [|x xs']; [reflexivity|].
        rewrite Hn by congruence. rewrite !map_map. apply map_ext. intros x'.
        rewrite <- Hl. apply column_win. rewrite Hl. apply argmin_last_lt. congruence.
    - specialize (IH (pre ++ vals)). rewrite app_length, <- app_assoc, Hl in IH. exact IH.
  Qed.
End Kernel.

(* ------------------------------------------------------------------ *)
(* per-epoch decomposition of the restricted arrays                    *)
(* ------------------------------------------------------------------ *)
Lemma map_fst_filter_combine {A} (p : Z -> bool) ts : forall rows : list A, length rows = length ts ->
  map fst (filter (fun tv => p (fst tv)) (combine ts rows)) = filter p ts.
Proof.
  induction ts as [|t r IH]; intros [|x rows] Hl; simpl in Hl; try lia; [reflexivity|].
  cbn [combine filter fst]. destruct (p t); cbn [map fst]; rewrite IH by lia; reflexivity.
Qed.

Lemma combine_map_map {X B C} (f : X -> B) (g : X -> C) l :
  combine (map f l) (map g l) = map (fun x => (f x, g x)) l.
Proof. induction l as [|x r IH]; [reflexivity|]. cbn [map combine]. rewrite IH. reflexivity. Qed.

Lemma restricted_data_epochs {A} (d : A) ts rows ep : sortedZ ts -> canonical ep -> length rows = length ts ->
  select d rows (restrict_idx ts ep)
  = concat (map (fun iv => map snd (filter (fun tv => inb (fst tv) iv) (combine ts rows))) ep).
Proof.
  intros Hs Hc Hl. destruct (canonical_canon _ Hc) as [lo Hlo].
  destruct (scan_spec ep lo 0%nat ts Hlo Hs) as [H _].
  { apply Forall_forall; intros; right; exact I. }
  unfold restrict_idx, select at 1. rewrite H, concat_map, map_map. f_equal. apply map_ext. intros iv.
  exact (select_filter_idx d (fun x => inb x iv) ts [] rows Hl).
Qed.

Theorem pc_columns_spec_from : NearestHyp ->
  forall (A : Type) (d : A) ts rows tref ep n0 n1,
  sortedZ ts -> sortedZ tref -> canonical ep -> length rows = length ts ->
  pc_columns d ts rows tref ep n0 n1 = pc_spec ts rows tref ep n0 n1.
Proof.
  intros HN A d ts rows tref ep n0 n1 Hs Hr Hc Hl.
  unfold pc_columns, pc_kernel. rewrite scatter_columns by apply pc_kernel_go_fit.
  rewrite restricted_data_epochs by assumption.
  rewrite !samples_per_interval_spec by assumption. rewrite combine_map_map.
  set (er := fun iv : Z * Z => filter (fun tv : Z * A => inb (fst tv) iv) (combine ts rows)).
  set (epochs := map (fun iv => (filter (fun t => inb t iv) ts, filter (fun t => inb t iv) tref, map snd (er iv))) ep).
  assert (Hok : Forall (epoch_ok (A:=A)) epochs).
  { apply Forall_forall. intros e He. apply in_map_iff in He. destruct He as (iv & <- & _).
    split; cbn [fst snd].
    - unfold er. rewrite map_length, <- (map_length fst). f_equal.
      apply (map_fst_filter_combine (fun t => inb t iv)). exact Hl.
    - intros Hne. apply HN; [exact Hne| |]; apply filter_sortedZ; assumption. }
  pose proof (kernel_columns n0 n1 epochs Hok []) as K. cbv zeta in K. cbn [app length] in K.
  unfold epochs in K at 1 2. rewrite !map_map in K. cbn [fst snd] in K.
  fold (er) in K |- *.
  etransitivity; [exact K|]. unfold pc_spec, epochs. rewrite map_map. f_equal. apply map_ext. intros iv.
  cbn [fst snd]. apply map_ext. intros x. fold (er iv). f_equal.
  unfold er. symmetry. f_equal. apply (map_fst_filter_combine (fun t => inb t iv)). exact Hl.
Qed.

(* ------------------------------------------------------------------ *)
(* the public wrapper                                                  *)
(* ------------------------------------------------------------------ *)
Lemma mask_filter_map {X B} (b : X -> bool) (f : X -> B) l :
  mask_filter (map b l) (map f l) = map f (filter b l).
Proof.
  induction l as [|x r IH]; [reflexivity|]. cbn [map mask_filter filter].
  destruct (b x); cbn [map]; rewrite IH; reflexivity.
Qed.

Lemma filter_seq_range (q : nat -> bool) a n a' n' : (a <= a')%nat -> (a' + n' <= a + n)%nat ->
  (forall k, (a <= k < a + n)%nat -> q k = ((a' <=? k) && (k <? a' + n'))%nat) ->
  filter q (seq a n) = seq a' n'.
Proof.
  intros H1 H2 Hq.
  replace n with ((a' - a) + (n' + (a + n - a' - n')))%nat by lia.
  rewrite !seq_app, !filter_app.
  replace (a + (a' - a))%nat with a' by lia.
  rewrite (filter_none q (seq a (a' - a))), (filter_all q (seq a' n')), (filter_none q (seq (a' + n') _)).
  - cbn [app]. apply app_nil_r.
  - apply Forall_forall. intros k Hk. apply in_seq in Hk. rewrite Hq by lia. lia.
  - apply Forall_forall. intros k Hk. apply in_seq in Hk. rewrite Hq by lia. lia.
  - apply Forall_forall. intros k Hk. apply in_seq in Hk. rewrite Hq by lia. lia.
Qed.

Lemma map_seq_shift {B} (f : nat -> B) a n : map f (seq a n) = map (fun j => f (a + j)%nat) (seq 0 n).
Proof.
  apply (nth_ext _ _ (f 0%nat) (f 0%nat)).
  - rewrite !map_length, !seq_length. reflexivity.
  - intros i Hi. rewrite map_length, seq_length in Hi. rewrite !nth_map_seq by exact Hi. reflexivity.
Qed.

Lemma mul_le_div m b w : 0 < b -> (m * b <= w <-> m <= w / b).
Proof.
  intros Hb. split; intros H.
  - apply Z.div_le_lower_bound; lia.
  - pose proof (Z.mul_div_le w b Hb). nia.
Qed.

Section Public.
  Context (bs w0 w1 : Z) (Hbs : 0 < bs) (Hw0 : 0 <= w0) (Hw1 : 0 <= w1).
  Let n0 := Z.to_nat (cdiv w0 bs).
  Let n1 := Z.to_nat (cdiv w1 bs).
  Let k0 := Z.to_nat (w0 / bs).
  Let k1 := Z.to_nat (w1 / bs).
  Let tfun (k : nat) : Z := (Z.of_nat k - Z.of_nat n0) * bs.
  Let keep := map (fun t => inb t (- w0, w1)) (map tfun (seq 0 (n0 + n1 + 1))).

  Lemma floor_le_ceil w : 0 <= w -> 0 <= w / bs <= cdiv w bs.
  Proof.
    intros Hw. split; [apply Z.div_pos; lia|]. unfold cdiv. apply Z.div_le_mono; lia.
  Qed.

  Lemma keep_range k :
    inb (tfun k) (- w0, w1) = ((n0 - k0 <=? k) && (k <? n0 - k0 + (k0 + k1 + 1)))%nat.
  Proof.
    pose proof (floor_le_ceil w0 Hw0) as F0. pose proof (floor_le_ceil w1 Hw1) as F1.
    assert (E0 : Z.of_nat n0 = cdiv w0 bs) by (unfold n0; lia).
    assert (Ek0 : Z.of_nat k0 = w0 / bs) by (unfold k0; lia).
    assert (Ek1 : Z.of_nat k1 = w1 / bs) by (unfold k1; lia).
    pose proof (mul_le_div (Z.of_nat n0 - Z.of_nat k) bs w0 Hbs) as M0.
    pose proof (mul_le_div (Z.of_nat k - Z.of_nat n0) bs w1 Hbs) as M1.
    unfold inb, tfun. cbn [fst snd].
    destruct (Z.leb_spec (- w0) ((Z.of_nat k - Z.of_nat n0) * bs)) as [L0|L0];
      destruct (Z.leb_spec ((Z.of_nat k - Z.of_nat n0) * bs) w1) as [L1|L1];
      destruct (Nat.leb_spec (n0 - k0) k) as [L2|L2];
      destruct (Nat.ltb_spec k (n0 - k0 + (k0 + k1 + 1))) as [L3|L3]; cbn [andb]; try reflexivity; exfalso; nia.
  Qed.

  Lemma mask_keep {B} (f : nat -> B) :
    mask_filter keep (map f (seq 0 (n0 + n1 + 1))) = map (fun j => f (n0 - k0 + j)%nat) (seq 0 (k0 + k1 + 1)).
  Proof.
    pose proof (floor_le_ceil w0 Hw0) as F0. pose proof (floor_le_ceil w1 Hw1) as F1.
    unfold keep. rewrite map_map, mask_filter_map.
    rewrite (filter_seq_range _ 0 (n0 + n1 + 1) (n0 - k0) (k0 + k1 + 1)).
    - apply map_seq_shift.
    - lia.
    - unfold n0, n1, k0, k1. lia.
    - intros k _. apply keep_range.
  Qed.

  Lemma mask_keep_window {A} (vals : list A) p :
    mask_filter keep (window_spec n0 n1 vals p) = window_spec k0 k1 vals p.
  Proof.
    pose proof (floor_le_ceil w0 Hw0) as F0.
    assert (Hk : (k0 <= n0)%nat) by (unfold n0, k0; lia).
    unfold window_spec. rewrite mask_keep. apply map_ext. intros j.
    replace (p + (n0 - k0 + j) - n0)%nat with (p + j - k0)%nat by lia.
    destruct (Nat.leb_spec n0 (p + (n0 - k0 + j))); destruct (Nat.leb_spec k0 (p + j)); try reflexivity; lia.
  Qed.

  Lemma mask_keep_times :
    mask_filter keep (map tfun (seq 0 (n0 + n1 + 1)))
    = map (fun k => (Z.of_nat k - Z.of_nat k0) * bs) (seq 0 (k0 + k1 + 1)).
  Proof.
    pose proof (floor_le_ceil w0 Hw0) as F0.
    assert (Hk : (k0 <= n0)%nat) by (unfold n0, k0; lia).
    rewrite mask_keep. apply map_ext. intros j. unfold tfun. f_equal. lia.
  Qed.
End Public.

Theorem pc_public_spec_from : NearestHyp ->
  forall (A : Type) (d : A) ts rows tref ep w0 w1,
  0 < nth 1 ts 0 - nth 0 ts 0 -> 0 <= w0 -> 0 <= w1 ->
  sortedZ ts -> sortedZ tref -> canonical ep -> length rows = length ts ->
  pc_public d ts rows tref ep w0 w1 = pc_public_spec ts rows tref ep w0 w1.
Proof.
  intros HN A d ts rows tref ep w0 w1 Hbs Hw0 Hw1 Hs Hr Hc Hl.
  unfold pc_public, pc_public_spec. cbv zeta.
  set (bs := nth 1 ts 0 - nth 0 ts 0) in *.
  rewrite pc_columns_spec_from by assumption.
  f_equal.
  - exact (mask_keep_times bs w0 w1 Hbs Hw0 Hw1).
  - unfold pc_spec. rewrite concat_map, map_map. f_equal. apply map_ext. intros iv.
    rewrite map_map. apply map_ext. intros x.
    exact (mask_keep_window bs w0 w1 Hbs Hw0 Hw1 _ _).
Qed.

