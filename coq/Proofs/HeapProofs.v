From Coq Require Import List Arith Bool Lia.
From Verif Require Import Model.Heap.
Import ListNotations.

Section HeapProofs.
Variable V : Type.
Notation heap := (heap V).
Notation opn := (opn V).

(* one admissible step leaves every allocated location as it was *)
Lemma admissible_step (o : opn) (h : heap) (l : loc) :
  admissible V o -> h l <> None -> exec V o h l = h l.
Proof.
  intros [Hs Hf] Hl. apply Hs. intros Hin. apply Hl. apply Hf. exact Hin.
Qed.

Lemma admissible_step_keeps_alloc (o : opn) (h : heap) (l : loc) :
  admissible V o -> h l <> None -> exec V o h l <> None.
Proof. intros Ha Hl. rewrite (admissible_step o h l Ha Hl). exact Hl. Qed.

(* frame over histories: whatever admissible operations run, in whatever order, on whatever aliasing
   earlier results introduced, every location that was allocated at the start is unchanged at the end *)
Theorem frame_histories (ops : list opn) : forall (h : heap) (l : loc),
  Forall (admissible V) ops -> h l <> None -> run_ops V ops h l = h l.
Proof.
  induction ops as [|o r IH]; intros h l Hall Hl; simpl; [reflexivity|].
  inversion Hall as [|? ? Ho Hr]; subst.
  unfold run_ops in *. simpl. rewrite (IH (exec V o h) l Hr).
  - apply admissible_step; assumption.
  - apply admissible_step_keeps_alloc; assumption.
Qed.

Corollary snapshot_unchanged (ops : list opn) (h : heap) (x : object) :
  Forall (admissible V) ops -> live V h x -> snapshot V (run_ops V ops h) x = snapshot V h x.
Proof.
  intros Hall Hlive. unfold snapshot. apply map_ext_in. intros l Hin.
  apply frame_histories; [exact Hall|apply Hlive; exact Hin].
Qed.

(* interleaving: argument objects stay intact across any prefix/suffix split of a history *)
Corollary snapshot_unchanged_at_every_point (pre post : list opn) (h : heap) (x : object) :
  Forall (admissible V) (pre ++ post) -> live V h x ->
  snapshot V (run_ops V pre h) x = snapshot V h x /\ snapshot V (run_ops V (pre ++ post) h) x = snapshot V h x.
Proof.
  intros Hall Hlive. split; apply snapshot_unchanged; auto.
  apply Forall_app in Hall. tauto.
Qed.

(* the sanctioned mutator changes only the addressed location *)
Theorem setitem_local (l0 : loc) (v : V) (h : heap) (l : loc) :
  l <> l0 -> exec V (setitem V l0 v) h l = h l.
Proof. intros Hne. simpl. destruct (Nat.eqb_spec l l0); [contradiction|reflexivity]. Qed.

Theorem setitem_sound (l0 : loc) (v : V) : summary_sound V (setitem V l0 v).
Proof.
  intros h l Hnin. simpl in *. destruct (Nat.eqb_spec l l0); [|reflexivity].
  exfalso. apply Hnin. left. symmetry. assumption.
Qed.

(* item assignment on o is visible through o' iff they share the location *)
Theorem setitem_visible_iff_aliased (l0 : loc) (v : V) (h : heap) (x : object) :
  ~ In l0 x -> snapshot V (exec V (setitem V l0 v) h) x = snapshot V h x.
Proof.
  intros Hnin. unfold snapshot. apply map_ext_in. intros l Hin.
  apply setitem_local. intros ->. contradiction.
Qed.

(* a history mixing admissible operations and item assignments on objects that do not share a location
   with x leaves x intact *)
Definition harmless_for (x : object) (o : opn) : Prop :=
  admissible V o \/ exists l0 v, ~ In l0 x /\ o = setitem V l0 v.

Theorem frame_with_setitems (ops : list opn) : forall (h : heap) (x : object),
  Forall (harmless_for x) ops -> live V h x -> snapshot V (run_ops V ops h) x = snapshot V h x.
Proof.
  induction ops as [|o r IH]; intros h x Hall Hlive; simpl; [reflexivity|].
  inversion Hall as [|? ? Ho Hr]; subst. unfold run_ops in *. simpl.
  assert (Hstep : snapshot V (exec V o h) x = snapshot V h x).
  { destruct Ho as [Ha|(l0 & v & Hnin & ->)].
    - unfold snapshot. apply map_ext_in. intros l Hin. apply admissible_step; [exact Ha|apply Hlive; exact Hin].
    - apply setitem_visible_iff_aliased. exact Hnin. }
  rewrite IH; [exact Hstep|exact Hr|].
  intros l Hin. unfold snapshot in Hstep.
  assert (E : exec V o h l = h l).
  { destruct Ho as [Ha|(l0 & v & Hnin & ->)].
    - apply admissible_step; [exact Ha|apply Hlive; exact Hin].
    - apply setitem_local. intros ->. contradiction. }
  rewrite E. apply Hlive. exact Hin.
Qed.
End HeapProofs.
