(* C16: the continuous peri-event theorems with the nearest-sample theorem plugged in, and the refuted
   statement about the scatter as it was before the repair. *)
From Verif Require Import Base.Prelude Model.Restrict Model.Count Model.Slice Model.Perievent
  Proofs.PerieventNearestProofs Proofs.PerieventContProofs.

Lemma nearest_hyp : NearestHyp.
Proof. exact pc_epoch_pos_spec. Qed.

Theorem pc_columns_spec : forall (A : Type) (d : A) ts rows tref ep n0 n1,
  sortedZ ts -> sortedZ tref -> canonical ep -> length rows = length ts ->
  pc_columns d ts rows tref ep n0 n1 = pc_spec ts rows tref ep n0 n1.
Proof. exact (pc_columns_spec_from nearest_hyp). Qed.

Theorem pc_public_spec_thm : forall (A : Type) (d : A) ts rows tref ep w0 w1,
  0 < nth 1 ts 0 - nth 0 ts 0 -> 0 <= w0 -> 0 <= w1 ->
  sortedZ ts -> sortedZ tref -> canonical ep -> length rows = length ts ->
  pc_public d ts rows tref ep w0 w1 = pc_public_spec ts rows tref ep w0 w1.
Proof. exact (pc_public_spec_from nearest_hyp). Qed.

(* before the repair: 20 samples 0..19 in one epoch, events nearest to samples 1 and 18, window 2 + 2:
   windows (0,4) at offset 1 and (16,20) at offset 0 have the same size and were written at both offsets *)
Theorem scatter_size_only_refuted :
  exists (total : nat) (data : list Z) (wins : list (nat * nat * nat)),
    Forall (fun w => (pc_wstart w + pc_wsize w <= total)%nat) wins
    /\ scatter_size_only total data wins
       <> map (fun w => write_rows (repeat None total) (pc_wstart w) (slice (fst (fst w)) (snd (fst w)) data)) wins
    /\ scatter_size_only total data wins
       = [[Some 0; Some 0; Some 1; Some 2; Some 3]; [Some 16; Some 16; Some 17; Some 18; Some 19]].
Proof.
  exists 5%nat, (map Z.of_nat (seq 0 20)), [((0, 4), 1); ((16, 20), 0)]%nat.
  split; [repeat constructor|]. split; [vm_compute; discriminate|vm_compute; reflexivity].
Qed.
