(* C16: the continuous peri-event theorems with the nearest-sample theorem plugged in, and the refuted
   statement about the scatter as it was before the repair. *)
From Verif Require Import Base.Prelude Model.Restrict Model.Count Model.Slice Model.Perievent
  Proofs.PerieventNearestProofs Proofs.PerieventContProofs.

Lemma nearest_hyp : NearestHyp.
Proof. exact pc_epoch_pos_spec. Qed.

Theorem pc_columns_spec : forall (A : Type) (d : A) ts rows tref ep n0 n1,
  sortedZ ts -> sortedZ tref -> canonical ep -> length rows = length ts ->
  pc_columns d ts rows tref ep n0 n1 = pc_spec ts rows tref ep n0 n1.
Proof. exact (pc_columns_spec_from nearest_hyp). Qed.

Theorem pc_public_spec_thm : forall (A : Type) (d : A) ts rows tref ep w0 w1,
  0 < nth 1 ts 0 - nth 0 ts 0 -> 0 <= w0 -> 0 <= w1 ->
  sortedZ ts -> sortedZ tref -> canonical ep -> length rows = length ts ->
  pc_public d ts rows tref ep w0 w1 = pc_public_spec ts rows tref ep w0 w1.
Proof. exact (pc_public_spec_from nearest_hyp). Qed.

(* before the repair: 20 samples 0..19 in one epoch, events nearest to samples 1 and 18, window 2 + 2:
   windows (0,4) at offset 1 and (16,20) at offset 0 have the same size and were written at both offsets *)
Theorem scatter_size_only_refuted :
  exists (total : nat) (data : list Z) (wins : list (nat * nat * nat)),
    Forall (fun w => (pc_wstart w + pc_wsize w <= total)%nat) wins
    /\ scatter_size_only total data wins
       <> map (fun w => write_rows (repeat None total) (pc_wstart w) (slice (fst (fst w)) (snd (fst w)) data)) wins
    /\ scatter_size_only total data wins
       = [[Some 0; Some 0; Some 1; Some 2; Some 3]; [Some 16; Some 16; Some 17; Some 18; Some 19]].
Proof.
  exists 5%nat, (map Z.of_nat (seq 0 20)), [((0, 4), 1); ((16, 20), 0)]%nat.
  split; [repeat constructor|]. split; [vm_compute; discriminate|vm_compute; reflexivity].
Qed.

(* ------------------------------------------------------------------ *)
(* the ROWS of the statement, with the sampling step named explicitly: "row o = the sample o steps from the nearest one", the
   rows being the offsets o whose time o*dt lies in the window [-w0, w1].  pc_public (like the implementation) takes
   dt := t[1] - t[0]; pc_public_spec_step takes the step as a parameter. *)
Definition pc_public_spec_step {A} (dt : Z) (ts : list Z) (rows : list A) (tref : list Z) (ep : iset) (w0 w1 : Z)
  : list Z * list (list (option A)) :=
  let k0 := Z.to_nat (w0 / dt) in
  let k1 := Z.to_nat (w1 / dt) in
  (map (fun k => (Z.of_nat k - Z.of_nat k0) * dt) (seq 0 (k0 + k1 + 1)), pc_spec ts rows tref ep k0 k1).

(* dt is the sampling step inside the epochs: two consecutive samples lying in a common epoch are dt apart
   (regular sampling with holes between the epochs) *)
Definition regular_in_epochsb (dt : Z) (ts : list Z) (ep : iset) : bool :=
  forallb (fun ab : Z * Z => negb (existsb (fun iv => inb (fst ab) iv && inb (snd ab) iv) ep) || (snd ab - fst ab =? dt))
          (combine ts (tl ts)).

(* exact when the first two samples ARE one sampling step apart ... *)
Theorem pc_public_step_thm : forall (A : Type) (d : A) ts rows tref ep w0 w1 dt,
  nth 1 ts 0 - nth 0 ts 0 = dt -> 0 < dt -> 0 <= w0 -> 0 <= w1 ->
  sortedZ ts -> sortedZ tref -> canonical ep -> length rows = length ts ->
  pc_public d ts rows tref ep w0 w1 = pc_public_spec_step dt ts rows tref ep w0 w1.
Proof.
  intros A d ts rows tref ep w0 w1 dt E Hdt H0 H1 Hs Ht Hc Hl. subst dt.
  rewrite pc_public_spec_thm by assumption. reflexivity.
Qed.

(* ... and FALSE otherwise: samples 0 | 10 11 12 13 14 in the epochs [0,1] and [9,15] (step 1 inside the epochs, a lone sample
   in the first one), event at 12, window 2 + 2: the step is taken to be 10, a single row (time 0, value 3) is returned
   instead of the five samples 1..5 at -2..2 *)
Theorem pc_public_first_step_refuted :
  exists (ts rows tref : list Z) (ep : iset) (w0 w1 dt : Z),
    sortedZ ts /\ sortedZ tref /\ canonical ep /\ length rows = length ts /\ 0 < dt /\ 0 <= w0 /\ 0 <= w1
    /\ regular_in_epochsb dt ts ep = true
    /\ nth 1 ts 0 - nth 0 ts 0 <> dt
    /\ pc_public 0 ts rows tref ep w0 w1 = ([0], [[Some 3]])
    /\ pc_public_spec_step dt ts rows tref ep w0 w1
       = ([-2; -1; 0; 1; 2], [[Some 1; Some 2; Some 3; Some 4; Some 5]]).
Proof.
  exists [0; 10; 11; 12; 13; 14], [0; 1; 2; 3; 4; 5], [12], [(0, 1); (9, 15)], 2, 2, 1.
  vm_compute. intuition congruence.
Qed.
