(* Proofs about the TsGroup model (Model/Group.v): keys, support, member restriction, rate,
   preservation under selection / restrict / get / merge / conversion, invariants over histories. *)
From Verif Require Import Base.Prelude Model.Restrict Model.Iset Model.Count Model.Slice Model.ValueFrom Model.Group
  Proofs.BaseLemmas Proofs.RestrictProofs Proofs.FixIsetProofs Proofs.C01Top Proofs.UnionProofs Proofs.C02Top
  Proofs.CountProofs Proofs.SliceProofs.
From Coq Require Import ZifyBool Permutation.

(* ================================================================== *)
(* 0. vocabulary of the statements                                      *)

(* strictly increasing keys *)
Fixpoint inc_from (lo : Z) (l : list Z) : Prop :=
  match l with [] => True | x :: r => lo < x /\ inc_from x r end.
Definition incr (l : list Z) : Prop := match l with [] => True | x :: r => inc_from x r end.

Definition wf_member (m : member) : Prop := sortedZ (m_t m) /\ canonical (m_sup m).
(* every sample inside s *)
Definition within (s : iset) (m : member) : Prop := Forall (fun x => mem x s = true) (m_t m).
(* the support a member carries after a restriction to s: s itself, or nothing when it has no sample *)
Definition normal (s : iset) (m : member) : Prop :=
  match m_t m with [] => m_sup m = [] | _ :: _ => m_sup m = s end.

Definition WFg (g : group) : Prop :=
  incr (g_keys g) /\ canonical (g_sup g) /\ Forall (fun e => wf_member (e_mem e)) (g_entries g).
Definition Rg (g : group) : Prop :=
  Forall (fun e => within (g_sup g) (e_mem e) /\ normal (g_sup g) (e_mem e)) (g_entries g).

Definition restrict_entry (s : iset) (e : entry) : entry := (e_key e, (e_tag e, ts_restrict (e_mem e) s)).

Lemma entry_eta (e : entry) : (e_key e, (e_tag e, e_mem e)) = e.
Proof. destruct e as [k [t m]]. reflexivity. Qed.

Lemma map_members_map f es : map_members f es = map (fun e => (e_key e, (e_tag e, f (e_mem e)))) es.
Proof. reflexivity. Qed.

Lemma map_members_keys f es : map e_key (map_members f es) = map e_key es.
Proof. unfold map_members. rewrite map_map. apply map_ext. intros e. reflexivity. Qed.

(* ================================================================== *)
(* 1. increasing lists, uniqueness, the key sort                        *)

Lemma inc_from_weaken l : forall lo lo', lo' <= lo -> inc_from lo l -> inc_from lo' l.
Proof. destruct l; simpl; intros; [auto|]. intuition lia. Qed.

Lemma inc_from_Forall l : forall lo, inc_from lo l -> Forall (fun x => lo < x) l.
Proof.
  induction l as [|x r IH]; intros lo H; [constructor|]. destruct H as [H1 H2].
  constructor; [exact H1|]. eapply Forall_impl'; [|apply IH; exact H2]. simpl; intros; lia.
Qed.

Lemma incr_inc_from l : incr l -> exists lo, inc_from lo l.
Proof. destruct l as [|x r]; simpl; intros H; [exists 0; exact I|]. exists (x - 1). split; [lia|exact H]. Qed.

Lemma inc_from_incr l lo : inc_from lo l -> incr l.
Proof. destruct l as [|x r]; simpl; [auto|]. tauto. Qed.

Lemma incr_tail x r : incr (x :: r) -> incr r.
Proof. simpl. apply inc_from_incr. Qed.

Lemma incrb_spec l : incrb l = true <-> incr l.
Proof.
  induction l as [|x r IH]; [simpl; tauto|].
  destruct r as [|y r']; [simpl; tauto|].
  change (incrb (x :: y :: r')) with ((x <? y) && incrb (y :: r')).
  change (incr (x :: y :: r')) with (x < y /\ inc_from y r').
  rewrite andb_true_iff, IH. simpl. rewrite Z.ltb_lt. tauto.
Qed.

Lemma existsb_eqb_In x l : existsb (Z.eqb x) l = true <-> In x l.
Proof.
  rewrite existsb_exists. split.
  - intros (y & Hy & E). apply Z.eqb_eq in E. subst. exact Hy.
  - intros H. exists x. split; [exact H|apply Z.eqb_refl].
Qed.

Lemma nodupb_spec l : nodupb l = true <-> NoDup l.
Proof.
  induction l as [|x r IH]; simpl.
  - split; [constructor|reflexivity].
  - rewrite andb_true_iff, negb_true_iff, IH. split.
    + intros [H1 H2]. constructor; [|exact H2]. intros Hin. apply existsb_eqb_In in Hin. congruence.
    + intros H. inversion H; subst. split; [|assumption].
      destruct (existsb (Z.eqb x) r) eqn:E; [|reflexivity]. apply existsb_eqb_In in E. contradiction.
Qed.

Lemma inc_from_NoDup l : forall lo, inc_from lo l -> NoDup l.
Proof.
  induction l as [|x r IH]; intros lo H; [constructor|]. destruct H as [H1 H2].
  constructor; [|eapply IH; exact H2].
  intros Hin. pose proof (inc_from_Forall _ _ H2) as HF. rewrite Forall_forall in HF.
  specialize (HF x Hin). lia.
Qed.

Lemma incr_NoDup l : incr l -> NoDup l.
Proof. intros H. destruct (incr_inc_from l H) as [lo Hlo]. eapply inc_from_NoDup; exact Hlo. Qed.

Lemma insert_entry_perm e l : Permutation (insert_entry e l) (e :: l).
Proof.
  induction l as [|y r IH]; simpl; [apply Permutation_refl|].
  destruct (e_key e <? e_key y); [apply Permutation_refl|].
  eapply Permutation_trans; [apply perm_skip; exact IH|apply perm_swap].
Qed.

Lemma sort_entries_perm l : Permutation (sort_entries l) l.
Proof.
  induction l as [|e r IH]; simpl; [constructor|].
  eapply Permutation_trans; [apply insert_entry_perm|apply perm_skip; exact IH].
Qed.

Lemma insert_entry_inc e l : forall lo,
  inc_from lo (map e_key l) -> lo < e_key e -> ~ In (e_key e) (map e_key l) ->
  inc_from lo (map e_key (insert_entry e l)).
Proof.
  induction l as [|y r IH]; intros lo H Hlo Hn; simpl.
  - auto.
  - simpl in H. destruct H as [H1 H2].
    destruct (e_key e <? e_key y) eqn:E; simpl.
    + repeat split; try lia. eapply inc_from_weaken; [|exact H2]. lia.
    + split; [exact H1|]. apply IH; [exact H2| |].
      * simpl in Hn. assert (e_key y <> e_key e) by tauto. lia.
      * simpl in Hn. tauto.
Qed.

Lemma sort_entries_inc l : NoDup (map e_key l) -> exists lo, inc_from lo (map e_key (sort_entries l)).
Proof.
  induction l as [|e r IH]; intros H; simpl.
  - exists 0. exact I.
  - inversion H as [|? ? Hn Hr]; subst. destruct (IH Hr) as [lo Hlo].
    exists (Z.min lo (e_key e - 1)). apply insert_entry_inc.
    + eapply inc_from_weaken; [|exact Hlo]. lia.
    + lia.
    + intros Hin. apply Hn. eapply Permutation_in; [|exact Hin].
      apply Permutation_map. apply sort_entries_perm.
Qed.

Lemma sort_entries_incr l : NoDup (map e_key l) -> incr (map e_key (sort_entries l)).
Proof. intros H. destruct (sort_entries_inc l H) as [lo Hlo]. eapply inc_from_incr; exact Hlo. Qed.

(* a list already in increasing key order is left alone *)
Lemma insert_entry_front e l : inc_from (e_key e) (map e_key l) -> insert_entry e l = e :: l.
Proof. destruct l as [|y r]; simpl; [reflexivity|]. intros [H _]. apply Z.ltb_lt in H. rewrite H. reflexivity. Qed.

Lemma sort_entries_sorted_id l : incr (map e_key l) -> sort_entries l = l.
Proof.
  induction l as [|e r IH]; intros H; simpl; [reflexivity|].
  rewrite IH by (eapply incr_tail; exact H). apply insert_entry_front. exact H.
Qed.

(* lookup in a list with distinct keys *)
Lemma lookup_In k l e : lookup k l = Some e -> In e l /\ e_key e = k.
Proof.
  unfold lookup. intros H. apply find_some in H. destruct H as [H1 H2]. apply Z.eqb_eq in H2. tauto.
Qed.

Lemma In_lookup k l e : NoDup (map e_key l) -> In e l -> e_key e = k -> lookup k l = Some e.
Proof.
  unfold lookup. induction l as [|y r IH]; intros Hn Hin Hk; [contradiction|].
  simpl. inversion Hn as [|? ? Hy Hr]; subst.
  destruct Hin as [->|Hin].
  - rewrite Z.eqb_refl. reflexivity.
  - destruct (e_key y =? e_key e) eqn:E.
    + apply Z.eqb_eq in E. exfalso. apply Hy. rewrite E. apply in_map. exact Hin.
    + apply IH; auto.
Qed.

Lemma has_key_In k l : has_key k l = true <-> In k (map e_key l).
Proof.
  unfold has_key. rewrite existsb_exists, in_map_iff. split.
  - intros (e & He & E). apply Z.eqb_eq in E. eauto.
  - intros (e & E & He). exists e. split; [exact He|]. apply Z.eqb_eq. exact E.
Qed.

Lemma lookup_None k l : lookup k l = None <-> ~ In k (map e_key l).
Proof.
  unfold lookup. split.
  - intros H Hin. apply in_map_iff in Hin. destruct Hin as (e & E & He).
    pose proof (find_none _ _ H e He) as Hf. simpl in Hf. apply Z.eqb_neq in Hf. contradiction.
  - intros H. destruct (find (fun e => e_key e =? k) l) eqn:E; [|reflexivity].
    apply find_some in E. destruct E as [E1 E2]. apply Z.eqb_eq in E2. exfalso. apply H. rewrite <- E2. apply in_map. exact E1.
Qed.

(* ================================================================== *)
(* 2. key conversion                                                    *)

Lemma conv_keys_spec {A} (data : list (rawkey * A)) kd :
  conv_keys data = Some kd ->
  map key_value (map fst data) = map Some (map fst kd) /\ map snd kd = map snd data.
Proof.
  revert kd. induction data as [|[k a] r IH]; intros kd H; simpl in H.
  - inversion H; subst. split; reflexivity.
  - destruct (key_value k) as [z|] eqn:Ek; [|discriminate].
    destruct (conv_keys r) as [r'|] eqn:Er; [|discriminate].
    inversion H; subst. destruct (IH r' eq_refl) as [I1 I2]. simpl. rewrite Ek, I1, I2. split; reflexivity.
Qed.

Lemma conv_keys_None {A} (data : list (rawkey * A)) :
  conv_keys data = None <-> exists k, In k (map fst data) /\ key_value k = None.
Proof.
  induction data as [|[k a] r IH]; simpl.
  - split; [discriminate|intros (k & [] & _)].
  - destruct (key_value k) as [z|] eqn:Ek.
    + destruct (conv_keys r) as [r'|] eqn:Er.
      * split; [discriminate|]. intros (k' & [<-|Hin] & Hk); [congruence|].
        destruct IH as [_ IH]. assert (X : Some r' = None) by (apply IH; eauto). discriminate.
      * split; [|reflexivity]. intros _. destruct IH as [IH _]. destruct (IH eq_refl) as (k' & Hin & Hk). eauto.
    + split; [|reflexivity]. intros _. exists k. auto.
Qed.

Lemma conv_keys_ints (es : list entry) :
  conv_keys (map (fun e => (RInt (e_key e), (e_tag e, RObj (e_mem e)))) es)
  = Some (map (fun e => (e_key e, (e_tag e, RObj (e_mem e)))) es).
Proof. induction es as [|e r IH]; simpl; [reflexivity|]. rewrite IH. reflexivity. Qed.

(* ================================================================== *)
(* 3. what a successful construction looks like                         *)

Lemma mk_group_inv data sup bypass ht g :
  mk_group data sup bypass ht = Some g ->
  exists kd s,
    conv_keys data = Some kd /\ NoDup (map fst kd)
    /\ chosen_support sup (sort_entries (map (conv_entry sup) kd)) = Some s
    /\ g = ((if bypass then sort_entries (map (conv_entry sup) kd)
             else map_members (fun m => ts_restrict m s) (sort_entries (map (conv_entry sup) kd))), (s, ht)).
Proof.
  unfold mk_group. intros H.
  destruct (conv_keys data) as [kd|] eqn:Ek; [|discriminate].
  destruct (nodupb (map fst kd)) eqn:En; [|discriminate]. cbn [negb] in H.
  cbv zeta in H.
  destruct (chosen_support sup (sort_entries (map (conv_entry sup) kd))) as [s|] eqn:Es; [|discriminate].
  inversion H; subst. exists kd, s.
  split; [reflexivity|]. split; [apply nodupb_spec; exact En|]. split; [exact Es|reflexivity].
Qed.

Lemma conv_entry_keys sup kd : map e_key (map (conv_entry sup) kd) = map fst kd.
Proof. rewrite map_map. apply map_ext. intros d. reflexivity. Qed.

(* --- 3a. keys --- *)
Theorem group_keys data sup bypass ht g :
  mk_group data sup bypass ht = Some g ->
  exists vals, map key_value (map fst data) = map Some vals
               /\ NoDup vals /\ Permutation (g_keys g) vals /\ incr (g_keys g).
Proof.
  intros H. destruct (mk_group_inv _ _ _ _ _ H) as (kd & s & Hk & Hn & Hs & ->).
  destruct (conv_keys_spec _ _ Hk) as [Hv _].
  exists (map fst kd). split; [exact Hv|]. split; [exact Hn|].
  assert (Hkeys : g_keys (if bypass then sort_entries (map (conv_entry sup) kd)
                          else map_members (fun m => ts_restrict m s) (sort_entries (map (conv_entry sup) kd)), (s, ht))
                  = map e_key (sort_entries (map (conv_entry sup) kd))).
  { unfold g_keys, g_entries. cbn [fst]. destruct bypass; [reflexivity|apply map_members_keys]. }
  rewrite Hkeys. split.
  - rewrite <- (conv_entry_keys sup kd). apply Permutation_map. apply sort_entries_perm.
  - apply sort_entries_incr. rewrite conv_entry_keys. exact Hn.
Qed.

(* the construction fails on a key that is not an integer, and on two keys of equal integer value *)
Theorem group_keys_rejected data sup bypass ht :
  (exists k, In k (map fst data) /\ key_value k = None) -> mk_group data sup bypass ht = None.
Proof. intros H. unfold mk_group. apply conv_keys_None in H. rewrite H. reflexivity. Qed.

Theorem group_keys_duplicate data sup bypass ht vals :
  map key_value (map fst data) = map Some vals -> ~ NoDup vals -> mk_group data sup bypass ht = None.
Proof.
  intros Hv Hn. unfold mk_group. destruct (conv_keys data) as [kd|] eqn:Ek; [|reflexivity].
  destruct (conv_keys_spec _ _ Ek) as [Hv' _]. rewrite Hv in Hv'.
  assert (E : vals = map fst kd).
  { clear -Hv'. revert Hv'. generalize (map fst kd). induction vals as [|v r IH]; intros [|w l] H; simpl in H; try discriminate; [reflexivity|].
    inversion H; subst. f_equal. apply IH. assumption. }
  subst vals. destruct (nodupb (map fst kd)) eqn:En; [|reflexivity].
  apply nodupb_spec in En. contradiction.
Qed.

(* ================================================================== *)
(* 4. members: the Ts constructor, restrict, get                        *)

Lemma mem_nil x : mem x [] = false.
Proof. reflexivity. Qed.

Lemma filter_nil_iff {A} (p : A -> bool) l : filter p l = [] <-> Forall (fun x => p x = false) l.
Proof.
  induction l as [|x r IH]; simpl; [split; [constructor|reflexivity]|].
  destruct (p x) eqn:E.
  - split; [discriminate|]. intros H. inversion H; subst. congruence.
  - rewrite IH. split; [intros; constructor; assumption|intros H; inversion H; assumption].
Qed.

(* Ts(t, time_support = s) for sorted t: the samples inside s; the support is s, or empty when t was *)
Lemma mk_ts_t t s : sortedZ t -> canonical s -> m_t (mk_ts t s) = filter (fun x => mem x s) t.
Proof.
  intros Hs Hc. destruct t as [|x r]; [reflexivity|]. unfold mk_ts, m_t. cbn [fst].
  apply restrict_ts_spec; assumption.
Qed.

Lemma mk_ts_wf t s : sortedZ t -> canonical s -> wf_member (mk_ts t s).
Proof.
  intros Hs Hc. split.
  - rewrite mk_ts_t by assumption. apply filter_sortedZ. exact Hs.
  - destruct t; [exact I|exact Hc].
Qed.

Lemma mk_ts_within t s : sortedZ t -> canonical s -> within s (mk_ts t s).
Proof.
  intros Hs Hc. unfold within. rewrite mk_ts_t by assumption.
  apply Forall_forall. intros x Hx. apply filter_In in Hx. tauto.
Qed.

(* restrict: exactly the samples inside ep; normal form of the support *)
Lemma ts_restrict_t m ep : sortedZ (m_t m) -> canonical ep ->
  m_t (ts_restrict m ep) = filter (fun x => mem x ep) (m_t m).
Proof.
  intros Hs Hc. unfold ts_restrict.
  rewrite mk_ts_t; [|rewrite restrict_ts_spec by assumption; apply filter_sortedZ; exact Hs|exact Hc].
  rewrite restrict_ts_spec by assumption. rewrite filter_filter.
  apply filter_ext. intros x. destruct (mem x ep); reflexivity.
Qed.

Lemma ts_restrict_wf m ep : sortedZ (m_t m) -> canonical ep -> wf_member (ts_restrict m ep).
Proof.
  intros Hs Hc. unfold ts_restrict. apply mk_ts_wf; [|exact Hc].
  rewrite restrict_ts_spec by assumption. apply filter_sortedZ. exact Hs.
Qed.

Lemma ts_restrict_within m ep : sortedZ (m_t m) -> canonical ep -> within ep (ts_restrict m ep).
Proof.
  intros Hs Hc. unfold ts_restrict. apply mk_ts_within; [|exact Hc].
  rewrite restrict_ts_spec by assumption. apply filter_sortedZ. exact Hs.
Qed.

Lemma mk_ts_normal_restricted t s : sortedZ t -> canonical s -> Forall (fun x => mem x s = true) t ->
  normal s (mk_ts t s) /\ mk_ts t s = (t, match t with [] => [] | _ => s end).
Proof.
  intros Hs Hc Hf. destruct t as [|x r]; [split; reflexivity|].
  unfold mk_ts. rewrite restrict_ts_spec by assumption. rewrite filter_all by exact Hf.
  split; reflexivity.
Qed.

Lemma ts_restrict_normal m ep : sortedZ (m_t m) -> canonical ep -> normal ep (ts_restrict m ep).
Proof.
  intros Hs Hc. unfold ts_restrict.
  apply mk_ts_normal_restricted; [| exact Hc |].
  - rewrite restrict_ts_spec by assumption. apply filter_sortedZ. exact Hs.
  - rewrite restrict_ts_spec by assumption. apply Forall_forall. intros x Hx. apply filter_In in Hx. tauto.
Qed.

(* a member already restricted to s is left alone by a further restriction to s *)
Lemma ts_restrict_id m s : sortedZ (m_t m) -> canonical s -> within s m -> normal s m -> ts_restrict m s = m.
Proof.
  intros Hs Hc Hw Hn. unfold ts_restrict.
  rewrite restrict_ts_spec by assumption. rewrite filter_all by exact Hw.
  destruct (mk_ts_normal_restricted (m_t m) s Hs Hc Hw) as [_ E]. rewrite E.
  destruct m as [t ms]. unfold normal, m_t, m_sup in *. cbn [fst snd] in *.
  destruct t; subst; reflexivity.
Qed.

(* get(a, b): the samples in the window *)
Lemma ts_get_t m a b s : sortedZ (m_t m) -> canonical s -> within s m -> normal s m ->
  m_t (ts_get m a b) = filter (fun t => (a <=? t) && (t <=? b)) (m_t m)
  /\ wf_member (ts_get m a b) /\ within s (ts_get m a b) /\ normal s (ts_get m a b).
Proof.
  intros Hs Hc Hw Hn. unfold ts_get.
  rewrite get_times_spec by exact Hs.
  set (w := filter (fun t => (a <=? t) && (t <=? b)) (m_t m)).
  assert (Hsw : sortedZ w) by (apply filter_sortedZ; exact Hs).
  assert (Hww : Forall (fun x => mem x s = true) w).
  { apply Forall_forall. intros x Hx. apply filter_In in Hx. destruct Hx as [Hx _].
    unfold within in Hw. rewrite Forall_forall in Hw. apply Hw. exact Hx. }
  destruct w as [|x r] eqn:Ew.
  - cbn. repeat split; try exact I; constructor.
  - assert (Hms : m_sup m = s).
    { unfold normal in Hn. destruct (m_t m) as [|y q] eqn:Em; [|exact Hn]. subst w. discriminate. }
    rewrite Hms. rewrite <- Ew in *.
    destruct (mk_ts_normal_restricted w s Hsw Hc Hww) as [Hnn E].
    split; [rewrite E; reflexivity|]. split; [apply mk_ts_wf; assumption|].
    split; [apply mk_ts_within; assumption|exact Hnn].
Qed.

(* ================================================================== *)
(* 5. the support: given, else the union of the members' supports       *)

Theorem group_support_given data s bypass ht g :
  mk_group data (Some s) bypass ht = Some g -> g_sup g = s.
Proof.
  intros H. destruct (mk_group_inv _ _ _ _ _ H) as (kd & s' & _ & _ & Hs & ->).
  simpl in Hs. inversion Hs. reflexivity.
Qed.

(* x is farther than 1 us from every endpoint of every set of l *)
Definition farl (x : Z) (l : list iset) : Prop :=
  forall A p, In A l -> is_endpoint p A -> p + us < x \/ x < p - us.

Lemma canonical_proper A : canonical A -> Forall (fun I => fst I < snd I) A.
Proof.
  induction A as [|[s e] r IH]; intros H; [constructor|].
  constructor; [simpl in *; tauto|]. apply IH. eapply canonical_tail; exact H.
Qed.

Lemma concat_proper l : Forall canonical l -> Forall (fun I => fst I < snd I) (concat l).
Proof.
  induction l as [|A r IH]; intros H; simpl; [constructor|].
  inversion H; subst. apply Forall_app. split; [apply canonical_proper; assumption|apply IH; assumption].
Qed.

Lemma mem_concat x l : mem x (concat l) = existsb (mem x) l.
Proof. induction l as [|A r IH]; simpl; [reflexivity|]. rewrite mem_app, IH. reflexivity. Qed.

Lemma existsb_map' {A B} (f : A -> B) (p : B -> bool) l : existsb p (map f l) = existsb (fun x => p (f x)) l.
Proof. induction l as [|x r IH]; simpl; [reflexivity|]. rewrite IH. reflexivity. Qed.

Lemma union_supports_canonical l : Forall canonical l -> canonical (union_supports l).
Proof.
  intros H. destruct l as [|a [|b r]].
  - exact I.
  - inversion H; assumption.
  - change (canonical (mk_iset_pairs (k_union_n (concat (a :: b :: r))))). apply mk_iset_pairs_canonical.
Qed.

(* the union is EXACT whatever the number of members (as repaired: the n-ary kernel joins the supports
   that touch; one member keeps its own support) *)
Theorem union_supports_mem_all l x : Forall canonical l ->
  mem x (union_supports l) = existsb (mem x) l.
Proof.
  intros H. destruct l as [|a [|b r]].
  - reflexivity.
  - simpl. rewrite orb_false_r. reflexivity.
  - set (l := a :: b :: r) in *.
    assert (E : union_supports l = mk_iset_pairs (k_union_n (concat l))) by reflexivity.
    rewrite E. rewrite mk_iset_canonical_id by (apply union_n_canonical, concat_proper; exact H).
    rewrite union_n_mem by (apply concat_proper; exact H). apply mem_concat.
Qed.

(* the two statements that were all one could say before the repair (kept: they follow) *)
Theorem union_supports_mem l x : Forall canonical l -> farl x l ->
  mem x (union_supports l) = existsb (mem x) l.
Proof. intros H _. apply union_supports_mem_all. exact H. Qed.

Theorem union_supports_mem_exact l x : Forall canonical l -> (3 <= length l)%nat ->
  mem x (union_supports l) = existsb (mem x) l.
Proof. intros H _. apply union_supports_mem_all. exact H. Qed.

(* _union_intervals as it was: the same function except on exactly two sets, where it was exact only
   at the instants farther than 1 us from the endpoints ... *)
Lemma union_supports_orig_other l : length l <> 2%nat -> union_supports_orig l = union_supports l.
Proof. destruct l as [|a [|b [|c r]]]; simpl; intros H; try reflexivity. exfalso. apply H. reflexivity. Qed.

Theorem union_supports_orig_mem a b x : canonical a -> canonical b -> farl x [a; b] ->
  mem x (union_supports_orig [a; b]) = mem x a || mem x b.
Proof.
  intros Ha Hb Hf. cbn [union_supports_orig].
  apply (wrapper_union_mem a b x Ha Hb).
  intros p [Hp|Hp]; [apply (Hf a p)|apply (Hf b p)]; simpl; auto.
Qed.

(* ... and NOT exact: the supports [0, 4 ms] and [4 ms, 8 ms] (ticks = ns) gave [0, 3.999 ms], [4 ms, 8 ms],
   so the instant 3.9995 ms of the first support was outside the group's support (and a sample there
   was dropped from the first member); a support of 0.5 us that touches the next one disappeared *)
Theorem union_supports_orig_refuted :
  exists a b x, canonical a /\ canonical b /\ mem x a = true
    /\ mem x (union_supports_orig [a; b]) = false /\ mem x (union_supports [a; b]) = true
    /\ m_t (ts_restrict ([x], a) (union_supports_orig [a; b])) = []
    /\ m_t (ts_restrict ([x], a) (union_supports [a; b])) = [x].
Proof.
  exists [(0, 4000000)], [(4000000, 8000000)], 3999500.
  split; [simpl; lia|]. split; [simpl; lia|]. repeat split; vm_compute; reflexivity.
Qed.

Definition raw_wf (sup : option iset) (r : rawmember) : Prop :=
  match r with RObj m => wf_member m | RArr t => sortedZ t end.

Lemma ts_default_wf t : sortedZ t -> wf_member (ts_default t).
Proof.
  intros H. destruct t as [|x r]; [split; exact I|]. split; [exact H|].
  unfold ts_default, m_sup. cbn [snd]. apply mk_iset_canonical. reflexivity.
Qed.

Lemma to_member_wf sup r : raw_wf sup r -> match sup with Some s => canonical s | None => True end ->
  wf_member (to_member sup r).
Proof.
  intros H Hs. destruct r as [m|t]; simpl in *; [exact H|].
  destruct sup as [s|]; [apply mk_ts_wf; assumption|apply ts_default_wf; exact H].
Qed.

(* the members as converted and key-sorted, before any restriction *)
Definition supplied (data : list (rawkey * (Z * rawmember))) (sup : option iset) (es : list entry) : Prop :=
  exists kd, conv_keys data = Some kd /\ es = sort_entries (map (conv_entry sup) kd).

Lemma supplied_wf data sup es :
  supplied data sup es -> Forall (fun d => raw_wf sup (snd (snd d))) data ->
  match sup with Some s => canonical s | None => True end ->
  Forall (fun e => wf_member (e_mem e)) es.
Proof.
  intros (kd & Hk & ->) Hd Hs.
  apply Forall_forall. intros e He.
  apply (Permutation_in _ (sort_entries_perm _)) in He.
  apply in_map_iff in He. destruct He as (d & <- & Hd').
  unfold e_mem, conv_entry. cbn [snd]. apply to_member_wf; [|exact Hs].
  destruct (conv_keys_spec _ _ Hk) as [_ Hsnd].
  assert (Hin : In (snd d) (map snd data)) by (rewrite <- Hsnd; apply in_map; exact Hd').
  apply in_map_iff in Hin. destruct Hin as (d0 & E & Hd0).
  rewrite Forall_forall in Hd. specialize (Hd d0 Hd0). rewrite E in Hd. exact Hd.
Qed.

Theorem group_support_union data bypass ht g :
  mk_group data None bypass ht = Some g ->
  Forall (fun d => raw_wf None (snd (snd d))) data ->
  exists es, supplied data None es
    /\ g_sup g = union_supports (map (fun e => m_sup (e_mem e)) es)
    /\ g_sup g <> [] /\ canonical (g_sup g)
    /\ (forall x, farl x (map (fun e => m_sup (e_mem e)) es) ->
                  mem x (g_sup g) = existsb (fun e => mem x (m_sup (e_mem e))) es)
    /\ ((3 <= length es)%nat -> forall x, mem x (g_sup g) = existsb (fun e => mem x (m_sup (e_mem e))) es).
Proof.
  intros H Hd. destruct (mk_group_inv _ _ _ _ _ H) as (kd & s & Hk & Hn & Hs & ->).
  set (es := sort_entries (map (conv_entry None) kd)) in *.
  assert (Hsup : supplied data None es) by (exists kd; split; [exact Hk|reflexivity]).
  pose proof (supplied_wf data None es Hsup Hd I) as Hwf.
  assert (Hcan : Forall canonical (map (fun e => m_sup (e_mem e)) es)).
  { apply Forall_forall. intros A HA. apply in_map_iff in HA. destruct HA as (e & <- & He).
    rewrite Forall_forall in Hwf. apply (Hwf e He). }
  exists es. split; [exact Hsup|].
  unfold chosen_support in Hs. unfold g_sup. cbn [fst snd].
  destruct (union_supports (map (fun e => m_sup (e_mem e)) es)) as [|I0 u] eqn:Eu; [discriminate|].
  inversion Hs; subst s. clear Hs.
  split; [reflexivity|]. split; [discriminate|].
  split; [rewrite <- Eu; apply union_supports_canonical; exact Hcan|].
  split.
  - intros x Hf. rewrite <- Eu, (union_supports_mem _ x Hcan Hf), existsb_map'. reflexivity.
  - intros Hl x. rewrite <- Eu, (union_supports_mem_exact _ x Hcan), existsb_map'; [reflexivity|].
    rewrite map_length. exact Hl.
Qed.

(* the statement's clause as it reads: without a supplied support, the group's support is the union of
   the members' supports, at EVERY instant and for any number of members *)
Theorem group_support_union_exact data bypass ht g :
  mk_group data None bypass ht = Some g ->
  Forall (fun d => raw_wf None (snd (snd d))) data ->
  exists es, supplied data None es
    /\ g_sup g <> [] /\ canonical (g_sup g)
    /\ forall x, mem x (g_sup g) = existsb (fun e => mem x (m_sup (e_mem e))) es.
Proof.
  intros H Hd. destruct (mk_group_inv _ _ _ _ _ H) as (kd & s & Hk & Hn & Hs & ->).
  set (es := sort_entries (map (conv_entry None) kd)) in *.
  assert (Hsup : supplied data None es) by (exists kd; split; [exact Hk|reflexivity]).
  pose proof (supplied_wf data None es Hsup Hd I) as Hwf.
  assert (Hcan : Forall canonical (map (fun e => m_sup (e_mem e)) es)).
  { apply Forall_forall. intros A HA. apply in_map_iff in HA. destruct HA as (e & <- & He).
    rewrite Forall_forall in Hwf. apply (Hwf e He). }
  exists es. split; [exact Hsup|].
  unfold chosen_support in Hs. unfold g_sup. cbn [fst snd].
  destruct (union_supports (map (fun e => m_sup (e_mem e)) es)) as [|I0 u] eqn:Eu; [discriminate|].
  inversion Hs; subst s. clear Hs.
  split; [discriminate|].
  split; [rewrite <- Eu; apply union_supports_canonical; exact Hcan|].
  intros x. rewrite <- Eu, (union_supports_mem_all _ x Hcan), existsb_map'. reflexivity.
Qed.

(* ================================================================== *)
(* 6. members are restricted to the support (unless the caller opts out); rate *)

Lemma Forall_map_members (P : entry -> Prop) f es :
  Forall (fun e => P (e_key e, (e_tag e, f (e_mem e)))) es -> Forall P (map_members f es).
Proof. intros H. unfold map_members. apply Forall_forall. intros e' He'. apply in_map_iff in He'.
  destruct He' as (e & <- & He). rewrite Forall_forall in H. apply H. exact He. Qed.

Theorem group_members data sup bypass ht g :
  mk_group data sup bypass ht = Some g ->
  exists es, supplied data sup es /\ chosen_support sup es = Some (g_sup g)
    /\ g_entries g = if bypass then es else map (restrict_entry (g_sup g)) es.
Proof.
  intros H. destruct (mk_group_inv _ _ _ _ _ H) as (kd & s & Hk & Hn & Hs & ->).
  exists (sort_entries (map (conv_entry sup) kd)). split; [exists kd; auto|].
  split; [exact Hs|]. unfold g_entries, g_sup. cbn [fst snd]. destruct bypass; reflexivity.
Qed.

Lemma restrict_entry_spec s e : sortedZ (m_t (e_mem e)) -> canonical s ->
  e_key (restrict_entry s e) = e_key e /\ e_tag (restrict_entry s e) = e_tag e
  /\ m_t (e_mem (restrict_entry s e)) = filter (fun x => mem x s) (m_t (e_mem e))
  /\ wf_member (e_mem (restrict_entry s e)) /\ within s (e_mem (restrict_entry s e)) /\ normal s (e_mem (restrict_entry s e)).
Proof.
  intros Hs Hc. unfold restrict_entry, e_key, e_tag, e_mem. cbn [fst snd].
  split; [reflexivity|]. split; [reflexivity|].
  split; [apply ts_restrict_t; assumption|].
  split; [apply ts_restrict_wf; assumption|].
  split; [apply ts_restrict_within; assumption|apply ts_restrict_normal; assumption].
Qed.

(* the invariants established by a construction *)
Lemma supplied_keys_incr data sup es : supplied data sup es ->
  (exists kd, conv_keys data = Some kd /\ NoDup (map fst kd)) -> incr (map e_key es).
Proof.
  intros (kd & Hk & ->) (kd' & Hk' & Hn). rewrite Hk in Hk'. inversion Hk'; subst kd'.
  apply sort_entries_incr. rewrite conv_entry_keys. exact Hn.
Qed.

Lemma map_restrict_entry_keys s es : map e_key (map (restrict_entry s) es) = map e_key es.
Proof. rewrite map_map. apply map_ext. intros e. reflexivity. Qed.

Theorem mk_group_invariants data sup bypass ht g :
  mk_group data sup bypass ht = Some g ->
  Forall (fun d => raw_wf sup (snd (snd d))) data ->
  match sup with Some s => canonical s | None => True end ->
  WFg g /\ (bypass = false -> Rg g).
Proof.
  intros H Hd Hs.
  destruct (mk_group_inv _ _ _ _ _ H) as (kd & s & Hk & Hn & Hcs & Hg).
  set (es := sort_entries (map (conv_entry sup) kd)) in *.
  assert (Hsup : supplied data sup es) by (exists kd; auto).
  pose proof (supplied_wf data sup es Hsup Hd Hs) as Hwf.
  assert (Hinc : incr (map e_key es)) by (apply (supplied_keys_incr data sup es Hsup); eauto).
  assert (Hcan : canonical s).
  { destruct sup as [s0|]; simpl in Hcs.
    - inversion Hcs; subst. exact Hs.
    - destruct (union_supports (map (fun e => m_sup (e_mem e)) es)) as [|I0 u] eqn:Eu; [discriminate|].
      inversion Hcs; subst. rewrite <- Eu. apply union_supports_canonical.
      apply Forall_forall. intros A HA. apply in_map_iff in HA. destruct HA as (e & <- & He).
      rewrite Forall_forall in Hwf. apply (Hwf e He). }
  subst g. destruct bypass.
  - split; [|discriminate]. unfold WFg, g_keys, g_entries, g_sup. cbn [fst snd]. auto.
  - split.
    + unfold WFg, g_keys, g_entries, g_sup. cbn [fst snd].
      split; [rewrite map_members_keys; exact Hinc|]. split; [exact Hcan|].
      apply Forall_map_members. apply Forall_forall. intros e He. unfold e_mem. cbn [snd].
      rewrite Forall_forall in Hwf. apply ts_restrict_wf; [apply (Hwf e He)|exact Hcan].
    + intros _. unfold Rg, g_entries, g_sup. cbn [fst snd].
      apply Forall_map_members. apply Forall_forall. intros e He. unfold e_mem. cbn [snd].
      rewrite Forall_forall in Hwf.
      split; [apply ts_restrict_within|apply ts_restrict_normal]; try exact Hcan; apply (Hwf e He).
Qed.

(* every member of a checked construction: the supplied member's samples that lie in the support *)
Theorem group_members_restricted data sup ht g :
  mk_group data sup false ht = Some g ->
  Forall (fun d => raw_wf sup (snd (snd d))) data ->
  match sup with Some s => canonical s | None => True end ->
  exists es, supplied data sup es
    /\ g_entries g = map (restrict_entry (g_sup g)) es
    /\ Forall (fun e => m_t (e_mem (restrict_entry (g_sup g) e)) = filter (fun x => mem x (g_sup g)) (m_t (e_mem e))
                        /\ within (g_sup g) (e_mem (restrict_entry (g_sup g) e))) es.
Proof.
  intros H Hd Hs. destruct (group_members _ _ _ _ _ H) as (es & Hsup & Hcs & He).
  destruct (mk_group_invariants _ _ _ _ _ H Hd Hs) as [(_ & Hcan & _) _].
  pose proof (supplied_wf data sup es Hsup Hd Hs) as Hwf.
  exists es. split; [exact Hsup|]. split; [exact He|].
  apply Forall_forall. intros e Hin. rewrite Forall_forall in Hwf.
  destruct (restrict_entry_spec (g_sup g) e (proj1 (Hwf e Hin)) Hcan) as (_ & _ & Ht & _ & Hw & _).
  split; assumption.
Qed.

(* rate = number of samples / total duration of the group's support, for a member with a sample *)
Lemma tot_length_pos A : canonical A -> A <> [] -> 0 < tot_length A.
Proof.
  intros Hc Hn. destruct (canonical_canon A Hc) as [lo Hlo]. clear Hc.
  revert lo Hlo Hn. induction A as [|[s e] r IH]; intros lo Hlo Hn; [congruence|].
  destruct Hlo as (H1 & H2 & H3). simpl. destruct r as [|I0 r'].
  - simpl. lia.
  - assert (0 < tot_length (I0 :: r')) by (eapply IH; [exact H3|discriminate]). lia.
Qed.

Theorem group_rate g e :
  canonical (g_sup g) -> Rg g -> In e (g_entries g) -> m_t (e_mem e) <> [] ->
  0 < tot_length (g_sup g)
  /\ rate (e_mem e) = Some (length (m_t (e_mem e)), tot_length (g_sup g)).
Proof.
  intros Hc HR Hin Hne. unfold Rg in HR. rewrite Forall_forall in HR. destruct (HR e Hin) as [Hw Hn].
  assert (Hms : m_sup (e_mem e) = g_sup g).
  { unfold normal in Hn. destruct (m_t (e_mem e)); [congruence|exact Hn]. }
  assert (Hnn : g_sup g <> []).
  { intros E. unfold within in Hw. destruct (m_t (e_mem e)) as [|x r]; [congruence|].
    inversion Hw; subst. rewrite E in *. discriminate. }
  pose proof (tot_length_pos _ Hc Hnn) as Hp. split; [exact Hp|].
  unfold rate. rewrite Hms. destruct (tot_length (g_sup g) <=? 0) eqn:E; [lia|reflexivity].
Qed.

(* ================================================================== *)
(* 7. re-construction from existing entries                             *)

Lemma regroup_map_id sup (es : list entry) :
  map (conv_entry sup) (map (fun e => (e_key e, (e_tag e, RObj (e_mem e)))) es) = es.
Proof.
  rewrite map_map. rewrite <- (map_id es) at 2. apply map_ext. intros e.
  unfold conv_entry. cbn [fst snd to_member]. apply entry_eta.
Qed.

Lemma regroup_inv es sup bypass ht g :
  regroup es sup bypass ht = Some g ->
  NoDup (map e_key es)
  /\ exists s, chosen_support sup (sort_entries es) = Some s
     /\ g = ((if bypass then sort_entries es else map_members (fun m => ts_restrict m s) (sort_entries es)), (s, ht)).
Proof.
  unfold regroup. intros H. destruct (mk_group_inv _ _ _ _ _ H) as (kd & s & Hk & Hn & Hs & Hg).
  rewrite conv_keys_ints in Hk. inversion Hk; subst kd. clear Hk.
  rewrite regroup_map_id in *.
  split.
  - rewrite map_map in Hn. exact Hn.
  - exists s. split; assumption.
Qed.

Lemma regroup_some es sup bypass ht s :
  NoDup (map e_key es) -> chosen_support sup (sort_entries es) = Some s ->
  regroup es sup bypass ht
  = Some ((if bypass then sort_entries es else map_members (fun m => ts_restrict m s) (sort_entries es)), (s, ht)).
Proof.
  intros Hn Hs. unfold regroup, mk_group. rewrite conv_keys_ints.
  assert (E : map fst (map (fun e : entry => (e_key e, (e_tag e, RObj (e_mem e)))) es) = map e_key es).
  { rewrite map_map. reflexivity. }
  rewrite E. apply nodupb_spec in Hn. rewrite Hn. cbn [negb]. cbv zeta.
  rewrite regroup_map_id. rewrite Hs. reflexivity.
Qed.

(* invariants of a re-construction from well-formed entries *)
Lemma regroup_invariants es s bypass ht g :
  regroup es (Some s) bypass ht = Some g -> canonical s ->
  Forall (fun e => wf_member (e_mem e)) es ->
  (bypass = true -> Forall (fun e => within s (e_mem e) /\ normal s (e_mem e)) es) ->
  WFg g /\ Rg g /\ g_sup g = s /\ g_hastag g = ht
  /\ (forall e', In e' (g_entries g) <-> exists e, In e es /\ e' = if bypass then e else restrict_entry s e).
Proof.
  intros H Hc Hwf Hby. destruct (regroup_inv _ _ _ _ _ H) as (Hn & s' & Hs & ->).
  simpl in Hs. inversion Hs; subst s'. clear Hs.
  assert (Hperm : forall e, In e (sort_entries es) <-> In e es).
  { intros e. split; apply Permutation_in; [apply sort_entries_perm|apply Permutation_sym, sort_entries_perm]. }
  assert (Hinc : incr (map e_key (sort_entries es))) by (apply sort_entries_incr; exact Hn).
  assert (Hwf' : Forall (fun e => wf_member (e_mem e)) (sort_entries es)).
  { apply Forall_forall. intros e He. rewrite Forall_forall in Hwf. apply Hwf. apply Hperm. exact He. }
  unfold WFg, Rg, g_keys, g_entries, g_sup, g_hastag. cbn [fst snd].
  destruct bypass.
  - specialize (Hby eq_refl).
    split; [auto|]. split.
    + apply Forall_forall. intros e He. rewrite Forall_forall in Hby. apply Hby. apply Hperm. exact He.
    + split; [reflexivity|]. split; [reflexivity|].
      intros e'. rewrite Hperm. split; [intros; exists e'; auto|intros (e & He & ->); exact He].
  - rewrite Forall_forall in Hwf'.
    split; [|split; [|split; [reflexivity|split; [reflexivity|]]]].
    + split; [rewrite map_members_keys; exact Hinc|]. split; [exact Hc|].
      apply Forall_map_members. apply Forall_forall. intros e He. unfold e_mem. cbn [snd].
      apply ts_restrict_wf; [apply (Hwf' e He)|exact Hc].
    + apply Forall_map_members. apply Forall_forall. intros e He. unfold e_mem. cbn [snd].
      split; [apply ts_restrict_within|apply ts_restrict_normal]; try exact Hc; apply (Hwf' e He).
    + intros e'. unfold map_members. rewrite in_map_iff. split.
      * intros (e & <- & He). exists e. split; [apply Hperm; exact He|reflexivity].
      * intros (e & He & ->). exists e. split; [reflexivity|apply Hperm; exact He].
Qed.

(* re-construction without a given support, members checked *)
Lemma regroup_invariants_union es ht g :
  regroup es None false ht = Some g ->
  Forall (fun e => wf_member (e_mem e)) es ->
  WFg g /\ Rg g /\ g_hastag g = ht
  /\ g_sup g = union_supports (map (fun e => m_sup (e_mem e)) (sort_entries es)) /\ g_sup g <> []
  /\ (forall e', In e' (g_entries g) <-> exists e, In e es /\ e' = restrict_entry (g_sup g) e).
Proof.
  intros H Hwf. destruct (regroup_inv _ _ _ _ _ H) as (Hn & s & Hs & ->).
  assert (Hperm : forall e, In e (sort_entries es) <-> In e es).
  { intros e. split; apply Permutation_in; [apply sort_entries_perm|apply Permutation_sym, sort_entries_perm]. }
  assert (Hinc : incr (map e_key (sort_entries es))) by (apply sort_entries_incr; exact Hn).
  assert (Hwf' : Forall (fun e => wf_member (e_mem e)) (sort_entries es)).
  { apply Forall_forall. intros e He. rewrite Forall_forall in Hwf. apply Hwf. apply Hperm. exact He. }
  unfold chosen_support in Hs.
  destruct (union_supports (map (fun e => m_sup (e_mem e)) (sort_entries es))) as [|I0 u] eqn:Eu; [discriminate|].
  inversion Hs; subst s. clear Hs.
  assert (Hc : canonical (I0 :: u)).
  { rewrite <- Eu. apply union_supports_canonical. apply Forall_forall. intros A HA.
    apply in_map_iff in HA. destruct HA as (e & <- & He). rewrite Forall_forall in Hwf'. apply (Hwf' e He). }
  unfold WFg, Rg, g_keys, g_entries, g_sup, g_hastag. cbn [fst snd].
  rewrite Forall_forall in Hwf'.
  split; [|split; [|split; [reflexivity|split; [reflexivity|split; [discriminate|]]]]].
  - split; [rewrite map_members_keys; exact Hinc|]. split; [exact Hc|].
    apply Forall_map_members. apply Forall_forall. intros e He. unfold e_mem. cbn [snd].
    apply ts_restrict_wf; [apply (Hwf' e He)|exact Hc].
  - apply Forall_map_members. apply Forall_forall. intros e He. unfold e_mem. cbn [snd].
    split; [apply ts_restrict_within|apply ts_restrict_normal]; try exact Hc; apply (Hwf' e He).
  - intros e'. unfold map_members. rewrite in_map_iff. split.
    + intros (e & <- & He). exists e. split; [apply Hperm; exact He|reflexivity].
    + intros (e & He & ->). exists e. split; [reflexivity|apply Hperm; exact He].
Qed.

(* under the invariants, restricting an entry to the group's support changes nothing *)
Lemma restrict_entry_id g e : WFg g -> Rg g -> In e (g_entries g) -> restrict_entry (g_sup g) e = e.
Proof.
  intros (_ & Hc & Hwf) HR Hin. unfold Rg in HR. rewrite Forall_forall in Hwf, HR.
  destruct (HR e Hin) as [Hw Hn]. unfold restrict_entry.
  rewrite ts_restrict_id; [apply entry_eta|apply (Hwf e Hin)|exact Hc|exact Hw|exact Hn].
Qed.

(* ================================================================== *)
(* 8. selection by a list of keys, a mask, the tag column               *)

Definition pick (es : list entry) (k : Z) : list entry := match lookup k es with Some e => [e] | None => [] end.

Lemma In_pick es keys e : NoDup (map e_key es) ->
  In e (flat_map (pick es) keys) <-> In e es /\ In (e_key e) keys.
Proof.
  intros Hn. rewrite in_flat_map. unfold pick. split.
  - intros (k & Hk & He). destruct (lookup k es) as [e0|] eqn:El; [|contradiction].
    destruct He as [<-|[]]. apply lookup_In in El. destruct El as [E1 E2]. subst k. auto.
  - intros [He Hk]. exists (e_key e). split; [exact Hk|].
    rewrite (In_lookup (e_key e) es e Hn He eq_refl). left; reflexivity.
Qed.

Lemma pick_keys es keys : (forall k, In k keys -> In k (map e_key es)) -> map e_key (flat_map (pick es) keys) = keys.
Proof.
  induction keys as [|k r IH]; intros H; simpl; [reflexivity|].
  rewrite map_app, IH by (intros; apply H; right; assumption). unfold pick.
  destruct (lookup k es) as [e|] eqn:El.
  - apply lookup_In in El. destruct El as [_ El]. simpl. rewrite El. reflexivity.
  - apply lookup_None in El. exfalso. apply El. apply H. left; reflexivity.
Qed.

Theorem select_keys_spec g keys g' :
  WFg g -> select_keys g keys = Some g' ->
  WFg g' /\ Rg g' /\ g_sup g' = g_sup g /\ g_hastag g' = g_hastag g
  /\ NoDup keys /\ (forall k, In k keys -> In k (g_keys g))
  /\ (forall e', In e' (g_entries g') <->
                 exists e, In e (g_entries g) /\ In (e_key e) keys /\ e' = restrict_entry (g_sup g) e).
Proof.
  intros (Hinc & Hc & Hwf) H. unfold select_keys in H.
  destruct (forallb (fun k => has_key k (g_entries g)) keys && nodupb keys) eqn:E; [|discriminate].
  apply andb_true_iff in E. destruct E as [E1 E2].
  apply nodupb_spec in E2. rewrite forallb_forall in E1.
  assert (Hkeys : forall k, In k keys -> In k (g_keys g)).
  { intros k Hk. apply has_key_In. apply E1. exact Hk. }
  pose proof (incr_NoDup _ Hinc) as Hnd.
  fold (pick (g_entries g)) in H.
  assert (Hwf' : Forall (fun e => wf_member (e_mem e)) (flat_map (pick (g_entries g)) keys)).
  { apply Forall_forall. intros e He. apply (In_pick _ _ _ Hnd) in He. rewrite Forall_forall in Hwf. apply Hwf. tauto. }
  destruct (regroup_invariants _ _ _ _ _ H Hc Hwf' ltac:(discriminate)) as (W & R & S & T & Hin).
  repeat (split; [assumption|]).
  intros e'. rewrite Hin. split.
  - intros (e & He & ->). apply (In_pick _ _ _ Hnd) in He. exists e. tauto.
  - intros (e & He & Hk & ->). exists e. split; [apply (In_pick _ _ _ Hnd); tauto|reflexivity].
Qed.

(* on a group that satisfies the invariants, the selected members are the old ones, untouched *)
Theorem select_keys_preserves g keys g' :
  WFg g -> Rg g -> select_keys g keys = Some g' ->
  incr (g_keys g') /\ g_sup g' = g_sup g
  /\ (forall e, In e (g_entries g') <-> In e (g_entries g) /\ In (e_key e) keys).
Proof.
  intros W R H. destruct (select_keys_spec g keys g' W H) as ((Hinc & _) & _ & S & _ & _ & _ & Hin).
  split; [exact Hinc|]. split; [exact S|].
  intros e'. rewrite Hin. split.
  - intros (e & He & Hk & ->). rewrite (restrict_entry_id g e W R He). auto.
  - intros [He Hk]. exists e'. rewrite (restrict_entry_id g e' W R He). auto.
Qed.

Theorem select_keys_total g keys :
  NoDup keys -> (forall k, In k keys -> In k (g_keys g)) -> exists g', select_keys g keys = Some g'.
Proof.
  intros Hn Hk. unfold select_keys.
  assert (E1 : forallb (fun k => has_key k (g_entries g)) keys = true).
  { apply forallb_forall. intros k Hin. apply has_key_In. apply Hk. exact Hin. }
  apply nodupb_spec in Hn. rewrite E1, Hn. cbn [andb]. fold (pick (g_entries g)).
  eexists. apply regroup_some; [|reflexivity].
  rewrite pick_keys by exact Hk. apply nodupb_spec. exact Hn.
Qed.

(* masks *)
Lemma mask_keys_In mask : forall es k,
  In k (mask_keys mask es) <-> exists i, nth_error mask i = Some true /\ nth_error (map e_key es) i = Some k.
Proof.
  induction mask as [|b mr IH]; intros es k.
  - simpl. split; [contradiction|]. intros (i & H & _). destruct i; discriminate.
  - destruct es as [|e er].
    + simpl. split; [contradiction|]. intros (i & _ & H). destruct i; discriminate.
    + cbn [mask_keys]. destruct b.
      * cbn [In]. rewrite IH. split.
        -- intros [<-|(i & H1 & H2)]; [exists 0%nat; split; reflexivity|exists (S i); split; assumption].
        -- intros ([|i] & H1 & H2); [left; simpl in H2; congruence|right; exists i; split; assumption].
      * rewrite IH. split.
        -- intros (i & H1 & H2). exists (S i). split; assumption.
        -- intros ([|i] & H1 & H2); [discriminate|exists i; split; assumption].
Qed.

Theorem select_mask_spec g mask g' :
  select_mask g mask = Some g' ->
  length mask = length (g_entries g) /\ select_keys g (mask_keys mask (g_entries g)) = Some g'.
Proof.
  unfold select_mask. destruct (length mask =? length (g_entries g))%nat eqn:E; [|discriminate].
  apply Nat.eqb_eq in E. auto.
Qed.

(* the tag column *)
Theorem select_pred_spec g p g' :
  WFg g -> select_pred g p = Some g' ->
  g_hastag g = true /\ WFg g' /\ Rg g' /\ g_sup g' = g_sup g /\ g_hastag g' = true
  /\ (forall e', In e' (g_entries g') <->
                 exists e, In e (g_entries g) /\ p (e_tag e) = true /\ e' = restrict_entry (g_sup g) e).
Proof.
  intros W H. unfold select_pred in H. destruct (g_hastag g) eqn:Et; [|discriminate].
  destruct (select_keys_spec g _ g' W H) as (W' & R' & S & T & _ & _ & Hin).
  split; [reflexivity|]. split; [exact W'|]. split; [exact R'|]. split; [exact S|]. split; [congruence|].
  destruct W as (Hinc & _ & _). pose proof (incr_NoDup _ Hinc) as Hnd.
  intros e'. rewrite Hin. split.
  - intros (e & He & Hk & ->). exists e. split; [exact He|]. split; [|reflexivity].
    apply in_map_iff in Hk. destruct Hk as (e0 & Ek & H0). apply filter_In in H0. destruct H0 as [H0 Hp].
    assert (e0 = e).
    { pose proof (In_lookup (e_key e) (g_entries g) e Hnd He eq_refl) as L1.
      pose proof (In_lookup (e_key e) (g_entries g) e0 Hnd H0 Ek) as L2. congruence. }
    subst e0. exact Hp.
  - intros (e & He & Hp & ->). exists e. split; [exact He|]. split; [|reflexivity].
    apply in_map. apply filter_In. auto.
Qed.

Theorem getby_threshold_spec g thr op g' :
  WFg g -> getby_threshold g thr op = Some g' ->
  WFg g' /\ Rg g' /\ g_sup g' = g_sup g
  /\ (forall e', In e' (g_entries g') <->
                 exists e, In e (g_entries g) /\ thr_pred op thr (e_tag e) = true /\ e' = restrict_entry (g_sup g) e).
Proof.
  intros W H. unfold getby_threshold in H. destruct ((0 <=? op) && (op <=? 3)); [|discriminate].
  destruct (select_pred_spec g _ g' W H) as (_ & W' & R' & S & _ & Hin). auto.
Qed.

Theorem getby_category_spec g c g' :
  WFg g -> getby_category g c = Some g' ->
  WFg g' /\ Rg g' /\ g_sup g' = g_sup g
  /\ (forall e', In e' (g_entries g') <->
                 exists e, In e (g_entries g) /\ e_tag e = c /\ e' = restrict_entry (g_sup g) e).
Proof.
  intros W H. unfold getby_category in H. destruct (existsb (fun e => e_tag e =? c) (g_entries g)); [|discriminate].
  destruct (select_pred_spec g _ g' W H) as (_ & W' & R' & S & _ & Hin).
  split; [exact W'|]. split; [exact R'|]. split; [exact S|].
  intros e'. rewrite Hin. split; intros (e & He & Hp & ->); exists e; (split; [exact He|]); (split; [|reflexivity]).
  - apply Z.eqb_eq. exact Hp.
  - apply Z.eqb_eq. exact Hp.
Qed.

Theorem getby_intervals_spec g bins i r :
  In (i, r) (getby_intervals g bins) ->
  exists a b, nth_error (bin_pairs bins) i = Some (a, b)
              /\ r = select_pred g (fun x => (a <=? x) && (x <? b))
              /\ existsb (fun e => (a <=? e_tag e) && (e_tag e <? b)) (g_entries g) = true.
Proof.
  unfold getby_intervals. destruct (g_hastag g); [|contradiction].
  rewrite in_flat_map. intros ([j [a b]] & Hin & H).
  destruct (existsb (fun e => (a <=? e_tag e) && (e_tag e <? b)) (g_entries g)) eqn:E; [|contradiction].
  destruct H as [H|[]]. inversion H; subst. exists a, b. split; [|split; [reflexivity|exact E]].
  clear -Hin. remember (bin_pairs bins) as l. clear Heql.
  assert (G : forall (l : list (Z * Z)) n i ab, In (i, ab) (combine (seq n (length l)) l) -> nth_error l (i - n) = Some ab /\ (n <= i)%nat).
  { clear. induction l as [|x r IH]; intros n i ab H; simpl in H; [contradiction|].
    destruct H as [H|H].
    - inversion H; subst. rewrite Nat.sub_diag. split; [reflexivity|lia].
    - destruct (IH _ _ _ H) as [H1 H2]. split; [|lia]. replace (i - n)%nat with (S (i - S n)) by lia. exact H1. }
  destruct (G l 0%nat i (a, b) Hin) as [H _]. rewrite Nat.sub_0_r in H. exact H.
Qed.

(* ================================================================== *)
(* 9. restrict and get: member-wise, keys and tags untouched            *)

Lemma chosen_support_some s es : chosen_support (Some s) es = Some s.
Proof. reflexivity. Qed.

Theorem g_restrict_spec g ep :
  WFg g -> canonical ep ->
  exists g', g_restrict g ep = Some g'
    /\ WFg g' /\ Rg g' /\ g_sup g' = ep /\ g_hastag g' = g_hastag g
    /\ g_entries g' = map (restrict_entry ep) (g_entries g)
    /\ Forall (fun e => m_t (e_mem (restrict_entry ep e)) = filter (fun x => mem x ep) (m_t (e_mem e))) (g_entries g).
Proof.
  intros (Hinc & Hc & Hwf) Hep. unfold g_restrict.
  set (es' := map_members (fun m => ts_restrict m ep) (g_entries g)).
  assert (Hk : map e_key es' = g_keys g) by apply map_members_keys.
  assert (Hinc' : incr (map e_key es')) by (rewrite Hk; exact Hinc).
  assert (Hs : regroup es' (Some ep) true (g_hastag g) = Some (es', (ep, g_hastag g))).
  { rewrite (regroup_some es' (Some ep) true (g_hastag g) ep (incr_NoDup _ Hinc') eq_refl).
    rewrite sort_entries_sorted_id by exact Hinc'. reflexivity. }
  exists (es', (ep, g_hastag g)). split; [exact Hs|].
  rewrite Forall_forall in Hwf.
  assert (Hwf' : Forall (fun e => wf_member (e_mem e)) es').
  { apply Forall_map_members. apply Forall_forall. intros e He. unfold e_mem. cbn [snd].
    apply ts_restrict_wf; [apply (Hwf e He)|exact Hep]. }
  assert (HR : Forall (fun e => within ep (e_mem e) /\ normal ep (e_mem e)) es').
  { apply Forall_map_members. apply Forall_forall. intros e He. unfold e_mem. cbn [snd].
    split; [apply ts_restrict_within|apply ts_restrict_normal]; try exact Hep; apply (Hwf e He). }
  destruct (regroup_invariants _ _ _ _ _ Hs Hep Hwf' (fun _ => HR)) as (W & R & S & T & _).
  repeat (split; [assumption|]). split; [reflexivity|].
  apply Forall_forall. intros e He. apply ts_restrict_t; [apply (Hwf e He)|exact Hep].
Qed.

Theorem g_get_spec g a b :
  WFg g -> Rg g -> (a <= b \/ g_entries g = []) ->
  exists g', g_get g a b = Some g'
    /\ WFg g' /\ Rg g' /\ g_sup g' = g_sup g /\ g_hastag g' = g_hastag g
    /\ g_entries g' = map_members (fun m => ts_get m a b) (g_entries g)
    /\ Forall (fun e => m_t (ts_get (e_mem e) a b) = filter (fun t => (a <=? t) && (t <=? b)) (m_t (e_mem e))) (g_entries g).
Proof.
  intros (Hinc & Hc & Hwf) HR Hab. unfold g_get.
  assert (E : (b <? a) && negb (match g_entries g with [] => true | _ => false end) = false).
  { destruct Hab as [Hab|Hab]; [destruct (b <? a) eqn:E; [lia|reflexivity]|rewrite Hab; apply andb_false_r]. }
  rewrite E.
  set (es' := map_members (fun m => ts_get m a b) (g_entries g)).
  assert (Hk : map e_key es' = g_keys g) by apply map_members_keys.
  assert (Hinc' : incr (map e_key es')) by (rewrite Hk; exact Hinc).
  assert (Hs : regroup es' (Some (g_sup g)) true (g_hastag g) = Some (es', (g_sup g, g_hastag g))).
  { rewrite (regroup_some es' (Some (g_sup g)) true (g_hastag g) (g_sup g) (incr_NoDup _ Hinc') eq_refl).
    rewrite sort_entries_sorted_id by exact Hinc'. reflexivity. }
  exists (es', (g_sup g, g_hastag g)). split; [exact Hs|].
  unfold Rg in HR. rewrite Forall_forall in Hwf, HR.
  assert (Hall : forall e, In e (g_entries g) ->
            m_t (ts_get (e_mem e) a b) = filter (fun t => (a <=? t) && (t <=? b)) (m_t (e_mem e))
            /\ wf_member (ts_get (e_mem e) a b) /\ within (g_sup g) (ts_get (e_mem e) a b) /\ normal (g_sup g) (ts_get (e_mem e) a b)).
  { intros e He. destruct (HR e He) as [Hw Hn]. apply ts_get_t; [apply (Hwf e He)|exact Hc|exact Hw|exact Hn]. }
  assert (Hwf' : Forall (fun e => wf_member (e_mem e)) es').
  { apply Forall_map_members. apply Forall_forall. intros e He. unfold e_mem. cbn [snd]. apply (Hall e He). }
  assert (HR' : Forall (fun e => within (g_sup g) (e_mem e) /\ normal (g_sup g) (e_mem e)) es').
  { apply Forall_map_members. apply Forall_forall. intros e He. unfold e_mem. cbn [snd].
    destruct (Hall e He) as (_ & _ & H1 & H2). auto. }
  destruct (regroup_invariants _ _ _ _ _ Hs Hc Hwf' (fun _ => HR')) as (W & R & S & T & _).
  repeat (split; [assumption|]). split; [reflexivity|].
  apply Forall_forall. intros e He. apply (Hall e He).
Qed.

Theorem g_get_inverted g a b : b < a -> g_entries g <> [] -> g_get g a b = None.
Proof. intros H Hn. unfold g_get. destruct (b <? a) eqn:E; [|lia]. destruct (g_entries g); [congruence|reflexivity]. Qed.

(* ================================================================== *)
(* 10. merge_group                                                      *)

Lemma merge_group_gen_inv strict lax gs ri rs im g' :
  (2 <= length gs)%nat -> merge_group_gen strict lax gs ri rs im = Some g' ->
  exists g1 rest, gs = g1 :: rest
    /\ (im = true \/ Forall (fun g => g_hastag g = g_hastag g1) rest)
    /\ (ri = true \/ disjoint_keys (g_keys g1) rest = true)
    /\ (rs = true \/ Forall (fun g => (if lax then sup_same_orig else sup_same) (g_sup g1) (g_sup g) = true) rest)
    /\ (strict = false \/ im = true \/ incr (map e_key (merge_items gs ri)))
    /\ regroup (merge_items gs ri) (if rs then None else Some (g_sup g1)) false (if im then false else g_hastag g1) = Some g'.
Proof.
  intros Hl H. destruct gs as [|g1 [|g2 rest]]; simpl in Hl; try lia.
  exists g1, (g2 :: rest). split; [reflexivity|].
  set (gs := g1 :: g2 :: rest) in *. set (rs' := g2 :: rest) in *.
  assert (E : merge_group_gen strict lax gs ri rs im =
    if (im || forallb (fun g => Bool.eqb (g_hastag g) (g_hastag g1)) rs')
       && (ri || disjoint_keys (g_keys g1) rs')
       && (rs || forallb (fun g => (if lax then sup_same_orig else sup_same) (g_sup g1) (g_sup g)) rs')
    then if strict && negb im && negb (incrb (map e_key (merge_items gs ri))) then None
         else regroup (merge_items gs ri) (if rs then None else Some (g_sup g1)) false (if im then false else g_hastag g1)
    else None) by reflexivity.
  rewrite E in H. clear E.
  destruct ((im || forallb (fun g => Bool.eqb (g_hastag g) (g_hastag g1)) rs')
            && (ri || disjoint_keys (g_keys g1) rs')
            && (rs || forallb (fun g => (if lax then sup_same_orig else sup_same) (g_sup g1) (g_sup g)) rs')) eqn:E; [|discriminate].
  apply andb_true_iff in E. destruct E as [E E3]. apply andb_true_iff in E. destruct E as [E1 E2].
  destruct (strict && negb im && negb (incrb (map e_key (merge_items gs ri)))) eqn:E4; [discriminate|].
  split.
  { apply orb_true_iff in E1. destruct E1 as [E1|E1]; [left; exact E1|right].
    apply Forall_forall. intros g Hg. rewrite forallb_forall in E1. apply Bool.eqb_prop. apply E1. exact Hg. }
  split. { apply orb_true_iff in E2. exact E2. }
  split.
  { apply orb_true_iff in E3. destruct E3 as [E3|E3]; [left; exact E3|right].
    apply Forall_forall. intros g Hg. rewrite forallb_forall in E3. apply E3. exact Hg. }
  split; [|exact H].
  destruct strict; [|left; reflexivity]. right.
  destruct im; [left; reflexivity|right]. cbn [negb andb] in E4. apply negb_false_iff in E4. apply incrb_spec. exact E4.
Qed.

Lemma merge_group_inv gs ri rs im g' :
  (2 <= length gs)%nat -> merge_group gs ri rs im = Some g' ->
  exists g1 rest, gs = g1 :: rest
    /\ (im = true \/ Forall (fun g => g_hastag g = g_hastag g1) rest)
    /\ (ri = true \/ disjoint_keys (g_keys g1) rest = true)
    /\ (rs = true \/ Forall (fun g => sup_same (g_sup g1) (g_sup g) = true) rest)
    /\ regroup (merge_items gs ri) (if rs then None else Some (g_sup g1)) false (if im then false else g_hastag g1) = Some g'.
Proof.
  intros Hl H. destruct (merge_group_gen_inv false false gs ri rs im g' Hl H) as (g1 & rest & E & H1 & H2 & H3 & _ & H5).
  exists g1, rest. auto.
Qed.

(* whatever the original accepted, the repaired function returns the same group *)
Lemma merge_group_orig_sub gs ri rs im g' :
  merge_group_orig gs ri rs im = Some g' -> merge_group gs ri rs im = Some g'.
Proof.
  unfold merge_group_orig, merge_group, merge_group_gen. destruct gs as [|g1 [|g2 rest]]; try (intros H; exact H).
  destruct ((im || forallb (fun g => Bool.eqb (g_hastag g) (g_hastag g1)) (g2 :: rest))
            && (ri || disjoint_keys (g_keys g1) (g2 :: rest))
            && (rs || forallb (fun g => sup_same (g_sup g1) (g_sup g)) (g2 :: rest))); [|intros H; exact H].
  cbn [andb]. destruct (negb im && negb (incrb (map e_key (merge_items (g1 :: g2 :: rest) ri)))); [discriminate|].
  intros H; exact H.
Qed.

Lemma Forall_flat_map {A B} (P : B -> Prop) (f : A -> list B) l :
  Forall (fun a => Forall P (f a)) l -> Forall P (flat_map f l).
Proof.
  induction l as [|a r IH]; intros H; simpl; [constructor|].
  inversion H; subst. apply Forall_app. split; [assumption|apply IH; assumption].
Qed.

Lemma renumber_spec es : map (fun e => snd e) (renumber es) = map (fun e => snd e) es
  /\ map e_key (renumber es) = map Z.of_nat (seq 0 (length es)).
Proof.
  unfold renumber. generalize 0%nat. induction es as [|e r IH]; intros n; simpl; [split; reflexivity|].
  destruct (IH (S n)) as [I1 I2]. split; f_equal; assumption.
Qed.

Lemma renumber_wf es : Forall (fun e => wf_member (e_mem e)) es -> Forall (fun e => wf_member (e_mem e)) (renumber es).
Proof.
  intros H. destruct (renumber_spec es) as [E _].
  assert (G : forall l l' : list entry, map (fun e => snd e) l = map (fun e => snd e) l' ->
              Forall (fun e => wf_member (e_mem e)) l' -> Forall (fun e => wf_member (e_mem e)) l).
  { induction l as [|x r IH]; intros [|y q] Em Hq; simpl in Em; try discriminate; [constructor|].
    inversion Em. inversion Hq; subst. constructor; [|eapply IH; eassumption].
    unfold e_mem in *. congruence. }
  eapply G; eassumption.
Qed.

Theorem merge_group_spec gs ri rs im g' :
  (2 <= length gs)%nat -> Forall WFg gs -> merge_group gs ri rs im = Some g' ->
  WFg g' /\ Rg g'
  /\ (rs = false -> g_sup g' = g_sup (hd g' gs))
  /\ (rs = true -> g_sup g' = union_supports (map (fun e => m_sup (e_mem e)) (sort_entries (merge_items gs ri))) /\ g_sup g' <> [])
  /\ (forall e', In e' (g_entries g') <-> exists e, In e (merge_items gs ri) /\ e' = restrict_entry (g_sup g') e)
  /\ (ri = true -> g_keys g' = map Z.of_nat (seq 0 (length (flat_map g_entries gs)))).
Proof.
  intros Hl HW H. destruct (merge_group_inv _ _ _ _ _ Hl H) as (g1 & rest & -> & _ & _ & _ & Hr).
  assert (Hwf0 : Forall (fun e => wf_member (e_mem e)) (flat_map g_entries (g1 :: rest))).
  { apply Forall_flat_map. eapply Forall_impl'; [|exact HW]. intros g (_ & _ & Hg). exact Hg. }
  assert (Hwf : Forall (fun e => wf_member (e_mem e)) (merge_items (g1 :: rest) ri)).
  { unfold merge_items. destruct ri; [apply renumber_wf|]; exact Hwf0. }
  assert (Hkeys : forall g, g_keys g = map e_key (g_entries g)) by reflexivity.
  assert (Hri : WFg g' -> (forall e', In e' (g_entries g') <-> exists e, In e (merge_items (g1 :: rest) ri) /\ e' = restrict_entry (g_sup g') e) ->
                ri = true -> g_keys g' = map Z.of_nat (seq 0 (length (flat_map g_entries (g1 :: rest))))).
  { intros _ _ ->. destruct (regroup_inv _ _ _ _ _ Hr) as (_ & s & _ & ->).
    unfold g_keys, g_entries. cbn [fst]. rewrite map_members_keys.
    unfold merge_items. destruct (renumber_spec (flat_map g_entries (g1 :: rest))) as [_ E].
    rewrite sort_entries_sorted_id; [exact E|]. rewrite E.
    clear. generalize (length (flat_map g_entries (g1 :: rest))). intros n0.
    assert (G : forall m k, inc_from (Z.of_nat k - 1) (map Z.of_nat (seq k m))).
    { induction m as [|m IH]; intros k; simpl; [exact I|]. split; [lia|].
      replace (Z.of_nat k) with (Z.of_nat (S k) - 1) by lia. apply IH. }
    eapply inc_from_incr. apply (G n0 0%nat). }
  destruct rs.
  - destruct (regroup_invariants_union _ _ _ Hr Hwf) as (W & R & _ & S & Sn & Hin).
    split; [exact W|]. split; [exact R|]. split; [discriminate|]. split; [auto|]. split; [exact Hin|apply Hri; assumption].
  - inversion HW as [|? ? (_ & Hc1 & _) _]; subst.
    destruct (regroup_invariants _ _ _ _ _ Hr Hc1 Hwf ltac:(discriminate)) as (W & R & S & _ & Hin).
    split; [exact W|]. split; [exact R|]. split; [intros _; exact S|]. split; [discriminate|].
    split; [rewrite S; exact Hin|]. apply Hri; [exact W|rewrite S; exact Hin].
Qed.

(* members of groups that satisfy the invariants and share the support are carried over untouched *)
Theorem merge_group_preserves gs im g' :
  (2 <= length gs)%nat -> Forall WFg gs -> Forall Rg gs ->
  Forall (fun g => g_sup g = g_sup (hd g' gs)) gs ->
  merge_group gs false false im = Some g' ->
  incr (g_keys g') /\ g_sup g' = g_sup (hd g' gs)
  /\ (forall e, In e (g_entries g') <-> exists g, In g gs /\ In e (g_entries g)).
Proof.
  intros Hl HW HR HS H. destruct (merge_group_spec gs false false im g' Hl HW H) as ((Hinc & _) & _ & S & _ & Hin & _).
  specialize (S eq_refl). split; [exact Hinc|]. split; [exact S|].
  assert (Hid : forall g e, In g gs -> In e (g_entries g) -> restrict_entry (g_sup g') e = e).
  { intros g e Hg He. rewrite Forall_forall in HW, HR, HS. rewrite S, <- (HS g Hg).
    apply restrict_entry_id; auto. }
  intros e'. rewrite Hin. unfold merge_items. split.
  - intros (e & He & ->). apply in_flat_map in He. destruct He as (g & Hg & He).
    exists g. rewrite (Hid g e Hg He). auto.
  - intros (g & Hg & He). exists e'. split; [apply in_flat_map; eauto|]. symmetry. eapply Hid; eassumption.
Qed.

Lemma iset_eqb_eq a : forall b, iset_eqb a b = true -> a = b.
Proof.
  induction a as [|[s e] r IH]; intros [|[s' e'] r'] H; simpl in H; try discriminate; [reflexivity|].
  apply andb_true_iff in H. destruct H as [H H3]. apply andb_true_iff in H. destruct H as [H1 H2].
  apply Z.eqb_eq in H1, H2. subst. f_equal. apply IH. exact H3.
Qed.

(* the statement's clause as it reads, time support kept: whatever merge_group accepts (as repaired, it
   accepts only groups that carry the same support), every member of every group is in the result,
   untouched, under its key, and nothing else is *)
Theorem merge_group_preserves_exact gs im g' :
  (2 <= length gs)%nat -> Forall WFg gs -> Forall Rg gs ->
  merge_group gs false false im = Some g' ->
  incr (g_keys g') /\ Forall (fun g => g_sup g = g_sup g') gs
  /\ (forall e, In e (g_entries g') <-> exists g, In g gs /\ In e (g_entries g)).
Proof.
  intros Hl HW HR H.
  destruct (merge_group_inv _ _ _ _ _ Hl H) as (g1 & rest & E & _ & _ & [Hf|Hs] & _); [discriminate|].
  assert (HS : Forall (fun g => g_sup g = g_sup (hd g' gs)) gs).
  { subst gs. cbn [hd]. constructor; [reflexivity|]. eapply Forall_impl'; [|exact Hs].
    intros g Hg. symmetry. apply iset_eqb_eq. exact Hg. }
  destruct (merge_group_preserves gs im g' Hl HW HR HS H) as (Hinc & S & Hin).
  split; [exact Hinc|]. split; [|exact Hin].
  eapply Forall_impl'; [|exact HS]. intros g Hg. rewrite S. exact Hg.
Qed.

(* ... and with the time support reset (to the union of the members' supports): the timestamps of every
   member are preserved under its key (the member now carries the new support) *)
Theorem merge_group_reset_preserves gs ri im g' :
  (2 <= length gs)%nat -> Forall WFg gs -> Forall Rg gs ->
  merge_group gs ri true im = Some g' ->
  (forall x, mem x (g_sup g') = existsb (fun e => mem x (m_sup (e_mem e))) (merge_items gs ri))
  /\ (forall e', In e' (g_entries g') <->
                 exists e, In e (merge_items gs ri) /\ e' = restrict_entry (g_sup g') e)
  /\ (forall e, In e (merge_items gs ri) -> m_t (e_mem (restrict_entry (g_sup g') e)) = m_t (e_mem e)).
Proof.
  intros Hl HW HR H.
  destruct (merge_group_spec gs ri true im g' Hl HW H) as (W & _ & _ & S & Hin & _).
  destruct (S eq_refl) as [Es _]. clear S.
  assert (Hwf0 : Forall (fun e => wf_member (e_mem e)) (flat_map g_entries gs)).
  { apply Forall_flat_map. eapply Forall_impl'; [|exact HW]. intros g (_ & _ & Hg). exact Hg. }
  assert (Hwf : Forall (fun e => wf_member (e_mem e)) (merge_items gs ri)).
  { unfold merge_items. destruct ri; [apply renumber_wf|]; exact Hwf0. }
  assert (Hperm : forall e, In e (sort_entries (merge_items gs ri)) <-> In e (merge_items gs ri)).
  { intros e. split; apply Permutation_in; [apply sort_entries_perm|apply Permutation_sym, sort_entries_perm]. }
  assert (Hcan : Forall canonical (map (fun e => m_sup (e_mem e)) (sort_entries (merge_items gs ri)))).
  { apply Forall_forall. intros A HA. apply in_map_iff in HA. destruct HA as (e & <- & He).
    rewrite Forall_forall in Hwf. apply (Hwf e). apply Hperm. exact He. }
  assert (Hmem : forall x, mem x (g_sup g') = existsb (fun e => mem x (m_sup (e_mem e))) (merge_items gs ri)).
  { intros x. rewrite Es, (union_supports_mem_all _ x Hcan), existsb_map'.
    apply Bool.eq_iff_eq_true. rewrite !existsb_exists. split; intros (e & He & Hx); exists e; (split; [apply Hperm; exact He|exact Hx]). }
  split; [exact Hmem|]. split; [exact Hin|].
  (* every sample of a member lies in the member's own support *)
  assert (Hown0 : Forall (fun e => Forall (fun x => mem x (m_sup (e_mem e)) = true) (m_t (e_mem e))) (flat_map g_entries gs)).
  { apply Forall_flat_map. rewrite Forall_forall in HR. apply Forall_forall. intros g Hg.
    specialize (HR g Hg). unfold Rg in HR. eapply Forall_impl'; [|exact HR].
    intros e (Hw & Hn). unfold within in Hw. unfold normal in Hn.
    destruct (m_t (e_mem e)) as [|t0 tr] eqn:Et; [constructor|]. rewrite Hn. exact Hw. }
  assert (Hown : Forall (fun e => Forall (fun x => mem x (m_sup (e_mem e)) = true) (m_t (e_mem e))) (merge_items gs ri)).
  { unfold merge_items. destruct ri; [|exact Hown0].
    destruct (renumber_spec (flat_map g_entries gs)) as [E _].
    assert (G : forall l l' : list entry, map (fun e => snd e) l = map (fun e => snd e) l' ->
                Forall (fun e => Forall (fun x => mem x (m_sup (e_mem e)) = true) (m_t (e_mem e))) l' ->
                Forall (fun e => Forall (fun x => mem x (m_sup (e_mem e)) = true) (m_t (e_mem e))) l).
    { induction l as [|a r IH]; intros [|b q] Em Hq; simpl in Em; try discriminate; [constructor|].
      inversion Em. inversion Hq; subst. constructor; [|eapply IH; eassumption].
      unfold e_mem in *. replace (snd (snd a)) with (snd (snd b)) by congruence. assumption. }
    eapply G; eassumption. }
  intros e He. destruct W as (_ & Hc & _).
  rewrite Forall_forall in Hwf, Hown.
  unfold restrict_entry, e_mem at 1. cbn [snd].
  rewrite ts_restrict_t; [|apply (Hwf e He)|exact Hc].
  specialize (Hown e He). induction (m_t (e_mem e)) as [|x r IH]; [reflexivity|].
  inversion Hown; subst. simpl.
  assert (Hx : mem x (g_sup g') = true).
  { rewrite Hmem. apply existsb_exists. exists e. split; assumption. }
  rewrite Hx. f_equal. apply IH. assumption.
Qed.

(* ================================================================== *)
(* 11. to_tsd -> to_tsgroup                                             *)

Definition group_rows (g : group) : list (Z * Z) :=
  flat_map (fun e => map (fun t => (t, e_key e)) (m_t (e_mem e))) (g_entries g).

Lemma insert_row_perm x l : Permutation (insert_row_stable x l) (x :: l).
Proof.
  induction l as [|y r IH]; simpl; [apply Permutation_refl|].
  destruct (fst x <=? fst y); [apply Permutation_refl|].
  eapply Permutation_trans; [apply perm_skip; exact IH|apply perm_swap].
Qed.

Lemma sort_rows_perm l : Permutation (sort_rows_stable l) l.
Proof.
  induction l as [|x r IH]; simpl; [constructor|].
  eapply Permutation_trans; [apply insert_row_perm|apply perm_skip; exact IH].
Qed.

Lemma insert_row_sorted x l : forall lo,
  sorted_from lo (map fst l) -> lo <= fst x -> sorted_from lo (map fst (insert_row_stable x l)).
Proof.
  induction l as [|y r IH]; intros lo H Hlo; simpl.
  - auto.
  - simpl in H. destruct H as [H1 H2]. destruct (fst x <=? fst y) eqn:E; simpl.
    + repeat split; try lia. exact H2.
    + split; [exact H1|]. apply IH; [exact H2|lia].
Qed.

Lemma sort_rows_sorted_from l : exists lo, sorted_from lo (map fst (sort_rows_stable l)).
Proof.
  induction l as [|x r [lo IH]]; simpl; [exists 0; exact I|].
  exists (Z.min lo (fst x)). apply insert_row_sorted; [|lia].
  eapply sorted_from_weaken; [|exact IH]. lia.
Qed.

Lemma sort_rows_sorted l : sortedZ (map fst (sort_rows_stable l)).
Proof. destruct (sort_rows_sorted_from l) as [lo H]. eapply sortedZ_from; exact H. Qed.

(* inserting into a sorted list, then filtering = filtering, then inserting *)
Lemma filter_insert_row (p : Z * Z -> bool) x l : forall lo,
  sorted_from lo (map fst l) ->
  filter p (insert_row_stable x l) = if p x then insert_row_stable x (filter p l) else filter p l.
Proof.
  induction l as [|y r IH]; intros lo H; simpl.
  - destruct (p x); reflexivity.
  - simpl in H. destruct H as [H1 H2].
    destruct (fst x <=? fst y) eqn:E.
    + (* x goes in front of y: in the filtered list it also goes in front *)
      simpl. destruct (p x) eqn:Px.
      * destruct (p y) eqn:Py; simpl.
        -- rewrite E. reflexivity.
        -- (* every kept element of r is >= y >= x *)
           clear IH. assert (G : forall q, Forall (fun z => fst x <= fst z) q -> insert_row_stable x q = x :: q).
           { intros [|z q] Hq; [reflexivity|]. inversion Hq; subst. simpl.
             destruct (fst x <=? fst z) eqn:E'; [reflexivity|lia]. }
           rewrite G; [reflexivity|].
           apply Forall_forall. intros z Hz. apply filter_In in Hz. destruct Hz as [Hz _].
           pose proof (sorted_from_Forall _ _ H2) as HF. rewrite Forall_forall in HF.
           specialize (HF (fst z) (in_map fst _ _ Hz)). lia.
      * reflexivity.
    + simpl. rewrite (IH (fst y) H2). destruct (p y) eqn:Py; destruct (p x) eqn:Px; simpl; try reflexivity.
      rewrite E. reflexivity.
Qed.

Lemma filter_sort_rows (p : Z * Z -> bool) l : filter p (sort_rows_stable l) = sort_rows_stable (filter p l).
Proof.
  induction l as [|x r IH]; simpl; [reflexivity|].
  destruct (sort_rows_sorted_from r) as [lo Hlo].
  rewrite (filter_insert_row p x _ lo Hlo), IH. destruct (p x); reflexivity.
Qed.

Lemma sort_rows_id l : sortedZ (map fst l) -> sort_rows_stable l = l.
Proof.
  induction l as [|x r IH]; intros H; simpl; [reflexivity|].
  rewrite IH by (simpl in H; eapply sortedZ_tail; exact H).
  destruct r as [|y q]; [reflexivity|]. simpl in H. destruct H as [H _]. simpl.
  destruct (fst x <=? fst y) eqn:E; [reflexivity|lia].
Qed.

(* the rows carrying key k are those of the member stored under k *)
Lemma filter_rows_other k (e : entry) : e_key e <> k ->
  filter (fun r : Z * Z => snd r =? k) (map (fun t => (t, e_key e)) (m_t (e_mem e))) = [].
Proof.
  intros H. apply filter_nil_iff. apply Forall_forall. intros r Hr. apply in_map_iff in Hr.
  destruct Hr as (t & <- & _). simpl. apply Z.eqb_neq. exact H.
Qed.

Lemma filter_rows_self (e : entry) :
  filter (fun r : Z * Z => snd r =? e_key e) (map (fun t => (t, e_key e)) (m_t (e_mem e)))
  = map (fun t => (t, e_key e)) (m_t (e_mem e)).
Proof. apply filter_all. apply Forall_forall. intros r Hr. apply in_map_iff in Hr.
  destruct Hr as (t & <- & _). simpl. apply Z.eqb_refl. Qed.

Lemma filter_group_rows es k : NoDup (map e_key es) ->
  filter (fun r : Z * Z => snd r =? k) (flat_map (fun e => map (fun t => (t, e_key e)) (m_t (e_mem e))) es)
  = match lookup k es with Some e => map (fun t => (t, k)) (m_t (e_mem e)) | None => [] end.
Proof.
  induction es as [|e r IH]; intros Hn; simpl; [reflexivity|].
  inversion Hn as [|? ? Hk Hr]; subst.
  assert (Ef : forall (l1 l2 : list (Z * Z)) p, filter p (l1 ++ l2) = filter p l1 ++ filter p l2).
  { intros l1 l2 p. induction l1 as [|a q IHq]; simpl; [reflexivity|]. destruct (p a); simpl; rewrite IHq; reflexivity. }
  rewrite Ef, (IH Hr). unfold lookup. simpl. destruct (e_key e =? k) eqn:E.
  - apply Z.eqb_eq in E. subst k. rewrite filter_rows_self.
    fold (lookup (e_key e) r). assert (L : lookup (e_key e) r = None) by (apply lookup_None; exact Hk).
    rewrite L. apply app_nil_r.
  - apply Z.eqb_neq in E. rewrite (filter_rows_other k e E). reflexivity.
Qed.

(* np.unique *)
Lemma insert_uniq_spec x l : forall lo, inc_from lo l -> lo < x ->
  inc_from lo (insert_uniq x l) /\ (forall y, In y (insert_uniq x l) <-> y = x \/ In y l).
Proof.
  induction l as [|z r IH]; intros lo H Hlo; simpl.
  - split; [auto|]. intros y. intuition congruence.
  - simpl in H. destruct H as [H1 H2]. destruct (x <? z) eqn:E1.
    + split; [simpl; repeat split; try lia; eapply inc_from_weaken; [|exact H2]; lia|]. intros y. simpl. intuition congruence.
    + destruct (x =? z) eqn:E2.
      * apply Z.eqb_eq in E2. subst z. split; [simpl; auto|]. intros y. simpl. intuition congruence.
      * destruct (IH z H2 ltac:(lia)) as [I1 I2]. split; [simpl; auto|].
        intros y. simpl. rewrite I2. intuition congruence.
Qed.

Lemma uniq_sorted_spec l : (exists lo, inc_from lo (uniq_sorted l)) /\ (forall y, In y (uniq_sorted l) <-> In y l).
Proof.
  induction l as [|x r [[lo IH1] IH2]]; simpl.
  - split; [exists 0; exact I|tauto].
  - destruct (insert_uniq_spec x (uniq_sorted r) (Z.min lo (x - 1))) as [I1 I2].
    + eapply inc_from_weaken; [|exact IH1]. lia.
    + lia.
    + split; [eexists; exact I1|]. intros y. rewrite I2, IH2. intuition.
Qed.

Lemma combine_fst_snd (rows : list (Z * Z)) : combine (map fst rows) (map snd rows) = rows.
Proof. induction rows as [|[a b] r IH]; simpl; [reflexivity|]. rewrite IH. reflexivity. Qed.

(* the Tsd constructor leaves sorted rows inside the support alone *)
Lemma mk_tsd_id rows s : rows <> [] -> sortedZ (map fst rows) -> canonical s ->
  Forall (fun r => mem (fst r) s = true) rows -> mk_tsd rows s = (rows, s).
Proof.
  intros Hn Hs Hc Hw. destruct rows as [|r0 q]; [congruence|]. unfold mk_tsd.
  set (rows := r0 :: q) in *.
  rewrite (restrict_rows_spec 0 (map fst rows) (map snd rows) s Hs Hc) by (rewrite !map_length; reflexivity).
  rewrite combine_fst_snd. rewrite filter_all by exact Hw. reflexivity.
Qed.

Theorem roundtrip_spec g :
  WFg g -> Rg g ->
  exists g', roundtrip g = Some g' /\ WFg g' /\ Rg g' /\ g_hastag g' = false
    /\ (forall e', In e' (g_entries g') <->
                   exists e, In e (g_entries g) /\ m_t (e_mem e) <> [] /\ e' = (e_key e, (0, e_mem e)))
    /\ ((exists e, In e (g_entries g) /\ m_t (e_mem e) <> []) -> g_sup g' = g_sup g).
Proof.
  intros (Hinc & Hc & Hwf) HR. unfold roundtrip, to_tsd. fold (group_rows g).
  pose proof (incr_NoDup _ Hinc) as Hnd. unfold g_keys in Hnd.
  unfold Rg in HR. rewrite Forall_forall in Hwf, HR.
  set (R := group_rows g). set (SR := sort_rows_stable R).
  assert (HinR : forall r, In r R <-> exists e, In e (g_entries g) /\ In (fst r) (m_t (e_mem e)) /\ snd r = e_key e).
  { intros r. unfold R, group_rows. rewrite in_flat_map. split.
    - intros (e & He & Hr). apply in_map_iff in Hr. destruct Hr as (t & <- & Ht). exists e. auto.
    - intros (e & He & Ht & Hk). exists e. split; [exact He|]. apply in_map_iff. exists (fst r).
      split; [rewrite <- Hk; destruct r; reflexivity|exact Ht]. }
  assert (Hperm : forall r, In r SR <-> In r R).
  { intros r. split; apply Permutation_in; [apply sort_rows_perm|apply Permutation_sym, sort_rows_perm]. }
  assert (Hcase : R = [] \/ R <> []) by (destruct R; [left; reflexivity|right; discriminate]).
  destruct Hcase as [ER|ER].
  - (* no sample at all *)
    assert (Hempty : forall e, In e (g_entries g) -> m_t (e_mem e) = []).
    { intros e He. destruct (m_t (e_mem e)) as [|t q] eqn:Et; [reflexivity|].
      exfalso. assert (Hin : In (t, e_key e) R) by (apply HinR; exists e; rewrite Et; simpl; auto).
      rewrite ER in Hin. exact Hin. }
    exists ([], ([], false)). unfold SR. rewrite ER. simpl. split; [reflexivity|].
    split; [repeat split; constructor|]. split; [constructor|]. split; [reflexivity|].
    split.
    + intros e'. split; [contradiction|]. intros (e & He & Hne & _). exfalso. apply Hne. apply Hempty. exact He.
    + intros (e & He & Hne). exfalso. apply Hne. apply Hempty. exact He.
  - assert (Hne : SR <> []).
    { intros E. apply ER. pose proof (Permutation_length (sort_rows_perm R)) as L. fold SR in L. rewrite E in L.
      destruct R; [reflexivity|discriminate]. }
    assert (Hw : Forall (fun r => mem (fst r) (g_sup g) = true) SR).
    { apply Forall_forall. intros r Hr. apply Hperm, HinR in Hr. destruct Hr as (e & He & Ht & _).
      destruct (HR e He) as [Hwi _]. unfold within in Hwi. rewrite Forall_forall in Hwi. apply Hwi. exact Ht. }
    rewrite (mk_tsd_id SR (g_sup g) Hne (sort_rows_sorted R) Hc Hw).
    unfold to_tsgroup.
    set (K := uniq_sorted (map snd SR)).
    set (es := map (fun k => (k, (0, mk_ts (map fst (filter (fun r : Z * Z => snd r =? k) SR)) (g_sup g)))) K).
    destruct (uniq_sorted_spec (map snd SR)) as [[lo HK1] HK2]. fold K in HK1, HK2.
    assert (HinK : forall k, In k K <-> exists e, In e (g_entries g) /\ e_key e = k /\ m_t (e_mem e) <> []).
    { intros k. rewrite HK2, in_map_iff. split.
      - intros (r & <- & Hr). apply Hperm, HinR in Hr. destruct Hr as (e & He & Ht & Hk).
        exists e. split; [exact He|]. split; [symmetry; exact Hk|]. intros E. rewrite E in Ht. exact Ht.
      - intros (e & He & <- & Hn). destruct (m_t (e_mem e)) as [|t q] eqn:Et; [congruence|].
        exists (t, e_key e). split; [reflexivity|]. apply Hperm, HinR. exists e. rewrite Et. simpl. auto. }
    assert (Hmem : forall e, In e (g_entries g) -> m_t (e_mem e) <> [] ->
              mk_ts (map fst (filter (fun r : Z * Z => snd r =? e_key e) SR)) (g_sup g) = e_mem e).
    { intros e He Hn. unfold SR. rewrite filter_sort_rows. unfold R, group_rows.
      rewrite (filter_group_rows _ _ Hnd), (In_lookup (e_key e) _ e Hnd He eq_refl).
      destruct (HR e He) as [Hwi Hno].
      assert (Hst : sortedZ (map fst (map (fun t => (t, e_key e)) (m_t (e_mem e))))).
      { rewrite map_map. simpl. rewrite map_id. apply (Hwf e He). }
      rewrite sort_rows_id by exact Hst. rewrite map_map. simpl. rewrite map_id.
      destruct (mk_ts_normal_restricted (m_t (e_mem e)) (g_sup g) (proj1 (Hwf e He)) Hc Hwi) as [_ E]. rewrite E.
      destruct (e_mem e) as [t ms]. unfold normal, m_t, m_sup in *. cbn [fst snd] in *.
      destruct t; [congruence|]. subst ms. reflexivity. }
    assert (Hkeys : map e_key es = K).
    { unfold es. rewrite map_map. simpl. apply map_id. }
    assert (Hinc' : incr (map e_key es)) by (rewrite Hkeys; eapply inc_from_incr; exact HK1).
    assert (Hines : forall e', In e' es <-> exists e, In e (g_entries g) /\ m_t (e_mem e) <> [] /\ e' = (e_key e, (0, e_mem e))).
    { intros e'. unfold es. rewrite in_map_iff. split.
      - intros (k & <- & Hk). apply HinK in Hk. destruct Hk as (e & He & <- & Hn).
        exists e. split; [exact He|]. split; [exact Hn|]. rewrite (Hmem e He Hn). reflexivity.
      - intros (e & He & Hn & ->). exists (e_key e). split; [rewrite (Hmem e He Hn); reflexivity|].
        apply HinK. exists e. auto. }
    assert (Hs : regroup es (Some (g_sup g)) true false = Some (es, (g_sup g, false))).
    { rewrite (regroup_some es (Some (g_sup g)) true false (g_sup g) (incr_NoDup _ Hinc') eq_refl).
      rewrite sort_entries_sorted_id by exact Hinc'. reflexivity. }
    exists (es, (g_sup g, false)). split; [exact Hs|].
    assert (Hwf' : Forall (fun e => wf_member (e_mem e)) es).
    { apply Forall_forall. intros e' He'. apply Hines in He'. destruct He' as (e & He & _ & ->). apply (Hwf e He). }
    assert (HR' : Forall (fun e => within (g_sup g) (e_mem e) /\ normal (g_sup g) (e_mem e)) es).
    { apply Forall_forall. intros e' He'. apply Hines in He'. destruct He' as (e & He & _ & ->). apply (HR e He). }
    destruct (regroup_invariants _ _ _ _ _ Hs Hc Hwf' (fun _ => HR')) as (W & R' & S & T & _).
    split; [exact W|]. split; [exact R'|]. split; [reflexivity|]. split; [exact Hines|]. intros _. reflexivity.
Qed.

(* ================================================================== *)
(* 12. invariants over histories                                        *)

Lemma Forall_two {A} (P : A -> Prop) a b : P a -> P b -> Forall P [a; b].
Proof. intros; repeat constructor; assumption. Qed.

Definition op_ok (o : gop) : Prop :=
  match o with
  | ORestrict ep => canonical ep
  | OMergeWith other _ _ _ _ => WFg other /\ Rg other
  | _ => True
  end.

Theorem step_invariant g o g' : WFg g -> Rg g -> op_ok o -> step g o = Some g' -> WFg g' /\ Rg g'.
Proof.
  intros W R Hok H. destruct o as [keys|mask|thr op|c|bins j|ep|a b| |m1 m2 ri rs im|other first ri rs im]; cbn [step] in H; simpl in Hok.
  - destruct (select_keys_spec g keys g' W H) as (W' & R' & _). auto.
  - destruct (select_mask_spec g mask g' H) as [_ H']. destruct (select_keys_spec g _ g' W H') as (W' & R' & _). auto.
  - destruct (getby_threshold_spec g thr op g' W H) as (W' & R' & _). auto.
  - destruct (getby_category_spec g c g' W H) as (W' & R' & _). auto.
  - destruct (nth_error (getby_intervals g bins) j) as [[i r]|] eqn:E; [|discriminate]. subst r.
    apply nth_error_In in E. destruct (getby_intervals_spec g bins i (Some g') E) as (a & b & _ & Hs & _).
    symmetry in Hs. destruct (select_pred_spec g _ g' W Hs) as (_ & W' & R' & _). auto.
  - destruct (g_restrict_spec g ep W Hok) as (g'' & Hg & W' & R' & _). rewrite Hg in H. inversion H; subst. auto.
  - assert (Hcase : (a <= b \/ g_entries g = []) \/ (b < a /\ g_entries g <> [])).
    { destruct (Z_lt_le_dec b a) as [Hlt|Hle]; [|left; left; exact Hle].
      destruct (g_entries g) eqn:Eg; [left; right; reflexivity|right; split; [exact Hlt|discriminate]]. }
    destruct Hcase as [Hc|[Hlt Hn]]; [|rewrite (g_get_inverted g a b Hlt Hn) in H; discriminate].
    destruct (g_get_spec g a b W R Hc) as (g'' & Hg & W' & R' & _). rewrite Hg in H. inversion H; subst. auto.
  - destruct (roundtrip_spec g W R) as (g'' & Hg & W' & R' & _). rewrite Hg in H. inversion H; subst. auto.
  - destruct (select_mask g m1) as [ga|] eqn:E1; [|discriminate]. destruct (select_mask g m2) as [gb|] eqn:E2; [|discriminate].
    destruct (select_mask_spec g m1 ga E1) as [_ H1]. destruct (select_mask_spec g m2 gb E2) as [_ H2].
    destruct (select_keys_spec g _ ga W H1) as (Wa & _). destruct (select_keys_spec g _ gb W H2) as (Wb & _).
    destruct (merge_group_spec [ga; gb] ri rs im g' ltac:(simpl; lia) ltac:(apply Forall_two; assumption) H) as (W' & R' & _). auto.
  - destruct Hok as [Wo Ro]. destruct first.
    + destruct (merge_group_spec [g; other] ri rs im g' ltac:(simpl; lia) ltac:(apply Forall_two; assumption) H) as (W' & R' & _). auto.
    + destruct (merge_group_spec [other; g] ri rs im g' ltac:(simpl; lia) ltac:(apply Forall_two; assumption) H) as (W' & R' & _). auto.
Qed.

Lemma step_total_invariant g o : WFg g -> Rg g -> op_ok o -> WFg (step_total g o) /\ Rg (step_total g o).
Proof.
  intros W R Hok. unfold step_total. destruct (step g o) as [g'|] eqn:E; [|auto].
  eapply step_invariant; eassumption.
Qed.

Theorem run_invariant ops : forall g, WFg g -> Rg g -> Forall op_ok ops -> WFg (run g ops) /\ Rg (run g ops).
Proof.
  induction ops as [|o r IH]; intros g W R Hok; [simpl; auto|].
  inversion Hok; subst. unfold run. simpl. fold (run (step_total g o) r).
  destruct (step_total_invariant g o W R) as [W' R']; [assumption|]. apply IH; assumption.
Qed.

Theorem trace_invariant ops : forall g, WFg g -> Rg g -> Forall op_ok ops ->
  Forall (fun r => match r with Some g' => WFg g' /\ Rg g' | None => True end) (trace g ops).
Proof.
  induction ops as [|o r IH]; intros g W R Hok; [constructor|].
  inversion Hok; subst. simpl. constructor.
  - destruct (step g o) as [g'|] eqn:E; [|exact I]. eapply step_invariant; eassumption.
  - destruct (step_total_invariant g o W R) as [W' R']; [assumption|]. apply IH; assumption.
Qed.

(* what the invariants say of a state, in the words of the property *)
Theorem invariants_meaning g : WFg g -> Rg g ->
  incr (g_keys g) /\ canonical (g_sup g)
  /\ (forall e, In e (g_entries g) ->
        sortedZ (m_t (e_mem e)) /\ Forall (fun x => mem x (g_sup g) = true) (m_t (e_mem e))
        /\ (m_t (e_mem e) <> [] -> rate (e_mem e) = Some (length (m_t (e_mem e)), tot_length (g_sup g)) /\ 0 < tot_length (g_sup g))).
Proof.
  intros W R. destruct W as (Hinc & Hc & Hwf). split; [exact Hinc|]. split; [exact Hc|].
  intros e He. pose proof R as R0. unfold Rg in R. rewrite Forall_forall in Hwf, R.
  split; [apply (Hwf e He)|]. split; [apply (R e He)|].
  intros Hn. destruct (group_rate g e Hc R0 He Hn). auto.
Qed.

(* provenance through selections, restrict, get and the round trip: every member of the result is the
   member of the same key in the source, thinned to the samples satisfying some predicate *)
Definition derives (g g' : group) : Prop :=
  forall e', In e' (g_entries g') ->
    exists e P, In e (g_entries g) /\ e_key e' = e_key e /\ m_t (e_mem e') = filter P (m_t (e_mem e)).

Lemma derives_refl g : derives g g.
Proof. intros e He. exists e, (fun _ => true). split; [exact He|]. split; [reflexivity|].
  symmetry. apply filter_all. apply Forall_forall. reflexivity. Qed.

Lemma derives_trans g1 g2 g3 : derives g1 g2 -> derives g2 g3 -> derives g1 g3.
Proof.
  intros H12 H23 e3 H3. destruct (H23 e3 H3) as (e2 & P2 & H2 & K2 & T2).
  destruct (H12 e2 H2) as (e1 & P1 & H1 & K1 & T1).
  exists e1, (fun x => P1 x && P2 x). split; [exact H1|]. split; [congruence|].
  rewrite T2, T1. apply filter_filter.
Qed.

Definition simple_op (o : gop) : Prop :=
  match o with
  | OMergeWith _ _ _ _ _ => False
  | OMergeSplit _ _ ri _ _ => ri = false
  | ORestrict ep => canonical ep
  | _ => True
  end.

Lemma derives_restricted g g' (Q : entry -> Prop) : WFg g ->
  (forall e', In e' (g_entries g') -> exists e, In e (g_entries g) /\ e' = restrict_entry (g_sup g) e) ->
  derives g g'.
Proof.
  intros (_ & Hc & Hwf) H e' He'. destruct (H e' He') as (e & He & ->).
  rewrite Forall_forall in Hwf. exists e, (fun x => mem x (g_sup g)). split; [exact He|]. split; [reflexivity|].
  apply ts_restrict_t; [apply (Hwf e He)|exact Hc].
Qed.

Theorem step_derives g o g' : WFg g -> Rg g -> simple_op o -> step g o = Some g' -> derives g g'.
Proof.
  intros W R Hs H.
  assert (Sel : forall keys g'', select_keys g keys = Some g'' -> derives g g'').
  { intros keys g'' Hk. destruct (select_keys_spec g keys g'' W Hk) as (_ & _ & _ & _ & _ & _ & Hin).
    apply (derives_restricted g g'' (fun _ => True) W). intros e' He'. apply Hin in He'. destruct He' as (e & He & _ & E). eauto. }
  assert (Pred : forall p g'', select_pred g p = Some g'' -> derives g g'').
  { intros p g'' Hp. unfold select_pred in Hp. destruct (g_hastag g); [|discriminate]. eapply Sel; exact Hp. }
  destruct o as [keys|mask|thr op|c|bins j|ep|a b| |m1 m2 ri rs im|other first ri rs im]; cbn [step] in H; simpl in Hs.
  - eapply Sel; exact H.
  - destruct (select_mask_spec g mask g' H) as [_ H']. eapply Sel; exact H'.
  - unfold getby_threshold in H. destruct ((0 <=? op) && (op <=? 3)); [|discriminate]. eapply Pred; exact H.
  - unfold getby_category in H. destruct (existsb (fun e => e_tag e =? c) (g_entries g)); [|discriminate]. eapply Pred; exact H.
  - destruct (nth_error (getby_intervals g bins) j) as [[i r]|] eqn:E; [|discriminate]. subst r.
    apply nth_error_In in E. destruct (getby_intervals_spec g bins i (Some g') E) as (a & b & _ & Hp & _).
    symmetry in Hp. eapply Pred; exact Hp.
  - destruct (g_restrict_spec g ep W Hs) as (g'' & Hg & _ & _ & _ & _ & He & Ht). rewrite Hg in H. inversion H; subst g''.
    intros e' He'. rewrite He in He'. apply in_map_iff in He'. destruct He' as (e & <- & Hin).
    exists e, (fun x => mem x ep). split; [exact Hin|]. split; [reflexivity|].
    rewrite Forall_forall in Ht. apply Ht. exact Hin.
  - assert (Hcase : (a <= b \/ g_entries g = []) \/ (b < a /\ g_entries g <> [])).
    { destruct (Z_lt_le_dec b a) as [Hlt|Hle]; [|left; left; exact Hle].
      destruct (g_entries g) eqn:Eg; [left; right; reflexivity|right; split; [exact Hlt|discriminate]]. }
    destruct Hcase as [Hc|[Hlt Hn]]; [|rewrite (g_get_inverted g a b Hlt Hn) in H; discriminate].
    destruct (g_get_spec g a b W R Hc) as (g'' & Hg & _ & _ & _ & _ & He & Ht). rewrite Hg in H. inversion H; subst g''.
    intros e' He'. rewrite He in He'. unfold map_members in He'. apply in_map_iff in He'. destruct He' as (e & <- & Hin).
    exists e, (fun t => (a <=? t) && (t <=? b)). split; [exact Hin|]. split; [reflexivity|].
    rewrite Forall_forall in Ht. apply (Ht e Hin).
  - destruct (roundtrip_spec g W R) as (g'' & Hg & _ & _ & _ & Hin & _). rewrite Hg in H. inversion H; subst g''.
    intros e' He'. apply Hin in He'. destruct He' as (e & He & _ & ->). exists e, (fun _ => true).
    split; [exact He|]. split; [reflexivity|]. symmetry. apply filter_all. apply Forall_forall. reflexivity.
  - subst ri. destruct (select_mask g m1) as [ga|] eqn:E1; [|discriminate]. destruct (select_mask g m2) as [gb|] eqn:E2; [|discriminate].
    destruct (select_mask_spec g m1 ga E1) as [_ H1]. destruct (select_mask_spec g m2 gb E2) as [_ H2].
    destruct (select_keys_spec g _ ga W H1) as (Wa & _). destruct (select_keys_spec g _ gb W H2) as (Wb & _).
    pose proof (Sel _ _ H1) as Da. pose proof (Sel _ _ H2) as Db.
    destruct (merge_group_spec [ga; gb] false rs im g' ltac:(simpl; lia) ltac:(apply Forall_two; assumption) H) as ((_ & Hc' & _) & _ & _ & _ & Hin & _).
    intros e' He'. apply Hin in He'. destruct He' as (e & He & ->). unfold merge_items in He. simpl in He. rewrite app_nil_r in He.
    assert (Hsrc : exists e0 P, In e0 (g_entries g) /\ e_key e = e_key e0 /\ m_t (e_mem e) = filter P (m_t (e_mem e0))
                              /\ sortedZ (m_t (e_mem e))).
    { apply in_app_or in He. destruct He as [He|He].
      - destruct (Da e He) as (e0 & P & H0 & K0 & T0). exists e0, P. repeat split; try assumption.
        destruct Wa as (_ & _ & Hw). rewrite Forall_forall in Hw. apply (Hw e He).
      - destruct (Db e He) as (e0 & P & H0 & K0 & T0). exists e0, P. repeat split; try assumption.
        destruct Wb as (_ & _ & Hw). rewrite Forall_forall in Hw. apply (Hw e He). }
    destruct Hsrc as (e0 & P & H0 & K0 & T0 & S0).
    exists e0, (fun x => P x && mem x (g_sup g')). split; [exact H0|]. split; [exact K0|].
    unfold restrict_entry, e_mem at 1. cbn [snd]. rewrite ts_restrict_t by assumption. rewrite T0. apply filter_filter.
  - contradiction.
Qed.

Theorem run_derives ops : forall g, WFg g -> Rg g -> Forall simple_op ops -> derives g (run g ops).
Proof.
  induction ops as [|o r IH]; intros g W R Hs; [apply derives_refl|].
  inversion Hs as [|? ? Ho Hr]; subst. unfold run. simpl. fold (run (step_total g o) r).
  assert (Hok : op_ok o) by (destruct o; simpl in *; auto; contradiction).
  destruct (step_total_invariant g o W R Hok) as [W' R'].
  eapply derives_trans; [|apply IH; assumption].
  unfold step_total. destruct (step g o) as [g'|] eqn:E; [|apply derives_refl].
  eapply step_derives; eassumption.
Qed.

(* ================================================================== *)
(* 13. group-level count / trial_count / value_from are the members' own *)

Theorem group_count_col g ep b : WFg g -> 0 < b -> canonical ep ->
  g_count g ep b = map (fun e => (e_key e, count_spec (m_t (e_mem e)) ep b)) (g_entries g).
Proof.
  intros (_ & _ & Hwf) Hb Hc. unfold g_count. apply map_ext_in. intros e He.
  rewrite Forall_forall in Hwf. rewrite count_binned_spec; [reflexivity|exact Hb|apply (Hwf e He)|exact Hc].
Qed.

Theorem group_count_ep_col g ep : WFg g -> canonical ep ->
  g_count_ep g ep = map (fun e => (e_key e, map (fun iv => count_if (fun x => inb x iv) (m_t (e_mem e))) ep)) (g_entries g).
Proof.
  intros (_ & _ & Hwf) Hc. unfold g_count_ep. apply map_ext_in. intros e He.
  rewrite Forall_forall in Hwf. rewrite restrict_cnt_spec; [reflexivity|apply (Hwf e He)|exact Hc].
Qed.

Theorem group_trial_count_member g ep b : WFg g -> 0 < b -> canonical ep ->
  g_trial_count g ep b
  = map (fun e => (e_key e, map (fun '(s, e') => map snd (count_spec_interval (m_t (e_mem e)) s e' b)) ep)) (g_entries g).
Proof.
  intros (_ & _ & Hwf) Hb Hc. unfold g_trial_count. apply map_ext_in. intros e He.
  rewrite Forall_forall in Hwf. rewrite trial_count_rows_spec; [reflexivity|exact Hb|apply (Hwf e He)|exact Hc].
Qed.

Theorem group_value_from_member g mode src ep : WFg g -> canonical ep ->
  g_value_from g mode src ep
  = map (fun e => (e_key e, (filter (fun x => mem x ep) (m_t (e_mem e)), value_from mode (m_t (e_mem e)) src ep))) (g_entries g).
Proof.
  intros (_ & _ & Hwf) Hc. unfold g_value_from. apply map_ext_in. intros e He.
  rewrite Forall_forall in Hwf. rewrite restrict_ts_spec; [reflexivity|apply (Hwf e He)|exact Hc].
Qed.

(* ================================================================== *)
(* 14. merge_group before the first repair: with the metadata kept and the index not reset, groups whose keys
   do not already increase along the concatenation could not be merged; the repaired function merges
   any groups with pairwise distinct keys                                                          *)

Definition wit1 : group := ([(5, (0, ([0; 1000], [(0, 2000)])))], ([(0, 2000)], false)).
Definition wit2 : group := ([(0, (0, ([500], [(0, 2000)])))], ([(0, 2000)], false)).

Theorem merge_orig_total_refuted :
  exists g1 g2, WFg g1 /\ Rg g1 /\ WFg g2 /\ Rg g2 /\ g_sup g1 = g_sup g2
    /\ (forall k, In k (g_keys g1) -> ~ In k (g_keys g2))
    /\ merge_group_orig [g1; g2] false false false = None
    /\ merge_group_orig [g2; g1] false false false <> None
    /\ merge_group_orig [g1; g2] false false true <> None
    /\ merge_group [g1; g2] false false false <> None.
Proof.
  exists wit1, wit2.
  assert (W1 : WFg wit1) by (unfold WFg, wit1; simpl; repeat split; try lia; repeat constructor; simpl; lia).
  assert (W2 : WFg wit2) by (unfold WFg, wit2; simpl; repeat split; try lia; repeat constructor; simpl; lia).
  assert (R1 : Rg wit1) by (unfold Rg, wit1, within, normal; simpl; repeat constructor).
  assert (R2 : Rg wit2) by (unfold Rg, wit2, within, normal; simpl; repeat constructor).
  split; [exact W1|]. split; [exact R1|]. split; [exact W2|]. split; [exact R2|].
  split; [reflexivity|]. split; [simpl; intros k [<-|[]] [H|[]]; discriminate|].
  split; [vm_compute; reflexivity|]. repeat split; vm_compute; discriminate.
Qed.

(* merge_group before the second repair: an empty support compared equal to any one-interval support,
   so a group with an empty support, given first, was merged with a group on [0, 12 us] and its empty
   support installed on every member: the three timestamps of member 1 were lost.  The repaired
   function refuses (ValueError, as documented for groups whose supports differ). *)
Definition wit3 : group := ([(0, (0, ([], [])))], ([], false)).
Definition wit4 : group := ([(1, (0, ([1000; 2000; 3000], [(0, 12000)])))], ([(0, 12000)], false)).

Theorem merge_lax_refuted :
  exists g1 g2, WFg g1 /\ Rg g1 /\ WFg g2 /\ Rg g2 /\ g_sup g1 <> g_sup g2
    /\ (exists e, In e (g_entries g2) /\ m_t (e_mem e) <> [])
    /\ (exists g', merge_group_lax [g1; g2] false false true = Some g'
                   /\ g_keys g' = [0; 1] /\ Forall (fun e => m_t (e_mem e) = []) (g_entries g'))
    /\ merge_group [g1; g2] false false true = None.
Proof.
  exists wit3, wit4.
  assert (W1 : WFg wit3) by (unfold WFg, wit3; simpl; repeat split; try lia; repeat constructor; simpl; lia).
  assert (W2 : WFg wit4) by (unfold WFg, wit4; simpl; repeat split; try lia; repeat constructor; simpl; lia).
  assert (R1 : Rg wit3) by (unfold Rg, wit3, within, normal; simpl; repeat constructor).
  assert (R2 : Rg wit4) by (unfold Rg, wit4, within, normal; simpl; repeat constructor).
  split; [exact W1|]. split; [exact R1|]. split; [exact W2|]. split; [exact R2|].
  split; [discriminate|].
  split; [eexists; split; [left; reflexivity|discriminate]|].
  split; [|vm_compute; reflexivity].
  eexists. split; [vm_compute; reflexivity|]. split; [reflexivity|]. repeat constructor.
Qed.

(* the repaired merge of two groups is defined as soon as the keys are distinct, the support shared
   and the metadata columns equal *)
Theorem merge_two_defined g1 g2 im :
  WFg g1 -> WFg g2 -> (im = true \/ g_hastag g1 = g_hastag g2) -> g_sup g1 = g_sup g2 ->
  NoDup (g_keys g1 ++ g_keys g2) ->
  exists g', merge_group [g1; g2] false false im = Some g'.
Proof.
  intros W1 W2 Ht Hs Hnd.
  assert (E : merge_group [g1; g2] false false im =
    if (im || forallb (fun g => Bool.eqb (g_hastag g) (g_hastag g1)) [g2])
       && (false || disjoint_keys (g_keys g1) [g2])
       && (false || forallb (fun g => sup_same (g_sup g1) (g_sup g)) [g2])
    then regroup (g_entries g1 ++ g_entries g2 ++ []) (Some (g_sup g1)) false (if im then false else g_hastag g1)
    else None) by reflexivity.
  rewrite E. clear E. rewrite app_nil_r.
  assert (Hk : map e_key (g_entries g1 ++ g_entries g2) = g_keys g1 ++ g_keys g2) by (rewrite map_app; reflexivity).
  assert (E1 : im || forallb (fun g => Bool.eqb (g_hastag g) (g_hastag g1)) [g2] = true).
  { destruct Ht as [->|Ht]; [reflexivity|]. simpl. rewrite Ht, Bool.eqb_reflx. apply orb_true_r. }
  assert (E2 : disjoint_keys (g_keys g1) [g2] = true).
  { simpl. rewrite andb_true_r. apply negb_true_iff. destruct (existsb _ (g_keys g2)) eqn:Ex; [|reflexivity].
    apply existsb_exists in Ex. destruct Ex as (k & Hk2 & Hk1). apply existsb_eqb_In in Hk1.
    exfalso. clear -Hnd Hk1 Hk2. induction (g_keys g1) as [|x r IH]; [contradiction|].
    simpl in Hnd. inversion Hnd; subst. destruct Hk1 as [->|Hk1]; [apply H1; apply in_or_app; auto|auto]. }
  assert (E3 : forallb (fun g => sup_same (g_sup g1) (g_sup g)) [g2] = true).
  { simpl. rewrite andb_true_r, <- Hs. unfold sup_same.
    clear. induction (g_sup g1) as [|[s e] r IH]; simpl; [reflexivity|]. rewrite !Z.eqb_refl, IH. reflexivity. }
  rewrite E1, E2, E3. cbn [orb andb].
  eexists. apply regroup_some; [|reflexivity]. rewrite Hk. exact Hnd.
Qed.

(* ================================================================== *)
(* 15. a non-dict iterable gets the keys 0 .. n-1, members in the order given *)
Lemma conv_keys_enumerate {A} (l : list A) : forall n,
  conv_keys (combine (map (fun i => RInt (Z.of_nat i)) (seq n (length l))) l)
  = Some (combine (map Z.of_nat (seq n (length l))) l).
Proof.
  induction l as [|a r IH]; intros n; simpl; [reflexivity|]. rewrite IH. reflexivity.
Qed.

Lemma inc_from_seq m : forall k, inc_from (Z.of_nat k - 1) (map Z.of_nat (seq k m)).
Proof.
  induction m as [|m IH]; intros k; simpl; [exact I|]. split; [lia|].
  replace (Z.of_nat k) with (Z.of_nat (S k) - 1) by lia. apply IH.
Qed.

Theorem group_list_keys l sup bypass ht g :
  mk_group_list l sup bypass ht = Some g ->
  g_keys g = map Z.of_nat (seq 0 (length l))
  /\ map e_tag (g_entries g) = map fst l.
Proof.
  unfold mk_group_list. intros H. destruct (mk_group_inv _ _ _ _ _ H) as (kd & s & Hk & _ & _ & ->).
  rewrite conv_keys_enumerate in Hk. inversion Hk; subst kd. clear Hk.
  set (kd := combine (map Z.of_nat (seq 0 (length l))) l).
  assert (Hfst : map fst kd = map Z.of_nat (seq 0 (length l))).
  { unfold kd. apply map_fst_combine. rewrite map_length, seq_length. reflexivity. }
  assert (Hsnd : map snd kd = l).
  { unfold kd. apply map_snd_combine. rewrite map_length, seq_length. reflexivity. }
  assert (Hinc : incr (map e_key (map (conv_entry sup) kd))).
  { rewrite conv_entry_keys, Hfst. eapply inc_from_incr. apply (inc_from_seq (length l) 0%nat). }
  rewrite (sort_entries_sorted_id _ Hinc).
  assert (Htag : forall es, map e_tag (map (conv_entry sup) es) = map fst (map snd es)).
  { intros es. rewrite !map_map. apply map_ext. intros d. reflexivity. }
  unfold g_keys, g_entries. cbn [fst]. destruct bypass.
  - rewrite conv_entry_keys, Hfst, Htag, Hsnd. auto.
  - rewrite map_members_keys, conv_entry_keys, Hfst. split; [reflexivity|].
    transitivity (map e_tag (map (conv_entry sup) kd)); [|rewrite Htag, Hsnd; reflexivity].
    unfold map_members. rewrite !map_map. apply map_ext. intros d. reflexivity.
Qed.
