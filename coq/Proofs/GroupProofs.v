(* Proofs about the TsGroup model (Model/Group.v): keys, support, member restriction, rate,
   preservation under selection / restrict / get / merge / conversion, invariants over histories. *)
From Verif Require Import Base.Prelude Model.Restrict Model.Iset Model.Count Model.Slice Model.ValueFrom Model.Group
  Proofs.BaseLemmas Proofs.RestrictProofs Proofs.FixIsetProofs Proofs.C01Top Proofs.UnionProofs Proofs.C02Top
  Proofs.CountProofs Proofs.SliceProofs.
From Coq Require Import ZifyBool Permutation.

(* ================================================================== *)
(* 0. vocabulary of the statements                                      *)

(* strictly increasing keys *)
Fixpoint inc_from (lo : Z) (l : list Z) : Prop :=
  match l with [] => True | x :: r => lo < x /\ inc_from x r end.
Definition incr (l : list Z) : Prop := match l with [] => True | x :: r => inc_from x r end.

Definition wf_member (m : member) : Prop := sortedZ (m_t m) /\ canonical (m_sup m).
(* every sample inside s *)
Definition within (s : iset) (m : member) : Prop := Forall (fun x => mem x s = true) (m_t m).
(* the support a member carries after a restriction to s: s itself, or nothing when it has no sample *)
Definition normal (s : iset) (m : member) : Prop :=
  match m_t m with [] => m_sup m = [] | _ :: _ => m_sup m = s end.

Definition WFg (g : group) : Prop :=
  incr (g_keys g) /\ canonical (g_sup g) /\ Forall (fun e => wf_member (e_mem e)) (g_entries g).
Definition Rg (g : group) : Prop :=
  Forall (fun e => within (g_sup g) (e_mem e) /\ normal (g_sup g) (e_mem e)) (g_entries g).

Definition restrict_entry (s : iset) (e : entry) : entry := (e_key e, (e_tag e, ts_restrict (e_mem e) s)).

Lemma entry_eta (e : entry) : (e_key e, (e_tag e, e_mem e)) = e.
Proof. destruct e as [k [t m]]. reflexivity. Qed.

Lemma map_members_map f es : map_members f es = map (fun e => (e_key e, (e_tag e, f (e_mem e)))) es.
Proof. reflexivity. Qed.

Lemma map_members_keys f es : map e_key (map_members f es) = map e_key es.
Proof. unfold map_members. rewrite map_map. apply map_ext. intros e. reflexivity. Qed.

(* ================================================================== *)
(* 1. increasing lists, uniqueness, the key sort                        *)

Lemma inc_from_weaken l : forall lo lo', lo' <= lo -> inc_from lo l -> inc_from lo' l.
Proof. destruct l; simpl; intros; [auto|]. intuition lia. Qed.

Lemma inc_from_Forall l : forall lo, inc_from lo l -> Forall (fun x => lo < x) l.
Proof.
  induction l as [|x r IH]; intros lo H; [constructor|]. destruct H as [H1 H2].
  constructor; [exact H1|]. eapply Forall_impl'; [|apply IH; exact H2]. simpl; intros; lia.
Qed.

Lemma incr_inc_from l : incr l -> exists lo, inc_from lo l.
Proof. destruct l as [|x r]; simpl; intros H; [exists 0; exact I|]. exists (x - 1). split; [lia|exact H]. Qed.

Lemma inc_from_incr l lo : inc_from lo l -> incr l.
Proof. destruct l as [|x r]; simpl; [auto|]. tauto. Qed.

Lemma incr_tail x r : incr (x :: r) -> incr r.
Proof. simpl. apply inc_from_incr. Qed.

Lemma incrb_spec l : incrb l = true <-> incr l.
Proof.
  induction l as [|x r IH]; [simpl; tauto|].
  destruct r as [|y r']; [simpl; tauto|].
  change (incrb (x :: y :: r')) with ((x <? y) && incrb (y :: r')).
  change (incr (x :: y :: r')) with (x < y /\ inc_from y r').
  rewrite andb_true_iff, IH. simpl. rewrite Z.ltb_lt. tauto.
Qed.

Lemma existsb_eqb_In x l : existsb (Z.eqb x) l = true <-> In x l.
Proof.
  rewrite existsb_exists. split.
  - intros (y & Hy & E). apply Z.eqb_eq in E. subst. exact Hy.
  - intros H. exists x. split; [exact H|apply Z.eqb_refl].
Qed.

Lemma nodupb_spec l : nodupb l = true <-> NoDup l.
Proof.
  induction l as [|x r IH]; simpl.
  - split; [constructor|reflexivity].
  - rewrite andb_true_iff, negb_true_iff, IH. split.
    + intros [H1 H2]. constructor; [|exact H2]. intros Hin. apply existsb_eqb_In in Hin. congruence.
    + intros H. inversion H; subst. split; [|assumption].
      destruct (existsb (Z.eqb x) r) eqn:E; [|reflexivity]. apply existsb_eqb_In in E. contradiction.
Qed.

Lemma inc_from_NoDup l : forall lo, inc_from lo l -> NoDup l.
Proof.
  induction l as [|x r IH]; intros lo H; [constructor|]. destruct H as [H1 H2].
  constructor; [|eapply IH; exact H2].
  intros Hin. pose proof (inc_from_Forall _ _ H2) as HF. rewrite Forall_forall in HF.
  specialize (HF x Hin). lia.
Qed.

Lemma incr_NoDup l : incr l -> NoDup l.
Proof. intros H. destruct (incr_inc_from l H) as [lo Hlo]. eapply inc_from_NoDup; exact Hlo. Qed.

Lemma insert_entry_perm e l : Permutation (insert_entry e l) (e :: l).
Proof.
  induction l as [|y r IH]; simpl; [apply Permutation_refl|].
  destruct (e_key e <? e_key y); [apply Permutation_refl|].
  eapply Permutation_trans; [apply perm_skip; exact IH|apply perm_swap].
Qed.

Lemma sort_entries_perm l : Permutation (sort_entries l) l.
Proof.
  induction l as [|e r IH]; simpl; [constructor|].
  eapply Permutation_trans; [apply insert_entry_perm|apply perm_skip; exact IH].
Qed.

Lemma insert_entry_inc e l : forall lo,
  inc_from lo (map e_key l) -> lo < e_key e -> ~ In (e_key e) (map e_key l) ->
  inc_from lo (map e_key (insert_entry e l)).
Proof.
  induction l as [|y r IH]; intros lo H Hlo Hn; simpl.
  - auto.
  - simpl in H. destruct H as [H1 H2].
    destruct (e_key e <? e_key y) eqn:E; simpl.
    + repeat split; try lia. eapply inc_from_weaken; [|exact H2]. lia.
    + split; [exact H1|]. apply IH; [exact H2| |].
      * simpl in Hn. assert (e_key y <> e_key e) by tauto. lia.
      * simpl in Hn. tauto.
Qed.

Lemma sort_entries_inc l : NoDup (map e_key l) -> exists lo, inc_from lo (map e_key (sort_entries l)).
Proof.
  induction l as [|e r IH]; intros H; simpl.
  - exists 0. exact I.
  - inversion H as [|? ? Hn Hr]; subst. destruct (IH Hr) as [lo Hlo].
    exists (Z.min lo (e_key e - 1)). apply insert_entry_inc.
    + eapply inc_from_weaken; [|exact Hlo]. lia.
    + lia.
    + intros Hin. apply Hn. eapply Permutation_in; [|exact Hin].
      apply Permutation_map. apply sort_entries_perm.
Qed.

Lemma sort_entries_incr l : NoDup (map e_key l) -> incr (map e_key (sort_entries l)).
Proof. intros H. destruct (sort_entries_inc l H) as [lo Hlo]. eapply inc_from_incr; exact Hlo. Qed.

(* a list already in increasing key order is left alone *)
Lemma insert_entry_front e l : inc_from (e_key e) (map e_key l) -> insert_entry e l = e :: l.
Proof. destruct l as [|y r]; simpl; [reflexivity|]. intros [H _]. apply Z.ltb_lt in H. rewrite H. reflexivity. Qed.

Lemma sort_entries_sorted_id l : incr (map e_key l) -> sort_entries l = l.
Proof.
  induction l as [|e r IH]; intros H; simpl; [reflexivity|].
  rewrite IH by (eapply incr_tail; exact H). apply insert_entry_front. exact H.
Qed.

(* lookup in a list with distinct keys *)
Lemma lookup_In k l e : lookup k l = Some e -> In e l /\ e_key e = k.
Proof.
  unfold lookup. intros H. apply find_some in H. destruct H as [H1 H2]. apply Z.eqb_eq in H2. tauto.
Qed.

Lemma In_lookup k l e : NoDup (map e_key l) -> In e l -> e_key e = k -> lookup k l = Some e.
Proof.
  unfold lookup. induction l as [|y r IH]; intros Hn Hin Hk; [contradiction|].
  simpl. inversion Hn as [|? ? Hy Hr]; subst.
  destruct Hin as [->|Hin].
  - rewrite Z.eqb_refl. reflexivity.
  - destruct (e_key y =? e_key e) eqn:E.
    + apply Z.eqb_eq in E. exfalso. apply Hy. rewrite E. apply in_map. exact Hin.
    + apply IH; auto.
Qed.

Lemma has_key_In k l : has_key k l = true <-> In k (map e_key l).
Proof.
  unfold has_key. rewrite existsb_exists, in_map_iff. split.
  - intros (e & He & E). apply Z.eqb_eq in E. eauto.
  - intros (e & E & He). exists e. split; [exact He|]. apply Z.eqb_eq. exact E.
Qed.

Lemma lookup_None k l : lookup k l = None <-> ~ In k (map e_key l).
Proof.
  unfold lookup. split.
  - intros H Hin. apply in_map_iff in Hin. destruct Hin as (e & E & He).
    pose proof (find_none _ _ H e He) as Hf. simpl in Hf. apply Z.eqb_neq in Hf. contradiction.
  - intros H. destruct (find (fun e => e_key e =? k) l) eqn:E; [|reflexivity].
    apply find_some in E. destruct E as [E1 E2]. apply Z.eqb_eq in E2. exfalso. apply H. rewrite <- E2. apply in_map. exact E1.
Qed.

(* ================================================================== *)
(* 2. key conversion                                                    *)

Lemma conv_keys_spec {A} (data : list (rawkey * A)) kd :
  conv_keys data = Some kd ->
  map key_value (map fst data) = map Some (map fst kd) /\ map snd kd = map snd data.
Proof.
  revert kd. induction data as [|[k a] r IH]; intros kd H; simpl in H.
  - inversion H; subst. split; reflexivity.
  - destruct (key_value k) as [z|] eqn:Ek; [|discriminate].
    destruct (conv_keys r) as [r'|] eqn:Er; [|discriminate].
    inversion H; subst. destruct (IH r' eq_refl) as [I1 I2]. simpl. rewrite Ek, I1, I2. split; reflexivity.
Qed.

Lemma conv_keys_None {A} (data : list (rawkey * A)) :
  conv_keys data = None <-> exists k, In k (map fst data) /\ key_value k = None.
Proof.
  induction data as [|[k a] r IH]; simpl.
  - split; [discriminate|intros (k & [] & _)].
  - destruct (key_value k) as [z|] eqn:Ek.
    + destruct (conv_keys r) as [r'|] eqn:Er.
      * split; [discriminate|]. intros (k' & [<-|Hin] & Hk); [congruence|].
        destruct IH as [_ IH]. assert (X : Some r' = None) by (apply IH; eauto). discriminate.
      * split; [|reflexivity]. intros _. destruct IH as [IH _]. destruct (IH eq_refl) as (k' & Hin & Hk). eauto.
    + split; [|reflexivity]. intros _. exists k. auto.
Qed.

Lemma conv_keys_ints (es : list entry) :
  conv_keys (map (fun e => (RInt (e_key e), (e_tag e, RObj (e_mem e)))) es)
  = Some (map (fun e => (e_key e, (e_tag e, RObj (e_mem e)))) es).
Proof. induction es as [|e r IH]; simpl; [reflexivity|]. rewrite IH. reflexivity. Qed.

(* ================================================================== *)
(* 3. what a successful construction looks like                         *)

Lemma mk_group_inv data sup bypass ht g :
  mk_group data sup bypass ht = Some g ->
  exists kd s,
    conv_keys data = Some kd /\ NoDup (map fst kd)
    /\ chosen_support sup (sort_entries (map (conv_entry sup) kd)) = Some s
    /\ g = ((if bypass then sort_entries (map (conv_entry sup) kd)
             else map_members (fun m => ts_restrict m s) (sort_entries (map (conv_entry sup) kd))), (s, ht)).
Proof.
  unfold mk_group. intros H.
  destruct (conv_keys data) as [kd|] eqn:Ek; [|discriminate].
  destruct (nodupb (map fst kd)) eqn:En; [|discriminate]. cbn [negb] in H.
  cbv zeta in H.
  destruct (chosen_support sup (sort_entries (map (conv_entry sup) kd))) as [s|] eqn:Es; [|discriminate].
  inversion H; subst. exists kd, s.
  split; [reflexivity|]. split; [apply nodupb_spec; exact En|]. split; [exact Es|reflexivity].
Qed.

Lemma conv_entry_keys sup kd : map e_key (map (conv_entry sup) kd) = map fst kd.
Proof. rewrite map_map. apply map_ext. intros d. reflexivity. Qed.

(* --- 3a. keys --- *)
Theorem group_keys data sup bypass ht g :
  mk_group data sup bypass ht = Some g ->
  exists vals, map key_value (map fst data) = map Some vals
               /\ NoDup vals /\ Permutation (g_keys g) vals /\ incr (g_keys g).
Proof.
  intros H. destruct (mk_group_inv _ _ _ _ _ H) as (kd & s & Hk & Hn & Hs & ->).
  destruct (conv_keys_spec _ _ Hk) as [Hv _].
  exists (map fst kd). split; [exact Hv|]. split; [exact Hn|].
  assert (Hkeys : g_keys (if bypass then sort_entries (map (conv_entry sup) kd)
                          else map_members (fun m => ts_restrict m s) (sort_entries (map (conv_entry sup) kd)), (s, ht))
                  = map e_key (sort_entries (map (conv_entry sup) kd))).
  { unfold g_keys, g_entries. cbn [fst]. destruct bypass; [reflexivity|apply map_members_keys]. }
  rewrite Hkeys. split.
  - rewrite <- (conv_entry_keys sup kd). apply Permutation_map. apply sort_entries_perm.
  - apply sort_entries_incr. rewrite conv_entry_keys. exact Hn.
Qed.

(* the construction fails on a key that is not an integer, and on two keys of equal integer value *)
Theorem group_keys_rejected data sup bypass ht :
  (exists k, In k (map fst data) /\ key_value k = None) -> mk_group data sup bypass ht = None.
Proof. intros H. unfold mk_group. apply conv_keys_None in H. rewrite H. reflexivity. Qed.

Theorem group_keys_duplicate data sup bypass ht vals :
  map key_value (map fst data) = map Some vals -> ~ NoDup vals -> mk_group data sup bypass ht = None.
Proof.
  intros Hv Hn. unfold mk_group. destruct (conv_keys data) as [kd|] eqn:Ek; [|reflexivity].
  destruct (conv_keys_spec _ _ Ek) as [Hv' _]. rewrite Hv in Hv'.
  assert (E : vals = map fst kd).
  { clear -Hv'. revert Hv'. generalize (map fst kd). induction vals as [|v r IH]; intros [|w l] H; simpl in H; try discriminate; [reflexivity|].
    inversion H; subst. f_equal. apply IH. assumption. }
  subst vals. destruct (nodupb (map fst kd)) eqn:En; [|reflexivity].
  apply nodupb_spec in En. contradiction.
Qed.
