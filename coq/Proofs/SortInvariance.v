(* Sorting the start array and the end array independently and re-pairing them preserves
   the coverage (membership) function, and the re-paired intervals are still ordered. *)
From Verif Require Import Base.Prelude Model.Iset Proofs.BaseLemmas Proofs.FixIsetProofs.
From Coq Require Import ZifyBool Permutation.

(* number of starts <= x, number of ends < x *)
Definition cle (x : Z) (l : list Z) : nat := count_if (fun s => s <=? x) l.
Definition clt (x : Z) (l : list Z) : nat := count_if (fun e => e <? x) l.

Lemma cle_cons x a l : cle x (a :: l) = ((if (a <=? x)%Z then 1 else 0) + cle x l)%nat.
Proof. unfold cle; simpl. destruct (a <=? x); reflexivity. Qed.

Lemma clt_cons x a l : clt x (a :: l) = ((if (a <? x)%Z then 1 else 0) + clt x l)%nat.
Proof. unfold clt; simpl. destruct (a <? x); reflexivity. Qed.

(* ---- (B) counts are permutation invariant ---- *)
Lemma count_if_perm {A} (p : A -> bool) l l' :
  Permutation l l' -> count_if p l = count_if p l'.
Proof.
  induction 1 as [|a l l' _ IH|a b l|l l' l'' _ IH1 _ IH2]; simpl.
  - reflexivity.
  - rewrite IH. reflexivity.
  - destruct (p a), (p b); reflexivity.
  - rewrite IH1. exact IH2.
Qed.

Lemma cle_perm x l l' : Permutation l l' -> cle x l = cle x l'.
Proof. apply count_if_perm. Qed.

Lemma clt_perm x l l' : Permutation l l' -> clt x l = clt x l'.
Proof. apply count_if_perm. Qed.

(* ---- (A) membership is a comparison of counts ---- *)
Lemma mem_counts x ss : forall es,
  length ss = length es ->
  Forall (fun p => fst p <= snd p) (combine ss es) ->
  (clt x es <= cle x ss)%nat /\
  (mem x (combine ss es) = true <-> (clt x es < cle x ss)%nat).
Proof.
  induction ss as [|s ss IH]; intros [|e es] Hl HF; simpl in Hl; try (exfalso; lia).
  - simpl. unfold clt, cle; simpl. split; [lia|]. split; [discriminate|lia].
  - simpl in HF. inversion HF as [|? ? Hse HF']; subst. simpl in Hse.
    destruct (IH es ltac:(lia) HF') as [Hle Hiff].
    rewrite cle_cons, clt_cons.
    cbn [combine]. rewrite mem_cons. unfold inb; cbn [fst snd].
    destruct (mem x (combine ss es)) eqn:Em.
    + assert (Hlt : (clt x es < cle x ss)%nat) by (apply Hiff; reflexivity).
      rewrite orb_true_r.
      destruct (s <=? x) eqn:E1; destruct (e <? x) eqn:E2; split; try lia;
        (split; [intros _; lia|reflexivity]).
    + assert (Hnlt : ~ (clt x es < cle x ss)%nat) by (intros H; apply Hiff in H; discriminate).
      rewrite orb_false_r.
      destruct (s <=? x) eqn:E1; destruct (e <? x) eqn:E2; destruct (x <=? e) eqn:E3;
        cbn [andb]; split; try lia; (split; [try discriminate; intros _; lia|intros; try reflexivity; lia]).
Qed.

(* ---- (C) dominance ---- *)
Definition dom (ss es : list Z) : Prop := forall v, (cle v es <= cle v ss)%nat.

Lemma pairwise_dom ss : forall es,
  length ss = length es ->
  Forall (fun p => fst p <= snd p) (combine ss es) -> dom ss es.
Proof.
  induction ss as [|s ss IH]; intros [|e es] Hl HF v; simpl in Hl; try (exfalso; lia).
  - unfold cle; simpl; lia.
  - simpl in HF. inversion HF as [|? ? Hse HF']; subst. simpl in Hse.
    pose proof (IH es ltac:(lia) HF' v) as H.
    rewrite !cle_cons.
    destruct (s <=? v) eqn:E1; destruct (e <=? v) eqn:E2; lia.
Qed.

Lemma dom_perm ss ss' es es' :
  Permutation ss ss' -> Permutation es es' -> dom ss es -> dom ss' es'.
Proof.
  intros Hs He H v. rewrite <- (cle_perm v _ _ Hs), <- (cle_perm v _ _ He). apply H.
Qed.

Lemma cle_zero v lo l : Forall (fun y => lo <= y) l -> v < lo -> cle v l = 0%nat.
Proof.
  induction 1 as [|y l Hy _ IH]; intros Hv; [reflexivity|].
  rewrite cle_cons, (IH Hv). destruct (y <=? v) eqn:E; lia.
Qed.

Lemma sorted_dom_pairwise ss : forall es,
  length ss = length es -> sortedZ ss -> sortedZ es -> dom ss es ->
  Forall (fun p => fst p <= snd p) (combine ss es).
Proof.
  induction ss as [|s ss IH]; intros [|e es] Hl Hs He Hd; simpl in Hl; try (exfalso; lia).
  - constructor.
  - pose proof (sortedZ_cons_Forall _ _ Hs) as Fs.
    pose proof (sortedZ_cons_Forall _ _ He) as Fe.
    assert (Hse : s <= e).
    { pose proof (Hd e) as H. rewrite !cle_cons in H.
      destruct (e <=? e) eqn:E1; [|lia].
      destruct (s <=? e) eqn:E2; [lia|].
      rewrite (cle_zero e s ss Fs) in H by lia. lia. }
    cbn [combine]. constructor; [exact Hse|].
    apply IH.
    + lia.
    + eapply sortedZ_tail; exact Hs.
    + eapply sortedZ_tail; exact He.
    + intros v. pose proof (Hd v) as H. rewrite !cle_cons in H.
      destruct (s <=? v) eqn:E1; destruct (e <=? v) eqn:E2; try lia.
      rewrite (cle_zero v e es Fe) by lia. lia.
Qed.

(* ---- main theorems ---- *)
Theorem sorted_pairs_ordered : forall (ss es : list Z),
  length ss = length es ->
  Forall (fun p => fst p <= snd p) (combine ss es) ->
  Forall (fun p => fst p <= snd p) (combine (sortZ ss) (sortZ es)).
Proof.
  intros ss es Hl HF.
  apply sorted_dom_pairwise.
  - rewrite !sortZ_length. exact Hl.
  - apply sortZ_sorted.
  - apply sortZ_sorted.
  - apply (dom_perm ss _ es _ (sortZ_perm ss) (sortZ_perm es)).
    apply pairwise_dom; assumption.
Qed.

Theorem union_sort_invariant : forall (ss es : list Z) (x : Z),
  length ss = length es ->
  Forall (fun p => fst p <= snd p) (combine ss es) ->
  mem x (combine (sortZ ss) (sortZ es)) = mem x (combine ss es).
Proof.
  intros ss es x Hl HF.
  pose proof (sorted_pairs_ordered ss es Hl HF) as HF'.
  assert (Hl' : length (sortZ ss) = length (sortZ es)) by (rewrite !sortZ_length; exact Hl).
  destruct (mem_counts x ss es Hl HF) as [_ H1].
  destruct (mem_counts x (sortZ ss) (sortZ es) Hl' HF') as [_ H2].
  rewrite <- (cle_perm x _ _ (sortZ_perm ss)), <- (clt_perm x _ _ (sortZ_perm es)) in H2.
  destruct (mem x (combine (sortZ ss) (sortZ es))) eqn:E1;
    destruct (mem x (combine ss es)) eqn:E2; try reflexivity.
  - assert (false = true) by (apply H1, H2; reflexivity). discriminate.
  - assert (false = true) by (apply H2, H1; reflexivity). discriminate.
Qed.

Print Assumptions union_sort_invariant.
Print Assumptions sorted_pairs_ordered.
