(* Proofs about Model/Tuning.v: histogram rule, attribution, 1-d / continuous / 2-d tuning curves. *)
From Coq Require Import QArith Lia.
From Verif Require Import Base.Prelude Model.Restrict Model.Count Model.ValueFrom Model.Tuning
                          Proofs.BaseLemmas Proofs.RestrictProofs Proofs.ValueFromProofs.
From Coq Require Import ZifyBool.
Local Open Scope Z_scope.

(* ---------------------------------------------------------------------------------------------- *)
(* generic list facts                                                                             *)
Lemma count_if_ext {A} (p q : A -> bool) l : (forall x, In x l -> p x = q x) -> count_if p l = count_if q l.
Proof.
  induction l as [|x r IH]; intros Hx; simpl; [reflexivity|].
  rewrite (Hx x) by (left; reflexivity).
  rewrite IH by (intros; apply Hx; right; assumption). reflexivity.
Qed.

Lemma count_if_map {A B} (f : A -> B) (p : B -> bool) l : count_if p (map f l) = count_if (fun x => p (f x)) l.
Proof. induction l as [|x r IH]; simpl; [reflexivity|]. rewrite IH. reflexivity. Qed.

Lemma count_if_zero_in {A} (p : A -> bool) l v : count_if p l = 0%nat -> In v l -> p v = false.
Proof.
  induction l as [|x r IH]; intros Hc Hin; [destruct Hin|].
  simpl in Hc. destruct (p x) eqn:E; [discriminate|].
  destruct Hin as [<-|Hin]; [assumption|auto].
Qed.

Lemma count_if_all_false {A} (p : A -> bool) l : (forall v, In v l -> p v = false) -> count_if p l = 0%nat.
Proof.
  induction l as [|x r IH]; intros H; simpl; [reflexivity|].
  rewrite (H x) by (left; reflexivity). apply IH. intros; apply H; right; assumption.
Qed.

Lemma nth_map_seq {B} (f : nat -> B) d : forall n s k, (k < n)%nat -> nth k (map f (seq s n)) d = f (s + k)%nat.
Proof.
  intros n s k Hk. rewrite (nth_indep _ d (f 0%nat)) by (rewrite map_length, seq_length; exact Hk).
  rewrite map_nth, seq_nth by exact Hk. reflexivity.
Qed.

Lemma sum_nat_cons a l : sum_nat (a :: l) = (a + sum_nat l)%nat.
Proof. reflexivity. Qed.

Lemma sum_nat_map_zero {A} (l : list A) : sum_nat (map (fun _ => 0%nat) l) = 0%nat.
Proof. induction l as [|x r IH]; [reflexivity|]. cbn [map]. rewrite sum_nat_cons, IH. reflexivity. Qed.

Lemma sum_nat_map_add {A} (f g : A -> nat) l :
  sum_nat (map (fun k => (f k + g k)%nat) l) = (sum_nat (map f l) + sum_nat (map g l))%nat.
Proof.
  induction l as [|x r IH]; [reflexivity|]. cbn [map]. rewrite !sum_nat_cons, IH. lia.
Qed.

(* a family of predicates, exactly [if q x then 1 else 0] of which hold at every x, partitions the count *)
Lemma sum_count_if {A K} (p : K -> A -> bool) (q : A -> bool) ks xs :
  (forall x, sum_nat (map (fun k => if p k x then 1%nat else 0%nat) ks) = if q x then 1%nat else 0%nat) ->
  sum_nat (map (fun k => count_if (p k) xs) ks) = count_if q xs.
Proof.
  intros Hx. induction xs as [|x r IH].
  - simpl. apply sum_nat_map_zero.
  - transitivity (sum_nat (map (fun k => ((if p k x then 1 else 0) + count_if (p k) r)%nat) ks)).
    + f_equal. apply map_ext. intros k. simpl. destruct (p k x); reflexivity.
    + rewrite sum_nat_map_add, Hx, IH. simpl. destruct (q x); reflexivity.
Qed.

Lemma sum_eqb_seq j : forall n s,
  sum_nat (map (fun k => if (j =? k)%nat then 1%nat else 0%nat) (seq s n))
  = if ((s <=? j) && (j <? s + n))%nat then 1%nat else 0%nat.
Proof.
  induction n as [|n IH]; intros s.
  - simpl. destruct (Nat.leb_spec s j), (Nat.ltb_spec j (s + 0)); simpl; try reflexivity. lia.
  - cbn [seq map]. rewrite sum_nat_cons, IH.
    destruct (Nat.eqb_spec j s), (Nat.leb_spec s j), (Nat.ltb_spec j (s + S n)),
             (Nat.leb_spec (S s) j), (Nat.ltb_spec j (S s + n)); simpl; lia.
Qed.

(* ---------------------------------------------------------------------------------------------- *)
(* A1. discrete                                                                                   *)
Theorem discrete_count_spec : forall sp ep, sortedZ sp -> canonical ep ->
  discrete_count sp ep = count_if (fun t => mem t ep) sp.
Proof.
  intros sp ep Hs Hc. unfold discrete_count. rewrite restrict_idx_spec by assumption.
  apply filter_idx_length.
Qed.

Theorem discrete_tc_spec : forall sp ep, 0 < tot_length ep ->
  (discrete_tc sp ep * Qmake (tot_length ep) 1000000000 == inject_Z (Z.of_nat (discrete_count sp ep)))%Q.
Proof.
  intros sp ep Hpos. unfold discrete_tc, Qeq, Qmult, inject_Z. cbn [Qnum Qden].
  rewrite Pos2Z.inj_mul, Z2Pos.id by assumption. ring.
Qed.

Lemma tot_length_nonneg ep : canonical ep -> 0 <= tot_length ep.
Proof.
  induction ep as [|[s e] r IH]; [simpl; lia|]. intros Hc.
  assert (H3 : canonical r) by (eapply canonical_tail; exact Hc).
  specialize (IH H3). cbn [canonical] in Hc. cbn [tot_length]. lia.
Qed.

Theorem tot_length_pos : forall ep, canonical ep -> ep <> [] -> 0 < tot_length ep.
Proof.
  intros [|[s e] r] Hc Hne; [congruence|].
  assert (H3 : canonical r) by (eapply canonical_tail; exact Hc).
  pose proof (tot_length_nonneg r H3). cbn [canonical] in Hc. cbn [tot_length]. lia.
Qed.

(* ---------------------------------------------------------------------------------------------- *)
(* A2. histogram rule                                                                             *)
Lemma hbin_cons a l j x : hbin (a :: l) (S j) x = hbin l j x.
Proof. reflexivity. Qed.

Lemma incr_from_nth l : forall a j, incr_from a l -> (j < length l)%nat -> a < nth j l 0.
Proof.
  induction l as [|b r IH]; intros a j H Hj; simpl in Hj; [lia|].
  destruct H as [H1 H2]. destruct j as [|j]; cbn [nth]; [assumption|].
  specialize (IH b j H2). lia.
Qed.

Lemma increasing_nth_le a rest j : incr_from a rest -> (j <= length rest)%nat -> a <= nth j (a :: rest) 0.
Proof.
  intros H Hj. destruct j; cbn [nth]; [lia|]. pose proof (incr_from_nth rest a j H). lia.
Qed.

Lemma incr_from_increasing a l : incr_from a l -> increasing l.
Proof. destruct l; simpl; tauto. Qed.

Lemma increasing_nth_lt l : increasing l -> forall i j, (i < j < length l)%nat -> nth i l 0 < nth j l 0.
Proof.
  induction l as [|a r IH]; intros Hi i j Hij; simpl in Hij; [lia|].
  destruct j as [|j]; [lia|]. destruct i as [|i]; cbn [nth].
  - apply incr_from_nth; [exact Hi|lia].
  - apply IH; [eapply incr_from_increasing; exact Hi|lia].
Qed.

Lemma increasing_nth_mono l : increasing l -> forall i j, (i <= j < length l)%nat -> nth i l 0 <= nth j l 0.
Proof.
  intros Hi i j Hij. destruct (Nat.eq_dec i j) as [->|Hne]; [lia|].
  pose proof (increasing_nth_lt l Hi i j). lia.
Qed.

Lemma bin_go_cons k b r x :
  bin_go k (b :: r) x = if x <? b then Some k
                        else match r with [] => if x =? b then Some k else None | _ :: _ => bin_go (S k) r x end.
Proof. reflexivity. Qed.

Lemma bin_go_spec x : forall rest a k0 k, incr_from a rest -> a <= x ->
  (bin_go k0 rest x = Some k <->
   exists j, k = (k0 + j)%nat /\ (j < length rest)%nat /\ hbin (a :: rest) j x = true).
Proof.
  induction rest as [|b r IH]; intros a k0 k Hi Hx.
  - simpl. split; [discriminate|]. intros (j & _ & Hj & _). lia.
  - destruct Hi as [Hab Hr]. rewrite bin_go_cons.
    destruct (x <? b) eqn:E1.
    + split.
      * intros H. inversion H; subst. exists 0%nat. split; [lia|]. split; [simpl; lia|].
        unfold hbin. cbn [nth]. lia.
      * intros (j & -> & Hj & Hh). destruct j as [|j]; [f_equal; lia|].
        exfalso. rewrite hbin_cons in Hh. unfold hbin in Hh. cbn [length] in Hj.
        pose proof (increasing_nth_le b r j Hr). lia.
    + destruct r as [|c r'].
      * destruct (x =? b) eqn:E2.
        -- split.
           ++ intros H. inversion H; subst. exists 0%nat. split; [lia|]. split; [simpl; lia|].
              unfold hbin. cbn [nth length Nat.eqb]. lia.
           ++ intros (j & -> & Hj & _). simpl in Hj. f_equal. lia.
        -- split; [discriminate|]. intros (j & -> & Hj & Hh). simpl in Hj.
           assert (j = 0%nat) by lia. subst. unfold hbin in Hh. cbn [nth length Nat.eqb] in Hh. lia.
      * destruct (IH b (S k0) k Hr ltac:(lia)) as [IH1 IH2]. split.
        -- intros H. destruct (IH1 H) as (j & -> & Hj & Hh). exists (S j). rewrite hbin_cons.
           split; [lia|]. split; [simpl in *; lia|assumption].
        -- intros (j & -> & Hj & Hh). destruct j as [|j].
           ++ exfalso. unfold hbin in Hh. cbn [nth length Nat.eqb] in Hh. lia.
           ++ apply IH2. exists j. rewrite hbin_cons in Hh.
              split; [lia|]. split; [simpl in *; lia|assumption].
Qed.

Theorem hist_bin_of : forall edges x k, increasing edges ->
  (bin_of edges x = Some k <-> (k < nbins edges)%nat /\ hbin edges k x = true).
Proof.
  intros [|a rest] x k Hi.
  - unfold nbins. simpl. split; [discriminate|]. lia.
  - unfold bin_of, nbins. cbn [length]. rewrite Nat.sub_succ, Nat.sub_0_r.
    destruct (x <? a) eqn:E.
    + split; [discriminate|]. intros [Hk Hh]. exfalso. unfold hbin in Hh.
      pose proof (increasing_nth_le a rest k Hi). lia.
    + rewrite (bin_go_spec x rest a 0%nat k Hi) by lia. split.
      * intros (j & -> & Hj & Hh). simpl. auto.
      * intros [Hk Hh]. exists k. auto.
Qed.

Lemma hbin_is_bin edges x k : increasing edges -> (k < nbins edges)%nat ->
  hbin edges k x = is_bin (bin_of edges x) k.
Proof.
  intros Hi Hk. destruct (bin_of edges x) as [j|] eqn:E; simpl.
  - destruct (Nat.eqb_spec j k) as [->|Hne].
    + apply hist_bin_of in E; tauto.
    + destruct (hbin edges k x) eqn:Eh; [|reflexivity]. exfalso.
      assert (bin_of edges x = Some k) by (apply hist_bin_of; auto). congruence.
  - destruct (hbin edges k x) eqn:Eh; [|reflexivity]. exfalso.
    assert (bin_of edges x = Some k) by (apply hist_bin_of; auto). congruence.
Qed.

Theorem hist_count : forall edges xs, increasing edges ->
  hist edges xs = map (fun k => count_if (fun x => is_bin (bin_of edges x) k) xs) (seq 0 (nbins edges)).
Proof.
  intros edges xs Hi. unfold hist. apply map_ext_in. intros k Hk. apply in_seq in Hk.
  apply count_if_ext. intros x _. apply hbin_is_bin; [assumption|lia].
Qed.

Theorem hist_length : forall edges xs, length (hist edges xs) = nbins edges.
Proof. intros. unfold hist. rewrite map_length, seq_length. reflexivity. Qed.

Theorem hist_nth : forall edges xs k, (k < nbins edges)%nat ->
  nth k (hist edges xs) 0%nat = count_if (hbin edges k) xs.
Proof. intros edges xs k Hk. unfold hist. rewrite nth_map_seq by exact Hk. reflexivity. Qed.

Definition inr (edges : list Z) (x : Z) : bool := (hd 0 edges <=? x) && (x <=? last edges 0).

Lemma last_cons2 {A} (a b : A) l d : last (a :: b :: l) d = last (b :: l) d.
Proof. reflexivity. Qed.

Lemma incr_from_last : forall rest a, incr_from a rest -> rest <> [] -> a < last rest 0.
Proof.
  induction rest as [|b r IH]; intros a H Hne; [congruence|].
  destruct H as [H1 H2]. destruct r as [|c r']; [simpl; assumption|].
  rewrite last_cons2. specialize (IH b H2 ltac:(discriminate)). lia.
Qed.

Lemma bin_go_some x : forall rest k0, rest <> [] -> x <= last rest 0 -> exists k, bin_go k0 rest x = Some k.
Proof.
  induction rest as [|b r IH]; intros k0 Hne Hx; [congruence|].
  rewrite bin_go_cons. destruct (x <? b) eqn:E; [eauto|].
  destruct r as [|c r'].
  - simpl in Hx. assert (E2 : x =? b = true) by lia. rewrite E2. eauto.
  - rewrite last_cons2 in Hx. apply IH; [discriminate|assumption].
Qed.

Lemma bin_go_le_last x : forall rest a k0 k, incr_from a rest -> bin_go k0 rest x = Some k -> x <= last rest 0.
Proof.
  induction rest as [|b r IH]; intros a k0 k Hi H; [discriminate|].
  destruct Hi as [Hab Hr]. rewrite bin_go_cons in H.
  destruct (x <? b) eqn:E.
  - destruct r as [|c r']; [simpl; lia|].
    pose proof (incr_from_last (c :: r') b Hr ltac:(discriminate)). rewrite last_cons2. lia.
  - destruct r as [|c r'].
    + destruct (x =? b) eqn:E2; [simpl; lia|discriminate].
    + rewrite last_cons2. eapply IH; eassumption.
Qed.

Lemma bin_of_range edges x : increasing edges -> (2 <= length edges)%nat ->
  ((exists k, bin_of edges x = Some k) <-> inr edges x = true).
Proof.
  intros Hi Hl. destruct edges as [|a rest]; [simpl in Hl; lia|].
  destruct rest as [|b r]; [simpl in Hl; lia|].
  unfold inr, bin_of. cbn [hd]. rewrite last_cons2.
  destruct (x <? a) eqn:E.
  - split; [intros [k Hk]; discriminate|]. intros H. lia.
  - split.
    + intros [k Hk]. apply (bin_go_le_last x (b :: r) a 0%nat k Hi) in Hk. lia.
    + intros H. apply bin_go_some; [discriminate|lia].
Qed.

Lemma hbin_indicator edges x : increasing edges -> (2 <= length edges)%nat ->
  sum_nat (map (fun k => if hbin edges k x then 1%nat else 0%nat) (seq 0 (nbins edges)))
  = if inr edges x then 1%nat else 0%nat.
Proof.
  intros Hi Hl.
  transitivity (sum_nat (map (fun k => if is_bin (bin_of edges x) k then 1%nat else 0%nat) (seq 0 (nbins edges)))).
  { f_equal. apply map_ext_in. intros k Hk. apply in_seq in Hk.
    rewrite (hbin_is_bin edges x k) by (auto; lia). reflexivity. }
  destruct (bin_of edges x) as [j|] eqn:E.
  - cbn [is_bin]. rewrite sum_eqb_seq.
    assert (Hr : inr edges x = true) by (apply bin_of_range; eauto).
    apply hist_bin_of in E; [|assumption]. destruct E as [Hj _]. rewrite Hr.
    destruct (Nat.leb_spec 0 j), (Nat.ltb_spec j (0 + nbins edges)); simpl; try reflexivity; lia.
  - cbn [is_bin]. rewrite sum_nat_map_zero.
    destruct (inr edges x) eqn:Er; [|reflexivity].
    apply bin_of_range in Er; auto. destruct Er as [k Hk]. congruence.
Qed.

Theorem hist_conservation : forall edges xs, increasing edges -> (2 <= length edges)%nat ->
  sum_nat (hist edges xs) = count_if (fun x => (hd 0 edges <=? x) && (x <=? last edges 0)) xs.
Proof.
  intros edges xs Hi Hl. unfold hist.
  apply (sum_count_if (hbin edges) (inr edges)). intros x. apply hbin_indicator; assumption.
Qed.

Lemma nth_scale c l : forall k, nth k (scale c l) 0 = c * nth k l 0.
Proof. induction l as [|a r IH]; intros [|k]; simpl; try lia. apply IH. Qed.

Lemma scale_leb c a b : 0 < c -> (c * a <=? c * b) = (a <=? b).
Proof. intros Hc. destruct (Z.leb_spec a b); [apply Z.leb_le|apply Z.leb_gt]; nia. Qed.
Lemma scale_ltb c a b : 0 < c -> (c * a <? c * b) = (a <? b).
Proof. intros Hc. destruct (Z.ltb_spec a b); [apply Z.ltb_lt|apply Z.ltb_ge]; nia. Qed.
Lemma scale_eqb c a b : 0 < c -> (c * a =? c * b) = (a =? b).
Proof. intros Hc. destruct (Z.eqb_spec a b); [apply Z.eqb_eq|apply Z.eqb_neq]; nia. Qed.

Theorem hist_scale : forall c edges xs, 0 < c -> hist (scale c edges) (scale c xs) = hist edges xs.
Proof.
  intros c edges xs Hc. unfold hist.
  assert (Hn : nbins (scale c edges) = nbins edges) by (unfold nbins, scale; rewrite map_length; reflexivity).
  rewrite Hn. apply map_ext. intros k. unfold scale at 2. rewrite count_if_map.
  apply count_if_ext. intros x _. unfold hbin. rewrite !nth_scale.
  unfold scale. rewrite map_length, scale_leb, scale_ltb, scale_eqb by assumption. reflexivity.
Qed.

Lemma incr_from_map_seq (f : nat -> Z) : (forall k, f k < f (S k)) ->
  forall n s, incr_from (f s) (map f (seq (S s) n)).
Proof.
  intros Hf. induction n as [|n IH]; intros s; simpl; [exact I|]. split; [apply Hf|apply IH].
Qed.

Lemma last_map_seq {B} (f : nat -> B) d n s : last (map f (seq s (S n))) d = f (s + n)%nat.
Proof. rewrite seq_S, map_app. simpl. apply last_last. Qed.

Theorem lin_edges_spec : forall lo hi nb, lo < hi -> (0 < nb)%nat ->
  increasing (lin_edges lo hi nb) /\ length (lin_edges lo hi nb) = S nb /\
  hd 0 (lin_edges lo hi nb) = lo * Z.of_nat nb /\ last (lin_edges lo hi nb) 0 = hi * Z.of_nat nb /\
  (forall k, (k <= nb)%nat -> nth k (lin_edges lo hi nb) 0 = lo * Z.of_nat nb + Z.of_nat k * (hi - lo)).
Proof.
  intros lo hi nb Hlh Hnb. unfold lin_edges.
  set (f := fun k : nat => lo * Z.of_nat nb + Z.of_nat k * (hi - lo)).
  split; [|split; [|split; [|split]]].
  - cbn [seq map increasing]. apply incr_from_map_seq. intros k. unfold f. nia.
  - rewrite map_length, seq_length. reflexivity.
  - cbn [seq map hd]. unfold f. simpl. lia.
  - rewrite last_map_seq. unfold f. simpl. ring.
  - intros k Hk. rewrite nth_map_seq by lia. reflexivity.
Qed.

(* ---------------------------------------------------------------------------------------------- *)
(* A3. attribution                                                                                *)
Lemma nth_map_fst (rows : list (Z * Z)) j : nth j (map fst rows) 0 = fst (nth j rows (0, 0)).
Proof. exact (map_nth fst rows (0, 0) j). Qed.
Lemma nth_map_snd (rows : list (Z * Z)) j : nth j (map snd rows) 0 = snd (nth j rows (0, 0)).
Proof. exact (map_nth snd rows (0, 0) j). Qed.

Lemma map_fst_filter_combine (p : Z -> bool) ft : forall fv : list Z, length fv = length ft ->
  map fst (filter (fun r => p (fst r)) (combine ft fv)) = filter p ft.
Proof.
  induction ft as [|t r IH]; intros fv Hl; destruct fv as [|v fv]; simpl in Hl; try lia; [reflexivity|].
  simpl. destruct (p t); simpl; rewrite IH by lia; reflexivity.
Qed.

Lemma rvals_structure ft fv ep : sortedZ ft -> canonical ep -> length fv = length ft ->
  rvals ft fv ep = concat (map (fun iv => map snd (filter (fun r => inb (fst r) iv) (combine ft fv))) ep).
Proof.
  intros Hs Hc Hl. unfold rvals, restrict_idx, select. rewrite concat_map.
  destruct (canonical_canon _ Hc) as [lo Hlo].
  destruct (scan_spec ep lo 0%nat ft Hlo Hs) as [H _].
  { apply Forall_forall; intros; right; exact I. }
  rewrite H, map_map. f_equal. apply map_ext. intros iv.
  exact (select_filter_idx 0 (fun x => inb x iv) ft [] fv Hl).
Qed.

(* the block structure, for any per-epoch (queries, rows) pairs *)
Lemma attr_blocks (l : list (list Z * list (Z * Z))) : forall pre : list Z,
  map (option_map (fun j => nth j (pre ++ concat (map (fun qr => map snd (snd qr)) l)) 0))
      (vf_all 1 (map fst l) (map (fun qr => map fst (snd qr)) l) (length pre))
  = concat (map (fun qr => attr_block (fst qr) (snd qr)) l).
Proof.
  induction l as [|[qs rows] l IH]; intros pre; [reflexivity|].
  cbn [map fst snd concat]. rewrite vf_all_cons, map_app. f_equal.
  - unfold vf_block, attr_block. destruct rows as [|r0 rs].
    + cbn [map]. rewrite map_map. reflexivity.
    + cbv iota. set (rows := r0 :: rs).
      change (map fst (r0 :: rs)) with (map fst rows).
      assert (Hne : match map fst rows with [] => False | _ :: _ => True end) by exact I.
      destruct (map fst rows) as [|s0 ss] eqn:Esrc; [destruct Hne|]. rewrite <- Esrc. clear Hne.
      clearbody rows. rewrite map_map.
      assert (F : Forall (in_range 0 (length (map fst rows))) (vf_interval 1 qs (map fst rows) 0%nat)).
      { apply vf_interval_in_range. rewrite Esrc. simpl. lia. }
      apply map_ext_in. intros o Ho. rewrite Forall_forall in F. specialize (F o Ho).
      destruct o as [j|]; [|reflexivity]. unfold in_range in F. rewrite map_length in F.
      cbn [option_map]. f_equal.
      rewrite app_nth2_plus, app_nth1 by (rewrite map_length; lia).
      apply nth_map_snd.
  - specialize (IH (pre ++ map snd rows)). rewrite app_length, !map_length in IH.
    rewrite map_length. rewrite <- app_assoc in IH. exact IH.
Qed.

Theorem attributed_structure : forall sp ft fv ep,
  sortedZ sp -> sortedZ ft -> canonical ep -> length fv = length ft ->
  attributed sp ft fv ep =
  concat (map (fun iv => attr_block (filter (fun x => inb x iv) sp)
                                    (filter (fun r => inb (fst r) iv) (combine ft fv))) ep).
Proof.
  intros sp ft fv ep Hsp Hft Hc Hl. unfold attributed.
  rewrite value_from_structure, rvals_structure by assumption.
  pose proof (attr_blocks (map (fun iv => (filter (fun x => inb x iv) sp,
                                           filter (fun r : Z * Z => inb (fst r) iv) (combine ft fv))) ep) []) as H.
  rewrite !map_map in H. cbn [fst snd app length] in H.
  rewrite <- H. f_equal. f_equal. apply map_ext. intros iv. symmetry.
  apply (map_fst_filter_combine (fun x => inb x iv)). exact Hl.
Qed.

Lemma Forall2_map_r {A B C} (P : A -> B -> Prop) (Q : A -> C -> Prop) (f : B -> C) l l' :
  (forall x y, P x y -> Q x (f y)) -> Forall2 P l l' -> Forall2 Q l (map f l').
Proof. intros H F. induction F; simpl; constructor; auto. Qed.

Theorem attr_block_nearest : forall qs rows, rows <> [] -> sortedZ (map fst rows) -> sortedZ qs ->
  Forall2 (fun x o => nearest x rows o) qs (attr_block qs rows).
Proof.
  intros qs rows Hne Hs Hq. unfold attr_block. destruct rows as [|r0 rs]; [congruence|].
  set (rows := r0 :: rs) in *.
  assert (Hsrc : map fst rows <> []) by (unfold rows; simpl; discriminate).
  pose proof (vf_interval_spec 1 qs (map fst rows) (or_intror (or_introl eq_refl)) Hsrc Hs Hq) as F.
  eapply Forall2_map_r; [|exact F]. intros x o Ho. unfold vf_spec in Ho.
  change (1 =? 0) with false in Ho. change (1 =? 1) with true in Ho. cbv iota in Ho.
  destruct o as [j|]; [|destruct Ho]. destruct Ho as [Hj HF]. rewrite map_length in Hj.
  exists j. split; [exact Hj|]. split; [reflexivity|].
  rewrite Forall_map in HF. rewrite nth_map_fst in HF. exact HF.
Qed.

Theorem attr_block_empty : forall qs, attr_block qs [] = map (fun _ => None) qs.
Proof. reflexivity. Qed.

Theorem attributed_length : forall sp ft fv ep,
  length (attributed sp ft fv ep) = length (restrict_idx sp ep).
Proof. intros. unfold attributed. rewrite map_length. apply value_from_length_gen. Qed.

Lemma rvals_length ft fv ep : length (rvals ft fv ep) = length (restrict_idx ft ep).
Proof. unfold rvals, select. apply map_length. Qed.

Lemma value_from_lt_rvals sp ft fv ep :
  Forall (fun o => match o with Some j => (j < length (rvals ft fv ep))%nat | None => True end)
         (value_from 1 sp ft ep).
Proof.
  eapply Forall_impl'; [|apply (value_from_in_range 1 sp ft ep)].
  intros [j|] H; [|exact I]. simpl in H. unfold restrict_ts, select in H.
  rewrite map_length in H. rewrite rvals_length. lia.
Qed.

Theorem attributed_in_rvals : forall sp ft fv ep,
  Forall (fun o => match o with Some v => In v (rvals ft fv ep) | None => True end) (attributed sp ft fv ep).
Proof.
  intros sp ft fv ep. unfold attributed. rewrite Forall_map.
  eapply Forall_impl'; [|apply (value_from_lt_rvals sp ft fv ep)].
  intros [j|] H; simpl; [|exact I]. apply nth_In. exact H.
Qed.

(* ---------------------------------------------------------------------------------------------- *)
(* somes, combine                                                                                 *)
Lemma count_if_somes {A} (p : A -> bool) (l : list (option A)) :
  count_if p (somes l) = count_if (fun o => match o with Some v => p v | None => false end) l.
Proof.
  induction l as [|[v|] r IH]; [reflexivity| |exact IH].
  unfold somes in *. cbn [flat_map app count_if]. rewrite IH. reflexivity.
Qed.

Lemma in_somes {A} (v : A) l : In v (somes l) -> In (Some v) l.
Proof.
  unfold somes. rewrite in_flat_map. intros (o & Ho & Hv).
  destruct o as [w|]; [|destruct Hv]. destruct Hv as [<-|[]]. exact Ho.
Qed.

Lemma in_combine_nth {A B} (d1 : A) (d2 : B) l1 l2 a b : length l1 = length l2 -> In (a, b) (combine l1 l2) ->
  exists k, (k < length l1)%nat /\ a = nth k l1 d1 /\ b = nth k l2 d2.
Proof.
  intros Hl Hin. destruct (In_nth _ _ (d1, d2) Hin) as (k & Hk & E).
  rewrite combine_length, <- Hl, Nat.min_id in Hk. rewrite combine_nth in E by exact Hl.
  inversion E. exists k. auto.
Qed.

Lemma nth_map_combine {A B C} (f : A * B -> C) d (d1 : A) (d2 : B) l1 l2 k :
  length l1 = length l2 -> (k < length l1)%nat ->
  nth k (map f (combine l1 l2)) d = f (nth k l1 d1, nth k l2 d2).
Proof.
  intros Hl Hk. rewrite (nth_indep _ d (f (d1, d2))).
  - rewrite map_nth, combine_nth by exact Hl. reflexivity.
  - rewrite map_length, combine_length, <- Hl, Nat.min_id. exact Hk.
Qed.

Lemma ratio_not_inf rate c o : (o = 0%nat -> c = 0%nat) -> ratio rate c o <> TInf.
Proof.
  intros H. unfold ratio. destruct (Nat.eqb_spec o 0) as [Ho|Ho]; [|discriminate].
  rewrite (H Ho). simpl. discriminate.
Qed.

(* ---------------------------------------------------------------------------------------------- *)
(* A4. 1-d tuning curve                                                                           *)
Section NumPy1.
Variable H : list Z -> list Z -> list nat.
Hypothesis H_law : forall edges xs, H edges xs = hist edges xs.

Theorem tc1d_count_spec : forall edges sp ft fv ep,
  tc1d_count H edges sp ft fv ep =
  map (fun k => count_if (in_hbin edges k) (attributed sp ft fv ep)) (seq 0 (nbins edges)).
Proof.
  intros. unfold tc1d_count. rewrite H_law. unfold hist. apply map_ext. intros k.
  rewrite count_if_somes. reflexivity.
Qed.

Theorem tc1d_conservation : forall edges sp ft fv ep, increasing edges -> (2 <= length edges)%nat ->
  sum_nat (tc1d_count H edges sp ft fv ep) = count_if (in_range_o edges) (attributed sp ft fv ep).
Proof.
  intros edges sp ft fv ep Hi Hl. unfold tc1d_count. rewrite H_law, hist_conservation by assumption.
  rewrite count_if_somes. reflexivity.
Qed.

Lemma tc1d_count_length edges sp ft fv ep : length (tc1d_count H edges sp ft fv ep) = nbins edges.
Proof. unfold tc1d_count. rewrite H_law. apply hist_length. Qed.
Lemma tc1d_occ_length edges ft fv ep : length (tc1d_occ H edges ft fv ep) = nbins edges.
Proof. unfold tc1d_occ. rewrite H_law. apply hist_length. Qed.

Theorem tc1d_visited : forall edges sp ft fv ep k,
  nth k (tc1d_occ H edges ft fv ep) 0%nat = 0%nat -> nth k (tc1d_count H edges sp ft fv ep) 0%nat = 0%nat.
Proof.
  intros edges sp ft fv ep k. unfold tc1d_occ, tc1d_count. rewrite !H_law.
  destruct (Nat.lt_ge_cases k (nbins edges)) as [Hk|Hk].
  - rewrite !hist_nth by exact Hk. intros Hz. apply count_if_all_false. intros v Hv.
    apply (count_if_zero_in _ _ _ Hz). apply in_somes in Hv.
    pose proof (attributed_in_rvals sp ft fv ep) as F. rewrite Forall_forall in F.
    exact (F _ Hv).
  - intros _. apply nth_overflow. rewrite hist_length. exact Hk.
Qed.

Theorem tc1d_never_inf : forall rate edges sp ft fv ep,
  Forall (fun v => v <> TInf) (tc1d H rate edges sp ft fv ep).
Proof.
  intros rate edges sp ft fv ep. unfold tc1d. rewrite Forall_map. apply Forall_forall.
  intros [c o] Hin. cbn [fst snd].
  apply (in_combine_nth 0%nat 0%nat) in Hin; [|rewrite tc1d_count_length, tc1d_occ_length; reflexivity].
  destruct Hin as (k & _ & -> & ->). apply ratio_not_inf. apply tc1d_visited.
Qed.

Theorem tc1d_length : forall rate edges sp ft fv ep, length (tc1d H rate edges sp ft fv ep) = nbins edges.
Proof.
  intros. unfold tc1d. rewrite map_length, combine_length, tc1d_count_length, tc1d_occ_length.
  apply Nat.min_id.
Qed.

Theorem tc1d_value : forall rate edges sp ft fv ep k, (k < nbins edges)%nat ->
  let c := nth k (tc1d_count H edges sp ft fv ep) 0%nat in
  let o := nth k (tc1d_occ H edges ft fv ep) 0%nat in
  (o = 0%nat -> nth k (tc1d H rate edges sp ft fv ep) TInf = TNaN) /\
  (o <> 0%nat -> exists q, nth k (tc1d H rate edges sp ft fv ep) TInf = TVal q /\
                 (q * inject_Z (Z.of_nat o) == inject_Z (Z.of_nat c) * rate)%Q).
Proof.
  intros rate edges sp ft fv ep k Hk c o.
  assert (E : nth k (tc1d H rate edges sp ft fv ep) TInf = ratio rate c o).
  { unfold tc1d. rewrite (nth_map_combine _ TInf 0%nat 0%nat).
    - reflexivity.
    - rewrite tc1d_count_length, tc1d_occ_length. reflexivity.
    - rewrite tc1d_count_length. exact Hk. }
  rewrite E. unfold ratio. split.
  - intros Ho. assert (Hc : c = 0%nat) by (apply tc1d_visited; exact Ho). rewrite Ho, Hc. reflexivity.
  - intros Ho. destruct (Nat.eqb_spec o 0) as [Ho'|_]; [contradiction|].
    eexists. split; [reflexivity|]. field.
    unfold Qeq. simpl. lia.
Qed.

(* ---- A5. continuous 1-d ---- *)
Variable D : list Z -> Z -> option nat.
Hypothesis D_law : forall edges x, D edges x = dig edges x.

Lemma dig_go_bin_go x : forall rest k, (rest = [] \/ x <> last rest 0) -> dig_go k rest x = bin_go k rest x.
Proof.
  induction rest as [|b r IH]; intros k Hx; [reflexivity|].
  rewrite bin_go_cons. cbn [dig_go]. destruct (x <? b) eqn:E; [reflexivity|].
  destruct Hx as [Hx|Hx]; [discriminate|].
  destruct r as [|c r'].
  - simpl in Hx. simpl. destruct (Z.eqb_spec x b); [contradiction|reflexivity].
  - apply IH. right. rewrite last_cons2 in Hx. exact Hx.
Qed.

Theorem dig_bin_of : forall edges x, increasing edges -> x <> last edges 0 -> dig edges x = bin_of edges x.
Proof.
  intros [|a rest] x _ Hx; [reflexivity|]. unfold dig, bin_of.
  destruct (x <? a); [reflexivity|]. apply dig_go_bin_go.
  destruct rest as [|b r]; [left; reflexivity|right]. rewrite last_cons2 in Hx. exact Hx.
Qed.

Lemma last_nth_len {A} (d : A) : forall l, last l d = nth (length l - 1) l d.
Proof.
  induction l as [|a r IH]; [reflexivity|]. destruct r as [|b r']; [reflexivity|].
  rewrite last_cons2, IH. cbn [length]. rewrite !Nat.sub_succ, !Nat.sub_0_r. reflexivity.
Qed.

Lemma dig_go_none x : forall rest k, Forall (fun b => b <= x) rest -> dig_go k rest x = None.
Proof.
  induction rest as [|b r IH]; intros k F; [reflexivity|].
  inversion F as [|? ? Hb Hr]; subst. cbn [dig_go].
  destruct (Z.ltb_spec x b); [lia|]. apply IH. exact Hr.
Qed.

Theorem dig_last : forall edges, increasing edges -> (2 <= length edges)%nat ->
  dig edges (last edges 0) = None /\ bin_of edges (last edges 0) = Some (nbins edges - 1)%nat.
Proof.
  intros edges Hi Hl. rewrite last_nth_len.
  assert (Hall : Forall (fun b => b <= nth (length edges - 1) edges 0) edges).
  { apply Forall_forall. intros b Hb. destruct (In_nth _ _ 0 Hb) as (i & Hi' & <-).
    apply increasing_nth_mono; [exact Hi|lia]. }
  split.
  - destruct edges as [|a rest]; [reflexivity|]. unfold dig.
    inversion Hall as [|? ? Ha Hr]; subst.
    destruct (Z.ltb_spec (nth (length (a :: rest) - 1) (a :: rest) 0) a); [lia|].
    apply dig_go_none. exact Hr.
  - apply hist_bin_of; [exact Hi|]. unfold nbins. split; [lia|].
    unfold hbin. replace (S (length edges - 1 - 1)) with (length edges - 1)%nat by lia.
    replace (S (length edges - 1)) with (length edges) by lia. rewrite Nat.eqb_refl, Z.eqb_refl.
    pose proof (increasing_nth_mono edges Hi (length edges - 1 - 1) (length edges - 1)).
    destruct (Z.leb_spec (nth (length edges - 1 - 1) edges 0) (nth (length edges - 1) edges 0)); [|lia].
    simpl. apply orb_true_r.
Qed.

Lemma dig_hbin edges x k : increasing edges -> (k < nbins edges)%nat ->
  is_bin (dig edges x) k = hbin edges k x && negb (x =? last edges 0).
Proof.
  intros Hi Hk. destruct (Z.eqb_spec x (last edges 0)) as [->|Hne].
  - assert (Hl : (2 <= length edges)%nat) by (unfold nbins in Hk; lia).
    rewrite (proj1 (dig_last edges Hi Hl)). simpl. rewrite andb_false_r. reflexivity.
  - rewrite dig_bin_of by assumption. rewrite <- hbin_is_bin by assumption.
    simpl. rewrite andb_true_r. reflexivity.
Qed.

Theorem cont_spec : forall edges st sv ft fv ep, increasing edges ->
  cont_tc D H edges st sv ft fv ep =
  map (fun ko =>
         if (snd ko =? 0)%nat then None
         else let vals := map snd (filter (fun r => match fst r with
                                                    | Some x => hbin edges (fst ko) x && negb (x =? last edges 0)
                                                    | None => false end)
                                          (cont_rows st sv ft fv ep)) in
              Some (length vals, sumZ vals))
      (combine (seq 0 (nbins edges)) (tc1d_occ H edges ft fv ep)).
Proof.
  intros edges st sv ft fv ep Hi. unfold cont_tc. apply map_ext_in. intros [k o] Hin.
  apply in_combine_l in Hin. apply in_seq in Hin. cbn [fst snd]. cbv zeta.
  assert (E : cont_bin D edges (cont_rows st sv ft fv ep) k =
              map snd (filter (fun r => match fst r with
                                        | Some x => hbin edges k x && negb (x =? last edges 0)
                                        | None => false end) (cont_rows st sv ft fv ep))).
  { unfold cont_bin. f_equal. apply filter_ext. intros [[x|] v]; cbn [fst]; [|reflexivity].
    rewrite D_law. apply dig_hbin; [exact Hi|lia]. }
  rewrite E. reflexivity.
Qed.

Theorem cont_unvisited_nan : forall edges st sv ft fv ep k, (k < nbins edges)%nat ->
  nth k (tc1d_occ H edges ft fv ep) 0%nat = 0%nat -> nth k (cont_tc D H edges st sv ft fv ep) (Some (0%nat, 0)) = None.
Proof.
  intros edges st sv ft fv ep k Hk Ho. unfold cont_tc.
  rewrite (nth_map_combine _ _ 0%nat 0%nat).
  - cbn [snd]. rewrite Ho. reflexivity.
  - rewrite seq_length, tc1d_occ_length. reflexivity.
  - rewrite seq_length. exact Hk.
Qed.

Theorem cont_length : forall edges st sv ft fv ep, length (cont_tc D H edges st sv ft fv ep) = nbins edges.
Proof.
  intros. unfold cont_tc. rewrite map_length, combine_length, seq_length, tc1d_occ_length.
  apply Nat.min_id.
Qed.
End NumPy1.

Theorem cont_last_edge_refuted :
  let edges := lin_edges 0 3 2 in
  let ts := [0; 1000; 2000; 3000] in
  let rows := cont_rows ts [10; 20; 30; 40] ts (scale 2 [0; 1; 2; 3]) [(0, 3000)] in
  nth 1 (cont_tc dig hist edges ts [10; 20; 30; 40] ts (scale 2 [0; 1; 2; 3]) [(0, 3000)]) None = Some (1%nat, 30) /\
  map snd (filter (fun r => in_hbin edges 1 (fst r)) rows) = [30; 40].
Proof. cbv zeta. split; vm_compute; reflexivity. Qed.

(* ---------------------------------------------------------------------------------------------- *)
(* A6. 2-d                                                                                        *)
Definition cell2 (ex ey : list Z) (i j : nat) (p : Z * Z) : bool := hbin ex i (fst p) && hbin ey j (snd p).

Lemma hist2d_nth ex ey pts i j :
  nth j (nth i (hist2d ex ey pts) []) 0%nat =
  if ((i <? nbins ex) && (j <? nbins ey))%nat then count_if (cell2 ex ey i j) pts else 0%nat.
Proof.
  unfold hist2d. destruct (Nat.ltb_spec i (nbins ex)) as [Hi|Hi].
  - rewrite nth_map_seq by exact Hi. destruct (Nat.ltb_spec j (nbins ey)) as [Hj|Hj]; cbn [andb].
    + rewrite nth_map_seq by exact Hj. reflexivity.
    + apply nth_overflow. rewrite map_length, seq_length. exact Hj.
  - cbn [andb]. rewrite (nth_overflow _ []) by (rewrite map_length, seq_length; exact Hi).
    destruct j; reflexivity.
Qed.

Lemma hist2d_length ex ey pts : length (hist2d ex ey pts) = nbins ex.
Proof. unfold hist2d. rewrite map_length, seq_length. reflexivity. Qed.

Lemma hist2d_row_length ex ey pts i : (i < nbins ex)%nat -> length (nth i (hist2d ex ey pts) []) = nbins ey.
Proof.
  intros Hi. unfold hist2d. rewrite nth_map_seq by exact Hi. rewrite map_length, seq_length. reflexivity.
Qed.

Section NumPy2.
Variable H2 : list Z -> list Z -> list (Z * Z) -> list (list nat).
Hypothesis H2_law : forall ex ey pts, H2 ex ey pts = hist2d ex ey pts.

Theorem attributed2_fst : forall sp ft fx fy ep,
  map (option_map fst) (attributed2 sp ft fx fy ep) = attributed sp ft fx ep.
Proof.
  intros. unfold attributed2, attributed. rewrite map_map. apply map_ext. intros [j|]; reflexivity.
Qed.

Theorem attributed2_snd : forall sp ft fx fy ep,
  map (option_map snd) (attributed2 sp ft fx fy ep) = attributed sp ft fy ep.
Proof.
  intros. unfold attributed2, attributed. rewrite map_map. apply map_ext. intros [j|]; reflexivity.
Qed.

Theorem tc2d_count_spec : forall ex ey sp ft fx fy ep,
  tc2d_count H2 ex ey sp ft fx fy ep =
  map (fun i => map (fun j => count_if (in_hbin2 ex ey i j) (attributed2 sp ft fx fy ep)) (seq 0 (nbins ey)))
      (seq 0 (nbins ex)).
Proof.
  intros. unfold tc2d_count. rewrite H2_law. unfold hist2d. apply map_ext. intros i.
  apply map_ext. intros j. rewrite count_if_somes. apply count_if_ext. intros [[x y]|] _; reflexivity.
Qed.

Lemma attributed2_in_combine sp ft fx fy ep v :
  In v (somes (attributed2 sp ft fx fy ep)) -> In v (combine (rvals ft fx ep) (rvals ft fy ep)).
Proof.
  intros Hv. apply in_somes in Hv. unfold attributed2 in Hv. apply in_map_iff in Hv.
  destruct Hv as ([j|] & E & Hin); [|discriminate]. cbn [option_map] in E. inversion E; subst; clear E.
  pose proof (value_from_lt_rvals sp ft fx ep) as F. rewrite Forall_forall in F. specialize (F _ Hin).
  cbv beta iota in F.
  assert (Hl : length (rvals ft fx ep) = length (rvals ft fy ep)) by (rewrite !rvals_length; reflexivity).
  rewrite <- (combine_nth _ _ j 0 0 Hl). apply nth_In.
  rewrite combine_length, <- Hl, Nat.min_id. exact F.
Qed.

Theorem tc2d_visited : forall ex ey sp ft fx fy ep i j,
  nth j (nth i (tc2d_occ H2 ex ey ft fx fy ep) []) 0%nat = 0%nat ->
  nth j (nth i (tc2d_count H2 ex ey sp ft fx fy ep) []) 0%nat = 0%nat.
Proof.
  intros ex ey sp ft fx fy ep i j. unfold tc2d_occ, tc2d_count. rewrite !H2_law, !hist2d_nth.
  destruct ((i <? nbins ex) && (j <? nbins ey))%nat; [|reflexivity].
  intros Hz. apply count_if_all_false. intros v Hv.
  apply (count_if_zero_in _ _ _ Hz). eapply attributed2_in_combine. exact Hv.
Qed.

Theorem tc2d_never_inf : forall rate ex ey sp ft fx fy ep,
  Forall (Forall (fun v => v <> TInf)) (tc2d H2 rate ex ey sp ft fx fy ep).
Proof.
  intros rate ex ey sp ft fx fy ep. unfold tc2d. rewrite Forall_map. apply Forall_forall.
  intros [rc ro] Hin. cbn [fst snd].
  assert (Lc : length (tc2d_count H2 ex ey sp ft fx fy ep) = nbins ex)
    by (unfold tc2d_count; rewrite H2_law; apply hist2d_length).
  assert (Lo : length (tc2d_occ H2 ex ey ft fx fy ep) = nbins ex)
    by (unfold tc2d_occ; rewrite H2_law; apply hist2d_length).
  apply (in_combine_nth [] []) in Hin; [|rewrite Lc, Lo; reflexivity].
  destruct Hin as (i & Hi & -> & ->). rewrite Lc in Hi.
  rewrite Forall_map. apply Forall_forall. intros [c o] Hin. cbn [fst snd].
  apply (in_combine_nth 0%nat 0%nat) in Hin.
  - destruct Hin as (j & _ & -> & ->). apply ratio_not_inf. apply tc2d_visited.
  - unfold tc2d_count, tc2d_occ. rewrite !H2_law, !hist2d_row_length by exact Hi. reflexivity.
Qed.

Lemma cell_indicator (a : bool) edges y : increasing edges -> (2 <= length edges)%nat ->
  sum_nat (map (fun k => if a && hbin edges k y then 1%nat else 0%nat) (seq 0 (nbins edges)))
  = if a && inr edges y then 1%nat else 0%nat.
Proof.
  intros Hi Hl. destruct a; cbn [andb]; [apply hbin_indicator; assumption|apply sum_nat_map_zero].
Qed.

Theorem tc2d_conservation : forall ex ey sp ft fx fy ep,
  increasing ex -> increasing ey -> (2 <= length ex)%nat -> (2 <= length ey)%nat ->
  sum_nat (map sum_nat (tc2d_count H2 ex ey sp ft fx fy ep)) =
  count_if (fun o => match o with
                     | Some (x, y) => (hd 0 ex <=? x) && (x <=? last ex 0) && (hd 0 ey <=? y) && (y <=? last ey 0)
                     | None => false end) (attributed2 sp ft fx fy ep).
Proof.
  intros ex ey sp ft fx fy ep Hix Hiy Hlx Hly. unfold tc2d_count. rewrite H2_law. unfold hist2d.
  set (pts := somes (attributed2 sp ft fx fy ep)). rewrite map_map.
  transitivity (sum_nat (map (fun i => count_if (fun p : Z * Z => hbin ex i (fst p) && inr ey (snd p)) pts)
                             (seq 0 (nbins ex)))).
  { f_equal. apply map_ext. intros i.
    apply (sum_count_if (fun j (p : Z * Z) => hbin ex i (fst p) && hbin ey j (snd p))).
    intros p. apply cell_indicator; assumption. }
  transitivity (count_if (fun p : Z * Z => inr ex (fst p) && inr ey (snd p)) pts).
  { apply (sum_count_if (fun i (p : Z * Z) => hbin ex i (fst p) && inr ey (snd p))).
    intros p.
    transitivity (sum_nat (map (fun k => if inr ey (snd p) && hbin ex k (fst p) then 1%nat else 0%nat)
                               (seq 0 (nbins ex)))).
    { f_equal. apply map_ext. intros k. rewrite andb_comm. reflexivity. }
    rewrite cell_indicator by assumption. rewrite andb_comm. reflexivity. }
  unfold pts. rewrite count_if_somes. apply count_if_ext. intros [[x y]|] _; [|reflexivity].
  unfold inr. cbn [fst snd]. rewrite andb_assoc. reflexivity.
Qed.
End NumPy2.

Print Assumptions hist_bin_of.
Print Assumptions hist_conservation.
Print Assumptions attributed_structure.
Print Assumptions attr_block_nearest.
Print Assumptions tc1d_conservation.
Print Assumptions tc1d_never_inf.
Print Assumptions tc1d_value.
Print Assumptions cont_spec.
Print Assumptions tc2d_never_inf.
