(* Lemmas for C14 (Model/NpWrap.v). *)
From Verif Require Import Base.Prelude Model.Restrict Model.Iset Model.Count Model.Slice Model.NpWrap
  Proofs.BaseLemmas Proofs.RestrictProofs Proofs.C01Top Proofs.SliceProofs.
From Coq Require Import ZifyBool.

(* ------------------------------------------------------------------------------------------ *)
(* lists *)
Lemma select_seq {A} (d : A) (l : list A) : select d l (seq 0 (length l)) = l.
Proof.
  unfold select. induction l as [|a r IH]; [reflexivity|].
  cbn [length seq map nth]. f_equal.
  rewrite <- seq_shift, map_map. exact IH.
Qed.

Lemma chunk_length {V} n : forall k (l : list V), length (chunk n k l) = n.
Proof. induction n as [|n IH]; intros k l; simpl; [reflexivity|]. rewrite IH. reflexivity. Qed.

Lemma concat_chunk {V} n : forall k (l : list V), length l = (n * k)%nat -> concat (chunk n k l) = l.
Proof.
  induction n as [|n IH]; intros k l H; simpl in *.
  - destruct l; [reflexivity|discriminate].
  - rewrite IH; [apply firstn_skipn|]. rewrite skipn_length. lia.
Qed.

Lemma chunk_row_length {V} n : forall k (l : list V), length l = (n * k)%nat ->
  Forall (fun r => length r = k) (chunk n k l).
Proof.
  induction n as [|n IH]; intros k l H; simpl in *; [constructor|].
  constructor; [rewrite firstn_length; lia|]. apply IH. rewrite skipn_length. lia.
Qed.

Lemma concat_length_const {A} k (ll : list (list A)) :
  Forall (fun r => length r = k) ll -> length (concat ll) = (length ll * k)%nat.
Proof. induction 1 as [|r ll Hr _ IH]; simpl; [reflexivity|]. rewrite app_length, IH, Hr. reflexivity. Qed.

(* ------------------------------------------------------------------------------------------ *)
(* well-formed arrays and time series *)
Definition wf_arr {V} (a : arr V) : Prop := length (cells a) = prodn (shape a).
Definition all_in (ti : list Z) (sup : iset) : Prop := Forall (fun x => mem x sup = true) ti.

Record WF {V} (x : ts V) : Prop := {
  wf_sorted : sortedZ (t_of x);
  wf_canon : canonical (sup_of x);
  wf_in : all_in (t_of x) (sup_of x);
  wf_empty : t_of x = [] -> sup_of x = [];
  wf_data : wf_arr (dat x);
  wf_len : exists s, shape (dat x) = length (t_of x) :: s;
  wf_cls : kls x = get_class (dat x);
  wf_cols : kls x = CFrame -> length (cols x) = ncols (dat x)
}.

Lemma rows_length {V} (a : arr V) : length (rows a) = dim0 a.
Proof. apply chunk_length. Qed.

Lemma wf_arr_rows {V} (a : arr V) n s : shape a = n :: s -> wf_arr a ->
  concat (rows a) = cells a /\ Forall (fun r => length r = prodn s) (rows a).
Proof.
  intros Hs Hw. unfold rows, dim0, rowsize, wf_arr in *. rewrite Hs in *. cbn [hd tl prodn fold_right] in *.
  split; [apply concat_chunk|apply chunk_row_length]; exact Hw.
Qed.

Lemma take_rows_all {V} (a : arr V) n s : shape a = n :: s -> wf_arr a -> take_rows (seq 0 n) a = a.
Proof.
  intros Hs Hw. destruct (wf_arr_rows a n s Hs Hw) as [Hc _].
  unfold take_rows, arr_of_rows.
  assert (Hn : n = length (rows a)) by (rewrite rows_length; unfold dim0; rewrite Hs; reflexivity).
  rewrite Hn at 1 2. rewrite select_seq, Hc, <- Hn, Hs. cbn [tl].
  destruct a as [sh ce]; simpl in *. subst sh. reflexivity.
Qed.

Lemma restrict_all ti sup : sortedZ ti -> canonical sup -> all_in ti sup ->
  restrict_idx ti sup = seq 0 (length ti).
Proof. intros Hs Hc Ha. rewrite restrict_idx_spec by assumption. apply filter_idx_all. exact Ha. Qed.

Definition sup_eff (ti : list Z) (sup : iset) : iset := match ti with [] => [] | _ => sup end.

(* the constructor's own transformations (restriction to the support) are the identity on a
   well-formed request; only the class / shape check remains *)
Definition finish {V} (k : cls) (ti : list Z) (d : arr V) (sup : iset) (c : option (list Z)) : ts V + err :=
  match k with
  | CTsd => if (ndim d =? 1)%nat then inl (mkTs CTsd ti sup d []) else inr EAssertDim
  | CFrame =>
      if (2 <? ndim d)%nat then inr EAssertDim else
      let d2 := if (ndim d =? 1)%nat then mkArr (shape d ++ [1%nat]) (cells d) else d in
      let nc := ncols d2 in
      inl (mkTs CFrame ti sup d2
                (match c with Some l => if (length l =? nc)%nat then l else default_cols nc | None => default_cols nc end))
  | CTensor => if (ndim d <? 3)%nat then inr ERuntimeDim else inl (mkTs CTensor ti sup d [])
  end.
Definition out_of {V W} (r : ts V + err) : out V W := match r with inl x => OTs x | inr e => OErr e end.

Lemma construct_wf {V W} k ti (d : arr V) sup c s :
  shape d = length ti :: s -> wf_arr d -> sortedZ ti -> canonical sup -> all_in ti sup ->
  @construct V W k ti d sup c = out_of (finish k ti d (sup_eff ti sup) c).
Proof.
  intros Hs Hw Hso Hc Ha. unfold construct. rewrite Hs. rewrite Nat.eqb_refl. cbn [negb].
  assert (E : match ti with
              | [] => (ti, d, @nil (Z * Z))
              | _ :: _ => (select 0 ti (restrict_idx ti sup), take_rows (restrict_idx ti sup) d, sup)
              end = (ti, d, sup_eff ti sup)).
  { destruct ti as [|t0 tr] eqn:Eti; [reflexivity|]. rewrite <- Eti in *.
    rewrite (restrict_all ti sup Hso Hc Ha), select_seq, (take_rows_all d _ s Hs Hw).
    rewrite Eti. reflexivity. }
  rewrite E. unfold finish.
  destruct k; repeat (match goal with |- context [if ?b then _ else _] => destruct b end); reflexivity.
Qed.

(* ------------------------------------------------------------------------------------------ *)
(* __array_function__ / __array_ufunc__ around an ARBITRARY NumPy function f *)
Lemma get_class_finish {V} (a : arr V) ti sup c n0 s : shape a = n0 :: s ->
  exists cc, finish (get_class a) ti a sup c = inl (mkTs (get_class a) ti sup a cc)
             /\ (get_class a = CFrame ->
                 cc = match c with Some l => if (length l =? ncols a)%nat then l else default_cols (ncols a)
                                 | None => default_cols (ncols a) end)
             /\ (get_class a <> CFrame -> cc = []).
Proof.
  intros Hs. unfold get_class, finish, ndim. rewrite Hs.
  destruct s as [|n1 [|n2 s']]; cbn [length Nat.eqb Nat.ltb Nat.leb].
  - eexists; split; [reflexivity|]. split; [discriminate|reflexivity].
  - eexists; split; [reflexivity|]. split; [reflexivity|congruence].
  - eexists; split; [reflexivity|]. split; [discriminate|reflexivity].
Qed.

Section Wrap.
Context {V W : Type}.
Variable f : arr V -> npres V W.
(* the only law of NumPy used: what it returns is an array (cells fill the shape) *)
Hypothesis f_wf : forall a b, f a = NArr b -> wf_arr b.

Definition wrap (x : ts V) : out V W := array_function x FPlain f.

Definition kept_cols (x : ts V) (a : arr V) : option (list Z) :=
  match get_class a, kls x with
  | CFrame, CFrame => if (ncols a =? ncols (dat x))%nat then Some (cols x) else None
  | _, _ => None
  end.

Lemma wrap_unfold x a n0 s : WF x -> f (dat x) = NArr a -> shape a = n0 :: s ->
  wrap x = if (n0 =? length (t_of x))%nat
           then out_of (finish (get_class a) (t_of x) a (sup_of x) (kept_cols x a))
           else OArr a.
Proof.
  intros Hx Hf Hs. unfold wrap, array_function, init_out. rewrite Hf, Hs.
  destruct (n0 =? length (t_of x))%nat eqn:E; [|reflexivity].
  apply Nat.eqb_eq in E. subst n0.
  rewrite (construct_wf _ _ a _ _ s Hs (f_wf _ _ Hf) (wf_sorted _ Hx) (wf_canon _ Hx) (wf_in _ Hx)).
  assert (Hse : sup_eff (t_of x) (sup_of x) = sup_of x).
  { destruct (t_of x) eqn:E; [symmetry; apply (wf_empty _ Hx E)|reflexivity]. }
  rewrite Hse. reflexivity.
Qed.

(* 1. the wrapper never touches the numbers *)
Theorem wrap_values x r : WF x -> as_npres (wrap x) = Some r -> r = f (dat x).
Proof.
  intros Hx H. destruct (f (dat x)) as [a|o] eqn:Hf.
  - destruct (shape a) as [|n0 s] eqn:Hs.
    + unfold wrap, array_function, init_out in H. rewrite Hf, Hs in H. simpl in H. congruence.
    + rewrite (wrap_unfold x a n0 s Hx Hf Hs) in H.
      destruct (n0 =? length (t_of x))%nat; [|simpl in H; congruence].
      destruct (get_class_finish a (t_of x) (sup_of x) (kept_cols x a) n0 s Hs) as (cc & E & _ & _).
      rewrite E in H. simpl in H. congruence.
  - unfold wrap, array_function, init_out in H. rewrite Hf in H. simpl in H. congruence.
Qed.

(* 2. a result that is a time series carries x's timestamps and time support *)
Theorem wrap_time x r : WF x -> wrap x = OTs r -> t_of r = t_of x /\ sup_of r = sup_of x.
Proof.
  intros Hx H. destruct (f (dat x)) as [a|o] eqn:Hf.
  - destruct (shape a) as [|n0 s] eqn:Hs.
    + unfold wrap, array_function, init_out in H. rewrite Hf, Hs in H. discriminate.
    + rewrite (wrap_unfold x a n0 s Hx Hf Hs) in H.
      destruct (n0 =? length (t_of x))%nat; [|discriminate].
      destruct (get_class_finish a (t_of x) (sup_of x) (kept_cols x a) n0 s Hs) as (cc & E & _ & _).
      rewrite E in H. simpl in H. injection H as <-. split; reflexivity.
  - unfold wrap, array_function, init_out in H. rewrite Hf in H. discriminate.
Qed.

(* 3. time is re-attached iff the result's axis 0 has the length of the index (whatever the function) *)
Theorem wrap_ts_iff x a n0 s : WF x -> f (dat x) = NArr a -> shape a = n0 :: s ->
  ((exists r, wrap x = OTs r) <-> n0 = length (t_of x))
  /\ (n0 <> length (t_of x) -> wrap x = OArr a).
Proof.
  intros Hx Hf Hs. rewrite (wrap_unfold x a n0 s Hx Hf Hs).
  destruct (get_class_finish a (t_of x) (sup_of x) (kept_cols x a) n0 s Hs) as (cc & E & _ & _). rewrite E.
  destruct (n0 =? length (t_of x))%nat eqn:En.
  - apply Nat.eqb_eq in En. split; [split; [intros _; exact En|intros _; eexists; reflexivity]|intros; contradiction].
  - apply Nat.eqb_neq in En. split; [split; [intros [r Hr]; discriminate|intros; contradiction]|reflexivity].
Qed.

(* a non-array result (NumPy scalar, tuple) and a 0-d array are passed through *)
Theorem wrap_other x o : f (dat x) = NOther o -> wrap x = OOther o.
Proof. intros Hf. unfold wrap, array_function, init_out. rewrite Hf. reflexivity. Qed.
Theorem wrap_zero_dim x a : f (dat x) = NArr a -> shape a = [] -> wrap x = OArr a.
Proof. intros Hf Hs. unfold wrap, array_function, init_out. rewrite Hf, Hs. reflexivity. Qed.

(* 4. class from the result's rank; column labels kept iff frame -> frame with the same column count *)
Theorem wrap_class_cols x r : WF x -> wrap x = OTs r ->
  kls r = get_class (dat r)
  /\ (kls r = CFrame ->
      cols r = if match kls x with CFrame => (ncols (dat r) =? ncols (dat x))%nat | _ => false end
               then cols x else default_cols (ncols (dat r))).
Proof.
  intros Hx H. destruct (f (dat x)) as [a|o] eqn:Hf.
  - destruct (shape a) as [|n0 s] eqn:Hs.
    + unfold wrap, array_function, init_out in H. rewrite Hf, Hs in H. discriminate.
    + rewrite (wrap_unfold x a n0 s Hx Hf Hs) in H.
      destruct (n0 =? length (t_of x))%nat; [|discriminate].
      destruct (get_class_finish a (t_of x) (sup_of x) (kept_cols x a) n0 s Hs) as (cc & E & Hc & _).
      rewrite E in H. simpl in H. injection H as <-. cbn [kls dat cols]. split; [reflexivity|].
      intros Hk. rewrite (Hc Hk). unfold kept_cols. rewrite Hk.
      destruct (kls x) eqn:Ekx; try reflexivity.
      destruct (ncols a =? ncols (dat x))%nat eqn:En; [|reflexivity].
      apply Nat.eqb_eq in En. rewrite En, (wf_cols _ Hx Ekx), Nat.eqb_refl. reflexivity.
  - unfold wrap, array_function, init_out in H. rewrite Hf in H. discriminate.
Qed.

(* 5. element-wise (shape-preserving) functions always return a time series of x's class with
      x's time axis, support and column labels *)
Theorem elementwise_returns_ts x b : WF x -> f (dat x) = NArr b -> shape b = shape (dat x) ->
  exists r, wrap x = OTs r /\ kls r = kls x /\ t_of r = t_of x /\ sup_of r = sup_of x /\ dat r = b
            /\ (kls x = CFrame -> cols r = cols x).
Proof.
  intros Hx Hf Hs. destruct (wf_len _ Hx) as [s Hsx]. rewrite Hsx in Hs.
  rewrite (wrap_unfold x b _ s Hx Hf Hs), Nat.eqb_refl.
  destruct (get_class_finish b (t_of x) (sup_of x) (kept_cols x b) _ s Hs) as (cc & E & Hc & _). rewrite E.
  assert (Hk : get_class b = kls x).
  { rewrite (wf_cls _ Hx). unfold get_class, ndim. rewrite Hs, Hsx. reflexivity. }
  eexists. split; [reflexivity|]. cbn [kls t_of sup_of dat cols]. repeat split; try assumption.
  intros Hf'. rewrite Hc by congruence. unfold kept_cols. rewrite Hk, Hf'.
  assert (Hn : ncols b = ncols (dat x)) by (unfold ncols; rewrite Hs, Hsx; reflexivity).
  rewrite Hn, Nat.eqb_refl, (wf_cols _ Hx Hf'), Nat.eqb_refl. reflexivity.
Qed.

(* 6. reductions / reshaping: axis 0 kept => always a time series; axis 0 removed => a time series
      exactly in the ambiguous case where the next axis has the length of the index *)
Corollary keeps_axis0_ts x b s' : WF x -> f (dat x) = NArr b -> shape b = length (t_of x) :: s' ->
  exists r, wrap x = OTs r /\ t_of r = t_of x /\ sup_of r = sup_of x /\ dat r = b.
Proof.
  intros Hx Hf Hs. destruct (proj1 (wrap_ts_iff x b _ s' Hx Hf Hs)) as [_ H]. destruct (H eq_refl) as [r Hr].
  exists r. destruct (wrap_time x r Hx Hr) as [H1 H2]. repeat split; try assumption.
  assert (Hv : as_npres (wrap x) = Some (NArr (dat r))) by (rewrite Hr; reflexivity).
  apply (wrap_values x _ Hx) in Hv. congruence.
Qed.

Corollary drops_axis0_ts_iff_square x b m s' : WF x -> f (dat x) = NArr b -> shape b = m :: s' ->
  (exists r, wrap x = OTs r) <-> m = length (t_of x).
Proof. intros Hx Hf Hs. apply (wrap_ts_iff x b m s' Hx Hf Hs). Qed.

(* 7. ufunc protocol: only "__call__", at most one operand of x's own class; then it is the same wrapper *)
Theorem ufunc_is_wrap x : array_ufunc x true 1 f = wrap x /\ array_ufunc x true 0 f = wrap x.
Proof. split; reflexivity. Qed.
Theorem ufunc_same_class_refused x n : (2 <= n)%nat -> array_ufunc x true n f = ORefused.
Proof. intros H. unfold array_ufunc. cbn [negb]. destruct (1 <? n)%nat eqn:E; [reflexivity|]. apply Nat.ltb_ge in E. lia. Qed.
Theorem ufunc_method_refused x n : array_ufunc x false n f = ORefused.
Proof. reflexivity. Qed.
Theorem excluded_refused x : array_function x FExcluded f = ORefused /\ array_function x FFft f = ORefused.
Proof. split; reflexivity. Qed.
Theorem method_is_function x k : method_call x k f = array_function x k f.
Proof. reflexivity. Qed.
End Wrap.

(* 8. operands of two different classes: the inner class's wrapper runs first, the outer re-wraps *)
Section Mixed.
Context {V W : Type}.
Variable g : arr V -> arr V -> npres V W.
Hypothesis g_wf : forall a b c, g a b = NArr c -> wf_arr c.

Theorem mixed_values xo xi r : WF xo -> WF xi ->
  as_npres (mixed_ufunc xo xi g) = Some r -> r = g (dat xo) (dat xi).
Proof.
  intros Ho Hi H. unfold mixed_ufunc in H.
  destruct (as_npres (array_ufunc xi true 1 (g (dat xo)))) as [ri|] eqn:Ei; [|discriminate].
  pose proof (wrap_values (g (dat xo)) (g_wf (dat xo)) xi ri Hi Ei) as Hri.
  set (h := fun _ : arr V => ri).
  assert (Hh : forall a b, h a = NArr b -> wf_arr b).
  { intros a b Hb. unfold h in Hb. rewrite Hri in Hb. eapply g_wf; exact Hb. }
  change (init_out xo (t_of xo) ri) with (wrap h xo) in H.
  rewrite (wrap_values h Hh xo r Ho H). unfold h. exact Hri.
Qed.

Theorem mixed_time xo xi r : WF xo -> WF xi -> mixed_ufunc xo xi g = OTs r ->
  t_of r = t_of xo /\ sup_of r = sup_of xo.
Proof.
  intros Ho Hi H. unfold mixed_ufunc in H.
  destruct (as_npres (array_ufunc xi true 1 (g (dat xo)))) as [ri|] eqn:Ei; [|discriminate].
  pose proof (wrap_values (g (dat xo)) (g_wf (dat xo)) xi ri Hi Ei) as Hri.
  set (h := fun _ : arr V => ri).
  assert (Hh : forall a b, h a = NArr b -> wf_arr b).
  { intros a b Hb. unfold h in Hb. rewrite Hri in Hb. eapply g_wf; exact Hb. }
  change (init_out xo (t_of xo) ri) with (wrap h xo) in H.
  exact (wrap_time h Hh xo r Ho H).
Qed.
End Mixed.

(* ------------------------------------------------------------------------------------------ *)
(* _concatenate_tsd *)
From Coq Require Import Sorting.Sorted RelationClasses.

Lemma strictly_incb_Sorted l : strictly_incb l = true <-> Sorted Z.lt l.
Proof.
  induction l as [|a r IH]; [split; [constructor|reflexivity]|].
  destruct r as [|b r'].
  - split; [intros _; repeat constructor|reflexivity].
  - change (strictly_incb (a :: b :: r')) with ((a <? b) && strictly_incb (b :: r')).
    rewrite andb_true_iff, IH, Z.ltb_lt. split.
    + intros [H1 H2]. constructor; [exact H2|constructor; exact H1].
    + intros H. inversion H as [|? ? H2 H1]; subst. inversion H1; subst. split; assumption.
Qed.

(* strictly increasing = every earlier timestamp is strictly before every later one *)
Lemma strictly_incb_spec l : strictly_incb l = true <-> StronglySorted Z.lt l.
Proof.
  rewrite strictly_incb_Sorted. split; [apply Sorted_StronglySorted; intros x y z; lia|apply StronglySorted_Sorted].
Qed.

Lemma StronglySorted_app_iff (l1 l2 : list Z) :
  StronglySorted Z.lt (l1 ++ l2) <->
  StronglySorted Z.lt l1 /\ StronglySorted Z.lt l2 /\ (forall a b, In a l1 -> In b l2 -> a < b).
Proof.
  induction l1 as [|x r IH]; simpl.
  - split; [intros H; repeat split; [constructor|exact H|intros ? ? []]|intros (_ & H & _); exact H].
  - split.
    + intros H. inversion H as [|? ? H1 H2]; subst. apply IH in H1. destruct H1 as (A & B & C).
      rewrite Forall_app in H2. destruct H2 as [F1 F2]. rewrite Forall_forall in F2.
      repeat split; [constructor; assumption|exact B|].
      intros a b [->|Ha] Hb; [apply F2; exact Hb|apply C; assumption].
    + intros (A & B & C). inversion A as [|? ? A1 A2]; subst. constructor.
      * apply IH. repeat split; [exact A1|exact B|]. intros; apply C; [right|]; assumption.
      * rewrite Forall_app. split; [exact A2|]. apply Forall_forall. intros b Hb. apply C; [left; reflexivity|exact Hb].
Qed.

Lemma StronglySorted_lt_sortedZ l : StronglySorted Z.lt l -> sortedZ l.
Proof.
  intros H. destruct l as [|a r]; [exact I|]. simpl.
  revert a H. induction r as [|b r IH]; intros a H; simpl; [exact I|].
  inversion H as [|? ? H1 H2]; subst. inversion H2; subst. split; [lia|]. apply IH. exact H1.
Qed.

Lemma fold_union_canonical l : forall A, canonical A -> canonical (fold_left iset_union l A).
Proof.
  induction l as [|B r IH]; intros A HA; simpl; [exact HA|].
  apply IH. unfold iset_union. apply mk_iset_pairs_canonical.
Qed.

Definition same_kind {V} (k : cls) (s : list nat) (x : ts V) : Prop := kls x = k /\ tl (shape (dat x)) = s.

Lemma wf_shape {V} (x : ts V) s : WF x -> tl (shape (dat x)) = s -> shape (dat x) = length (t_of x) :: s.
Proof. intros Hx Ht. destruct (wf_len _ Hx) as [s' Hs]. rewrite Hs in *. simpl in Ht. subst. reflexivity. Qed.

Lemma naps_inl {V} (xs : list (ts V)) : naps (map inl xs) = xs.
Proof. induction xs as [|x r IH]; simpl; [reflexivity|]. unfold naps in *. simpl. f_equal. exact IH. Qed.

Lemma sum_dim0 {V} (xs : list (ts V)) s : Forall WF xs -> Forall (fun x => tl (shape (dat x)) = s) xs ->
  fold_right Nat.add 0%nat (map dim0 (map dat xs)) = length (concat (map t_of xs))
  /\ length (concat (map cells (map dat xs))) = (length (concat (map t_of xs)) * prodn s)%nat.
Proof.
  induction 1 as [|x r Hx _ IH]; intros Hk; simpl; [split; reflexivity|].
  inversion Hk as [|? ? Hkx Hkr]; subst. destruct (IH Hkr) as [I1 I2].
  pose proof (wf_shape x _ Hx eq_refl) as Hs. pose proof (wf_data _ Hx) as Hw. unfold wf_arr in Hw.
  rewrite !app_length, I1, I2, Hw. unfold dim0. rewrite Hs. cbn [hd tl prodn fold_right]. split; lia.
Qed.

Lemma first_cols_frame {V} k (xs : list (ts V)) x0 r : xs = x0 :: r -> Forall (fun x => kls x = k) xs ->
  match flat_map (fun x => match kls x with CFrame => [cols x] | _ => [] end) xs with c :: _ => Some c | [] => None end
  = match k with CFrame => Some (cols x0) | _ => None end.
Proof.
  intros -> H. destruct k.
  - assert (E : flat_map (fun x : ts V => match kls x with CFrame => [cols x] | _ => [] end) (x0 :: r) = []).
    { induction H as [|y l Hy _ IH]; simpl; [reflexivity|]. rewrite Hy. exact IH. }
    rewrite E. reflexivity.
  - inversion H; subst. simpl. rewrite H2. reflexivity.
  - assert (E : flat_map (fun x : ts V => match kls x with CFrame => [cols x] | _ => [] end) (x0 :: r) = []).
    { induction H as [|y l Hy _ IH]; simpl; [reflexivity|]. rewrite Hy. exact IH. }
    rewrite E. reflexivity.
Qed.

Lemma last_Forall {A} (P : A -> Prop) l d : P d -> Forall P l -> P (last l d).
Proof. intros Hd H. revert d Hd. induction H as [|x r Hx _ IH]; intros d Hd; [exact Hd|]. destruct r; [exact Hx|]. apply IH. exact Hd. Qed.

Section Concat.
Context {V W : Type}.

(* concatenation along time of operands that are ALL time series of one class with the same row shape,
   at least one of them after the first holding a sample; [outp] is NumPy's output *)
Theorem concat_time_spec (x0 : ts V) (rest : list (ts V)) (outp : arr V) (k : cls) (s : list nat) :
  let xs := x0 :: rest in
  let ti := concat (map t_of xs) in
  let U := fold_left iset_union (map sup_of rest) (sup_of x0) in
  Forall WF xs -> Forall (same_kind k s) xs ->
  shape outp = length ti :: s -> wf_arr outp ->
  (length (t_of x0) < length ti)%nat ->
  (strictly_incb ti = false -> @concat_tsd V W (map inl xs) outp = OErr ERuntimeOrder)
  /\ (strictly_incb ti = true -> all_in ti U ->
      @concat_tsd V W (map inl xs) outp
      = OTs (mkTs k ti U outp (match k with CFrame => cols x0 | _ => [] end))).
Proof.
  intros xs ti U Hwf Hk Hso Hwo Hlt.
  assert (Hx0 : WF x0) by (inversion Hwf; assumption).
  assert (Hk0 : same_kind k s x0) by (inversion Hk; assumption).
  pose proof (wf_shape x0 s Hx0 (proj2 Hk0)) as Hs0.
  unfold concat_tsd. rewrite naps_inl. fold xs. cbn [map xs].
  assert (Hlen : (length xs =? length (@inl (ts V) (arr V) x0 :: map inl rest))%nat = true)
    by (simpl; rewrite map_length; apply Nat.eqb_refl).
  rewrite Hlen. apply Nat.ltb_lt in Hlt.
  assert (Hd : (dim0 (op_arr (@inl (ts V) (arr V) x0)) <? dim0 outp)%nat = true)
    by (unfold dim0; cbn [op_arr]; rewrite Hs0, Hso; exact Hlt).
  rewrite Hd.
  change (concat (t_of x0 :: map t_of rest)) with ti. change (x0 :: rest) with xs. fold U.
  split; [intros E; rewrite E; reflexivity|]. intros E Hin. rewrite E.
  assert (Hcan : canonical U) by (apply fold_union_canonical; apply (wf_canon _ Hx0)).
  assert (Hsorted : sortedZ ti) by (apply StronglySorted_lt_sortedZ, strictly_incb_spec; exact E).
  rewrite (construct_wf _ ti outp U _ s Hso Hwo Hsorted Hcan Hin).
  assert (Hkl : kls (last rest x0) = k).
  { apply (last_Forall (fun x : ts V => kls x = k)); [exact (proj1 Hk0)|].
    inversion Hk as [|? ? _ Hr]; subst. eapply Forall_impl'; [|exact Hr]. intros x Hx. exact (proj1 Hx). }
  rewrite Hkl.
  assert (Hkc : Forall (fun x : ts V => kls x = k) xs) by (eapply Forall_impl'; [|exact Hk]; intros x Hx; exact (proj1 Hx)).
  rewrite (first_cols_frame k xs x0 rest eq_refl Hkc).
  assert (Hse : sup_eff ti U = U). { destruct ti; [apply Nat.ltb_lt in Hlt; simpl in Hlt; lia|reflexivity]. }
  rewrite Hse.
  assert (Hcls : k = get_class outp).
  { rewrite <- (proj1 Hk0), (wf_cls _ Hx0). unfold get_class, ndim. rewrite Hs0, Hso. reflexivity. }
  destruct (get_class_finish outp ti U (match k with CFrame => Some (cols x0) | _ => None end) _ s Hso) as (cc & Ef & Hc1 & Hc2).
  rewrite Hcls at 1. rewrite Ef. cbn [out_of]. rewrite <- Hcls. f_equal. f_equal.
  destruct k.
  - apply Hc2. rewrite <- Hcls. discriminate.
  - rewrite Hc1 by (symmetry; exact Hcls).
    assert (Hn : ncols outp = ncols (dat x0)) by (unfold ncols; rewrite Hs0, Hso; reflexivity).
    rewrite Hn, (wf_cols _ Hx0 (proj1 Hk0)), Nat.eqb_refl. reflexivity.
  - apply Hc2. rewrite <- Hcls. discriminate.
Qed.

(* with NumPy's own law for concatenate(axis=0): the data rows are appended in order *)
Corollary concat_time_rows (x0 : ts V) (rest : list (ts V)) (k : cls) (s : list nat) :
  let xs := x0 :: rest in
  let ti := concat (map t_of xs) in
  let U := fold_left iset_union (map sup_of rest) (sup_of x0) in
  Forall WF xs -> Forall (same_kind k s) xs -> (length (t_of x0) < length ti)%nat ->
  ((exists r, @concat_tsd V W (map inl xs) (cat0 (map dat xs)) = OTs r) -> StronglySorted Z.lt ti)
  /\ (StronglySorted Z.lt ti -> all_in ti U ->
      exists r, @concat_tsd V W (map inl xs) (cat0 (map dat xs)) = OTs r
                /\ kls r = k /\ t_of r = ti /\ sup_of r = U
                /\ shape (dat r) = length ti :: s /\ cells (dat r) = concat (map (fun x => cells (dat x)) xs)
                /\ (k = CFrame -> cols r = cols x0)).
Proof.
  intros xs ti U Hwf Hk Hlt.
  assert (Hx0 : WF x0) by (inversion Hwf; assumption).
  assert (Hk0 : same_kind k s x0) by (inversion Hk; assumption).
  assert (Hks : Forall (fun x : ts V => tl (shape (dat x)) = s) xs) by (eapply Forall_impl'; [|exact Hk]; intros x Hx; exact (proj2 Hx)).
  destruct (sum_dim0 xs s Hwf Hks) as [S1 S2].
  assert (Hso : shape (cat0 (map dat xs)) = length ti :: s).
  { unfold cat0. cbn [shape]. rewrite S1. cbn [xs map hd]. rewrite (proj2 Hk0). reflexivity. }
  assert (Hwo : wf_arr (cat0 (map dat xs))).
  { unfold wf_arr. rewrite Hso. unfold cat0. cbn [cells prodn fold_right]. exact S2. }
  destruct (concat_time_spec x0 rest (cat0 (map dat xs)) k s Hwf Hk Hso Hwo Hlt) as [Hbad Hgood].
  fold xs ti U in Hbad, Hgood. split.
  - intros [r Hr]. apply strictly_incb_spec. destruct (strictly_incb ti) eqn:E; [reflexivity|].
    rewrite (Hbad eq_refl) in Hr. discriminate.
  - intros Hss Hin. apply strictly_incb_spec in Hss. eexists. split; [apply (Hgood Hss Hin)|].
    cbn [kls t_of sup_of dat cols]. repeat split; try assumption.
    + unfold cat0. cbn [cells]. rewrite map_map. reflexivity.
    + intros ->. reflexivity.
Qed.
End Concat.

(* ------------------------------------------------------------------------------------------ *)
(* _split_tsd *)
Lemma firstn_plus {A} n : forall m (l : list A), firstn (n + m) l = firstn n l ++ firstn m (skipn n l).
Proof. induction n as [|n IH]; intros m l; [reflexivity|]. destruct l; simpl; [destruct m; reflexivity|]. f_equal. apply IH. Qed.

Lemma skipn_plus {A} n : forall m (l : list A), skipn (n + m) l = skipn m (skipn n l).
Proof. induction n as [|n IH]; intros m l; [reflexivity|]. destruct l; simpl; [destruct m; reflexivity|]. apply IH. Qed.

Lemma slice_app {A} a b c (l : list A) : (a <= b <= c)%nat -> slice a b l ++ slice b c l = slice a c l.
Proof.
  intros H. unfold slice.
  assert (E : skipn b l = skipn (b - a) (skipn a l)) by (rewrite <- skipn_plus; f_equal; lia). rewrite E.
  replace (c - a)%nat with ((b - a) + (c - b))%nat by lia. rewrite firstn_plus. reflexivity.
Qed.

Lemma slice_full {A} (l : list A) : slice 0 (length l) l = l.
Proof. unfold slice. rewrite Nat.sub_0_r. simpl. apply firstn_all. Qed.

Lemma slice_length {A} a b (l : list A) : length (slice a b l) = Nat.min (b - a) (length l - a).
Proof. unfold slice. rewrite firstn_length, skipn_length. reflexivity. Qed.

Fixpoint nd_from (lo : nat) (l : list nat) : Prop :=
  match l with [] => True | x :: r => (lo <= x)%nat /\ nd_from x r end.

Lemma last_cons {A} (b : A) r a : last (b :: r) a = last r b.
Proof.
  revert a b. induction r as [|c r IH]; intros a b; [reflexivity|].
  change (last (b :: c :: r) a) with (last (c :: r) a). rewrite (IH a c), (IH b c). reflexivity.
Qed.

Lemma concat_map_concat {A} (ll : list (list (list A))) : concat (map (@concat A) ll) = concat (concat ll).
Proof. induction ll as [|l r IH]; simpl; [reflexivity|]. rewrite concat_app, IH. reflexivity. Qed.

Lemma nd_last r : forall b, nd_from b r -> (b <= last r b)%nat.
Proof.
  induction r as [|c r IH]; intros b H; [simpl; lia|]. destruct H as [H1 H2].
  rewrite last_cons. specialize (IH c H2). lia.
Qed.

Lemma concat_pieces {A} (l : list A) pts : forall a, nd_from a pts ->
  concat (pieces_of (a :: pts) l) = slice a (last pts a) l.
Proof.
  induction pts as [|b r IH]; intros a H.
  - simpl. unfold slice. rewrite Nat.sub_diag. reflexivity.
  - destruct H as [H1 H2]. change (pieces_of (a :: b :: r) l) with (slice a b l :: pieces_of (b :: r) l).
    cbn [concat]. rewrite (IH b H2).
    rewrite (last_cons b r a). apply slice_app. split; [exact H1|]. apply nd_last. exact H2.
Qed.

Lemma pieces_lengths {A B} (l : list A) (l' : list B) pts : length l = length l' ->
  map (@length A) (pieces_of pts l) = map (@length B) (pieces_of pts l').
Proof.
  intros H. induction pts as [|a r IH]; [reflexivity|]. destruct r as [|b r']; [reflexivity|].
  change (pieces_of (a :: b :: r') l) with (slice a b l :: pieces_of (b :: r') l).
  change (pieces_of (a :: b :: r') l') with (slice a b l' :: pieces_of (b :: r') l').
  cbn [map]. rewrite IH, !slice_length, H. reflexivity.
Qed.

Lemma sortedZ_app_l l1 : forall l2, sortedZ (l1 ++ l2) -> sortedZ l1.
Proof.
  destruct l1 as [|a r]; intros l2 H; [exact I|]. simpl in *. revert a H.
  induction r as [|b r IH]; intros a H; simpl in *; [exact I|]. destruct H as [H1 H2]. split; [exact H1|]. apply IH. exact H2.
Qed.

Lemma slice_sorted a b l : sortedZ l -> sortedZ (slice a b l).
Proof.
  intros H. unfold slice.
  assert (H1 : sortedZ (skipn a l)) by (apply (sortedZ_app_r (firstn a l)); rewrite firstn_skipn; exact H).
  apply (sortedZ_app_l _ (skipn (b - a) (skipn a l))). rewrite firstn_skipn. exact H1.
Qed.

Lemma slice_Forall {A} (P : A -> Prop) a b l : Forall P l -> Forall P (slice a b l).
Proof.
  intros H. unfold slice. rewrite Forall_forall in *. intros x Hx. apply H.
  rewrite <- (firstn_skipn a l). apply in_or_app. right.
  rewrite <- (firstn_skipn (b - a) (skipn a l)). apply in_or_app. left. exact Hx.
Qed.

Lemma chunk_concat {V} k (rs : list (list V)) : Forall (fun r => length r = k) rs ->
  chunk (length rs) k (concat rs) = rs.
Proof.
  induction 1 as [|r rs Hr _ IH]; simpl; [reflexivity|].
  rewrite <- Hr in *. rewrite firstn_app, skipn_app, Nat.sub_diag, firstn_all, skipn_all. simpl.
  rewrite app_nil_r, IH. reflexivity.
Qed.

Lemma init_out_wf {V W} (x : ts V) ti (a : arr V) s : WF x ->
  shape a = length ti :: s -> wf_arr a -> sortedZ ti -> all_in ti (sup_of x) ->
  @init_out V W x ti (NArr a) = out_of (finish (get_class a) ti a (sup_eff ti (sup_of x)) (kept_cols x a)).
Proof.
  intros Hx Hs Hw Hso Ha. unfold init_out. rewrite Hs, Nat.eqb_refl.
  rewrite (construct_wf _ ti a _ _ s Hs Hw Hso (wf_canon _ Hx) Ha). reflexivity.
Qed.

Section Split.
Context {V W : Type}.

(* one piece [a, b) of a split along time *)
Lemma split_piece (x : ts V) s a b : WF x -> tl (shape (dat x)) = s ->
  exists r, @init_out V W x (slice a b (t_of x)) (NArr (arr_of_rows s (slice a b (rows (dat x))))) = OTs r
            /\ kls r = kls x /\ t_of r = slice a b (t_of x) /\ sup_of r = sup_eff (t_of r) (sup_of x)
            /\ rows (dat r) = slice a b (rows (dat x)) /\ cells (dat r) = concat (slice a b (rows (dat x)))
            /\ (kls x = CFrame -> cols r = cols x).
Proof.
  intros Hx Hs. pose proof (wf_shape x s Hx Hs) as Hsx.
  destruct (wf_arr_rows (dat x) _ s Hsx (wf_data _ Hx)) as [Hc Hr].
  set (rs := slice a b (rows (dat x))). set (ti := slice a b (t_of x)).
  assert (Hlen : length rs = length ti).
  { unfold rs, ti. rewrite !slice_length, rows_length. unfold dim0. rewrite Hsx. reflexivity. }
  assert (Hrs : Forall (fun r => length r = prodn s) rs) by (apply slice_Forall; exact Hr).
  assert (Hsh : shape (arr_of_rows s rs) = length ti :: s) by (unfold arr_of_rows; cbn [shape]; rewrite Hlen; reflexivity).
  assert (Hw : wf_arr (arr_of_rows s rs)).
  { unfold wf_arr. rewrite Hsh. unfold arr_of_rows. cbn [cells prodn fold_right]. rewrite (concat_length_const _ _ Hrs), Hlen. reflexivity. }
  rewrite (init_out_wf x ti _ s Hx Hsh Hw (slice_sorted _ _ _ (wf_sorted _ Hx)) (slice_Forall _ _ _ _ (wf_in _ Hx))).
  destruct (get_class_finish (arr_of_rows s rs) ti (sup_eff ti (sup_of x)) (kept_cols x (arr_of_rows s rs)) _ s Hsh) as (cc & E & Hc1 & _).
  rewrite E. eexists. split; [reflexivity|]. cbn [kls t_of sup_of dat cols].
  assert (Hk : get_class (arr_of_rows s rs) = kls x).
  { rewrite (wf_cls _ Hx). unfold get_class, ndim. rewrite Hsh, Hsx. reflexivity. }
  repeat split; try assumption; try reflexivity.
  - unfold rows, dim0, rowsize. rewrite Hsh. cbn [hd tl]. unfold arr_of_rows. cbn [cells]. rewrite <- Hlen. apply chunk_concat. exact Hrs.
  - intros Hf. rewrite Hc1 by congruence. unfold kept_cols. rewrite Hk, Hf.
    assert (Hn : ncols (arr_of_rows s rs) = ncols (dat x)) by (unfold ncols; rewrite Hsh, Hsx; reflexivity).
    rewrite Hn, Nat.eqb_refl, (wf_cols _ Hx Hf), Nat.eqb_refl. reflexivity.
Qed.

Definition piece_ok (x : ts V) (ab : nat * nat) (r : ts V) : Prop :=
  kls r = kls x /\ t_of r = slice (fst ab) (snd ab) (t_of x) /\ sup_of r = sup_eff (t_of r) (sup_of x)
  /\ rows (dat r) = slice (fst ab) (snd ab) (rows (dat x))
  /\ cells (dat r) = concat (slice (fst ab) (snd ab) (rows (dat x)))
  /\ (kls x = CFrame -> cols r = cols x).

Fixpoint bounds (pts : list nat) : list (nat * nat) :=
  match pts with a :: ((b :: _) as r) => (a, b) :: bounds r | _ => [] end.

Lemma pieces_bounds {A} pts (l : list A) : pieces_of pts l = map (fun ab => slice (fst ab) (snd ab) l) (bounds pts).
Proof.
  induction pts as [|a r IH]; [reflexivity|]. destruct r as [|b r']; [reflexivity|].
  change (pieces_of (a :: b :: r') l) with (slice a b l :: pieces_of (b :: r') l).
  change (bounds (a :: b :: r')) with ((a, b) :: bounds (b :: r')). cbn [map fst snd]. rewrite IH. reflexivity.
Qed.

Lemma split_pieces_all (x : ts V) s (bs : list (nat * nat)) : WF x -> tl (shape (dat x)) = s ->
  exists rs, map (fun td => @init_out V W x (fst td) (NArr (snd td)))
                 (combine (map (fun ab => slice (fst ab) (snd ab) (t_of x)) bs)
                          (map (arr_of_rows s) (map (fun ab => slice (fst ab) (snd ab) (rows (dat x))) bs)))
             = map OTs rs
             /\ Forall2 (piece_ok x) bs rs.
Proof.
  intros Hx Hs. induction bs as [|[a b] r IH]; [exists []; split; [reflexivity|constructor]|].
  destruct IH as (rs & E & F). destruct (split_piece x s a b Hx Hs) as (r0 & E0 & P).
  exists (r0 :: rs). split.
  - cbn [map combine fst snd]. rewrite E0, E. reflexivity.
  - constructor; [exact P|exact F].
Qed.

(* splitting along time with division points pts = [0 = p0 <= p1 <= ... <= pm = n], the same for the
   values and for the index: every piece is a time series of x's class holding exactly the timestamps
   AND the rows of positions [p_i, p_i+1); together they partition the timestamps with the data *)
Theorem split_partition (x : ts V) (array_split : bool) (ios : nat + list nat) (pts : list nat) :
  WF x ->
  np_div_points (negb array_split) ios (length (t_of x)) = Some (0%nat :: pts) ->
  nd_from 0 pts -> last pts 0%nat = length (t_of x) ->
  exists rs, @split_tsd V W x array_split ios = inl (map OTs rs)
             /\ Forall2 (piece_ok x) (bounds (0%nat :: pts)) rs
             /\ concat (map t_of rs) = t_of x
             /\ concat (map (fun r => cells (dat r)) rs) = cells (dat x)
             /\ concat (map (fun r => combine (t_of r) (rows (dat r))) rs) = combine (t_of x) (rows (dat x)).
Proof.
  intros Hx Hv Hnd Hlast. unfold split_tsd. rewrite Hv. unfold row_pieces.
  rewrite !pieces_bounds.
  destruct (split_pieces_all x _ (bounds (0%nat :: pts)) Hx eq_refl) as (rs & E & F).
  exists rs. rewrite E. split; [reflexivity|]. split; [exact F|].
  destruct (wf_len _ Hx) as [s Hsx].
  destruct (wf_arr_rows (dat x) _ s Hsx (wf_data _ Hx)) as [Hc _].
  assert (Hrl : length (rows (dat x)) = length (t_of x)) by (rewrite rows_length; unfold dim0; rewrite Hsx; reflexivity).
  assert (Ht : map t_of rs = pieces_of (0%nat :: pts) (t_of x)).
  { rewrite pieces_bounds. clear -F. induction F as [|ab r bs rs' P _ IH]; [reflexivity|]. cbn [map]. rewrite IH.
    destruct P as (_ & P & _). rewrite P. reflexivity. }
  assert (Hr : map (fun r => rows (dat r)) rs = pieces_of (0%nat :: pts) (rows (dat x))).
  { rewrite pieces_bounds. clear -F. induction F as [|ab r bs rs' P _ IH]; [reflexivity|]. cbn [map]. rewrite IH.
    destruct P as (_ & _ & _ & P & _). rewrite P. reflexivity. }
  assert (Hce : map (fun r => cells (dat r)) rs = map (@concat V) (pieces_of (0%nat :: pts) (rows (dat x)))).
  { rewrite pieces_bounds, map_map. clear -F. induction F as [|ab r bs rs' P _ IH]; [reflexivity|]. cbn [map]. rewrite IH.
    destruct P as (_ & _ & _ & _ & P & _). rewrite P. reflexivity. }
  split; [|split].
  - rewrite Ht, (concat_pieces _ pts 0%nat Hnd), Hlast. apply slice_full.
  - rewrite Hce, concat_map_concat, (concat_pieces _ pts 0%nat Hnd), Hlast, <- Hrl, slice_full. exact Hc.
  - assert (Hcb : map (fun r => combine (t_of r) (rows (dat r))) rs
                 = pieces_of (0%nat :: pts) (combine (t_of x) (rows (dat x)))).
    { rewrite pieces_bounds. clear -F. induction F as [|ab r bs rs' P _ IH]; [reflexivity|]. cbn [map]. rewrite IH.
      destruct P as (_ & P1 & _ & P2 & _). rewrite P1, P2, combine_slice. reflexivity. }
    rewrite Hcb, (concat_pieces _ pts 0%nat Hnd), Hlast.
    assert (Hl : length (combine (t_of x) (rows (dat x))) = length (t_of x)) by (rewrite combine_length, Hrl; lia).
    rewrite <- Hl. apply slice_full.
Qed.
End Split.

(* NumPy's division points are a non-decreasing chain from 0 to n *)
Lemma nd_from_map_seq (g : nat -> nat) : (forall i, g i <= g (S i))%nat ->
  forall n a, nd_from (g a) (map g (seq (S a) n)).
Proof. intros Hg. induction n as [|n IH]; intros a; simpl; [exact I|]. split; [apply Hg|apply IH]. Qed.

Lemma div_points_sections (array_split : bool) N n : (0 < N)%nat -> (array_split = true \/ (n mod N = 0)%nat) ->
  exists pts, np_div_points (negb array_split) (inl N) n = Some (0%nat :: pts) /\ nd_from 0 pts /\ last pts 0%nat = n.
Proof.
  intros HN Hd. unfold np_div_points.
  destruct (N =? 0)%nat eqn:E0; [apply Nat.eqb_eq in E0; lia|].
  assert (Eg : negb array_split && negb (n mod N =? 0)%nat = false).
  { destruct Hd as [->|Hm]; [reflexivity|]. rewrite Hm. simpl. apply andb_false_r. }
  rewrite Eg. set (g := fun i => (i * (n / N) + Nat.min i (n mod N))%nat).
  exists (map g (seq 1 N)). split; [|split].
  - cbn [seq map]. unfold g at 1. rewrite Nat.mul_0_l. reflexivity.
  - change 0%nat with (g 0%nat) at 1. apply nd_from_map_seq. intros i. unfold g. lia.
  - destruct N as [|N']; [lia|]. rewrite seq_S, map_app. cbn [map]. rewrite last_last. unfold g.
    pose proof (Nat.mod_upper_bound n (S N') ltac:(lia)) as Hm.
    pose proof (Nat.div_mod n (S N') ltac:(lia)) as Hdm. lia.
Qed.

Fixpoint nd_le (n : nat) (lo : nat) (l : list nat) : Prop :=
  match l with [] => (lo <= n)%nat | x :: r => (lo <= x)%nat /\ nd_le n x r end.

Lemma div_points_indices b ix n : nd_le n 0 ix ->
  np_div_points b (inr ix) n = Some (0%nat :: ix ++ [n]) /\ nd_from 0 (ix ++ [n]) /\ last (ix ++ [n]) 0%nat = n.
Proof.
  intros H. split; [reflexivity|]. split; [|apply last_last].
  generalize dependent 0%nat. induction ix as [|x r IH]; intros lo H; simpl in *; [split; [exact H|exact I]|].
  destruct H as [H1 H2]. split; [exact H1|apply IH; exact H2].
Qed.

(* np.hsplit / np.dsplit: every piece goes through the same wrapper as any other array function *)
Theorem split_other_is_wrap {V W} (x : ts V) (pcs : list (arr V)) :
  @split_other V W x pcs = map (fun d => wrap (fun _ => NArr d) x) pcs.
Proof. reflexivity. Qed.

(* two operands: when no timestamp lies within 1 us of an endpoint of either support (the constructor of
   IntervalSet trims touching intervals by 1 us - C01's allowance), every timestamp is in the union *)
From Verif Require Import Proofs.C02Top.
Theorem all_in_union2 {V} (x y : ts V) : WF x -> WF y ->
  Forall (fun t => far t (sup_of x) (sup_of y)) (t_of x ++ t_of y) ->
  all_in (concat (map t_of [x; y])) (fold_left iset_union (map sup_of [y]) (sup_of x)).
Proof.
  intros Hx Hy Hf. simpl. rewrite app_nil_r. unfold all_in. rewrite Forall_forall in *. intros t Ht.
  rewrite (wrapper_union_mem _ _ t (wf_canon _ Hx) (wf_canon _ Hy) (Hf t Ht)).
  apply in_app_or in Ht. pose proof (wf_in _ Hx) as Ix. pose proof (wf_in _ Hy) as Iy. unfold all_in in *.
  rewrite Forall_forall in Ix, Iy. destruct Ht as [Ht|Ht]; [rewrite (Ix t Ht)|rewrite (Iy t Ht), orb_true_r]; reflexivity.
Qed.

(* any number of operands: the supports are united pairwise from the left (time_support.union(..).union(..)); the
   constructor behind every step trims only in the microsecond before a START of one of its inputs, and the starts of
   a union are starts of its inputs - so a timestamp that does not lie in the closed microsecond [p - 1 us, p] before
   a start p of any operand's support stays covered through the whole fold *)
From Verif Require Import Proofs.BaseLemmas Proofs.FixIsetProofs Proofs.FixIsetCover Proofs.C01Top Proofs.UnionProofs.
(* starts of the fixed set come from the input pairs *)
Lemma close_pending_starts ns ne nxt s : In s (starts (close_pending ns ne nxt)) -> s = ns.
Proof.
  unfold close_pending. destruct (ns <? _); simpl; [intros [H|[]]; symmetry; exact H|intros []].
Qed.

Lemma fix_go_starts l : forall pend s, In s (starts (fix_go pend l)) ->
  (match pend with Some (ns, _, _) => s = ns | None => False end) \/ In s (map fst l).
Proof.
  induction l as [|[a e] r IH]; intros pend s H; simpl in *.
  - destruct pend as [[[ns ne] ce]|]; [left; eapply close_pending_starts; exact H|destruct H].
  - destruct pend as [[[ns ne] ce]|].
    + destruct (a <? ce).
      * destruct (IH _ _ H) as [H'|H']; [left; exact H'|right; right; exact H'].
      * unfold starts in H. rewrite map_app in H. apply in_app_or in H. destruct H as [H|H].
        -- left. eapply close_pending_starts. exact H.
        -- destruct (e <=? a); destruct (IH _ _ H) as [H'|H']; try (destruct H'; fail);
           try (right; right; exact H'). right; left; symmetry; exact H'.
    + destruct (e <=? a); destruct (IH _ _ H) as [H'|H']; try (destruct H'; fail);
      try (right; right; exact H'). right; left; symmetry; exact H'.
Qed.

Lemma iset_union_fix A B : canonical A -> canonical B -> iset_union A B = fix_iset (k_union A B).
Proof.
  intros Ha Hb. pose proof (union_raw_wf A B Ha Hb) as Hw.
  destruct (weakly_canonical_sorted _ Hw) as (S1 & S2 & S3).
  unfold iset_union, mk_iset_pairs, mk_iset.
  rewrite (sortedZ_sortZ_id _ S1), (sortedZ_sortZ_id _ S2), combine_map_fst_snd. reflexivity.
Qed.

Lemma iset_union_starts A B s : canonical A -> canonical B ->
  In s (starts (iset_union A B)) -> In s (starts A) \/ In s (starts B).
Proof.
  intros Ha Hb H. rewrite (iset_union_fix A B Ha Hb) in H. unfold fix_iset in H.
  destruct (fix_go_starts _ _ _ H) as [[]|H'].
  pose proof (union_starts_ends A B Ha Hb) as HS. rewrite Forall_forall in HS.
  apply in_map_iff in H'. destruct H' as (iv & <- & Hiv). exact (proj1 (HS iv Hiv)).
Qed.

(* x does not lie in the closed microsecond before a start of A *)
Definition clear_of_starts (x : Z) (A : iset) : Prop := forall p, In p (starts A) -> x < p - us \/ p < x.

Lemma iset_union_mem_clear A B x : canonical A -> canonical B -> clear_of_starts x A -> clear_of_starts x B ->
  mem x A || mem x B = true -> mem x (iset_union A B) = true.
Proof.
  intros Ha Hb Ca Cb Hm. rewrite <- (union_mem A B x Ha Hb) in Hm.
  pose proof (union_raw_wf A B Ha Hb) as Hw.
  destruct (weakly_canonical_sorted _ Hw) as (S1 & S2 & S3).
  rewrite (iset_union_fix A B Ha Hb).
  destruct (fix_iset_cover_complete _ x S1 S2 S3 Hm) as [H|(p & Hp & Hx)]; [exact H|exfalso].
  pose proof (union_starts_ends A B Ha Hb) as HS. rewrite Forall_forall in HS.
  apply in_map_iff in Hp. destruct Hp as (iv & <- & Hiv).
  destruct (proj1 (HS iv Hiv)) as [H|H]; [destruct (Ca _ H)|destruct (Cb _ H)]; lia.
Qed.

Lemma fold_union_mem_clear x L : forall S, canonical S -> Forall canonical L ->
  clear_of_starts x S -> Forall (clear_of_starts x) L ->
  (mem x S = true \/ Exists (fun B => mem x B = true) L) -> mem x (fold_left iset_union L S) = true.
Proof.
  induction L as [|B r IH]; intros S Hs HL Cs CL Hm; simpl.
  - destruct Hm as [H|H]; [exact H|inversion H].
  - inversion HL; subst. inversion CL; subst.
    apply IH; try assumption.
    + apply mk_iset_pairs_canonical.
    + intros p Hp. destruct (iset_union_starts S B p Hs H1 Hp) as [H|H]; [apply Cs|apply H3]; exact H.
    + destruct Hm as [H|H].
      * left. apply iset_union_mem_clear; try assumption. rewrite H. reflexivity.
      * inversion H; subst.
        -- left. apply iset_union_mem_clear; try assumption. rewrite H5. apply orb_true_r.
        -- right. assumption.
Qed.

Theorem all_in_union_all {V} (x0 : ts V) (rest : list (ts V)) :
  Forall WF (x0 :: rest) ->
  Forall (fun t => Forall (fun x => clear_of_starts t (sup_of x)) (x0 :: rest)) (concat (map t_of (x0 :: rest))) ->
  all_in (concat (map t_of (x0 :: rest))) (fold_left iset_union (map sup_of rest) (sup_of x0)).
Proof.
  intros Hwf Hc. unfold all_in. rewrite Forall_forall in *. intros t Ht.
  pose proof (Hc t Ht) as Ct. rewrite Forall_forall in Ct.
  apply in_concat in Ht. destruct Ht as (l & Hl & Htl). apply in_map_iff in Hl. destruct Hl as (x & <- & Hx).
  assert (Hm : mem t (sup_of x) = true).
  { pose proof (wf_in _ (Hwf x Hx)) as Hi. unfold all_in in Hi. rewrite Forall_forall in Hi. apply Hi. exact Htl. }
  apply fold_union_mem_clear.
  - apply wf_canon. apply Hwf. left. reflexivity.
  - apply Forall_forall. intros B HB. apply in_map_iff in HB. destruct HB as (y & <- & Hy). apply wf_canon. apply Hwf. right. exact Hy.
  - apply Ct. left. reflexivity.
  - apply Forall_forall. intros B HB. apply in_map_iff in HB. destruct HB as (y & <- & Hy). apply Ct. right. exact Hy.
  - destruct Hx as [<-|Hx]; [left; exact Hm|right].
    apply Exists_exists. exists (sup_of x). split; [apply in_map; exact Hx|exact Hm].
Qed.

(* ------------------------------------------------------------------------------------------ *)
(* witnesses: clauses of the statement that are FALSE of the faithful model (each replays on /repo) *)
Ltac wf_concrete := constructor; cbn;
  [ repeat split; lia | repeat split; lia | repeat constructor | try discriminate; try reflexivity
  | reflexivity | eexists; reflexivity | reflexivity | try discriminate; try reflexivity ].

Definition w_tsd (t : list Z) (sup : iset) (c : list Z) : ts Z := mkTs CTsd t sup (mkArr [length t] c) [].

(* np.hsplit of a Tsd splits along time, but every piece is matched against the WHOLE index: raw arrays come back *)
Lemma hsplit_1d_witness :
  exists (x : ts Z) (p1 p2 : arr Z),
    WF x /\ cells p1 ++ cells p2 = cells (dat x) /\ @split_other Z unit x [p1; p2] = [OArr p1; OArr p2].
Proof.
  exists (w_tsd [0; 10; 20] [(-1, 21)] [5; 6; 7]), (mkArr [1%nat] [5]), (mkArr [2%nat] [6; 7]).
  split; [wf_concrete|]. split; reflexivity.
Qed.

(* np.concatenate([x, e]) with e empty: timestamps strictly increase, yet the "other axis" branch is taken and
   np.allclose on index arrays of lengths 2 and 0 raises ValueError *)
Lemma concat_empty_operand_witness :
  exists x e : ts Z, WF x /\ WF e /\ strictly_incb (t_of x ++ t_of e) = true
    /\ @concat_tsd Z unit [inl x; inl e] (cat0 [dat x; dat e]) = OErr EValueBroadcast.
Proof.
  exists (w_tsd [0; 10] [(-1, 11)] [5; 6]), (w_tsd [] [] []).
  split; [wf_concrete|]. split; [wf_concrete|]. split; reflexivity.
Qed.

(* np.vstack of Tsd operands: NumPy's result is 2-d, the wrapper builds a Tsd (the operands' class) from it:
   AssertionError (dimension) for two operands on the same index, AssertionError (length) for three operands
   in sequence (3 > 2 rows: taken for a concatenation along time) *)
Lemma concat_rank_witness :
  exists (x y : ts Z) (outp : arr Z), WF x /\ WF y /\ shape outp = [2; 2]%nat /\ wf_arr outp
    /\ @concat_tsd Z unit [inl x; inl y] outp = OErr EAssertDim
    /\ exists (y' z' : ts Z) (outp' : arr Z), WF y' /\ WF z' /\ shape outp' = [3; 2]%nat /\ wf_arr outp'
         /\ strictly_incb (t_of x ++ t_of y' ++ t_of z') = true
         /\ @concat_tsd Z unit [inl x; inl y'; inl z'] outp' = OErr EAssertLen.
Proof.
  exists (w_tsd [0; 10] [(-1, 11)] [5; 6]), (w_tsd [0; 10] [(-1, 11)] [7; 8]), (mkArr [2; 2]%nat [5; 6; 7; 8]).
  split; [wf_concrete|]. split; [wf_concrete|]. split; [reflexivity|]. split; [reflexivity|]. split; [reflexivity|].
  exists (w_tsd [20; 30] [(19, 31)] [7; 8]), (w_tsd [40; 50] [(39, 51)] [9; 10]), (mkArr [3; 2]%nat [5; 6; 7; 8; 9; 10]).
  split; [wf_concrete|]. split; [wf_concrete|]. split; [reflexivity|]. split; [reflexivity|]. split; [reflexivity|].
  vm_compute. reflexivity.
Qed.

(* Tsd + TsdFrame (length 1): the Tsd's wrapper re-wraps last, the TsdFrame's column labels are lost *)
Lemma mixed_columns_witness :
  exists (xo xi : ts Z) (g : arr Z -> arr Z -> npres Z unit) (r : ts Z),
    WF xo /\ WF xi /\ kls xi = CFrame /\ mixed_ufunc xo xi g = OTs r /\ kls r = CFrame
    /\ ncols (dat r) = ncols (dat xi) /\ cols xi = [10; 11] /\ cols r = [0; 1].
Proof.
  exists (w_tsd [0] [(-1, 1)] [5]), (mkTs CFrame [0] [(-1, 1)] (mkArr [1; 2]%nat [1; 2]) [10; 11]),
         (fun a b => NArr (mkArr (shape b) (map (Z.add (hd 0 (cells a))) (cells b)))).
  eexists. split; [wf_concrete|]. split; [wf_concrete|]. split; [reflexivity|]. split; [vm_compute; reflexivity|].
  repeat split.
Qed.

(* _split_tsd's literal `axis == 0`: axis 0 is the model's split_tsd ... *)
Lemma split_axis0 {V W} (x : ts V) b ios pcs : @split_tsd_axis V W x b ios 0 pcs = split_tsd x b ios.
Proof. reflexivity. Qed.

(* ... and axis = -1 on a Tsd, the same axis, gives back NumPy's raw pieces: the timestamps are not split with the data *)
Lemma split_negative_axis_witness :
  exists (x : ts Z) (r1 r2 : ts Z),
    WF x /\ ndim (dat x) = 1%nat
    /\ @split_tsd Z unit x false (inl 2%nat) = inl [OTs r1; OTs r2] /\ t_of r1 ++ t_of r2 = t_of x
    /\ @split_tsd_axis Z unit x false (inl 2%nat) (-1) [dat r1; dat r2] = inl [OArr (dat r1); OArr (dat r2)].
Proof.
  exists (w_tsd [0; 10; 20; 30] [(-1, 31)] [5; 6; 7; 8]).
  eexists. eexists. split; [wf_concrete|]. split; [reflexivity|]. split; [vm_compute; reflexivity|]. split; reflexivity.
Qed.

Definition w_frame (t : list Z) (sup : iset) (nc : nat) (c : list Z) (lab : list Z) : ts Z := mkTs CFrame t sup (mkArr [length t; nc] c) lab.

(* np.hstack of two frames whose first timestamps are 0 and 1 ns: _check_time_equals (atol = one precision step) calls the
   time axes equal and the result carries the first operand's timestamps, which are not the second operand's *)
Lemma concat_time_1ns_witness :
  exists (x y r : ts Z) (outp : arr Z),
    WF x /\ WF y /\ sup_of y = sup_of x /\ t_of y <> t_of x /\ shape outp = [2; 4]%nat /\ wf_arr outp
    /\ @concat_tsd Z unit [inl x; inl y] outp = OTs r /\ t_of r = t_of x /\ t_of r <> t_of y.
Proof.
  exists (w_frame [0; 10] [(-1, 11)] 2 [1; 2; 3; 4] [7; 8]), (w_frame [1; 10] [(-1, 11)] 2 [5; 6; 7; 8] [9; 9]).
  eexists. exists (mkArr [2; 4]%nat [1; 2; 5; 6; 3; 4; 7; 8]).
  split; [wf_concrete|]. split; [wf_concrete|]. split; [reflexivity|]. split; [discriminate|]. split; [reflexivity|]. split; [reflexivity|].
  split; [vm_compute; reflexivity|]. split; [reflexivity|discriminate].
Qed.

(* three operands, timestamps strictly increasing, supports [-1,5] us, [5,7] us, [4.5,9] us: their union is the single
   interval [-1,9] us and every timestamp lies in an operand's support; the pairwise fold trims [-1,4] first, the third
   support then starts at 4.5: the sample at 4.3 us is dropped and is not in the result's support *)
Lemma concat_fold_union_witness :
  exists (x y z r : ts Z) (t0 : Z),
    WF x /\ WF y /\ WF z /\ strictly_incb (t_of x ++ t_of y ++ t_of z) = true
    /\ (forall t, In t (t_of x ++ t_of y ++ t_of z) -> mem t (sup_of x) || mem t (sup_of y) || mem t (sup_of z) = true)
    /\ (forall t, -1000 <= t <= 9000 -> mem t (sup_of x) || mem t (sup_of y) || mem t (sup_of z) = true)
    /\ @concat_tsd Z unit [inl x; inl y; inl z] (cat0 [dat x; dat y; dat z]) = OTs r
    /\ In t0 (t_of x) /\ ~ In t0 (t_of r) /\ mem t0 (sup_of r) = false.
Proof.
  exists (w_tsd [0; 4300] [(-1000, 5000)] [1; 2]), (w_tsd [6000; 6500] [(5000, 7000)] [3; 4]), (w_tsd [8000; 8500] [(4500, 9000)] [5; 6]).
  eexists. exists 4300.
  split; [wf_concrete|]. split; [wf_concrete|]. split; [wf_concrete|]. split; [reflexivity|].
  split. { intros t Ht. simpl in Ht. repeat (destruct Ht as [<-|Ht]; [reflexivity|]). destruct Ht. }
  split. { intros t Ht. cbn. unfold inb; simpl. lia. }
  split; [vm_compute; reflexivity|]. split; [right; left; reflexivity|]. split; [|reflexivity].
  simpl. intros H. repeat (destruct H as [H|H]; [discriminate|]). exact H.
Qed.

(* ------------------------------------------------------------------------------------------ *)
(* split along time, in the two call forms *)
Theorem split_sections_partition {V W} (x : ts V) (array_split : bool) (N : nat) :
  WF x -> (0 < N)%nat -> (array_split = true \/ (length (t_of x) mod N = 0)%nat) ->
  exists pts rs, np_div_points (negb array_split) (inl N) (length (t_of x)) = Some (0%nat :: pts)
    /\ @split_tsd V W x array_split (inl N) = inl (map OTs rs)
    /\ Forall2 (piece_ok x) (bounds (0%nat :: pts)) rs
    /\ concat (map t_of rs) = t_of x
    /\ concat (map (fun r => cells (dat r)) rs) = cells (dat x)
    /\ concat (map (fun r => combine (t_of r) (rows (dat r))) rs) = combine (t_of x) (rows (dat x)).
Proof.
  intros Hx HN Hm. destruct (div_points_sections array_split N _ HN Hm) as (pts & E & Hnd & Hl).
  destruct (split_partition (W := W) x array_split (inl N) pts Hx E Hnd Hl) as (rs & H).
  exists pts, rs. split; [exact E|exact H].
Qed.

Theorem split_indices_partition {V W} (x : ts V) (array_split : bool) (ix : list nat) :
  WF x -> nd_le (length (t_of x)) 0 ix ->
  exists rs, @split_tsd V W x array_split (inr ix) = inl (map OTs rs)
    /\ Forall2 (piece_ok x) (bounds (0%nat :: ix ++ [length (t_of x)])) rs
    /\ concat (map t_of rs) = t_of x
    /\ concat (map (fun r => cells (dat r)) rs) = cells (dat x)
    /\ concat (map (fun r => combine (t_of r) (rows (dat r))) rs) = combine (t_of x) (rows (dat x)).
Proof.
  intros Hx Hix. destruct (div_points_indices (negb array_split) ix _ Hix) as (E & Hnd & Hl).
  exact (split_partition (W := W) x array_split (inr ix) (ix ++ [length (t_of x)]) Hx E Hnd Hl).
Qed.

(* np.split (not array_split) into N sections that do not divide the length: NumPy itself raises, so does the wrapper *)
Theorem split_uneven_rejected {V W} (x : ts V) (N : nat) : (0 < N)%nat -> (length (t_of x) mod N <> 0)%nat ->
  @split_tsd V W x false (inl N) = inr EValueSplit.
Proof.
  intros HN Hm. unfold split_tsd, np_div_points. cbn [negb].
  destruct (N =? 0)%nat eqn:E0; [reflexivity|].
  apply Nat.eqb_neq in Hm. rewrite Hm. reflexivity.
Qed.

(* ------------------------------------------------------------------------------------------ *)
(* ufuncs with several outputs: every output goes through the same wrapper as a single output *)
Theorem ufunc_multi_is_wrap {V W} (x : ts V) (n : nat) (f : arr V -> list (npres V W)) : (n <= 1)%nat ->
  array_ufunc_multi x true n f = Some (map (fun r => wrap (fun _ => r) x) (f (dat x))).
Proof.
  intros Hn. unfold array_ufunc_multi. cbn [negb]. destruct (1 <? n)%nat eqn:E; [apply Nat.ltb_lt in E; lia|]. reflexivity.
Qed.

Theorem ufunc_multi_refused {V W} (x : ts V) (n : nat) (f : arr V -> list (npres V W)) :
  array_ufunc_multi x false n f = None /\ ((2 <= n)%nat -> array_ufunc_multi x true n f = None).
Proof.
  split; [reflexivity|]. intros Hn. unfold array_ufunc_multi. cbn [negb].
  destruct (1 <? n)%nat eqn:E; [reflexivity|]. apply Nat.ltb_ge in E. lia.
Qed.

Definition ew_output {V W} (x : ts V) (r : npres V W) (y : ts V) : Prop :=
  r = NArr (dat y) /\ kls y = kls x /\ t_of y = t_of x /\ sup_of y = sup_of x /\ (kls x = CFrame -> cols y = cols x).

(* element-wise multi-output ufunc: every output comes back as a time series of x's class on x's time axis *)
Theorem ufunc_multi_elementwise {V W} (x : ts V) (n : nat) (f : arr V -> list (npres V W)) : WF x -> (n <= 1)%nat ->
  Forall (fun r => exists b, r = NArr b /\ wf_arr b /\ shape b = shape (dat x)) (f (dat x)) ->
  exists ys, array_ufunc_multi x true n f = Some (map OTs ys) /\ Forall2 (ew_output x) (f (dat x)) ys.
Proof.
  intros Hx Hn H. rewrite (ufunc_multi_is_wrap x n f Hn).
  induction H as [|r l (b & -> & Hw & Hs) _ IH]; [exists []; split; [reflexivity|constructor]|].
  destruct IH as (ys & E & F).
  assert (Hfw : forall a c : arr V, (fun _ : arr V => @NArr V W b) a = NArr c -> wf_arr c) by (intros a c Hc; congruence).
  destruct (elementwise_returns_ts (fun _ => NArr b) Hfw x b Hx eq_refl Hs) as (y & Ey & K & T & S & D & Cc).
  exists (y :: ys). split.
  - cbn [map]. rewrite Ey. injection E as E. rewrite E. reflexivity.
  - constructor; [|exact F]. unfold ew_output. rewrite D. repeat split; assumption.
Qed.
