From Verif Require Import Base.Prelude.
From Coq Require Import ZifyBool.

Lemma sorted_from_weaken lo lo' l : lo' <= lo -> sorted_from lo l -> sorted_from lo' l.
Proof. destruct l as [|x r]; simpl; [auto|]. intros H [H1 H2]; split; [lia|assumption]. Qed.

Lemma sorted_from_Forall l : forall lo, sorted_from lo l -> Forall (fun x => lo <= x) l.
Proof.
  induction l as [|x r IH]; intros lo H; [constructor|].
  destruct H as [H1 H2]. constructor; [assumption|].
  apply IH. eapply sorted_from_weaken; eassumption.
Qed.

Lemma sortedZ_tail x r : sortedZ (x :: r) -> sortedZ r.
Proof. destruct r as [|y r]; simpl; [auto|]. intros [_ H]; exact H. Qed.

Lemma sortedZ_cons_Forall x r : sortedZ (x :: r) -> Forall (fun y => x <= y) r.
Proof. simpl. apply sorted_from_Forall. Qed.

Lemma sortedZ_from lo l : sorted_from lo l -> sortedZ l.
Proof. destruct l as [|x r]; simpl; [auto|]. intros [_ H]; exact H. Qed.

Lemma sortedZ_app_r l1 : forall l2, sortedZ (l1 ++ l2) -> sortedZ l2.
Proof.
  induction l1 as [|x r IH]; intros l2 H; [exact H|].
  apply IH. eapply sortedZ_tail. exact H.
Qed.

Lemma sortedb_from_spec l : forall lo, sortedb_from lo l = true <-> sorted_from lo l.
Proof.
  induction l as [|x r IH]; intros lo; simpl; [tauto|].
  rewrite andb_true_iff, IH. rewrite Z.leb_le. tauto.
Qed.

Lemma sortedZb_spec l : sortedZb l = true <-> sortedZ l.
Proof. destruct l; simpl; [tauto|]. apply sortedb_from_spec. Qed.

(* canonical <-> canon *)
Lemma canon_weaken A : forall lo lo', lo' <= lo -> canon lo A -> canon lo' A.
Proof. destruct A as [|[s e] r]; simpl; intros; [auto|]. intuition lia. Qed.

Lemma canon_canonical A : forall lo, canon lo A -> canonical A.
Proof.
  induction A as [|[s e] r IH]; intros lo H; simpl; [auto|].
  destruct H as (H1 & H2 & H3). split; [assumption|]. split.
  - destruct r as [|[s' e'] r']; [auto|]. simpl in H3. lia.
  - eapply IH; eassumption.
Qed.

Lemma canonical_canon_tail s e r : canonical ((s, e) :: r) -> canon e r.
Proof.
  revert s e. induction r as [|[s' e'] r IH]; intros s e H; simpl; [auto|].
  simpl in H. destruct H as (H1 & H2 & H3 & H4 & H5).
  split; [assumption|]. split; [assumption|].
  apply (IH s' e'). simpl. auto.
Qed.

Lemma canonical_canon A : canonical A -> exists lo, canon lo A.
Proof.
  destruct A as [|[s e] r]; intros H; [exists 0; exact I|].
  exists (s - 1). simpl. split; [lia|]. split; [simpl in H; tauto|].
  eapply canonical_canon_tail; eassumption.
Qed.

Lemma canonical_tail I r : canonical (I :: r) -> canonical r.
Proof. destruct I; simpl; tauto. Qed.

Lemma canonicalb_spec A : canonicalb A = true <-> canonical A.
Proof.
  induction A as [|[s e] r IH]; simpl; [tauto|].
  rewrite !andb_true_iff, IH, Z.ltb_lt.
  destruct r as [|[s' e'] r']; [intuition|]. rewrite Z.ltb_lt. tauto.
Qed.

(* membership facts under canon *)
Lemma mem_below A : forall lo x, canon lo A -> x <= lo -> mem x A = false.
Proof.
  induction A as [|[s e] r IH]; intros lo x H Hx; simpl; [reflexivity|].
  destruct H as (H1 & H2 & H3). unfold inb; simpl.
  rewrite (IH e x H3) by lia. lia.
Qed.

Lemma mem_cons x I r : mem x (I :: r) = inb x I || mem x r.
Proof. reflexivity. Qed.

Lemma mem_app x A B : mem x (A ++ B) = mem x A || mem x B.
Proof. unfold mem. apply existsb_app. Qed.

(* filter_idx *)
Lemma filter_idx_app {A} (p : A -> bool) l1 : forall i l2,
  filter_idx p i (l1 ++ l2) = filter_idx p i l1 ++ filter_idx p (i + length l1)%nat l2.
Proof.
  induction l1 as [|x r IH]; intros i l2; simpl.
  - rewrite Nat.add_0_r. reflexivity.
  - rewrite IH. replace (S i + length r)%nat with (i + S (length r))%nat by lia.
    destruct (p x); reflexivity.
Qed.

Lemma filter_idx_ext {A} (p q : A -> bool) l : forall i,
  Forall (fun x => p x = q x) l -> filter_idx p i l = filter_idx q i l.
Proof.
  induction l as [|x r IH]; intros i H; simpl; [reflexivity|].
  inversion H as [|? ? Hx Hr]; subst. rewrite Hx, (IH (S i) Hr). reflexivity.
Qed.

Lemma filter_idx_none {A} (p : A -> bool) l : forall i,
  Forall (fun x => p x = false) l -> filter_idx p i l = [].
Proof.
  induction l as [|x r IH]; intros i H; simpl; [reflexivity|].
  inversion H as [|? ? Hx Hr]; subst. rewrite Hx. apply IH; assumption.
Qed.

Lemma filter_idx_all {A} (p : A -> bool) l : forall i,
  Forall (fun x => p x = true) l -> filter_idx p i l = seq i (length l).
Proof.
  induction l as [|x r IH]; intros i H; simpl; [reflexivity|].
  inversion H as [|? ? Hx Hr]; subst. rewrite Hx. f_equal. apply IH; assumption.
Qed.

Lemma filter_idx_length {A} (p : A -> bool) l : forall i,
  length (filter_idx p i l) = count_if p l.
Proof.
  induction l as [|x r IH]; intros i; simpl; [reflexivity|].
  destruct (p x); simpl; rewrite IH; reflexivity.
Qed.

Lemma Forall_impl' {A} (P Q : A -> Prop) l : (forall x, P x -> Q x) -> Forall P l -> Forall Q l.
Proof. intros H HF. eapply Forall_impl; eassumption. Qed.
