(* C01: the constructor's output is canonical for every input. *)
From Verif Require Import Base.Prelude Model.Iset Proofs.BaseLemmas.
From Coq Require Import ZifyBool Sorting.Sorted Permutation.

(* ---- sortZ produces a sorted permutation ---- *)
Lemma Sorted_sortedZ l : Sorted (fun x y => is_true (x <=? y)) l -> sortedZ l.
Proof.
  induction l as [|x r IH]; intros H; simpl; [exact I|].
  inversion H as [|? ? Hs Hh]; subst.
  specialize (IH Hs).
  destruct r as [|y r']; simpl; [exact I|].
  inversion Hh as [|? ? Hxy]; subst. split; [unfold is_true in Hxy; lia|exact IH].
Qed.

Lemma sortZ_sorted l : sortedZ (sortZ l).
Proof. apply Sorted_sortedZ. apply ZSort.Sorted_sort. Qed.

Lemma sortZ_perm l : Permutation l (sortZ l).
Proof. apply ZSort.Permuted_sort. Qed.

Lemma sortZ_length l : length (sortZ l) = length l.
Proof. symmetry. apply Permutation_length. apply sortZ_perm. Qed.

(* ---- close_pending ---- *)
Lemma close_pending_cases ns ne nxt :
  close_pending ns ne nxt = [] \/
  exists ne', close_pending ns ne nxt = [(ns, ne')] /\ ns < ne' /\ ne' <= ne
              /\ match nxt with Some s => (ne <= s -> ne' < s) | None => ne' = ne end.
Proof.
  unfold close_pending, us.
  destruct nxt as [s|].
  - destruct (ne =? s) eqn:E.
    + destruct (ns <? ne - 1000) eqn:E2; [right|left; reflexivity].
      exists (ne - 1000). repeat split; try lia.
    + destruct (ns <? ne) eqn:E2; [right|left; reflexivity].
      exists ne. repeat split; lia.
  - destruct (ns <? ne) eqn:E2; [right|left; reflexivity].
    exists ne. repeat split; lia.
Qed.

(* ---- main invariant ---- *)
Definition pend_ok (lo sb eb : Z) (pend : option (Z * Z * Z)) : Prop :=
  match pend with
  | None => lo < sb
  | Some (ns, ne, ce) => ne = ce /\ ns < ne /\ ce <= eb /\ lo < ns /\ ns <= sb
  end.

Lemma fix_go_canon l : forall pend lo sb eb,
  sorted_from sb (map fst l) -> sorted_from eb (map snd l) ->
  pend_ok lo sb eb pend -> canon lo (fix_go pend l).
Proof.
  induction l as [|[s e] r IH]; intros pend lo sb eb Hs He Hp.
  - simpl. destruct pend as [[[ns ne] ce]|]; [|exact I].
    destruct Hp as (-> & H1 & H2 & H3 & H4).
    destruct (close_pending_cases ns ce None) as [->|(ne' & -> & Ha & Hb & ->)]; simpl; auto.
  - simpl in Hs, He. destruct Hs as [Hs1 Hs2]. destruct He as [He1 He2].
    cbn [fix_go]. destruct pend as [[[ns ne] ce]|].
    + destruct Hp as (-> & H1 & H2 & H3 & H4).
      destruct (s <? ce) eqn:E.
      * apply (IH _ lo s e); auto. simpl. repeat split; lia.
      * assert (HX : forall lo', lo' < s ->
                  canon lo' (if e <=? s then fix_go None r else fix_go (Some (s, e, e)) r)).
        { intros lo' Hlo'. destruct (e <=? s) eqn:E2.
          - apply (IH None lo' s e); auto.
          - apply (IH _ lo' s e); auto. simpl. repeat split; lia. }
        destruct (close_pending_cases ns ce (Some s)) as [->|(ne' & -> & Ha & Hb & Hc)].
        -- simpl. apply HX. lia.
        -- simpl. split; [lia|]. split; [lia|]. apply HX. apply Hc. lia.
    + simpl in Hp. destruct (e <=? s) eqn:E2.
      * apply (IH None lo s e); auto. simpl. lia.
      * apply (IH _ lo s e); auto. simpl. repeat split; lia.
Qed.

Lemma map_fst_combine {A B} (l1 : list A) : forall (l2 : list B), length l1 = length l2 -> map fst (combine l1 l2) = l1.
Proof. induction l1 as [|x r IH]; intros [|y l2] H; simpl in *; try lia; [reflexivity|]. f_equal. apply IH. lia. Qed.
Lemma map_snd_combine {A B} (l1 : list A) : forall (l2 : list B), length l1 = length l2 -> map snd (combine l1 l2) = l2.
Proof. induction l1 as [|x r IH]; intros [|y l2] H; simpl in *; try lia; [reflexivity|]. f_equal. apply IH. lia. Qed.

Lemma sortedZ_sorted_from l : sortedZ l -> exists b, sorted_from b l.
Proof. destruct l as [|x r]; intros H; [exists 0; exact I|]. exists x. simpl. split; [lia|exact H]. Qed.

Theorem fix_iset_canonical l :
  sortedZ (map fst l) -> sortedZ (map snd l) -> canonical (fix_iset l).
Proof.
  intros Hs He.
  destruct (sortedZ_sorted_from _ Hs) as [sb Hsb].
  destruct (sortedZ_sorted_from _ He) as [eb Heb].
  apply (canon_canonical _ (sb - 1)). unfold fix_iset.
  apply (fix_go_canon l None (sb - 1) sb eb); auto. simpl. lia.
Qed.

Theorem mk_iset_canonical ss es : length ss = length es -> canonical (mk_iset ss es).
Proof.
  intros Hl. unfold mk_iset. apply fix_iset_canonical.
  - rewrite map_fst_combine by (rewrite !sortZ_length; exact Hl). apply sortZ_sorted.
  - rewrite map_snd_combine by (rewrite !sortZ_length; exact Hl). apply sortZ_sorted.
Qed.

(* ---- the kernel as it was at the pinned commit violated canonicity ---- *)
Theorem fix_iset_orig_refuted :
  (exists ss es, length ss = length es /\ ~ canonical (fix_iset_orig (combine (sortZ ss) (sortZ es))))
  /\ ~ canonical (fix_iset_orig (combine (sortZ [0; 500]) (sortZ [500; 1000000000]))).
Proof.
  split.
  - exists [1000000000; 2000000000], [500000000; 2000000000]. split; [reflexivity|].
    vm_compute. intros [H _]; discriminate H.
  - vm_compute. intros [H _]; discriminate H.
Qed.

(* ---- a canonical set is a fixed point of the constructor ---- *)
Lemma sorted_from_sortZ_id l : forall lo, sorted_from lo l -> sortZ l = l.
Proof.
  intros lo H.
  (* a sorted list is its own sort: both are sorted permutations of the same list; we prove it
     through uniqueness of sorted permutations *)
  assert (Hp : Permutation l (sortZ l)) by apply sortZ_perm.
  assert (Hs : sortedZ (sortZ l)) by apply sortZ_sorted.
  assert (Hl : sortedZ l) by (eapply sortedZ_from; exact H).
  clear H. revert Hl Hs Hp. generalize (sortZ l) as l'. clear lo.
  induction l as [|x r IH]; intros l' Hl Hs Hp.
  - apply Permutation_nil in Hp. auto.
  - destruct l' as [|y r']; [apply Permutation_sym, Permutation_nil in Hp; discriminate|].
    assert (x = y).
    { assert (In x (y :: r')) by (eapply Permutation_in; [exact Hp|left; reflexivity]).
      assert (In y (x :: r)) by (eapply Permutation_in; [apply Permutation_sym; exact Hp|left; reflexivity]).
      pose proof (sortedZ_cons_Forall _ _ Hl) as F1. pose proof (sortedZ_cons_Forall _ _ Hs) as F2.
      rewrite Forall_forall in F1, F2.
      destruct H as [->|H]; [reflexivity|]. destruct H0 as [->|H0]; [reflexivity|].
      specialize (F1 _ H0). specialize (F2 _ H). lia. }
    subst y. f_equal. apply IH.
    + eapply sortedZ_tail; exact Hl.
    + eapply sortedZ_tail; exact Hs.
    + eapply Permutation_cons_inv; exact Hp.
Qed.

Lemma canon_starts_sorted A : forall lo, canon lo A -> sorted_from lo (starts A) /\ sorted_from lo (ends A).
Proof.
  induction A as [|[s e] r IH]; intros lo H; simpl; [tauto|].
  destruct H as (H1 & H2 & H3). destruct (IH e H3) as [I1 I2].
  split; (split; [lia|]); eapply sorted_from_weaken; try eassumption; lia.
Qed.

Lemma combine_starts_ends A : combine (starts A) (ends A) = A.
Proof. induction A as [|[s e] r IH]; simpl; [reflexivity|]. f_equal. exact IH. Qed.

Lemma fix_go_canon_id A : forall lo,
  canon lo A ->
  fix_go None A = A /\
  (forall ns, ns < lo -> fix_go (Some (ns, lo, lo)) A = (ns, if match A with (s, _) :: _ => lo =? s | [] => false end then lo - us else lo) :: A).
Proof.
  induction A as [|[s e] r IH]; intros lo H.
  - simpl. split; [reflexivity|]. intros ns Hns. unfold close_pending.
    destruct (ns <? lo) eqn:E; [reflexivity|lia].
  - destruct H as (H1 & H2 & H3). destruct (IH e H3) as [I1 I2].
    assert (Hhead : fix_go (Some (s, e, e)) r = (s, e) :: r).
    { rewrite (I2 s H2). destruct r as [|[s' e'] r']; [reflexivity|].
      simpl in H3. destruct (e =? s') eqn:E; [lia|reflexivity]. }
    split.
    + cbn [fix_go]. destruct (e <=? s) eqn:E; [lia|]. exact Hhead.
    + intros ns Hns. cbn [fix_go].
      destruct (s <? lo) eqn:E; [lia|].
      destruct (e <=? s) eqn:E2; [lia|]. rewrite Hhead.
      unfold close_pending. destruct (lo =? s) eqn:E3; [lia|].
      destruct (ns <? lo) eqn:E4; [reflexivity|lia].
Qed.

Theorem mk_iset_canonical_id A : canonical A -> mk_iset_pairs A = A.
Proof.
  intros Hc. destruct (canonical_canon _ Hc) as [lo Hlo].
  unfold mk_iset_pairs, mk_iset. fold (starts A). fold (ends A).
  destruct (canon_starts_sorted A lo Hlo) as [Hs He].
  rewrite (sorted_from_sortZ_id _ _ Hs), (sorted_from_sortZ_id _ _ He).
  rewrite combine_starts_ends. unfold fix_iset. apply (fix_go_canon_id A lo Hlo).
Qed.
