(* C11 — proofs about Model/Npz.v: generated-table checks and the save/load round trips. *)
From Coq Require Import String Sorting.Sorted Sorting.Permutation.
From Verif Require Import Base.Prelude Model.Restrict Model.Iset Gen.SitesC11 Model.Npz
  Proofs.BaseLemmas Proofs.RestrictProofs Proofs.FixIsetProofs.
Local Open Scope string_scope.
Local Open Scope list_scope.
Local Open Scope Z_scope.

(* ================================================================================================ *)
(* 1. table checks (tier S): closed boolean computations over the generated tables, lifted to statements *)

Lemma keys_cover_true : keys_cover_b = true.
Proof. vm_compute. reflexivity. Qed.
Lemma kwargs_ok_true : kwargs_ok_b = true.
Proof. vm_compute. reflexivity. Qed.
Lemma group_keys_known_true : group_keys_known_b = true.
Proof. vm_compute. reflexivity. Qed.
Lemma type_written_true : type_written_b = true.
Proof. vm_compute. reflexivity. Qed.

Lemma mem_str_In k l : mem_str k l = true <-> In k l.
Proof.
  unfold mem_str. rewrite existsb_exists. split.
  - intros [x [Hx He]]. apply String.eqb_eq in He. subst. assumption.
  - intros H. exists k. split; [assumption|apply String.eqb_refl].
Qed.

(* every key that a reader gets without a membership guard is written unconditionally by every class that
   dispatches to that reader; every guarded key is written by at least one of them *)
Theorem keys_cover : forall r slot k guarded,
  In r ["_Base"; "IntervalSet"; "TsGroup"] ->
  In (slot, ("get", (k, guarded))) (rtable_of r) ->
  if guarded then exists c, In c (classes_of r) /\ In k (wkeys c)
  else forall c, In c (classes_of r) -> In k (wkeys_uncond c).
Proof.
  intros r slot k guarded Hr He.
  pose proof keys_cover_true as H. unfold keys_cover_b in H. apply andb_true_iff in H. destruct H as [H _].
  rewrite forallb_forall in H. specialize (H r Hr). rewrite forallb_forall in H. specialize (H _ He).
  unfold read_covered in H. rewrite String.eqb_refl in H. destruct guarded.
  - apply existsb_exists in H. destruct H as [c [Hc Hk]]. exists c. split; [assumption|]. apply mem_str_In. assumption.
  - rewrite forallb_forall in H. intros c Hc. apply mem_str_In. apply H. assumption.
Qed.

Theorem type_key_cover : forall c, In c (map fst reader_of) ->
  exists kt e, slot_key r_detect "type_" "get" = Some kt /\ lookup (table_of c) kt = Some (e, "")
               /\ (e = type_expr c \/ e = "np.array([self.nap_class], dtype=np.str_)")
               /\ In c (map fst expected_entries).
Proof.
  intros c Hc. pose proof type_written_true as H. unfold type_written_b in H. apply andb_true_iff in H.
  destruct H as [H1 H2]. rewrite forallb_forall in H1, H2. specialize (H1 c Hc). specialize (H2 c Hc).
  destruct (slot_key r_detect "type_" "get") as [kt|] eqn:E1; [|discriminate].
  destruct (lookup (table_of c) kt) as [[e cd]|] eqn:E2; [|discriminate].
  apply andb_true_iff in H1. destruct H1 as [Hcd He]. apply String.eqb_eq in Hcd. subst cd.
  exists kt, e. split; [reflexivity|]. split; [exact E2|]. split.
  - apply orb_true_iff in He. destruct He as [He|He]; apply String.eqb_eq in He; [left|right]; assumption.
  - apply mem_str_In. assumption.
Qed.

Theorem kwargs_accepted : forall c params kw, In c (classes_of "_Base") -> params_of c = Some (params, kw) ->
  (forall k, In k (wkeys c) -> In k r_base_excluded \/ In k (map fst params))
  /\ (forall p, In (p, true) params -> In p (wkeys_uncond c)).
Proof.
  intros c params kw Hc Hp. pose proof kwargs_ok_true as H. unfold kwargs_ok_b in H.
  rewrite forallb_forall in H. specialize (H c Hc). rewrite Hp in H. apply andb_true_iff in H. destruct H as [H1 H2].
  rewrite forallb_forall in H1, H2. split.
  - intros k Hk. specialize (H1 k Hk). apply orb_true_iff in H1. destruct H1 as [H1|H1]; apply mem_str_In in H1; tauto.
  - intros p Hpin. specialize (H2 _ Hpin). simpl in H2. apply mem_str_In. assumption.
Qed.

Theorem group_keys_known : forall k, In k (wkeys "TsGroup") -> In k r_TsGroup_not_info.
Proof.
  intros k Hk. pose proof group_keys_known_true as H. unfold group_keys_known_b in H. rewrite forallb_forall in H.
  apply mem_str_In. apply H. assumption.
Qed.

(* ================================================================================================ *)
(* 2. list lemmas *)

Lemma sortedZ_SS l : sortedZ l -> StronglySorted Z.le l.
Proof.
  induction l as [|x r IH]; intros H; constructor.
  - apply IH. eapply sortedZ_tail. eassumption.
  - apply sortedZ_cons_Forall. assumption.
Qed.

Definition sorted_by {A} (f : A -> Z) (l : list A) : Prop := StronglySorted (fun a b => f a <= f b) l.

Lemma SS_map_inv {A} (f : A -> Z) l : StronglySorted Z.le (map f l) -> sorted_by f l.
Proof.
  induction l as [|x r IH]; simpl; intros H; [constructor|].
  inversion H as [|? ? Hs Hf]; subst. constructor; [apply IH; exact Hs|]. rewrite Forall_map in Hf. exact Hf.
Qed.

Lemma sorted_by_map {A B} (f : B -> Z) (g : A -> B) l : sorted_by (fun a => f (g a)) l -> sorted_by f (map g l).
Proof.
  induction l as [|x r IH]; simpl; intros H; [constructor|].
  inversion H as [|? ? Hs Hf]; subst. constructor; [apply IH; exact Hs|]. rewrite Forall_map. exact Hf.
Qed.

Lemma sorted_by_filter {A} (f : A -> Z) p l : sorted_by f l -> sorted_by f (filter p l).
Proof.
  induction l as [|x r IH]; simpl; intros H; [constructor|]. inversion H as [|? ? Hs Hf]; subst.
  destruct (p x); [|apply IH; exact Hs]. constructor; [apply IH; exact Hs|].
  apply Forall_forall. intros y Hy. apply filter_In in Hy. rewrite Forall_forall in Hf. apply Hf. tauto.
Qed.

Lemma Permutation_filter' {A} (p : A -> bool) l1 l2 : Permutation l1 l2 -> Permutation (filter p l1) (filter p l2).
Proof.
  induction 1; simpl.
  - constructor.
  - destruct (p x); [constructor|]; assumption.
  - destruct (p x), (p y); try apply perm_swap; apply Permutation_refl.
  - eapply Permutation_trans; eassumption.
Qed.

(* two orderings of the same samples by time coincide when samples that tie on time are equal *)
Lemma sorted_perm_eq {A} (f : A -> Z) : forall l1 l2 : list A,
  sorted_by f l1 -> sorted_by f l2 -> Permutation l1 l2 ->
  (forall a b, In a l2 -> In b l2 -> f a = f b -> a = b) -> l1 = l2.
Proof.
  induction l1 as [|a r1 IH]; intros l2 H1 H2 HP Hinj.
  - apply Permutation_nil in HP. subst. reflexivity.
  - destruct l2 as [|b r2]; [apply Permutation_sym, Permutation_nil in HP; discriminate|].
    inversion H1 as [|? ? Hs1 Hf1]; subst. inversion H2 as [|? ? Hs2 Hf2]; subst.
    rewrite Forall_forall in Hf1, Hf2.
    assert (Ha : In a (b :: r2)) by (eapply Permutation_in; [exact HP|left; reflexivity]).
    assert (Hb : In b (a :: r1)) by (eapply Permutation_in; [apply Permutation_sym; exact HP|left; reflexivity]).
    assert (E : a = b).
    { apply Hinj; [assumption|left; reflexivity|].
      assert (f b <= f a) by (destruct Ha as [->|Ha]; [lia|apply Hf2; assumption]).
      assert (f a <= f b) by (destruct Hb as [->|Hb]; [lia|apply Hf1; assumption]). lia. }
    subst b. f_equal. apply IH; try assumption.
    + eapply Permutation_cons_inv. exact HP.
    + intros x y Hx Hy. apply Hinj; right; assumption.
Qed.

Lemma select_map {A B} (f : A -> B) d l ix : select (f d) (map f l) ix = map f (select d l ix).
Proof. unfold select. rewrite map_map. apply map_ext. intros i. apply map_nth. Qed.

Lemma select_length {A} (d : A) l ix : length (select d l ix) = length ix.
Proof. unfold select. apply map_length. Qed.

Lemma select_seq_all {A} (d : A) l : select d l (seq 0 (length l)) = l.
Proof.
  unfold select. induction l as [|x r IH]; [reflexivity|]. simpl. f_equal.
  rewrite <- seq_shift, map_map. exact IH.
Qed.

Lemma select_perm {A} (d : A) l ix : Permutation ix (seq 0 (length l)) -> Permutation (select d l ix) l.
Proof.
  intros H. rewrite <- (select_seq_all d l) at 2. unfold select. apply Permutation_map. assumption.
Qed.

Lemma mask_select_map {A B} (p : Z -> bool) (k : A -> Z) (f : A -> B) (S : list A) :
  mask_select (map p (map k S)) (map f S) = map f (filter (fun x => p (k x)) S).
Proof.
  unfold mask_select. induction S as [|x r IH]; [reflexivity|]. simpl.
  destruct (p (k x)); simpl; [f_equal|]; exact IH.
Qed.

Lemma mask_select_length {A} mask (l : list A) : length mask = length l ->
  forall {B} (l2 : list B), length l2 = length l -> length (mask_select mask l) = length (mask_select mask l2).
Proof.
  unfold mask_select. revert l. induction mask as [|m r IH]; intros [|x l] H B [|y l2] H2; simpl in *; try lia; try reflexivity.
  destruct m; simpl; [f_equal|]; apply IH; lia.
Qed.

Lemma filter_all {A} (p : A -> bool) l : Forall (fun x => p x = true) l -> filter p l = l.
Proof. induction 1; simpl; [reflexivity|]. rewrite H. f_equal. assumption. Qed.
Lemma filter_none {A} (p : A -> bool) l : Forall (fun x => p x = false) l -> filter p l = [].
Proof. induction 1; simpl; [reflexivity|]. rewrite H. assumption. Qed.

Lemma combine_fst_snd {A B} (l : list (A * B)) : combine (map fst l) (map snd l) = l.
Proof. induction l as [|[a b] r IH]; simpl; [reflexivity|]. f_equal. exact IH. Qed.
Lemma map_fst_combine {A B} (a : list A) (b : list B) : length a = length b -> map fst (combine a b) = a.
Proof. revert b. induction a as [|x a IH]; intros [|y b] H; simpl in *; try lia; [reflexivity|]. f_equal. apply IH. lia. Qed.
Lemma map_snd_combine {A B} (a : list A) (b : list B) : length a = length b -> map snd (combine a b) = b.
Proof. revert b. induction a as [|x a IH]; intros [|y b] H; simpl in *; try lia; [reflexivity|]. f_equal. apply IH. lia. Qed.

Lemma increasing_NoDup l : increasing l -> NoDup l.
Proof.
  induction l as [|x r IH]; simpl; intros H; constructor; destruct H as [H1 H2].
  - intros Hin. rewrite Forall_forall in H1. specialize (H1 _ Hin). lia.
  - apply IH. assumption.
Qed.

Lemma NoDup_fst_inj {A B} (s : list (A * B)) : NoDup (map fst s) ->
  forall a b, In a s -> In b s -> fst a = fst b -> a = b.
Proof.
  induction s as [|x r IH]; simpl; intros H a b Ha Hb E; [contradiction|].
  inversion H as [|? ? Hn Hr]; subst.
  destruct Ha as [->|Ha], Hb as [->|Hb]; try reflexivity.
  - exfalso. apply Hn. rewrite E. apply in_map. assumption.
  - exfalso. apply Hn. rewrite <- E. apply in_map. assumption.
  - apply IH; assumption.
Qed.

(* ================================================================================================ *)
(* 3. constructors re-entered on load are the identity on well-formed content *)

Lemma mk_iset_id A : canonical A -> mk_iset (map fst A) (map snd A) = A.
Proof. intros H. exact (mk_iset_canonical_id A H). Qed.

Lemma restrict_idx_all t sup : sortedZ t -> canonical sup -> in_sup t sup -> restrict_idx t sup = seq 0 (length t).
Proof. intros Hs Hc Hi. rewrite restrict_idx_spec by assumption. apply filter_idx_all. exact Hi. Qed.

Lemma restrict_ts_all t sup : sortedZ t -> canonical sup -> in_sup t sup -> restrict_ts t sup = t.
Proof. intros Hs Hc Hi. unfold restrict_ts. rewrite restrict_idx_all by assumption. apply select_seq_all. Qed.

Lemma ctor_ts_times t sup : sortedZ t -> canonical sup -> in_sup t sup -> ts_t (ctor_ts t sup) = t.
Proof. intros Hs Hc Hi. destruct t as [|x r]; [reflexivity|]. unfold ctor_ts. simpl ts_t. apply restrict_ts_all; assumption. Qed.

Lemma ctor_ts_id t sup : WF_series t sup -> ctor_ts t sup = {| ts_t := t; ts_sup := sup |}.
Proof.
  intros (Hs & Hi & Hc & He). destruct t as [|x r].
  - rewrite (He eq_refl). reflexivity.
  - unfold ctor_ts. rewrite restrict_ts_all by assumption. reflexivity.
Qed.

Lemma ctor_rows_some {A} (d : A) t rows sup : sortedZ t -> canonical sup -> in_sup t sup -> length rows = length t ->
  exists s', ctor_rows d t rows sup = Some (t, rows, s').
Proof.
  intros Hs Hc Hi Hl. unfold ctor_rows. rewrite <- Hl, Nat.eqb_refl. simpl negb. cbv iota.
  destruct t as [|x r].
  - destruct rows; [|discriminate]. eexists. reflexivity.
  - rewrite restrict_idx_all by assumption. rewrite select_seq_all. rewrite <- Hl, select_seq_all. eexists. reflexivity.
Qed.

Lemma ctor_rows_id {A} (d : A) t rows sup : WF_series t sup -> length rows = length t ->
  ctor_rows d t rows sup = Some (t, rows, sup).
Proof.
  intros (Hs & Hi & Hc & He) Hl. unfold ctor_rows. rewrite <- Hl, Nat.eqb_refl. simpl negb. cbv iota.
  destruct t as [|x r].
  - destruct rows; [|discriminate]. rewrite (He eq_refl). reflexivity.
  - rewrite restrict_idx_all by assumption. rewrite select_seq_all. rewrite <- Hl, select_seq_all. reflexivity.
Qed.

(* ================================================================================================ *)
(* 4. metadata: to_dict then from_dict + set_info *)

Lemma label_eqb_refl a : label_eqb a a = true.
Proof. destruct a; simpl; [apply Z.eqb_refl|apply String.eqb_refl]. Qed.
Lemma labels_eqb_refl l : labels_eqb l l = true.
Proof. induction l as [|a r IH]; simpl; [reflexivity|]. rewrite label_eqb_refl, IH. reflexivity. Qed.

(* label equality is decidable by label_eqb *)
Lemma label_eqb_eq a b : label_eqb a b = true <-> a = b.
Proof.
  destruct a as [x|x], b as [y|y]; simpl; split; intros H; try discriminate.
  - apply Z.eqb_eq in H. subst. reflexivity.
  - inversion H. apply Z.eqb_refl.
  - apply String.eqb_eq in H. subst. reflexivity.
  - inversion H. apply String.eqb_refl.
Qed.

(* a Python dict built from pairs with pairwise distinct keys is the list of pairs itself *)
Lemma dict_set_fresh k v d : ~ In k (map fst d) -> dict_set k v d = d ++ [(k, v)].
Proof.
  induction d as [|[k' v'] r IH]; simpl; intros H; [reflexivity|].
  destruct (label_eqb k k') eqn:E.
  - apply label_eqb_eq in E. subst. exfalso. apply H. left. reflexivity.
  - rewrite IH; [reflexivity|]. intros Hin. apply H. right. exact Hin.
Qed.
Lemma py_dict_acc l : forall acc, NoDup (map fst (acc ++ l)) ->
  fold_left (fun d (kv : label * mval) => dict_set (fst kv) (snd kv) d) l acc = acc ++ l.
Proof.
  induction l as [|[k v] r IH]; intros acc H; simpl.
  - rewrite app_nil_r. reflexivity.
  - rewrite dict_set_fresh.
    + rewrite IH; rewrite <- app_assoc; [reflexivity|exact H].
    + rewrite map_app in H. apply NoDup_remove_2 in H. intros Hin. apply H. apply in_or_app. left. exact Hin.
Qed.
Lemma py_dict_nodup l : NoDup (map fst l) -> py_dict l = l.
Proof. intros H. unfold py_dict. rewrite py_dict_acc; [reflexivity|exact H]. Qed.

(* the dict of a column whose index has no repeated label: index label -> cell, in index order *)
Definition to_dict_raw (idx : list label) (m : mcols) : mdict := map (fun cv => (fst cv, combine idx (snd cv))) m.
Lemma to_dict_nodup idx m : NoDup idx -> WF_meta (length idx) m -> to_dict idx m = to_dict_raw idx m.
Proof.
  intros Hn H. unfold to_dict, to_dict_raw. apply map_ext_in. intros [c vs] Hin.
  unfold WF_meta in H. rewrite Forall_forall in H. specialize (H _ Hin). simpl in *.
  rewrite py_dict_nodup; [reflexivity|]. rewrite map_fst_combine by lia. exact Hn.
Qed.

Lemma from_to_dict_cols idx m : WF_meta (length idx) m ->
  map (fun ckv : string * list (label * mval) => (fst ckv, map snd (snd ckv))) (to_dict_raw idx m) = m.
Proof.
  intros H. unfold to_dict_raw. rewrite map_map. induction H as [|[c vs] r Hc Hr IH]; simpl; [reflexivity|].
  simpl in Hc. rewrite map_snd_combine by lia. f_equal. apply IH.
Qed.

Lemma set_info_to_dict idx m : WF_meta (length idx) m -> m <> [] -> set_info idx (to_dict_raw idx m) = Some m.
Proof.
  intros H Hne. unfold set_info, from_dict.
  pose proof (from_to_dict_cols idx m H) as Hm.
  assert (Hi : forall ckv, In ckv (to_dict_raw idx m) -> map fst (snd ckv) = idx).
  { intros ckv Hin. unfold to_dict_raw in Hin. apply in_map_iff in Hin. destruct Hin as [[c vs] [<- Hin]]. simpl.
    unfold WF_meta in H. rewrite Forall_forall in H. specialize (H _ Hin). simpl in H. apply map_fst_combine. lia. }
  rewrite Hm.
  assert (E : match to_dict_raw idx m with [] => [] | ckv :: _ => map fst (snd ckv) end = idx).
  { destruct (to_dict_raw idx m) as [|ckv r] eqn:Et.
    - destruct m; [contradiction|discriminate].
    - apply Hi. left. reflexivity. }
  rewrite E, labels_eqb_refl. simpl.
  replace (forallb (fun ckv : string * list (label * mval) => labels_eqb (map fst (snd ckv)) idx) (to_dict_raw idx m)) with true; [reflexivity|].
  symmetry. apply forallb_forall. intros ckv Hin. rewrite (Hi _ Hin). apply labels_eqb_refl.
Qed.

Lemma to_dict_nil idx m : to_dict idx m = [] -> m = [].
Proof. destruct m; [reflexivity|discriminate]. Qed.

(* the metadata step of all three readers, on a file whose "_metadata" entry is to_dict idx m; the index has no
   repeated label (always so for an IntervalSet and a TsGroup; for a TsdFrame: no repeated column label) *)
Lemma meta_roundtrip idx m : NoDup idx -> WF_meta (length idx) m ->
  match to_dict idx m with [] => Some [] | _ :: _ => set_info idx (to_dict idx m) end = Some m.
Proof.
  intros Hn H. destruct (to_dict idx m) eqn:E.
  - apply to_dict_nil in E. subst. reflexivity.
  - rewrite <- E. rewrite to_dict_nodup by assumption. apply set_info_to_dict; [assumption|]. intros ->. discriminate.
Qed.

Lemma NoDup_map_LInt l : NoDup l -> NoDup (map LInt l).
Proof.
  induction 1 as [|x r Hx Hr IH]; simpl; constructor; [|exact IH].
  intros Hin. apply in_map_iff in Hin. destruct Hin as [y [E Hy]]. inversion E; subst. contradiction.
Qed.
Lemma NoDup_seqZ n : NoDup (seqZ n).
Proof.
  unfold seqZ. apply FinFun.Injective_map_NoDup; [|apply seq_NoDup]. intros a b E. apply Nat2Z.inj. exact E.
Qed.

(* ================================================================================================ *)
(* 5. Ts, Tsd, TsdTensor, TsdFrame, IntervalSet *)

Section RoundTrip.
  Variable argsort : list Z -> list nat.

  Lemma save_ts_eq x : save argsort (OTs x) =
    [("t", FFloat1 (ts_t x)); ("start", FFloat1 (map fst (ts_sup x))); ("end", FFloat1 (map snd (ts_sup x)));
     ("type", FStr1 ["Ts"])].
  Proof. reflexivity. Qed.
  Lemma load_ts_eq t ss es :
    load [("t", FFloat1 t); ("start", FFloat1 ss); ("end", FFloat1 es); ("type", FStr1 ["Ts"])]
    = Some (OTs (ctor_ts t (mk_iset ss es))).
  Proof. reflexivity. Qed.

  Theorem roundtrip_ts x : WF_ts x -> load (save argsort (OTs x)) = Some (OTs x).
  Proof.
    intros H. rewrite save_ts_eq, load_ts_eq. destruct x as [t sup]. unfold WF_ts in H. simpl in *.
    assert (Hc : canonical sup) by (destruct H as (_ & _ & Hc & _); exact Hc).
    rewrite mk_iset_id by assumption. rewrite ctor_ts_id by assumption. reflexivity.
  Qed.

  Lemma save_tsd_eq x : save argsort (OTsd x) =
    [("t", FFloat1 (d_t x)); ("d", FData (d_dt x) (d_shape x) (d_v x)); ("start", FFloat1 (map fst (d_sup x)));
     ("end", FFloat1 (map snd (d_sup x))); ("type", FStr1 ["Tsd"])].
  Proof. reflexivity. Qed.
  Lemma load_tsd_eq t dt v ss es :
    load [("t", FFloat1 t); ("d", FData dt [] v); ("start", FFloat1 ss); ("end", FFloat1 es); ("type", FStr1 ["Tsd"])]
    = match ctor_rows [] t v (mk_iset ss es) with
      | Some (t', v', s') => Some (OTsd {| d_t := t'; d_v := v'; d_shape := []; d_dt := dt; d_sup := s' |})
      | None => None end.
  Proof. reflexivity. Qed.

  Theorem roundtrip_tsd x : WF_tsd x -> load (save argsort (OTsd x)) = Some (OTsd x).
  Proof.
    intros (H & Hl & Hsh). rewrite save_tsd_eq. destruct x as [t v sh dt sup]. simpl in *. subst sh.
    rewrite load_tsd_eq.
    assert (Hc : canonical sup) by (destruct H as (_ & _ & Hc & _); exact Hc).
    rewrite mk_iset_id by assumption. rewrite ctor_rows_id by assumption. reflexivity.
  Qed.

  Lemma save_tensor_eq x : save argsort (OTensor x) =
    [("t", FFloat1 (d_t x)); ("d", FData (d_dt x) (d_shape x) (d_v x)); ("start", FFloat1 (map fst (d_sup x)));
     ("end", FFloat1 (map snd (d_sup x))); ("type", FStr1 ["TsdTensor"])].
  Proof. reflexivity. Qed.
  Lemma load_tensor_eq t dt n1 n2 sh v ss es :
    load [("t", FFloat1 t); ("d", FData dt (n1 :: n2 :: sh) v); ("start", FFloat1 ss); ("end", FFloat1 es);
          ("type", FStr1 ["TsdTensor"])]
    = match ctor_rows [] t v (mk_iset ss es) with
      | Some (t', v', s') => Some (OTensor {| d_t := t'; d_v := v'; d_shape := n1 :: n2 :: sh; d_dt := dt; d_sup := s' |})
      | None => None end.
  Proof. reflexivity. Qed.

  Theorem roundtrip_tensor x : WF_tensor x -> load (save argsort (OTensor x)) = Some (OTensor x).
  Proof.
    intros (H & Hl & Hsh). rewrite save_tensor_eq. destruct x as [t v sh dt sup]. simpl in *.
    destruct sh as [|n1 [|n2 sh]]; simpl in Hsh; try lia.
    rewrite load_tensor_eq.
    assert (Hc : canonical sup) by (destruct H as (_ & _ & Hc & _); exact Hc).
    rewrite mk_iset_id by assumption. rewrite ctor_rows_id by assumption. reflexivity.
  Qed.

  Lemma save_frame_eq x : save argsort (OFrame x) =
    [("t", FFloat1 (f_t x)); ("d", FData (f_dt x) [length (f_cols x)] (f_v x)); ("start", FFloat1 (map fst (f_sup x)));
     ("end", FFloat1 (map snd (f_sup x))); ("columns", FLabels (cast_cols (f_cols x))); ("type", FStr1 ["TsdFrame"]);
     ("_metadata", FDict (to_dict (f_cols x) (f_meta x)))].
  Proof. reflexivity. Qed.
  Lemma load_frame_eq t dt n v ss es cl md :
    load [("t", FFloat1 t); ("d", FData dt [n] v); ("start", FFloat1 ss); ("end", FFloat1 es); ("columns", FLabels cl);
          ("type", FStr1 ["TsdFrame"]); ("_metadata", FDict md)]
    = match ctor_rows [] t v (mk_iset ss es) with
      | Some (t', v', s') =>
          let cl' := if (length cl =? n)%nat then cl else arange_labels n in
          match (match md with [] => Some [] | _ :: _ => set_info cl' md end) with
          | Some m => Some (OFrame {| f_t := t'; f_v := v'; f_dt := dt; f_sup := s'; f_cols := cl'; f_meta := m |})
          | None => None end
      | None => None end.
  Proof.
    destruct md; (destruct (ctor_rows [] t v (mk_iset ss es)) as [[[t' v'] s']|] eqn:E;
      [destruct (length cl =? n)%nat eqn:E2|]; unfold load; cbn -[ctor_rows mk_iset set_info Nat.eqb]; rewrite ?E, ?E2; reflexivity).
  Qed.

  Lemma cast_cols_homogeneous c : homogeneous c -> cast_cols c = c.
  Proof.
    intros [H|H]; unfold cast_cols.
    - destruct (existsb is_str c); [|reflexivity].
      induction H as [|l r Hl Hr IH]; simpl; [reflexivity|]. destruct l; [discriminate|]. simpl. f_equal. exact IH.
    - replace (existsb is_str c) with false; [reflexivity|]. symmetry.
      induction H as [|l r Hl Hr IH]; simpl; [reflexivity|]. rewrite Hl. exact IH.
  Qed.

  Theorem roundtrip_frame x : WF_frame x -> unique_labels_or_no_meta x -> load (save argsort (OFrame x)) = Some (OFrame x).
  Proof.
    intros (H & Hl & Hh & Hm) Hu. unfold unique_labels_or_no_meta in Hu. rewrite save_frame_eq. destruct x as [t v dt sup cols meta]. simpl in *.
    rewrite load_frame_eq.
    assert (Hc : canonical sup) by (destruct H as (_ & _ & Hc & _); exact Hc).
    rewrite mk_iset_id by assumption. rewrite ctor_rows_id by assumption.
    rewrite cast_cols_homogeneous by assumption. rewrite Nat.eqb_refl. cbv zeta.
    destruct Hu as [Hu|Hu]; [rewrite meta_roundtrip by assumption; reflexivity|].
    subst meta. reflexivity.
  Qed.

  Lemma save_iset_eq x : save argsort (OIset x) =
    [("start", FFloat1 (map fst (i_iv x))); ("end", FFloat1 (map snd (i_iv x))); ("type", FStr1 ["IntervalSet"]);
     ("_metadata", FDict (to_dict (map LInt (seqZ (length (i_iv x)))) (i_meta x)))].
  Proof. reflexivity. Qed.
  Lemma load_iset_eq ss es md :
    load [("start", FFloat1 ss); ("end", FFloat1 es); ("type", FStr1 ["IntervalSet"]); ("_metadata", FDict md)]
    = let iv := mk_iset ss es in
      match (match md with [] => Some [] | _ :: _ => set_info (map LInt (seqZ (length iv))) md end) with
      | Some m => Some (OIset {| i_iv := iv; i_meta := m |})
      | None => None end.
  Proof. destruct md; reflexivity. Qed.

  Theorem roundtrip_iset x : WF_iset x -> load (save argsort (OIset x)) = Some (OIset x).
  Proof.
    intros (Hc & Hm). rewrite save_iset_eq. destruct x as [iv meta]. simpl in *.
    rewrite load_iset_eq. rewrite mk_iset_id by assumption. cbv zeta.
    assert (Hlen : length (map LInt (seqZ (length iv))) = length iv).
    { unfold seqZ. rewrite !map_length, seq_length. reflexivity. }
    rewrite meta_roundtrip; [reflexivity|apply NoDup_map_LInt, NoDup_seqZ|rewrite Hlen; assumption].
  Qed.
End RoundTrip.

(* ================================================================================================ *)
(* 6. TsGroup: flatten / argsort / split by key *)

Definition tag (k : Z) (td : Z * dval) : Z * (dval * Z) := (fst td, (snd td, k)).
Definition d0 : Z * (dval * Z) := (0, (None, 0)).
(* samples of one member that tie on time are equal (always true for Ts members) *)
Definition tie_free (m : member) : Prop :=
  forall a b, In a (samples m) -> In b (samples m) -> fst a = fst b -> a = b.

Lemma flat_cons k m G : flat ((k, m) :: G) = map (tag k) (samples m) ++ flat G.
Proof. reflexivity. Qed.

Lemma filter_tag_same k s : filter (fun x => k =? tr_k x) (map (tag k) s) = map (tag k) s.
Proof. apply filter_all. apply Forall_forall. intros x Hx. apply in_map_iff in Hx. destruct Hx as [td [<- _]]. apply Z.eqb_refl. Qed.
Lemma filter_tag_other k k' s : k <> k' -> filter (fun x => k =? tr_k x) (map (tag k') s) = [].
Proof.
  intros Hn. apply filter_none. apply Forall_forall. intros x Hx. apply in_map_iff in Hx. destruct Hx as [td [<- _]].
  apply Z.eqb_neq. exact Hn.
Qed.
Lemma filter_flat_other k G : Forall (fun km : Z * member => fst km <> k) G -> filter (fun x => k =? tr_k x) (flat G) = [].
Proof.
  induction 1 as [|[k' m] r Hk Hr IH]; [reflexivity|]. rewrite flat_cons, filter_app, IH.
  rewrite filter_tag_other by (simpl in Hk; congruence). reflexivity.
Qed.

Lemma filter_flat_key G : increasing (map fst G) -> forall k m, In (k, m) G ->
  filter (fun x => k =? tr_k x) (flat G) = map (tag k) (samples m).
Proof.
  induction G as [|[k1 m1] r IH]; intros Hinc k m Hin; [contradiction|].
  simpl in Hinc. destruct Hinc as [Hlt Hinc]. rewrite flat_cons, filter_app.
  destruct Hin as [E|Hin].
  - inversion E; subst. rewrite filter_tag_same, filter_flat_other, app_nil_r; [reflexivity|].
    rewrite Forall_map in Hlt. eapply Forall_impl; [|exact Hlt]. simpl. intros. lia.
  - assert (k1 < k).
    { rewrite Forall_forall in Hlt. apply Hlt. change k with (fst (k, m)). apply in_map. exact Hin. }
    rewrite filter_tag_other by lia. simpl. apply IH; assumption.
Qed.

Lemma tie_free_ts t : tie_free (MTs t).
Proof.
  intros a b Ha Hb E. simpl in Ha, Hb. apply in_map_iff in Ha, Hb.
  destruct Ha as [x [<- _]], Hb as [y [<- _]]. simpl in E. subst. reflexivity.
Qed.
Lemma tie_free_increasing m : increasing (member_times m) -> tie_free m.
Proof. intros H. unfold tie_free. apply NoDup_fst_inj. apply increasing_NoDup. exact H. Qed.

Lemma nodupb_increasing l : increasing l -> nodupb l = true.
Proof.
  induction l as [|x r IH]; simpl; intros H; [reflexivity|]. destruct H as [H1 H2]. rewrite IH by assumption.
  replace (existsb (Z.eqb x) r) with false; [reflexivity|]. symmetry.
  apply not_true_is_false. intros Hex. apply existsb_exists in Hex. destruct Hex as [y [Hy He]].
  apply Z.eqb_eq in He. subst. rewrite Forall_forall in H1. specialize (H1 _ Hy). lia.
Qed.

Lemma sort_keys_increasing {A} (G : list (Z * A)) : increasing (map fst G) -> sort_keys G = G.
Proof.
  induction G as [|x r IH]; simpl; intros H; [reflexivity|]. destruct H as [H1 H2].
  unfold sort_keys in *. simpl. rewrite IH by assumption.
  destruct r as [|y r']; [reflexivity|]. simpl.
  inversion H1 as [|? ? Hxy _]; subst. replace (fst x <=? fst y) with true; [reflexivity|]. symmetry. apply Z.leb_le. lia.
Qed.

Lemma sequence_some {A} (l : list A) : sequence (map Some l) = Some l.
Proof. induction l as [|x r IH]; simpl; [reflexivity|]. rewrite IH. reflexivity. Qed.

(* what the reader does with the arrays, as named functions (so that `load` on a saved group can be stated) *)
Definition build_ts (sup : iset) (index times : list Z) (k : Z) : option (Z * member) :=
  Some (k, MTs (ts_t (ctor_ts (mask_select (map (Z.eqb k) index) times) sup))).
Definition build_tsd (sup : iset) (index times : list Z) (d : list dval) (k : Z) : option (Z * member) :=
  if negb (length d =? length times)%nat then None else
  match ctor_rows None (mask_select (map (Z.eqb k) index) times) (mask_select (map (Z.eqb k) index) d) sup with
  | Some (t', d', _) => Some (k, MTsd (combine t' d'))
  | None => None end.
Definition finish (md : mdict) (sup : iset) (keys : list Z) (built : list (option (Z * member))) : option obj :=
  match sequence built with
  | None => None
  | Some mem =>
      if negb (nodupb keys) then None else
      let mem := sort_keys mem in
      match (match md with [] => Some [] | _ :: _ => set_info (map LInt (map fst mem)) md end) with
      | Some m => Some (OGroup {| g_mem := mem; g_sup := sup; g_meta := m |})
      | None => None end
  end.

Lemma load_group_nodata md T I K ss es :
  load [("type", FStr1 ["TsGroup"]); ("_metadata", FDict md); ("t", FFloat1 T); ("index", FInt1 I);
        ("keys", FInt1 K); ("start", FFloat1 ss); ("end", FFloat1 es)]
  = if negb (length T =? length I)%nat then None
    else finish md (mk_iset ss es) K (map (build_ts (mk_iset ss es) I T) K).
Proof. destruct md; reflexivity. Qed.

Lemma load_group_data md T I D K ss es :
  load [("type", FStr1 ["TsGroup"]); ("_metadata", FDict md); ("t", FFloat1 T); ("index", FInt1 I); ("d", FNan1 D);
        ("keys", FInt1 K); ("start", FFloat1 ss); ("end", FFloat1 es)]
  = if negb (length T =? length I)%nat then None
    else finish md (mk_iset ss es) K (map (build_tsd (mk_iset ss es) I T D) K).
Proof. destruct md; reflexivity. Qed.

Section GroupCore.
  Variable argsort : list Z -> list nat.
  Definition sorted_triples (g : group) : list (Z * (dval * Z)) := select d0 (flat (g_mem g)) (g_idx argsort g).

  (* what the round trip needs from the sort: the samples the reader selects for key k are exactly member k's samples,
     in their order, for every member satisfying [ok] (proved below from np.argsort's contract with ok = tie_free, and
     for the stable argsort with ok = True) *)
  Variable ok : member -> Prop.
  Hypothesis ok_ts : forall t, ok (MTs t).
  Hypothesis member_filter : forall g k m, increasing (map fst (g_mem g)) -> In (k, m) (g_mem g) ->
    sortedZ (member_times m) -> ok m ->
    filter (fun x => k =? tr_k x) (sorted_triples g) = map (tag k) (samples m).

  Lemma g_times_eq g : g_times argsort g = map tr_t (sorted_triples g).
  Proof. exact (select_map tr_t d0 (flat (g_mem g)) (g_idx argsort g)). Qed.
  Lemma g_index_eq g : g_index argsort g = map tr_k (sorted_triples g).
  Proof. exact (select_map tr_k d0 (flat (g_mem g)) (g_idx argsort g)). Qed.
  Lemma g_data_eq g : g_data argsort g = map tr_d (sorted_triples g).
  Proof. exact (select_map tr_d d0 (flat (g_mem g)) (g_idx argsort g)). Qed.

  Lemma save_group_eq g : save argsort (OGroup g) =
    [("type", FStr1 ["TsGroup"]); ("_metadata", FDict (to_dict (map LInt (map fst (g_mem g))) (g_meta g)));
     ("t", FFloat1 (g_times argsort g)); ("index", FInt1 (g_index argsort g))]
    ++ (if existsb is_some (map tr_d (flat (g_mem g))) then [("d", FNan1 (g_data argsort g))] else [])
    ++ [("keys", FInt1 (map fst (g_mem g))); ("start", FFloat1 (map fst (g_sup g))); ("end", FFloat1 (map snd (g_sup g)))].
  Proof.
    unfold save. change (table_of (class_name (OGroup g))) with w_TsGroup. unfold w_TsGroup. cbn [flat_map fst snd].
    change (eval_cond (OGroup g) "not np.all(np.isnan(data))") with (Some (existsb is_some (map tr_d (flat (g_mem g))))).
    destruct (existsb is_some (map tr_d (flat (g_mem g)))); reflexivity.
  Qed.

  Lemma member_times_sel g k m : increasing (map fst (g_mem g)) -> In (k, m) (g_mem g) ->
    sortedZ (member_times m) -> ok m ->
    mask_select (map (Z.eqb k) (g_index argsort g)) (g_times argsort g) = member_times m.
  Proof.
    intros. rewrite g_index_eq, g_times_eq, mask_select_map. rewrite (member_filter g k m) by assumption.
    unfold member_times. rewrite map_map. reflexivity.
  Qed.
  Lemma member_data_sel g k m : increasing (map fst (g_mem g)) -> In (k, m) (g_mem g) ->
    sortedZ (member_times m) -> ok m ->
    mask_select (map (Z.eqb k) (g_index argsort g)) (g_data argsort g) = map snd (samples m).
  Proof.
    intros. rewrite g_index_eq, g_data_eq, mask_select_map. rewrite (member_filter g k m) by assumption.
    rewrite map_map. reflexivity.
  Qed.

  Lemma lengths_eq g : length (g_times argsort g) = length (g_index argsort g)
                       /\ length (g_data argsort g) = length (g_times argsort g).
  Proof. unfold g_times, g_index, g_data. rewrite !select_length. split; reflexivity. Qed.

  Lemma finish_ok g built : WF_group_base g -> built = map Some (g_mem g) ->
    finish (to_dict (map LInt (map fst (g_mem g))) (g_meta g)) (g_sup g) (map fst (g_mem g)) built = Some (OGroup g).
  Proof.
    intros (Hinc & Hc & Hmem & Hmeta) ->. unfold finish. rewrite sequence_some.
    rewrite nodupb_increasing by assumption. simpl negb. cbv iota zeta.
    rewrite sort_keys_increasing by assumption.
    rewrite meta_roundtrip; [|apply NoDup_map_LInt, increasing_NoDup; assumption|rewrite !map_length; assumption].
    destruct g; reflexivity.
  Qed.

  (* a group whose members are Ts *)
  Lemma core_group_ts g : WF_group_base g -> all_ts g -> load (save argsort (OGroup g)) = Some (OGroup g).
  Proof.
    intros HW Hts. pose proof HW as (Hinc & Hc & Hmem & Hmeta).
    assert (E : existsb is_some (map tr_d (flat (g_mem g))) = false).
    { apply not_true_is_false. intros Hex. apply existsb_exists in Hex. destruct Hex as [o [Ho Hs]].
      apply in_map_iff in Ho. destruct Ho as [x [<- Hx]]. unfold flat in Hx. apply in_flat_map in Hx.
      destruct Hx as [[k m] [Hkm Hx]]. unfold all_ts in Hts. rewrite Forall_forall in Hts. specialize (Hts _ Hkm).
      destruct m as [t|s]; [|contradiction]. simpl in Hx. apply in_map_iff in Hx. destruct Hx as [td [<- Htd]].
      apply in_map_iff in Htd. destruct Htd as [y [<- _]]. discriminate. }
    rewrite save_group_eq, E. cbn [app]. rewrite load_group_nodata.
    destruct (lengths_eq g) as [L1 L2]. rewrite L1, Nat.eqb_refl. simpl negb. cbv iota.
    rewrite mk_iset_id by assumption. apply finish_ok; [assumption|].
    rewrite map_map. apply map_ext_in. intros [k m] Hin. simpl fst. unfold build_ts.
    rewrite Forall_forall in Hmem. destruct (Hmem _ Hin) as [Hs Hi]. simpl in Hs, Hi.
    unfold all_ts in Hts. rewrite Forall_forall in Hts. specialize (Hts _ Hin). destruct m as [t|s]; [|contradiction].
    rewrite (member_times_sel g k (MTs t)); try assumption; [|apply ok_ts].
    rewrite ctor_ts_times by assumption. unfold member_times. simpl. rewrite map_map. simpl. rewrite map_id. reflexivity.
  Qed.

  (* a group whose members are Tsd with finite data, at least one sample, and no repeated timestamp inside a member *)
  Lemma core_group_tsd g : WF_group_base g -> all_tsd g -> Forall (fun km => ok (snd km)) (g_mem g) ->
    load (save argsort (OGroup g)) = Some (OGroup g).
  Proof.
    intros HW [Hfin Hne] Hdis. pose proof HW as (Hinc & Hc & Hmem & Hmeta).
    assert (Hall : Forall (fun x => is_some (tr_d x) = true) (flat (g_mem g))).
    { apply Forall_forall. intros x Hx. unfold flat in Hx. apply in_flat_map in Hx. destruct Hx as [[k m] [Hkm Hx]].
      rewrite Forall_forall in Hfin. specialize (Hfin _ Hkm). destruct m as [t|s]; [contradiction|].
      simpl in Hx, Hfin. apply in_map_iff in Hx. destruct Hx as [td [<- Htd]]. rewrite Forall_forall in Hfin. exact (Hfin _ Htd). }
    assert (E : existsb is_some (map tr_d (flat (g_mem g))) = true).
    { destruct (flat (g_mem g)) as [|x r]; [contradiction|]. inversion Hall; subst. simpl. rewrite H1. reflexivity. }
    rewrite save_group_eq, E. cbn [app]. rewrite load_group_data.
    destruct (lengths_eq g) as [L1 L2]. rewrite L1, Nat.eqb_refl. simpl negb. cbv iota.
    rewrite mk_iset_id by assumption. apply finish_ok; [assumption|].
    rewrite map_map. apply map_ext_in. intros [k m] Hin. simpl fst. unfold build_tsd.
    rewrite L2, Nat.eqb_refl. simpl negb. cbv iota.
    rewrite Forall_forall in Hmem. destruct (Hmem _ Hin) as [Hs Hi]. simpl in Hs, Hi.
    rewrite Forall_forall in Hdis. pose proof (Hdis _ Hin) as Hd. simpl in Hd.
    rewrite Forall_forall in Hfin. pose proof (Hfin _ Hin) as Hf. destruct m as [t|s]; [contradiction|].
    rewrite (member_times_sel g k (MTsd s)), (member_data_sel g k (MTsd s)); try assumption.
    destruct (ctor_rows_some None (member_times (MTsd s)) (map snd (samples (MTsd s))) (g_sup g)) as [s' Hs'];
      try assumption; [unfold member_times; rewrite !map_length; reflexivity|].
    rewrite Hs'. unfold member_times. simpl. rewrite combine_fst_snd. reflexivity.
  Qed.
End GroupCore.

Section GroupRoundTrip.
  Variable argsort : list Z -> list nat.
  (* NumPy's contract for np.argsort (any kind): the result is a permutation of the positions that sorts the array *)
  Hypothesis argsort_perm : forall l, Permutation (argsort l) (seq 0 (length l)).
  Hypothesis argsort_sorts : forall l, StronglySorted Z.le (select 0 l (argsort l)).

  Lemma sorted_triples_perm g : Permutation (sorted_triples argsort g) (flat (g_mem g)).
  Proof.
    unfold sorted_triples, g_idx. apply select_perm.
    rewrite <- (map_length tr_t (flat (g_mem g))). apply argsort_perm.
  Qed.
  Lemma sorted_triples_sorted g : sorted_by tr_t (sorted_triples argsort g).
  Proof. apply SS_map_inv. rewrite <- g_times_eq. unfold g_times, g_idx. apply argsort_sorts. Qed.

  (* the samples the reader selects for key k are exactly member k's samples, in order *)
  Lemma member_filter_contract g k m : increasing (map fst (g_mem g)) -> In (k, m) (g_mem g) ->
    sortedZ (member_times m) -> tie_free m ->
    filter (fun x => k =? tr_k x) (sorted_triples argsort g) = map (tag k) (samples m).
  Proof.
    intros Hinc Hin Hs Htf. apply (sorted_perm_eq tr_t).
    - apply sorted_by_filter. apply sorted_triples_sorted.
    - apply sorted_by_map. exact (SS_map_inv fst (samples m) (sortedZ_SS _ Hs)).
    - rewrite <- (filter_flat_key _ Hinc k m Hin). apply Permutation_filter'. apply sorted_triples_perm.
    - intros a b Ha Hb E. apply in_map_iff in Ha, Hb. destruct Ha as [a' [<- Ha]], Hb as [b' [<- Hb]].
      f_equal. apply Htf; assumption.
  Qed.

  (* a group whose members are Ts *)
  Theorem roundtrip_group_ts g : WF_group_base g -> all_ts g -> load (save argsort (OGroup g)) = Some (OGroup g).
  Proof. apply (core_group_ts argsort tie_free tie_free_ts member_filter_contract). Qed.

  (* a group whose members are Tsd with finite data, at least one sample, and no repeated timestamp inside a member *)
  Theorem roundtrip_group_tsd g : WF_group_base g -> all_tsd g -> distinct_times g ->
    load (save argsort (OGroup g)) = Some (OGroup g).
  Proof.
    intros HW Ht Hd. apply (core_group_tsd argsort tie_free member_filter_contract); try assumption.
    unfold distinct_times in Hd. eapply Forall_impl; [|exact Hd]. intros km. apply tie_free_increasing.
  Qed.
End GroupRoundTrip.


(* ================================================================================================ *)
(* 7. the argsort contract is satisfiable: insertion argsort, with either treatment of ties *)

Lemma sorted_by_SS_map {A} (f : A -> Z) l : sorted_by f l -> StronglySorted Z.le (map f l).
Proof.
  induction l as [|x r IH]; simpl; intros H; [constructor|].
  inversion H as [|? ? Hs Hf]; subst. constructor; [apply IH; exact Hs|]. rewrite Forall_map. exact Hf.
Qed.

Lemma in_combine_seq {A} (d : A) l : forall s v i, In (v, i) (combine l (seq s (length l))) ->
  (s <= i)%nat /\ nth (i - s) l d = v.
Proof.
  induction l as [|x r IH]; intros s v i Hin; simpl in Hin; [contradiction|].
  destruct Hin as [E|Hin].
  - inversion E; subst. rewrite Nat.sub_diag. split; [lia|reflexivity].
  - destruct (IH _ _ _ Hin) as [Hle Hn]. split; [lia|].
    replace (i - s)%nat with (S (i - S s)) by lia. simpl. exact Hn.
Qed.

Section ArgsortInstance.
  Variable le : Z -> Z -> bool.
  Hypothesis le_true : forall x y, le x y = true -> x <= y.
  Hypothesis le_false : forall x y, le x y = false -> y <= x.

  Lemma ins_pair_perm x l : Permutation (ins_pair le x l) (x :: l).
  Proof.
    induction l as [|y r IH]; simpl; [apply Permutation_refl|].
    destruct (le (fst x) (fst y)); [apply Permutation_refl|].
    eapply Permutation_trans; [apply perm_skip; exact IH|apply perm_swap].
  Qed.
  Lemma isort_pairs_perm l : Permutation (isort_pairs le l) l.
  Proof.
    induction l as [|x r IH]; simpl; [constructor|].
    eapply Permutation_trans; [apply ins_pair_perm|apply perm_skip; exact IH].
  Qed.
  Lemma ins_pair_sorted x l : sorted_by fst l -> sorted_by fst (ins_pair le x l).
  Proof.
    induction l as [|y r IH]; simpl; intros H; [repeat constructor|].
    inversion H as [|? ? Hs Hf]; subst.
    destruct (le (fst x) (fst y)) eqn:E.
    - constructor; [exact H|]. constructor; [apply le_true; exact E|].
      eapply Forall_impl; [|exact Hf]. simpl. intros a Ha. apply le_true in E. lia.
    - constructor; [apply IH; exact Hs|].
      eapply Permutation_Forall; [apply Permutation_sym, ins_pair_perm|].
      constructor; [apply le_false; exact E|exact Hf].
  Qed.
  Lemma isort_pairs_sorted l : sorted_by fst (isort_pairs le l).
  Proof. induction l as [|x r IH]; simpl; [constructor|]. apply ins_pair_sorted. exact IH. Qed.

  Theorem argsort_with_perm l : Permutation (argsort_with le l) (seq 0 (length l)).
  Proof.
    unfold argsort_with.
    rewrite <- (map_snd_combine l (seq 0 (length l))) at 2 by (rewrite seq_length; reflexivity).
    apply Permutation_map. apply isort_pairs_perm.
  Qed.
  Theorem argsort_with_sorts l : StronglySorted Z.le (select 0 l (argsort_with le l)).
  Proof.
    unfold argsort_with, select. rewrite map_map.
    rewrite (map_ext_in _ fst).
    - apply sorted_by_SS_map. apply isort_pairs_sorted.
    - intros [v i] Hin. simpl.
      assert (Hin' : In (v, i) (combine l (seq 0 (length l)))).
      { eapply Permutation_in; [apply isort_pairs_perm|exact Hin]. }
      destruct (in_combine_seq 0 l 0%nat v i Hin') as [_ Hn]. rewrite Nat.sub_0_r in Hn. exact Hn.
  Qed.
End ArgsortInstance.

Lemma leb_true x y : (x <=? y) = true -> x <= y.  Proof. intros H. apply Z.leb_le. exact H. Qed.
Lemma leb_false x y : (x <=? y) = false -> y <= x.  Proof. intros H. apply Z.leb_gt in H. lia. Qed.
Lemma ltb_true x y : (x <? y) = true -> x <= y.  Proof. intros H. apply Z.ltb_lt in H. lia. Qed.
Lemma ltb_false x y : (x <? y) = false -> y <= x.  Proof. intros H. apply Z.ltb_ge in H. exact H. Qed.

Theorem stable_argsort_contract :
  (forall l, Permutation (stable_argsort l) (seq 0 (length l)))
  /\ (forall l, StronglySorted Z.le (select 0 l (stable_argsort l))).
Proof. split; intros l; [apply argsort_with_perm|apply argsort_with_sorts]; auto using leb_true, leb_false. Qed.
Theorem reversing_argsort_contract :
  (forall l, Permutation (reversing_argsort l) (seq 0 (length l)))
  /\ (forall l, StronglySorted Z.le (select 0 l (reversing_argsort l))).
Proof. split; intros l; [apply argsort_with_perm|apply argsort_with_sorts]; auto using ltb_true, ltb_false. Qed.

(* ================================================================================================ *)
(* 8. where the round trip is false of the faithful model *)

(* (a) repeated timestamps inside a Tsd member: np.argsort's contract does not fix the order of ties, so the rows of
       the tied samples may come back permuted.  Witness: member 4 = Tsd(t = [0, 0], d = [1, 2]). *)
Definition dup_group : group :=
  {| g_mem := [(4, MTsd [(0, Some 1); (0, Some 2)])]; g_sup := [(0, 5)]; g_meta := [] |}.

Theorem tsgroup_duplicate_times_refuted :
  exists argsort g,
    (forall l, Permutation (argsort l) (seq 0 (length l)))
    /\ (forall l, StronglySorted Z.le (select 0 l (argsort l)))
    /\ WF_group_base g /\ all_tsd g
    /\ load (save argsort (OGroup g)) = Some (OGroup {| g_mem := [(4, MTsd [(0, Some 2); (0, Some 1)])]; g_sup := [(0, 5)]; g_meta := [] |})
    /\ load (save argsort (OGroup g)) <> Some (OGroup g).
Proof.
  exists reversing_argsort, dup_group. destruct reversing_argsort_contract as [H1 H2].
  split; [exact H1|]. split; [exact H2|].
  split; [|split; [|split]].
  - unfold WF_group_base, dup_group. simpl. repeat split; try lia; repeat constructor; simpl; try lia; try reflexivity.
  - unfold all_tsd, dup_group. simpl. split; [repeat constructor|discriminate].
  - vm_compute. reflexivity.
  - vm_compute. discriminate.
Qed.

(* (b) a group of Tsd whose members are all empty: `data` is all-NaN (empty), "d" is not written, the reader builds Ts *)
Definition empty_tsd_group : group :=
  {| g_mem := [(2, MTsd []); (7, MTsd [])]; g_sup := [(0, 5)]; g_meta := [] |}.

Theorem tsgroup_all_empty_tsd_refuted :
  WF_group_base empty_tsd_group
  /\ Forall (fun km => finite_tsd (snd km)) (g_mem empty_tsd_group)
  /\ load (save stable_argsort (OGroup empty_tsd_group))
     = Some (OGroup {| g_mem := [(2, MTs []); (7, MTs [])]; g_sup := [(0, 5)]; g_meta := [] |})
  /\ load (save stable_argsort (OGroup empty_tsd_group)) <> Some (OGroup empty_tsd_group).
Proof.
  split; [|split; [|split]].
  - unfold WF_group_base, empty_tsd_group. simpl. repeat split; try lia; repeat constructor; simpl; try lia.
  - unfold empty_tsd_group. simpl. repeat constructor.
  - vm_compute. reflexivity.
  - vm_compute. discriminate.
Qed.

(* (c) a TsdFrame with a repeated column label AND a metadata column: `_metadata.to_dict()` keeps one entry per distinct
       label, the DataFrame rebuilt on load has a shorter index than the frame has columns, set_info raises
       ("Metadata index does not match").  All the invariants of WF_frame hold; only the labels repeat. *)
Definition dup_label_frame : frame :=
  {| f_t := [1; 2; 3]; f_v := [[1; 1]; [1; 1]; [1; 1]]; f_dt := DFloat; f_sup := [(1, 3)];
     f_cols := [LStr "a"; LStr "a"]; f_meta := [("m", [MInt 1; MInt 2])] |}.

Theorem frame_duplicate_labels_refuted :
  WF_frame dup_label_frame
  /\ to_dict (f_cols dup_label_frame) (f_meta dup_label_frame) = [("m", [(LStr "a", MInt 2)])]
  /\ forall argsort, load (save argsort (OFrame dup_label_frame)) = None.
Proof.
  split; [|split].
  - unfold WF_frame, WF_series, dup_label_frame. simpl.
    repeat split; try lia; try discriminate; try (repeat constructor; simpl; try lia; reflexivity).
  - vm_compute. reflexivity.
  - intros argsort. vm_compute. reflexivity.
Qed.

(* (d) a series all of whose timestamps coincide, built without a time support: its default support
       IntervalSet(t0, t0) is empty while the samples stay (the zero-span quirk of the constructor), so the object
       violates only the `in_sup` part of WF_series.  save writes empty start / end arrays, and the constructor
       re-entered on load restricts the samples to that empty support: every sample is lost. *)
Definition zero_span_ts : ts := {| ts_t := [5]; ts_sup := [] |}.
Definition zero_span_tsd : tsd := {| d_t := [3; 3; 3]; d_v := [[0]; [1]; [2]]; d_shape := []; d_dt := DFloat; d_sup := [] |}.

Theorem zero_span_default_support_refuted :
  (sortedZ (ts_t zero_span_ts) /\ canonical (ts_sup zero_span_ts) /\ ts_t zero_span_ts <> []
   /\ forall argsort, load (save argsort (OTs zero_span_ts)) = Some (OTs {| ts_t := []; ts_sup := [] |}))
  /\ (sortedZ (d_t zero_span_tsd) /\ canonical (d_sup zero_span_tsd) /\ length (d_v zero_span_tsd) = length (d_t zero_span_tsd)
      /\ forall argsort, load (save argsort (OTsd zero_span_tsd))
                         = Some (OTsd {| d_t := []; d_v := []; d_shape := []; d_dt := DFloat; d_sup := [] |})).
Proof.
  split; (split; [simpl; repeat split; try lia; repeat constructor; simpl; lia|]);
    (split; [simpl; repeat constructor|]); (split; [simpl; try discriminate; reflexivity|]);
    intros argsort; vm_compute; reflexivity.
Qed.

(* (e) outside the quantifier (recorded, not claimed): mixed int/str column labels are cast to str on save *)
Example mixed_labels_not_preserved :
  cast_cols [LInt 1; LStr "a"] = [LStr "1"; LStr "a"].
Proof. vm_compute. reflexivity. Qed.

(* ================================================================================================ *)
(* 9. type detection: every saved object is recognised as its own class by the explicit "type" entry *)
Theorem detect_save argsort x : detect (save argsort x) = Some (class_name x).
Proof. destruct x as [a|a|a|a|g|a]; reflexivity. Qed.

(* ================================================================================================ *)
(* 10. with a STABLE argsort (np.argsort(times, kind="stable")) the Tsd-group round trip holds without the
       distinct-timestamps condition: this is what the suggested repair of TsGroup.save gives *)

Fixpoint ins_gen {B} (x : Z * B) (l : list (Z * B)) : list (Z * B) :=
  match l with [] => [x] | y :: r => if fst x <=? fst y then x :: l else y :: ins_gen x r end.
Definition isort_gen {B} (l : list (Z * B)) : list (Z * B) := fold_right ins_gen [] l.
Definition on2 {B C} (h : B -> C) (p : Z * B) : Z * C := (fst p, h (snd p)).

Lemma isort_pairs_gen l : isort_pairs Z.leb l = isort_gen l.
Proof.
  induction l as [|x r IH]; simpl; [reflexivity|]. rewrite IH. generalize (isort_gen r). clear.
  induction l as [|y l IH]; simpl; [reflexivity|]. rewrite IH. reflexivity.
Qed.

Lemma ins_gen_map {B C} (h : B -> C) x l : map (on2 h) (ins_gen x l) = ins_gen (on2 h x) (map (on2 h) l).
Proof. induction l as [|y r IH]; simpl; [reflexivity|]. destruct (fst x <=? fst y); simpl; [reflexivity|]. rewrite IH. reflexivity. Qed.
Lemma isort_gen_map {B C} (h : B -> C) l : map (on2 h) (isort_gen l) = isort_gen (map (on2 h) l).
Proof. induction l as [|x r IH]; simpl; [reflexivity|]. rewrite ins_gen_map, IH. reflexivity. Qed.

Lemma ins_gen_head {B} (x : Z * B) l : Forall (fun y => fst x <= fst y) l -> ins_gen x l = x :: l.
Proof.
  destruct l as [|y r]; simpl; intros H; [reflexivity|]. inversion H; subst.
  replace (fst x <=? fst y) with true; [reflexivity|]. symmetry. apply Z.leb_le. assumption.
Qed.
Lemma isort_gen_sorted_id {B} (l : list (Z * B)) : sorted_by fst l -> isort_gen l = l.
Proof.
  induction l as [|x r IH]; simpl; intros H; [reflexivity|]. inversion H as [|? ? Hs Hf]; subst.
  rewrite IH by exact Hs. apply ins_gen_head. exact Hf.
Qed.

Lemma ins_gen_perm {B} (x : Z * B) l : Permutation (ins_gen x l) (x :: l).
Proof.
  induction l as [|y r IH]; simpl; [apply Permutation_refl|].
  destruct (fst x <=? fst y); [apply Permutation_refl|].
  eapply Permutation_trans; [apply perm_skip; exact IH|apply perm_swap].
Qed.
Lemma ins_gen_sorted {B} (x : Z * B) l : sorted_by fst l -> sorted_by fst (ins_gen x l).
Proof.
  induction l as [|y r IH]; simpl; intros H; [repeat constructor|].
  inversion H as [|? ? Hs Hf]; subst.
  destruct (fst x <=? fst y) eqn:E.
  - apply Z.leb_le in E. constructor; [exact H|]. constructor; [exact E|].
    eapply Forall_impl; [|exact Hf]. simpl. intros a Ha. lia.
  - apply Z.leb_gt in E. constructor; [apply IH; exact Hs|].
    eapply Permutation_Forall; [apply Permutation_sym, ins_gen_perm|].
    constructor; [lia|exact Hf].
Qed.
Lemma isort_gen_sorted {B} (l : list (Z * B)) : sorted_by fst (isort_gen l).
Proof. induction l as [|x r IH]; simpl; [constructor|]. apply ins_gen_sorted. exact IH. Qed.

(* insertion sort commutes with filtering: the selected elements keep their relative order (stability) *)
Lemma filter_ins_gen {B} (q : Z * B -> bool) x l : sorted_by fst l ->
  filter q (ins_gen x l) = if q x then ins_gen x (filter q l) else filter q l.
Proof.
  induction l as [|y r IH]; intros H.
  - simpl. destruct (q x); reflexivity.
  - inversion H as [|? ? Hs Hf]; subst. simpl ins_gen. destruct (fst x <=? fst y) eqn:E.
    + apply Z.leb_le in E. change (filter q (x :: y :: r)) with (if q x then x :: filter q (y :: r) else filter q (y :: r)).
      destruct (q x); [|reflexivity]. symmetry. apply ins_gen_head.
      apply Forall_forall. intros z Hz. apply filter_In in Hz. destruct Hz as [Hz _].
      destruct Hz as [<-|Hz]; [exact E|]. rewrite Forall_forall in Hf. specialize (Hf _ Hz). simpl in Hf. lia.
    + simpl filter. rewrite (IH Hs). destruct (q y), (q x); simpl; try reflexivity. rewrite E. reflexivity.
Qed.
Lemma filter_isort_gen {B} (q : Z * B -> bool) l : filter q (isort_gen l) = isort_gen (filter q l).
Proof.
  induction l as [|x r IH]; simpl; [reflexivity|].
  rewrite filter_ins_gen by apply isort_gen_sorted. rewrite IH. destruct (q x); reflexivity.
Qed.

Lemma filter_map_comm {A B} (f : A -> B) (p : B -> bool) l : filter p (map f l) = map f (filter (fun x => p (f x)) l).
Proof. induction l as [|x r IH]; simpl; [reflexivity|]. destruct (p (f x)); simpl; rewrite IH; reflexivity. Qed.

Definition keyed (x : Z * (dval * Z)) : Z * (Z * (dval * Z)) := (tr_t x, x).

Lemma map_on2_combine {A} (d : A) (fl : list A) (f : A -> Z) : forall ix : list nat,
  Forall (fun i => (i < length fl)%nat) ix ->
  map (on2 (fun i => nth i fl d)) (combine (map (fun i => f (nth i fl d)) ix) ix) = map (fun x => (f x, x)) (map (fun i => nth i fl d) ix).
Proof. induction ix as [|i r IH]; intros H; simpl; [reflexivity|]. inversion H; subst. rewrite IH by assumption. reflexivity. Qed.

Lemma stable_sorted_triples g :
  sorted_triples stable_argsort g = map snd (isort_gen (map keyed (flat (g_mem g)))).
Proof.
  unfold sorted_triples, g_idx, stable_argsort, argsort_with, select. set (fl := flat (g_mem g)).
  rewrite isort_pairs_gen, map_length.
  assert (E : map keyed fl = map (on2 (fun i => nth i fl d0)) (combine (map tr_t fl) (seq 0 (length fl)))).
  { assert (Hts : map tr_t fl = map (fun i => tr_t (nth i fl d0)) (seq 0 (length fl))).
    { rewrite <- (select_seq_all d0 fl) at 1. unfold select. rewrite map_map. reflexivity. }
    rewrite Hts. rewrite map_on2_combine.
    - fold (select d0 fl (seq 0 (length fl))). rewrite select_seq_all. reflexivity.
    - apply Forall_forall. intros i Hi. apply in_seq in Hi. lia. }
  rewrite E, <- isort_gen_map, !map_map. apply map_ext. intros [v i]. reflexivity.
Qed.

Lemma member_filter_stable g k m : increasing (map fst (g_mem g)) -> In (k, m) (g_mem g) ->
  sortedZ (member_times m) -> True ->
  filter (fun x => k =? tr_k x) (sorted_triples stable_argsort g) = map (tag k) (samples m).
Proof.
  intros Hinc Hin Hs _. rewrite stable_sorted_triples, filter_map_comm, filter_isort_gen.
  unfold keyed at 1. rewrite (filter_map_comm keyed (fun p => k =? tr_k (snd p))). simpl snd.
  rewrite (filter_flat_key _ Hinc k m Hin).
  rewrite isort_gen_sorted_id.
  - rewrite map_map. simpl. apply map_id.
  - apply sorted_by_map. apply sorted_by_map. exact (SS_map_inv fst (samples m) (sortedZ_SS _ Hs)).
Qed.

Theorem roundtrip_group_tsd_stable g : WF_group_base g -> all_tsd g ->
  load (save stable_argsort (OGroup g)) = Some (OGroup g).
Proof.
  intros HW Ht. apply (core_group_tsd stable_argsort (fun _ => True) member_filter_stable); try assumption.
  apply Forall_forall. intros; exact I.
Qed.
