(* C11 — proofs about Model/Npz.v: generated-table checks and the save/load round trips. *)
From Coq Require Import String Sorting.Sorted Sorting.Permutation.
From Verif Require Import Base.Prelude Model.Restrict Model.Iset Gen.SitesC11 Model.Npz
  Proofs.BaseLemmas Proofs.RestrictProofs Proofs.FixIsetProofs.
Local Open Scope string_scope.
Local Open Scope list_scope.
Local Open Scope Z_scope.

(* ================================================================================================ *)
(* 1. table checks (tier S): closed boolean computations over the generated tables, lifted to statements *)

Lemma keys_cover_true : keys_cover_b = true.
Proof. vm_compute. reflexivity. Qed.
Lemma kwargs_ok_true : kwargs_ok_b = true.
Proof. vm_compute. reflexivity. Qed.
Lemma group_keys_known_true : group_keys_known_b = true.
Proof. vm_compute. reflexivity. Qed.
Lemma type_written_true : type_written_b = true.
Proof. vm_compute. reflexivity. Qed.

Lemma mem_str_In k l : mem_str k l = true <-> In k l.
Proof.
  unfold mem_str. rewrite existsb_exists. split.
  - intros [x [Hx He]]. apply String.eqb_eq in He. subst. assumption.
  - intros H. exists k. split; [assumption|apply String.eqb_refl].
Qed.

(* every key that a reader gets without a membership guard is written unconditionally by every class that
   dispatches to that reader; every guarded key is written by at least one of them *)
Theorem keys_cover : forall r slot k guarded,
  In r ["_Base"; "IntervalSet"; "TsGroup"] ->
  In (slot, ("get", (k, guarded))) (rtable_of r) ->
  if guarded then exists c, In c (classes_of r) /\ In k (wkeys c)
  else forall c, In c (classes_of r) -> In k (wkeys_uncond c).
Proof.
  intros r slot k guarded Hr He.
  pose proof keys_cover_true as H. unfold keys_cover_b in H. apply andb_true_iff in H. destruct H as [H _].
  rewrite forallb_forall in H. specialize (H r Hr). rewrite forallb_forall in H. specialize (H _ He).
  unfold read_covered in H. rewrite String.eqb_refl in H. destruct guarded.
  - apply existsb_exists in H. destruct H as [c [Hc Hk]]. exists c. split; [assumption|]. apply mem_str_In. assumption.
  - rewrite forallb_forall in H. intros c Hc. apply mem_str_In. apply H. assumption.
Qed.

Theorem type_key_cover : forall c, In c (map fst reader_of) ->
  exists kt e, slot_key r_detect "type_" "get" = Some kt /\ lookup (table_of c) kt = Some (e, "")
               /\ (e = type_expr c \/ e = "np.array([self.nap_class], dtype=np.str_)")
               /\ In c (map fst expected_entries).
Proof.
  intros c Hc. pose proof type_written_true as H. unfold type_written_b in H. apply andb_true_iff in H.
  destruct H as [H1 H2]. rewrite forallb_forall in H1, H2. specialize (H1 c Hc). specialize (H2 c Hc).
  destruct (slot_key r_detect "type_" "get") as [kt|] eqn:E1; [|discriminate].
  destruct (lookup (table_of c) kt) as [[e cd]|] eqn:E2; [|discriminate].
  apply andb_true_iff in H1. destruct H1 as [Hcd He]. apply String.eqb_eq in Hcd. subst cd.
  exists kt, e. split; [reflexivity|]. split; [exact E2|]. split.
  - apply orb_true_iff in He. destruct He as [He|He]; apply String.eqb_eq in He; [left|right]; assumption.
  - apply mem_str_In. assumption.
Qed.

Theorem kwargs_accepted : forall c params kw, In c (classes_of "_Base") -> params_of c = Some (params, kw) ->
  (forall k, In k (wkeys c) -> In k r_base_excluded \/ In k (map fst params))
  /\ (forall p, In (p, true) params -> In p (wkeys_uncond c)).
Proof.
  intros c params kw Hc Hp. pose proof kwargs_ok_true as H. unfold kwargs_ok_b in H.
  rewrite forallb_forall in H. specialize (H c Hc). rewrite Hp in H. apply andb_true_iff in H. destruct H as [H1 H2].
  rewrite forallb_forall in H1, H2. split.
  - intros k Hk. specialize (H1 k Hk). apply orb_true_iff in H1. destruct H1 as [H1|H1]; apply mem_str_In in H1; tauto.
  - intros p Hpin. specialize (H2 _ Hpin). simpl in H2. apply mem_str_In. assumption.
Qed.

Theorem group_keys_known : forall k, In k (wkeys "TsGroup") -> In k r_TsGroup_not_info.
Proof.
  intros k Hk. pose proof group_keys_known_true as H. unfold group_keys_known_b in H. rewrite forallb_forall in H.
  apply mem_str_In. apply H. assumption.
Qed.

(* ================================================================================================ *)
(* 2. list lemmas *)

Lemma sortedZ_SS l : sortedZ l -> StronglySorted Z.le l.
Proof.
  induction l as [|x r IH]; intros H; constructor.
  - apply IH. eapply sortedZ_tail. eassumption.
  - apply sortedZ_cons_Forall. assumption.
Qed.

Definition sorted_by {A} (f : A -> Z) (l : list A) : Prop := StronglySorted (fun a b => f a <= f b) l.

Lemma SS_map_inv {A} (f : A -> Z) l : StronglySorted Z.le (map f l) -> sorted_by f l.
Proof.
  induction l as [|x r IH]; simpl; intros H; [constructor|].
  inversion H as [|? ? Hs Hf]; subst. constructor; [apply IH; exact Hs|]. rewrite Forall_map in Hf. exact Hf.
Qed.

Lemma sorted_by_map {A B} (f : B -> Z) (g : A -> B) l : sorted_by (fun a => f (g a)) l -> sorted_by f (map g l).
Proof.
  induction l as [|x r IH]; simpl; intros H; [constructor|].
  inversion H as [|? ? Hs Hf]; subst. constructor; [apply IH; exact Hs|]. rewrite Forall_map. exact Hf.
Qed.

Lemma sorted_by_filter {A} (f : A -> Z) p l : sorted_by f l -> sorted_by f (filter p l).
Proof.
  induction l as [|x r IH]; simpl; intros H; [constructor|]. inversion H as [|? ? Hs Hf]; subst.
  destruct (p x); [constructor|]; auto.
  rewrite Forall_forall in *. intros y Hy. apply filter_In in Hy. apply Hf. tauto.
Qed.

Lemma Permutation_filter' {A} (p : A -> bool) l1 l2 : Permutation l1 l2 -> Permutation (filter p l1) (filter p l2).
Proof.
  induction 1; simpl.
  - constructor.
  - destruct (p x); [constructor|]; assumption.
  - destruct (p x), (p y); try apply perm_swap; apply Permutation_refl.
  - eapply Permutation_trans; eassumption.
Qed.

(* two orderings of the same samples by time coincide when samples that tie on time are equal *)
Lemma sorted_perm_eq {A} (f : A -> Z) : forall l1 l2 : list A,
  sorted_by f l1 -> sorted_by f l2 -> Permutation l1 l2 ->
  (forall a b, In a l2 -> In b l2 -> f a = f b -> a = b) -> l1 = l2.
Proof.
  induction l1 as [|a r1 IH]; intros l2 H1 H2 HP Hinj.
  - apply Permutation_nil in HP. subst. reflexivity.
  - destruct l2 as [|b r2]; [apply Permutation_sym, Permutation_nil in HP; discriminate|].
    inversion H1 as [|? ? Hs1 Hf1]; subst. inversion H2 as [|? ? Hs2 Hf2]; subst.
    rewrite Forall_forall in Hf1, Hf2.
    assert (Ha : In a (b :: r2)) by (eapply Permutation_in; [exact HP|left; reflexivity]).
    assert (Hb : In b (a :: r1)) by (eapply Permutation_in; [apply Permutation_sym; exact HP|left; reflexivity]).
    assert (E : a = b).
    { apply Hinj; [assumption|left; reflexivity|].
      assert (f b <= f a) by (destruct Ha as [->|Ha]; [lia|apply Hf2; assumption]).
      assert (f a <= f b) by (destruct Hb as [->|Hb]; [lia|apply Hf1; assumption]). lia. }
    subst b. f_equal. apply IH; try assumption.
    + eapply Permutation_cons_inv. exact HP.
    + intros x y Hx Hy. apply Hinj; right; assumption.
Qed.

Lemma select_map {A B} (f : A -> B) d l ix : select (f d) (map f l) ix = map f (select d l ix).
Proof. unfold select. rewrite map_map. apply map_ext. intros i. apply map_nth. Qed.

Lemma select_length {A} (d : A) l ix : length (select d l ix) = length ix.
Proof. unfold select. apply map_length. Qed.

Lemma select_seq_all {A} (d : A) l : select d l (seq 0 (length l)) = l.
Proof.
  unfold select. induction l as [|x r IH]; [reflexivity|]. simpl. f_equal.
  rewrite <- seq_shift, map_map. exact IH.
Qed.

Lemma select_perm {A} (d : A) l ix : Permutation ix (seq 0 (length l)) -> Permutation (select d l ix) l.
Proof.
  intros H. rewrite <- (select_seq_all d l) at 2. unfold select. apply Permutation_map. assumption.
Qed.

Lemma mask_select_map {A B} (p : Z -> bool) (k : A -> Z) (f : A -> B) (S : list A) :
  mask_select (map p (map k S)) (map f S) = map f (filter (fun x => p (k x)) S).
Proof.
  unfold mask_select. induction S as [|x r IH]; [reflexivity|]. simpl.
  destruct (p (k x)); simpl; [f_equal|]; exact IH.
Qed.

Lemma mask_select_length {A} mask (l : list A) : length mask = length l ->
  forall {B} (l2 : list B), length l2 = length l -> length (mask_select mask l) = length (mask_select mask l2).
Proof.
  unfold mask_select. revert l. induction mask as [|m r IH]; intros [|x l] H B [|y l2] H2; simpl in *; try lia; try reflexivity.
  destruct m; simpl; [f_equal|]; apply IH; lia.
Qed.

Lemma filter_all {A} (p : A -> bool) l : Forall (fun x => p x = true) l -> filter p l = l.
Proof. induction 1; simpl; [reflexivity|]. rewrite H. f_equal. assumption. Qed.
Lemma filter_none {A} (p : A -> bool) l : Forall (fun x => p x = false) l -> filter p l = [].
Proof. induction 1; simpl; [reflexivity|]. rewrite H. assumption. Qed.

Lemma combine_fst_snd {A B} (l : list (A * B)) : combine (map fst l) (map snd l) = l.
Proof. induction l as [|[a b] r IH]; simpl; [reflexivity|]. f_equal. exact IH. Qed.
Lemma map_fst_combine {A B} (a : list A) (b : list B) : length a = length b -> map fst (combine a b) = a.
Proof. revert b. induction a as [|x a IH]; intros [|y b] H; simpl in *; try lia; [reflexivity|]. f_equal. apply IH. lia. Qed.
Lemma map_snd_combine {A B} (a : list A) (b : list B) : length a = length b -> map snd (combine a b) = b.
Proof. revert b. induction a as [|x a IH]; intros [|y b] H; simpl in *; try lia; [reflexivity|]. f_equal. apply IH. lia. Qed.

Lemma increasing_NoDup l : increasing l -> NoDup l.
Proof.
  induction l as [|x r IH]; simpl; intros H; constructor; destruct H as [H1 H2].
  - intros Hin. rewrite Forall_forall in H1. specialize (H1 _ Hin). lia.
  - apply IH. assumption.
Qed.

Lemma NoDup_fst_inj {A B} (s : list (A * B)) : NoDup (map fst s) ->
  forall a b, In a s -> In b s -> fst a = fst b -> a = b.
Proof.
  induction s as [|x r IH]; simpl; intros H a b Ha Hb E; [contradiction|].
  inversion H as [|? ? Hn Hr]; subst.
  destruct Ha as [->|Ha], Hb as [->|Hb]; try reflexivity.
  - exfalso. apply Hn. rewrite E. apply in_map. assumption.
  - exfalso. apply Hn. rewrite <- E. apply in_map. assumption.
  - apply IH; assumption.
Qed.

(* ================================================================================================ *)
(* 3. constructors re-entered on load are the identity on well-formed content *)

Lemma mk_iset_id A : canonical A -> mk_iset (map fst A) (map snd A) = A.
Proof. intros H. exact (mk_iset_canonical_id A H). Qed.

Lemma restrict_idx_all t sup : sortedZ t -> canonical sup -> in_sup t sup -> restrict_idx t sup = seq 0 (length t).
Proof. intros Hs Hc Hi. rewrite restrict_idx_spec by assumption. apply filter_idx_all. exact Hi. Qed.

Lemma restrict_ts_all t sup : sortedZ t -> canonical sup -> in_sup t sup -> restrict_ts t sup = t.
Proof. intros Hs Hc Hi. unfold restrict_ts. rewrite restrict_idx_all by assumption. apply select_seq_all. Qed.

Lemma ctor_ts_times t sup : sortedZ t -> canonical sup -> in_sup t sup -> ts_t (ctor_ts t sup) = t.
Proof. intros Hs Hc Hi. destruct t as [|x r]; [reflexivity|]. unfold ctor_ts. simpl ts_t. apply restrict_ts_all; assumption. Qed.

Lemma ctor_ts_id t sup : WF_series t sup -> ctor_ts t sup = {| ts_t := t; ts_sup := sup |}.
Proof.
  intros (Hs & Hi & Hc & He). destruct t as [|x r].
  - rewrite (He eq_refl). reflexivity.
  - unfold ctor_ts. rewrite restrict_ts_all by assumption. reflexivity.
Qed.

Lemma ctor_rows_some {A} (d : A) t rows sup : sortedZ t -> canonical sup -> in_sup t sup -> length rows = length t ->
  exists s', ctor_rows d t rows sup = Some (t, rows, s').
Proof.
  intros Hs Hc Hi Hl. unfold ctor_rows. rewrite <- Hl, Nat.eqb_refl. simpl negb. cbv iota.
  destruct t as [|x r].
  - destruct rows; [|discriminate]. eexists. reflexivity.
  - rewrite restrict_idx_all by assumption. rewrite select_seq_all. rewrite <- Hl, select_seq_all. eexists. reflexivity.
Qed.

Lemma ctor_rows_id {A} (d : A) t rows sup : WF_series t sup -> length rows = length t ->
  ctor_rows d t rows sup = Some (t, rows, sup).
Proof.
  intros (Hs & Hi & Hc & He) Hl. unfold ctor_rows. rewrite <- Hl, Nat.eqb_refl. simpl negb. cbv iota.
  destruct t as [|x r].
  - destruct rows; [|discriminate]. rewrite (He eq_refl). reflexivity.
  - rewrite restrict_idx_all by assumption. rewrite select_seq_all. rewrite <- Hl, select_seq_all. reflexivity.
Qed.

(* ================================================================================================ *)
(* 4. metadata: to_dict then from_dict + set_info *)

Lemma label_eqb_refl a : label_eqb a a = true.
Proof. destruct a; simpl; [apply Z.eqb_refl|apply String.eqb_refl]. Qed.
Lemma labels_eqb_refl l : labels_eqb l l = true.
Proof. induction l as [|a r IH]; simpl; [reflexivity|]. rewrite label_eqb_refl, IH. reflexivity. Qed.

Lemma set_info_to_dict idx m : WF_meta (length idx) m -> m <> [] -> set_info idx (to_dict idx m) = Some m.
Proof.
  intros H Hne. unfold set_info, from_dict.
  assert (Hm : map (fun ckv : string * list (label * mval) => (fst ckv, map snd (snd ckv))) (to_dict idx m) = m).
  { unfold to_dict. rewrite map_map. induction H as [|[c vs] r Hc Hr IH]; simpl; [reflexivity|].
    simpl in Hc. rewrite map_snd_combine by lia. f_equal. apply IH. }
  assert (Hi : forall ckv, In ckv (to_dict idx m) -> map fst (snd ckv) = idx).
  { intros ckv Hin. unfold to_dict in Hin. apply in_map_iff in Hin. destruct Hin as [[c vs] [<- Hin]]. simpl.
    unfold WF_meta in H. rewrite Forall_forall in H. specialize (H _ Hin). simpl in H. apply map_fst_combine. lia. }
  rewrite Hm.
  assert (E : match to_dict idx m with [] => [] | ckv :: _ => map fst (snd ckv) end = idx).
  { destruct (to_dict idx m) as [|ckv r] eqn:Et.
    - destruct m; [contradiction|discriminate].
    - apply Hi. left. reflexivity. }
  rewrite E, labels_eqb_refl. simpl.
  replace (forallb (fun ckv : string * list (label * mval) => labels_eqb (map fst (snd ckv)) idx) (to_dict idx m)) with true; [reflexivity|].
  symmetry. apply forallb_forall. intros ckv Hin. rewrite (Hi _ Hin). apply labels_eqb_refl.
Qed.

Lemma to_dict_nil idx m : to_dict idx m = [] -> m = [].
Proof. destruct m; [reflexivity|discriminate]. Qed.

(* the metadata step of all three readers, on a file whose "_metadata" entry is to_dict idx m *)
Lemma meta_roundtrip idx m : WF_meta (length idx) m ->
  match to_dict idx m with [] => Some [] | _ :: _ => set_info idx (to_dict idx m) end = Some m.
Proof.
  intros H. destruct (to_dict idx m) eqn:E.
  - apply to_dict_nil in E. subst. reflexivity.
  - rewrite <- E. apply set_info_to_dict; [assumption|]. intros ->. discriminate.
Qed.

(* ================================================================================================ *)
(* 5. Ts, Tsd, TsdTensor, TsdFrame, IntervalSet *)

Section RoundTrip.
  Variable argsort : list Z -> list nat.

  Lemma save_ts_eq x : save argsort (OTs x) =
    [("t", FFloat1 (ts_t x)); ("start", FFloat1 (map fst (ts_sup x))); ("end", FFloat1 (map snd (ts_sup x)));
     ("type", FStr1 ["Ts"])].
  Proof. reflexivity. Qed.
  Lemma load_ts_eq t ss es :
    load [("t", FFloat1 t); ("start", FFloat1 ss); ("end", FFloat1 es); ("type", FStr1 ["Ts"])]
    = Some (OTs (ctor_ts t (mk_iset ss es))).
  Proof. reflexivity. Qed.

  Theorem roundtrip_ts x : WF_ts x -> load (save argsort (OTs x)) = Some (OTs x).
  Proof.
    intros H. rewrite save_ts_eq, load_ts_eq. destruct x as [t sup]. unfold WF_ts in H. simpl in *.
    assert (Hc : canonical sup) by (destruct H as (_ & _ & Hc & _); exact Hc).
    rewrite mk_iset_id by assumption. rewrite ctor_ts_id by assumption. reflexivity.
  Qed.

  Lemma save_tsd_eq x : save argsort (OTsd x) =
    [("t", FFloat1 (d_t x)); ("d", FData (d_dt x) (d_shape x) (d_v x)); ("start", FFloat1 (map fst (d_sup x)));
     ("end", FFloat1 (map snd (d_sup x))); ("type", FStr1 ["Tsd"])].
  Proof. reflexivity. Qed.
  Lemma load_tsd_eq t dt v ss es :
    load [("t", FFloat1 t); ("d", FData dt [] v); ("start", FFloat1 ss); ("end", FFloat1 es); ("type", FStr1 ["Tsd"])]
    = match ctor_rows [] t v (mk_iset ss es) with
      | Some (t', v', s') => Some (OTsd {| d_t := t'; d_v := v'; d_shape := []; d_dt := dt; d_sup := s' |})
      | None => None end.
  Proof. reflexivity. Qed.

  Theorem roundtrip_tsd x : WF_tsd x -> load (save argsort (OTsd x)) = Some (OTsd x).
  Proof.
    intros (H & Hl & Hsh). rewrite save_tsd_eq. destruct x as [t v sh dt sup]. simpl in *. subst sh.
    rewrite load_tsd_eq.
    assert (Hc : canonical sup) by (destruct H as (_ & _ & Hc & _); exact Hc).
    rewrite mk_iset_id by assumption. rewrite ctor_rows_id by assumption. reflexivity.
  Qed.

  Lemma save_tensor_eq x : save argsort (OTensor x) =
    [("t", FFloat1 (d_t x)); ("d", FData (d_dt x) (d_shape x) (d_v x)); ("start", FFloat1 (map fst (d_sup x)));
     ("end", FFloat1 (map snd (d_sup x))); ("type", FStr1 ["TsdTensor"])].
  Proof. reflexivity. Qed.
  Lemma load_tensor_eq t dt n1 n2 sh v ss es :
    load [("t", FFloat1 t); ("d", FData dt (n1 :: n2 :: sh) v); ("start", FFloat1 ss); ("end", FFloat1 es);
          ("type", FStr1 ["TsdTensor"])]
    = match ctor_rows [] t v (mk_iset ss es) with
      | Some (t', v', s') => Some (OTensor {| d_t := t'; d_v := v'; d_shape := n1 :: n2 :: sh; d_dt := dt; d_sup := s' |})
      | None => None end.
  Proof. reflexivity. Qed.

  Theorem roundtrip_tensor x : WF_tensor x -> load (save argsort (OTensor x)) = Some (OTensor x).
  Proof.
    intros (H & Hl & Hsh). rewrite save_tensor_eq. destruct x as [t v sh dt sup]. simpl in *.
    destruct sh as [|n1 [|n2 sh]]; simpl in Hsh; try lia.
    rewrite load_tensor_eq.
    assert (Hc : canonical sup) by (destruct H as (_ & _ & Hc & _); exact Hc).
    rewrite mk_iset_id by assumption. rewrite ctor_rows_id by assumption. reflexivity.
  Qed.

  Lemma save_frame_eq x : save argsort (OFrame x) =
    [("t", FFloat1 (f_t x)); ("d", FData (f_dt x) [length (f_cols x)] (f_v x)); ("start", FFloat1 (map fst (f_sup x)));
     ("end", FFloat1 (map snd (f_sup x))); ("columns", FLabels (cast_cols (f_cols x))); ("type", FStr1 ["TsdFrame"]);
     ("_metadata", FDict (to_dict (f_cols x) (f_meta x)))].
  Proof. reflexivity. Qed.
  Lemma load_frame_eq t dt n v ss es cl md :
    load [("t", FFloat1 t); ("d", FData dt [n] v); ("start", FFloat1 ss); ("end", FFloat1 es); ("columns", FLabels cl);
          ("type", FStr1 ["TsdFrame"]); ("_metadata", FDict md)]
    = match ctor_rows [] t v (mk_iset ss es) with
      | Some (t', v', s') =>
          let cl' := if (length cl =? n)%nat then cl else arange_labels n in
          match (match md with [] => Some [] | _ :: _ => set_info cl' md end) with
          | Some m => Some (OFrame {| f_t := t'; f_v := v'; f_dt := dt; f_sup := s'; f_cols := cl'; f_meta := m |})
          | None => None end
      | None => None end.
  Proof.
    destruct md; (destruct (ctor_rows [] t v (mk_iset ss es)) as [[[t' v'] s']|] eqn:E;
      [destruct (length cl =? n)%nat eqn:E2|]; unfold load; cbn -[ctor_rows mk_iset set_info Nat.eqb]; rewrite ?E, ?E2; reflexivity).
  Qed.

  Lemma cast_cols_homogeneous c : homogeneous c -> cast_cols c = c.
  Proof.
    intros [H|H]; unfold cast_cols.
    - destruct (existsb is_str c); [|reflexivity].
      induction H as [|l r Hl Hr IH]; simpl; [reflexivity|]. destruct l; [discriminate|]. simpl. f_equal. exact IH.
    - replace (existsb is_str c) with false; [reflexivity|]. symmetry.
      induction H as [|l r Hl Hr IH]; simpl; [reflexivity|]. rewrite Hl. exact IH.
  Qed.

  Theorem roundtrip_frame x : WF_frame x -> load (save argsort (OFrame x)) = Some (OFrame x).
  Proof.
    intros (H & Hl & Hh & Hm). rewrite save_frame_eq. destruct x as [t v dt sup cols meta]. simpl in *.
    rewrite load_frame_eq.
    assert (Hc : canonical sup) by (destruct H as (_ & _ & Hc & _); exact Hc).
    rewrite mk_iset_id by assumption. rewrite ctor_rows_id by assumption.
    rewrite cast_cols_homogeneous by assumption. rewrite Nat.eqb_refl. cbv zeta.
    rewrite meta_roundtrip by assumption. reflexivity.
  Qed.

  Lemma save_iset_eq x : save argsort (OIset x) =
    [("start", FFloat1 (map fst (i_iv x))); ("end", FFloat1 (map snd (i_iv x))); ("type", FStr1 ["IntervalSet"]);
     ("_metadata", FDict (to_dict (map LInt (seqZ (length (i_iv x)))) (i_meta x)))].
  Proof. reflexivity. Qed.
  Lemma load_iset_eq ss es md :
    load [("start", FFloat1 ss); ("end", FFloat1 es); ("type", FStr1 ["IntervalSet"]); ("_metadata", FDict md)]
    = let iv := mk_iset ss es in
      match (match md with [] => Some [] | _ :: _ => set_info (map LInt (seqZ (length iv))) md end) with
      | Some m => Some (OIset {| i_iv := iv; i_meta := m |})
      | None => None end.
  Proof. destruct md; reflexivity. Qed.

  Theorem roundtrip_iset x : WF_iset x -> load (save argsort (OIset x)) = Some (OIset x).
  Proof.
    intros (Hc & Hm). rewrite save_iset_eq. destruct x as [iv meta]. simpl in *.
    rewrite load_iset_eq. rewrite mk_iset_id by assumption. cbv zeta.
    assert (Hlen : length (map LInt (seqZ (length iv))) = length iv).
    { unfold seqZ. rewrite !map_length, seq_length. reflexivity. }
    rewrite meta_roundtrip by (rewrite Hlen; assumption). reflexivity.
  Qed.
End RoundTrip.
