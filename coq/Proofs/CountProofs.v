(* Proofs about the binned count / bin_average models (Model/Count.v). *)
From Verif Require Import Base.Prelude Model.Restrict Model.Count Proofs.BaseLemmas Proofs.RestrictProofs.
From Coq Require Import ZifyBool.

(* ------------------------------------------------------------------ *)
(* generic list facts                                                  *)
(* ------------------------------------------------------------------ *)
Lemma filter_none {A} (p : A -> bool) l : Forall (fun x => p x = false) l -> filter p l = [].
Proof.
  induction l as [|x r IH]; intros H; simpl; [reflexivity|].
  inversion H as [|? ? Hx Hr]; subst. rewrite Hx. apply IH; assumption.
Qed.

Lemma filter_all {A} (p : A -> bool) l : Forall (fun x => p x = true) l -> filter p l = l.
Proof.
  induction l as [|x r IH]; intros H; simpl; [reflexivity|].
  inversion H as [|? ? Hx Hr]; subst. rewrite Hx. f_equal. apply IH; assumption.
Qed.

Lemma filter_length_count {A} (p : A -> bool) l : length (filter p l) = count_if p l.
Proof. induction l as [|x r IH]; simpl; [reflexivity|]. destruct (p x); simpl; rewrite IH; reflexivity. Qed.

Lemma filter_combine_count (p : Z -> bool) ts : forall vs : list Z,
  length vs = length ts ->
  length (filter (fun tv => p (fst tv)) (combine ts vs)) = count_if p ts.
Proof.
  induction ts as [|t r IH]; intros vs Hl; destruct vs as [|v vs]; simpl in *; try lia.
  destruct (p t); simpl; rewrite IH by lia; reflexivity.
Qed.

Lemma map_fst_combine_eq (ts : list Z) : forall vs : list Z,
  length vs = length ts -> map fst (combine ts vs) = ts.
Proof.
  induction ts as [|t r IH]; intros vs Hl; destruct vs as [|v vs]; simpl in *; try lia; [reflexivity|].
  f_equal. apply IH. lia.
Qed.

Lemma filter_combine_self_snd (p : Z -> bool) ts :
  map snd (filter (fun tr : Z * Z => p (fst tr)) (combine ts ts)) = filter p ts.
Proof. induction ts as [|t r IH]; simpl; [reflexivity|]. destruct (p t); simpl; rewrite IH; reflexivity. Qed.

Lemma combine_filter_snd (p : Z -> bool) ts : forall vs : list Z,
  length vs = length ts ->
  combine (filter p ts) (map snd (filter (fun tr => p (fst tr)) (combine ts vs)))
  = filter (fun tr => p (fst tr)) (combine ts vs).
Proof.
  induction ts as [|t r IH]; intros vs Hl; destruct vs as [|v vs]; simpl in *; try lia; [reflexivity|].
  destruct (p t); simpl; [f_equal|]; apply IH; lia.
Qed.

Lemma combine_map_self {A B} (g : A -> B) l : combine l (map g l) = map (fun x => (x, g x)) l.
Proof. induction l as [|x r IH]; simpl; [reflexivity|]. rewrite IH. reflexivity. Qed.

(* selecting by the indices of a filter = the filter *)
Lemma select_ts p ts : select 0 ts (filter_idx p 0%nat ts) = filter p ts.
Proof.
  pose proof (select_filter_idx 0 p ts [] ts eq_refl) as H. simpl in H.
  rewrite H. apply filter_combine_self_snd.
Qed.

Lemma select_rows p ts vs : length vs = length ts ->
  combine (select 0 ts (filter_idx p 0%nat ts)) (select 0 vs (filter_idx p 0%nat ts))
  = filter (fun tr => p (fst tr)) (combine ts vs).
Proof.
  intros Hl. rewrite select_ts.
  pose proof (select_filter_idx 0 p ts [] vs Hl) as H. simpl in H. rewrite H.
  apply combine_filter_snd. exact Hl.
Qed.

(* ------------------------------------------------------------------ *)
(* arithmetic of the bin grid                                          *)
(* ------------------------------------------------------------------ *)
Lemma n_reported_cases s e b : 0 < b ->
  (2 * (e - s) < b /\ n_reported s e b = 0%nat)
  \/ (exists q, 0 <= q /\ Z.of_nat (n_reported s e b) = q + 1
                /\ 2 * b * q <= 2 * (e - s) - b < 2 * b * (q + 1)).
Proof.
  intros Hb. unfold n_reported. destruct (2 * (e - s) <? b) eqn:E.
  - left. split; [lia|reflexivity].
  - right. set (d := 2 * (e - s) - b). assert (Hd : 0 <= d) by (unfold d; lia).
    exists (d / (2 * b)).
    pose proof (Z.div_mod d (2 * b) ltac:(lia)) as Hdm.
    pose proof (Z.mod_pos_bound d (2 * b) ltac:(lia)) as Hm.
    assert (Hq : 0 <= d / (2 * b)) by (apply Z.div_pos; lia).
    split; [exact Hq|]. split; [lia|]. lia.
Qed.

Lemma n_reported_in s e b k : 0 < b -> (k < n_reported s e b)%nat ->
  2 * (s + Z.of_nat k * b) + b <= 2 * e.
Proof.
  intros Hb Hk. destruct (n_reported_cases s e b Hb) as [[_ H0]|(q & Hq & Hn & Hlo & Hhi)]; [lia|].
  assert (Z.of_nat k * b <= q * b) by (apply Z.mul_le_mono_nonneg_r; lia).
  lia.
Qed.

Lemma n_reported_out s e b : 0 < b ->
  2 * e < 2 * (s + Z.of_nat (n_reported s e b) * b) + b.
Proof.
  intros Hb. destruct (n_reported_cases s e b Hb) as [[Hlt H0]|(q & Hq & Hn & Hlo & Hhi)].
  - rewrite H0. lia.
  - rewrite Hn. lia.
Qed.

(* the kernel's fuel is enough: a ceil/floor inequality *)
Lemma n_reported_le_nb_bins s e b : 0 < b -> (n_reported s e b <= nb_bins s e b)%nat.
Proof.
  intros Hb. destruct (n_reported_cases s e b Hb) as [[_ H0]|(q & Hq & Hn & Hlo & Hhi)]; [lia|].
  unfold nb_bins, cdiv. destruct (b <? e - s) eqn:E.
  - set (a := e + b - s + b - 1).
    pose proof (Z.div_mod a b ltac:(lia)) as Hdm.
    pose proof (Z.mod_pos_bound a b ltac:(lia)) as Hm.
    set (m := a / b) in *.
    assert (Hqm : q + 1 <= m).
    { assert (b * (q + 1) < b * (m + 1)) by (unfold a in *; lia).
      assert (q + 1 < m + 1) by (apply (Z.mul_lt_mono_pos_l b); lia). lia. }
    lia.
  - assert (q = 0) by nia. lia.
Qed.

(* ------------------------------------------------------------------ *)
(* generic (keyed) version of the span / bins loops                    *)
(* ------------------------------------------------------------------ *)
Section Keyed.
  Context {A : Type} (key : A -> Z).

  Fixpoint span_k (rb : Z) (l : list A) : list A * list A :=
    match l with
    | [] => ([], [])
    | x :: r => if key x <? rb then let '(a, c) := span_k rb r in (x :: a, c) else ([], l)
    end.

  Fixpoint bins_k (fuel : nat) (lb e b : Z) (l : list A) : list (Z * list A) :=
    match fuel with
    | O => []
    | S f =>
        if 2 * e <? 2 * lb + b then []
        else let '(inside, rest) := span_k (lb + b) l in
             (2 * lb + b, inside) :: bins_k f (lb + b) e b rest
    end.

  Lemma filter_sorted_k (p : A -> bool) l : forall lo,
    sorted_from lo (map key l) -> sorted_from lo (map key (filter p l)).
  Proof.
    induction l as [|x r IH]; intros lo H; simpl; [exact I|].
    simpl in H. destruct H as [H1 H2]. destruct (p x); simpl.
    - split; [assumption|]. apply IH; assumption.
    - apply IH. eapply sorted_from_weaken; eassumption.
  Qed.

  Lemma filter_sortedZ_k (p : A -> bool) l : sortedZ (map key l) -> sortedZ (map key (filter p l)).
  Proof.
    destruct l as [|x r]; simpl; [auto|]. intros H.
    destruct (p x).
    - simpl. apply filter_sorted_k. exact H.
    - eapply sortedZ_from. apply filter_sorted_k. exact H.
  Qed.

  Lemma span_k_spec rb l : sortedZ (map key l) ->
    span_k rb l = (filter (fun x => key x <? rb) l, filter (fun x => negb (key x <? rb)) l).
  Proof.
    induction l as [|x r IH]; intros Hs; [reflexivity|].
    cbn [span_k filter]. destruct (key x <? rb) eqn:E; cbn [negb].
    - rewrite IH by (eapply sortedZ_tail; exact Hs). reflexivity.
    - cbn [map] in Hs. apply sortedZ_cons_Forall in Hs.
      assert (Hr : Forall (fun y => rb <= key y) r).
      { apply Forall_forall. intros y Hy. rewrite Forall_forall in Hs.
        specialize (Hs (key y) (in_map key _ _ Hy)). lia. }
      rewrite filter_none, filter_all; [reflexivity| |].
      + eapply Forall_impl'; [|exact Hr]. intros y Hy. cbv beta in *. lia.
      + eapply Forall_impl'; [|exact Hr]. intros y Hy. cbv beta in *. lia.
  Qed.

  Lemma bins_k_spec e b : 0 < b -> forall n fuel lb l,
    (n <= fuel)%nat ->
    (forall k, (k < n)%nat -> 2 * (lb + Z.of_nat k * b) + b <= 2 * e) ->
    2 * e < 2 * (lb + Z.of_nat n * b) + b ->
    sortedZ (map key l) -> Forall (fun x => lb <= key x) l ->
    bins_k fuel lb e b l
    = map (fun k => (2 * (lb + Z.of_nat k * b) + b,
                     filter (fun x => in_bin (lb + Z.of_nat k * b) b (key x)) l))
          (seq 0 n).
  Proof.
    intros Hb. induction n as [|n IH]; intros fuel lb l Hf Hin Hout Hs Hge.
    - destruct fuel; [reflexivity|]. cbn [bins_k].
      destruct (2 * e <? 2 * lb + b) eqn:E; [reflexivity|]. lia.
    - destruct fuel; [lia|]. cbn [bins_k].
      destruct (2 * e <? 2 * lb + b) eqn:E.
      { specialize (Hin 0%nat ltac:(lia)). lia. }
      rewrite span_k_spec by assumption. cbv beta iota.
      cbn [seq map]. f_equal.
      + f_equal; [lia|]. apply filter_ext_in. intros x Hx.
        rewrite Forall_forall in Hge. specialize (Hge x Hx). unfold in_bin. lia.
      + rewrite <- seq_shift, map_map.
        rewrite (IH fuel (lb + b)).
        * apply map_ext. intros k.
          replace (lb + Z.of_nat (S k) * b) with (lb + b + Z.of_nat k * b) by lia.
          f_equal. rewrite filter_filter. apply filter_ext. intros x. unfold in_bin.
          assert (0 <= Z.of_nat k * b) by (apply Z.mul_nonneg_nonneg; lia). lia.
        * lia.
        * intros k Hk. specialize (Hin (S k) ltac:(lia)). lia.
        * lia.
        * apply filter_sortedZ_k. exact Hs.
        * apply Forall_forall. intros x Hx. apply filter_In in Hx. destruct Hx as [_ Hx]. lia.
  Qed.

  (* per-interval statement with the kernel's own fuel *)
  Lemma bins_k_interval s e b l : 0 < b ->
    sortedZ (map key l) -> Forall (fun x => s <= key x) l ->
    bins_k (nb_bins s e b) s e b l
    = map (fun k => (2 * (s + Z.of_nat k * b) + b,
                     filter (fun x => in_bin (s + Z.of_nat k * b) b (key x)) l))
          (seq 0 (n_reported s e b)).
  Proof.
    intros Hb Hs Hge. apply bins_k_spec; try assumption.
    - apply n_reported_le_nb_bins; assumption.
    - intros k Hk. apply n_reported_in; assumption.
    - apply n_reported_out; assumption.
  Qed.
End Keyed.

(* the model's loops are the keyed loops *)
Lemma span_lt_k rb ts : span_lt rb ts = span_k (fun t => t) rb ts.
Proof.
  induction ts as [|t r IH]; [reflexivity|]. cbn [span_lt span_k]. rewrite IH. reflexivity.
Qed.

Lemma bins_go_k fuel : forall lb e b ts, bins_go fuel lb e b ts = bins_k (fun t => t) fuel lb e b ts.
Proof.
  induction fuel as [|f IH]; intros lb e b ts; [reflexivity|].
  cbn [bins_go bins_k]. rewrite span_lt_k.
  destruct (span_k (fun t => t) (lb + b) ts) as [a c]. rewrite IH. reflexivity.
Qed.

Lemma span_lt_rows_k rb rows : span_lt_rows rb rows = span_k (@fst Z Z) rb rows.
Proof.
  induction rows as [|[t v] r IH]; [reflexivity|]. cbn [span_lt_rows span_k fst]. rewrite IH. reflexivity.
Qed.

Lemma bins_rows_go_k fuel : forall lb e b rows,
  bins_rows_go fuel lb e b rows = bins_k (@fst Z Z) fuel lb e b rows.
Proof.
  induction fuel as [|f IH]; intros lb e b rows; [reflexivity|].
  cbn [bins_rows_go bins_k]. rewrite span_lt_rows_k.
  destruct (span_k (@fst Z Z) (lb + b) rows) as [a c]. rewrite IH. reflexivity.
Qed.

(* ------------------------------------------------------------------ *)
(* 1. count                                                            *)
(* ------------------------------------------------------------------ *)
Lemma samples_per_interval_spec ts ep : sortedZ ts -> canonical ep ->
  samples_per_interval ts ep = map (fun iv => filter (fun t => inb t iv) ts) ep.
Proof.
  intros Hs Hc. destruct (canonical_canon _ Hc) as [lo Hlo].
  unfold samples_per_interval.
  destruct (scan_spec ep lo 0%nat ts Hlo Hs) as [H _].
  { apply Forall_forall; intros; right; exact I. }
  rewrite H, map_map. apply map_ext. intros iv. apply select_ts.
Qed.

Theorem count_binned_spec : forall ts ep b,
  0 < b -> sortedZ ts -> canonical ep -> count_binned ts ep b = count_spec ts ep b.
Proof.
  intros ts ep b Hb Hs Hc. unfold count_binned, count_spec.
  rewrite samples_per_interval_spec by assumption.
  rewrite combine_map_self, map_map. f_equal. apply map_ext. intros [s e].
  unfold count_spec_interval.
  rewrite bins_go_k, bins_k_interval; try assumption.
  - rewrite map_map. apply map_ext. intros j. cbv zeta. f_equal.
    rewrite filter_filter, filter_length_count. reflexivity.
  - rewrite map_id. apply filter_sortedZ. exact Hs.
  - apply Forall_forall. intros x Hx. apply filter_In in Hx. destruct Hx as [_ Hx].
    unfold inb in Hx. cbn [fst snd] in Hx. lia.
Qed.

(* ------------------------------------------------------------------ *)
(* 2. bin_average (count and sum per bin)                              *)
(* ------------------------------------------------------------------ *)
Lemma rows_per_interval_spec ts vs ep : sortedZ ts -> canonical ep -> length vs = length ts ->
  rows_per_interval ts vs ep
  = map (fun iv => filter (fun tv => inb (fst tv) iv) (combine ts vs)) ep.
Proof.
  intros Hs Hc Hl. destruct (canonical_canon _ Hc) as [lo Hlo].
  unfold rows_per_interval.
  destruct (scan_spec ep lo 0%nat ts Hlo Hs) as [H _].
  { apply Forall_forall; intros; right; exact I. }
  rewrite H, map_map. apply map_ext. intros iv.
  apply (select_rows (fun x => inb x iv)). exact Hl.
Qed.

Lemma map_fst_filter (p : Z -> bool) (rows : list (Z * Z)) :
  map fst (filter (fun tv => p (fst tv)) rows) = filter p (map fst rows).
Proof.
  induction rows as [|x r IH]; simpl; [reflexivity|].
  destruct (p (fst x)); simpl; rewrite IH; reflexivity.
Qed.

Theorem bin_sum_cnt_spec : forall ts vs ep b,
  0 < b -> sortedZ ts -> canonical ep -> length vs = length ts ->
  bin_sum_cnt ts vs ep b
  = concat (map (fun '(s, e) =>
       map (fun j => let l := s + Z.of_nat j * b in
              (2 * l + b,
               (count_if (fun t => inb t (s, e) && in_bin l b t) ts,
                sumZ (map snd (filter (fun tv => inb (fst tv) (s, e) && in_bin l b (fst tv))
                                      (combine ts vs))))))
           (seq 0 (n_reported s e b))) ep).
Proof.
  intros ts vs ep b Hb Hs Hc Hl. unfold bin_sum_cnt.
  rewrite rows_per_interval_spec by assumption.
  rewrite combine_map_self, map_map. f_equal. apply map_ext. intros [s e].
  rewrite bins_rows_go_k, bins_k_interval; try assumption.
  - rewrite map_map. apply map_ext. intros j. cbv zeta. f_equal.
    rewrite filter_filter. f_equal.
    apply (filter_combine_count (fun t => inb t (s, e) && in_bin (s + Z.of_nat j * b) b t)).
    exact Hl.
  - rewrite (map_fst_filter (fun t => inb t (s, e))), map_fst_combine_eq by exact Hl. apply filter_sortedZ. exact Hs.
  - apply Forall_forall. intros x Hx. apply filter_In in Hx. destruct Hx as [_ Hx].
    unfold inb in Hx. cbn [fst snd] in Hx. lia.
Qed.

(* ------------------------------------------------------------------ *)
(* 3-5. properties of the grid                                         *)
(* ------------------------------------------------------------------ *)
Theorem bins_disjoint : forall s b j j' t,
  0 < b -> j <> j' ->
  in_bin (s + Z.of_nat j * b) b t && in_bin (s + Z.of_nat j' * b) b t = false.
Proof.
  intros s b j j' t Hb Hne. unfold in_bin.
  assert (Hcases : (Z.of_nat j + 1 <= Z.of_nat j') \/ (Z.of_nat j' + 1 <= Z.of_nat j)) by lia.
  destruct Hcases as [H|H].
  - assert ((Z.of_nat j + 1) * b <= Z.of_nat j' * b) by (apply Z.mul_le_mono_nonneg_r; lia). lia.
  - assert ((Z.of_nat j' + 1) * b <= Z.of_nat j * b) by (apply Z.mul_le_mono_nonneg_r; lia). lia.
Qed.

Theorem centres_in_interval : forall s e b j,
  0 < b -> (j < n_reported s e b)%nat ->
  2 * s <= 2 * (s + Z.of_nat j * b) + b <= 2 * e.
Proof.
  intros s e b j Hb Hj. split.
  - assert (0 <= Z.of_nat j * b) by (apply Z.mul_nonneg_nonneg; lia). lia.
  - apply n_reported_in; assumption.
Qed.

Theorem counted_iff : forall s e b t,
  0 < b -> s <= t <= e ->
  ((exists j, (j < n_reported s e b)%nat /\ in_bin (s + Z.of_nat j * b) b t = true)
   <-> t < s + Z.of_nat (n_reported s e b) * b).
Proof.
  intros s e b t Hb Ht. set (n := n_reported s e b). split.
  - intros (j & Hj & Hin). unfold in_bin in Hin.
    assert ((Z.of_nat j + 1) * b <= Z.of_nat n * b) by (apply Z.mul_le_mono_nonneg_r; lia). lia.
  - intros Hlt.
    pose proof (Z.div_mod (t - s) b ltac:(lia)) as Hdm.
    pose proof (Z.mod_pos_bound (t - s) b ltac:(lia)) as Hm.
    assert (Hq : 0 <= (t - s) / b) by (apply Z.div_pos; lia).
    set (q := (t - s) / b) in *.
    exists (Z.to_nat q). rewrite Z2Nat.id by exact Hq. split.
    + assert (q < Z.of_nat n); [|lia].
      apply (Z.mul_lt_mono_pos_l b); lia.
    + unfold in_bin. lia.
Qed.

Print Assumptions count_binned_spec.
Print Assumptions bin_sum_cnt_spec.
Print Assumptions bins_disjoint.
Print Assumptions centres_in_interval.
Print Assumptions counted_iff.
