(* Field-valued part of Model/Spectrum.v: sums, Parseval, one-sided totals, averaging.
   K is an arbitrary field (Leibniz equality) of characteristic 0; the laws of the external DFT are
   hypotheses of each theorem, stated at the signal they are used for. *)
From Coq Require Import QArith Permutation Lia Field_theory Field.
From Verif Require Import Base.Prelude Model.Restrict Model.Count Model.Slice Model.Spectrum.
Open Scope Z_scope.

(* ---- field-independent list facts ---- *)
Lemma map_snd_combine {A B : Type} (l1 : list A) (l2 : list B) :
  length l1 = length l2 -> map snd (combine l1 l2) = l2.
Proof.
  revert l2. induction l1 as [|a l1 IH]; intros [|b l2] H; simpl in *; try discriminate; auto.
  f_equal. apply IH. congruence.
Qed.

Lemma insert_k_perm {V : Type} (kv : Z * V) l : Permutation (insert_k kv l) (kv :: l).
Proof.
  induction l as [|x r IH]; simpl.
  - apply Permutation_refl.
  - destruct (fst kv <=? fst x).
    + apply Permutation_refl.
    + eapply perm_trans. apply perm_skip. apply IH. apply perm_swap.
Qed.

Lemma sort_k_perm {V : Type} (l : list (Z * V)) : Permutation (sort_k l) l.
Proof.
  induction l as [|x r IH]; simpl.
  - apply perm_nil.
  - eapply perm_trans. apply insert_k_perm. apply perm_skip. exact IH.
Qed.

Lemma zrange_length a len : length (zrange a len) = len.
Proof. unfold zrange. rewrite map_length, seq_length. reflexivity. Qed.

Lemma half_sum n : ((n + 1) / 2 + n / 2 = n)%nat.
Proof.
  pose proof (Nat.div_mod (n + 1) 2 ltac:(lia)).
  pose proof (Nat.div_mod n 2 ltac:(lia)).
  pose proof (Nat.mod_upper_bound (n + 1) 2 ltac:(lia)).
  pose proof (Nat.mod_upper_bound n 2 ltac:(lia)).
  lia.
Qed.

Lemma fftfreq_idx_length n : length (fftfreq_idx n) = n.
Proof. unfold fftfreq_idx. rewrite app_length, !zrange_length. apply half_sum. Qed.

Lemma list_as_map_nth {A : Type} (d : A) (l : list A) :
  l = map (fun k => nth k l d) (seq 0 (length l)).
Proof.
  induction l as [|x r IH]; simpl.
  - reflexivity.
  - f_equal. rewrite <- seq_shift, map_map. exact IH.
Qed.

Lemma map2_length {A B C : Type} (f : A -> B -> C) a b :
  length (map2 f a b) = Nat.min (length a) (length b).
Proof.
  revert b. induction a as [|x a IH]; intros [|y b]; simpl; auto.
Qed.

Lemma nth_map2 {A B C : Type} (f : A -> B -> C) a b i da db dc :
  (i < length a)%nat -> (i < length b)%nat ->
  nth i (map2 f a b) dc = f (nth i a da) (nth i b db).
Proof.
  revert b i. induction a as [|x a IH]; intros [|y b] [|i] Ha Hb; simpl in *; try lia; auto.
  apply IH; lia.
Qed.

Lemma nth_repeat' {A : Type} (d : A) n i : nth i (repeat d n) d = d.
Proof. revert i. induction n; intros [|i]; simpl; auto. Qed.

Section FieldProofs.
  Variable K : Field.
  Hypothesis Fth : field_theory (f0 K) (f1 K) (fadd K) (fmul K) (fsub K) (fopp K) (fdiv K) (finv K) eq.
  Hypothesis char0 : forall n, ofnat K (S n) <> f0 K.
  Add Field Kfield : Fth.

  Local Notation "x + y" := (fadd K x y).
  Local Notation "x * y" := (fmul K x y).
  Local Notation "x - y" := (fsub K x y).
  Local Notation "x / y" := (fdiv K x y).
  Local Notation "0" := (f0 K).

  Lemma fsum_nil : fsum K [] = 0.
  Proof. reflexivity. Qed.
  Lemma fsum_cons a l : fsum K (a :: l) = a + fsum K l.
  Proof. reflexivity. Qed.

  Lemma fsum_app l1 l2 : fsum K (l1 ++ l2) = fsum K l1 + fsum K l2.
  Proof.
    induction l1 as [|a l1 IH].
    - rewrite fsum_nil. simpl app. ring.
    - simpl app. rewrite !fsum_cons, IH. ring.
  Qed.
  Lemma fsum_scale c l : fsum K (map (fun x => c * x) l) = c * fsum K l.
  Proof.
    induction l as [|a l IH].
    - simpl map. rewrite fsum_nil. ring.
    - simpl map. rewrite !fsum_cons, IH. ring.
  Qed.
  Lemma fsum_scale_r c l : fsum K (map (fun x => x * c) l) = fsum K l * c.
  Proof.
    induction l as [|a l IH].
    - simpl map. rewrite fsum_nil. ring.
    - simpl map. rewrite !fsum_cons, IH. ring.
  Qed.
  Lemma fsum_perm l l' : Permutation l l' -> fsum K l = fsum K l'.
  Proof.
    induction 1.
    - reflexivity.
    - rewrite !fsum_cons, IHPermutation. reflexivity.
    - rewrite !fsum_cons. ring.
    - congruence.
  Qed.
  Lemma ofnat_nonzero n : (0 < n)%nat -> ofnat K n <> 0.
  Proof. destruct n; [lia|]. intros _. apply char0. Qed.

  Lemma ofQ_nonzero q : (0 < q)%Q -> ofQ K q <> 0.
  Proof.
    destruct q as [num den]. unfold Qlt. simpl. intros Hq.
    unfold ofQ. simpl Qnum. simpl Qden.
    destruct num as [|p|p]; try lia.
    simpl ofZ.
    assert (Ha : ofnat K (Pos.to_nat p) <> 0) by (apply ofnat_nonzero; apply Pos2Nat.is_pos).
    assert (Hb : ofnat K (Pos.to_nat den) <> 0) by (apply ofnat_nonzero; apply Pos2Nat.is_pos).
    set (a := ofnat K (Pos.to_nat p)) in *. set (b := ofnat K (Pos.to_nat den)) in *.
    intros H. apply Ha.
    assert (E : a = a / b * b) by (field; exact Hb).
    rewrite E, H. ring.
  Qed.

  (* sum over a reflected index range *)
  Lemma fsum_reflect (g : nat -> K) a b len :
    fsum K (map g (seq b len)) = fsum K (map (fun k => g (a + b + len - 1 - k)%nat) (seq a len)).
  Proof.
    revert b. induction len as [|len IH]; intros b.
    - reflexivity.
    - rewrite (seq_S len a). rewrite map_app, fsum_app.
      cbn [seq map]. rewrite !fsum_cons, fsum_nil. rewrite (IH (S b)).
      replace (a + b + S len - 1 - (a + len))%nat with b by lia.
      assert (E : map (fun k => g (a + S b + len - 1 - k)%nat) (seq a len)
                = map (fun k => g (a + b + S len - 1 - k)%nat) (seq a len)).
      { apply map_ext_in. intros k _. f_equal. lia. }
      rewrite E. ring.
  Qed.

  (* sum over a reversed index range *)
  Lemma fsum_seq_rev (f : nat -> K) a len :
    fsum K (map f (seq a len)) = fsum K (map (fun i => f (a + (a + len - 1 - i))%nat) (seq a len)).
  Proof.
    rewrite (fsum_reflect f a a len). f_equal. apply map_ext_in.
    intros k Hk. apply in_seq in Hk. f_equal. lia.
  Qed.

  Lemma fsum_lin c d l : fsum K (map (fun y => c * y * d) l) = c * fsum K l * d.
  Proof.
    induction l as [|a l IH].
    - simpl map. rewrite fsum_nil. ring.
    - simpl map. rewrite !fsum_cons, IH. ring.
  Qed.

  (* ---- Parseval for the (sorted) PSD table: sum(psd) * fs/n = mean square ---- *)
  Theorem psd_parseval_core n fs (X : list (cplx K)) (x : list K) :
    length X = n -> (0 < n)%nat -> (0 < fs)%Q ->
    fsum K (map (norm2 K) X) = ofnat K n * fsum K (map (sq K) x) ->
    fsum K (map (fun kv => snd kv * (ofQ K fs / ofnat K n))
                (map (fun kv : Z * cplx K => (fst kv, psd_scale K fs n * norm2 K (snd kv))) (fft_table n X)))
    = fsum K (map (sq K) x) / ofnat K n.
  Proof.
    intros HX Hn Hfs HP.
    rewrite map_map. cbn [snd fst].
    assert (Hperm : Permutation (fft_table n X) (combine (fftfreq_idx n) X))
      by (apply sort_k_perm).
    rewrite (fsum_perm _ _ (Permutation_map _ Hperm)).
    assert (E : map (fun kv : Z * cplx K => psd_scale K fs n * norm2 K (snd kv) * (ofQ K fs / ofnat K n))
                    (combine (fftfreq_idx n) X)
              = map (fun y => psd_scale K fs n * y * (ofQ K fs / ofnat K n))
                    (map (norm2 K) (map snd (combine (fftfreq_idx n) X)))).
    { rewrite !map_map. reflexivity. }
    rewrite E. rewrite map_snd_combine by (rewrite fftfreq_idx_length; congruence).
    rewrite fsum_lin, HP. unfold psd_scale.
    pose proof (ofQ_nonzero fs Hfs) as H1.
    pose proof (ofnat_nonzero n Hn) as H2.
    field. split; assumption.
  Qed.

  (* ---- one-sided totals from Hermitian symmetry, on a list P of n powers ---- *)
  Definition onesided_total (P : list K) : K :=
    nth 0 P 0 + two K * fsum K (map (fun k => nth k P 0) (seq 1 ((length P + 1) / 2 - 1))).
  Theorem onesided_total_odd (P : list K) m : length P = (2 * m + 1)%nat ->
    (forall k, (0 < k < length P)%nat -> nth (length P - k) P 0 = nth k P 0) ->
    onesided_total P = fsum K P.
  Proof.
    intros HL Hsym. unfold onesided_total.
    rewrite (list_as_map_nth 0 P) at 3.
    rewrite HL in *.
    replace ((2 * m + 1 + 1) / 2 - 1)%nat with m.
    2:{ replace (2 * m + 1 + 1)%nat with ((m + 1) * 2)%nat by lia. rewrite Nat.div_mul by lia. lia. }
    replace (2 * m + 1)%nat with (1 + (m + m))%nat by lia.
    rewrite (seq_app 1 (m + m) 0), (seq_app m m (0 + 1)).
    change (0 + 1)%nat with 1%nat. rewrite !map_app, !fsum_app. cbn [seq map]. rewrite fsum_cons, fsum_nil.
    rewrite (fsum_reflect (fun k => nth k P 0) 1 (1 + m) m).
    assert (E : map (fun k => nth (1 + (1 + m) + m - 1 - k) P 0) (seq 1 m)
              = map (fun k => nth k P 0) (seq 1 m)).
    { apply map_ext_in. intros k Hk. apply in_seq in Hk.
      replace (1 + (1 + m) + m - 1 - k)%nat with (2 * m + 1 - k)%nat by lia.
      apply Hsym. lia. }
    rewrite E. unfold two. ring.
  Qed.

  Theorem onesided_total_even (P : list K) m : length P = (2 * m)%nat -> (0 < m)%nat ->
    (forall k, (0 < k < length P)%nat -> nth (length P - k) P 0 = nth k P 0) ->
    onesided_total P = fsum K P - nth m P 0.
  Proof.
    intros HL Hm Hsym. unfold onesided_total.
    rewrite (list_as_map_nth 0 P) at 3.
    rewrite HL in *.
    replace ((2 * m + 1) / 2 - 1)%nat with (m - 1)%nat.
    2:{ replace (2 * m + 1)%nat with (m * 2 + 1)%nat by lia.
        rewrite Nat.div_add_l by lia. rewrite (Nat.div_small 1 2) by lia. lia. }
    replace (2 * m)%nat with (1 + ((m - 1) + (1 + (m - 1))))%nat by lia.
    rewrite (seq_app 1 _ 0), (seq_app (m - 1) _ (0 + 1)), (seq_app 1 (m - 1) (0 + 1 + (m - 1))).
    change (0 + 1)%nat with 1%nat. rewrite !map_app, !fsum_app. cbn [seq map]. rewrite !fsum_cons, !fsum_nil.
    rewrite (fsum_reflect (fun k => nth k P 0) 1 (1 + (m - 1) + 1) (m - 1)).
    assert (E : map (fun k => nth (1 + (1 + (m - 1) + 1) + (m - 1) - 1 - k) P 0) (seq 1 (m - 1))
              = map (fun k => nth k P 0) (seq 1 (m - 1))).
    { apply map_ext_in. intros k Hk. apply in_seq in Hk.
      replace (1 + (1 + (m - 1) + 1) + (m - 1) - 1 - k)%nat with (2 * m - k)%nat by lia.
      apply Hsym. lia. }
    rewrite E.
    replace (1 + (m - 1))%nat with m by lia.
    unfold two. ring.
  Qed.

  (* ---- averaging of equal-length vectors ---- *)
  Lemma vadd_length a b : length (vadd K a b) = Nat.min (length a) (length b).
  Proof. apply map2_length. Qed.

  Lemma fold_vadd_nth_gen (ls : list (list K)) N i acc :
    Forall (fun l => length l = N) ls -> (i < N)%nat -> length acc = N ->
    nth i (fold_left (vadd K) ls acc) 0 = nth i acc 0 + fsum K (map (fun l => nth i l 0) ls).
  Proof.
    intros HF Hi. revert acc. induction HF as [|l ls Hl HF IH]; intros acc Hacc.
    - cbn [fold_left map]. rewrite fsum_nil. ring.
    - cbn [fold_left map]. rewrite fsum_cons. rewrite IH.
      + unfold vadd. rewrite (nth_map2 (fadd K) acc l i 0 0 0) by lia. ring.
      + rewrite vadd_length. lia.
  Qed.

  Theorem fold_vadd_nth (ls : list (list K)) N i : Forall (fun l => length l = N) ls -> (i < N)%nat ->
    nth i (fold_left (vadd K) ls (repeat 0 N)) 0 = fsum K (map (fun l => nth i l 0) ls).
  Proof.
    intros HF Hi. rewrite (fold_vadd_nth_gen ls N i (repeat 0 N) HF Hi (repeat_length _ _)).
    rewrite nth_repeat'. ring.
  Qed.

  Lemma fold_vadd_length_gen (ls : list (list K)) N acc : Forall (fun l => length l = N) ls ->
    length acc = N -> length (fold_left (vadd K) ls acc) = N.
  Proof.
    intros HF. revert acc. induction HF as [|l ls Hl HF IH]; intros acc Hacc.
    - exact Hacc.
    - cbn [fold_left]. apply IH. rewrite vadd_length. lia.
  Qed.

  Theorem fold_vadd_length (ls : list (list K)) N : Forall (fun l => length l = N) ls ->
    length (fold_left (vadd K) ls (repeat 0 N)) = N.
  Proof. intros HF. apply fold_vadd_length_gen; auto. apply repeat_length. Qed.
End FieldProofs.

Print Assumptions psd_parseval_core.
Print Assumptions onesided_total_odd.
Print Assumptions onesided_total_even.
Print Assumptions fold_vadd_nth.
Print Assumptions ofQ_nonzero.
