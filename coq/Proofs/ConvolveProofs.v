(* Proofs about the convolution / filtering model (Model/Convolve.v). *)
From Verif Require Import Base.Prelude Model.Restrict Model.Count Model.Slice Model.Convolve
  Proofs.BaseLemmas Proofs.RestrictProofs Proofs.CountProofs Proofs.SliceProofs.
From Coq Require Import ZifyBool.

(* ------------------------------------------------------------------ *)
(* generic list facts                                                  *)
(* ------------------------------------------------------------------ *)
Lemma divmod2 (n : nat) : exists q r, (n = 2 * q + r /\ r < 2 /\ n / 2 = q /\ n mod 2 = r)%nat.
Proof.
  exists (n / 2)%nat, (n mod 2)%nat. repeat split.
  - apply Nat.div_mod. lia.
  - apply Nat.mod_upper_bound. lia.
Qed.

Lemma nth_firstn_lt {A} (l : list A) d : forall n j, (j < n)%nat -> nth j (firstn n l) d = nth j l d.
Proof.
  induction l as [|x r IH]; intros n j H.
  - rewrite firstn_nil. reflexivity.
  - destruct n as [|n]; [lia|]. destruct j as [|j]; [reflexivity|]. cbn [firstn nth]. apply IH. lia.
Qed.

Lemma nth_skipn_add {A} (l : list A) d : forall n j, nth j (skipn n l) d = nth (n + j) l d.
Proof.
  induction l as [|x r IH]; intros n j.
  - rewrite skipn_nil. destruct j, n; reflexivity.
  - destruct n as [|n]; [reflexivity|]. cbn [skipn Nat.add nth]. apply IH.
Qed.

Lemma nth_map_lt {A B} (f : A -> B) l d d' i : (i < length l)%nat -> nth i (map f l) d = f (nth i l d').
Proof.
  intros H. rewrite nth_indep with (d' := f d') by (rewrite map_length; exact H). apply map_nth.
Qed.

Lemma slice_length {A} i0 i1 (l : list A) : (i1 <= length l)%nat -> length (slice i0 i1 l) = (i1 - i0)%nat.
Proof. intros H. unfold slice. rewrite firstn_length, skipn_length. lia. Qed.

Lemma nth_slice {A} i0 i1 (l : list A) d j : (j < i1 - i0)%nat -> nth j (slice i0 i1 l) d = nth (i0 + j) l d.
Proof. intros H. unfold slice. rewrite nth_firstn_lt by exact H. apply nth_skipn_add. Qed.

Lemma slice_nil {A} i0 i1 : slice i0 i1 (@nil A) = [].
Proof. unfold slice. rewrite skipn_nil, firstn_nil. reflexivity. Qed.

Lemma nth_map_seq (f : nat -> Z) len n : (n < len)%nat -> nth n (map f (seq 0 len)) 0 = f n.
Proof.
  intros H. rewrite nth_indep with (d' := f 0%nat) by (rewrite map_length, seq_length; exact H).
  rewrite map_nth. rewrite seq_nth by exact H. reflexivity.
Qed.

Lemma count_if_mono {A} (p q : A -> bool) l : (forall x, p x = true -> q x = true) ->
  (count_if p l <= count_if q l)%nat.
Proof.
  intros H. induction l as [|x r IH]; [apply le_n|]. cbn [count_if].
  destruct (p x) eqn:E; [rewrite (H x E); lia|]. destruct (q x); lia.
Qed.

(* ------------------------------------------------------------------ *)
(* vectors                                                             *)
(* ------------------------------------------------------------------ *)
Lemma vadd_length x : forall y, length x = length y -> length (vadd x y) = length x.
Proof. induction x as [|a x IH]; intros [|b y] H; simpl in *; try lia. rewrite IH; lia. Qed.

Lemma vscale_length c x : length (vscale c x) = length x.
Proof. apply map_length. Qed.

Lemma lin_length a b x y : length x = length y -> length (lin a b x y) = length x.
Proof. intros H. unfold lin. rewrite vadd_length; rewrite !vscale_length; auto. Qed.

Lemma nth_vadd x : forall y i, length x = length y -> nth i (vadd x y) 0 = nth i x 0 + nth i y 0.
Proof.
  induction x as [|a x IH]; intros [|b y] i H; simpl in *; try lia.
  - destruct i; reflexivity.
  - destruct i; [reflexivity|]. apply IH. lia.
Qed.

Lemma nth_vscale c x : forall i, nth i (vscale c x) 0 = c * nth i x 0.
Proof. induction x as [|a x IH]; intros [|i]; simpl; try lia. apply IH. Qed.

Lemma nth_lin a b x y i : length x = length y -> nth i (lin a b x y) 0 = a * nth i x 0 + b * nth i y 0.
Proof. intros H. unfold lin. rewrite nth_vadd by (rewrite !vscale_length; exact H). rewrite !nth_vscale. reflexivity. Qed.

Lemma vadd_firstn n : forall x y, firstn n (vadd x y) = vadd (firstn n x) (firstn n y).
Proof.
  induction n as [|n IH]; intros x y; [reflexivity|].
  destruct x as [|a x]; [reflexivity|]. destruct y as [|b y]; [reflexivity|].
  cbn [vadd firstn]. rewrite IH. reflexivity.
Qed.

Lemma vadd_nil_r x : vadd x [] = [].
Proof. destruct x; reflexivity. Qed.

Lemma vadd_skipn n : forall x y, skipn n (vadd x y) = vadd (skipn n x) (skipn n y).
Proof.
  induction n as [|n IH]; intros x y; [reflexivity|].
  destruct x as [|a x]; [reflexivity|]. destruct y as [|b y]; [cbn [vadd skipn]; rewrite vadd_nil_r; reflexivity|].
  cbn [vadd skipn]. apply IH.
Qed.

Lemma vadd_app x1 : forall y1 x2 y2, length x1 = length y1 -> vadd (x1 ++ x2) (y1 ++ y2) = vadd x1 y1 ++ vadd x2 y2.
Proof.
  induction x1 as [|a x1 IH]; intros [|b y1] x2 y2 H; simpl in *; try lia; [reflexivity|].
  rewrite IH by lia. reflexivity.
Qed.

Lemma lin_firstn a b n x y : firstn n (lin a b x y) = lin a b (firstn n x) (firstn n y).
Proof. unfold lin, vscale. rewrite vadd_firstn, !firstn_map. reflexivity. Qed.

Lemma lin_skipn a b n x y : skipn n (lin a b x y) = lin a b (skipn n x) (skipn n y).
Proof. unfold lin, vscale. rewrite vadd_skipn, !skipn_map. reflexivity. Qed.

Lemma lin_slice a b i0 i1 x y : slice i0 i1 (lin a b x y) = lin a b (slice i0 i1 x) (slice i0 i1 y).
Proof. unfold slice. rewrite lin_skipn, lin_firstn. reflexivity. Qed.

Lemma lin_app a b x1 y1 x2 y2 : length x1 = length y1 ->
  lin a b (x1 ++ x2) (y1 ++ y2) = lin a b x1 y1 ++ lin a b x2 y2.
Proof. intros H. unfold lin, vscale. rewrite !map_app. apply vadd_app. rewrite !map_length. exact H. Qed.

Lemma lin_map {A} a b (f g : A -> Z) l : lin a b (map f l) (map g l) = map (fun n => a * f n + b * g n) l.
Proof. induction l as [|n l IH]; [reflexivity|]. unfold lin, vscale in *. simpl. rewrite IH. reflexivity. Qed.

Lemma lin_repeat0 a b n : lin a b (repeat 0 n) (repeat 0 n) = repeat 0 n.
Proof. induction n as [|n IH]; [reflexivity|]. unfold lin, vscale in *. simpl. rewrite IH. f_equal. lia. Qed.

Lemma lin_nil a b : lin a b [] [] = [].
Proof. reflexivity. Qed.

(* ------------------------------------------------------------------ *)
(* full convolution                                                    *)
(* ------------------------------------------------------------------ *)
Lemma sumZ_zero {A} (f : A -> Z) l : (forall i, f i = 0) -> sumZ (map f l) = 0.
Proof. intros H. induction l as [|i l IH]; [reflexivity|]. simpl. rewrite H, IH. reflexivity. Qed.

Lemma nth_nil_Z i : nth i (@nil Z) 0 = 0.
Proof. destruct i; reflexivity. Qed.

(* [coef] is NumPy's sum *)
Theorem coef_is_sum : forall x k n, coef x k n = conv_sum x k n.
Proof.
  induction x as [|a x IH]; intros k n; unfold conv_sum.
  - simpl coef. symmetry. apply sumZ_zero. intros i. rewrite nth_nil_Z. lia.
  - cbn [coef]. destruct n as [|n].
    + simpl. lia.
    + rewrite IH. unfold conv_sum.
      change (seq 0 (S (S n))) with (0%nat :: seq 1 (S n)). rewrite <- seq_shift.
      cbn [map]. rewrite map_map. unfold sumZ. cbn [fold_right nth Nat.sub]. reflexivity.
Qed.

Theorem conv_length : forall x k, x <> [] -> length (conv x k) = (length x + length k - 1)%nat.
Proof. intros [|a x] k H; [congruence|]. unfold conv. rewrite map_length, seq_length. reflexivity. Qed.

Lemma nth_conv x k n : x <> [] -> (n < length x + length k - 1)%nat -> nth n (conv x k) 0 = coef x k n.
Proof. intros H Hn. destruct x as [|a x]; [congruence|]. unfold conv. apply nth_map_seq. exact Hn. Qed.

(* the coefficient depends on the kernel through its entries, linearly *)
Lemma coef_kernel_lin a b x : forall k1 k2 k3 n,
  (forall i, nth i k3 0 = a * nth i k1 0 + b * nth i k2 0) ->
  coef x k3 n = a * coef x k1 n + b * coef x k2 n.
Proof.
  induction x as [|c x IH]; intros k1 k2 k3 n H; cbn [coef]; [lia|].
  rewrite H. destruct n as [|n]; [lia|]. rewrite (IH k1 k2 k3 n H). lia.
Qed.

Lemma coef_signal_lin a b k : forall x y n, length x = length y ->
  coef (lin a b x y) k n = a * coef x k n + b * coef y k n.
Proof.
  induction x as [|c x IH]; intros [|d y] n H; simpl in H; try lia; [simpl; lia|].
  change (lin a b (c :: x) (d :: y)) with ((a * c + b * d) :: lin a b x y). cbn [coef].
  destruct n as [|n]; [lia|]. rewrite IH by lia. lia.
Qed.

Theorem conv_linear_signal : forall a b x y k, length x = length y ->
  conv (lin a b x y) k = lin a b (conv x k) (conv y k).
Proof.
  intros a b x y k H. destruct x as [|c x]; destruct y as [|d y]; simpl in H; try lia; [reflexivity|].
  change (lin a b (c :: x) (d :: y)) with ((a * c + b * d) :: lin a b x y).
  unfold conv. cbn [length]. rewrite lin_length by lia.
  replace (length y) with (length x) by lia. rewrite lin_map. apply map_ext. intros n.
  change ((a * c + b * d) :: lin a b x y) with (lin a b (c :: x) (d :: y)).
  apply coef_signal_lin. simpl. lia.
Qed.

Theorem conv_linear_kernel : forall a b x k1 k2, length k1 = length k2 ->
  conv x (lin a b k1 k2) = lin a b (conv x k1) (conv x k2).
Proof.
  intros a b x k1 k2 H. destruct x as [|c x]; [reflexivity|].
  unfold conv. rewrite lin_length by exact H. replace (length k2) with (length k1) by lia.
  rewrite lin_map. apply map_ext. intros n. apply coef_kernel_lin. intros i. apply nth_lin. exact H.
Qed.

(* ------------------------------------------------------------------ *)
(* trimming                                                            *)
(* ------------------------------------------------------------------ *)
Lemma cut_facts m k t : (1 <= k)%nat ->
  let c := cut m k t in (fst c + t = snd c /\ snd c <= t + k - 1)%nat.
Proof.
  intros Hk. destruct m; cbn [cut fst snd]; try lia.
  destruct (divmod2 (k - 1)) as (q & r & H1 & H2 & H3 & H4).
  destruct (divmod2 k) as (q' & r' & H1' & H2' & H3' & H4'). lia.
Qed.

Lemma cut_both_odd c t : cut TBoth (2 * c + 1) t = (c, (c + t)%nat).
Proof.
  cbn [cut]. destruct (divmod2 (2 * c + 1 - 1)) as (q & r & H1 & H2 & H3 & H4).
  destruct (divmod2 (2 * c + 1)) as (q' & r' & H1' & H2' & H3' & H4'). f_equal; lia.
Qed.

Lemma cut_both_even c t : cut TBoth (2 * c + 2) t = (c, (c + t)%nat).
Proof.
  cbn [cut]. destruct (divmod2 (2 * c + 2 - 1)) as (q & r & H1 & H2 & H3 & H4).
  destruct (divmod2 (2 * c + 2)) as (q' & r' & H1' & H2' & H3' & H4'). f_equal; lia.
Qed.

Theorem conv_window_length : forall m kern w, kern <> [] -> length (conv_window m kern w) = length w.
Proof.
  intros m kern w Hk. unfold conv_window, trim.
  assert (1 <= length kern)%nat as Hk1 by (destruct kern; [congruence|simpl; lia]).
  destruct w as [|a w]; [cbn [conv]; rewrite slice_nil; reflexivity|].
  pose proof (cut_facts m (length kern) (length (a :: w)) Hk1) as [H1 H2].
  rewrite slice_length; [lia|]. rewrite conv_length by congruence. exact H2.
Qed.

(* sample i of the window's output is coefficient (cut offset + i) of the full convolution *)
Theorem conv_window_nth : forall m kern w i, kern <> [] -> (i < length w)%nat ->
  nth i (conv_window m kern w) 0 = coef w kern (fst (cut m (length kern) (length w)) + i).
Proof.
  intros m kern w i Hk Hi. unfold conv_window, trim.
  assert (1 <= length kern)%nat as Hk1 by (destruct kern; [congruence|simpl; lia]).
  pose proof (cut_facts m (length kern) (length w) Hk1) as [H1 H2].
  rewrite nth_slice by lia. apply nth_conv; [destruct w; [simpl in Hi; lia|congruence]|lia].
Qed.

Theorem conv_window_linear_signal : forall m kern a b x y, length x = length y ->
  conv_window m kern (lin a b x y) = lin a b (conv_window m kern x) (conv_window m kern y).
Proof.
  intros m kern a b x y H. unfold conv_window, trim. rewrite lin_length by exact H.
  replace (length y) with (length x) by lia. rewrite conv_linear_signal by exact H. apply lin_slice.
Qed.

Theorem conv_window_linear_kernel : forall m a b k1 k2 w, length k1 = length k2 ->
  conv_window m (lin a b k1 k2) w = lin a b (conv_window m k1 w) (conv_window m k2 w).
Proof.
  intros m a b k1 k2 w H. unfold conv_window, trim. rewrite lin_length by exact H.
  replace (length k2) with (length k1) by lia. rewrite conv_linear_kernel by exact H. apply lin_slice.
Qed.

(* ------------------------------------------------------------------ *)
(* spectral inversion                                                  *)
(* ------------------------------------------------------------------ *)
Definition ukern (u : Z) (c len : nat) : list Z := map (fun i => if (i =? c)%nat then u else 0) (seq 0 len).

Lemma nth_ukern u c len n : nth n (ukern u c len) 0 = if ((n <? len) && (n =? c))%nat then u else 0.
Proof.
  unfold ukern. destruct (Nat.ltb_spec n len) as [H|H]; cbn [andb].
  - apply nth_map_seq. exact H.
  - apply nth_overflow. rewrite map_length, seq_length. exact H.
Qed.

Lemma coef_ukern u c len : (c < len)%nat -> forall x n,
  coef x (ukern u c len) n = if (c <=? n)%nat then u * nth (n - c) x 0 else 0.
Proof.
  intros Hc. induction x as [|a x IH]; intros n; cbn [coef].
  - rewrite nth_nil_Z. destruct (c <=? n)%nat; lia.
  - rewrite nth_ukern. destruct n as [|n].
    + destruct c as [|c]; cbn [Nat.leb Nat.eqb Nat.sub nth].
      * destruct (Nat.ltb_spec 0 len); [cbn [andb]; lia|lia].
      * rewrite andb_false_r. lia.
    + rewrite IH. destruct (Nat.leb_spec c n) as [H|H].
      * destruct (Nat.leb_spec c (S n)); [|lia].
        replace (S n - c)%nat with (S (n - c)) by lia. cbn [nth].
        destruct (Nat.eqb_spec (S n) c); [lia|]. rewrite andb_false_r. lia.
      * destruct (Nat.eqb_spec (S n) c) as [E|E].
        -- destruct (Nat.leb_spec c (S n)); [|lia]. destruct (Nat.ltb_spec (S n) len); [|lia].
           cbn [andb]. replace (S n - c)%nat with 0%nat by lia. cbn [nth]. lia.
        -- rewrite andb_false_r. destruct (Nat.leb_spec c (S n)); [lia|]. lia.
Qed.

Lemma spectral_inversion_length u k : length (spectral_inversion u k) = length k.
Proof. unfold spectral_inversion. rewrite map_length, seq_length. reflexivity. Qed.

Lemma nth_spectral_inversion u k i :
  nth i (spectral_inversion u k) 0 = 1 * nth i (ukern u (length k / 2) (length k)) 0 + (-1) * nth i k 0.
Proof.
  rewrite nth_ukern. unfold spectral_inversion. destruct (Nat.ltb_spec i (length k)) as [H|H]; cbn [andb].
  - rewrite nth_map_seq by exact H. lia.
  - rewrite nth_overflow by (rewrite map_length, seq_length; exact H).
    rewrite (nth_overflow k) by exact H. lia.
Qed.

(* one window: low-pass + its spectral inversion = u * identity, for every odd kernel *)
Theorem window_lp_plus_hp : forall u kern w c, length kern = (2 * c + 1)%nat ->
  vadd (conv_window TBoth kern w) (conv_window TBoth (spectral_inversion u kern) w) = vscale u w.
Proof.
  intros u kern w c Hk.
  assert (kern <> []) as Hne by (destruct kern; [simpl in Hk; lia|congruence]).
  assert (spectral_inversion u kern <> []) as Hne2.
  { intros E. apply (f_equal (@length Z)) in E. rewrite spectral_inversion_length in E. simpl in E. lia. }
  apply nth_ext with (d := 0) (d' := 0).
  - rewrite vadd_length; rewrite !conv_window_length by assumption; rewrite ?vscale_length; reflexivity.
  - intros i Hi. rewrite vadd_length in Hi by (rewrite !conv_window_length by assumption; reflexivity).
    rewrite conv_window_length in Hi by assumption.
    rewrite nth_vadd by (rewrite !conv_window_length by assumption; reflexivity).
    rewrite !conv_window_nth by assumption. rewrite spectral_inversion_length, Hk, cut_both_odd. cbn [fst].
    rewrite (coef_kernel_lin 1 (-1) w (ukern u (length kern / 2) (length kern)) kern (spectral_inversion u kern))
      by (apply nth_spectral_inversion).
    rewrite Hk. replace ((2 * c + 1) / 2)%nat with c
      by (destruct (divmod2 (2 * c + 1)) as (q & r & H1 & H2 & H3 & H4); lia).
    rewrite coef_ukern by lia. destruct (Nat.leb_spec c (c + i)); [|lia].
    replace (c + i - c)%nat with i by lia. rewrite nth_vscale. lia.
Qed.

(* ------------------------------------------------------------------ *)
(* per-epoch application                                               *)
(* ------------------------------------------------------------------ *)
Lemma splice_length {A} i0 i1 (acc vals : list A) : (i0 <= i1 <= length acc)%nat -> length vals = (i1 - i0)%nat ->
  length (splice i0 i1 acc vals) = length acc.
Proof. intros H Hv. unfold splice. rewrite !app_length, firstn_length, skipn_length. lia. Qed.

Lemma nth_splice {A} i0 i1 (acc vals : list A) d j : (i0 <= i1 <= length acc)%nat -> length vals = (i1 - i0)%nat ->
  nth j (splice i0 i1 acc vals) d =
  if (j <? i0)%nat then nth j acc d else if (j <? i1)%nat then nth (j - i0) vals d else nth j acc d.
Proof.
  intros H Hv. unfold splice.
  assert (length (firstn i0 acc) = i0) as Hf by (rewrite firstn_length; lia).
  destruct (Nat.ltb_spec j i0) as [H0|H0].
  - rewrite app_nth1 by lia. apply nth_firstn_lt. exact H0.
  - rewrite app_nth2 by lia. rewrite Hf. destruct (Nat.ltb_spec j i1) as [H1|H1].
    + rewrite app_nth1 by lia. reflexivity.
    + rewrite app_nth2 by lia. rewrite nth_skipn_add. f_equal. lia.
Qed.

Lemma ss_range_le s e ts : s <= e -> (ss_left s ts <= ss_right e ts <= length ts)%nat.
Proof.
  intros H. unfold ss_left, ss_right. split; [|apply count_if_le_length].
  apply count_if_mono. intros x. lia.
Qed.

Lemma ss_range_disjoint e s' ts : e < s' -> (ss_right e ts <= ss_left s' ts)%nat.
Proof. intros H. unfold ss_left, ss_right. apply count_if_mono. intros x. lia. Qed.

Section Epochs.
  Variable G : list Z -> list Z.
  Hypothesis G_len : len_pres G.
  Variables ts col : list Z.
  Hypothesis col_len : length col = length ts.

  Lemma step_vals_length s e : s <= e ->
    length (G (slice (ss_left s ts) (ss_right e ts) col)) = (ss_right e ts - ss_left s ts)%nat.
  Proof. intros H. rewrite G_len. apply slice_length. rewrite col_len. apply (ss_range_le s e ts H). Qed.

  Lemma step_length acc iv : fst iv <= snd iv -> length acc = length ts ->
    length (epoch_step G ts col acc iv) = length ts.
  Proof.
    intros H Ha. unfold epoch_step, get_range. rewrite splice_length; [exact Ha| |apply step_vals_length; exact H].
    rewrite Ha. apply ss_range_le. exact H.
  Qed.

  Lemma fold_length ep : forall acc, Forall (fun iv => fst iv <= snd iv) ep -> length acc = length ts ->
    length (fold_left (epoch_step G ts col) ep acc) = length ts.
  Proof.
    induction ep as [|iv ep IH]; intros acc Hf Ha; [exact Ha|].
    cbn [fold_left]. inversion Hf; subst. apply IH; [assumption|]. apply step_length; assumption.
  Qed.

  (* later epochs (all starting at or after position [bound]) do not touch rows below [bound] *)
  Lemma fold_post bound d ep : forall acc,
    Forall (fun iv => fst iv <= snd iv /\ (bound <= ss_left (fst iv) ts)%nat) ep -> length acc = length ts ->
    forall j, (j < bound)%nat -> nth j (fold_left (epoch_step G ts col) ep acc) d = nth j acc d.
  Proof.
    induction ep as [|iv ep IH]; intros acc Hf Ha j Hj; [reflexivity|].
    cbn [fold_left]. inversion Hf as [|? ? [H1 H2] Hf']; subst.
    rewrite IH; [|assumption|apply step_length; assumption|exact Hj].
    unfold epoch_step, get_range. rewrite nth_splice;
      [|rewrite Ha; apply ss_range_le; exact H1|apply step_vals_length; exact H1].
    destruct (Nat.ltb_spec j (ss_left (fst iv) ts)); [reflexivity|lia].
  Qed.

  Lemma canon_post_bounds e post : canon e post ->
    Forall (fun iv => fst iv <= snd iv /\ (ss_right e ts <= ss_left (fst iv) ts)%nat) post.
  Proof.
    revert e. induction post as [|[s' e'] post IH]; intros e H; [constructor|].
    cbn [canon] in H. destruct H as (H1 & H2 & H3). constructor.
    - cbn [fst snd]. split; [lia|apply ss_range_disjoint; exact H1].
    - eapply Forall_impl'; [|apply (IH e' H3)]. intros iv [Ha Hb]. split; [exact Ha|].
      etransitivity; [|exact Hb]. etransitivity; [apply ss_range_disjoint; exact H1|].
      apply ss_range_le. lia.
  Qed.

  Lemma canonical_Forall_le ep : canonical ep -> Forall (fun iv => fst iv <= snd iv) ep.
  Proof.
    induction ep as [|[s e] ep IH]; intros H; [constructor|].
    cbn [canonical] in H. destruct H as (H1 & _ & H3). constructor; [cbn; lia|apply IH; exact H3].
  Qed.

  Theorem apply_epochs_length : forall ep, canonical ep -> length (apply_epochs G ts col ep) = length ts.
  Proof.
    intros ep Hc. unfold apply_epochs. apply fold_length; [apply canonical_Forall_le; exact Hc|].
    apply repeat_length.
  Qed.

  (* rows of epoch (s,e) = G applied to that epoch's rows only *)
  Theorem apply_epochs_window : forall pre s e post, canonical (pre ++ (s, e) :: post) ->
    slice (ss_left s ts) (ss_right e ts) (apply_epochs G ts col (pre ++ (s, e) :: post))
    = G (slice (ss_left s ts) (ss_right e ts) col).
  Proof.
    intros pre s e post Hc. unfold apply_epochs. rewrite fold_left_app. cbn [fold_left].
    set (acc := fold_left (epoch_step G ts col) pre (repeat 0 (length ts))).
    assert (length acc = length ts) as Ha.
    { apply fold_length; [|apply repeat_length].
      pose proof (canonical_Forall_le _ Hc) as Hf. apply Forall_app in Hf. apply Hf. }
    destruct (canonical_canon _ Hc) as [lo Hlo].
    destruct (canon_split _ _ _ _ _ Hlo) as (_ & _ & Hse & Hpost).
    assert (s <= e) as Hse' by lia.
    pose proof (ss_range_le s e ts Hse') as Hr.
    pose proof (step_vals_length s e Hse') as Hv.
    assert (length (epoch_step G ts col acc (s, e)) = length ts) as Hst by (apply step_length; [cbn; lia|exact Ha]).
    assert (length (fold_left (epoch_step G ts col) post (epoch_step G ts col acc (s, e))) = length ts) as Hfl.
    { apply fold_length; [|exact Hst].
      eapply Forall_impl'; [|apply (canon_post_bounds e post Hpost)]. intros iv [H _]. exact H. }
    apply nth_ext with (d := 0) (d' := 0).
    - rewrite slice_length by (rewrite Hfl; apply Hr). rewrite Hv. reflexivity.
    - intros j Hj. rewrite slice_length in Hj by (rewrite Hfl; apply Hr).
      rewrite nth_slice by exact Hj.
      rewrite (fold_post (ss_right e ts) 0 post); [|apply canon_post_bounds; exact Hpost|exact Hst|lia].
      unfold epoch_step, get_range. cbn [fst snd]. rewrite nth_splice; [|rewrite Ha; exact Hr|exact Hv].
      destruct (Nat.ltb_spec (ss_left s ts + j) (ss_left s ts)); [lia|].
      destruct (Nat.ltb_spec (ss_left s ts + j) (ss_right e ts)); [|lia].
      f_equal. lia.
  Qed.
End Epochs.

(* independence: the rows of an epoch depend only on the data rows of that epoch *)
Theorem apply_epochs_independent : forall G ts col col' pre s e post, len_pres G ->
  length col = length ts -> length col' = length ts -> canonical (pre ++ (s, e) :: post) ->
  slice (ss_left s ts) (ss_right e ts) col = slice (ss_left s ts) (ss_right e ts) col' ->
  slice (ss_left s ts) (ss_right e ts) (apply_epochs G ts col (pre ++ (s, e) :: post))
  = slice (ss_left s ts) (ss_right e ts) (apply_epochs G ts col' (pre ++ (s, e) :: post)).
Proof.
  intros G ts col col' pre s e post HG Hl Hl' Hc Hw.
  rewrite !apply_epochs_window by assumption. rewrite Hw. reflexivity.
Qed.

(* the window IS the epoch's samples: rows whose timestamp lies in [s, e] *)
Theorem window_is_epoch_samples : forall ts col s e, sortedZ ts -> length col = length ts ->
  slice (ss_left s ts) (ss_right e ts) col
  = map snd (filter (fun tr : Z * Z => (s <=? fst tr) && (fst tr <=? e)) (combine ts col)).
Proof.
  intros ts col s e Hs Hl. rewrite <- (slice_rows_window s e ts col Hs Hl).
  rewrite <- map_slice. rewrite map_snd_combine_gen by exact Hl. reflexivity.
Qed.

(* linearity of the per-epoch application *)
Lemma splice_lin a b i0 i1 acc1 acc2 v1 v2 : length acc1 = length acc2 -> length v1 = length v2 ->
  splice i0 i1 (lin a b acc1 acc2) (lin a b v1 v2) = lin a b (splice i0 i1 acc1 v1) (splice i0 i1 acc2 v2).
Proof.
  intros Ha Hv. unfold splice. rewrite lin_firstn, lin_skipn.
  rewrite lin_app by (rewrite !firstn_length; lia). rewrite lin_app by exact Hv. reflexivity.
Qed.

Theorem apply_epochs_linear : forall G ts a b x y ep, len_pres G -> lin_op G -> length x = length y ->
  apply_epochs G ts (lin a b x y) ep = lin a b (apply_epochs G ts x ep) (apply_epochs G ts y ep).
Proof.
  intros G ts a b x y ep HG HL Hxy. unfold apply_epochs.
  rewrite <- (lin_repeat0 a b (length ts)) at 1.
  assert (length (repeat 0 (length ts)) = length (repeat 0 (length ts))) as H0 by reflexivity.
  revert H0. generalize (repeat 0 (length ts)) at 1 3 5. generalize (repeat 0 (length ts)).
  induction ep as [|iv ep IH]; intros acc2 acc1 Ha; [reflexivity|].
  cbn [fold_left].
  assert (forall i0 i1, length (slice i0 i1 x) = length (slice i0 i1 y)) as Hsl.
  { intros i0 i1. unfold slice. rewrite !firstn_length, !skipn_length. lia. }
  assert (epoch_step G ts (lin a b x y) (lin a b acc1 acc2) iv
          = lin a b (epoch_step G ts x acc1 iv) (epoch_step G ts y acc2 iv)) as E.
  { unfold epoch_step. destruct (get_range (fst iv) (snd iv) ts) as [i0 i1].
    rewrite lin_slice, HL by apply Hsl. apply splice_lin; [exact Ha|]. rewrite !HG. apply Hsl. }
  rewrite E. apply IH.
  unfold epoch_step. destruct (get_range (fst iv) (snd iv) ts) as [i0 i1].
  unfold splice. rewrite !app_length, !firstn_length, !skipn_length, !HG, (Hsl i0 i1). lia.
Qed.

(* ------------------------------------------------------------------ *)
(* convolve / smooth / sinc                                            *)
(* ------------------------------------------------------------------ *)
Lemma conv_window_len_pres m kern : kern <> [] -> len_pres (conv_window m kern).
Proof. intros H w. apply conv_window_length. exact H. Qed.

Lemma conv_window_lin_op m kern : lin_op (conv_window m kern).
Proof. intros a b x y H. apply conv_window_linear_signal. exact H. Qed.

Theorem convolve_epochs_length : forall ts col ep kern m, kern <> [] -> length col = length ts -> canonical ep ->
  length (convolve_epochs ts col ep kern m) = length ts.
Proof. intros. unfold convolve_epochs. apply apply_epochs_length; try assumption. apply conv_window_len_pres. assumption. Qed.

Theorem convolve_epochs_window : forall ts col pre s e post kern m, kern <> [] -> length col = length ts ->
  canonical (pre ++ (s, e) :: post) ->
  slice (ss_left s ts) (ss_right e ts) (convolve_epochs ts col (pre ++ (s, e) :: post) kern m)
  = conv_window m kern (slice (ss_left s ts) (ss_right e ts) col).
Proof. intros. unfold convolve_epochs. apply apply_epochs_window; try assumption. apply conv_window_len_pres. assumption. Qed.

Theorem convolve_epochs_independent : forall ts col col' pre s e post kern m, kern <> [] ->
  length col = length ts -> length col' = length ts -> canonical (pre ++ (s, e) :: post) ->
  slice (ss_left s ts) (ss_right e ts) col = slice (ss_left s ts) (ss_right e ts) col' ->
  slice (ss_left s ts) (ss_right e ts) (convolve_epochs ts col (pre ++ (s, e) :: post) kern m)
  = slice (ss_left s ts) (ss_right e ts) (convolve_epochs ts col' (pre ++ (s, e) :: post) kern m).
Proof. intros. unfold convolve_epochs. apply apply_epochs_independent; try assumption. apply conv_window_len_pres. assumption. Qed.

Theorem convolve_epochs_linear : forall ts a b x y ep kern m, kern <> [] -> length x = length y ->
  convolve_epochs ts (lin a b x y) ep kern m
  = lin a b (convolve_epochs ts x ep kern m) (convolve_epochs ts y ep kern m).
Proof.
  intros. unfold convolve_epochs. apply apply_epochs_linear; try assumption.
  - apply conv_window_len_pres. assumption.
  - apply conv_window_lin_op.
Qed.

(* linear in the kernel too (bilinear) *)
Theorem convolve_epochs_linear_kernel : forall ts col ep a b k1 k2 m, length k1 = length k2 ->
  convolve_epochs ts col ep (lin a b k1 k2) m
  = lin a b (convolve_epochs ts col ep k1 m) (convolve_epochs ts col ep k2 m).
Proof.
  intros ts col ep a b k1 k2 m Hk. unfold convolve_epochs, apply_epochs.
  rewrite <- (lin_repeat0 a b (length ts)) at 1.
  assert (length (repeat 0 (length ts)) = length (repeat 0 (length ts))) as H0 by reflexivity.
  revert H0. generalize (repeat 0 (length ts)) at 1 3 5. generalize (repeat 0 (length ts)).
  induction ep as [|iv ep IH]; intros acc2 acc1 Ha; [reflexivity|].
  cbn [fold_left].
  assert (forall w, length (conv_window m k1 w) = length (conv_window m k2 w)) as Hw.
  { intros w. unfold conv_window, trim, slice. rewrite Hk. rewrite !firstn_length, !skipn_length.
    destruct w as [|c w]; [reflexivity|]. rewrite !conv_length by congruence. lia. }
  assert (epoch_step (conv_window m (lin a b k1 k2)) ts col (lin a b acc1 acc2) iv
          = lin a b (epoch_step (conv_window m k1) ts col acc1 iv) (epoch_step (conv_window m k2) ts col acc2 iv)) as E.
  { unfold epoch_step. destruct (get_range (fst iv) (snd iv) ts) as [i0 i1].
    rewrite conv_window_linear_kernel by exact Hk. apply splice_lin; [exact Ha|apply Hw]. }
  rewrite E. apply IH.
  unfold epoch_step. destruct (get_range (fst iv) (snd iv) ts) as [i0 i1].
  unfold splice. rewrite !app_length, !firstn_length, !skipn_length, Hw. lia.
Qed.

(* low-pass + high-pass (spectral inversion) give back u * the epoch's samples, for every odd kernel *)
Theorem sinc_complementary : forall ts col pre s e post u kern c, length kern = (2 * c + 1)%nat ->
  length col = length ts -> canonical (pre ++ (s, e) :: post) ->
  vadd (slice (ss_left s ts) (ss_right e ts) (sinc_filter ts col (pre ++ (s, e) :: post) kern))
       (slice (ss_left s ts) (ss_right e ts) (sinc_filter ts col (pre ++ (s, e) :: post) (spectral_inversion u kern)))
  = vscale u (slice (ss_left s ts) (ss_right e ts) col).
Proof.
  intros ts col pre s e post u kern c Hk Hl Hc. unfold sinc_filter.
  rewrite !convolve_epochs_window; try assumption.
  - apply window_lp_plus_hp with (c := c). exact Hk.
  - intros E. apply (f_equal (@length Z)) in E. rewrite spectral_inversion_length in E. simpl in E. lia.
  - destruct kern; [simpl in Hk; lia|congruence].
Qed.

Lemma sinc_bandstop_length u lp0 lp1 : length lp0 = length lp1 -> length (sinc_bandstop u lp0 lp1) = length lp0.
Proof. intros H. unfold sinc_bandstop. apply vadd_length. rewrite spectral_inversion_length. exact H. Qed.

(* band-pass = spectral inversion of band-stop, so band-pass + band-stop = u * identity *)
Theorem sinc_band_complementary : forall ts col pre s e post u lp0 lp1 c,
  length lp0 = (2 * c + 1)%nat -> length lp1 = (2 * c + 1)%nat ->
  length col = length ts -> canonical (pre ++ (s, e) :: post) ->
  vadd (slice (ss_left s ts) (ss_right e ts) (sinc_filter ts col (pre ++ (s, e) :: post) (sinc_bandstop u lp0 lp1)))
       (slice (ss_left s ts) (ss_right e ts) (sinc_filter ts col (pre ++ (s, e) :: post) (sinc_bandpass u lp0 lp1)))
  = vscale u (slice (ss_left s ts) (ss_right e ts) col).
Proof.
  intros ts col pre s e post u lp0 lp1 c H0 H1 Hl Hc. unfold sinc_bandpass.
  apply sinc_complementary with (c := c); try assumption.
  rewrite sinc_bandstop_length by lia. exact H0.
Qed.

(* 2-D: one output column per (data column, kernel column) pair, each with one row per timestamp *)
Theorem convolve_frame_shape : forall ts cols ep kerns m,
  Forall (fun c => length c = length ts) cols -> Forall (fun k => k <> []) kerns -> canonical ep ->
  length (convolve_frame ts cols ep kerns m) = length cols
  /\ Forall (fun row => length row = length kerns /\ Forall (fun c => length c = length ts) row)
            (convolve_frame ts cols ep kerns m).
Proof.
  intros ts cols ep kerns m Hc Hk Hep. unfold convolve_frame. split; [apply map_length|].
  apply Forall_forall. intros row Hin. apply in_map_iff in Hin. destruct Hin as (c & <- & Hin).
  split; [apply map_length|]. apply Forall_forall. intros o Ho. apply in_map_iff in Ho.
  destruct Ho as (kn & <- & Hkn). rewrite Forall_forall in Hc, Hk.
  apply convolve_epochs_length; [apply Hk; exact Hkn|apply Hc; exact Hin|exact Hep].
Qed.

Theorem convolve_frame_entry : forall ts cols ep kerns m i j,
  nth j (nth i (convolve_frame ts cols ep kerns m) []) []
  = if ((i <? length cols) && (j <? length kerns))%nat
    then convolve_epochs ts (nth i cols []) ep (nth j kerns []) m else [].
Proof.
  intros ts cols ep kerns m i j. unfold convolve_frame.
  destruct (Nat.ltb_spec i (length cols)) as [Hi|Hi]; cbn [andb].
  - rewrite (nth_map_lt (fun c => map (fun kn => convolve_epochs ts c ep kn m) kerns) cols [] [] i Hi).
    destruct (Nat.ltb_spec j (length kerns)) as [Hj|Hj].
    + apply (nth_map_lt (fun kn => convolve_epochs ts (nth i cols []) ep kn m) kerns [] [] j Hj).
    + apply nth_overflow. rewrite map_length. exact Hj.
  - rewrite (nth_overflow (map _ cols)) by (rewrite map_length; exact Hi). destruct j; reflexivity.
Qed.

(* convolve(array, ep): time axis = the input's timestamps lying in ep, one output row for each *)
Theorem convolve_arg_time_axis : forall ts col ep kern m, sortedZ ts -> canonical ep -> kern <> [] ->
  length col = length ts ->
  fst (convolve_arg ts col ep kern m) = filter (fun t => mem t ep) ts
  /\ sortedZ (fst (convolve_arg ts col ep kern m))
  /\ length (snd (convolve_arg ts col ep kern m)) = length (fst (convolve_arg ts col ep kern m)).
Proof.
  intros ts col ep kern m Hs Hc Hk Hl. unfold convolve_arg. cbn [fst snd].
  pose proof (restrict_ts_spec ts ep Hs Hc) as E. unfold restrict_ts in E.
  split; [exact E|]. split; [rewrite E; apply filter_sortedZ; exact Hs|].
  apply convolve_epochs_length; [exact Hk| |exact Hc]. unfold select. rewrite !map_length. reflexivity.
Qed.

(* ------------------------------------------------------------------ *)
(* Butterworth (partial): sosfiltfilt on one column is an unknown function F of its slice  *)
(* ------------------------------------------------------------------ *)
Section Butterworth.
  Variable F : list Z -> list Z.
  Hypothesis F_length : len_pres F.

  Theorem butter_length : forall ts col ep, length col = length ts -> canonical ep ->
    length (butter_epochs F ts col ep) = length ts.
  Proof. intros. unfold butter_epochs. apply apply_epochs_length; assumption. Qed.

  Theorem butter_window : forall ts col pre s e post, length col = length ts -> canonical (pre ++ (s, e) :: post) ->
    slice (ss_left s ts) (ss_right e ts) (butter_epochs F ts col (pre ++ (s, e) :: post))
    = F (slice (ss_left s ts) (ss_right e ts) col).
  Proof. intros. unfold butter_epochs. apply apply_epochs_window; assumption. Qed.

  Theorem butter_independent : forall ts col col' pre s e post,
    length col = length ts -> length col' = length ts -> canonical (pre ++ (s, e) :: post) ->
    slice (ss_left s ts) (ss_right e ts) col = slice (ss_left s ts) (ss_right e ts) col' ->
    slice (ss_left s ts) (ss_right e ts) (butter_epochs F ts col (pre ++ (s, e) :: post))
    = slice (ss_left s ts) (ss_right e ts) (butter_epochs F ts col' (pre ++ (s, e) :: post)).
  Proof. intros. unfold butter_epochs. apply apply_epochs_independent; assumption. Qed.

  Hypothesis F_linear : lin_op F.

  Theorem butter_linear : forall ts a b x y ep, length x = length y ->
    butter_epochs F ts (lin a b x y) ep = lin a b (butter_epochs F ts x ep) (butter_epochs F ts y ep).
  Proof. intros. unfold butter_epochs. apply apply_epochs_linear; assumption. Qed.
End Butterworth.

(* ------------------------------------------------------------------ *)
(* statement-level forms                                               *)
(* ------------------------------------------------------------------ *)
Theorem conv_window_is_trimmed_full : forall m kern w i, kern <> [] -> (i < length w)%nat ->
  nth i (conv_window m kern w) 0 = conv_sum w kern (fst (cut m (length kern) (length w)) + i).
Proof. intros. rewrite conv_window_nth by assumption. apply coef_is_sum. Qed.

Theorem cut_spec : forall k t, (1 <= k)%nat ->
  cut TLeft k t = ((k - 1)%nat, (k - 1 + t)%nat) /\ cut TRight k t = (0%nat, t)
  /\ (exists c, cut TBoth k t = (c, (c + t)%nat) /\ (k = 2 * c + 1 \/ k = 2 * c + 2)%nat).
Proof.
  intros k t Hk. split; [cbn [cut]; f_equal; lia|]. split; [reflexivity|].
  destruct (divmod2 (k - 1)) as (q & r & H1 & H2 & H3 & H4). exists q.
  assert (r = 0 \/ r = 1)%nat as [E|E] by lia; subst r.
  - replace k with (2 * q + 1)%nat by lia. split; [apply cut_both_odd|lia].
  - replace k with (2 * q + 2)%nat by lia. split; [apply cut_both_even|lia].
Qed.

Theorem conv_full_spec : forall x k, x <> [] ->
  length (conv x k) = (length x + length k - 1)%nat
  /\ forall n, (n < length x + length k - 1)%nat -> nth n (conv x k) 0 = conv_sum x k n.
Proof.
  intros x k H. split; [apply conv_length; exact H|]. intros n Hn.
  rewrite nth_conv by assumption. apply coef_is_sum.
Qed.

(* ------------------------------------------------------------------ *)
(* smooth = convolve with the window, 'both' trim                      *)
(* ------------------------------------------------------------------ *)
Theorem smooth_window : forall ts col pre s e post window, window <> [] -> length col = length ts ->
  canonical (pre ++ (s, e) :: post) ->
  slice (ss_left s ts) (ss_right e ts) (smooth_epochs ts col (pre ++ (s, e) :: post) window)
  = conv_window TBoth window (slice (ss_left s ts) (ss_right e ts) col).
Proof. intros. unfold smooth_epochs. apply convolve_epochs_window; assumption. Qed.

Theorem smooth_independent : forall ts col col' pre s e post window, window <> [] ->
  length col = length ts -> length col' = length ts -> canonical (pre ++ (s, e) :: post) ->
  slice (ss_left s ts) (ss_right e ts) col = slice (ss_left s ts) (ss_right e ts) col' ->
  slice (ss_left s ts) (ss_right e ts) (smooth_epochs ts col (pre ++ (s, e) :: post) window)
  = slice (ss_left s ts) (ss_right e ts) (smooth_epochs ts col' (pre ++ (s, e) :: post) window).
Proof. intros. unfold smooth_epochs. apply convolve_epochs_independent; assumption. Qed.

Theorem smooth_linear_length : forall ts a b x y ep window, window <> [] -> length x = length ts -> length y = length ts ->
  canonical ep ->
  smooth_epochs ts (lin a b x y) ep window = lin a b (smooth_epochs ts x ep window) (smooth_epochs ts y ep window)
  /\ length (smooth_epochs ts x ep window) = length ts.
Proof.
  intros. unfold smooth_epochs. split; [apply convolve_epochs_linear; [assumption|lia]|].
  apply convolve_epochs_length; assumption.
Qed.

(* ------------------------------------------------------------------ *)
(* whole-signal complementarity when the support holds every sample    *)
(* ------------------------------------------------------------------ *)
Lemma nth_in_window {A} (l : list A) d i0 i1 j : (i0 <= j < i1)%nat ->
  nth j l d = nth (j - i0) (slice i0 i1 l) d.
Proof. intros H. rewrite nth_slice by lia. f_equal. lia. Qed.

Theorem sinc_complementary_whole : forall ts col ep u kern c, length kern = (2 * c + 1)%nat ->
  sortedZ ts -> length col = length ts -> canonical ep -> Forall (fun t => mem t ep = true) ts ->
  vadd (sinc_filter ts col ep kern) (sinc_filter ts col ep (spectral_inversion u kern)) = vscale u col.
Proof.
  intros ts col ep u kern c Hk Hs Hl Hc Hcov.
  assert (kern <> []) as Hne by (destruct kern; [simpl in Hk; lia|congruence]).
  assert (spectral_inversion u kern <> []) as Hne2.
  { intros E. apply (f_equal (@length Z)) in E. rewrite spectral_inversion_length in E. simpl in E. lia. }
  assert (length (sinc_filter ts col ep kern) = length ts) as L1 by (apply convolve_epochs_length; assumption).
  assert (length (sinc_filter ts col ep (spectral_inversion u kern)) = length ts) as L2 by (apply convolve_epochs_length; assumption).
  apply nth_ext with (d := 0) (d' := 0).
  - rewrite vadd_length by lia. rewrite vscale_length. lia.
  - intros j Hj. rewrite vadd_length in Hj by lia. rewrite L1 in Hj.
    rewrite Forall_forall in Hcov. specialize (Hcov (nth j ts 0) (nth_In _ _ Hj)).
    unfold mem in Hcov. apply existsb_exists in Hcov. destruct Hcov as ([s e] & Hin & Hb).
    unfold inb in Hb. cbn [fst snd] in Hb.
    destruct (in_split _ _ Hin) as (pre & post & ->).
    assert (ss_left s ts <= j < ss_right e ts)%nat as Hw.
    { split.
      - destruct (Nat.le_gt_cases (ss_left s ts) j) as [H|H]; [exact H|].
        apply (ss_left_nth s ts Hs j Hj) in H. lia.
      - apply (ss_right_nth e ts Hs j Hj). lia. }
    pose proof (sinc_complementary ts col pre s e post u kern c Hk Hl Hc) as E.
    rewrite nth_vadd by lia.
    rewrite (nth_in_window (sinc_filter ts col _ kern) 0 _ _ j Hw).
    rewrite (nth_in_window (sinc_filter ts col _ (spectral_inversion u kern)) 0 _ _ j Hw).
    rewrite <- nth_vadd.
    + rewrite E. rewrite !nth_vscale. rewrite <- (nth_in_window col 0 _ _ j Hw). reflexivity.
    + assert (s <= e) as Hse by lia. pose proof (ss_range_le s e ts Hse) as Hr.
      rewrite !slice_length by lia. reflexivity.
Qed.

Theorem sinc_band_complementary_whole : forall ts col ep u lp0 lp1 c,
  length lp0 = (2 * c + 1)%nat -> length lp1 = (2 * c + 1)%nat ->
  sortedZ ts -> length col = length ts -> canonical ep -> Forall (fun t => mem t ep = true) ts ->
  vadd (sinc_filter ts col ep (sinc_bandstop u lp0 lp1)) (sinc_filter ts col ep (sinc_bandpass u lp0 lp1)) = vscale u col.
Proof.
  intros ts col ep u lp0 lp1 c H0 H1 Hs Hl Hc Hcov. unfold sinc_bandpass.
  apply sinc_complementary_whole with (c := c); try assumption.
  rewrite sinc_bandstop_length by lia. exact H0.
Qed.

(* ------------------------------------------------------------------ *)
(* the support route keeps every timestamp; an interval holding no sample is left alone *)
(* ------------------------------------------------------------------ *)
Lemma filter_all_true {A} (p : A -> bool) l : Forall (fun x => p x = true) l -> filter p l = l.
Proof. induction 1 as [|x l Hx _ IH]; simpl; [reflexivity|]. rewrite Hx, IH. reflexivity. Qed.

Theorem convolve_support_route_time_axis : forall ts col ep kern m, sortedZ ts -> canonical ep -> kern <> [] ->
  length col = length ts -> Forall (fun t => mem t ep = true) ts ->
  fst (convolve_arg ts col ep kern m) = ts
  /\ length (snd (convolve_arg ts col ep kern m)) = length ts.
Proof.
  intros ts col ep kern m Hs Hc Hk Hl Hin.
  destruct (convolve_arg_time_axis ts col ep kern m Hs Hc Hk Hl) as [E [_ L]].
  rewrite (filter_all_true _ _ Hin) in E. split; [exact E|]. rewrite L, E. reflexivity.
Qed.

Lemma epoch_step_empty : forall G ts col acc s e, G [] = [] ->
  ss_left s ts = ss_right e ts ->
  epoch_step G ts col acc (s, e) = acc.
Proof.
  intros G ts col acc s e HG H. unfold epoch_step, get_range. cbn [fst snd]. rewrite H.
  unfold splice, slice. rewrite Nat.sub_diag. cbn [firstn]. rewrite HG. cbn [app]. apply firstn_skipn.
Qed.

Theorem apply_epochs_empty_epoch : forall G ts col pre s e post, len_pres G ->
  ss_left s ts = ss_right e ts ->
  apply_epochs G ts col (pre ++ (s, e) :: post) = apply_epochs G ts col (pre ++ post).
Proof.
  intros G ts col pre s e post HG H. unfold apply_epochs. rewrite !fold_left_app. cbn [fold_left].
  rewrite epoch_step_empty; [reflexivity| |exact H].
  specialize (HG []). destruct (G []); [reflexivity|discriminate].
Qed.

Theorem convolve_epochs_empty_epoch : forall ts col pre s e post kern m, kern <> [] ->
  ss_left s ts = ss_right e ts ->
  convolve_epochs ts col (pre ++ (s, e) :: post) kern m = convolve_epochs ts col (pre ++ post) kern m.
Proof. intros. unfold convolve_epochs. apply apply_epochs_empty_epoch; [apply conv_window_len_pres|]; assumption. Qed.

Theorem butter_empty_epoch : forall F, len_pres F -> forall ts col pre s e post,
  ss_left s ts = ss_right e ts ->
  butter_epochs F ts col (pre ++ (s, e) :: post) = butter_epochs F ts col (pre ++ post).
Proof. intros. unfold butter_epochs. apply apply_epochs_empty_epoch; assumption. Qed.
