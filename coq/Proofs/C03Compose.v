(* C03: restricting by a then by b = restricting by a.intersect(b), for samples farther than 1 us from
   every endpoint of a and b (the property's own exception). *)
From Verif Require Import Base.Prelude Model.Restrict Model.Iset Proofs.BaseLemmas Proofs.RestrictProofs Proofs.FixIsetProofs Proofs.C01Top Proofs.C02Top.

Lemma filter_ext_Forall {A} (p q : A -> bool) l : Forall (fun x => p x = q x) l -> filter p l = filter q l.
Proof.
  induction l as [|x r IH]; intros H; simpl; [reflexivity|].
  inversion H as [|? ? Hx Hr]; subst. rewrite Hx, (IH Hr). reflexivity.
Qed.

Theorem restrict_restrict_intersect ts a b :
  sortedZ ts -> canonical a -> canonical b ->
  Forall (fun x => far x a b) ts ->
  restrict_ts (restrict_ts ts a) b = restrict_ts ts (iset_inter a b).
Proof.
  intros Hs Ha Hb Hfar.
  rewrite (restrict_restrict ts a b Hs Ha Hb).
  rewrite (restrict_ts_spec ts (iset_inter a b) Hs).
  2:{ destruct (ops_canonical a b) as [H _]. exact H. }
  apply filter_ext_Forall.
  eapply Forall_impl'; [|exact Hfar]. intros x Hx. cbv beta in *.
  symmetry. apply wrapper_inter_mem; assumption.
Qed.

Lemma count_occ_filter (p : Z -> bool) l x :
  count_occ Z.eq_dec (filter p l) x = if p x then count_occ Z.eq_dec l x else 0%nat.
Proof.
  induction l as [|y r IH]; simpl; [destruct (p x); reflexivity|].
  destruct (p y) eqn:Hy; simpl.
  - destruct (Z.eq_dec y x) as [->|Hn]; rewrite IH; [rewrite Hy|]; reflexivity.
  - rewrite IH. destruct (Z.eq_dec y x) as [->|Hn]; [rewrite Hy|]; reflexivity.
Qed.

(* per sample (the statement's own form): a sample x farther than 1 us from every endpoint of a and b is selected by
   restrict(a).restrict(b) exactly as often (0 times, or once per copy of x in ts) as by restrict(a.intersect(b)),
   whatever the other samples are *)
Theorem restrict_restrict_intersect_sample ts a b x :
  sortedZ ts -> canonical a -> canonical b -> far x a b ->
  count_occ Z.eq_dec (restrict_ts (restrict_ts ts a) b) x = count_occ Z.eq_dec (restrict_ts ts (iset_inter a b)) x.
Proof.
  intros Hs Ha Hb Hf.
  rewrite (restrict_restrict ts a b Hs Ha Hb).
  rewrite (restrict_ts_spec ts (iset_inter a b) Hs).
  2:{ destruct (ops_canonical a b) as [H _]. exact H. }
  rewrite !count_occ_filter. rewrite (wrapper_inter_mem a b x Ha Hb Hf). reflexivity.
Qed.

(* the result's time support is ep, or empty when no sample survives: x.restrict(ep) returns through the constructor
   (Model/Store.v, OpRestrict) with the restricted timestamps and ep *)
From Verif Require Import Model.Store Proofs.StoreProofs.

Theorem restrict_support t ep :
  sup_ (mk_ts_sup (restrict_ts t ep) ep) = match restrict_ts t ep with [] => [] | _ => ep end.
Proof. reflexivity. Qed.

(* constructing with time_support = ep selects the same samples as constructing without and then restricting, for ANY
   (also unsorted) timestamps spanning a positive duration (all timestamps equal: the default support [x, x] is empty,
   known finding of C04, zero_span_default_support) *)
Theorem ctor_support_is_ctor_then_restrict t ep : canonical ep ->
  match sortZ t with
  | [] => True
  | x :: _ => x < last (sortZ t) x ->
      t_ (mk_ts_sup t ep) = t_ (mk_ts_sup (restrict_ts (t_ (mk_ts t)) ep) ep)
  end.
Proof.
  intros Hc. pose proof (mk_ts_keeps t) as K. destruct (sortZ t) as [|x r] eqn:E; [exact I|].
  intros Hlt. rewrite (K Hlt).
  rewrite restrict_keeps; [| rewrite <- E; apply sortZ_sorted | exact Hc].
  unfold mk_ts_sup. simpl. rewrite E. reflexivity.
Qed.
