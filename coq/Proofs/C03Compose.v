(* C03: restricting by a then by b = restricting by a.intersect(b), for samples farther than 1 us from
   every endpoint of a and b (the property's own exception). *)
From Verif Require Import Base.Prelude Model.Restrict Model.Iset Proofs.BaseLemmas Proofs.RestrictProofs Proofs.FixIsetProofs Proofs.C01Top Proofs.C02Top.

Lemma filter_ext_Forall {A} (p q : A -> bool) l : Forall (fun x => p x = q x) l -> filter p l = filter q l.
Proof.
  induction l as [|x r IH]; intros H; simpl; [reflexivity|].
  inversion H as [|? ? Hx Hr]; subst. rewrite Hx, (IH Hr). reflexivity.
Qed.

Theorem restrict_restrict_intersect ts a b :
  sortedZ ts -> canonical a -> canonical b ->
  Forall (fun x => far x a b) ts ->
  restrict_ts (restrict_ts ts a) b = restrict_ts ts (iset_inter a b).
Proof.
  intros Hs Ha Hb Hfar.
  rewrite (restrict_restrict ts a b Hs Ha Hb).
  rewrite (restrict_ts_spec ts (iset_inter a b) Hs).
  2:{ destruct (ops_canonical a b) as [H _]. exact H. }
  apply filter_ext_Forall.
  eapply Forall_impl'; [|exact Hfar]. intros x Hx. cbv beta in *.
  symmetry. apply wrapper_inter_mem; assumption.
Qed.

(* constructing with time_support = ep selects the same samples as constructing and then restricting:
   both are the same restrict_ts of the sorted timestamps (Model/Store.v makes this definitional);
   here: restricting an already restricted series to the same set is the identity (idempotence, C03_idempotent) *)
