(* Tier W: every object reachable by any finite sequence of public operations is well formed
   (Model/Store.v), and the constructor's final restriction loses nothing where that matters.
   No axioms. *)
From Verif Require Import Base.Prelude Model.Restrict Model.Iset Model.Count Model.ValueFrom Model.Threshold
  Model.Slice Model.Store Proofs.BaseLemmas Proofs.RestrictProofs Proofs.FixIsetProofs Proofs.C01Top
  Proofs.SliceProofs Proofs.ThresholdProofs.
From Coq Require Import ZifyBool Permutation.

(* ------------------------------------------------------------------ *)
(* small list facts                                                    *)
(* ------------------------------------------------------------------ *)
Lemma sortedZ_sortZ_id l : sortedZ l -> sortZ l = l.
Proof.
  destruct l as [|x r]; intros H; [reflexivity|].
  apply (sorted_from_sortZ_id _ x). simpl. split; [lia|exact H].
Qed.

Lemma filter_all {A} (p : A -> bool) l : Forall (fun x => p x = true) l -> filter p l = l.
Proof.
  induction l as [|x r IH]; intros H; [reflexivity|].
  inversion H as [|? ? Hx Hr]; subst. cbn [filter]. rewrite Hx, (IH Hr). reflexivity.
Qed.

Lemma restrict_all t ep :
  sortedZ t -> canonical ep -> Forall (fun x => mem x ep = true) t -> restrict_ts t ep = t.
Proof. intros Hs Hc Hm. rewrite restrict_ts_spec by assumption. apply filter_all. exact Hm. Qed.

Lemma restrict_nil_r t : restrict_ts t [] = [].
Proof. reflexivity. Qed.

Lemma sorted_from_map_fst_combine {B} l1 : forall (l2 : list B) lo,
  sorted_from lo l1 -> sorted_from lo (map fst (combine l1 l2)).
Proof.
  induction l1 as [|x r IH]; intros [|y l2] lo H; cbn [combine map fst]; try exact I.
  destruct H as [H1 H2]. split; [exact H1|]. apply IH. exact H2.
Qed.

Lemma sorted_from_map_snd_combine {B} l2 : forall (l1 : list B) lo,
  sorted_from lo l2 -> sorted_from lo (map snd (combine l1 l2)).
Proof.
  induction l2 as [|y r IH]; intros [|x l1] lo H; cbn [combine map snd]; try exact I.
  destruct H as [H1 H2]. split; [exact H1|]. apply IH. exact H2.
Qed.

(* the constructor is canonical whatever the lengths of its two arrays (combine truncates) *)
Lemma mk_iset_canonical_any ss es : canonical (mk_iset ss es).
Proof.
  unfold mk_iset. apply fix_iset_canonical.
  - destruct (sortedZ_sorted_from _ (sortZ_sorted ss)) as [b Hb].
    eapply sortedZ_from. apply sorted_from_map_fst_combine. exact Hb.
  - destruct (sortedZ_sorted_from _ (sortZ_sorted es)) as [b Hb].
    eapply sortedZ_from. apply sorted_from_map_snd_combine. exact Hb.
Qed.

(* ------------------------------------------------------------------ *)
(* 1-2. the constructors                                               *)
(* ------------------------------------------------------------------ *)
Lemma restrict_nil_l ep : canonical ep -> restrict_ts [] ep = [].
Proof. intros Hc. rewrite restrict_ts_spec by (exact I || exact Hc). reflexivity. Qed.

Lemma mk_ts_sup_WF : forall t ep, canonical ep -> WF_ts (mk_ts_sup t ep).
Proof.
  intros t ep Hc. unfold WF_ts, mk_ts_sup. cbn [t_ sup_].
  destruct (restrict_in_support (sortZ t) ep (sortZ_sorted t) Hc) as [Hm Hs].
  destruct t as [|y r].
  - change (sortZ []) with (@nil Z). rewrite (restrict_nil_l ep Hc).
    (split; [exact I|split; [constructor|exact I]]).
  - repeat split; assumption.
Qed.

Lemma mk_ts_WF : forall t, WF_ts (mk_ts t).
Proof.
  intros t. unfold mk_ts. cbv zeta.
  destruct (sortZ t) as [|x r].
  - unfold WF_ts. cbn [t_ sup_]. (split; [exact I|split; [constructor|exact I]]).
  - apply mk_ts_sup_WF. apply mk_iset_canonical. reflexivity.
Qed.

Lemma empty_ts_WF : WF_ts empty_ts.
Proof. unfold WF_ts, empty_ts. cbn [t_ sup_]. (split; [exact I|split; [constructor|exact I]]). Qed.

(* ------------------------------------------------------------------ *)
(* store access                                                        *)
(* ------------------------------------------------------------------ *)
Lemma nth_WF st i : Forall WF_obj st -> WF_obj (nth i st (OEp [])).
Proof.
  intros H. destruct (nth_in_or_default i st (OEp [])) as [Hin| ->].
  - rewrite Forall_forall in H. apply H. exact Hin.
  - exact I.
Qed.

Lemma get_ts_WF st i : Forall WF_obj st -> WF_ts (get_ts st i).
Proof.
  intros H. unfold get_ts. pose proof (nth_WF st i H) as Hn.
  destruct (nth i st (OEp [])) as [x|e]; [exact Hn|apply empty_ts_WF].
Qed.

Lemma get_ep_canonical st i : Forall WF_obj st -> canonical (get_ep st i).
Proof.
  intros H. unfold get_ep. pose proof (nth_WF st i H) as Hn.
  destruct (nth i st (OEp [])) as [x|e]; [|exact Hn].
  destruct Hn as (_ & _ & Hc). exact Hc.
Qed.

(* ------------------------------------------------------------------ *)
(* 3. one step                                                         *)
(* ------------------------------------------------------------------ *)
Theorem step_WF : forall st o, Forall WF_obj st -> WF_obj (step st o).
Proof.
  intros st o H.
  destruct o; cbn [step]; cbv zeta; cbn [WF_obj].
  - apply mk_ts_WF.
  - apply mk_ts_sup_WF. apply get_ep_canonical; exact H.
  - apply mk_iset_canonical_any.
  - destruct (get_ts_WF st i H) as (_ & _ & Hc). exact Hc.
  - apply mk_ts_sup_WF. apply get_ep_canonical; exact H.
  - apply mk_ts_sup_WF. destruct (get_ts_WF st i H) as (_ & _ & Hc). exact Hc.
  - apply mk_ts_sup_WF. apply get_ep_canonical; exact H.
  - apply mk_ts_sup_WF. apply get_ep_canonical; exact H.
  - apply mk_ts_sup_WF. apply mk_iset_pairs_canonical.
  - destruct (forallb _ _); cbn [WF_obj]; apply mk_ts_sup_WF.
    + destruct (get_ts_WF st i H) as (_ & _ & Hc). exact Hc.
    + apply mk_iset_pairs_canonical.
  - apply mk_iset_pairs_canonical.
  - apply mk_iset_pairs_canonical.
  - apply mk_iset_pairs_canonical.
  - destruct (get_ep st i) as [|[s e] r]; [exact I|]. apply mk_iset_canonical. reflexivity.
  - apply mk_iset_pairs_canonical.
  - apply mk_iset_pairs_canonical.
Qed.

(* ------------------------------------------------------------------ *)
(* 4-5. any finite run                                                 *)
(* ------------------------------------------------------------------ *)
Lemma run_from_WF : forall ops st, Forall WF_obj st ->
  Forall WF_obj (fold_left (fun st o => st ++ [step st o]) ops st).
Proof.
  induction ops as [|o ops IH]; intros st H; cbn [fold_left]; [exact H|].
  apply IH. apply Forall_app. split; [exact H|].
  constructor; [apply step_WF; exact H|constructor].
Qed.

Theorem run_WF : forall ops, Forall WF_obj (run ops).
Proof. intros ops. unfold run. apply run_from_WF. constructor. Qed.

Lemma run_from_length : forall ops st,
  length (fold_left (fun st o => st ++ [step st o]) ops st) = (length st + length ops)%nat.
Proof.
  induction ops as [|o ops IH]; intros st; cbn [fold_left length]; [lia|].
  rewrite IH, app_length. cbn [length]. lia.
Qed.

Theorem run_length : forall ops, length (run ops) = length ops.
Proof. intros ops. unfold run. rewrite run_from_length. reflexivity. Qed.

(* the k-th object of a run is well formed (pointwise reading of run_WF) *)
Corollary run_nth_WF : forall ops k, WF_obj (nth k (run ops) (OEp [])).
Proof. intros ops k. apply nth_WF. apply run_WF. Qed.

(* ------------------------------------------------------------------ *)
(* 6. the constructor's final restriction loses nothing                *)
(* ------------------------------------------------------------------ *)
Lemma mk_ts_sup_keeps t ep :
  sortedZ t -> canonical ep -> Forall (fun x => mem x ep = true) t -> t_ (mk_ts_sup t ep) = t.
Proof.
  intros Hs Hc Hm. unfold mk_ts_sup. cbn [t_].
  rewrite (sortedZ_sortZ_id t Hs). apply restrict_all; assumption.
Qed.

Theorem restrict_keeps : forall t ep, sortedZ t -> canonical ep ->
  t_ (mk_ts_sup (restrict_ts t ep) ep) = restrict_ts t ep.
Proof.
  intros t ep Hs Hc. destruct (restrict_in_support t ep Hs Hc) as [Hm Hs'].
  apply mk_ts_sup_keeps; assumption.
Qed.

Theorem get_keeps : forall x a b, WF_ts x ->
  t_ (mk_ts_sup (get_times a b (t_ x)) (sup_ x)) = get_times a b (t_ x).
Proof.
  intros x a b (Hs & Hm & Hc). apply mk_ts_sup_keeps; [| exact Hc |].
  - rewrite get_times_spec by exact Hs. apply filter_sortedZ. exact Hs.
  - rewrite get_times_spec by exact Hs. apply Forall_forall. intros v Hv.
    apply filter_In in Hv. rewrite Forall_forall in Hm. apply Hm. tauto.
Qed.

(* value_from goes through the same path as restrict *)
Corollary value_from_keeps : forall st i k j, Forall WF_obj st ->
  step st (OpValueFrom i k j)
  = OTs (mk_ts_sup (restrict_ts (t_ (get_ts st i)) (get_ep st j)) (get_ep st j))
  /\ t_ (mk_ts_sup (restrict_ts (t_ (get_ts st i)) (get_ep st j)) (get_ep st j))
     = restrict_ts (t_ (get_ts st i)) (get_ep st j).
Proof.
  intros st i k j H. split; [reflexivity|].
  apply restrict_keeps; [|apply get_ep_canonical; exact H].
  destruct (get_ts_WF st i H) as (Hs & _). exact Hs.
Qed.

Lemma last_cons_indep (r : list Z) : forall y d d', last (y :: r) d = last (y :: r) d'.
Proof.
  induction r as [|z r IH]; intros y d d'; [reflexivity|].
  change (last (y :: z :: r) d) with (last (z :: r) d).
  change (last (y :: z :: r) d') with (last (z :: r) d'). apply IH.
Qed.

Lemma sorted_from_le_last r : forall x, sorted_from x r -> Forall (fun y => y <= last (x :: r) x) (x :: r).
Proof.
  induction r as [|y r IH]; intros x H.
  - constructor; [cbn [last]; lia|constructor].
  - destruct H as [H1 H2]. specialize (IH y H2).
    assert (E : last (x :: y :: r) x = last (y :: r) y).
    { change (last (x :: y :: r) x) with (last (y :: r) x). apply last_cons_indep. }
    rewrite E. constructor.
    + inversion IH as [|? ? Hy _]; subst. lia.
    + exact IH.
Qed.

Theorem mk_ts_keeps : forall t,
  match sortZ t with [] => True | x :: _ => x < last (sortZ t) x -> t_ (mk_ts t) = sortZ t end.
Proof.
  intros t. unfold mk_ts. cbv zeta. pose proof (sortZ_sorted t) as Hs.
  destruct (sortZ t) as [|x r]; [exact I|]. intros Hlt.
  set (s := x :: r) in *.
  assert (Ei : mk_iset [x] [last s x] = [(x, last s x)]).
  { apply (mk_iset_canonical_id [(x, last s x)]). simpl. auto. }
  rewrite Ei. apply mk_ts_sup_keeps; [exact Hs|simpl; auto|].
  pose proof (sortedZ_cons_Forall x r Hs) as Hlo.
  pose proof (sorted_from_le_last r x Hs) as Hhi. fold s in Hhi.
  apply Forall_forall. intros v Hv. rewrite Forall_forall in Hlo, Hhi.
  specialize (Hhi v Hv). cbn [mem existsb]. unfold inb. cbn [fst snd].
  destruct Hv as [<-|Hv]; [lia|]. specialize (Hlo v Hv). lia.
Qed.

Lemma sorted_from_repeat x n : sorted_from x (repeat x n).
Proof. induction n as [|n IH]; cbn [repeat]; [exact I|]. split; [lia|exact IH]. Qed.

Lemma last_repeat (x : Z) n : last (repeat x (S n)) x = x.
Proof.
  induction n as [|n IH]; [reflexivity|].
  change (last (repeat x (S (S n))) x) with (last (repeat x (S n)) x). exact IH.
Qed.

(* a zero-span series gets an EMPTY default support and loses its samples (known library quirk) *)
Theorem mk_ts_zero_span : forall x n, t_ (mk_ts (repeat x (S n))) = [].
Proof.
  intros x n. unfold mk_ts. cbv zeta.
  assert (E : sortZ (repeat x (S n)) = repeat x (S n)).
  { apply sortedZ_sortZ_id. cbn [repeat sortedZ]. apply sorted_from_repeat. }
  rewrite E. change (repeat x (S n)) with (x :: repeat x n) at 1.
  cbv iota. rewrite last_repeat.
  assert (Ei : mk_iset [x] [x] = []).
  { unfold mk_iset. rewrite (sorted_from_sortZ_id [x] x) by (simpl; lia).
    cbn [combine]. unfold fix_iset. cbn [fix_go]. destruct (x <=? x) eqn:E1; [reflexivity|lia]. }
  rewrite Ei. reflexivity.
Qed.

Example mk_ts_singleton : mk_ts [5] = {| t_ := []; sup_ := [] |}.
Proof. vm_compute. reflexivity. Qed.

(* ------------------------------------------------------------------ *)
(* 6d. threshold: on even ticks the halved midpoints are exact and the  *)
(*     constructor keeps every sample above the threshold              *)
(* ------------------------------------------------------------------ *)
Definition ev (v : Z) : Prop := v mod 2 = 0.
Definition ev_iv (iv : Z * Z) : Prop := ev (fst iv) /\ ev (snd iv).

Lemma ev_add a b : ev a -> ev b -> ev (a + b).
Proof. unfold ev. intros Ha Hb. rewrite Z.add_mod, Ha, Hb by lia. reflexivity. Qed.
Lemma ev_double a : ev (2 * a).
Proof. unfold ev. rewrite Z.mul_comm. apply Z.mod_mul. lia. Qed.
Lemma ev_half a : ev a -> 2 * (a / 2) = a.
Proof. unfold ev. intros H. pose proof (Z.div_mod a 2). lia. Qed.

Lemma thr_go_even l : forall prev ep SS EE,
  thr_go prev ep l = (SS, EE) ->
  Forall ev (map fst l) ->
  match prev with Some (p, _) => ev p | None => True end ->
  Forall ev SS /\ Forall ev EE.
Proof.
  induction l as [|[x kx] r IH]; intros prev ep SS EE H Hl Hp.
  - cbn [thr_go] in H. inversion H; subst. split; constructor.
  - cbn [map fst] in Hl. inversion Hl as [|? ? Hx Hr]; subst.
    cbn [thr_go] in H. cbv zeta in H.
    destruct (hd (0, 0) (advance x ep)) as [s e].
    destruct (thr_go (Some (x, kx)) (advance x ep) r) as [SS' EE'] eqn:E.
    destruct (IH _ _ _ _ E Hr Hx) as [I1 I2].
    destruct kx; [|inversion H; subst; split; assumption].
    assert (Hy : match r with (y, _) :: _ => ev y | [] => True end).
    { destruct r as [|[y ky] r']; [exact I|]. cbn [map fst] in Hr. inversion Hr; assumption. }
    inversion H; subst; clear H. split; apply Forall_app; (split; [|assumption]).
    + destruct (_ || _); [|constructor]. constructor; [|constructor].
      destruct (negb _).
      * destruct prev as [[p kp]|]; apply ev_add; assumption.
      * destruct (match r with [] => true | _ => _ end); apply ev_double.
    + destruct (_ || _); [|constructor]. constructor; [|constructor].
      destruct (negb _).
      * destruct r as [|[y ky] r']; apply ev_add; assumption.
      * destruct (match prev with None => true | _ => _ end); apply ev_double.
Qed.

Lemma threshold_support_even ep l :
  Forall ev (map fst l) -> Forall ev_iv (threshold_support ep l).
Proof.
  intros Hl. unfold threshold_support.
  destruct (thr_go None ep l) as [SS EE] eqn:E.
  destruct (thr_go_even l None ep SS EE E Hl I) as [H1 H2].
  rewrite Forall_forall in *. intros [a b] Hin. split; cbn [fst snd].
  - apply H1. eapply in_combine_l; exact Hin.
  - apply H2. eapply in_combine_r; exact Hin.
Qed.

Lemma halve_mem D : Forall ev_iv D -> forall v, mem v (halve_iset D) = mem (2 * v) D.
Proof.
  induction D as [|[s e] r IH]; intros H v; [reflexivity|].
  inversion H as [|? ? [Hs He] Hr]; subst. cbn [fst snd] in Hs, He.
  cbn [halve_iset map]. fold (halve_iset r). rewrite !mem_cons, (IH Hr v). f_equal.
  unfold inb. cbn [fst snd].
  pose proof (ev_half s Hs). pose proof (ev_half e He). lia.
Qed.

Lemma halve_canonical D : Forall ev_iv D -> canonical D -> canonical (halve_iset D).
Proof.
  induction D as [|[s e] r IH]; intros H Hc; [exact I|].
  inversion H as [|? ? [Hs He] Hr]; subst. cbn [fst snd] in Hs, He.
  cbn [halve_iset map]. fold (halve_iset r).
  destruct Hc as (H1 & H2 & H3). specialize (IH Hr H3).
  pose proof (ev_half s Hs). pose proof (ev_half e He).
  split; [lia|]. split; [|exact IH].
  destruct r as [|[s' e'] r']; [exact I|]. cbn [halve_iset map].
  inversion Hr as [|? ? [Hs' _] _]; subst. cbn [fst] in Hs'.
  pose proof (ev_half s' Hs'). lia.
Qed.

Lemma si_sorted_from r : forall x, strictly_increasing (x :: r) -> sorted_from x r.
Proof.
  induction r as [|y r IH]; intros x H; [exact I|].
  destruct H as [H1 H2]. split; [lia|]. apply IH. exact H2.
Qed.

Lemma si_sortedZ l : strictly_increasing l -> sortedZ l.
Proof. destruct l as [|x r]; [auto|]. apply si_sorted_from. Qed.

Lemma kept_sorted_from l : forall lo, sorted_from lo (map fst l) -> sorted_from lo (kept_times l).
Proof.
  unfold kept_times. induction l as [|[x k] r IH]; intros lo H; [exact I|].
  cbn [map fst] in H. destruct H as [H1 H2]. cbn [filter snd].
  destruct k; cbn [map fst].
  - split; [exact H1|]. apply IH. exact H2.
  - apply IH. eapply sorted_from_weaken; eassumption.
Qed.

Lemma kept_sortedZ l : sortedZ (map fst l) -> sortedZ (kept_times l).
Proof.
  intros H. destruct (sortedZ_sorted_from _ H) as [b Hb].
  eapply sortedZ_from. apply kept_sorted_from. exact Hb.
Qed.

Theorem threshold_keeps : forall x mask,
  WF_ts x -> strictly_increasing (t_ x) -> Forall (fun v => v mod 2 = 0) (t_ x) ->
  length mask = length (t_ x) ->
  let l := combine (t_ x) mask in
  mk_iset_pairs (halve_iset (threshold_support (sup_ x) l)) = halve_iset (threshold_support (sup_ x) l)
  /\ t_ (mk_ts_sup (kept_times l) (mk_iset_pairs (halve_iset (threshold_support (sup_ x) l))))
     = kept_times l.
Proof.
  intros x mask (Hs & Hm & Hc) Hsi Hev Hlen l.
  assert (Ef : map fst l = t_ x) by (apply map_fst_combine; symmetry; exact Hlen).
  assert (Hsi' : strictly_increasing (map fst l)) by (rewrite Ef; exact Hsi).
  assert (Hm' : Forall (fun v => mem v (sup_ x) = true) (map fst l)) by (rewrite Ef; exact Hm).
  assert (Hev' : Forall ev (map fst l)) by (rewrite Ef; exact Hev).
  pose proof (threshold_support_even (sup_ x) l Hev') as HE.
  pose proof (thr_support_canonical (sup_ x) l Hc Hsi' Hm') as HC.
  pose proof (thr_contains_kept (sup_ x) l Hc Hsi' Hm') as HK.
  pose proof (halve_canonical _ HE HC) as HH.
  assert (Eid : mk_iset_pairs (halve_iset (threshold_support (sup_ x) l))
                = halve_iset (threshold_support (sup_ x) l)) by (apply mk_iset_canonical_id; exact HH).
  split; [exact Eid|]. rewrite Eid. apply mk_ts_sup_keeps.
  - apply kept_sortedZ. rewrite Ef. exact Hs.
  - exact HH.
  - eapply Forall_impl'; [|exact HK]. intros v Hv. cbv beta in Hv.
    rewrite halve_mem by exact HE. exact Hv.
Qed.

(* the same fact read on the store: the object produced by OpThreshold *)
Corollary threshold_step_keeps : forall st i mask,
  Forall WF_obj st ->
  strictly_increasing (t_ (get_ts st i)) -> Forall (fun v => v mod 2 = 0) (t_ (get_ts st i)) ->
  length mask = length (t_ (get_ts st i)) ->
  exists y, step st (OpThreshold i mask) = OTs y
            /\ t_ y = kept_times (combine (t_ (get_ts st i)) mask).
Proof.
  intros st i mask H Hsi Hev Hlen. eexists. split; [reflexivity|].
  apply (threshold_keeps (get_ts st i) mask (get_ts_WF st i H) Hsi Hev Hlen).
Qed.

(* the support given to the constructor is kept whenever the input index is non-empty *)
Lemma mk_ts_sup_support t ep : t <> [] -> sup_ (mk_ts_sup t ep) = ep.
Proof. destruct t; [congruence|reflexivity]. Qed.

(* dropna with no rejected row returns the series unchanged (timestamps and support) *)
Theorem dropna_all_kept_keeps : forall st i mask, Forall WF_obj st ->
  forallb (fun p : Z * bool => snd p) (combine (t_ (get_ts st i)) mask) = true ->
  exists y, step st (OpDropna i mask) = OTs y /\ t_ y = t_ (get_ts st i)
            /\ (t_ (get_ts st i) <> [] -> sup_ y = sup_ (get_ts st i)).
Proof.
  intros st i mask H Hall. cbn [step]. cbv zeta. rewrite Hall. eexists. split; [reflexivity|].
  destruct (get_ts_WF st i H) as (Hs & Hm & Hc). split.
  - apply mk_ts_sup_keeps; assumption.
  - apply mk_ts_sup_support.
Qed.

Print Assumptions mk_ts_sup_WF.
Print Assumptions mk_ts_WF.
Print Assumptions step_WF.
Print Assumptions run_WF.
Print Assumptions run_length.
Print Assumptions restrict_keeps.
Print Assumptions get_keeps.
Print Assumptions mk_ts_keeps.
Print Assumptions mk_ts_zero_span.
Print Assumptions threshold_keeps.
Print Assumptions threshold_step_keeps.
Print Assumptions dropna_all_kept_keeps.
