(* Functional correctness of the TRANSLATED _overlap_split (pynapple/process/spectrum.py, with the
   repaired inner loop `while t + interval_size < end[k] and n <= N`) against the executable model
   [overlap_split] of Model/Spectrum.v (the model the C19 theorems of Proofs/Spectrum*Proofs.v are
   about), by proof (partial correctness through [run_sound], as in Inv/Jitrestrict_func.v):

     for EVERY list ep of (start_i, end_i) ticks with start_i <= end_i (no order between the epochs is
     needed; canonical interval sets are a special case), every window length L and step st with
     0 < st <= L (ticks) and every rational overlap ov with (1 - ov) * L = st (hence 0 <= ov < 1),
     running the translated kernel on  start, end, interval_size = L * 1e-9, overlap = ov  returns,
     whenever it returns, exactly the (zlen o) x 2 array of  o = overlap_split ep L st.

   Encoding: a tick t (nanoseconds) is the float t * 1e-9, i.e. the reduced fraction [qtick t] of
   Inv/Jitfix_iset_func.v; interval_size is [qtick L]; overlap is ANY rational ov (reduced or not)
   satisfying [step_ok L st ov]; [ovq L st] = (L - st) / L is the canonical choice.  Every float
   operation of the interpreter reduces its result, so that the kernel's
   t += (1 - overlap) * interval_size  is exactly  qtick (t + st)  ([fadd_q], [step_q]) and
   N = int(np.ceil(np.sum(end - start) / (interval_size * (1 - overlap))))  is exactly
   [nrows ep st] = ceil(tot_length ep / st) = alloc_rows ep st - 1  ([N_value]).

   The guard `n <= N` added by the repair NEVER fires in exact arithmetic ([guard_never_fires]): the
   functional invariant carries the content of the former safety lemma rows_bound,
       rows emitted so far * st  <=  duration of the epochs scanned so far          (outer loop)
       (rows emitted + 1) * st   <   duration scanned + (end[k] - start[k])  when a further window fits,
   so that  n < N  whenever  t + interval_size < end[k]: the loop leaves only because the window does
   not fit any more, as in the model.  BOTH hypotheses are needed for this: with st > L (a negative
   overlap) or with an inverted epoch the guard does fire and the kernel returns fewer rows than the
   model ([hypothesis_st_le_L_needed], [hypothesis_start_le_end_needed], by computation). *)
From Coq Require Import ZArith QArith Qround String List Bool Lia.
From Verif Require Import Base.Prelude Model.Spectrum Proofs.BaseLemmas Proofs.SpectrumIndexProofs.
From Verif Require Import Jit.Lang Jit.Interp Jit.Safety Jit.Tactics Jit.ArrayFacts Jit.FloatFacts Gen.Kernels.
From Verif Require Import Inv.Jitrestrict_func Inv.Jitfix_iset_func.
Import ListNotations.
Open Scope Z_scope.

(* ---------- exact-rational facts on embedded ticks ---------- *)
Lemma qtick_0 : qtick 0 = 0%Q.
Proof. reflexivity. Qed.

Lemma fadd_q : forall a b, fadd (Some (qtick a)) (Some (qtick b)) = Some (qtick (a + b)).
Proof.
  intros a b. unfold fadd, f2, qsome, qtick. f_equal. apply Qred_complete.
  rewrite (Qred_correct (a # 1000000000)), (Qred_correct (b # 1000000000)).
  unfold Qeq, Qplus. simpl. lia.
Qed.
Lemma fsub_q : forall a b, fsub (Some (qtick a)) (Some (qtick b)) = Some (qtick (a - b)).
Proof.
  intros a b. unfold fsub, f2, qsome, qtick. f_equal. apply Qred_complete.
  rewrite (Qred_correct (a # 1000000000)), (Qred_correct (b # 1000000000)).
  unfold Qeq, Qminus, Qplus, Qopp. simpl. lia.
Qed.

(* the step (1 - overlap) * interval_size, in both orders of the product *)
Definition step_ok (L st : Z) (ov : Q) : Prop := ((1 - ov) * inject_Z L == inject_Z st)%Q.

Lemma step_q : forall L st ov, step_ok L st ov ->
  fmul (fsub (Some (qz 1)) (Some ov)) (Some (qtick L)) = Some (qtick st).
Proof.
  intros L st ov H. unfold fmul, fsub, f2, qsome, qtick, qz. f_equal. apply Qred_complete.
  rewrite (Qred_correct (1 - ov)), (Qred_correct (L # 1000000000)).
  setoid_replace (L # 1000000000)%Q with (inject_Z L * (1 # 1000000000))%Q
    by (unfold Qeq, Qmult, inject_Z; simpl; lia).
  setoid_replace (st # 1000000000)%Q with (inject_Z st * (1 # 1000000000))%Q
    by (unfold Qeq, Qmult, inject_Z; simpl; lia).
  rewrite Qmult_assoc. unfold step_ok in H. change (inject_Z 1) with 1%Q. rewrite H. reflexivity.
Qed.
Lemma step_q' : forall L st ov, step_ok L st ov ->
  fmul (Some (qtick L)) (fsub (Some (qz 1)) (Some ov)) = Some (qtick st).
Proof.
  intros L st ov H. rewrite <- (step_q L st ov H). unfold fmul, fsub, f2, qsome. f_equal.
  apply Qred_complete. apply Qmult_comm.
Qed.

Lemma sum_diff_q : forall ep a,
  fold_left (fun acc v => fadd acc (to_flt v))
            (map2 (fun x y => VFlt (fsub (to_flt x) (to_flt y))) (qcells (seconds ep)) (qcells (firsts ep)))
            (Some (qtick a))
  = Some (qtick (a + tot_length ep)).
Proof.
  induction ep as [|[s e] r IH]; intros a.
  - simpl. f_equal. f_equal. lia.
  - cbn [seconds firsts qcells map snd fst tot_length]. unfold map2; fold (@map2 sval sval sval).
    cbn [fold_left to_flt qcell]. rewrite fsub_q, fadd_q.
    change (map snd r) with (seconds r). change (map fst r) with (firsts r).
    change (map qcell (seconds r)) with (qcells (seconds r)).
    change (map qcell (firsts r)) with (qcells (firsts r)).
    rewrite IH. f_equal. f_equal. lia.
Qed.

Lemma sum_flt_q : forall ep,
  sum_flt (map2 (fun x y => VFlt (fsub (to_flt x) (to_flt y))) (qcells (seconds ep)) (qcells (firsts ep)))
  = Some (qtick (tot_length ep)).
Proof. intros. unfold sum_flt. change (Some 0%Q) with (Some (qtick 0)). apply sum_diff_q. Qed.

Definition nrows (ep : iset) (st : Z) : Z := (tot_length ep + st - 1) / st.

Lemma Qceiling_frac : forall a b, 0 < b -> Qceiling (a # Z.to_pos b) = (a + b - 1) / b.
Proof.
  intros a b Hb.
  pose proof (Qle_ceiling (a # Z.to_pos b)) as H1. pose proof (Qceiling_lt (a # Z.to_pos b)) as H2.
  set (c := Qceiling (a # Z.to_pos b)) in *.
  unfold Qle, Qlt, inject_Z in *. simpl in *. rewrite Z2Pos.id in * by lia.
  apply Z.div_unique with (r := a + b - 1 - b * c); lia.
Qed.

(* N = int(np.ceil(np.sum(end - start) / step)) is ceil(total duration / step), on ticks *)
Lemma N_value : forall ep st x, 0 < st -> x = Some (qtick st) ->
  to_int (eval_unop ToInt (eval_unop Ceil (VFlt (fdiv (Some (qtick (tot_length ep))) x)))) = nrows ep st.
Proof.
  intros ep st x Hst ->. unfold fdiv, f2.
  assert (Hz : Qeq_bool (qtick st) 0 = false).
  { change 0%Q with (qtick 0). rewrite Qeq_bool_qtick. apply Z.eqb_neq. lia. }
  rewrite Hz. unfold qsome, eval_unop. cbn [to_int]. rewrite qtrunc_qz.
  unfold nrows. rewrite <- Qceiling_frac by lia. apply Qceiling_comp.
  rewrite Qred_correct, !qtick_eq.
  unfold Qeq, Qdiv, Qmult, Qinv. simpl. destruct st; try lia. simpl. lia.
Qed.

#[local] Hint Rewrite zlen_qcells zlen_firsts zlen_seconds : zlen.

Lemma pcells_app : forall a b, pcells (a ++ b) = (pcells a ++ pcells b)%list.
Proof. intros. unfold pcells. apply flat_map_app. Qed.

Lemma tot_length_app : forall a b, tot_length (a ++ b) = tot_length a + tot_length b.
Proof. induction a as [|[s e] r IH]; intros b; simpl; [reflexivity|]. rewrite IH. lia. Qed.

Lemma overlap_split_app : forall a b L st,
  overlap_split (a ++ b) L st = (overlap_split a L st ++ overlap_split b L st)%list.
Proof. intros. unfold overlap_split. rewrite map_app, concat_app. reflexivity. Qed.

Lemma tot_length_nonneg : forall ep, Forall (fun I => fst I <= snd I) ep -> 0 <= tot_length ep.
Proof. induction 1 as [|[s e] r H _ IH]; simpl in *; lia. Qed.

Section Model.
Variable ep : iset.
Variables L st : Z.
Hypothesis ep_ok : Forall (fun I => fst I <= snd I) ep.
Hypothesis st_ok : 0 < st <= L.

Definition sk (k : Z) : Z := tk (firsts ep) k.
Definition ek (k : Z) : Z := tk (seconds ep) k.
Definition done (k : Z) : list (Z * Z) := overlap_split (firstn (Z.to_nat k) ep) L st.
Definition dur (k : Z) : Z := tot_length (firstn (Z.to_nat k) ep).
Definition segs (s j : Z) : list (Z * Z) :=
  map (fun i => (s + Z.of_nat i * st, s + Z.of_nat i * st + L)) (List.seq 0 (Z.to_nat j)).

Lemma nth_ep : forall k, 0 <= k < zlen ep -> nth (Z.to_nat k) ep (0, 0) = (sk k, ek k).
Proof.
  intros k H. unfold sk, ek, tk, firsts, seconds.
  assert (Hn : (Z.to_nat k < length ep)%nat) by (unfold zlen in H; lia).
  rewrite (nth_indep (map fst ep) 0 (fst (0, 0))) by (rewrite map_length; lia).
  rewrite (nth_indep (map snd ep) 0 (snd (0, 0))) by (rewrite map_length; lia).
  rewrite !map_nth. destruct (nth (Z.to_nat k) ep (0, 0)); reflexivity.
Qed.

Lemma firstn_succ_ep : forall k, 0 <= k < zlen ep ->
  firstn (Z.to_nat (k + 1)) ep = (firstn (Z.to_nat k) ep ++ [(sk k, ek k)])%list.
Proof.
  intros k H. replace (Z.to_nat (k + 1)) with (S (Z.to_nat k)) by lia.
  rewrite (firstn_snoc ep (Z.to_nat k) (0, 0)) by (unfold zlen in H; lia).
  rewrite nth_ep by assumption. reflexivity.
Qed.

Lemma sk_le_ek : forall k, 0 <= k < zlen ep -> sk k <= ek k.
Proof.
  intros k H. pose proof (nth_ep k H) as E.
  assert (I : In (nth (Z.to_nat k) ep (0, 0)) ep) by (apply nth_In; unfold zlen in H; lia).
  eapply Forall_forall in I; [|exact ep_ok]. rewrite E in I. exact I.
Qed.

Lemma dur_succ : forall k, 0 <= k < zlen ep -> dur (k + 1) = dur k + (ek k - sk k).
Proof. intros k H. unfold dur. rewrite firstn_succ_ep by assumption. rewrite tot_length_app. simpl. lia. Qed.

Lemma done_succ : forall k, 0 <= k < zlen ep ->
  done (k + 1) = (done k ++ seg_go (seg_fuel (sk k) (ek k) st) (sk k) (ek k) L st)%list.
Proof.
  intros k H. unfold done. rewrite firstn_succ_ep by assumption. rewrite overlap_split_app.
  f_equal. unfold overlap_split. simpl. apply app_nil_r.
Qed.

Lemma dur_le : forall k, 0 <= k <= zlen ep -> dur k <= tot_length ep.
Proof.
  intros k H. unfold dur. rewrite <- (firstn_skipn (Z.to_nat k) ep) at 2. rewrite tot_length_app.
  assert (0 <= tot_length (skipn (Z.to_nat k) ep)); [|lia].
  apply tot_length_nonneg. apply Forall_forall. intros x Hx.
  eapply Forall_forall in ep_ok; [exact ep_ok|]. rewrite <- (firstn_skipn (Z.to_nat k) ep).
  apply in_or_app; right; exact Hx.
Qed.

Lemma rows_le : forall n, n * st <= tot_length ep -> n <= nrows ep st.
Proof. intros n H. unfold nrows. apply Z.div_le_lower_bound; lia. Qed.

Lemma nrows_nonneg : 0 <= nrows ep st.
Proof. apply rows_le. pose proof (tot_length_nonneg ep ep_ok). lia. Qed.

Lemma zlen_segs : forall s j, 0 <= j -> zlen (segs s j) = j.
Proof. intros. unfold segs, zlen. rewrite map_length, seq_length. lia. Qed.

Lemma segs_snoc : forall s j, 0 <= j -> segs s (j + 1) = (segs s j ++ [(s + j * st, s + j * st + L)])%list.
Proof.
  intros s j H. unfold segs. replace (Z.to_nat (j + 1)) with (S (Z.to_nat j)) by lia.
  rewrite seq_S, map_app. simpl. rewrite Z2Nat.id by lia. reflexivity.
Qed.

(* the inner loop of the model, once the kernel's loop has stopped after j rows *)
Lemma segs_exit : forall s e j, 0 <= j -> (j = 0 \/ s + (j - 1) * st + L < e) -> e <= s + j * st + L ->
  seg_go (seg_fuel s e st) s e L st = segs s j.
Proof.
  intros s e j Hj Hlast Hstop. rewrite seg_go_spec by lia. unfold segs.
  assert (E : seg_count s e L st = Z.to_nat j); [|rewrite E; reflexivity].
  destruct (Nat.lt_trichotomy (seg_count s e L st) (Z.to_nat j)) as [C|[C|C]]; [|exact C|].
  - exfalso. assert (N : ~ (seg_count s e L st < seg_count s e L st)%nat) by lia.
    rewrite seg_count_iff in N by lia. destruct Hlast as [->|Hl]; [simpl in C; lia|]. nia.
  - exfalso. apply seg_count_iff in C; [|lia]. rewrite Z2Nat.id in C by lia. lia.
Qed.

Definition F0 (k n : Z) (d : list sval) : Prop :=
  zlen (done k) = n /\ zlen d = (nrows ep st + 1) * 2
  /\ firstn (Z.to_nat (2 * n)) d = pcells (done k) /\ n * st <= dur k.
Definition F1 (k n0 : Z) (d0 : list sval) (n : Z) (d : list sval) (t : option Q) : Prop :=
  exists j, 0 <= j /\ t = Some (qtick (sk k + j * st)) /\ n = n0 + j /\ zlen d = zlen d0
    /\ firstn (Z.to_nat (2 * n)) d = (firstn (Z.to_nat (2 * n0)) d0 ++ pcells (segs (sk k) j))%list
    /\ (j = 0 \/ sk k + (j - 1) * st + L < ek k).

Lemma F0_nonneg : forall k n d, F0 k n d -> 0 <= n.
Proof. intros k n d [H _]. rewrite <- H. apply zlen_nonneg. Qed.
Lemma F1_nonneg : forall k n0 d0 n d t, 0 <= n0 -> F1 k n0 d0 n d t -> 0 <= n.
Proof. intros k n0 d0 n d t H (j & Hj & _ & -> & _). lia. Qed.

Lemma T0_init : F0 0 0 (zeros DFlt (Z.max 0 (nrows ep st + 1) * 2) (VInt 0)).
Proof.
  pose proof nrows_nonneg. unfold F0, done, dur. simpl. repeat split; try lia.
  rewrite zlen_zeros. lia.
Qed.

Lemma T1_init : forall k n d, F0 k n d -> F1 k n d n d (Some (qtick (sk k))).
Proof.
  intros k n d _. exists 0. repeat split; try lia.
  - f_equal. f_equal. lia.
  - simpl. rewrite app_nil_r. reflexivity.
Qed.

(* the guard n <= N never fires: a further window fits in the duration scanned so far *)
Lemma guard_never_fires : forall k n0 d0 n d q, F0 k n0 d0 -> F1 k n0 d0 n d q -> 0 <= k < zlen ep ->
  cmp_flt Lt (fadd q (Some (qtick L))) (Some (qtick (ek k))) = true -> n < nrows ep st.
Proof.
  intros k n0 d0 n d q (_ & _ & _ & Hb) (j & Hj & -> & -> & _) Hk Hc.
  rewrite fadd_q, cmp_lt_q in Hc. apply Z.ltb_lt in Hc.
  pose proof (dur_succ k Hk). pose proof (dur_le (k + 1) ltac:(lia)).
  assert (n0 + j + 1 <= nrows ep st); [|lia]. apply rows_le. nia.
Qed.

Lemma T1_step : forall k n0 d0 n d q, F0 k n0 d0 -> F1 k n0 d0 n d q -> 0 <= k < zlen ep ->
  cmp_flt Lt (fadd q (Some (qtick L))) (Some (qtick (ek k))) = true ->
  F1 k n0 d0 (n + 1) (updZ (updZ d (n * 2 + 0) (VFlt q)) (n * 2 + 1) (VFlt (fadd q (Some (qtick L)))))
     (fadd q (Some (qtick st))).
Proof.
  intros k n0 d0 n d q I0 I1 Hk Hc. pose proof (guard_never_fires _ _ _ _ _ _ I0 I1 Hk Hc) as Hn.
  pose proof (F0_nonneg _ _ _ I0) as Hn0.
  destruct I0 as (_ & Hd0 & _ & _). destruct I1 as (j & Hj & -> & -> & Hd & Hf & Hl).
  rewrite fadd_q, cmp_lt_q in Hc. apply Z.ltb_lt in Hc.
  exists (j + 1). repeat split.
  - lia.
  - rewrite fadd_q. f_equal. f_equal. lia.
  - lia.
  - rewrite !zlen_updZ. exact Hd.
  - replace ((n0 + j) * 2 + 0) with (2 * (n0 + j)) by lia.
    replace ((n0 + j) * 2 + 1) with (2 * (n0 + j) + 1) by lia.
    replace (2 * (n0 + j + 1)) with (2 * (n0 + j) + 2) by lia.
    rewrite firstn_updZ_two by lia. rewrite Hf, <- app_assoc. f_equal.
    rewrite segs_snoc by lia. rewrite pcells_snoc. rewrite fadd_q. reflexivity.
  - right. replace (j + 1 - 1) with j by lia. exact Hc.
Qed.

Lemma T_exit : forall k n0 d0 n d q, F0 k n0 d0 -> F1 k n0 d0 n d q -> 0 <= k < zlen ep ->
  cmp_flt Lt (fadd q (Some (qtick L))) (Some (qtick (ek k))) = false -> F0 (k + 1) n d.
Proof.
  intros k n0 d0 n d q (Hz & Hd0 & Hf0 & Hb) (j & Hj & -> & -> & Hd & Hf & Hl) Hk Hc.
  rewrite fadd_q, cmp_lt_q in Hc. apply Z.ltb_ge in Hc.
  pose proof (sk_le_ek k Hk) as Hse.
  rewrite <- (segs_exit (sk k) (ek k) j Hj Hl Hc) in Hf.
  unfold F0. rewrite done_succ by assumption. repeat split.
  - unfold zlen in *. rewrite app_length. rewrite (segs_exit (sk k) (ek k) j Hj Hl Hc).
    pose proof (zlen_segs (sk k) j Hj) as Z. unfold zlen in Z. lia.
  - lia.
  - rewrite Hf, Hf0, pcells_app. reflexivity.
  - rewrite dur_succ by assumption. destruct Hl as [->|Hl]; nia.
Qed.

Lemma T_final : forall k n d, F0 k n d -> zlen ep <= k -> k <= zlen ep ->
  Z.max 0 (norm_bound (Z.max 0 (nrows ep st + 1)) n - norm_bound (Z.max 0 (nrows ep st + 1)) 0)
    = zlen (overlap_split ep L st)
  /\ slice d (norm_bound (Z.max 0 (nrows ep st + 1)) 0 * 2) (norm_bound (Z.max 0 (nrows ep st + 1)) n * 2)
     = pcells (overlap_split ep L st).
Proof.
  intros k n d I Hk Hk'. pose proof (zlen_nonneg ep) as Hl0. pose proof (F0_nonneg _ _ _ I) as Hn. destruct I as (Hz & Hd & Hf & Hb).
  assert (Hnr : n <= nrows ep st) by (apply rows_le; pose proof (dur_le k ltac:(lia)); lia).
  assert (E : done k = overlap_split ep L st).
  { unfold done. rewrite firstn_all2 by (unfold zlen in Hk; lia). reflexivity. }
  rewrite E in *. rewrite !norm_bound_id by lia. split; [lia|].
  unfold slice. change (Z.to_nat (0 * 2)) with 0%nat. simpl skipn.
  replace (n * 2 - 0 * 2) with (2 * n) by lia. exact Hf.
Qed.
End Model.

Local Open Scope string_scope.
Definition ann_func (ep : iset) (L st : Z) (lb : nat) : annot :=
  match lb with
  | 0%nat => ALoop [("k", KInt); ("n", KInt); ("t", KAny); ("slices", KArr)]
                   (fun st0 s => 0 <= getZ s "k" <= zlen ep
                                 /\ F0 ep L st (getZ s "k") (getZ s "n") (getD s "slices"))
  | 1%nat => ALoop [("n", KInt); ("t", KFlt); ("slices", KArr)]
                   (fun st0 s => F1 ep L st (getZ st0 "k") (getZ st0 "n") (getD st0 "slices")
                                    (getZ s "n") (getD s "slices") (to_flt (getsc s "t")))
  | _ => ANone
  end.

Definition split_args (ep : iset) (L : Z) (ov : Q) : list value :=
  [Ar (A1 DFlt (qcells (firsts ep))); Ar (A1 DFlt (qcells (seconds ep)));
   Sc (VFlt (Some (qtick L))); Sc (VFlt (Some ov))].
Definition seg_array (o : list (Z * Z)) : value := Ar (A2 DFlt (zlen o) 2 (pcells o)).

Theorem k__overlap_split_computes_model : forall ep L st ov fuel,
  Forall (fun I => fst I <= snd I) ep -> 0 < st <= L -> step_ok L st ov ->
  match run fuel k__overlap_split (split_args ep L ov) with
  | Return rs => rs = [seg_array (overlap_split ep L st)]
  | OutOfFuel => True
  | _ => False
  end.
Proof.
  intros ep L st ov fuel Hep Hst Hov. pose proof (zlen_nonneg ep) as Hl0.
  pose proof (run_sound all_kernels (ann_func ep L st) k__overlap_split
                (fun rs => rs = [seg_array (overlap_split ep L st)]) (split_args ep L ov) fuel) as RS.
  unfold run.
  match type of RS with ?P -> _ => assert (W : P) end.
  2: { specialize (RS W). unfold Interp.run in *.
       destruct (exec all_kernels fuel (fbody k__overlap_split) (init_store k__overlap_split (split_args ep L ov)));
         simpl in *; auto. }
  clear RS. unfold split_args, seg_array.
  wp_compute k__overlap_split ann_func.
  match goal with |- context [eval_unop ToInt ?X] =>
    assert (HN : eval_unop ToInt X = VInt (nrows ep st)) end.
  { rewrite sum_flt_q, (step_q' L st ov Hov). unfold eval_unop at 1. f_equal. exact (N_value ep st _ (proj1 Hst) eq_refl). }
  rewrite !HN. clear HN. rewrite !(step_q L st ov Hov).
  cbn [to_int eval_cmp eval_binop is_flt orb binop_int cmp_int].
  change (Z.max 0 2) with 2.
  vc k__overlap_split ann_func.
  all: try solve [arith].
  all: repeat match goal with
         | Hc : context [to_flt (nthZ (qcells ?l) ?k)] |- _ =>
             rewrite (nth_qcells l k) in Hc by (autorewrite with zlen; lia)
         | |- context [to_flt (nthZ (qcells ?l) ?k)] =>
             rewrite (nth_qcells l k) by (autorewrite with zlen; lia)
         end.
  all: autorewrite with zlen in *.
  all: try match goal with
         | |- F0 _ _ _ 0 0 _ => apply T0_init; assumption
         | I : F0 _ _ _ ?k ?n ?d |- F1 _ _ _ ?k ?n ?d ?n ?d _ => apply (T1_init ep L st k n d I)
         | I0 : F0 _ _ _ ?k ?n0 ?d0, I1 : F1 _ _ _ ?k ?n0 ?d0 ?n ?d ?q |- 0 <= ?n =>
             apply (F1_nonneg ep L st k n0 d0 n d q (F0_nonneg ep L st k n0 d0 I0) I1)
         | I0 : F0 _ _ _ ?k ?n0 ?d0, I1 : F1 _ _ _ ?k ?n0 ?d0 ?n ?d ?q
           |- F1 _ _ _ ?k ?n0 ?d0 (?n + 1) _ _ =>
             apply (T1_step ep L st Hep Hst k n0 d0 n d q I0 I1); [lia | assumption]
         | I0 : F0 _ _ _ ?k ?n0 ?d0, I1 : F1 _ _ _ ?k ?n0 ?d0 ?n ?d ?q,
           E : cmp_flt Lt _ _ = false |- F0 _ _ _ (?k + 1) ?n ?d =>
             apply (T_exit ep L st Hep Hst k n0 d0 n d q I0 I1); [lia | assumption]
         | I0 : F0 _ _ _ ?k ?n0 ?d0, I1 : F1 _ _ _ ?k ?n0 ?d0 ?n ?d ?q,
           E : cmp_flt Lt _ _ = true, G : nrows _ _ < ?n |- _ =>
             (* the guard n <= N cannot be the reason of the exit *)
             exfalso; pose proof (guard_never_fires ep L st Hep Hst k n0 d0 n d q I0 I1 ltac:(lia) E); lia
         | I : F0 _ _ _ ?k ?n ?d |- [Ar (A2 _ _ _ _)] = _ =>
             let E1 := fresh "E" in let E2 := fresh "E" in
             destruct (T_final ep L st Hep Hst k n d I ltac:(lia) ltac:(lia)) as [E1 E2];
             rewrite E1, E2; reflexivity
         end.
Qed.

(* ---------- the canonical overlap (L - st) / L, and canonical interval sets ---------- *)
Definition ovq (L st : Z) : Q := (L - st) # (Z.to_pos L).

Lemma ovq_step : forall L st, 0 < L -> step_ok L st (ovq L st).
Proof.
  intros L st HL. unfold step_ok, ovq, Qeq, Qmult, Qminus, Qplus, Qopp, inject_Z. cbn [Qnum Qden].
  rewrite ?Pos2Z.inj_mul, ?Z2Pos.id by lia. ring.
Qed.

Lemma ovq_range : forall L st, 0 < st <= L -> (0 <= ovq L st)%Q /\ (ovq L st < 1)%Q.
Proof.
  intros L st H. unfold ovq, Qle, Qlt. cbn [Qnum Qden]. rewrite Z2Pos.id by lia. lia.
Qed.

Corollary k__overlap_split_canonical : forall ep L st fuel, canonical ep -> 0 < st <= L ->
  match run fuel k__overlap_split (split_args ep L (ovq L st)) with
  | Return rs => rs = [seg_array (overlap_split ep L st)]
  | OutOfFuel => True
  | _ => False
  end.
Proof.
  intros ep L st fuel Hc Hst. apply k__overlap_split_computes_model.
  - apply canonical_proper; exact Hc.
  - exact Hst.
  - apply ovq_step. lia.
Qed.

(* with the specification of the model (overlap_split_spec): the rows are the windows
   [s + j st, s + j st + L], j < seg_count s e L st, of the successive epochs *)
Corollary k__overlap_split_spec : forall ep L st ov fuel,
  Forall (fun I => fst I <= snd I) ep -> 0 < st <= L -> step_ok L st ov ->
  match run fuel k__overlap_split (split_args ep L ov) with
  | Return rs =>
      rs = [seg_array (concat (map (fun se => map (fun j => (fst se + Z.of_nat j * st,
                                                             fst se + Z.of_nat j * st + L))
                                                      (List.seq 0 (seg_count (fst se) (snd se) L st))) ep))]
  | OutOfFuel => True
  | _ => False
  end.
Proof.
  intros ep L st ov fuel Hep Hst Hov.
  rewrite <- (overlap_split_spec ep L st) by lia.
  apply k__overlap_split_computes_model; assumption.
Qed.

(* not vacuous: with enough fuel the kernel does return (termination is Inv/Overlap_split_term.v) *)
Example k__overlap_split_runs :
  run 200 k__overlap_split (split_args [(0, 10); (20, 31)] 4 (ovq 4 3))
  = Return [seg_array [(0, 4); (3, 7); (20, 24); (23, 27); (26, 30)]].
Proof. vm_compute. reflexivity. Qed.

(* the hypotheses are needed: outside them the guard n <= N fires and rows of the model are missing *)
Definition ten_epochs : iset :=
  [(0, 2); (10, 12); (20, 22); (30, 32); (40, 42); (50, 52); (60, 62); (70, 72); (80, 82); (90, 92)].
Example hypothesis_st_le_L_needed :   (* L = 1, st = 10: overlap = -9 *)
  run 2000 k__overlap_split (split_args ten_epochs 1 (ovq 1 10))
    = Return [seg_array [(0, 1); (10, 11); (20, 21)]]
  /\ zlen (overlap_split ten_epochs 1 10) = 10.
Proof. split; vm_compute; reflexivity. Qed.
Example hypothesis_start_le_end_needed :
  run 2000 k__overlap_split (split_args [(0, 10); (30, 10)] 3 (ovq 3 3)) = Return [seg_array []]
  /\ overlap_split [(0, 10); (30, 10)] 3 3 = [(0, 3); (3, 6); (6, 9)].
Proof. split; vm_compute; reflexivity. Qed.

Print Assumptions k__overlap_split_computes_model.
Print Assumptions k__overlap_split_canonical.
Print Assumptions k__overlap_split_spec.
