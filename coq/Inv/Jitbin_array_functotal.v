(* TOTAL correctness of the translated _jitbin_array: for every time array ts, data column vs, interval
   list ep and bin size B > 0 ticks there is a fuel with which the kernel text runs to completion, and it
   returns the two arrays (bin centres, per-bin means) of the model [bin_sum_cnt ts vs ep B].

   Combination ([Jit.Total.total_of_partial_eq]) of
     - the partial refinement theorem [k__jitbin_array_computes_model] of Inv/Jitbin_array_func.v,
     - the termination theorem [k__jitbin_array_terminates] of Inv/Jitbin_array_term.v,
     - [bin_array_args_pre]: the encoded arguments satisfy the safety/termination precondition
       [Pre__jitbin_array]: starts/ends/countin of equal length, bin size a float > 0, countin non-negative
       integers summing to the length of the (restricted) time array, data array as long as the time array.
       All of that holds by construction of [bin_array_args] (countin = restrict_cnt ts ep, the two
       arrays are gathered with the same index list restrict_idx ts ep); 0 < B is the hypothesis of the
       partial theorem already.
   Hypotheses: exactly that of the partial theorem (0 < B). *)
From Coq Require Import ZArith QArith Qround String List Bool Lia.
From Verif Require Import Base.Prelude Model.Restrict Model.Count Proofs.BaseLemmas Proofs.RestrictProofs
  Proofs.CountProofs.
From Verif Require Import Jit.Lang Jit.Interp Jit.Safety Jit.Tactics Jit.ArrayFacts Jit.FloatFacts Jit.Total Gen.Kernels.
From Verif Require Import Inv.Jitfix_iset_func Inv.Jitrestrict_func Inv.Jitcount_func.
From Verif Require Import Inv.Jitbin_array Inv.Jitbin_array_func Inv.Jitbin_array_term.
Import ListNotations.
Open Scope Z_scope.

Lemma qtick_pos : forall b, 0 < b -> (0 < qtick b)%Q.
Proof. intros b Hb. rewrite qtick_eq. unfold Qlt. simpl. lia. Qed.

Lemma bin_array_args_pre : forall ts vs ep B, 0 < B -> Pre__jitbin_array (bin_array_args ts vs ep B).
Proof.
  intros ts vs ep B HB. unfold bin_array_args, Pre__jitbin_array. do 8 eexists. split; [reflexivity|].
  rewrite <- (Gt_select ts vs ep), <- (Gv_select ts vs ep).
  rewrite !zlen_qcells, zlen_vcells, zlen_firsts, zlen_seconds, zlen_countin, zlen_Gt, zlen_Gv.
  repeat split; try reflexivity.
  - apply qtick_pos; exact HB.
  - apply nonneg_index_cells.
  - apply sum_countin_r.
Qed.

Theorem k__jitbin_array_total : forall ts vs ep B,
  0 < B ->
  exists fuel, run fuel k__jitbin_array (bin_array_args ts vs ep B)
               = Return (bin_array_result (bin_sum_cnt ts vs ep B)).
Proof.
  intros ts vs ep B HB. unfold run. apply total_of_partial_eq.
  - intros fuel. exact (k__jitbin_array_computes_model ts vs ep B fuel HB).
  - apply k__jitbin_array_terminates. apply bin_array_args_pre. exact HB.
Qed.

(* non-vacuity: on concrete inputs (an even and an odd bin size) the fuel is found by computation, and the
   value is the model's *)
Example k__jitbin_array_total_ex :
  exists fuel, run fuel k__jitbin_array (bin_array_args [0; 5; 9; 12] [3; 4; 5; 6] [(4, 6); (8, 20)] 4)
               = Return (bin_array_result (bin_sum_cnt [0; 5; 9; 12] [3; 4; 5; 6] [(4, 6); (8, 20)] 4)).
Proof. exists 300%nat. vm_compute. reflexivity. Qed.
Example k__jitbin_array_total_ex_odd :
  exists fuel, run fuel k__jitbin_array (bin_array_args [0; 5; 9; 12] [3; 4; 5; 6] [(4, 10)] 3)
               = Return (bin_array_result (bin_sum_cnt [0; 5; 9; 12] [3; 4; 5; 6] [(4, 10)] 3)).
Proof. exists 300%nat. vm_compute. reflexivity. Qed.

Print Assumptions k__jitbin_array_total.
