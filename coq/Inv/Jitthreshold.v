(* C15: jitthreshold.  Public caller: Tsd.threshold validates [method] (one of the four strings,
   integer tags 0..3 in the model) and passes the time support of the series.  The support may be
   EMPTY while the series is not (all timestamps equal: the default support [t, t] vanishes), so
   nothing is assumed about the number of intervals. *)
From Coq Require Import ZArith QArith String List Bool Lia.
From Verif Require Import Jit.Lang Jit.Interp Jit.Safety Jit.Tactics Gen.Kernels.
Import ListNotations.
Open Scope Z_scope.
Local Open Scope string_scope.

Definition Pre_jitthreshold (args : list value) : Prop :=
  exists d1 d2 d3 d4 ta da s e thr method,
    args = [Ar (A1 d1 ta); Ar (A1 d2 da); Ar (A1 d3 s); Ar (A1 d4 e); Sc thr; Sc (VInt method)]
    /\ zlen da = zlen ta /\ zlen s = zlen e /\ 0 <= method <= 3.

Definition ann_jitthreshold (l : nat) : annot :=
  match l with
  (* cut point after the dispatch on [method]: ix is a 1-D array of n cells *)
  | 0%nat => ALoop [("ix", KArr1)] (fun st0 st => zlen (getD st "ix") = getZ st0 "n")
  (* cut point after the "start of a run" block *)
  | 9%nat => ALoop [("ix_start", KArr); ("new_start", KArr)] (fun _ _ => True)
  | 4%nat => ALoop [("t", KInt); ("k", KInt); ("first", KAny); ("last", KAny);
                    ("ix_start", KArr); ("ix_end", KArr); ("new_start", KArr); ("new_end", KArr)]
                   (fun st0 st => 0 <= getZ st "k" /\ (0 < getZ st0 "m" -> getZ st "k" < getZ st0 "m"))
  | 5%nat => ALoop [("k", KInt)]
                   (fun st0 st => getZ st0 "k" <= getZ st "k"
                                  /\ (0 < getZ st0 "m" -> getZ st "k" < getZ st0 "m"))
  | _ => ANone
  end.

Theorem k_jitthreshold_safe : forall args, Pre_jitthreshold args ->
  forall fuel, safe_outcome (run fuel k_jitthreshold args).
Proof.
  intros args (d1 & d2 & d3 & d4 & ta & da & s & e & thr & method & -> & H1 & H2 & H4) fuel.
  safe_start k_jitthreshold ann_jitthreshold. vc k_jitthreshold ann_jitthreshold.
Qed.
