(* Functional correctness of the TRANSLATED _jitcontinuous_perievent (Gen/Kernels.v, generated from
   pynapple/process/_process_functions.py) against the executable model [pc_kernel] of Model/Perievent.v
   (the model the C16 theorems of Proofs/PerieventContProofs.v are about), by proof, with the method of
   Inv/Jitrestrict_func.v / Inv/Jitcount_func.v (partial correctness through [run_sound], functional loop
   invariants; the two calls of jitrestrict_with_count are discharged with the callee's own functional
   theorem, [rwc_contract] of Inv/Jitcount_func.v):

     for EVERY sample-time array ts and reference-event array tref (integer ticks; no sortedness needed),
     every interval list ep with start <= end, and every window (n0, n1) in samples, running the translated
     kernel on the arrays of ts / tref / starts ep / ends ep / [n0; n1] returns, whenever it returns, exactly
       [ idx       = index array of restrict_idx ts ep            (positions of the samples kept)
       ; slice_idx = the (N x 2) integer array of the (start, stop) of  W = pc_kernel ts tref ep n0 n1
       ; np.sum(count[:, 1]) = N = length W                       (number of events inside the epochs)
       ; start_w   = the integer array of the w_start of W ]
     ([pc_result]): for each reference event inside ep, in order, the window (start, stop) of the restricted
     sample array around the sample of its epoch found by the kernel's nearest-sample search, and the offset
     at which the window is written; (0, 0, 0) for the events of an epoch without samples.

   What the kernel receives ([pc_args]), as _perievent_continuous / harness/props/c16.py pass it: the RAW time
   arrays (the kernel restricts them itself: jitrestrict_with_count twice, the per-epoch counts going to the
   two columns of its local (N_epochs x 2) array [count]), and windowsize as an INTEGER array of two cells.
   Hence NO hypothesis on count arrays is needed: the block decomposition (epoch k owns the samples
   [offT k, offT k + cT k) and the events [offX k, offX k + cX k) of the restricted arrays) is DERIVED from
   the callee's functional contract ([CountOK], [count_facts], [epoch_bounds]).

   Times: a tick t is the float t * 1e-9, the reduced fraction [qtick t] (Inv/Jitfix_iset_func.v): the kernel
   computes  abs(time_array[t] - time_target_array[i])  in seconds; on the tick lattice this is exactly the
   tick  |t - x|  ([fsub_q], [fabs_q]) and the float comparison  new_interval > interval  is the model's
   integer test  interval <? ni  ([cmp_gt_cell]).

   Only hypothesis: start <= end for every interval.  It is NEEDED (by the callee, see
   Inv/Jitrestrict_with_count_func.v): [start_le_end_needed] below is a computed input with an interval
   (5, 2) on which the kernel and the model return different arrays.
   Neither sortedness of ts / tref nor separation / order of the intervals is needed.

   Loop invariants (labels of Gen/Kernels.v): 3 = for k over the epochs: the rows of slice_idx / start_w below
   offX k hold W, the others are still 0 ([Rows], [PInv3]); 5 = while over the events of epoch k: the same up
   to row i, the cursor t stands on a sample of the epoch and the model's remaining positions are those
   computed from that cursor ([Cursor], [PInv5]); 6 = the nearest-sample search: t_pos = t - 1, interval is the
   distance at t_pos and the model's [pc_adv] from the current position gives what it gave at loop entry
   ([advZ], [PInv6]).

   With the termination theorem of Inv/Jitcontinuous_perievent_term.v: TOTAL correctness
   ([k__jitcontinuous_perievent_total]). *)
From Coq Require Import ZArith QArith String List Bool Lia.
From Verif Require Import Base.Prelude Model.Restrict Model.Count Model.Perievent
  Proofs.BaseLemmas Proofs.RestrictProofs.
From Verif Require Import Jit.Lang Jit.Interp Jit.Safety Jit.Tactics Jit.ArrayFacts Gen.Kernels.
From Verif Require Import Inv.Jitrestrict_with_count.
From Verif Require Import Inv.Jitfix_iset_func.
From Verif Require Import Inv.Jitrestrict_func Inv.Jitrestrict_with_count_func Inv.Jitcount_func.
From Verif Require Import Inv.Jitcontinuous_perievent Inv.Jitcontinuous_perievent_term.
Import ListNotations.
Open Scope Z_scope.

(* ---------- float facts on the tick lattice ---------- *)
Lemma qtick_0 : qtick 0 = 0%Q.
Proof. reflexivity. Qed.

Lemma fabs_q : forall a,
  eval_unop Abs (VFlt (Some (qtick a))) = VFlt (Some (qtick (Z.abs a))).
Proof.
  intros a. cbn [eval_unop]. f_equal. f_equal.
  rewrite <- qtick_0 at 1. rewrite Qle_bool_qtick.
  destruct (Z.leb_spec 0 a) as [H|H].
  - rewrite Z.abs_eq by lia. reflexivity.
  - rewrite Z.abs_neq by lia. unfold qtick. apply Qred_complete.
    rewrite (Qred_correct (a # 1000000000)). unfold Qeq, Qopp. simpl. lia.
Qed.

(* ---------- generic list facts ---------- *)
Lemma skipn_split : forall {A} (l : list A) j x r d, skipn j l = x :: r ->
  nth j l d = x /\ skipn (S j) l = r.
Proof.
  induction l as [|y l IH]; intros j x r d H.
  - destruct j; discriminate H.
  - destruct j; simpl in H.
    + injection H as -> ->. split; reflexivity.
    + apply (IH j x r d) in H. exact H.
Qed.

Lemma skipn_add : forall {A} (l : list A) a b, skipn a (skipn b l) = skipn (b + a) l.
Proof.
  intros A l a b. revert l. induction b as [|b IH]; intros l; [reflexivity|].
  destruct l; [destruct a; reflexivity|]. simpl. apply IH.
Qed.

(* the samples of interval k inside the restricted array *)
Lemma skipn_smp : forall ts ep k c, 0 <= k < zlen ep -> 0 <= c <= zlen (smp ts ep k) ->
  skipn (Z.to_nat c) (smp ts ep k) = seg ts ep (off ts ep k + c) (off ts ep k + zlen (smp ts ep k)).
Proof.
  intros ts ep k c Hk Hc. rewrite <- (seg_smp ts ep k Hk) at 1. unfold seg.
  rewrite skipn_firstn_comm, skipn_add. pose proof (off_nonneg ts ep k).
  f_equal; [lia | f_equal; lia].
Qed.

Lemma off_bound : forall ts ep k, 0 <= k < zlen ep -> off ts ep k + zlen (smp ts ep k) <= zlen (Gz ts ep).
Proof. intros ts ep k H. rewrite <- off_succ by assumption. apply off_mono. assumption. Qed.

Lemma nth_smp : forall ts ep k c, 0 <= k < zlen ep -> 0 <= c < zlen (smp ts ep k) ->
  nth (Z.to_nat c) (smp ts ep k) 0 = tk (Gz ts ep) (off ts ep k + c).
Proof.
  intros ts ep k c Hk Hc. pose proof (off_nonneg ts ep k). pose proof (off_bound ts ep k Hk).
  pose proof (skipn_smp ts ep k c Hk ltac:(lia)) as E.
  rewrite seg_cons in E by lia. apply (skipn_split _ _ _ _ 0) in E. apply E.
Qed.

Lemma seg_empty : forall ts ep a b, b <= a -> seg ts ep a b = [].
Proof. intros. unfold seg. replace (Z.to_nat (b - a)) with 0%nat by lia. reflexivity. Qed.

(* ---------- the model ---------- *)
Definition w000 : nat * nat * nat := (0%nat, 0%nat, 0%nat).
Definition wlo (w : nat * nat * nat) : Z := Z.of_nat (fst (fst w)).
Definition whi (w : nat * nat * nat) : Z := Z.of_nat (snd (fst w)).
Definition wst (w : nat * nat * nat) : Z := Z.of_nat (snd w).
Definition wcells (L : list (nat * nat * nat)) : list sval :=
  flat_map (fun w => [VInt (wlo w); VInt (whi w)]) L.
Definition scells (L : list (nat * nat * nat)) : list sval := map (fun w => VInt (wst w)) L.

Lemma coerce_index_cells : forall l, coerce_cells DInt (index_cells l) = index_cells l.
Proof. intros. unfold coerce_cells, index_cells. rewrite map_map. reflexivity. Qed.

Lemma any_false_nat : forall a b : list nat,
  existsb (fun p => eval_cmp Gt p (VInt 0)) (map2 (eval_binop Mul) (index_cells a) (index_cells b)) = false ->
  forall n, nth n a 0%nat = 0%nat \/ nth n b 0%nat = 0%nat.
Proof.
  induction a as [|x a IH]; intros b H n; [left; destruct n; reflexivity|].
  destruct b as [|y b]; [right; destruct n; reflexivity|].
  unfold index_cells in H. simpl map in H.
  change (map2 (eval_binop Mul) (VInt (Z.of_nat x) :: ?r) (VInt (Z.of_nat y) :: ?s))
    with (VInt (Z.of_nat x * Z.of_nat y) :: map2 (eval_binop Mul) r s) in H.
  simpl existsb in H. apply orb_false_elim in H. destruct H as [H1 H2].
  destruct n.
  - cbn [eval_cmp is_flt orb to_int cmp_int] in H1. apply Z.ltb_ge in H1. simpl. nia.
  - simpl. apply IH. exact H2.
Qed.

Definition pc_args (ts tref : list Z) (ep : iset) (n0 n1 : nat) : list value :=
  [Ar (A1 DFlt (qcells ts)); Ar (A1 DFlt (qcells tref));
   Ar (A1 DFlt (qcells (firsts ep))); Ar (A1 DFlt (qcells (seconds ep)));
   Ar (A1 DInt [VInt (Z.of_nat n0); VInt (Z.of_nat n1)])].
Definition pc_result (ix : list nat) (L : list (nat * nat * nat)) : list value :=
  [index_array ix; Ar (A2 DInt (zlen L) 2 (wcells L)); Sc (VInt (zlen L)); index_array (map snd L)].

Lemma scells_index : forall L, scells L = index_cells (map snd L).
Proof. intros. unfold scells, index_cells. rewrite map_map. reflexivity. Qed.

Lemma nth_wcells : forall L r, (r < length L)%nat ->
  nth (r * 2 + 0) (wcells L) dflt = VInt (wlo (nth r L w000))
  /\ nth (r * 2 + 1) (wcells L) dflt = VInt (whi (nth r L w000)).
Proof.
  induction L as [|w L IH]; intros r H; simpl in H; [lia|].
  destruct r; [split; reflexivity|].
  replace (S r * 2 + 0)%nat with (S (S (r * 2 + 0))) by lia.
  replace (S r * 2 + 1)%nat with (S (S (r * 2 + 1))) by lia.
  simpl. apply IH. lia.
Qed.

Lemma length_wcells : forall L, length (wcells L) = (2 * length L)%nat.
Proof. induction L as [|w L IH]; simpl; [reflexivity|]. rewrite IH. lia. Qed.

Section Go.
Variables n0 n1 : nat.

Definition ep_out (off : nat) (es xs : list Z) : list (nat * nat * nat) :=
  match es, xs with
  | _ :: _, _ :: _ => map (pc_win n0 n1 off (length es)) (pc_epoch_pos es xs 0%nat)
  | _, _ => map (fun _ => w000) xs
  end.

Lemma pos_length : forall es xs t, length (pc_epoch_pos es xs t) = length xs.
Proof. induction xs as [|x r IH]; intros t; simpl; [reflexivity|]. rewrite IH. reflexivity. Qed.

Lemma ep_out_length : forall off es xs, length (ep_out off es xs) = length xs.
Proof.
  intros off es xs. unfold ep_out. destruct es; [apply map_length|].
  destruct xs; [reflexivity|]. rewrite map_length. apply pos_length.
Qed.

Lemma go_cons : forall off es xs r,
  pc_kernel_go n0 n1 off ((es, xs) :: r) = (ep_out off es xs ++ pc_kernel_go n0 n1 (off + length es) r)%list.
Proof. intros. destruct es, xs; reflexivity. Qed.

Lemma go_length : forall A B off, length A = length B ->
  length (pc_kernel_go n0 n1 off (combine A B)) = length (concat B).
Proof.
  induction A as [|a A IH]; intros B off H; destruct B as [|b B]; simpl in H; try lia; [reflexivity|].
  simpl combine. rewrite go_cons. simpl concat. rewrite !app_length, ep_out_length.
  rewrite IH by lia. reflexivity.
Qed.

Lemma go_nth : forall A B off k j, length A = length B -> (k < length B)%nat ->
  (j < length (nth k B []))%nat ->
  nth (length (concat (firstn k B)) + j) (pc_kernel_go n0 n1 off (combine A B)) w000
  = nth j (ep_out (off + length (concat (firstn k A))) (nth k A []) (nth k B [])) w000.
Proof.
  induction A as [|a A IH]; intros B off k j H Hk Hj; destruct B as [|b B]; simpl in H, Hk; try lia.
  simpl combine. rewrite go_cons. destruct k.
  - simpl. rewrite app_nth1 by (rewrite ep_out_length; exact Hj). rewrite Nat.add_0_r. reflexivity.
  - simpl firstn. simpl concat. rewrite !app_length. simpl nth.
    rewrite app_nth2 by (rewrite ep_out_length; lia). rewrite ep_out_length.
    replace (length b + length (concat (firstn k B)) + j - length b)%nat
      with (length (concat (firstn k B)) + j)%nat by lia.
    rewrite IH by (simpl in Hj; lia). rewrite Nat.add_assoc. reflexivity.
Qed.

End Go.

Lemma cursor_step : forall es xs j c,
  pc_epoch_pos es (skipn j xs) c = skipn j (pc_epoch_pos es xs 0%nat) -> (j < length xs)%nat ->
  let p := pc_nearest_from (nth j xs 0) es c in
  nth j (pc_epoch_pos es xs 0%nat) 0%nat = p
  /\ pc_epoch_pos es (skipn (S j) xs) p = skipn (S j) (pc_epoch_pos es xs 0%nat).
Proof.
  intros es xs j c H Hj p. rewrite (skipn_cons_nth xs j Hj) in H. simpl in H. fold p in H.
  symmetry in H. apply (skipn_split _ _ _ _ 0%nat) in H. destruct H as [H1 H2]. split; [exact H1|].
  symmetry. exact H2.
Qed.

Section PC.
Variables ts tref : list Z.
Variable ep : iset.
Variables n0 n1 : nat.

Notation GT := (Gz ts ep).
Notation GX := (Gz tref ep).
Notation offT := (off ts ep).
Notation offX := (off tref ep).
Notation smpT := (smp ts ep).
Notation smpX := (smp tref ep).
Definition cT (k : Z) : Z := zlen (smpT k).
Definition cX (k : Z) : Z := zlen (smpX k).
Definition PCW : list (nat * nat * nat) := pc_kernel ts tref ep n0 n1.
Definition Pk (k : Z) : list nat := pc_epoch_pos (smpT k) (smpX k) 0%nat.

Lemma cT_nonneg : forall k, 0 <= cT k. Proof. intros; apply zlen_nonneg. Qed.
Lemma cX_nonneg : forall k, 0 <= cX k. Proof. intros; apply zlen_nonneg. Qed.

Lemma zlen_W : zlen PCW = zlen GX.
Proof.
  unfold PCW, pc_kernel, zlen. rewrite go_length by (rewrite !Ss_length; reflexivity). reflexivity.
Qed.

Lemma W_row : forall k j, 0 <= k < zlen ep -> 0 <= j < cX k ->
  nth (Z.to_nat (offX k + j)) PCW w000
  = nth (Z.to_nat j) (ep_out n0 n1 (Z.to_nat (offT k)) (smpT k) (smpX k)) w000.
Proof.
  intros k j Hk Hj. unfold PCW, pc_kernel, cX, zlen in *.
  pose proof (go_nth n0 n1 (Ss ts ep) (Ss tref ep) 0%nat (Z.to_nat k) (Z.to_nat j)) as G.
  rewrite !Ss_length in G. specialize (G eq_refl ltac:(lia)).
  unfold smp in *. specialize (G ltac:(lia)).
  rewrite Nat.add_0_l in G. unfold off. rewrite Nat2Z.id. rewrite <- G. f_equal. lia.
Qed.

Lemma W_row_skip : forall k j, 0 <= k < zlen ep -> 0 <= j < cX k -> cT k <= 0 \/ cX k <= 0 ->
  nth (Z.to_nat (offX k + j)) PCW w000 = w000.
Proof.
  intros k j Hk Hj Hz. rewrite W_row by assumption. unfold ep_out, cT, cX, zlen in *.
  destruct (smpT k) as [|a es].
  - cbv beta iota. exact (map_nth (fun _ : Z => w000) (smpX k) 0 (Z.to_nat j)).
  - simpl length in Hz. lia.
Qed.

Lemma W_row_active : forall k j, 0 <= k < zlen ep -> 0 <= j < cX k -> 0 < cT k ->
  nth (Z.to_nat (offX k + j)) PCW w000
  = pc_win n0 n1 (Z.to_nat (offT k)) (Z.to_nat (cT k)) (nth (Z.to_nat j) (Pk k) 0%nat).
Proof.
  intros k j Hk Hj Ht. rewrite W_row by assumption. unfold ep_out, Pk, cT, cX, zlen in *.
  destruct (smpT k) as [|a es] eqn:E1; [simpl length in Ht; lia|].
  destruct (smpX k) as [|b xs] eqn:E2; [simpl length in Hj; lia|].
  rewrite Nat2Z.id.
  rewrite (nth_indep _ w000 (pc_win n0 n1 (Z.to_nat (offT k)) (length (a :: es)) 0%nat))
    by (rewrite map_length, pos_length; lia).
  apply map_nth.
Qed.

(* ---------- the cell arrays ---------- *)
Definition Rows (i : Z) (d sw : list sval) : Prop :=
  (forall r, 0 <= r < i ->
     nthZ d (r * 2 + 0) = VInt (wlo (nth (Z.to_nat r) PCW w000))
     /\ nthZ d (r * 2 + 1) = VInt (whi (nth (Z.to_nat r) PCW w000))
     /\ nthZ sw r = VInt (wst (nth (Z.to_nat r) PCW w000)))
  /\ (forall r, i <= r -> nthZ d (r * 2 + 0) = VInt 0 /\ nthZ d (r * 2 + 1) = VInt 0 /\ nthZ sw r = VInt 0).

Lemma nthZ_zeros : forall n r, nthZ (zeros DInt n (VInt 0)) r = VInt 0.
Proof.
  intros. unfold nthZ, zeros. cbn [coerce to_int].
  destruct (Nat.lt_ge_cases (Z.to_nat r) (Z.to_nat n)).
  - apply nth_repeat.
  - apply nth_overflow. rewrite repeat_length. lia.
Qed.

Lemma Rows_init : forall n m, Rows 0 (zeros DInt n (VInt 0)) (zeros DInt m (VInt 0)).
Proof. intros. split; intros r Hr; [lia|]. rewrite !nthZ_zeros. repeat split. Qed.

Lemma nthZ_updZ_same : forall d a v, 0 <= a < zlen d -> nthZ (updZ d a v) a = v.
Proof. intros. unfold nthZ, updZ. apply nth_upd_nth_same. unfold zlen in *. lia. Qed.
Lemma nthZ_updZ_other : forall d a b v, 0 <= a -> 0 <= b -> a <> b -> nthZ (updZ d a v) b = nthZ d b.
Proof. intros. unfold nthZ, updZ. apply nth_upd_nth_other. lia. Qed.

Lemma Rows_set : forall i d sw a b c, Rows i d sw -> 0 <= i -> i * 2 + 1 < zlen d -> i < zlen sw ->
  a = wlo (nth (Z.to_nat i) PCW w000) -> b = whi (nth (Z.to_nat i) PCW w000) -> c = wst (nth (Z.to_nat i) PCW w000) ->
  Rows (i + 1) (updZ (updZ d (i * 2 + 0) (VInt a)) (i * 2 + 1) (VInt b)) (updZ sw i (VInt c)).
Proof.
  intros i d sw a b c [R1 R2] Hi Hd Hs -> -> ->. split; intros r Hr.
  - destruct (Z.eq_dec r i) as [->|Hne].
    + rewrite nthZ_updZ_other by lia. rewrite !nthZ_updZ_same by (rewrite ?zlen_updZ; lia). repeat split.
    + rewrite !nthZ_updZ_other by lia. apply R1. lia.
  - rewrite !nthZ_updZ_other by lia. apply R2. lia.
Qed.

Lemma Rows_skip : forall k d sw, 0 <= k < zlen ep -> Rows (offX k) d sw -> cT k <= 0 \/ cX k <= 0 ->
  Rows (offX (k + 1)) d sw.
Proof.
  intros k d sw Hk [R1 R2] Hz. rewrite off_succ by assumption. fold (cX k).
  pose proof (off_nonneg tref ep k). pose proof (cX_nonneg k). split; intros r Hr.
  - destruct (Z_lt_le_dec r (offX k)) as [Hlt|Hge]; [apply R1; lia|].
    replace r with (offX k + (r - offX k)) at 2 4 6 by lia.
    rewrite W_row_skip by (assumption || lia). apply R2. lia.
  - apply R2. lia.
Qed.

Lemma Rows_all_skip : forall d sw, (forall k, 0 <= k < zlen ep -> cT k <= 0 \/ cX k <= 0) ->
  Rows 0 d sw -> Rows (zlen GX) d sw.
Proof.
  intros d sw Hall R0. rewrite <- (off_all tref ep (zlen ep)) by lia.
  assert (G : forall n, (n <= length ep)%nat -> Rows (offX (Z.of_nat n)) d sw).
  { induction n as [|n IH]; intros Hn; [exact R0|].
    replace (Z.of_nat (S n)) with (Z.of_nat n + 1) by lia.
    apply Rows_skip; [unfold zlen; lia | apply IH; lia | apply Hall; unfold zlen; lia]. }
  apply (G (length ep)). lia.
Qed.

Lemma Rows_final : forall i d sw, Rows i d sw -> zlen GX <= i -> zlen d = zlen GX * 2 -> zlen sw = zlen GX ->
  d = wcells PCW /\ sw = scells PCW.
Proof.
  intros i d sw [R1 _] Hi Hd Hs. rewrite <- zlen_W in *. split.
  - apply (nth_ext _ _ dflt dflt); [rewrite length_wcells; unfold zlen in *; lia|].
    intros n Hn. pose proof (Nat.div_mod n 2 ltac:(lia)) as D.
    pose proof (Nat.mod_upper_bound n 2 ltac:(lia)) as M.
    assert (Hr : (n / 2 < length PCW)%nat) by (unfold zlen in *; lia).
    destruct (nth_wcells PCW (n / 2)%nat Hr) as [A B].
    destruct (R1 (Z.of_nat (n / 2)) ltac:(unfold zlen in *; lia)) as (A' & B' & _).
    rewrite Nat2Z.id in A', B'. unfold nthZ in A', B'.
    destruct (Nat.eq_dec (n mod 2) 0) as [E|E].
    + replace n with (n / 2 * 2 + 0)%nat at 2 by lia. rewrite A, <- A'. f_equal. lia.
    + replace n with (n / 2 * 2 + 1)%nat at 2 by lia. rewrite B, <- B'. f_equal. lia.
  - unfold scells. apply (nth_ext _ _ dflt dflt); [rewrite map_length; unfold zlen in *; lia|].
    intros n Hn. destruct (R1 (Z.of_nat n) ltac:(unfold zlen in *; lia)) as (_ & _ & C).
    unfold nthZ in C. rewrite Nat2Z.id in C. rewrite C.
    rewrite (nth_indep _ dflt ((fun w => VInt (wst w)) w000)) by (rewrite map_length; unfold zlen in *; lia).
    rewrite (map_nth (fun w => VInt (wst w))). reflexivity.
Qed.

(* ---------- the nearest-sample search, on positions of the restricted array ---------- *)
Definition maxT (k : Z) : Z := offT k + cT k.
Definition advZ (k x t tpos iv : Z) : nat :=
  pc_adv x (seg ts ep t (maxT k)) (Z.to_nat (tpos - offT k)) iv (Z.to_nat (t - offT k)).
Definition dist (t i : Z) : Z := Z.abs (tk GT t - tk GX i).

Lemma nearest_adv : forall k x c, 0 <= k < zlen ep -> 0 <= c < cT k ->
  pc_nearest_from x (smpT k) (Z.to_nat c)
  = advZ k x (offT k + c + 1) (offT k + c) (Z.abs (tk GT (offT k + c) - x)).
Proof.
  intros k x c Hk Hc. unfold pc_nearest_from, advZ, maxT, cT in *.
  rewrite nth_smp by assumption.
  replace (S (Z.to_nat c)) with (Z.to_nat (c + 1)) by lia.
  rewrite skipn_smp by (assumption || lia).
  f_equal; try lia. f_equal. lia.
Qed.

Lemma adv_step : forall k x t tpos iv, offT k <= t < maxT k -> maxT k <= zlen GT ->
  Z.abs (tk GT t - x) <= iv ->
  advZ k x t tpos iv = advZ k x (t + 1) t (Z.abs (tk GT t - x)).
Proof.
  intros k x t tpos iv Ht Hm Hle. unfold advZ. pose proof (off_nonneg ts ep k).
  rewrite seg_cons by lia. cbn [pc_adv].
  assert (E : (iv <? Z.abs (tk GT t - x)) = false) by (apply Z.ltb_ge; lia). rewrite E.
  f_equal. lia.
Qed.

Lemma adv_break : forall k x t tpos iv, offT k <= t < maxT k -> maxT k <= zlen GT ->
  iv < Z.abs (tk GT t - x) -> advZ k x t tpos iv = Z.to_nat (tpos - offT k).
Proof.
  intros k x t tpos iv Ht Hm Hlt. unfold advZ. pose proof (off_nonneg ts ep k).
  rewrite seg_cons by lia. cbn [pc_adv].
  assert (E : (iv <? Z.abs (tk GT t - x)) = true) by (apply Z.ltb_lt; lia). rewrite E. reflexivity.
Qed.

Lemma adv_end : forall k x t tpos iv, maxT k <= t -> advZ k x t tpos iv = Z.to_nat (tpos - offT k).
Proof. intros. unfold advZ. rewrite seg_empty by assumption. reflexivity. Qed.

(* ---------- loop invariants ---------- *)
Definition CountOK (d : list sval) : Prop :=
  column (zlen ep) 2 d 0 = index_cells (restrict_cnt ts ep)
  /\ column (zlen ep) 2 d 1 = index_cells (restrict_cnt tref ep).

Lemma CountOK_init : forall d1 d3 z, d1 = index_cells (restrict_cnt tref ep) -> d3 = index_cells (restrict_cnt ts ep) ->
  CountOK (set_col (zlen ep) 2 0 (set_col (zlen ep) 2 1 z (coerce_cells DInt d1)) (coerce_cells DInt d3)).
Proof.
  intros d1 d3 z -> ->. rewrite !coerce_index_cells. split.
  - apply column_set_col_same; [lia | apply zlen_countin].
  - rewrite column_set_col_other by lia. apply column_set_col_same; [lia | apply zlen_countin].
Qed.

Lemma count_facts : forall d k, CountOK d -> 0 <= k < zlen ep ->
  sum_int (pyslice (column (zlen ep) 2 d 0) 0 k) = offT k
  /\ sum_int (pyslice (column (zlen ep) 2 d 1) 0 k) = offX k
  /\ to_int (nthZ d (k * 2 + 0)) = cT k /\ to_int (nthZ d (k * 2 + 1)) = cX k.
Proof.
  intros d k [C0 C1] Hk.
  rewrite <- (nthZ_column (zlen ep) 2 d 0 k), <- (nthZ_column (zlen ep) 2 d 1 k) by exact Hk.
  rewrite C0, C1. fold_psum. rewrite !psum_countin by lia. rewrite !nth_countin by exact Hk.
  repeat split.
Qed.

Lemma count_total : forall d, CountOK d ->
  sum_int (pyslice (column (zlen ep) 2 d 1) 0 (zlen ep)) = zlen GX.
Proof.
  intros d [_ C1]. rewrite C1. fold_psum. pose proof (zlen_nonneg ep).
  rewrite psum_countin by lia. apply off_all. lia.
Qed.

Lemma epoch_bounds : forall k, 0 <= k < zlen ep ->
  0 <= offT k /\ 0 <= offX k /\ 0 <= cT k /\ 0 <= cX k
  /\ offT k + cT k <= zlen GT /\ offX k + cX k <= zlen GX.
Proof.
  intros k Hk. pose proof (off_nonneg ts ep k). pose proof (off_nonneg tref ep k).
  pose proof (cT_nonneg k). pose proof (cX_nonneg k).
  pose proof (off_bound ts ep k Hk). pose proof (off_bound tref ep k Hk). unfold cT, cX in *. lia.
Qed.

Lemma any_false : forall d, CountOK d ->
  existsb (fun p => eval_cmp Gt p (VInt 0))
          (map2 (eval_binop Mul) (column (zlen ep) 2 d 0) (column (zlen ep) 2 d 1)) = false ->
  forall k, 0 <= k < zlen ep -> cT k <= 0 \/ cX k <= 0.
Proof.
  intros d [C0 C1] H k Hk. rewrite C0, C1 in H. unfold cT, cX. rewrite !smp_length.
  destruct (any_false_nat _ _ H (Z.to_nat k)) as [E|E]; rewrite E; [left | right]; lia.
Qed.

(* loop 3 (epochs) *)
Definition PInv3 (k : Z) (d sw : list sval) : Prop :=
  zlen d = zlen GX * 2 /\ Rows (offX k) d sw.
(* loop 5 (events of epoch k) *)
Definition Cursor (k j c : Z) : Prop :=
  pc_epoch_pos (smpT k) (skipn (Z.to_nat j) (smpX k)) (Z.to_nat c) = skipn (Z.to_nat j) (Pk k).
Definition PInv5 (k i t : Z) (d sw : list sval) : Prop :=
  offX k <= i <= offX k + cX k /\ offT k <= t < maxT k /\ zlen d = zlen GX * 2 /\ Rows i d sw
  /\ Cursor k (i - offX k) (t - offT k).
(* loop 6 (samples), entered with t = t0 *)
Definition PInv6 (k i t0 t tpos : Z) (itv : sval) : Prop :=
  tpos = t - 1 /\ itv = VFlt (Some (qtick (dist tpos i)))
  /\ advZ k (tk GX i) t tpos (dist tpos i) = advZ k (tk GX i) t0 (t0 - 1) (dist (t0 - 1) i).

Lemma T3_init : forall n m, n = zlen GX * 2 -> PInv3 0 (zeros DInt n (VInt 0)) (zeros DInt m (VInt 0)).
Proof.
  intros n m ->. split.
  - rewrite zlen_zeros. pose proof (zlen_nonneg GX). lia.
  - rewrite off_0. apply Rows_init.
Qed.

Lemma T3_skip : forall k d sw, PInv3 k d sw -> 0 <= k < zlen ep -> cT k <= 0 \/ cX k <= 0 -> PInv3 (k + 1) d sw.
Proof. intros k d sw [L R] Hk Hz. split; [exact L|]. apply Rows_skip; assumption. Qed.

Lemma T5_init : forall k d sw, PInv3 k d sw -> 0 <= k < zlen ep -> 0 < cT k ->
  PInv5 k (offX k) (offT k) d sw.
Proof.
  intros k d sw [L R] Hk Ht. pose proof (cX_nonneg k). unfold PInv5, maxT, Cursor.
  rewrite !Z.sub_diag. split; [lia|]. split; [lia|]. split; [exact L|]. split; [exact R|]. reflexivity.
Qed.

Lemma T5_exit : forall k i t d sw, PInv5 k i t d sw -> 0 <= k < zlen ep -> offX k + cX k <= i ->
  PInv3 (k + 1) d sw.
Proof.
  intros k i t d sw (Hi & Ht & L & R & C) Hk Hge. split; [exact L|].
  rewrite off_succ by assumption. fold (cX k). replace (offX k + cX k) with i by lia. exact R.
Qed.

Lemma T6_init : forall k i t v, v = VFlt (Some (qtick (dist t i))) -> PInv6 k i (t + 1) (t + 1) t v.
Proof.
  intros k i t v ->. unfold PInv6. replace (t + 1 - 1) with t by lia. repeat split; lia.
Qed.

Lemma T6_step : forall k i t0 t tpos itv, PInv6 k i t0 t tpos itv -> 0 <= k < zlen ep ->
  offT k <= t < maxT k -> dist t i <= dist tpos i ->
  PInv6 k i t0 (t + 1) t (VFlt (Some (qtick (dist t i)))).
Proof.
  intros k i t0 t tpos itv (-> & -> & E) Hk Ht Hle. unfold PInv6.
  replace (t + 1 - 1) with t by lia. repeat split.
  rewrite <- E. symmetry. apply adv_step; [lia | apply off_bound; assumption | exact Hle].
Qed.

(* the event is closed: the search ended on a farther sample, or with no sample left *)
Lemma T5_step : forall k i t5 d sw t tpos itv a b c,
  PInv5 k i t5 d sw -> 0 <= k < zlen ep -> i < offX k + cX k ->
  PInv6 k i (t5 + 1) t tpos itv -> t5 + 1 <= t <= maxT k ->
  (maxT k <= t \/ dist tpos i < dist t i) ->
  zlen sw = zlen GX ->
  a = tpos - Z.min (Z.of_nat n0) (tpos - offT k) ->
  b = tpos + Z.min (Z.of_nat n1) (maxT k - tpos - 1) + 1 ->
  c = Z.of_nat n0 - Z.min (Z.of_nat n0) (tpos - offT k) ->
  PInv5 k (i + 1) (t - 1) (updZ (updZ d (i * 2 + 0) (VInt a)) (i * 2 + 1) (VInt b)) (updZ sw i (VInt c)).
Proof.
  intros k i t5 d sw t tpos itv a b c (Hi & Ht5 & L & R & C) Hk Hlt (-> & _ & E) Ht X Hsw Ha Hb Hc.
  pose proof (off_nonneg ts ep k) as OT. pose proof (off_nonneg tref ep k) as OX.
  pose proof (off_bound tref ep k Hk) as BX. fold (cX k) in BX.
  pose proof (off_bound ts ep k Hk) as BT. fold (cT k) in BT. fold (maxT k) in BT.
  (* the position found *)
  assert (P : Z.to_nat (t - 1 - offT k)
              = pc_nearest_from (tk GX i) (smpT k) (Z.to_nat (t5 - offT k))).
  { rewrite nearest_adv by (unfold maxT in *; lia || assumption).
    replace (offT k + (t5 - offT k)) with t5 by lia. replace (t5 + 1 - 1) with t5 in E by lia.
    unfold dist in E. rewrite <- E.
    destruct (Z_lt_le_dec t (maxT k)) as [Hlt'|Hge']; [|rewrite adv_end by exact Hge'; reflexivity].
    destruct X as [X|X]; [lia|].
    rewrite adv_break; [reflexivity | lia | exact BT | exact X]. }
  assert (Hx : tk GX i = nth (Z.to_nat (i - offX k)) (smpX k) 0).
  { rewrite nth_smp by (assumption || (unfold cX in *; lia)). f_equal. lia. }
  rewrite Hx in P. unfold Cursor in C.
  apply cursor_step in C; [|unfold cX, zlen in *; lia].
  cbv zeta in C. rewrite <- P in C. destruct C as [C1 C2].
  unfold PInv5. split; [lia|]. split; [lia|]. split; [rewrite !zlen_updZ; exact L|]. split.
  - pose proof (W_row_active k (i - offX k) Hk ltac:(lia) ltac:(unfold maxT in *; lia)) as WR.
    replace (offX k + (i - offX k)) with i in WR by lia. unfold Pk in WR. rewrite C1 in WR.
    apply Rows_set; try assumption; try lia; rewrite WR; unfold pc_win, wlo, whi, wst; cbn [fst snd];
      unfold maxT in *; lia.
  - unfold Cursor. replace (Z.to_nat (i + 1 - offX k)) with (S (Z.to_nat (i - offX k))) by lia. exact C2.
Qed.

(* the result *)
Lemma T3_all_skip : forall d sw, (forall k, 0 <= k < zlen ep -> cT k <= 0 \/ cX k <= 0) ->
  PInv3 0 d sw -> PInv3 (zlen ep) d sw.
Proof.
  intros d sw Hall [L R]. split; [exact L|]. rewrite off_0 in R. rewrite off_all by lia.
  apply Rows_all_skip; assumption.
Qed.

Lemma T_result : forall k d sw d3 n v cd, PInv3 k d sw -> zlen ep <= k -> zlen sw = zlen GX ->
  d3 = index_cells (restrict_idx ts ep) -> n = zlen GX -> CountOK cd ->
  v = sum_int (pyslice (column (zlen ep) 2 cd 1) 0 (zlen ep)) ->
  [Ar (A1 DInt d3); Ar (A2 DInt n 2 d); Sc (VInt v); Ar (A1 DInt sw)]
  = pc_result (restrict_idx ts ep) (pc_kernel ts tref ep n0 n1).
Proof.
  intros k d sw d3 n v cd [L R] Hk Hs -> -> HC ->. rewrite off_all in R by assumption.
  destruct (Rows_final _ _ _ R ltac:(lia) L Hs) as [-> ->].
  rewrite (count_total cd HC). unfold pc_result. fold PCW. rewrite zlen_W, scells_index. reflexivity.
Qed.

Lemma PInv5_bounds : forall k i t d sw, PInv5 k i t d sw ->
  offX k <= i <= offX k + cX k /\ offT k <= t < offT k + cT k.
Proof. intros k i t d sw (A & B & _). split; [exact A | exact B]. Qed.

Lemma PInv6_val : forall k i t0 t tpos itv, PInv6 k i t0 t tpos itv ->
  tpos = t - 1 /\ itv = VFlt (Some (qtick (dist tpos i))).
Proof. intros k i t0 t tpos itv (A & B & _). split; [exact A | exact B]. Qed.

Lemma dist_cell : forall t i, 0 <= t < zlen GT -> 0 <= i < zlen GX ->
  eval_unop Abs (binop_flt Sub (to_flt (nthZ (qcells GT) t)) (to_flt (nthZ (qcells GX) i)))
  = VFlt (Some (qtick (dist t i))).
Proof.
  intros t i Ht Hi. rewrite !nth_qcells by assumption. unfold binop_flt. rewrite fsub_q. apply fabs_q.
Qed.

Lemma cmp_gt_cell : forall a b,
  eval_cmp Gt (VFlt (Some (qtick a))) (VFlt (Some (qtick b))) = (b <? a).
Proof. intros. cbn [eval_cmp is_flt orb to_flt]. apply cmp_gt_q. Qed.

End PC.

Local Open Scope string_scope.
#[local] Hint Rewrite zlen_qcells zlen_tcells zlen_firsts zlen_seconds : zlen.

Definition ann_pc (ts tref : list Z) (ep : iset) (n0 n1 : nat) (l : nat) : annot :=
  match l with
  | 0%nat => ACall (pre_q tref ep) [RA1 DInt; RA1 DInt] (post_q tref ep)
  | 1%nat => ACall (pre_q ts ep) [RA1 DInt; RA1 DInt] (post_q ts ep)
  | 3%nat => ALoop [("k", KInt); ("t", KAny); ("i", KAny); ("maxt", KAny); ("maxi", KAny);
                    ("start_t", KAny); ("interval", KAny); ("t_pos", KAny); ("new_interval", KAny);
                    ("left", KAny); ("right", KAny); ("count", KArr);
                    ("slice_idx", KArr); ("start_w", KArr)]
                   (fun st0 st => CountOK ts tref ep (getD st "count")
                                  /\ PInv3 ts tref ep n0 n1 (getZ st "k") (getD st "slice_idx") (getD st "start_w"))
  | 5%nat => ALoop [("t", KInt); ("i", KInt); ("interval", KAny); ("t_pos", KAny);
                    ("new_interval", KAny); ("left", KAny); ("right", KAny);
                    ("slice_idx", KArr); ("start_w", KArr)]
                   (fun st0 st => PInv5 ts tref ep n0 n1 (getZ st0 "k") (getZ st "i") (getZ st "t")
                                        (getD st "slice_idx") (getD st "start_w"))
  | 6%nat => ALoop [("t", KInt); ("interval", KSc); ("t_pos", KInt); ("new_interval", KAny)]
                   (fun st0 st => getZ st0 "t" <= getZ st "t" <= maxT ts ep (getZ st0 "k")
                                  /\ PInv6 ts tref ep (getZ st0 "k") (getZ st0 "i") (getZ st0 "t")
                                           (getZ st "t") (getZ st "t_pos") (getsc st "interval"))
  | _ => ANone
  end.

Theorem k__jitcontinuous_perievent_computes_model : forall ts tref ep n0 n1 fuel,
  Forall (fun I => fst I <= snd I) ep ->
  match run fuel k__jitcontinuous_perievent (pc_args ts tref ep n0 n1) with
  | Return rs => rs = pc_result (restrict_idx ts ep) (pc_kernel ts tref ep n0 n1)
  | OutOfFuel => True
  | _ => False
  end.
Proof.
  intros ts tref ep n0 n1 fuel Hep.
  pose proof (run_sound all_kernels (ann_pc ts tref ep n0 n1) k__jitcontinuous_perievent
                (fun rs => rs = pc_result (restrict_idx ts ep) (pc_kernel ts tref ep n0 n1))
                (pc_args ts tref ep n0 n1) fuel) as RS.
  unfold run.
  match type of RS with ?P -> _ => assert (WP : P) end.
  2: { specialize (RS WP). clear WP. unfold Interp.run in *.
       destruct (exec all_kernels fuel (fbody k__jitcontinuous_perievent)
                   (init_store k__jitcontinuous_perievent (pc_args ts tref ep n0 n1)));
         simpl in *; auto. }
  clear RS. unfold pc_args.
  wp_compute k__jitcontinuous_perievent ann_pc. rewrite find_rwc.
  wp_compute k__jitcontinuous_perievent ann_pc.
  lazy beta iota delta [post_q].
  vc k__jitcontinuous_perievent ann_pc.
  1, 2: apply rwc_contract; assumption.
  (* shapes *)
  all: change (Z.max 0 2) with 2 in *.
  all: autorewrite with zlen in *.
  all: repeat match goal with
         | |- context [Z.max 0 (zlen ?l)] => rewrite (Z.max_r 0 (zlen l)) by apply zlen_nonneg
         | Hx : context [Z.max 0 (zlen ?l)] |- _ => rewrite (Z.max_r 0 (zlen l)) in Hx by apply zlen_nonneg
         end.
  (* the two restricted arrays *)
  all: repeat match goal with
       | H2 : ?d0 = index_cells (restrict_idx ?l ?e), H3 : idx_ok (zlen ?l) ?d0 = true |- _ =>
           let HG := fresh "HG" in
           pose proof (zlen_Gz l e) as HG; rewrite <- H2 in HG;
           try rewrite (gather_Gz l e d0 H2 H3) in *; clear H3
       end.
  (* the count array *)
  all: try match goal with
         | HC : CountOK _ _ _ ?d, Ha : 0 <= ?z, Hb : ?z < zlen _ |- _ =>
             destruct (count_facts ts tref ep d z HC (conj Ha Hb)) as (F1 & F2 & F3 & F4);
             rewrite ?F1, ?F2, ?F3, ?F4 in *;
             pose proof (epoch_bounds ts tref ep z (conj Ha Hb)) as (B1 & B2 & B3 & B4 & B5 & B6)
         end.
  all: try match goal with
         | HP : PInv5 _ _ _ _ _ _ _ _ _ _ |- _ =>
             pose proof (PInv5_bounds _ _ _ _ _ _ _ _ _ _ HP) as (B7 & B8)
         end.
  all: try match goal with
         | HP : PInv6 _ _ _ _ _ _ _ _ _ |- _ =>
             pose proof (PInv6_val _ _ _ _ _ _ _ _ _ HP) as (V1 & V2)
         end.
  all: unfold maxT in *.
  all: try lia.
  all: try assumption.
  (* float arithmetic on the tick lattice *)
  all: rewrite ?dist_cell in * by lia.
  all: try match goal with V : ?a = ?t - 1, HP : PInv6 _ _ _ _ _ _ ?t ?a _ |- _ => subst a end.
  all: try match goal with V : ?v = VFlt (Some (qtick _)), HP : PInv6 _ _ _ _ _ _ _ _ ?v |- _ => subst v end.
  all: repeat match goal with
         | Hc : eval_cmp Gt (VFlt (Some (qtick _))) (VFlt (Some (qtick _))) = _ |- _ =>
             rewrite cmp_gt_cell in Hc; b2p Hc
         end.
  all: try match goal with
         | |- CountOK _ _ _ (set_col _ _ _ _ _) => apply CountOK_init; assumption
         | |- PInv3 _ _ _ _ _ 0 (zeros _ _ _) (zeros _ _ _) => apply T3_init; lia
         | HP : PInv3 _ _ _ _ _ ?k ?d ?sw |- PInv5 _ _ _ _ _ ?k _ _ ?d ?sw =>
             apply (T5_init ts tref ep n0 n1 k d sw HP); lia
         | |- PInv6 _ _ _ _ _ (?t + 1) (?t + 1) ?t _ => apply T6_init; reflexivity
         | HP : PInv6 _ _ _ ?k ?i ?t0 ?t ?tpos ?itv |- PInv6 _ _ _ ?k ?i ?t0 (?t + 1) ?t _ =>
             apply (T6_step ts tref ep k i t0 t tpos itv HP); [lia | unfold maxT; lia | lia]
         | HP5 : PInv5 _ _ _ _ _ ?k ?i ?t5 ?d ?sw, HP6 : PInv6 _ _ _ ?k ?i _ ?t ?tpos ?itv
           |- PInv5 _ _ _ _ _ ?k (?i + 1) _ (updZ (updZ ?d _ (VInt ?a)) _ (VInt ?b)) (updZ ?sw _ (VInt ?c)) =>
             apply (T5_step ts tref ep n0 n1 k i t5 d sw t tpos itv a b c HP5);
             [ lia | lia | exact HP6 | unfold maxT; lia | unfold maxT; first [left; lia | right; lia] | lia
             | reflexivity | reflexivity | reflexivity ]
         | HP5 : PInv5 _ _ _ _ _ ?k ?i ?t ?d ?sw |- PInv3 _ _ _ _ _ (?k + 1) ?d ?sw =>
             apply (T5_exit ts tref ep n0 n1 k i t d sw HP5); lia
         | HP3 : PInv3 _ _ _ _ _ ?k ?d ?sw |- PInv3 _ _ _ _ _ (?k + 1) ?d ?sw =>
             apply (T3_skip ts tref ep n0 n1 k d sw HP3); [lia | first [left; lia | right; lia]]
         | HP3 : PInv3 _ _ _ _ _ _ ?d ?sw, HC : CountOK _ _ _ ?cd
           |- [Ar (A1 DInt ?d2); Ar (A2 DInt ?n 2 ?d); _; Ar (A1 DInt ?sw)] = _ =>
             apply (T_result ts tref ep n0 n1 (zlen ep) d sw d2 n _ cd HP3);
             [lia | lia | assumption | lia | assumption | reflexivity]
         | |- [_; Ar (A2 DInt _ 2 (zeros _ _ _));
               Sc (VInt (sum_int (pyslice (column _ _ ?cd 1) 0 _))); _] = _ =>
             assert (HC : CountOK ts tref ep cd) by (apply CountOK_init; assumption);
             eapply (T_result ts tref ep n0 n1 (zlen ep) _ _ _ _ _ cd);
             [ apply T3_all_skip; [|apply T3_init; lia] | lia | autorewrite with zlen; lia | assumption | lia
             | exact HC | reflexivity ];
             first [ intros k Hk; lia | apply (any_false ts tref ep cd HC); assumption ]
         end.
Qed.


(* with termination (Inv/Jitcontinuous_perievent_term.v): some fuel makes the kernel return the model's result *)
Corollary k__jitcontinuous_perievent_total : forall ts tref ep n0 n1,
  Forall (fun I => fst I <= snd I) ep ->
  exists fuel, run fuel k__jitcontinuous_perievent (pc_args ts tref ep n0 n1)
               = Return (pc_result (restrict_idx ts ep) (pc_kernel ts tref ep n0 n1)).
Proof.
  intros ts tref ep n0 n1 Hep.
  assert (P : Pre__jitcontinuous_perievent (pc_args ts tref ep n0 n1)).
  { unfold pc_args. do 9 eexists. split; [reflexivity|]. autorewrite with zlen. split; reflexivity. }
  destruct (k__jitcontinuous_perievent_returns _ P) as [fuel [rs E]]. exists fuel.
  pose proof (k__jitcontinuous_perievent_computes_model ts tref ep n0 n1 fuel Hep) as F.
  rewrite E in F. rewrite E, F. reflexivity.
Qed.

(* not vacuous: two epochs, 4 events inside them (the fifth, 30, lies outside), window (1, 2) *)
Example k__jitcontinuous_perievent_runs :
  run 400 k__jitcontinuous_perievent (pc_args [0; 5; 9; 12; 20; 21; 22] [1; 9; 10; 21; 30] [(0, 12); (20, 25)] 1 2)
  = Return (pc_result [0; 1; 2; 3; 4; 5; 6]%nat
              [(0, 3, 1); (1, 4, 0); (1, 4, 0); (4, 7, 0)]%nat)
  /\ pc_kernel [0; 5; 9; 12; 20; 21; 22] [1; 9; 10; 21; 30] [(0, 12); (20, 25)] 1 2
     = [(0, 3, 1); (1, 4, 0); (1, 4, 0); (4, 7, 0)]%nat.
Proof. split; vm_compute; reflexivity. Qed.
(* an epoch holding events but no sample, between two active epochs: its rows stay (0, 0, 0) *)
Example k__jitcontinuous_perievent_runs_gap :
  run 400 k__jitcontinuous_perievent (pc_args [0; 1; 2; 20; 21] [1; 11; 12; 20] [(0, 5); (10, 15); (18, 30)] 3 0)
  = Return (pc_result (restrict_idx [0; 1; 2; 20; 21] [(0, 5); (10, 15); (18, 30)])
              (pc_kernel [0; 1; 2; 20; 21] [1; 11; 12; 20] [(0, 5); (10, 15); (18, 30)] 3 0))
  /\ pc_kernel [0; 1; 2; 20; 21] [1; 11; 12; 20] [(0, 5); (10, 15); (18, 30)] 3 0
     = [(0, 2, 2); (0, 0, 0); (0, 0, 0); (3, 4, 3)]%nat.
Proof. split; vm_compute; reflexivity. Qed.

(* the hypothesis start <= end is needed: with the interval (5, 2) the kernel (whose callee skips, in its leading
   scan, the intervals ending before the first sample) and the model return different arrays *)
Example start_le_end_needed :
  run 400 k__jitcontinuous_perievent (pc_args [3; 6; 8] [3; 6; 7] [(5, 2); (0, 10)] 1 1)
  = Return [Ar (A1 DInt [VInt 0; VInt 1; VInt 2]);
            Ar (A2 DInt 3 2 [VInt 0; VInt 2; VInt 0; VInt 3; VInt 1; VInt 3]);
            Sc (VInt 3); Ar (A1 DInt [VInt 1; VInt 0; VInt 0])]
  /\ pc_result (restrict_idx [3; 6; 8] [(5, 2); (0, 10)]) (pc_kernel [3; 6; 8] [3; 6; 7] [(5, 2); (0, 10)] 1 1)
     = [Ar (A1 DInt [VInt 1; VInt 2]); Ar (A2 DInt 2 2 [VInt 0; VInt 2; VInt 0; VInt 2]);
        Sc (VInt 2); Ar (A1 DInt [VInt 1; VInt 0])].
Proof. split; vm_compute; reflexivity. Qed.

Print Assumptions k__jitcontinuous_perievent_computes_model.
Print Assumptions k__jitcontinuous_perievent_total.
