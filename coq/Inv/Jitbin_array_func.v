(* Functional correctness of the TRANSLATED _jitbin_array (Gen/Kernels.v, generated from
   pynapple/core/_jitted_functions.py) against the functional model [bin_sum_cnt] of Model/Count.v (the
   model the bin_average theorems of Proofs/CountProofs.v are about), by proof, with the method and the
   lemmas of Inv/Jitcount_func.v (partial correctness through [run_sound], functional loop invariants):

     for EVERY time array ts and data column vs (integer ticks / integer values; no sortedness, no
     length condition), EVERY interval list ep and EVERY bin size b > 0 ticks (even or odd), running the
     translated kernel on the arguments its Python caller jitbin_array builds
         countin = counts of jitrestrict_with_count   (= restrict_cnt ts ep, Inv/Jitrestrict_with_count_func.v)
         time_array[idx], data_array[idx]             (idx = restrict_idx ts ep)
         starts ep, ends ep, b * 1e-9
     returns, whenever it returns, exactly
       [ array of the bin centres ; array of the per-bin means  sum / count  (NaN for an empty bin) ]
     of  bin_sum_cnt ts vs ep b  (rows (2*centre, (count, sum))), a doubled centre c2 being reported as the
     tick [centre_tick c2] = np.round(c2 / 2 * 1e-9, 9) (c2 / 2, or the even neighbour of a half tick).

   Times are the floats [qtick t] = t * 1e-9; data values and counts are integer-valued floats
   [inject_Z v]; the interpreter's floats being exact rationals, the running sums stay integers and the
   returned mean is the interpreter's quotient [fdiv sum count] (NaN when count = 0).
   Hypothesis: b > 0 only.  start <= end is NOT needed here: the kernel receives the restricted arrays and
   the model restricts with the same scan.  No parity condition on b: the kernel decides whether a bin is
   reported with  np.round(2 * lbound + bin_size, 9) > 2 * ends[k]  (the model's test on the exact centre).
   HISTORY: before that repair the kernel compared the ROUNDED centre with the end and the refinement held
   for even b only; [k__jitbin_array_before_fix] (Inv/Findings.v) is the frozen translation of that text and
   [odd_bin_size_differs_bin_array] at the end of this file the computed witness. *)
From Coq Require Import ZArith QArith Qround String List Bool Lia.
From Verif Require Import Base.Prelude Model.Restrict Model.Count Proofs.BaseLemmas Proofs.RestrictProofs
  Proofs.CountProofs.
From Verif Require Import Jit.Lang Jit.Interp Jit.Safety Jit.Tactics Jit.ArrayFacts Jit.FloatFacts Gen.Kernels.
From Verif Require Import Inv.Jitfix_iset_func.
From Verif Require Import Inv.Jitrestrict_func Inv.Jitrestrict_with_count_func Inv.Jitcount_func Inv.Findings.
Import ListNotations.
Open Scope Z_scope.
#[local] Hint Rewrite zlen_qcells zlen_firsts zlen_seconds : zlen.

(* ---------- integer-valued floats (counts, data values and their sums) ---------- *)
Definition vcell (v : Z) : sval := VFlt (Some (inject_Z v)).
Definition vcells (l : list Z) : list sval := map vcell l.
Lemma zlen_vcells : forall l, zlen (vcells l) = zlen l.
Proof. intros; unfold vcells; apply zlen_map. Qed.
#[local] Hint Rewrite zlen_vcells : zlen.
Lemma nth_vcells : forall l k, 0 <= k < zlen l -> to_flt (nthZ (vcells l) k) = Some (inject_Z (tk l k)).
Proof.
  intros l k H. unfold nthZ, vcells, tk.
  rewrite (nth_indep _ dflt (vcell 0)) by (rewrite map_length; unfold zlen in H; lia).
  rewrite map_nth. reflexivity.
Qed.

Lemma Qred_inject_Z : forall z, Qred (inject_Z z) = inject_Z z.
Proof.
  intros z. unfold Qred, inject_Z.
  pose proof (Z.ggcd_gcd z 1) as G. pose proof (Z.ggcd_correct_divisors z 1) as D.
  destruct (Z.ggcd z 1) as [g [aa bb]]. cbn [fst snd] in *. rewrite Z.gcd_1_r in G.
  destruct D as [D1 D2]. rewrite G in D1, D2.
  replace bb with 1 by lia. replace aa with z by lia. reflexivity.
Qed.
Lemma fadd_z : forall a b, fadd (Some (inject_Z a)) (Some (inject_Z b)) = Some (inject_Z (a + b)).
Proof.
  intros. unfold fadd, f2, qsome. f_equal. rewrite <- (Qred_inject_Z (a + b)). apply Qred_complete.
  unfold Qeq, Qplus, inject_Z. simpl. lia.
Qed.

(* ---------- generic list facts ---------- *)
Lemma combine_fst_snd : forall {A B} (a : list A) (b : list B), length a = length b ->
  map fst (combine a b) = a /\ map snd (combine a b) = b.
Proof.
  induction a as [|x r IH]; intros b H; destruct b as [|y s]; simpl in *; try lia; [split; reflexivity|].
  destruct (IH s ltac:(lia)) as [E1 E2]. rewrite E1, E2. split; reflexivity.
Qed.

Lemma skipn_cons_nth_g : forall {A} (l : list A) n d, (n < length l)%nat -> skipn n l = nth n l d :: skipn (S n) l.
Proof.
  induction l as [|x r IH]; intros n d H; simpl in H; [lia|].
  destruct n; [reflexivity|]. simpl. apply IH. lia.
Qed.

(* segments of the concatenation of a list of per-interval lists *)
Section Segs.
Context {A : Type}.
Variable X : list (list A).
Variable m : Z.
Hypothesis HX : zlen X = m.

Definition gcat : list A := concat X.
Definition gsmp (k : Z) : list A := nth (Z.to_nat k) X [].
Definition goff (k : Z) : Z := Z.of_nat (length (concat (firstn (Z.to_nat k) X))).
Definition gseg (a b : Z) : list A := firstn (Z.to_nat (b - a)) (skipn (Z.to_nat a) gcat).

Lemma goff_succ : forall k, 0 <= k < m -> goff (k + 1) = goff k + zlen (gsmp k).
Proof.
  intros k H. unfold goff, gsmp, zlen. replace (Z.to_nat (k + 1)) with (S (Z.to_nat k)) by lia.
  rewrite (firstn_snoc _ _ []) by (unfold zlen in HX; lia).
  rewrite concat_app, app_length. simpl. rewrite app_nil_r. lia.
Qed.
Lemma goff_all : forall k, m <= k -> goff k = zlen gcat.
Proof.
  intros k H. unfold goff, gcat, zlen. rewrite firstn_all2 by (unfold zlen in HX; lia). reflexivity.
Qed.
Lemma gseg_smp : forall k, 0 <= k < m -> gseg (goff k) (goff k + zlen (gsmp k)) = gsmp k.
Proof.
  intros k H. unfold gseg, goff, gcat, gsmp, zlen.
  replace (Z.to_nat (Z.of_nat (length (concat (firstn (Z.to_nat k) X))) + Z.of_nat (length (nth (Z.to_nat k) X []))
                     - Z.of_nat (length (concat (firstn (Z.to_nat k) X)))))
    with (length (nth (Z.to_nat k) X [])) by lia.
  rewrite Nat2Z.id.
  rewrite (split_nth X (Z.to_nat k) []) at 3 by (unfold zlen in HX; lia).
  rewrite concat_app. simpl concat. apply seg_mid.
Qed.
Lemma gseg_nil : forall a, gseg a a = [].
Proof. intros. unfold gseg. rewrite Z.sub_diag. reflexivity. Qed.
Lemma gseg_cons : forall t mx d, 0 <= t < mx -> t < zlen gcat ->
  gseg t mx = nth (Z.to_nat t) gcat d :: gseg (t + 1) mx.
Proof.
  intros t mx d H HG. unfold gseg.
  rewrite (skipn_cons_nth_g gcat (Z.to_nat t) d) by (unfold zlen in HG; lia).
  replace (Z.to_nat (mx - t)) with (S (Z.to_nat (mx - (t + 1)))) by lia.
  replace (Z.to_nat (t + 1)) with (S (Z.to_nat t)) by lia. reflexivity.
Qed.
End Segs.

(* ---------- the model, indexed by positions ---------- *)
Definition bcell (p : Z * (nat * Z)) : sval := VFlt (Some (qtick (centre_tick (fst p)))).
Definition kcell (p : Z * (nat * Z)) : sval := VFlt (Some (inject_Z (Z.of_nat (fst (snd p))))).
Definition scell (p : Z * (nat * Z)) : sval := VFlt (Some (inject_Z (snd (snd p)))).
Definition mean_cell (p : Z * (nat * Z)) : sval :=
  VFlt (fdiv (Some (inject_Z (snd (snd p)))) (Some (inject_Z (Z.of_nat (fst (snd p)))))).
Definition cfr (p : Z * list (Z * Z)) : Z * (nat * Z) := let '(c, l) := p in (c, (length l, sumZ (map snd l))).
Definition fztail (k : Z) (c : list sval) : Prop :=
  forall j, (Z.to_nat k <= j < length c)%nat -> nth j c dflt = VFlt (Some 0%Q).

Lemma div_cells_mean : forall L, div_cells (map scell L) (map kcell L) = map mean_cell L.
Proof.
  induction L as [|p r IH]; [reflexivity|]. unfold div_cells in *. simpl map.
  change (map2 ?f (?x :: ?a) (?y :: ?b)) with (f x y :: map2 f a b). rewrite IH. reflexivity.
Qed.

Section Model.
Variable ts vs : list Z.
Variable ep : iset.
Variable B : Z.

Notation sk := (Jitrestrict_func.sk ep).
Notation ek := (Jitrestrict_func.ek ep).

Definition SR : list (list (Z * Z)) := rows_per_interval ts vs ep.
Definition GR : list (Z * Z) := gcat SR.
Definition Gt : list Z := map fst GR.
Definition Gv : list Z := map snd GR.
Definition rseg := gseg SR.
Definition roff := goff SR.
Definition rsmp := gsmp SR.
Definition rowk (t : Z) : Z * Z := nth (Z.to_nat t) GR (0, 0).
Definition per_interval_r (x : (Z * Z) * list (Z * Z)) : list (Z * (nat * Z)) :=
  let '((s, e), l) := x in map cfr (bins_rows_go (nb_bins s e B) s e B l).
Definition rout (k : Z) : list (Z * (nat * Z)) :=
  concat (map per_interval_r (firstn (Z.to_nat k) (combine ep SR))).

Lemma SR_length : zlen SR = zlen ep.
Proof. unfold SR, rows_per_interval, zlen. rewrite map_length, scan_length. reflexivity. Qed.

Lemma Gt_select : Gt = select 0 ts (restrict_idx ts ep).
Proof.
  unfold Gt, GR, gcat, SR, rows_per_interval, restrict_idx, select. rewrite !concat_map, !map_map.
  f_equal. apply map_ext. intros ix. apply (combine_fst_snd (map (fun i => nth i ts 0) ix)). rewrite !map_length. reflexivity.
Qed.
Lemma Gv_select : Gv = select 0 vs (restrict_idx ts ep).
Proof.
  unfold Gv, GR, gcat, SR, rows_per_interval, restrict_idx, select. rewrite !concat_map, !map_map.
  f_equal. apply map_ext. intros ix. apply (combine_fst_snd (map (fun i => nth i ts 0) ix)). rewrite !map_length. reflexivity.
Qed.
Lemma zlen_Gt : zlen Gt = zlen GR.
Proof. unfold Gt. apply zlen_map. Qed.
Lemma zlen_Gv : zlen Gv = zlen GR.
Proof. unfold Gv. apply zlen_map. Qed.
Lemma tk_Gt : forall t, tk Gt t = fst (rowk t).
Proof. intros. unfold tk, Gt, rowk. apply (map_nth fst GR (0, 0)). Qed.
Lemma tk_Gv : forall t, tk Gv t = snd (rowk t).
Proof. intros. unfold tk, Gv, rowk. apply (map_nth snd GR (0, 0)). Qed.

Lemma rsmp_length : forall k, zlen (rsmp k) = Z.of_nat (nth (Z.to_nat k) (restrict_cnt ts ep) 0%nat).
Proof.
  intros k. unfold rsmp, gsmp, SR, rows_per_interval, restrict_cnt, zlen. f_equal.
  change (@nil (Z * Z)) with ((fun ix => combine (select 0 ts ix) (select 0 vs ix)) []). rewrite map_nth.
  change 0%nat with (length (@nil nat)). rewrite map_nth. unfold select.
  rewrite combine_length, !map_length. apply Nat.min_id.
Qed.

Lemma nth_countin_r : forall k, 0 <= k < zlen ep ->
  to_int (nthZ (index_cells (restrict_cnt ts ep)) k) = zlen (rsmp k).
Proof.
  intros k H. rewrite nth_index_cells.
  - cbn [to_int]. symmetry. apply rsmp_length.
  - unfold restrict_cnt, zlen. rewrite map_length, scan_length. exact H.
Qed.
Lemma psum_countin_r : forall k, 0 <= k <= zlen ep -> psum (index_cells (restrict_cnt ts ep)) k = roff k.
Proof.
  intros k H. rewrite <- (Z2Nat.id k) in * by lia. destruct H as [_ H].
  induction (Z.to_nat k) as [|n IH].
  - rewrite psum_0. reflexivity.
  - replace (Z.of_nat (S n)) with (Z.of_nat n + 1) in * by lia.
    rewrite psum_succ by (rewrite zlen_countin; lia).
    rewrite nth_countin_r by lia. unfold roff. rewrite (goff_succ SR (zlen ep) SR_length) by lia.
    fold roff. rewrite IH by lia. reflexivity.
Qed.
Lemma nonneg_index_cells : forall l, nonneg_ints (index_cells l).
Proof. intros l. unfold nonneg_ints, index_cells. apply Forall_forall. intros v Hv. apply in_map_iff in Hv.
  destruct Hv as [i [<- _]]. exists (Z.of_nat i). split; [reflexivity | lia]. Qed.
Lemma sum_countin_r : sum_int (index_cells (restrict_cnt ts ep)) = zlen GR.
Proof.
  rewrite <- psum_all, zlen_countin, psum_countin_r by (pose proof (zlen_nonneg ep); lia).
  apply (goff_all SR (zlen ep) SR_length). lia.
Qed.

Lemma rout_0 : rout 0 = [].
Proof. reflexivity. Qed.
Lemma rout_succ : forall k, 0 <= k < zlen ep ->
  rout (k + 1) = (rout k ++ map cfr (bins_rows_go (Z.to_nat (nbz ep B k)) (sk k) (ek k) B (rsmp k)))%list.
Proof.
  intros k H. pose proof SR_length as HL. unfold zlen in HL.
  unfold rout. replace (Z.to_nat (k + 1)) with (S (Z.to_nat k)) by lia.
  rewrite (firstn_snoc _ _ ((0, 0), [])) by (rewrite combine_length; unfold zlen in H; lia).
  rewrite map_app, concat_app. simpl. rewrite app_nil_r. f_equal.
  rewrite combine_nth by lia. rewrite nth_ep by assumption.
  unfold per_interval_r, nbz, rsmp, gsmp. rewrite Nat2Z.id. reflexivity.
Qed.
Lemma rout_all : forall k, zlen ep <= k -> rout k = bin_sum_cnt ts vs ep B.
Proof.
  intros k H. pose proof SR_length as HL. unfold zlen in HL. unfold rout, bin_sum_cnt.
  rewrite firstn_all2 by (rewrite combine_length; unfold zlen in H; lia).
  reflexivity.
Qed.

(* ---------- representation of the three buffers and loop invariants ---------- *)
Definition Rep (bins cnt avg : list sval) (bi : Z) (L : list (Z * (nat * Z))) : Prop :=
  zlen L = bi /\ firstn (Z.to_nat bi) bins = map bcell L /\ firstn (Z.to_nat bi) cnt = map kcell L
  /\ firstn (Z.to_nat bi) avg = map scell L /\ fztail bi cnt /\ fztail bi avg.

(* loop 2 (intervals) *)
Definition RInv3 (k bi : Z) (bins cnt avg : list sval) : Prop := Rep bins cnt avg bi (rout k).
(* loop 3 (bins of interval k, entered with b = b0) *)
Definition RInv4 (k b0 maxb maxt bi t : Z) (bins cnt avg : list sval) : Prop :=
  exists L, Rep bins cnt avg bi L
       /\ (L ++ map cfr (bins_rows_go (Z.to_nat (maxb - bi)) (lbz ep B k b0 bi) (ek k) B (rseg t maxt)))%list
          = rout (k + 1).
(* loop 5 (samples of the bin, entered with t = t0, cnt[b] = average[b] = 0) *)
Definition RInv6 (rb bi t0 maxt : Z) (cnt0 avg0 : list sval) (t : Z) (cnt avg : list sval) : Prop :=
  exists S, cnt = updZ cnt0 bi (VFlt (Some (inject_Z (t - t0))))
  /\ avg = updZ avg0 bi (VFlt (Some (inject_Z S)))
  /\ Z.of_nat (length (fst (span_lt_rows rb (rseg t maxt)))) + (t - t0)
     = Z.of_nat (length (fst (span_lt_rows rb (rseg t0 maxt))))
  /\ sumZ (map snd (fst (span_lt_rows rb (rseg t maxt)))) + S
     = sumZ (map snd (fst (span_lt_rows rb (rseg t0 maxt))))
  /\ snd (span_lt_rows rb (rseg t maxt)) = snd (span_lt_rows rb (rseg t0 maxt)).

Lemma fztail_zeros : forall n, fztail 0 (zeros DFlt n (VInt 0)).
Proof.
  intros n j [_ Hj]. unfold zeros in *. rewrite repeat_length in Hj. simpl coerce.
  rewrite (nth_indep _ dflt (VFlt (Some (qz 0)))) by (rewrite repeat_length; lia). apply nth_repeat.
Qed.

Lemma RT3_init : forall n, RInv3 0 0 (zeros DFlt n (VInt 0)) (zeros DFlt n (VInt 0)) (zeros DFlt n (VInt 0)).
Proof. intros n. unfold RInv3, Rep. rewrite rout_0. repeat split; apply fztail_zeros. Qed.

Lemma RT4_init : forall k b0 t0 bins cnt avg nb c,
  RInv3 k b0 bins cnt avg -> 0 <= k < zlen ep -> nb = nbz ep B k -> t0 = roff k -> c = zlen (rsmp k) ->
  RInv4 k b0 (b0 + nb) (t0 + c) b0 t0 bins cnt avg.
Proof.
  intros k b0 t0 bins cnt avg nb c H Hk -> -> ->. exists (rout k). split; [exact H|].
  rewrite rout_succ by assumption. f_equal. f_equal.
  unfold lbz. replace (b0 + nbz ep B k - b0) with (nbz ep B k) by lia. replace (sk k + (b0 - b0) * B) with (sk k) by lia.
  unfold rseg, roff, rsmp. rewrite (gseg_smp SR (zlen ep) SR_length) by assumption. reflexivity.
Qed.

Lemma RT3_break : forall k b0 maxb maxt bi t bins cnt avg,
  RInv4 k b0 maxb maxt bi t bins cnt avg -> 2 * ek k < 2 * lbz ep B k b0 bi + B -> RInv3 (k + 1) bi bins cnt avg.
Proof.
  intros k b0 maxb maxt bi t bins cnt avg (L & R & E) Hlt. unfold RInv3. rewrite <- E.
  destruct (Z.to_nat (maxb - bi)) as [|f]; simpl.
  - rewrite app_nil_r. exact R.
  - assert (X : (2 * ek k <? 2 * lbz ep B k b0 bi + B) = true) by (apply Z.ltb_lt; lia). rewrite X.
    simpl. rewrite app_nil_r. exact R.
Qed.
Lemma RT3_done : forall k b0 maxb maxt bi t bins cnt avg,
  RInv4 k b0 maxb maxt bi t bins cnt avg -> maxb <= bi -> RInv3 (k + 1) bi bins cnt avg.
Proof.
  intros k b0 maxb maxt bi t bins cnt avg (L & R & E) Hle. unfold RInv3. rewrite <- E.
  replace (Z.to_nat (maxb - bi)) with 0%nat by lia. simpl. rewrite app_nil_r. exact R.
Qed.

Lemma updZ_self : forall (c : list sval) bi v, 0 <= bi < zlen c -> nth (Z.to_nat bi) c dflt = v -> c = updZ c bi v.
Proof. intros c bi v H <-. unfold updZ. symmetry. apply upd_nth_same. Qed.

Lemma RT6_init : forall k b0 maxb maxt bi t bins cnt avg rb,
  RInv4 k b0 maxb maxt bi t bins cnt avg -> 0 <= bi < zlen cnt -> 0 <= bi < zlen avg ->
  RInv6 rb bi t maxt cnt avg t cnt avg.
Proof.
  intros k b0 maxb maxt bi t bins cnt avg rb (L & (R1 & R2 & R3 & R4 & R5 & R6) & E) Hb Ha.
  exists 0. rewrite Z.sub_diag. repeat split; try lia.
  - apply updZ_self; [lia|]. apply R5. unfold zlen in Hb. lia.
  - apply updZ_self; [lia|]. apply R6. unfold zlen in Ha. lia.
Qed.

Lemma RT6_step : forall rb bi t0 maxt cnt0 avg0 t cnt avg,
  RInv6 rb bi t0 maxt cnt0 avg0 t cnt avg -> t0 <= t < maxt -> 0 <= t < zlen GR -> tk Gt t < rb ->
  0 <= bi < zlen cnt0 -> 0 <= bi < zlen avg0 ->
  RInv6 rb bi t0 maxt cnt0 avg0 (t + 1)
        (updZ cnt bi (VFlt (fadd (to_flt (nthZ cnt bi)) (Some (1 # 1)%Q))))
        (updZ avg bi (VFlt (fadd (to_flt (nthZ avg bi)) (Some (inject_Z (tk Gv t)))))).
Proof.
  intros rb bi t0 maxt cnt0 avg0 t cnt avg HI Ht HG Hlt Hb Ha. unfold RInv6, rseg in *.
  destruct HI as (S & -> & -> & E1 & E2 & E3). rewrite (gseg_cons SR t maxt (0, 0)) in E1, E2, E3 by (fold GR; lia).
  fold GR in E1, E2, E3. fold (rowk t) in E1, E2, E3. rewrite tk_Gt in Hlt. rewrite tk_Gv.
  destruct (rowk t) as [tt vv]. cbn [fst snd] in *. cbn [span_lt_rows] in E1, E2, E3.
  assert (X : (tt <? rb) = true) by (apply Z.ltb_lt; lia). rewrite X in E1, E2, E3.
  destruct (span_lt_rows rb (gseg SR (t + 1) maxt)) as [a c] eqn:ES. cbn [fst snd length map] in *.
  exists (S + vv). repeat split.
  - unfold updZ, nthZ. rewrite nth_upd_nth_same by (unfold zlen in Hb; lia). rewrite upd_nth_twice.
    cbn [to_flt]. change (1 # 1)%Q with (inject_Z 1). rewrite fadd_z. f_equal. f_equal. f_equal. f_equal. lia.
  - unfold updZ, nthZ. rewrite nth_upd_nth_same by (unfold zlen in Ha; lia). rewrite upd_nth_twice.
    cbn [to_flt]. rewrite fadd_z. reflexivity.
  - lia.
  - unfold sumZ in *. cbn [fold_right] in E2. lia.
  - exact E3.
Qed.

Lemma RT4_step : forall k b0 maxb maxt bi t0 bins cnt0 avg0 t cnt avg,
  RInv4 k b0 maxb maxt bi t0 bins cnt0 avg0 -> b0 <= bi < maxb -> 2 * lbz ep B k b0 bi + B <= 2 * ek k ->
  RInv6 (lbz ep B k b0 bi + B) bi t0 maxt cnt0 avg0 t cnt avg -> t0 <= t <= maxt -> 0 <= t0 ->
  (t = maxt \/ (t < zlen GR /\ lbz ep B k b0 bi + B <= tk Gt t)) ->
  0 <= bi < zlen bins -> zlen cnt0 = zlen bins -> zlen avg0 = zlen bins ->
  RInv4 k b0 maxb maxt (bi + 1) t (updZ bins bi (VFlt (Some (qtick (centre_tick (2 * lbz ep B k b0 bi + B)))))) cnt avg.
Proof.
  intros k b0 maxb maxt bi t0 bins cnt0 avg0 t cnt avg (L & (R1 & R2 & R3 & R4 & R5 & R6) & E) Hb Hc
         (S & -> & -> & E1 & E2 & E3) Ht H0 X Hbb Hz Hza.
  assert (SP : span_lt_rows (lbz ep B k b0 bi + B) (rseg t maxt) = ([], rseg t maxt)).
  { destruct X as [->|[X1 X2]]; [unfold rseg; rewrite gseg_nil; reflexivity|].
    destruct (Z.eq_dec t maxt) as [->|Hne]; [unfold rseg; rewrite gseg_nil; reflexivity|].
    unfold rseg. rewrite (gseg_cons SR t maxt (0, 0)) by (fold GR; lia). fold GR. fold (rowk t).
    rewrite tk_Gt in X2. destruct (rowk t) as [tt vv]. cbn [fst] in X2. cbn [span_lt_rows].
    assert (Y : (tt <? lbz ep B k b0 bi + B) = false) by (apply Z.ltb_ge; lia). rewrite Y. reflexivity. }
  rewrite SP in E1, E2, E3. cbn [fst snd length map] in E1, E2, E3.
  replace (Z.to_nat (maxb - bi)) with (Datatypes.S (Z.to_nat (maxb - (bi + 1)))) in E by lia. cbn [bins_rows_go] in E.
  assert (Y : (2 * ek k <? 2 * lbz ep B k b0 bi + B) = false) by (apply Z.ltb_ge; lia). rewrite Y in E.
  destruct (span_lt_rows (lbz ep B k b0 bi + B) (rseg t0 maxt)) as [a c] eqn:ES. cbn [fst snd] in E, E1, E2, E3. subst c.
  exists (L ++ [(2 * lbz ep B k b0 bi + B, (length a, sumZ (map snd a)))])%list. split.
  - unfold Rep. repeat split.
    + unfold zlen in *. rewrite app_length. simpl. lia.
    + rewrite firstn_updZ_snoc by lia. rewrite R2, map_app. reflexivity.
    + rewrite firstn_updZ_snoc by lia. rewrite R3, map_app. simpl. f_equal. unfold kcell. simpl.
      f_equal. f_equal. f_equal. f_equal. lia.
    + rewrite firstn_updZ_snoc by lia. rewrite R4, map_app. simpl. f_equal. unfold scell. simpl.
      f_equal. f_equal. f_equal. f_equal. unfold sumZ in *. simpl in E2. lia.
    + intros j Hj. unfold updZ in *. rewrite upd_nth_length in Hj. rewrite nth_upd_nth_other by lia. apply R5. lia.
    + intros j Hj. unfold updZ in *. rewrite upd_nth_length in Hj. rewrite nth_upd_nth_other by lia. apply R6. lia.
  - rewrite <- E. rewrite <- app_assoc. simpl. f_equal. f_equal. f_equal.
    unfold lbz. f_equal. lia.
Qed.

Lemma RT_final : forall k bi bins cnt avg, RInv3 k bi bins cnt avg -> zlen ep <= k ->
  0 <= bi <= zlen bins -> bi <= zlen cnt -> bi <= zlen avg ->
  [Ar (A1 DFlt (pyslice bins 0 bi)); Ar (A1 DFlt (div_cells (pyslice avg 0 bi) (pyslice cnt 0 bi)))]
  = [Ar (A1 DFlt (map bcell (bin_sum_cnt ts vs ep B))); Ar (A1 DFlt (map mean_cell (bin_sum_cnt ts vs ep B)))].
Proof.
  intros k bi bins cnt avg (R1 & R2 & R3 & R4 & R5 & R6) Hk Hb Hc Ha. rewrite !pyslice_0 by lia.
  rewrite R2, R3, R4. rewrite div_cells_mean. rewrite rout_all by assumption. reflexivity.
Qed.

End Model.

Local Open Scope string_scope.

Definition ann_func (ts vs : list Z) (ep : iset) (B : Z) (l : nat) : annot :=
  match l with
  | 0%nat => ALoop [("k", KInt); ("nb_bins", KArr)]
                   (fun st0 st => nonneg_ints (getD st "nb_bins") /\ Inv1 ep B (getZ st "k") (getD st "nb_bins"))
  | 2%nat => ALoop [("k", KInt); ("t", KInt); ("b", KInt); ("maxb", KAny); ("maxt", KAny);
                    ("lbound", KAny); ("xpos", KAny); ("rbound", KAny);
                    ("bins", KArr); ("cnt", KArr); ("average", KArr)]
                   (fun st0 st => 0 <= getZ st "k" <= getZ st0 "m"
                                  /\ getZ st "t" = psum (getD st0 "countin") (getZ st "k")
                                  /\ 0 <= getZ st "b" <= psum (getD st0 "nb_bins") (getZ st "k")
                                  /\ RInv3 ts vs ep B (getZ st "k") (getZ st "b")
                                           (getD st "bins") (getD st "cnt") (getD st "average"))
  | 3%nat => ALoop [("b", KInt); ("t", KInt); ("lbound", KFlt); ("xpos", KAny); ("rbound", KAny);
                    ("bins", KArr); ("cnt", KArr); ("average", KArr)]
                   (fun st0 st => getZ st0 "b" <= getZ st "b" <= getZ st0 "maxb"
                                  /\ getZ st0 "t" <= getZ st "t" <= getZ st0 "maxt"
                                  /\ to_flt (getsc st "lbound")
                                     = Some (qtick (lbz ep B (getZ st0 "k") (getZ st0 "b") (getZ st "b")))
                                  /\ RInv4 ts vs ep B (getZ st0 "k") (getZ st0 "b") (getZ st0 "maxb") (getZ st0 "maxt")
                                           (getZ st "b") (getZ st "t")
                                           (getD st "bins") (getD st "cnt") (getD st "average"))
  | 5%nat => ALoop [("t", KInt); ("cnt", KArr); ("average", KArr)]
                   (fun st0 st => getZ st0 "t" <= getZ st "t" <= getZ st0 "maxt"
                                  /\ RInv6 ts vs ep (tick_of (getsc st0 "rbound")) (getZ st0 "b") (getZ st0 "t")
                                           (getZ st0 "maxt") (getD st0 "cnt") (getD st0 "average")
                                           (getZ st "t") (getD st "cnt") (getD st "average"))
  | _ => ANone
  end.

(* the arguments of _jitbin_array as its caller jitbin_array builds them: the counts of
   jitrestrict_with_count, time_array[idx], data_array[idx] *)
Definition bin_array_args (ts vs : list Z) (ep : iset) (b : Z) : list value :=
  [Ar (A1 DInt (index_cells (restrict_cnt ts ep)));
   Ar (A1 DFlt (qcells (select 0 ts (restrict_idx ts ep))));
   Ar (A1 DFlt (vcells (select 0 vs (restrict_idx ts ep))));
   Ar (A1 DFlt (qcells (firsts ep))); Ar (A1 DFlt (qcells (seconds ep))); Sc (VFlt (Some (qtick b)))].
Definition bin_array_result (R : list (Z * (nat * Z))) : list value :=
  [Ar (A1 DFlt (map bcell R)); Ar (A1 DFlt (map mean_cell R))].

(* facts about the cells and prefix sums of the two integer arrays (nb_bins, countin), with their
   side conditions discharged, so that the arithmetic goals are plain linear problems *)
Ltac sat_cell d k N :=
  lazymatch goal with
  | _ : psum d (k + 1) = psum d k + to_int (nthZ d k) |- _ => fail
  | _ => let R := fresh "R" in
         assert (R : 0 <= k < zlen d) by (autorewrite with zlen; lia);
         pose proof (nonneg_nth_int d k N); pose proof (psum_succ d k R); pose proof (psum_succ_le d k N R)
  end.
Ltac sat_psum d k N :=
  lazymatch goal with
  | _ : psum d k <= sum_int d |- _ => fail
  | _ => let R := fresh "R" in
         assert (R : 0 <= k <= zlen d) by (autorewrite with zlen; lia);
         pose proof (psum_nonneg d k N R); pose proof (psum_le d k N R)
  end.
Ltac saturate :=
  repeat match goal with
         | N : nonneg_ints ?d |- context [nthZ ?d ?k] => sat_cell d k N
         | N : nonneg_ints ?d, _ : context [nthZ ?d ?k] |- _ => sat_cell d k N
         | N : nonneg_ints ?d |- context [psum ?d ?k] => sat_psum d k N
         | N : nonneg_ints ?d, _ : context [psum ?d ?k] |- _ => sat_psum d k N
         end;
  repeat match goal with
         | N : nonneg_ints ?d |- _ =>
             lazymatch goal with
             | _ : psum d 0 = 0 |- _ => fail
             | _ => pose proof (psum_0 d); pose proof (psum_all d); pose proof (nonneg_sum d N)
             end
         end.

#[local] Hint Rewrite fadd_q fsub_q fmul2_q fadd_q_half round9_q round9_half tick_of_q cmp_lt_q cmp_gt_q cmp_ge_q : qt.

Theorem k__jitbin_array_computes_model : forall ts vs ep B fuel,
  0 < B ->
  match run fuel k__jitbin_array (bin_array_args ts vs ep B) with
  | Return rs => rs = bin_array_result (bin_sum_cnt ts vs ep B)
  | OutOfFuel => True
  | _ => False
  end.
Proof.
  intros ts vs ep B fuel HB.
  pose proof (run_sound all_kernels (ann_func ts vs ep B) k__jitbin_array
                (fun rs => rs = bin_array_result (bin_sum_cnt ts vs ep B))
                (bin_array_args ts vs ep B) fuel) as RS.
  unfold run.
  match type of RS with ?P -> _ => assert (W : P) end.
  2: { specialize (RS W). unfold Interp.run in *.
       destruct (exec all_kernels fuel (fbody k__jitbin_array)
                   (init_store k__jitbin_array (bin_array_args ts vs ep B)));
         simpl in *; auto. }
  clear RS. unfold bin_array_args.
  rewrite <- (Gt_select ts vs ep), <- (Gv_select ts vs ep).
  pose proof (nonneg_index_cells (restrict_cnt ts ep)) as Ncin.
  pose proof (zlen_countin ts ep) as Lcin.
  pose proof (sum_countin_r ts vs ep) as Scin.
  pose proof (zlen_Gt ts vs ep) as LGt. pose proof (zlen_Gv ts vs ep) as LGv.
  remember (index_cells (restrict_cnt ts ep)) as cin eqn:Hcin.
  wp_compute k__jitbin_array ann_func.
  vc k__jitbin_array ann_func.
  all: try solve [arith].
  all: fold_psum; autorewrite with zlen in *.
  all: try match goal with
         | H : _ <= psum (zeros DInt ?n (VInt 0)) _ |- _ => pose proof (nonneg_zeros n); pose proof (sum_int_zeros n)
         end.
  all: saturate; autorewrite with zlen in *.
  all: try match goal with
         | |- (_ < _)%Z => lia
         | |- (_ <= _ <= _)%Z => lia
         | |- 0 <= psum _ 0 => rewrite psum_0; lia
         | |- (_ <= _)%Z => lia
         | |- zlen (pyslice _ 0 _) = zlen (pyslice _ 0 _) => apply zlen_pyslice_eq; lia
         | |- @eq Z _ _ => lia
         end.
  (* simple structural goals *)
  all: try match goal with
         | |- nonneg_ints (zeros DInt _ (VInt 0)) => apply nonneg_zeros
         | |- Inv1 _ _ 0 _ => apply T1_init
         | |- RInv3 _ _ _ _ 0 0 (zeros DFlt _ _) (zeros DFlt _ _) (zeros DFlt _ _) => apply RT3_init
         end.
  (* the cells of the argument arrays, the float arithmetic on the tick lattice *)
  all: repeat match goal with Hq : ?q = Some (qtick _) |- _ => is_var q; subst q end.
  all: try rewrite fdiv2_half in *.
  all: repeat match goal with
         | Hc : context [to_flt (nthZ (qcells ?l) ?k)] |- _ =>
             rewrite (nth_qcells l k) in Hc by (autorewrite with zlen; lia)
         | |- context [to_flt (nthZ (qcells ?l) ?k)] =>
             rewrite (nth_qcells l k) by (autorewrite with zlen; lia)
         | |- context [to_flt (nthZ (vcells ?l) ?k)] =>
             rewrite (nth_vcells l k) by (autorewrite with zlen; lia)
         end.
  all: unfold binop_flt in *.
  all: repeat (progress (cbn [eval_unop eval_cmp to_flt is_flt orb] in *; autorewrite with qt in * )).
  all: repeat match goal with
         | Hc : (_ <? _)%Z = _ |- _ => b2p Hc
         | Hc : (_ <=? _)%Z = _ |- _ => b2p Hc
         end.
  all: try exact I.
  all: try match goal with
         | |- Some (qtick _) = Some (qtick _) => f_equal; f_equal; unfold lbz, Jitrestrict_func.sk; lia
         end.
  (* loop 0: the number of bins of interval k *)
  all: try rewrite nb_cell by lia.
  all: try match goal with
         | |- nonneg_ints (updZ _ _ (VInt 1)) => apply nonneg_updZ; [assumption | lia]
         | |- nonneg_ints (updZ _ _ (VInt (cdiv ?x _))) =>
             apply nonneg_updZ; [assumption | pose proof (cdiv_pos B HB x ltac:(lia)); lia]
         | |- Inv1 _ _ (_ + 1) (updZ _ _ (VInt 1)) =>
             apply T1_step; [assumption | lia | symmetry; apply nbz_le; unfold Jitrestrict_func.sk, Jitrestrict_func.ek; lia]
         | |- Inv1 _ _ (_ + 1) (updZ _ _ (VInt (cdiv _ _))) =>
             apply T1_step; [assumption | lia
                            | symmetry; apply (nbz_gt ep B HB); unfold Jitrestrict_func.sk, Jitrestrict_func.ek; lia]
         end.
  (* loop 2 / loop 3 *)
  all: try match goal with
         | I3 : RInv3 _ _ _ _ ?k ?b0 ?bins ?cnt ?avg, I1 : Inv1 _ _ (zlen _) ?d, Ht : ?t0 = psum _ ?k
           |- RInv4 _ _ _ _ ?k ?b0 _ _ ?b0 ?t0 ?bins ?cnt ?avg =>
             apply (RT4_init ts vs ep B k b0 t0 bins cnt avg _ _ I3);
             [ lia | apply (Inv1_nth ep B _ d k I1); lia
             | rewrite Ht, Hcin; apply psum_countin_r; lia
             | rewrite Hcin; apply nth_countin_r; lia ]
         | I4 : RInv4 _ _ _ _ ?k ?b0 ?maxb ?maxt ?bi ?t ?bins ?cnt ?avg, Hc : _ < 2 * lbz _ _ _ _ _ + _
           |- RInv3 _ _ _ _ (?k + 1) ?bi ?bins ?cnt ?avg =>
             apply (RT3_break ts vs ep B k b0 maxb maxt bi t bins cnt avg I4); unfold Jitrestrict_func.ek; lia
         | I4 : RInv4 _ _ _ _ ?k ?b0 ?maxb ?maxt ?bi ?t ?bins ?cnt ?avg |- RInv3 _ _ _ _ (?k + 1) ?bi ?bins ?cnt ?avg =>
             apply (RT3_done ts vs ep B k b0 maxb maxt bi t bins cnt avg I4); lia
         end.
  (* loop 5 *)
  all: try match goal with
         | I4 : RInv4 _ _ _ _ ?k ?b0 ?maxb ?maxt ?bi ?t ?bins ?cnt ?avg |- RInv6 _ _ _ ?rb ?bi ?t ?maxt ?cnt ?avg ?t ?cnt ?avg =>
             apply (RT6_init ts vs ep B k b0 maxb maxt bi t bins cnt avg rb I4); lia
         | I6 : RInv6 _ _ _ ?rb ?bi ?t0 ?maxt ?cnt0 ?avg0 ?t ?cnt ?avg
           |- RInv6 _ _ _ ?rb ?bi ?t0 ?maxt ?cnt0 ?avg0 (?t + 1) (updZ ?cnt ?bi _) (updZ ?avg ?bi _) =>
             apply (RT6_step ts vs ep rb bi t0 maxt cnt0 avg0 t cnt avg I6); lia
         end.
  (* a bin is closed: the sample loop ended with t = maxt, or on a sample at or after the right edge *)
  all: try match goal with
         | I4 : RInv4 _ _ _ _ ?k ?b0 ?maxb ?maxt ?bi ?t0 ?bins ?cnt0 ?avg0,
           I6 : RInv6 _ _ _ _ ?bi ?t0 ?maxt ?cnt0 ?avg0 ?t ?cnt ?avg
           |- RInv4 _ _ _ _ ?k ?b0 ?maxb ?maxt (?bi + 1) ?t (updZ ?bins ?bi _) ?cnt ?avg =>
             apply (RT4_step ts vs ep B k b0 maxb maxt bi t0 bins cnt0 avg0 t cnt avg I4);
             [ lia | unfold Jitrestrict_func.ek; lia | exact I6 | lia | lia
             | lazymatch goal with
               | _ : maxt <= t |- _ => left; lia
               | _ => right; split; lia
               end
             | lia | lia | lia ]
         end.
  (* the result *)
  all: try match goal with
         | I3 : RInv3 _ _ _ _ ?k ?bi ?bins ?cnt ?avg |- _ = bin_array_result _ =>
             unfold bin_array_result; apply (RT_final ts vs ep B k bi bins cnt avg I3); lia
         end.
Qed.

(* for an even bin size the reported centre is the exact float (c2 / 2) * 1e-9 = [qhalf c2] (the form in which
   the refinement was stated when it was proved for even bin sizes only) *)
Definition bcell_exact (p : Z * (nat * Z)) : sval := VFlt (Some (qhalf (fst p))).
Definition bin_array_result_exact (R : list (Z * (nat * Z))) : list value :=
  [Ar (A1 DFlt (map bcell_exact R)); Ar (A1 DFlt (map mean_cell R))].
Lemma bins_rows_go_centres : forall f lb e b l, Z.even b = true ->
  Forall (fun p => Z.even (fst p) = true) (bins_rows_go f lb e b l).
Proof.
  induction f as [|f IH]; intros lb e b l Hb; simpl; [constructor|].
  destruct (2 * e <? 2 * lb + b)%Z; [constructor|].
  destruct (span_lt_rows (lb + b)%Z l) as [a c]. constructor; [|apply IH; exact Hb].
  simpl. rewrite Z.even_add, Z.even_mul, Hb. reflexivity.
Qed.
Lemma bin_sum_cnt_centres : forall ts vs ep b, Z.even b = true ->
  Forall (fun p => Z.even (fst p) = true) (bin_sum_cnt ts vs ep b).
Proof.
  intros ts vs ep b Hb. unfold bin_sum_cnt. apply Forall_concat. apply Forall_map. apply Forall_forall.
  intros [[s e] rows] _. apply Forall_map.
  eapply Forall_impl; [|apply (bins_rows_go_centres _ s e b rows Hb)]. intros [c l] H. exact H.
Qed.
Lemma bin_array_result_even : forall R, Forall (fun p => Z.even (fst p) = true) R ->
  bin_array_result R = bin_array_result_exact R.
Proof.
  intros R H. unfold bin_array_result, bin_array_result_exact. do 3 f_equal.
  induction H as [|p r Hp _ IH]; [reflexivity|]. simpl. rewrite IH. f_equal.
  unfold bcell, bcell_exact. apply Z.even_spec in Hp. destruct Hp as [x ->].
  rewrite centre_tick_even, qhalf_even. reflexivity.
Qed.
Corollary k__jitbin_array_computes_model_even : forall ts vs ep b fuel,
  (0 < b)%Z -> Z.even b = true ->
  match run fuel k__jitbin_array (bin_array_args ts vs ep b) with
  | Return rs => rs = bin_array_result_exact (bin_sum_cnt ts vs ep b)
  | OutOfFuel => True
  | _ => False
  end.
Proof.
  intros ts vs ep b fuel Hb He.
  rewrite <- (bin_array_result_even _ (bin_sum_cnt_centres ts vs ep b He)).
  apply k__jitbin_array_computes_model; assumption.
Qed.

(* not vacuous: with enough fuel the kernel does return (termination: Inv/Jitbin_array_term.v) *)
Example k__jitbin_array_runs :
  run 300 k__jitbin_array (bin_array_args [0; 5; 9; 12] [3; 4; 5; 6] [(4, 6); (8, 20)] 4)
  = Return (bin_array_result [(12, (1%nat, 4)); (20, (1%nat, 5)); (28, (1%nat, 6)); (36, (0%nat, 0))]).
Proof. vm_compute. reflexivity. Qed.
(* an odd bin size (3 ticks, interval [4, 10]): doubled centres 11 and 17, the third one (23) lies beyond the end *)
Example k__jitbin_array_runs_odd :
  run 300 k__jitbin_array (bin_array_args [0; 5; 9; 12] [3; 4; 5; 6] [(4, 10)] 3)
  = Return (bin_array_result [(11, (1%nat, 4)); (17, (1%nat, 5))]).
Proof. vm_compute. reflexivity. Qed.

(* HISTORY: the kernel text before the repair ([k__jitbin_array_before_fix], Inv/Findings.v: the centre ROUNDED to
   the nanosecond compared with the end) differed from the model for an odd bin size; the repaired text agrees *)
Example odd_bin_size_differs_bin_array :
  run 300 k__jitbin_array_before_fix (bin_array_args [0] [9] [(0, 0)] 1)
  = Return [Ar (A1 DFlt [VFlt (Some 0%Q)]); Ar (A1 DFlt [VFlt (Some 9%Q)])]
  /\ bin_sum_cnt [0] [9] [(0, 0)] 1 = [].
Proof. split; vm_compute; reflexivity. Qed.
Example odd_bin_size_repaired_bin_array :
  run 300 k__jitbin_array (bin_array_args [0] [9] [(0, 0)] 1) = Return [Ar (A1 DFlt []); Ar (A1 DFlt [])].
Proof. vm_compute. reflexivity. Qed.

Print Assumptions k__jitbin_array_computes_model.
Print Assumptions k__jitbin_array_computes_model_even.
