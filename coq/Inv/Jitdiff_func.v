(* Functional correctness of the TRANSLATED jitdiff against the hand-written functional model
   Model/Iset.v [k_diff_meta] (the model the C02 difference theorems are about), by proof:

     for all interval lists A B (integer ticks; NO hypothesis: neither start <= end, nor sortedness,
     nor separation is needed), running the translated kernel (Gen/Kernels.v) on the arrays
     starts A / ends A / starts B / ends B returns, whenever it returns, exactly
       newstart = the starts of [k_diff_meta A B], newend = its ends,
       newmeta  = the integer array of its parent indices i.

   Partial correctness through [run_sound] (OutOfFuel allowed; any Err and any other Return excluded).

   The model is a nested structural merge; the kernel is a two-pointer loop.  Positions (i, j) stand for
   the suffixes (A from i, B from j):
     DG i j = diff_go on the suffixes          (outer loop 0 and the scan loop 1),
     DI i j = the model's [inner] for interval i of A at position j >= 1 of B, whose pending end [pe]
              and [prevB] are end2[j-1] and interval j-1 of B   (loop 7; the kernel reads end2[j-1]
              and steps back with j -= 1 exactly where the model re-conses prevB),
     DR i   = the model's [rest]                (trailing loop 10).
   Each invariant says: (rows decoded from the first ct cells of the three buffers) ++ (that model
   function at the current positions) = k_diff_meta A B.  The tentative row written at ct without
   ct += 1 (second branch of the if at source line 616) lies beyond the filled prefix ([dfilled_scratch]). *)
From Coq Require Import ZArith QArith String List Bool Lia.
From Verif Require Import Base.Prelude Model.Iset Proofs.InterDiffProofs.
From Verif Require Import Jit.Lang Jit.Interp Jit.Safety Jit.Tactics Jit.ArrayFacts Gen.Kernels.
From Verif Require Import Inv.Jitrestrict_func Inv.Jitintersect_func.
Import ListNotations.
Open Scope Z_scope.

(* Base.Prelude loads ZifyBool, whose post-hook case-splits on every opaque boolean hypothesis (here the
   float comparisons) at each call of lia: the VC tactic then needs minutes instead of seconds.
   The hook is switched off for this file and restored at its end. *)
Ltac Zify.zify_post_hook ::= idtac.

#[local] Hint Rewrite zlen_tcells zlen_firsts zlen_seconds : zlen.

(* ---------- encoding of the output ---------- *)
Notation dmeta := (Z * Z * nat)%type.
Definition dcol_s (r : list dmeta) : list Z := map (fun x => fst (fst x)) r.
Definition dcol_e (r : list dmeta) : list Z := map (fun x => snd (fst x)) r.
Definition dcol_i (r : list dmeta) : list sval := map (fun x => VInt (Z.of_nat (snd x))) r.
Definition diff_result (r : list dmeta) : list value :=
  [Ar (A1 DFlt (tcells (dcol_s r))); Ar (A1 DFlt (tcells (dcol_e r))); Ar (A1 DInt (dcol_i r))].

(* ---------- the filled prefix of the three output buffers ---------- *)
Definition dfilled (pre : list dmeta) (ct : Z) (ns ne mt : list sval) : Prop :=
  zlen pre = ct
  /\ firstn (Z.to_nat ct) ns = tcells (dcol_s pre)
  /\ firstn (Z.to_nat ct) ne = tcells (dcol_e pre)
  /\ firstn (Z.to_nat ct) mt = dcol_i pre.

Lemma dfilled_0 : forall ns ne mt, dfilled [] 0 ns ne mt.
Proof. intros. repeat split. Qed.

Lemma dfilled_snoc : forall pre ct ns ne mt a b i,
  dfilled pre ct ns ne mt -> ct < zlen ns -> ct < zlen ne -> ct < zlen mt -> 0 <= i ->
  dfilled (pre ++ [(a, b, Z.to_nat i)]) (ct + 1)
          (updZ ns ct (tcell a)) (updZ ne ct (tcell b)) (updZ mt ct (VInt i)).
Proof.
  intros pre ct ns ne mt a b i (L & F1 & F2 & F3) H1 H2 H3 Hi.
  assert (0 <= ct) by (rewrite <- L; apply zlen_nonneg).
  unfold dfilled, dcol_s, dcol_e, dcol_i. rewrite !map_app. cbn [map fst snd].
  repeat split.
  - unfold zlen in *. rewrite app_length. simpl. lia.
  - rewrite (firstn_updZ_snoc ns ct) by lia. rewrite F1, tcells_app. reflexivity.
  - rewrite (firstn_updZ_snoc ne ct) by lia. rewrite F2, tcells_app. reflexivity.
  - rewrite (firstn_updZ_snoc mt ct) by lia. rewrite F3. rewrite Z2Nat.id by lia. reflexivity.
Qed.

(* a write at position ct (beyond the filled prefix) that is not followed by ct += 1 *)
Lemma dfilled_scratch : forall pre ct ns ne mt u v w,
  dfilled pre ct ns ne mt -> dfilled pre ct (updZ ns ct u) (updZ ne ct v) (updZ mt ct w).
Proof.
  intros pre ct ns ne mt u v w (L & F1 & F2 & F3).
  assert (0 <= ct) by (rewrite <- L; apply zlen_nonneg).
  unfold dfilled. rewrite !firstn_updZ_ge by lia. repeat split; assumption.
Qed.

Lemma dfilled_result : forall pre ct ns ne mt,
  dfilled pre ct ns ne mt -> ct <= zlen ns -> ct <= zlen ne -> ct <= zlen mt ->
  [Ar (A1 DFlt (pyslice ns 0 ct)); Ar (A1 DFlt (pyslice ne 0 ct)); Ar (A1 DInt (pyslice mt 0 ct))]
  = diff_result pre.
Proof.
  intros pre ct ns ne mt (L & F1 & F2 & F3) H1 H2 H3.
  assert (0 <= ct) by (rewrite <- L; apply zlen_nonneg).
  rewrite !pyslice_0 by lia. unfold diff_result. rewrite F1, F2, F3. reflexivity.
Qed.

(* ---------- the model, indexed by positions ---------- *)
Section Model.
Variables A B : iset.

Local Notation S1 := (s1 A).
Local Notation E1 := (e1 A).
Local Notation S2 := (s2 B).
Local Notation E2 := (e2 B).

Definition DG (i j : Z) : list dmeta :=
  diff_go (skipn (Z.to_nat i) A) (skipn (Z.to_nat j) B) (Z.to_nat i).
Definition DR (i : Z) : list dmeta := drest (skipn (Z.to_nat i) A) (Z.to_nat i).
(* inside the innermost loop for interval i of A, at position j >= 1 of B: the pending end is end2[j-1] *)
Definition DI (i j : Z) : list dmeta :=
  dinner (skipn (S (Z.to_nat i)) A) (E1 i) (Z.to_nat i) (E2 (j - 1)) (S2 (j - 1), E2 (j - 1))
         (skipn (Z.to_nat j) B).

Lemma DG_end_A : forall i j, zlen A <= i -> DG i j = [].
Proof. intros. unfold DG. rewrite skipn_all2 by (unfold zlen in *; lia). reflexivity. Qed.
Lemma DG_end_B : forall i j, zlen B <= j -> DG i j = DR i.
Proof. intros. unfold DG, DR. rewrite (skipn_all2 B) by (unfold zlen in *; lia). apply drest_eq. Qed.
Lemma DR_end : forall i, zlen A <= i -> DR i = [].
Proof. intros. unfold DR. rewrite skipn_all2 by (unfold zlen in *; lia). reflexivity. Qed.
Lemma DR_step : forall i, 0 <= i < zlen A -> DR i = (S1 i, E1 i, Z.to_nat i) :: DR (i + 1).
Proof.
  intros i Hi. unfold DR. replace (Z.to_nat (i + 1)) with (S (Z.to_nat i)) by lia.
  rewrite (skipn_pair A i) by assumption. reflexivity.
Qed.

Lemma DG_unfold : forall i j, 0 <= i < zlen A -> 0 <= j < zlen B ->
  DG i j = if E2 j <=? S1 i then DG i (j + 1)
           else if S2 j <? E1 i then
                  if (S2 j <? S1 i) && (E1 i <? E2 j) then DG (i + 1) j
                  else ((if S1 i <? S2 j then [(S1 i, S2 j, Z.to_nat i)] else []) ++ DI i (j + 1))%list
                else (S1 i, E1 i, Z.to_nat i) :: DG (i + 1) j.
Proof.
  intros i j Hi Hj. unfold DG, DI.
  replace (j + 1 - 1) with j by lia.
  replace (Z.to_nat (i + 1)) with (S (Z.to_nat i)) by lia.
  replace (Z.to_nat (j + 1)) with (S (Z.to_nat j)) by lia.
  rewrite (skipn_pair A i), (skipn_pair B j) by assumption.
  rewrite diff_go_cons_cons. reflexivity.
Qed.

Lemma DI_unfold_cons : forall i j, 0 <= i < zlen A -> 1 <= j < zlen B ->
  DI i j = if S2 j <? E1 i then (E2 (j - 1), S2 j, Z.to_nat i) :: DI i (j + 1)
           else if E2 (j - 1) <? E1 i then (E2 (j - 1), E1 i, Z.to_nat i) :: DG (i + 1) j
                else DG (i + 1) (j - 1).
Proof.
  intros i j Hi Hj. unfold DG, DI.
  replace (j + 1 - 1) with j by lia.
  replace (Z.to_nat (i + 1)) with (S (Z.to_nat i)) by lia.
  replace (Z.to_nat (j + 1)) with (S (Z.to_nat j)) by lia.
  rewrite (skipn_pair B (j - 1)) by lia.
  replace (S (Z.to_nat (j - 1))) with (Z.to_nat j) by lia.
  rewrite (skipn_pair B j) by lia.
  rewrite dinner_cons. reflexivity.
Qed.

Lemma DI_unfold_nil : forall i j, 0 <= i < zlen A -> 1 <= j -> j = zlen B ->
  DI i j = if E2 (j - 1) <? E1 i then (E2 (j - 1), E1 i, Z.to_nat i) :: DG (i + 1) j
           else DG (i + 1) (j - 1).
Proof.
  intros i j Hi Hj Hn. unfold DG, DI.
  replace (Z.to_nat (i + 1)) with (S (Z.to_nat i)) by lia.
  rewrite (skipn_pair B (j - 1)) by lia.
  replace (S (Z.to_nat (j - 1))) with (Z.to_nat j) by lia.
  rewrite (skipn_all2 B) by (unfold zlen in *; lia).
  rewrite dinner_nil. reflexivity.
Qed.

(* ---------- loop invariants ---------- *)
Definition target : list dmeta := k_diff_meta A B.

Definition Inv0 (i j ct : Z) (ns ne mt : list sval) : Prop :=
  exists pre, dfilled pre ct ns ne mt /\ (pre ++ DG i j)%list = target.
Definition Inv1 (i j0 j : Z) : Prop := DG i j = DG i j0.
Definition Inv7 (i j ct : Z) (ns ne mt : list sval) : Prop :=
  exists pre, dfilled pre ct ns ne mt /\ (pre ++ DI i j)%list = target.
Definition Inv10 (i ct : Z) (ns ne mt : list sval) : Prop :=
  exists pre, dfilled pre ct ns ne mt /\ (pre ++ DR i)%list = target.


Lemma DG_skip : forall i j, 0 <= i < zlen A -> 0 <= j < zlen B -> E2 j <= S1 i -> DG i j = DG i (j + 1).
Proof.
  intros i j Hi Hj H. rewrite DG_unfold by assumption.
  assert (E : (E2 j <=? S1 i) = true) by (apply Z.leb_le; lia). rewrite E. reflexivity.
Qed.
Lemma DG_covered : forall i j, 0 <= i < zlen A -> 0 <= j < zlen B -> S1 i < E2 j -> S2 j < E1 i ->
  S2 j < S1 i -> E1 i < E2 j -> DG i j = DG (i + 1) j.
Proof.
  intros i j Hi Hj H H' H2 H3. rewrite DG_unfold by assumption.
  assert (E : (E2 j <=? S1 i) = false) by (apply Z.leb_gt; lia). rewrite E.
  assert (E' : (S2 j <? E1 i) = true) by (apply Z.ltb_lt; lia). rewrite E'.
  assert (X : (S2 j <? S1 i) = true) by (apply Z.ltb_lt; lia). rewrite X.
  assert (Y : (E1 i <? E2 j) = true) by (apply Z.ltb_lt; lia). rewrite Y. reflexivity.
Qed.
Lemma DG_inner : forall i j, 0 <= i < zlen A -> 0 <= j < zlen B -> S1 i < E2 j -> S2 j < E1 i ->
  S1 i <= S2 j \/ E2 j <= E1 i ->
  DG i j = ((if S1 i <? S2 j then [(S1 i, S2 j, Z.to_nat i)] else []) ++ DI i (j + 1))%list.
Proof.
  intros i j Hi Hj H H' X. rewrite DG_unfold by assumption.
  assert (E : (E2 j <=? S1 i) = false) by (apply Z.leb_gt; lia). rewrite E.
  assert (E' : (S2 j <? E1 i) = true) by (apply Z.ltb_lt; lia). rewrite E'.
  assert (Y : ((S2 j <? S1 i) && (E1 i <? E2 j)) = false).
  { apply andb_false_iff. destruct X; [left; apply Z.ltb_ge | right; apply Z.ltb_ge]; lia. }
  rewrite Y. reflexivity.
Qed.
Lemma DG_whole : forall i j, 0 <= i < zlen A -> 0 <= j < zlen B -> S1 i < E2 j -> E1 i <= S2 j ->
  DG i j = (S1 i, E1 i, Z.to_nat i) :: DG (i + 1) j.
Proof.
  intros i j Hi Hj H H'. rewrite DG_unfold by assumption.
  assert (E : (E2 j <=? S1 i) = false) by (apply Z.leb_gt; lia). rewrite E.
  assert (E' : (S2 j <? E1 i) = false) by (apply Z.ltb_ge; lia). rewrite E'. reflexivity.
Qed.

Lemma DI_step : forall i j, 0 <= i < zlen A -> 1 <= j < zlen B -> S2 j < E1 i ->
  DI i j = (E2 (j - 1), S2 j, Z.to_nat i) :: DI i (j + 1).
Proof.
  intros i j Hi Hj H. rewrite DI_unfold_cons by assumption.
  assert (E : (S2 j <? E1 i) = true) by (apply Z.ltb_lt; lia). rewrite E. reflexivity.
Qed.
(* the innermost loop is left: j = n, or start2[j] >= end1[i] *)
Lemma DI_last : forall i j, 0 <= i < zlen A -> 1 <= j <= zlen B ->
  j = zlen B \/ E1 i <= S2 j -> E2 (j - 1) < E1 i ->
  DI i j = (E2 (j - 1), E1 i, Z.to_nat i) :: DG (i + 1) j.
Proof.
  intros i j Hi Hj X H.
  assert (E : (E2 (j - 1) <? E1 i) = true) by (apply Z.ltb_lt; lia).
  destruct (Z.eq_dec j (zlen B)) as [Hn|Hn].
  - rewrite DI_unfold_nil by (assumption || lia). rewrite E. reflexivity.
  - rewrite DI_unfold_cons by (assumption || lia).
    assert (E' : (S2 j <? E1 i) = false) by (apply Z.ltb_ge; lia). rewrite E', E. reflexivity.
Qed.
Lemma DI_back : forall i j, 0 <= i < zlen A -> 1 <= j <= zlen B ->
  j = zlen B \/ E1 i <= S2 j -> E1 i <= E2 (j - 1) ->
  DI i j = DG (i + 1) (j - 1).
Proof.
  intros i j Hi Hj X H.
  assert (E : (E2 (j - 1) <? E1 i) = false) by (apply Z.ltb_ge; lia).
  destruct (Z.eq_dec j (zlen B)) as [Hn|Hn].
  - rewrite DI_unfold_nil by (assumption || lia). rewrite E. reflexivity.
  - rewrite DI_unfold_cons by (assumption || lia).
    assert (E' : (S2 j <? E1 i) = false) by (apply Z.ltb_ge; lia). rewrite E', E. reflexivity.
Qed.

(* ---------- transitions ---------- *)
Lemma T_inv0_init : forall ns ne mt, Inv0 0 0 0 ns ne mt.
Proof. intros. exists []. split; [apply dfilled_0 | reflexivity]. Qed.

Lemma T_inv1_init : forall i j, Inv1 i j j.
Proof. reflexivity. Qed.
Lemma T_inv1_step : forall i j0 j, Inv1 i j0 j -> 0 <= i < zlen A -> 0 <= j < zlen B -> E2 j <= S1 i ->
  Inv1 i j0 (j + 1).
Proof. unfold Inv1. intros i j0 j H Hi Hj Hle. rewrite <- DG_skip by assumption. exact H. Qed.

(* if5: interval i of A is covered by interval j of B *)
Lemma T_covered : forall i j0 j ct ns ne mt,
  Inv0 i j0 ct ns ne mt -> Inv1 i j0 j -> 0 <= i < zlen A -> 0 <= j < zlen B ->
  S1 i < E2 j -> S2 j < E1 i -> S2 j < S1 i -> E1 i < E2 j ->
  Inv0 (i + 1) j ct ns ne mt.
Proof.
  unfold Inv0, Inv1. intros i j0 j ct ns ne mt [pre [F E]] I1 Hi Hj H1 H2 H3 H4.
  exists pre. split; [exact F|]. rewrite <- DG_covered, I1 by assumption. exact E.
Qed.

(* else of if4: interval i of A is entirely before interval j of B *)
Lemma T_whole : forall i j0 j ct ns ne mt,
  Inv0 i j0 ct ns ne mt -> Inv1 i j0 j -> 0 <= i < zlen A -> 0 <= j < zlen B ->
  ct < zlen ns -> ct < zlen ne -> ct < zlen mt ->
  S1 i < E2 j -> E1 i <= S2 j ->
  Inv0 (i + 1) j (ct + 1) (updZ ns ct (tcell (S1 i))) (updZ ne ct (tcell (E1 i))) (updZ mt ct (VInt i)).
Proof.
  unfold Inv0, Inv1. intros i j0 j ct ns ne mt [pre [F E]] I1 Hi Hj L1 L2 L3 H1 H2.
  exists (pre ++ [(S1 i, E1 i, Z.to_nat i)])%list. split.
  - apply dfilled_snoc; try assumption; lia.
  - rewrite <- app_assoc. cbn [app]. rewrite <- DG_whole, I1 by assumption. exact E.
Qed.

(* if6, first branch: the piece before interval j of B is emitted *)
Lemma T_inv7_emit : forall i j0 j ct ns ne mt,
  Inv0 i j0 ct ns ne mt -> Inv1 i j0 j -> 0 <= i < zlen A -> 0 <= j < zlen B ->
  ct < zlen ns -> ct < zlen ne -> ct < zlen mt ->
  S1 i < E2 j -> S2 j < E1 i -> S1 i < S2 j ->
  Inv7 i (j + 1) (ct + 1) (updZ ns ct (tcell (S1 i))) (updZ ne ct (tcell (S2 j))) (updZ mt ct (VInt i)).
Proof.
  unfold Inv0, Inv1, Inv7. intros i j0 j ct ns ne mt [pre [F E]] I1 Hi Hj L1 L2 L3 H1 H2 H3.
  exists (pre ++ [(S1 i, S2 j, Z.to_nat i)])%list. split.
  - apply dfilled_snoc; try assumption; lia.
  - rewrite <- E, <- I1, (DG_inner i j) by (assumption || lia).
    assert (X : (S1 i <? S2 j) = true) by (apply Z.ltb_lt; lia). rewrite X.
    rewrite <- app_assoc. reflexivity.
Qed.

(* if6, second branch: a tentative row is written at ct, ct is not advanced *)
Lemma T_inv7_scratch : forall i j0 j ct ns ne mt u v w,
  Inv0 i j0 ct ns ne mt -> Inv1 i j0 j -> 0 <= i < zlen A -> 0 <= j < zlen B ->
  S1 i < E2 j -> S2 j < E1 i -> S2 j <= S1 i -> S1 i <= S2 j \/ E2 j <= E1 i ->
  Inv7 i (j + 1) ct (updZ ns ct u) (updZ ne ct v) (updZ mt ct w).
Proof.
  unfold Inv0, Inv1, Inv7. intros i j0 j ct ns ne mt u v w [pre [F E]] I1 Hi Hj H1 H2 H3 H4.
  exists pre. split.
  - apply dfilled_scratch; assumption.
  - rewrite <- E, <- I1, (DG_inner i j) by (assumption || lia).
    assert (X : (S1 i <? S2 j) = false) by (apply Z.ltb_ge; lia). rewrite X. reflexivity.
Qed.

Lemma T_inv7_step : forall i j ct ns ne mt,
  Inv7 i j ct ns ne mt -> 0 <= i < zlen A -> 1 <= j < zlen B ->
  ct < zlen ns -> ct < zlen ne -> ct < zlen mt -> S2 j < E1 i ->
  Inv7 i (j + 1) (ct + 1) (updZ ns ct (tcell (E2 (j - 1)))) (updZ ne ct (tcell (S2 j))) (updZ mt ct (VInt i)).
Proof.
  unfold Inv7. intros i j ct ns ne mt [pre [F E]] Hi Hj L1 L2 L3 H.
  exists (pre ++ [(E2 (j - 1), S2 j, Z.to_nat i)])%list. split.
  - apply dfilled_snoc; try assumption; lia.
  - rewrite <- app_assoc. cbn [app]. rewrite <- DI_step by assumption. exact E.
Qed.

(* if9 *)
Lemma T_inv7_last : forall i j ct ns ne mt,
  Inv7 i j ct ns ne mt -> 0 <= i < zlen A -> 1 <= j <= zlen B ->
  ct < zlen ns -> ct < zlen ne -> ct < zlen mt ->
  j = zlen B \/ E1 i <= S2 j -> E2 (j - 1) < E1 i ->
  Inv0 (i + 1) j (ct + 1) (updZ ns ct (tcell (E2 (j - 1)))) (updZ ne ct (tcell (E1 i))) (updZ mt ct (VInt i)).
Proof.
  unfold Inv7, Inv0. intros i j ct ns ne mt [pre [F E]] Hi Hj L1 L2 L3 X H.
  exists (pre ++ [(E2 (j - 1), E1 i, Z.to_nat i)])%list. split.
  - apply dfilled_snoc; try assumption; lia.
  - rewrite <- app_assoc. cbn [app]. rewrite <- DI_last by assumption. exact E.
Qed.
Lemma T_inv7_back : forall i j ct ns ne mt,
  Inv7 i j ct ns ne mt -> 0 <= i < zlen A -> 1 <= j <= zlen B ->
  j = zlen B \/ E1 i <= S2 j -> E1 i <= E2 (j - 1) ->
  Inv0 (i + 1) (j - 1) ct ns ne mt.
Proof.
  unfold Inv7, Inv0. intros i j ct ns ne mt [pre [F E]] Hi Hj X H.
  exists pre. split; [exact F|]. rewrite <- DI_back by assumption. exact E.
Qed.

(* the trailing loop *)
Lemma T_inv10_init_A : forall i j ct ns ne mt, Inv0 i j ct ns ne mt -> zlen A <= i -> Inv10 i ct ns ne mt.
Proof.
  unfold Inv0, Inv10. intros i j ct ns ne mt [pre [F E]] H. exists pre. split; [exact F|].
  rewrite DG_end_A in E by assumption. rewrite DR_end by assumption. exact E.
Qed.
Lemma T_inv10_init_B : forall i j0 j ct ns ne mt,
  Inv0 i j0 ct ns ne mt -> Inv1 i j0 j -> zlen B <= j -> Inv10 i ct ns ne mt.
Proof.
  unfold Inv0, Inv1, Inv10. intros i j0 j ct ns ne mt [pre [F E]] I1 H. exists pre. split; [exact F|].
  rewrite <- I1, DG_end_B in E by assumption. exact E.
Qed.
Lemma T_inv10_step : forall i ct ns ne mt,
  Inv10 i ct ns ne mt -> 0 <= i < zlen A -> ct < zlen ns -> ct < zlen ne -> ct < zlen mt ->
  Inv10 (i + 1) (ct + 1) (updZ ns ct (tcell (S1 i))) (updZ ne ct (tcell (E1 i))) (updZ mt ct (VInt i)).
Proof.
  unfold Inv10. intros i ct ns ne mt [pre [F E]] Hi L1 L2 L3.
  exists (pre ++ [(S1 i, E1 i, Z.to_nat i)])%list. split.
  - apply dfilled_snoc; try assumption; lia.
  - rewrite <- app_assoc. cbn [app]. rewrite <- DR_step by assumption. exact E.
Qed.
Lemma T_final : forall i ct ns ne mt,
  Inv10 i ct ns ne mt -> zlen A <= i -> ct <= zlen ns -> ct <= zlen ne -> ct <= zlen mt ->
  [Ar (A1 DFlt (pyslice ns 0 ct)); Ar (A1 DFlt (pyslice ne 0 ct)); Ar (A1 DInt (pyslice mt 0 ct))]
  = diff_result target.
Proof.
  unfold Inv10. intros i ct ns ne mt [pre [F E]] H L1 L2 L3.
  rewrite (dfilled_result pre) by assumption. f_equal.
  rewrite DR_end, app_nil_r in E by assumption. exact E.
Qed.

End Model.

Local Open Scope string_scope.
Definition ann_func (A B : iset) (l : nat) : annot :=
  match l with
  | 0%nat => ALoop [("i", KInt); ("j", KInt); ("ct", KInt);
                    ("newstart", KArr); ("newend", KArr); ("newmeta", KArr)]
                   (fun st0 st => 0 <= getZ st "i" <= zlen A /\ 0 <= getZ st "j" <= zlen B
                                  /\ 0 <= getZ st "ct" <= getZ st "i" + getZ st "j"
                                  /\ Inv0 A B (getZ st "i") (getZ st "j") (getZ st "ct")
                                       (getD st "newstart") (getD st "newend") (getD st "newmeta"))
  | 1%nat => ALoop [("j", KInt)]
                   (fun st0 st => getZ st0 "j" <= getZ st "j" <= zlen B
                                  /\ Inv1 A B (getZ st0 "i") (getZ st0 "j") (getZ st "j"))
  | 7%nat => ALoop [("j", KInt); ("ct", KInt);
                    ("newstart", KArr); ("newend", KArr); ("newmeta", KArr)]
                   (fun st0 st => 1 <= getZ st "j" <= zlen B
                                  /\ 0 <= getZ st "ct" <= getZ st "i" + getZ st "j"
                                  /\ Inv7 A B (getZ st "i") (getZ st "j") (getZ st "ct")
                                       (getD st "newstart") (getD st "newend") (getD st "newmeta"))
  | 10%nat => ALoop [("i", KInt); ("ct", KInt);
                    ("newstart", KArr); ("newend", KArr); ("newmeta", KArr)]
                   (fun st0 st => 0 <= getZ st "i" <= zlen A /\ getZ st "j" <= zlen B
                                  /\ 0 <= getZ st "ct" <= getZ st "i" + getZ st "j"
                                  /\ Inv10 A B (getZ st "i") (getZ st "ct")
                                       (getD st "newstart") (getD st "newend") (getD st "newmeta"))
  | _ => ANone
  end.

Ltac side := unfold s1, e1, s2, e2; lia.

Theorem k_jitdiff_computes_model : forall A B fuel,
  match run fuel k_jitdiff (iset_args A B) with
  | Return rs => rs = diff_result (k_diff_meta A B)
  | OutOfFuel => True
  | _ => False
  end.
Proof.
  intros A B fuel.
  pose proof (run_sound all_kernels (ann_func A B) k_jitdiff
                (fun rs => rs = diff_result (k_diff_meta A B)) (iset_args A B) fuel) as RS.
  unfold run.
  match type of RS with ?P -> _ => assert (W : P) end.
  2: { specialize (RS W). unfold Interp.run in *.
       destruct (exec all_kernels fuel (fbody k_jitdiff) (init_store k_jitdiff (iset_args A B)));
         simpl in *; auto. }
  clear RS. unfold iset_args. pose proof (zlen_nonneg A) as HA0. pose proof (zlen_nonneg B) as HB0.
  wp_compute k_jitdiff ann_func.
  vc k_jitdiff ann_func.
  all: try solve [arith].
  (* float comparisons of embedded ticks are integer comparisons *)
  all: repeat match goal with
         | Hc : context [to_flt (nthZ (tcells ?l) ?k)] |- _ =>
             rewrite (nth_tcells l k) in Hc by (autorewrite with zlen; lia)
         | |- context [to_flt (nthZ (tcells ?l) ?k)] =>
             rewrite (nth_tcells l k) by (autorewrite with zlen; lia)
         end.
  all: repeat match goal with
         | Hc : context [cmp_flt Lt (Some (inject_Z _)) (Some (inject_Z _))] |- _ => rewrite cmp_lt_inj in Hc
         | Hc : context [cmp_flt Gt (Some (inject_Z _)) (Some (inject_Z _))] |- _ => rewrite cmp_gt_inj in Hc
         end.
  all: repeat match goal with
         | Hc : (_ <? _)%Z = _ |- _ => b2p Hc
         | Hc : (_ <=? _)%Z = _ |- _ => b2p Hc
         end.
  all: autorewrite with zlen in *.
  all: repeat match goal with Hc : ?a = ?b |- _ => is_var a; is_var b; subst a end.
  all: try apply zlen_nonneg.
  all: try apply T_inv0_init.
  all: try lia.
  all: try match goal with
         | I0 : Inv0 _ _ ?i ?j0 ?ct ?ns ?ne ?mt, I1 : Inv1 _ _ ?i ?j0 ?j |- Inv0 _ _ (?i + 1) ?j ?ct ?ns ?ne ?mt =>
             apply (T_covered A B i j0 j ct ns ne mt I0 I1); side
         | I0 : Inv0 _ _ ?i ?j0 ?ct ?ns ?ne ?mt, I1 : Inv1 _ _ ?i ?j0 ?j
           |- Inv0 _ _ (?i + 1) ?j (?ct + 1) (updZ ?ns ?ct _) _ _ =>
             apply (T_whole A B i j0 j ct ns ne mt I0 I1); side
         | I0 : Inv0 _ _ ?i ?j0 ?ct ?ns ?ne ?mt, I1 : Inv1 _ _ ?i ?j0 ?j
           |- Inv7 _ _ ?i (?j + 1) (?ct + 1) (updZ ?ns ?ct _) _ _ =>
             apply (T_inv7_emit A B i j0 j ct ns ne mt I0 I1); side
         | I0 : Inv0 _ _ ?i ?j0 ?ct ?ns ?ne ?mt, I1 : Inv1 _ _ ?i ?j0 ?j
           |- Inv7 _ _ ?i (?j + 1) ?ct (updZ ?ns ?ct _) _ _ =>
             apply (T_inv7_scratch A B i j0 j ct ns ne mt _ _ _ I0 I1); side
         | I7 : Inv7 _ _ ?i ?j ?ct ?ns ?ne ?mt |- Inv7 _ _ ?i (?j + 1) (?ct + 1) (updZ ?ns ?ct _) _ _ =>
             apply (T_inv7_step A B i j ct ns ne mt I7); side
         | I7 : Inv7 _ _ ?i ?j ?ct ?ns ?ne ?mt |- Inv0 _ _ (?i + 1) ?j (?ct + 1) (updZ ?ns ?ct _) _ _ =>
             apply (T_inv7_last A B i j ct ns ne mt I7); side
         | I7 : Inv7 _ _ ?i ?j ?ct ?ns ?ne ?mt |- Inv0 _ _ (?i + 1) (?j - 1) ?ct ?ns ?ne ?mt =>
             apply (T_inv7_back A B i j ct ns ne mt I7); side
         | |- Inv1 _ _ _ _ (_ + 1) => apply T_inv1_step; [assumption | lia | lia | side]
         | I0 : Inv0 _ _ ?i ?j0 ?ct ?ns ?ne ?mt, I1 : Inv1 _ _ ?i ?j0 ?j |- Inv10 _ _ ?i ?ct ?ns ?ne ?mt =>
             apply (T_inv10_init_B A B i j0 j ct ns ne mt I0 I1); lia
         | I0 : Inv0 _ _ ?i ?j ?ct ?ns ?ne ?mt |- Inv10 _ _ ?i ?ct ?ns ?ne ?mt =>
             apply (T_inv10_init_A A B i j ct ns ne mt I0); lia
         | I10 : Inv10 _ _ ?i ?ct ?ns ?ne ?mt |- Inv10 _ _ (?i + 1) (?ct + 1) _ _ _ =>
             apply (T_inv10_step A B i ct ns ne mt I10); lia
         | I10 : Inv10 _ _ ?i ?ct ?ns ?ne ?mt |- _ = diff_result _ =>
             apply (T_final A B i ct ns ne mt I10); lia
         end.
Qed.

(* not vacuous: with enough fuel the kernel does return (termination itself is not proved) *)
Example k_jitdiff_runs :
  run 100 k_jitdiff (iset_args [(0, 10); (20, 30)] [(2, 3); (5, 25)])
  = Return (diff_result [(0, 2, 0%nat); (3, 5, 0%nat); (25, 30, 1%nat)]).
Proof. vm_compute. reflexivity. Qed.

(* the interval arrays are those of the model [k_diff] *)
Lemma dcol_s_diff : forall A B, dcol_s (k_diff_meta A B) = starts (k_diff A B).
Proof. intros. unfold dcol_s, starts, k_diff. rewrite map_map. reflexivity. Qed.
Lemma dcol_e_diff : forall A B, dcol_e (k_diff_meta A B) = ends (k_diff A B).
Proof. intros. unfold dcol_e, ends, k_diff. rewrite map_map. reflexivity. Qed.

Ltac Zify.zify_post_hook ::= ZifyBool.elim_bool_cstr.

Print Assumptions k_jitdiff_computes_model.
