(* Functional correctness of the TRANSLATED _cross_correlogram (pynapple/process/correlograms.py) against
   the executable model of Model/Correlogram.v (the model the C16 theorems are about), by proof (partial
   correctness through [run_sound], as in Inv/Jitrestrict_func.v and Inv/Jitfix_iset_func.v):

     for EVERY reference train t1 and target train t2 (integer ticks; NO sortedness needed, the model's
     cursor zipper follows the kernel's cursor i2 in both directions), every bin size b > 0 and every
     window w (ticks) such that the kernel's  np.round((2w)/b, 9)  does not round the quotient up to the
     next integer ([round9_exact b w]; it holds whenever b < 2 s, or b divides 2w), running the translated
     kernel on the arrays of t1, t2 and the floats b, w returns, whenever it returns, exactly
        C = [ xc_rate c (len t1) b  for c in xcorr_counts t1 t2 b w ]   (NaN everywhere when t1 is empty)
        B = [ c2 / 2 ticks          for c2 in xcorr_centres2 b w ].

   Encoding of the floats (the interpreter's floats are exact rationals, every operation Qred-normalised):
   a tick t (nanoseconds) is the float t * 1e-9 = [qtick t] = Qred (t # 10^9) (as in Jitfix_iset_func.v);
   the kernel's  w = (nbins/2)*binsize,  lbound = t1[i1] - w,  rbound += binsize,  m = -w + binsize/2  are
   HALF-tick quantities: [qhalf z] = Qred (z # 2*10^9) is the float z/2 ticks, and the model's doubled
   bounds lb2, rb2 and doubled centres are exactly these z ([fsub_tick_half], [fadd_half_tick], [w_half],
   comparisons [cmp_lt_th], [cmp_gt_th]).  The accumulator C holds the counts as floats ([cnt_cells]).

   Hypotheses.  b > 0 is needed (b = 0 gives NaN bounds; b < 0 is not what the model describes).
   [round9_exact b w]  :=  b < 2*10^9 * (b - (2w) mod b)  is needed and sharp for the bin count:
   nbins = int(floor(round((2w)/b, 9))) is the model's floor((2w)/b) exactly under this condition; when it
   fails and floor((2w)/b) is odd, the kernel uses two more bins than the model
   ([round9_hypothesis_is_needed]: b = 4 s, w = 3.999999999 s).  w >= 0 and sorted inputs are NOT needed
   (for w so negative that nbins < 0 the interpreter's lenient np.zeros(n<0) = [] is what is proved). *)
From Coq Require Import ZArith QArith Qround Lqa String List Bool Lia.
From Verif Require Import Base.Prelude Model.Correlogram.
From Verif Require Import Jit.Lang Jit.Interp Jit.Safety Jit.Tactics Jit.ArrayFacts Jit.FloatFacts Gen.Kernels.
From Verif Require Import Inv.Jitrestrict_func Inv.Jitfix_iset_func.
Import ListNotations.
Open Scope Z_scope.
#[local] Hint Rewrite zlen_qcells : zlen.

(* ---------- half ticks ---------- *)

Definition qhalf (z : Z) : Q := Qred (z # 2000000000).
Definition round9_exact (b w : Z) : Prop := b < 2000000000 * (b - (2 * w) mod b).

Lemma qhalf_eq : forall z, (qhalf z == z # 2000000000)%Q.
Proof. intros. unfold qhalf. apply Qred_correct. Qed.

Lemma Qred_inject_Z : forall z, Qred (inject_Z z) = inject_Z z.
Proof.
  intros z. unfold Qred, inject_Z.
  pose proof (Z.ggcd_gcd z 1) as G. pose proof (Z.ggcd_correct_divisors z 1) as D.
  destruct (Z.ggcd z 1) as [g [aa bb]]. cbn [fst snd] in *. rewrite Z.gcd_1_r in G.
  destruct D as [D1 D2]. rewrite G in D1, D2.
  replace bb with 1 by lia. replace aa with z by lia. reflexivity.
Qed.

Lemma qtick_half : forall t, qtick t = qhalf (2 * t).
Proof. intros. unfold qtick, qhalf. apply Qred_complete. unfold Qeq. simpl. lia. Qed.

Ltac qred_eq :=
  unfold fadd, fsub, fmul, f2, qsome; f_equal; unfold qtick, qhalf; apply Qred_complete;
  rewrite ?Qred_correct; unfold Qeq, Qminus, Qplus, Qopp, Qmult, qz, inject_Z; simpl; lia.

Lemma fsub_tick_half : forall r x, fsub (Some (qtick r)) (Some (qhalf x)) = Some (qhalf (2 * r - x)).
Proof. intros. qred_eq. Qed.
Lemma fadd_half_tick : forall x c, fadd (Some (qhalf x)) (Some (qtick c)) = Some (qhalf (x + 2 * c)).
Proof. intros. qred_eq. Qed.
Lemma fadd_half_half : forall x y, fadd (Some (qhalf x)) (Some (qhalf y)) = Some (qhalf (x + y)).
Proof. intros. qred_eq. Qed.
Lemma fneg_half : forall x, fsub (Some 0%Q) (Some (qhalf x)) = Some (qhalf (- x)).
Proof. intros. qred_eq. Qed.
Lemma fmul_z_tick : forall j c, fmul (Some (qz j)) (Some (qtick c)) = Some (qhalf (2 * j * c)).
Proof. intros. qred_eq. Qed.
Lemma fadd_cnt : forall a k, fadd (Some (inject_Z a)) (Some (qz k)) = Some (inject_Z (a + k)).
Proof.
  intros. unfold fadd, f2, qsome. f_equal. rewrite <- (Qred_inject_Z (a + k)). apply Qred_complete.
  unfold Qeq, Qplus, qz, inject_Z. simpl. lia.
Qed.


Lemma w_half : forall n c, fmul (fdiv (Some (qz n)) (Some (qz 2))) (Some (qtick c)) = Some (qhalf (n * c)).
Proof.
  intros. unfold fdiv, f2. change (Qeq_bool (qz 2) 0) with false. cbv iota. 
  unfold fmul, f2, qsome. f_equal. unfold qtick, qhalf. apply Qred_complete.
  rewrite ?Qred_correct. unfold Qeq, Qdiv, Qmult, Qinv, qz, inject_Z. simpl. lia.
Qed.
Lemma half_b : forall c, fdiv (Some (qtick c)) (Some (qz 2)) = Some (qhalf c).
Proof.
  intros. unfold fdiv, f2. change (Qeq_bool (qz 2) 0) with false. cbv iota.
  unfold qsome. f_equal. unfold qtick, qhalf. apply Qred_complete.
  rewrite ?Qred_correct. unfold Qeq, Qdiv, Qmult, Qinv, qz, inject_Z. simpl. lia.
Qed.

Lemma Qle_bool_th : forall t x, Qle_bool (qtick t) (qhalf x) = (2 * t <=? x).
Proof.
  intros. apply Bool.eq_true_iff_eq. rewrite Qle_bool_iff, qtick_eq, qhalf_eq, Z.leb_le.
  unfold Qle. simpl. lia.
Qed.
Lemma Qle_bool_ht : forall t x, Qle_bool (qhalf x) (qtick t) = (x <=? 2 * t).
Proof.
  intros. apply Bool.eq_true_iff_eq. rewrite Qle_bool_iff, qtick_eq, qhalf_eq, Z.leb_le.
  unfold Qle. simpl. lia.
Qed.
Lemma cmp_lt_th : forall t x, cmp_flt Lt (Some (qtick t)) (Some (qhalf x)) = (2 * t <? x).
Proof. intros. unfold cmp_flt, cmp_q. rewrite Qle_bool_ht, Z.ltb_antisym. reflexivity. Qed.
Lemma cmp_gt_th : forall t x, cmp_flt Gt (Some (qtick t)) (Some (qhalf x)) = (x <? 2 * t).
Proof. intros. unfold cmp_flt, cmp_q. rewrite Qle_bool_th, Z.ltb_antisym. reflexivity. Qed.

(* ---- round half even ---- *)
Lemma q_rhe_lb : forall q, Qfloor q <= q_rhe q.
Proof.
  intros q. unfold q_rhe. destruct (Qcompare _ _); [destruct (Z.even _)| |]; lia.
Qed.
Lemma q_rhe_ub : forall q M, (q < inject_Z M - (1 # 2))%Q -> q_rhe q < M.
Proof.
  intros q M H. unfold q_rhe.
  pose proof (Qfloor_le q) as L. pose proof (Qlt_floor q) as U.
  set (f := Qfloor q) in *.
  assert (F : f < M).
  { rewrite Zlt_Qlt. lra. }
  destruct (Z_lt_le_dec (f + 1) M) as [A|A].
  - destruct (Qcompare _ _); [destruct (Z.even _)| |]; lia.
  - assert (E : f = M - 1) by lia.
    assert (C : (q - qz f ?= 1 # 2)%Q = Datatypes.Lt).
    { rewrite <- Qlt_alt. unfold qz. rewrite E. unfold Z.sub. rewrite inject_Z_plus, inject_Z_opp.
      change (inject_Z 1) with 1%Q. lra. }
    rewrite C. lia.
Qed.

Lemma nbins_val : forall b w, 0 < b -> round9_exact b w ->
  eval_unop ToInt (eval_unop Floor (eval_unop Round9
     (binop_flt Div (fmul (Some (qtick w)) (Some (qz 2))) (Some (qtick b)))))
  = VInt ((2 * w) / b).
Proof.
  intros b w Hb Hr. unfold round9_exact in Hr.
  pose proof (Z.div_mod (2 * w) b ltac:(lia)) as DM. pose proof (Z.mod_pos_bound (2 * w) b Hb) as MB.
  set (N := (2 * w) / b) in *. set (r := (2 * w) mod b) in *.
  unfold binop_flt, fmul, fdiv, f2, qsome.
  assert (Z0 : Qeq_bool (qtick b) 0 = false).
  { change 0%Q with (qtick 0). rewrite Qeq_bool_qtick. apply Z.eqb_neq. lia. }
  rewrite Z0. unfold eval_unop. f_equal. cbn [to_int]. rewrite qtrunc_qz.
  set (X := Qred (Qred (qtick w * qz 2) / qtick b)).
  assert (EX : (X * (Z.pos e9 # 1) == (2 * w * 1000000000 # Z.to_pos b))%Q).
  { unfold X. rewrite !Qred_correct, !qtick_eq. destruct b as [|p|p]; try lia.
    unfold Qeq, Qdiv, Qmult, Qinv, qz, inject_Z, e9. simpl. lia. }
  unfold round9. rewrite (Qfloor_comp _ _ (Qred_correct _)).
  change (Qfloor (?a # ?p)) with (a / Z.pos p).
  set (q := (X * (Z.pos e9 # 1))%Q) in *.
  assert (A : (inject_Z (N * 1000000000) <= q)%Q).
  { rewrite EX. unfold Qle, inject_Z. cbn [Qnum Qden]. rewrite Z2Pos.id by lia. lia. }
  assert (B : (q < inject_Z ((N + 1) * 1000000000) - (1 # 2))%Q).
  { rewrite EX. unfold Qlt, Qminus, Qplus, Qopp, inject_Z. cbn [Qnum Qden].
    rewrite Pos2Z.inj_mul. rewrite Z2Pos.id by lia. lia. }
  pose proof (q_rhe_lb q) as L. pose proof (q_rhe_ub q _ B) as U.
  apply Qfloor_resp_le in A. rewrite Qfloor_Z in A.
  symmetry. apply (Z.div_unique _ _ N (q_rhe q - 1000000000 * N)); unfold e9; lia.
Qed.

Lemma even_test : forall n,
  eval_cmp Eq (eval_binop Mul (eval_unop Floor (eval_binop Div (VInt n) (VInt 2))) (VInt 2)) (VInt n)
  = Z.even n.
Proof.
  intros n. cbn [eval_binop is_flt orb binop_int to_int].
  unfold fdiv, f2. change (Qeq_bool (qz 2) 0) with false. cbv iota. unfold qsome.
  cbn [eval_unop eval_binop is_flt orb binop_flt to_flt eval_cmp].
  assert (F : Qfloor (Qred (qz n / qz 2)) = n / 2).
  { rewrite (Qfloor_comp _ (n # 2)).
    - reflexivity.
    - rewrite Qred_correct. unfold Qeq, Qdiv, Qmult, Qinv, qz, inject_Z. simpl. lia. }
  rewrite F. unfold fmul, f2, qsome, cmp_flt, cmp_q.
  apply Bool.eq_true_iff_eq. rewrite Qeq_bool_iff, Qred_correct.
  unfold Qeq, Qmult, qz, inject_Z. cbn [Qnum Qden].
  destruct (Z.even n) eqn:E.
  - apply Z.even_spec in E. destruct E as [k ->]. split; intros; [reflexivity|].
    replace (2 * k / 2) with k by (rewrite Z.mul_comm; symmetry; apply Z.div_mul; lia). lia.
  - rewrite <- Z.negb_odd in E. apply negb_false_iff in E. apply Z.odd_spec in E. destruct E as [k ->].
    split; intros C; [|discriminate].
    replace ((2 * k + 1) / 2) with k in C; [lia|].
    apply (Z.div_unique _ _ k 1); lia.
Qed.


(* ---------- encodings of the outputs ---------- *)
Definition hcell (z : Z) : sval := VFlt (Some (qhalf z)).
Definition hcells (l : list Z) : list sval := map hcell l.
Definition rate_cell (n1 : nat) (b : Z) (c : nat) : sval :=
  VFlt (match n1 with O => None | _ => Some (Qred (xc_rate c n1 b)) end).
Definition rate_cells (n1 : nat) (b : Z) (l : list nat) : list sval := map (rate_cell n1 b) l.

(* the accumulator C holds the raw counts as floats *)
Definition cnt_cell (c : nat) : sval := VFlt (Some (inject_Z (Z.of_nat c))).
Definition cnt_cells (l : list nat) : list sval := map cnt_cell l.
Definition cnt_of (v : sval) : nat := match to_flt v with Some q => Z.to_nat (Qfloor q) | None => O end.
Definition cnts (d : list sval) : list nat := map cnt_of d.
Definition is_cnt (d : list sval) : Prop := d = cnt_cells (cnts d).

Lemma cnt_of_cell : forall c, cnt_of (cnt_cell c) = c.
Proof. intros. unfold cnt_of, cnt_cell. cbn [to_flt]. rewrite Qfloor_Z. lia. Qed.
Lemma cnts_cells : forall l, cnts (cnt_cells l) = l.
Proof.
  intros. unfold cnts, cnt_cells. rewrite map_map. rewrite <- (map_id l) at 2.
  apply map_ext. apply cnt_of_cell.
Qed.
Lemma is_cnt_cells : forall l, is_cnt (cnt_cells l).
Proof. intros. unfold is_cnt. rewrite cnts_cells. reflexivity. Qed.
Lemma length_cnts : forall d, length (cnts d) = length d.
Proof. intros. unfold cnts. apply map_length. Qed.
Lemma zeros_cnt : forall n, zeros DFlt n (VInt 0) = cnt_cells (repeat O (Z.to_nat n)).
Proof. intros. unfold zeros. induction (Z.to_nat n); simpl; [reflexivity | f_equal; assumption]. Qed.

Lemma map_upd_nth : forall {A B} (f : A -> B) n l v, map f (upd_nth n l v) = upd_nth n (map f l) (f v).
Proof. induction n; destruct l; simpl; intros; try reflexivity. f_equal. apply IHn. Qed.
Lemma skipn_cons_nth_gen : forall {A} (l : list A) n dv, (n < length l)%nat ->
  skipn n l = nth n l dv :: skipn (S n) l.
Proof.
  induction l as [|x r IH]; intros n dv H; simpl in H; [lia|].
  destruct n; [reflexivity|]. simpl. apply IH. lia.
Qed.
Lemma skipn_upd_nth_lt : forall {A} n (l : list A) v, skipn (S n) (upd_nth n l v) = skipn (S n) l.
Proof. induction n; destruct l; simpl; intros; try reflexivity. apply IHn. Qed.
Lemma firstn_S_upd : forall {A} n (l : list A) v, (n < length l)%nat ->
  firstn (S n) (upd_nth n l v) = (firstn n l ++ [v])%list.
Proof.
  intros A n l v H. rewrite (firstn_snoc _ n v) by (rewrite upd_nth_length; lia).
  rewrite firstn_upd_nth_ge by lia. rewrite nth_upd_nth_same by lia. reflexivity.
Qed.
Lemma xc_add_nil_r : forall a, xc_add a [] = [].
Proof. destruct a; reflexivity. Qed.

(* C[j] += k on a count array *)
Lemma cnt_upd : forall d j k, is_cnt d -> 0 <= j < zlen d -> 0 <= k ->
  let d' := updZ d j (VFlt (fadd (to_flt (nthZ d j)) (Some (qz k)))) in
  is_cnt d' /\ cnts d' = upd_nth (Z.to_nat j) (cnts d) (nth (Z.to_nat j) (cnts d) O + Z.to_nat k)%nat.
Proof.
  intros d j k H Hj Hk. unfold is_cnt in H. remember (cnts d) as Cn eqn:EC. subst d.
  rewrite cnts_cells in EC. clear EC.
  assert (L : (Z.to_nat j < length Cn)%nat).
  { unfold zlen, cnt_cells in Hj. rewrite map_length in Hj. lia. }
  assert (E : VFlt (fadd (to_flt (nthZ (cnt_cells Cn) j)) (Some (qz k)))
              = cnt_cell (nth (Z.to_nat j) Cn O + Z.to_nat k)).
  { unfold nthZ, cnt_cells. rewrite (nth_indep _ dflt (cnt_cell O)) by (rewrite map_length; lia).
    rewrite map_nth. unfold cnt_cell at 1. cbn [to_flt]. rewrite fadd_cnt. unfold cnt_cell.
    do 3 f_equal. lia. }
  cbv zeta. rewrite E. unfold updZ, cnt_cells. rewrite <- map_upd_nth. fold (cnt_cells (upd_nth (Z.to_nat j) Cn (nth (Z.to_nat j) Cn 0 + Z.to_nat k)%nat)).
  split; [apply is_cnt_cells | apply cnts_cells].
Qed.

Section Model.
Variables t1 t2 : list Z.
Variables b w : Z.
Hypothesis b_pos : 0 < b.

Definition nb : Z := xc_nbins b w.
Definition nbn : nat := Z.to_nat nb.
Definition wd : Z := nb * b.
Definition pre (i : Z) : list Z := rev (firstn (Z.to_nat i) t2).
Definition suf (i : Z) : list Z := skipn (Z.to_nat i) t2.
Definition lb2 (i1 : Z) : Z := 2 * tk t1 i1 - wd.
Definition target : list nat := xcorr_counts t1 t2 b w.

Lemma suf_pos : forall i, 0 <= i < zlen t2 -> suf i = tk t2 i :: suf (i + 1).
Proof. intros. unfold suf. apply skipn_pos. assumption. Qed.
Lemma suf_end : forall i, zlen t2 <= i -> suf i = [].
Proof. intros. unfold suf. apply skipn_end. assumption. Qed.
Lemma pre_succ : forall i, 0 <= i < zlen t2 -> pre (i + 1) = tk t2 i :: pre i.
Proof.
  intros i H. unfold pre, tk. replace (Z.to_nat (i + 1)) with (S (Z.to_nat i)) by lia.
  rewrite (firstn_snoc _ _ 0) by (unfold zlen in H; lia). rewrite rev_app_distr. reflexivity.
Qed.
Lemma pre_0 : forall i, i <= 0 -> pre i = [].
Proof. intros. unfold pre. replace (Z.to_nat i) with 0%nat by lia. reflexivity. Qed.

Lemma fwd_step : forall lb i, 0 <= i < zlen t2 -> 2 * tk t2 i < lb ->
  xc_fwd lb (pre i) (suf i) = xc_fwd lb (pre (i + 1)) (suf (i + 1)).
Proof.
  intros lb i H Hlt. rewrite (suf_pos i H), (pre_succ i H). simpl.
  assert (E : (2 * tk t2 i <? lb) = true) by (apply Z.ltb_lt; lia). rewrite E. reflexivity.
Qed.
Definition fwd_stop (lb i : Z) : Prop := zlen t2 <= i \/ (0 <= i < zlen t2 /\ lb <= 2 * tk t2 i).
Lemma fwd_stops : forall lb i, fwd_stop lb i -> xc_fwd lb (pre i) (suf i) = (pre i, suf i).
Proof.
  intros lb i [H|[H Hge]].
  - rewrite suf_end by assumption. reflexivity.
  - rewrite (suf_pos i H). simpl.
    assert (E : (2 * tk t2 i <? lb) = false) by (apply Z.ltb_ge; lia). rewrite E. reflexivity.
Qed.
Lemma bwd_step : forall lb i, 0 < i <= zlen t2 -> lb < 2 * tk t2 (i - 1) ->
  xc_bwd lb (pre i) (suf i) = xc_bwd lb (pre (i - 1)) (suf (i - 1)).
Proof.
  intros lb i H Hlt. rewrite (suf_pos (i - 1)) by lia.
  replace i with (i - 1 + 1) at 1 by lia. rewrite (pre_succ (i - 1)) by lia. simpl.
  assert (E : (lb <? 2 * tk t2 (i - 1)) = true) by (apply Z.ltb_lt; lia). rewrite E.
  replace (i - 1 + 1) with i by lia. reflexivity.
Qed.
Definition bwd_stop (lb i : Z) : Prop := i <= 0 \/ (0 < i <= zlen t2 /\ 2 * tk t2 (i - 1) <= lb).
Lemma bwd_stops : forall lb i, bwd_stop lb i -> xc_bwd lb (pre i) (suf i) = (pre i, suf i).
Proof.
  intros lb i [H|[H Hge]].
  - rewrite pre_0 by assumption. reflexivity.
  - replace i with (i - 1 + 1) at 1 by lia. rewrite (pre_succ (i - 1)) by lia. simpl.
    assert (E : (lb <? 2 * tk t2 (i - 1)) = false) by (apply Z.ltb_ge; lia). rewrite E.
    rewrite <- (pre_succ (i - 1)) by lia. replace (i - 1 + 1) with i by lia. reflexivity.
Qed.
Lemma span_step : forall rb i, 0 <= i < zlen t2 -> 2 * tk t2 i < rb ->
  xc_span rb (suf i) = (S (fst (xc_span rb (suf (i + 1)))), snd (xc_span rb (suf (i + 1)))).
Proof.
  intros rb i H Hlt. rewrite (suf_pos i H). simpl.
  assert (E : (2 * tk t2 i <? rb) = true) by (apply Z.ltb_lt; lia). rewrite E.
  destruct (xc_span rb (suf (i + 1))). reflexivity.
Qed.
Definition span_stop (rb i : Z) : Prop := zlen t2 <= i \/ (0 <= i < zlen t2 /\ rb <= 2 * tk t2 i).
Lemma span_stops : forall rb i, span_stop rb i -> xc_span rb (suf i) = (O, suf i).
Proof.
  intros rb i [H|[H Hge]].
  - rewrite suf_end by assumption. reflexivity.
  - rewrite (suf_pos i H). simpl.
    assert (E : (2 * tk t2 i <? rb) = false) by (apply Z.ltb_ge; lia). rewrite E. reflexivity.
Qed.

(* ---------- the loop invariants ---------- *)
Definition I1 (i1 i2 : Z) (d : list sval) : Prop :=
  is_cnt d /\ xc_go nbn b wd (skipn (Z.to_nat i1) t1) (pre i2) (suf i2) (cnts d) = target.
Definition I2 (i1 i0 i : Z) : Prop :=
  xc_fwd (lb2 i1) (pre i) (suf i) = xc_fwd (lb2 i1) (pre i0) (suf i0).
Definition I3 (i1 i0 i : Z) : Prop :=
  xc_bwd (lb2 i1) (pre i) (suf i) = xc_bwd (lb2 i1) (pre i0) (suf i0).
Definition I4 (i1 i2 : Z) (d0 : list sval) (j lf : Z) (d : list sval) : Prop :=
  is_cnt d /\
  xc_add (cnts d0) (xc_bins nbn (lb2 i1) b (suf i2))
  = (firstn (Z.to_nat j) (cnts d)
     ++ xc_add (skipn (Z.to_nat j) (cnts d))
               (xc_bins (nbn - Z.to_nat j) (lb2 i1 + 2 * j * b) b (suf lf)))%list.
Definition I5 (rb2 l0 l k : Z) : Prop :=
  (Z.to_nat k + fst (xc_span rb2 (suf l)))%nat = fst (xc_span rb2 (suf l0))
  /\ snd (xc_span rb2 (suf l)) = snd (xc_span rb2 (suf l0)).
Definition c2 (j : nat) : Z := - (nb * b) + b + 2 * Z.of_nat j * b.
Definition I6 (j : Z) (d : list sval) : Prop :=
  firstn (Z.to_nat j) d = hcells (map c2 (List.seq 0 (Z.to_nat j))).

(* ---------- transitions ---------- *)
Lemma T1_init : forall n, n = nb -> I1 0 0 (zeros DFlt n (VInt 0)).
Proof.
  intros n ->. unfold I1. rewrite zeros_cnt. split; [apply is_cnt_cells|].
  rewrite cnts_cells. reflexivity.
Qed.
Lemma T2_init : forall i1 i, I2 i1 i i.
Proof. reflexivity. Qed.
Lemma T2_step : forall i1 i0 i, I2 i1 i0 i -> 0 <= i < zlen t2 -> 2 * tk t2 i < lb2 i1 -> I2 i1 i0 (i + 1).
Proof. unfold I2. intros i1 i0 i H Hi Hlt. rewrite <- fwd_step by assumption. exact H. Qed.
Lemma T3_init : forall i1 i, I3 i1 i i.
Proof. reflexivity. Qed.
Lemma T3_step : forall i1 i0 i, I3 i1 i0 i -> 0 < i <= zlen t2 -> lb2 i1 < 2 * tk t2 (i - 1) -> I3 i1 i0 (i - 1).
Proof. unfold I3. intros i1 i0 i H Hi Hlt. rewrite <- bwd_step by assumption. exact H. Qed.
Lemma T4_init : forall i1 i2 d, is_cnt d -> I4 i1 i2 d 0 i2 d.
Proof.
  intros i1 i2 d H. split; [exact H|]. change (Z.to_nat 0) with 0%nat. simpl firstn. simpl skipn.
  rewrite Nat.sub_0_r. replace (lb2 i1 + 2 * 0 * b) with (lb2 i1) by lia. reflexivity.
Qed.
Lemma T5_init : forall rb l, I5 rb l l 0.
Proof. intros. split; reflexivity. Qed.
Lemma T5_step : forall rb l0 l k, I5 rb l0 l k -> 0 <= k -> 0 <= l < zlen t2 -> 2 * tk t2 l < rb ->
  I5 rb l0 (l + 1) (k + 1).
Proof.
  unfold I5. intros rb l0 l k [E1 E2] Hk Hl Hlt. rewrite (span_step rb l Hl Hlt) in E1, E2.
  simpl in E1, E2. split; [lia | exact E2].
Qed.
Lemma T5_exit : forall rb l0 l k, I5 rb l0 l k -> span_stop rb l ->
  xc_span rb (suf l0) = (Z.to_nat k, suf l).
Proof.
  unfold I5. intros rb l0 l k [E1 E2] St. rewrite (span_stops rb l St) in E1, E2. simpl in E1, E2.
  destruct (xc_span rb (suf l0)) as [a r]. simpl in *. subst. f_equal. lia.
Qed.

Lemma T4_step : forall i1 i2 d0 j lf d lf' k,
  I4 i1 i2 d0 j lf d -> 0 <= j < nb -> zlen d = Z.max 0 nb -> 0 <= k ->
  I5 (lb2 i1 + 2 * (j + 1) * b) lf lf' k -> span_stop (lb2 i1 + 2 * (j + 1) * b) lf' ->
  I4 i1 i2 d0 (j + 1) lf' (updZ d j (VFlt (fadd (to_flt (nthZ d j)) (Some (qz k))))).
Proof.
  intros i1 i2 d0 j lf d lf' k [C E] Hj Hd Hk F St.
  pose proof (T5_exit _ _ _ _ F St) as X.
  destruct (cnt_upd d j k C ltac:(lia) Hk) as [C' U]. cbv zeta in C', U.
  split; [exact C'|]. rewrite E. rewrite U. clear E U C'.
  assert (L : (Z.to_nat j < length (cnts d))%nat).
  { rewrite length_cnts. unfold zlen in Hd. lia. }
  set (Cn := cnts d) in *. set (x := nth (Z.to_nat j) Cn 0%nat).
  replace (Z.to_nat (j + 1)) with (S (Z.to_nat j)) by lia.
  rewrite firstn_S_upd by exact L. rewrite skipn_upd_nth_lt.
  rewrite (skipn_cons_nth_gen Cn (Z.to_nat j) 0%nat L). fold x.
  replace (nbn - Z.to_nat j)%nat with (S (nbn - S (Z.to_nat j))) by (unfold nbn; lia).
  simpl xc_bins.
  replace (lb2 i1 + 2 * j * b + 2 * b) with (lb2 i1 + 2 * (j + 1) * b) by lia.
  rewrite X. simpl xc_add. rewrite <- app_assoc. reflexivity.
Qed.

Lemma T1_next : forall i1 i0 ia ib j lf d d',
  I1 i1 i0 d -> 0 <= i1 < zlen t1 ->
  I2 i1 i0 ia -> fwd_stop (lb2 i1) ia -> I3 i1 ia ib -> bwd_stop (lb2 i1) ib ->
  I4 i1 ib d j lf d' -> Z.to_nat j = nbn -> zlen d' = Z.max 0 nb -> I1 (i1 + 1) ib d'.
Proof.
  unfold I1, I2, I3. intros i1 i0 ia ib j lf d d' [C E] Hi F Fs B Bs [C' A] Hj Hd.
  split; [exact C'|]. rewrite <- E.
  rewrite (skipn_pos t1 i1 Hi). simpl xc_go. fold (lb2 i1).
  rewrite <- F, (fwd_stops _ _ Fs). rewrite <- B, (bwd_stops _ _ Bs).
  rewrite A. rewrite Hj, Nat.sub_diag. simpl xc_bins. rewrite xc_add_nil_r, app_nil_r.
  rewrite firstn_all2 by (rewrite length_cnts; unfold zlen, nbn in *; lia). reflexivity.
Qed.

Lemma div_rate : forall c,
  VFlt (fdiv (Some (inject_Z (Z.of_nat c))) (fmul (Some (qz (zlen t1))) (Some (qtick b))))
  = rate_cell (length t1) b c.
Proof.
  intros c. unfold rate_cell, zlen. destruct (length t1) as [|n].
  - unfold fmul, fdiv, f2, qsome.
    assert (Z : Qeq_bool (Qred (qz (Z.of_nat 0) * qtick b)) 0 = true).
    { apply Qeq_bool_iff. rewrite Qred_correct. unfold Qeq. simpl. reflexivity. }
    rewrite Z. reflexivity.
  - unfold fmul, fdiv, f2, qsome.
    assert (E : (Qred (qz (Z.of_nat (S n)) * qtick b) == (Z.of_nat (S n) * b # 1000000000))%Q).
    { rewrite Qred_correct, qtick_eq. unfold Qeq, Qmult, qz, inject_Z. simpl. lia. }
    assert (Z : Qeq_bool (Qred (qz (Z.of_nat (S n)) * qtick b)) 0 = false).
    { destruct (Qeq_bool _ 0) eqn:Q0; [|reflexivity]. apply Qeq_bool_iff in Q0. rewrite E in Q0.
      unfold Qeq in Q0. simpl in Q0. lia. }
    rewrite Z. do 2 f_equal. apply Qred_complete. rewrite E. unfold xc_rate, ticks_per_s.
    destruct b as [|p|p]; try lia.
    unfold Qeq, Qdiv, Qmult, Qinv, inject_Z. simpl. lia.
Qed.

Lemma T_final : forall i1 i2 d, I1 i1 i2 d -> zlen t1 <= i1 ->
  div_cells_sc (binop_flt Mul (Some (qz (zlen t1))) (Some (qtick b))) d
  = rate_cells (length t1) b target.
Proof.
  unfold I1. intros i1 i2 d [C E] Hi. rewrite (skipn_end t1 i1 Hi) in E. simpl in E.
  unfold is_cnt in C. rewrite E in C. rewrite C.
  unfold div_cells_sc, rate_cells, cnt_cells. rewrite map_map. apply map_ext.
  intros c. unfold cnt_cell. cbn [to_flt binop_flt]. apply div_rate.
Qed.

Lemma T6_init : forall d, I6 0 d.
Proof. reflexivity. Qed.
Lemma T6_step : forall z j d, I6 j d -> z = nb -> 0 <= j < zlen d ->
  I6 (j + 1) (updZ d j (VFlt (fadd (fadd (fsub (Some 0%Q)
                                 (fmul (fdiv (Some (qz z)) (Some (qz 2))) (Some (qtick b))))
                                 (fdiv (Some (qtick b)) (Some (qz 2))))
                          (fmul (Some (qz j)) (Some (qtick b)))))).
Proof.
  clear b_pos. unfold I6. intros z j d H -> Hj.
  rewrite w_half, fneg_half, half_b, fadd_half_half, fmul_z_tick, fadd_half_half.
  rewrite firstn_updZ_snoc by assumption. rewrite H.
  replace (Z.to_nat (j + 1)) with (S (Z.to_nat j)) by lia. rewrite seq_S, map_app.
  unfold hcells. rewrite map_app. simpl. do 2 f_equal. unfold hcell, c2. rewrite Z2Nat.id by lia. reflexivity.
Qed.
Lemma T6_final : forall j d, I6 j d -> Z.to_nat j = nbn -> zlen d = Z.max 0 nb ->
  d = hcells (xcorr_centres2 b w).
Proof.
  unfold I6. intros j d H Hj Hd. rewrite Hj in H.
  rewrite firstn_all2 in H by (unfold zlen, nbn in *; lia). exact H.
Qed.
End Model.

(* ---------- the theorem ---------- *)

Definition xcorr_args (t1 t2 : list Z) (b w : Z) : list value :=
  [Ar (A1 DFlt (qcells t1)); Ar (A1 DFlt (qcells t2)); Sc (qcell b); Sc (qcell w)].
Definition xcorr_result (t1 t2 : list Z) (b w : Z) : list value :=
  [Ar (A1 DFlt (rate_cells (length t1) b (xcorr_counts t1 t2 b w)));
   Ar (A1 DFlt (hcells (xcorr_centres2 b w)))].

Local Open Scope string_scope.
Definition ann_func (t1 t2 : list Z) (b w : Z) (l : nat) : annot :=
  match l with
  | 0%nat => ALoop [("nbins", KInt)] (fun st0 st => getZ st "nbins" = xc_nbins b w)
  | 1%nat => ALoop [("i1", KInt); ("i2", KInt); ("lbound", KAny); ("rbound", KAny); ("leftb", KAny);
                    ("j", KAny); ("k", KAny); ("C", KArr)]
               (fun st0 st => 0 <= getZ st "i2" <= zlen t2
                              /\ I1 t1 t2 b w (getZ st "i1") (getZ st "i2") (getD st "C"))
  | 2%nat => ALoop [("i2", KInt)]
               (fun st0 st => getZ st0 "i2" <= getZ st "i2" <= zlen t2
                              /\ I2 t1 t2 b w (getZ st0 "i1") (getZ st0 "i2") (getZ st "i2"))
  | 3%nat => ALoop [("i2", KInt)]
               (fun st0 st => 0 <= getZ st "i2" <= getZ st0 "i2"
                              /\ I3 t1 t2 b w (getZ st0 "i1") (getZ st0 "i2") (getZ st "i2"))
  | 4%nat => ALoop [("j", KInt); ("k", KAny); ("rbound", KFlt); ("leftb", KInt); ("C", KArr)]
               (fun st0 st => getZ st0 "i2" <= getZ st "leftb" <= zlen t2
                              /\ to_flt (getsc st "rbound")
                                 = Some (qhalf (lb2 t1 b w (getZ st0 "i1") + 2 * getZ st "j" * b))
                              /\ I4 t1 t2 b w (getZ st0 "i1") (getZ st0 "i2") (getD st0 "C")
                                    (getZ st "j") (getZ st "leftb") (getD st "C"))
  | 5%nat => ALoop [("leftb", KInt); ("k", KInt)]
               (fun st0 st => getZ st0 "leftb" <= getZ st "leftb" <= zlen t2 /\ 0 <= getZ st "k"
                              /\ I5 t2 (lb2 t1 b w (getZ st0 "i1") + 2 * (getZ st0 "j" + 1) * b)
                                    (getZ st0 "leftb") (getZ st "leftb") (getZ st "k"))
  | 6%nat => ALoop [("j", KInt); ("B", KArr)]
               (fun st0 st => I6 b w (getZ st "j") (getD st "B"))
  | _ => ANone
  end.

Theorem k__cross_correlogram_computes_model : forall t1 t2 b w fuel, 0 < b -> round9_exact b w ->
  match run fuel k__cross_correlogram (xcorr_args t1 t2 b w) with
  | Return rs => rs = xcorr_result t1 t2 b w
  | OutOfFuel => True
  | _ => False
  end.
Proof.
  intros t1 t2 b w fuel Hb Hr.
  pose proof (run_sound all_kernels (ann_func t1 t2 b w) k__cross_correlogram
                (fun rs => rs = xcorr_result t1 t2 b w) (xcorr_args t1 t2 b w) fuel) as RS.
  unfold run.
  match type of RS with ?P -> _ => assert (W : P) end.
  2: { specialize (RS W). unfold Interp.run in *.
       destruct (exec all_kernels fuel (fbody k__cross_correlogram) (init_store k__cross_correlogram (xcorr_args t1 t2 b w)));
         simpl in *; auto. }
  clear RS. unfold xcorr_args, qcell.
  remember (xcorr_result t1 t2 b w) as R eqn:ER.
  wp_compute k__cross_correlogram ann_func.
  rewrite (nbins_val b w Hb Hr). rewrite even_test.
  cbn [to_int eval_binop is_flt orb binop_int].
  vc k__cross_correlogram ann_func.
  all: try solve [arith].
  all: repeat match goal with
         | Hc : context [to_flt (nthZ (qcells ?l) ?k)] |- _ =>
             rewrite (nth_qcells l k) in Hc by (autorewrite with zlen in *; lia)
         | |- context [to_flt (nthZ (qcells ?l) ?k)] =>
             rewrite (nth_qcells l k) by (autorewrite with zlen in *; lia)
         end.
  all: autorewrite with zlen in *.
  all: try lia.
  all: try match goal with
         | |- I6 _ _ (_ + 1) (updZ _ _ _) => apply T6_step; [assumption | assumption | lia]
         end.
  all: repeat match goal with Hc : ?q = Some _ |- _ => is_var q; subst q end.
  all: rewrite ?w_half, ?fsub_tick_half, ?fadd_half_tick in *.
  all: rewrite ?cmp_lt_th, ?cmp_gt_th in *.
  all: repeat match goal with
         | Hc : (_ <? _)%Z = _ |- _ => b2p Hc
         end.
  all: try match goal with Hz : ?z = xc_nbins _ _ |- _ => is_var z; subst z end.
  all: try match goal with
         | Hc : Z.even _ = _ |- _ = xc_nbins _ _ => unfold xc_nbins; cbv zeta; rewrite Hc; reflexivity
         | |- I1 _ _ _ _ 0 0 (zeros _ _ _) => apply T1_init; reflexivity
         | |- I2 _ _ _ _ _ _ (_ + 1) => apply T2_step; [assumption | lia | unfold lb2, wd, nb; lia]
         | |- I3 _ _ _ _ _ _ (_ - 1) => apply T3_step; [assumption | lia | unfold lb2, wd, nb; lia]
         | |- Some (qhalf _) = Some (qhalf _) => do 2 f_equal; unfold lb2, wd, nb; lia
         | Hc : I1 _ _ _ _ _ _ ?d |- I4 _ _ _ _ _ _ ?d 0 _ ?d => apply T4_init; exact (proj1 Hc)
         | |- I5 _ _ ?l ?l 0 => apply T5_init
         | |- I5 _ _ _ (_ + 1) (_ + 1) => apply T5_step; [assumption | lia | lia | lia]
         end.
  all: try match goal with
         | I : I4 _ _ _ _ _ _ _ ?j _ ?d, F : I5 _ _ _ ?l ?k |- I4 _ _ _ _ _ _ _ (?j + 1) ?l (updZ ?d ?j _) =>
             eapply T4_step;
             [ exact I | unfold nb; lia | unfold nb; lia | lia | exact F
             | unfold span_stop, lb2, wd, nb in *; first [left; lia | right; split; lia] ]
         end.
  all: try match goal with
         | H1 : I1 _ _ _ _ ?i1 ?i0 ?d, H2 : I2 _ _ _ _ ?i1 ?i0 ?ia, H3 : I3 _ _ _ _ ?i1 ?ia ?ib,
           H4 : I4 _ _ _ _ ?i1 ?ib ?d ?j ?lf ?d' |- I1 _ _ _ _ (?i1 + 1) ?ib ?d' =>
             apply (T1_next _ _ _ _ i1 i0 ia ib j lf d d' H1);
             [ lia | exact H2
             | unfold fwd_stop, lb2, wd, nb; first [left; lia | right; split; lia]
             | exact H3
             | unfold bwd_stop, lb2, wd, nb; first [left; lia | right; split; lia]
             | exact H4 | unfold nbn, nb; lia | unfold nb; lia ]
         | H1 : I1 _ _ _ _ ?i1 ?i0 ?d, H2 : I2 _ _ _ _ ?i1 ?i0 ?ia, H3 : I3 _ _ _ _ ?i1 ?ia ?ib
           |- I1 _ _ _ _ (?i1 + 1) ?ib ?d =>
             apply (T1_next _ _ _ _ i1 i0 ia ib 0 ib d d H1);
             [ lia | exact H2
             | unfold fwd_stop, lb2, wd, nb; first [left; lia | right; split; lia]
             | exact H3
             | unfold bwd_stop, lb2, wd, nb; first [left; lia | right; split; lia]
             | apply T4_init; exact (proj1 H1) | unfold nbn, nb; lia | unfold nb; lia ]
         end.
  all: try match goal with
         | |- [Ar (A1 DFlt ?c); Ar (A1 DFlt ?bb)] = _ =>
             subst R; unfold xcorr_result;
             assert (EC : c = rate_cells (length t1) b (xcorr_counts t1 t2 b w));
             [ first [ eapply (T_final t1 t2 b w Hb); [eassumption | lia]
                     | apply (T_final t1 t2 b w Hb 0 0); [apply T1_init; reflexivity | lia] ]
             | assert (EB : bb = hcells (xcorr_centres2 b w));
               [ first [ eapply T6_final; [eassumption | unfold nbn, nb; lia | unfold nb; lia]
                       | apply (T6_final b w 0); [apply T6_init | unfold nbn, nb; lia | autorewrite with zlen; unfold nb; lia] ]
               | rewrite EC, EB; reflexivity ] ]
         end.
  all: try apply zlen_nonneg.
Qed.

(* ---------- the hypothesis on the rounding of (2w)/b ---------- *)
Lemma round9_exact_small : forall b w, 0 < b < 2000000000 -> round9_exact b w.
Proof.
  intros b w H. unfold round9_exact. pose proof (Z.mod_pos_bound (2 * w) b ltac:(lia)). lia.
Qed.
Lemma round9_exact_divides : forall b w, 0 < b -> (2 * w) mod b = 0 -> round9_exact b w.
Proof. intros b w H E. unfold round9_exact. rewrite E. lia. Qed.

Corollary k__cross_correlogram_computes_model_small_bins : forall t1 t2 b w fuel, 0 < b < 2000000000 ->
  match run fuel k__cross_correlogram (xcorr_args t1 t2 b w) with
  | Return rs => rs = xcorr_result t1 t2 b w
  | OutOfFuel => True
  | _ => False
  end.
Proof.
  intros. apply k__cross_correlogram_computes_model; [lia | apply round9_exact_small; assumption].
Qed.

(* not vacuous: with enough fuel the kernel does return (termination itself is not proved);
   unsorted reference (the backward cursor loop runs), coincident samples, a lag on a bin edge *)
Example k__cross_correlogram_runs :
  run 5000 k__cross_correlogram (xcorr_args [20; 0; 10; 3] [1; 5; 5; 12; 30] 5 7)
  = Return (xcorr_result [20; 0; 10; 3] [1; 5; 5; 12; 30] 5 7).
Proof. vm_compute. reflexivity. Qed.

(* FINDING (replayed on the real kernel, .py_func and compiled: 3 bins, centres -4, 0, 4 s, where the model
   and the window [-w, w] have the single centre 0): [round9_exact] cannot be dropped.
   b = 4 s, w = 3.999999999 s: (2w)/b = 2 - 0.5e-9 is rounded to 2.0 by np.round(., 9), nbins = 2 -> 3,
   whereas floor((2w)/b) = 1 gives the model (and the documented window [-w, w]) a single bin. *)
Example round9_hypothesis_is_needed :
  let t1 := [1000000000; 5000000000] in let t2 := [0; 2000000000; 4999999999; 9000000000] in
  let b := 4000000000 in let w := 3999999999 in
  0 < b /\ 0 <= w /\ ~ round9_exact b w /\ length (xcorr_counts t1 t2 b w) = 1%nat /\
  exists c0 c1 c2 B, run 5000 k__cross_correlogram (xcorr_args t1 t2 b w)
                     = Return [Ar (A1 DFlt [c0; c1; c2]); Ar (A1 DFlt B)].
Proof.
  cbv zeta. split; [lia|]. split; [lia|]. split; [|split; [reflexivity|]].
  - unfold round9_exact. intro C. vm_compute in C. discriminate C.
  - do 4 eexists. vm_compute. reflexivity.
Qed.

(* with the specification of the model (C16): for sorted trains and w >= 0 the translated kernel returns
   the rates of the histogram of pairwise lags in the half-open bins of [xcorr_spec] *)
From Verif Require Import Proofs.CorrelogramProofs.
Corollary k__cross_correlogram_spec : forall t1 t2 b w fuel,
  0 < b -> 0 <= w -> round9_exact b w -> sortedZ t1 -> sortedZ t2 ->
  match run fuel k__cross_correlogram (xcorr_args t1 t2 b w) with
  | Return rs => rs = [Ar (A1 DFlt (rate_cells (length t1) b (xcorr_spec t1 t2 b w)));
                       Ar (A1 DFlt (hcells (xcorr_centres2 b w)))]
  | OutOfFuel => True
  | _ => False
  end.
Proof.
  intros t1 t2 b w fuel Hb Hw Hr H1 H2.
  pose proof (k__cross_correlogram_computes_model t1 t2 b w fuel Hb Hr) as K.
  unfold xcorr_result in K. rewrite (xcorr_counts_spec t1 t2 b w Hb Hw H1 H2) in K. exact K.
Qed.

Print Assumptions k__cross_correlogram_computes_model.
Print Assumptions k__cross_correlogram_computes_model_small_bins.
Print Assumptions k__cross_correlogram_spec.
Print Assumptions round9_hypothesis_is_needed.
