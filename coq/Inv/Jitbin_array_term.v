(* Termination of the translated _jitbin_array on every input of its safety precondition [Pre__jitbin_array]:
   some fuel makes the checked interpreter return (no error, no fuel exhaustion).
   Jit/Total.v used as a termination-only calculus: the safety annotation [ann__jitbin_array] of
   Inv/Jitbin_array.v is reused VERBATIM, the only new input is one variant per while loop. *)
From Coq Require Import ZArith QArith String List Bool Lia.
From Verif Require Import Jit.Lang Jit.Interp Jit.Safety Jit.Tactics Jit.ArrayFacts Jit.FloatFacts Jit.Total Gen.Kernels.
From Verif Require Import Inv.Jitbin_array.
Import ListNotations.
Open Scope Z_scope.
Local Open Scope string_scope.

Definition vnt_term (l : nat) (st : store) : Z :=
  match l with
  | 2%nat => getZ st "m" - getZ st "k"
  | 3%nat => getZ st "maxb" - getZ st "b"
  | 5%nat => getZ st "maxt" - getZ st "t"
  | _ => 0
  end.

Theorem k__jitbin_array_returns : forall args, Pre__jitbin_array args ->
  exists fuel rs, run fuel k__jitbin_array args = Return rs.
Proof.
  intros args (d1 & d2 & c & ta & da & s & e & q & -> & H & Hq & Hc & Hcnt & Hda).
  unfold run.
  match goal with |- exists fuel rs, Interp.run _ fuel _ ?a = _ =>
    destruct (run_total all_kernels ann__jitbin_array vnt_term k__jitbin_array (fun _ => True) a) as [fuel [rs [E _]]];
      [| exists fuel, rs; exact E]
  end.
  twp_compute k__jitbin_array ann__jitbin_array vnt_term.
  vc k__jitbin_array ann__jitbin_array.
  all: try solve [arr_arith].
  all: try (apply nonneg_zeros).
  all: try (apply nonneg_updZ; [assumption|]; try lia).
  all: try (change (binop_flt Div ?a ?b) with (VFlt (fdiv a b)); apply nb_bins_nonneg; assumption).
  all: try (rewrite psum_0; lia).
  all: try (apply zlen_pyslice_eq; arith).
Qed.

Corollary k__jitbin_array_terminates : forall args, Pre__jitbin_array args ->
  exists fuel, run fuel k__jitbin_array args <> OutOfFuel.
Proof.
  intros args HP. destruct (k__jitbin_array_returns args HP) as [fuel [rs E]]. exists fuel. rewrite E. discriminate.
Qed.

Print Assumptions k__jitbin_array_returns.
