(* Functional correctness of the TRANSLATED jitrestrict_with_count against the functional model
   Model/Restrict.v, by proof (same method as Inv/Jitrestrict_func.v, whose encodings and index-array
   invariants are reused):

     for every time array ts (integer ticks) and every interval list ep with start <= end,
     running the translated kernel (Gen/Kernels.v) on the arrays of ts / starts ep / ends ep returns,
     whenever it returns, exactly [index array of restrict_idx ts ep; count array of restrict_cnt ts ep].

   Partial correctness (OutOfFuel allowed; any Err or any other Return excluded).
   Only hypothesis: every interval has start <= end (needed: the kernel's leading scan skips the
   intervals ending before the first sample, the model runs its two phases on them; the two agree
   only if the "outside" phase of such an interval cannot consume samples, i.e. start <= end).
   Neither sortedness of ts nor separation/order of the intervals is needed. *)
From Coq Require Import ZArith QArith String List Bool Lia.
From Verif Require Import Base.Prelude Model.Restrict Proofs.BaseLemmas Proofs.RestrictProofs.
From Verif Require Import Jit.Lang Jit.Interp Jit.Safety Jit.Tactics Jit.ArrayFacts Gen.Kernels.
From Verif Require Import Inv.Jitrestrict_func.
Import ListNotations.
Open Scope Z_scope.
#[local] Hint Rewrite zlen_tcells zlen_firsts zlen_seconds : zlen.

(* ---------- generic list facts about cells ---------- *)
Lemma nth_upd_nth_other : forall {A} (d : list A) n m v dv, n <> m -> nth n (upd_nth m d v) dv = nth n d dv.
Proof.
  induction d as [|x r IH]; intros n m v dv H; [destruct m; reflexivity|].
  destruct n, m; simpl; try reflexivity; try congruence. apply IH. congruence.
Qed.
Lemma upd_nth_twice : forall {A} (d : list A) n v w, upd_nth n (upd_nth n d v) w = upd_nth n d w.
Proof.
  induction d as [|x r IH]; intros n v w; [destruct n; reflexivity|].
  destruct n; simpl; [reflexivity|]. f_equal. apply IH.
Qed.
Lemma upd_nth_same : forall {A} (d : list A) n dv, upd_nth n d (nth n d dv) = d.
Proof.
  induction d as [|x r IH]; intros n dv; [destruct n; reflexivity|].
  destruct n; simpl; [reflexivity|]. f_equal. apply IH.
Qed.

Definition cnts (c : list sval) : list nat := map (fun v => Z.to_nat (to_int v)) c.
(* cells from position k on are still 0 *)
Definition ztail (k : Z) (c : list sval) : Prop := forall j, (Z.to_nat k <= j)%nat -> nth j c dflt = VInt 0.

Lemma cnts_ztail : forall c n, (forall j, (n <= j)%nat -> nth j c dflt = VInt 0) ->
  cnts (skipn n c) = repeat 0%nat (length c - n).
Proof.
  induction c as [|x r IH]; intros n H; [destruct n; reflexivity|].
  destruct n.
  - simpl skipn. simpl length. simpl repeat. unfold cnts. simpl map. f_equal.
    + pose proof (H 0%nat ltac:(lia)) as Hx. simpl in Hx. rewrite Hx. reflexivity.
    + specialize (IH 0%nat). simpl skipn in IH. rewrite Nat.sub_0_r in IH. apply IH.
      intros j _. apply (H (S j)). lia.
  - simpl. apply IH. intros j Hj. apply (H (S j)). lia.
Qed.

Lemma cells_of_cnts : forall c, nonneg_ints c -> c = index_cells (cnts c).
Proof.
  induction 1 as [|v r [z [-> Hz]] Fr IH]; [reflexivity|].
  simpl. rewrite <- IH. f_equal. f_equal. lia.
Qed.

(* ---------- the model's counts, indexed by positions ---------- *)
Section Counts.
Variable ts : list Z.
Variable ep : iset.
Hypothesis ep_ok : Forall (fun I => fst I <= snd I) ep.

Definition scan (k t : Z) : list (list nat) :=
  restrict_scan (skipn (Z.to_nat k) ep) (Z.to_nat t) (skipn (Z.to_nat t) ts).
Definition crest (k t : Z) : list nat := map (@length nat) (scan k t).

Lemma scan_via : forall k t t1, 0 <= k < zlen ep -> dl ts (sk ep k) t = at_pos ts t1 -> 0 <= t1 ->
  forall t2, snd (tl ts (ek ep k) t1) = at_pos ts t2 -> 0 <= t2 ->
  scan k t = fst (tl ts (ek ep k) t1) :: scan (k + 1) t2.
Proof.
  intros k t t1 Hk Hd H1 t2 Ht H2. unfold scan. rewrite (skipn_ep ep ep_ok k Hk). simpl.
  unfold dl in Hd. rewrite Hd. unfold at_pos. unfold tl in *.
  destruct (take_le (ek ep k) (Z.to_nat t1) (skipn (Z.to_nat t1) ts)) as [ix [i2 l2]].
  simpl in Ht. unfold at_pos in Ht. injection Ht as -> ->. reflexivity.
Qed.

Lemma crest_via : forall k t t1, 0 <= k < zlen ep -> dl ts (sk ep k) t = at_pos ts t1 -> 0 <= t1 ->
  forall t2, snd (tl ts (ek ep k) t1) = at_pos ts t2 -> 0 <= t2 ->
  crest k t = length (fst (tl ts (ek ep k) t1)) :: crest (k + 1) t2.
Proof. intros. unfold crest. erewrite scan_via by eassumption. reflexivity. Qed.

Lemma scan_nil_len : forall (A : iset) i, map (@length nat) (restrict_scan A i []) = repeat 0%nat (length A).
Proof. induction A as [|[s e] r IH]; intros i; simpl; [reflexivity|]. f_equal. apply IH. Qed.

Lemma crest_end_ts : forall k t, zlen ts <= t -> crest k t = repeat 0%nat (length ep - Z.to_nat k).
Proof.
  intros k t H. unfold crest, scan. rewrite (skipn_end ts t H). rewrite scan_nil_len, skipn_length. reflexivity.
Qed.
Lemma crest_end_ep : forall k t, zlen ep <= k -> crest k t = [].
Proof. intros k t H. unfold crest, scan. rewrite skipn_all2 by (unfold zlen in H; lia). reflexivity. Qed.

Definition tcnt : list nat := restrict_cnt ts ep.

Definition CInv1 (k t : Z) (c : list sval) : Prop :=
  nonneg_ints c /\ zlen c = zlen ep /\ ztail k c
  /\ (cnts (firstn (Z.to_nat k) c) ++ crest k t)%list = tcnt.
Definition CInv4 (k t1 x1 : Z) (c1 : list sval) (t x : Z) (c : list sval) : Prop :=
  c = updZ c1 k (VInt (x - x1))
  /\ (x - x1) + Z.of_nat (length (fst (tl ts (ek ep k) t))) = Z.of_nat (length (fst (tl ts (ek ep k) t1))).

Lemma T_cinv1_init : forall n, n = zlen ep -> CInv1 0 0 (zeros DInt n (VInt 0)).
Proof.
  intros n ->. unfold CInv1. repeat split.
  - apply nonneg_zeros.
  - rewrite zlen_zeros. pose proof (zlen_nonneg ep). lia.
  - intros j _. unfold zeros. simpl coerce. apply nth_repeat.
Qed.

(* interval k is closed with [v] samples: cell k receives v *)
Lemma cinv1_advance : forall k t0 t c0 (L : list nat),
  CInv1 k t0 c0 -> 0 <= k < zlen ep -> scan k t0 = L :: scan (k + 1) t ->
  CInv1 (k + 1) t (updZ c0 k (VInt (Z.of_nat (length L)))).
Proof.
  unfold CInv1. intros k t0 t c0 L (N & Hl & Zt & E) Hk HS. repeat split.
  - apply nonneg_updZ; [assumption | lia].
  - rewrite zlen_updZ. assumption.
  - intros j Hj. unfold updZ. rewrite nth_upd_nth_other by lia. apply Zt. lia.
  - replace (Z.to_nat (k + 1)) with (S (Z.to_nat k)) by lia. unfold updZ.
    rewrite (firstn_snoc _ (Z.to_nat k) dflt) by (rewrite upd_nth_length; unfold zlen in *; lia).
    rewrite firstn_upd_nth_ge by lia.
    rewrite nth_upd_nth_same by (unfold zlen in *; lia).
    unfold cnts. rewrite map_app. simpl map. cbn [to_int]. rewrite Nat2Z.id. rewrite <- app_assoc. simpl app.
    rewrite <- E. unfold crest. rewrite HS. reflexivity.
Qed.

Lemma updZ_self0 : forall k t c, CInv1 k t c -> 0 <= k < zlen ep -> updZ c k (VInt 0) = c.
Proof.
  intros k t c (N & Hl & Zt & E) Hk. unfold updZ. rewrite <- (Zt (Z.to_nat k)) by lia. apply upd_nth_same.
Qed.

Lemma T_cinv0_step : forall k c, CInv1 k 0 c -> 0 <= k < zlen ep -> 0 < zlen ts -> ek ep k < tk ts 0 ->
  CInv1 (k + 1) 0 c.
Proof.
  intros k c H Hk Hn Hlt.
  assert (Hs : sk ep k <= ek ep k).
  { unfold sk, ek, tk, firsts, seconds. assert (Hn' : (Z.to_nat k < length ep)%nat) by (unfold zlen in Hk; lia).
    rewrite (nth_indep _ 0 (fst (0, 0))) by (rewrite map_length; lia).
    rewrite (nth_indep (map snd ep) 0 (snd (0, 0))) by (rewrite map_length; lia).
    rewrite !map_nth. eapply Forall_forall in ep_ok; [exact ep_ok|]. apply nth_In. exact Hn'. }
  rewrite <- (updZ_self0 k 0 c H Hk). apply (cinv1_advance k 0 0 c [] H Hk).
  rewrite (scan_via k 0 0 Hk) with (t2 := 0); try lia.
  - rewrite tl_stop by lia. reflexivity.
  - apply dl_stop; lia.
  - rewrite tl_stop by lia. reflexivity.
Qed.

Lemma T_cinv4_init : forall k t0 c t x, CInv1 k t0 c -> 0 <= k < zlen ep -> CInv4 k t x c t x c.
Proof.
  intros k t0 c t x H Hk. unfold CInv4. rewrite Z.sub_diag. split; [|lia].
  symmetry. eapply updZ_self0; eassumption.
Qed.

Lemma T_cinv4_step : forall k t1 x1 c1 t x c, CInv4 k t1 x1 c1 t x c ->
  0 <= t < zlen ts -> tk ts t <= ek ep k -> 0 <= k < zlen c1 ->
  CInv4 k t1 x1 c1 (t + 1) (x + 1) (updZ c k (VInt (to_int (nthZ c k) + 1))).
Proof.
  unfold CInv4. intros k t1 x1 c1 t x c [-> E] Ht Hle Hk.
  rewrite (tl_step ts (ek ep k) t Ht Hle) in E. simpl fst in E. simpl length in E. split; [|lia].
  unfold updZ, nthZ. rewrite nth_upd_nth_same by (unfold zlen in Hk; lia). rewrite upd_nth_twice.
  cbn [to_int]. f_equal. f_equal. lia.
Qed.

Lemma T_cinv1_next : forall k t0 c0 t1 x0 t x c,
  CInv1 k t0 c0 -> 0 <= k < zlen ep -> 0 <= t0 -> 0 <= t1 -> 0 <= t ->
  Inv2 ts ep k t0 t1 -> (zlen ts <= t1 \/ (t1 < zlen ts /\ sk ep k <= tk ts t1)) ->
  CInv4 k t1 x0 c0 t x c -> snd (tl ts (ek ep k) t) = snd (tl ts (ek ep k) t1) ->
  (zlen ts <= t \/ (t < zlen ts /\ ek ep k < tk ts t)) ->
  CInv1 (k + 1) t c.
Proof.
  unfold Inv2, CInv4. intros k t0 c0 t1 x0 t x c I1 Hk H0 H1 Ht I2 X2 [-> E] E2 X4.
  assert (D : dl ts (sk ep k) t0 = at_pos ts t1).
  { rewrite <- I2. destruct X2 as [X2|[X2 X2']]; [apply dl_end | apply dl_stop]; lia. }
  assert (T : tl ts (ek ep k) t = ([], at_pos ts t)).
  { destruct X4 as [X4|[X4 X4']]; [apply tl_end | apply tl_stop]; lia. }
  rewrite T in E, E2. simpl in E, E2.
  replace (x - x0) with (Z.of_nat (length (fst (tl ts (ek ep k) t1)))) by lia.
  apply (cinv1_advance k t0 t c0 _ I1 Hk).
  apply (scan_via k t0 t1 Hk D H1 t (eq_sym E2) Ht).
Qed.

Lemma T_cfinal : forall k t c, CInv1 k t c -> 0 <= k -> zlen ep <= k \/ zlen ts <= t ->
  c = index_cells tcnt.
Proof.
  unfold CInv1. intros k t c (N & Hl & Zt & E) Hk X.
  rewrite (cells_of_cnts c N) at 1. f_equal. rewrite <- E.
  destruct X as [X|X].
  - rewrite crest_end_ep by assumption. rewrite app_nil_r. rewrite firstn_all2 by (unfold zlen in *; lia). reflexivity.
  - rewrite crest_end_ts by assumption.
    rewrite <- (firstn_skipn (Z.to_nat k) c) at 1. unfold cnts at 1. rewrite map_app. f_equal.
    fold (cnts (skipn (Z.to_nat k) c)). rewrite (cnts_ztail c (Z.to_nat k) Zt). unfold zlen in Hl. f_equal. lia.
Qed.

End Counts.

Local Open Scope string_scope.

Definition ann_rwc (ts : list Z) (ep : iset) (l : nat) : annot :=
  match l with
  | 0%nat => ALoop [("k", KInt)]
                   (fun st0 st => 0 <= getZ st "k" <= zlen ep /\ Inv0 ts ep (getZ st "k")
                                  /\ CInv1 ts ep (getZ st "k") 0 (getD st "count"))
  | 1%nat => ALoop [("k", KInt); ("t", KInt); ("x", KInt); ("ix", KArr); ("count", KArr)]
                   (fun st0 st => 0 <= getZ st "k" <= zlen ep /\ 0 <= getZ st "x" <= getZ st "t"
                                  /\ getZ st "t" <= zlen ts
                                  /\ Inv1 ts ep (getZ st "k") (getZ st "t") (getZ st "x") (getD st "ix")
                                  /\ CInv1 ts ep (getZ st "k") (getZ st "t") (getD st "count"))
  | 2%nat => ALoop [("t", KInt)]
                   (fun st0 st => getZ st0 "t" <= getZ st "t" <= zlen ts
                                  /\ Inv2 ts ep (getZ st0 "k") (getZ st0 "t") (getZ st "t"))
  | 4%nat => ALoop [("k", KInt); ("t", KInt); ("x", KInt); ("ix", KArr); ("count", KArr)]
                   (fun st0 st => getZ st "k" = getZ st0 "k"
                                  /\ getZ st0 "t" <= getZ st "t" <= zlen ts
                                  /\ getZ st0 "x" <= getZ st "x"
                                  /\ getZ st "x" - getZ st0 "x" <= getZ st "t" - getZ st0 "t"
                                  /\ Inv4 ts ep (getZ st0 "k") (getZ st0 "t") (getZ st0 "x") (getD st0 "ix")
                                          (getZ st "t") (getZ st "x") (getD st "ix")
                                  /\ CInv4 ts ep (getZ st0 "k") (getZ st0 "t") (getZ st0 "x") (getD st0 "count")
                                          (getZ st "t") (getZ st "x") (getD st "count"))
  | _ => ANone
  end.

Lemma T_result : forall ts ep d x c,
  pyslice d 0 x = index_cells (target ts ep) -> c = index_cells (tcnt ts ep) ->
  [Ar (A1 DInt (pyslice d 0 x)); Ar (A1 DInt c)] =
  [Ar (A1 DInt (index_cells (restrict_idx ts ep))); Ar (A1 DInt (index_cells (restrict_cnt ts ep)))].
Proof. intros ts ep d x c -> ->. reflexivity. Qed.

Theorem k_jitrestrict_with_count_computes_model : forall ts ep fuel,
  Forall (fun I => fst I <= snd I) ep ->
  match run fuel k_jitrestrict_with_count (jitrestrict_args ts ep) with
  | Return rs => rs = [index_array (restrict_idx ts ep); index_array (restrict_cnt ts ep)]
  | OutOfFuel => True
  | _ => False
  end.
Proof.
  intros ts ep fuel Hep.
  pose proof (run_sound all_kernels (ann_rwc ts ep) k_jitrestrict_with_count
                (fun rs => rs = [index_array (restrict_idx ts ep); index_array (restrict_cnt ts ep)])
                (jitrestrict_args ts ep) fuel) as RS.
  unfold run.
  match type of RS with ?P -> _ => assert (W : P) end.
  2: { specialize (RS W). unfold Interp.run in *.
       destruct (exec all_kernels fuel (fbody k_jitrestrict_with_count)
                   (init_store k_jitrestrict_with_count (jitrestrict_args ts ep)));
         simpl in *; auto. }
  clear RS. unfold jitrestrict_args, index_array.
  wp_compute k_jitrestrict_with_count ann_rwc.
  vc k_jitrestrict_with_count ann_rwc.
  all: try solve [arith].
  all: repeat match goal with
         | Hc : context [to_flt (nthZ (tcells ?l) ?k)] |- _ =>
             rewrite (nth_tcells l k) in Hc by (autorewrite with zlen; lia)
         end.
  all: repeat match goal with
         | Hc : context [cmp_flt Lt (Some (inject_Z _)) (Some (inject_Z _))] |- _ => rewrite cmp_lt_inj in Hc
         | Hc : context [cmp_flt Gt (Some (inject_Z _)) (Some (inject_Z _))] |- _ => rewrite cmp_gt_inj in Hc
         | Hc : context [cmp_flt Ge (Some (inject_Z _)) (Some (inject_Z _))] |- _ => rewrite cmp_ge_inj in Hc
         end.
  all: repeat match goal with
         | Hc : (_ <? _)%Z = _ |- _ => b2p Hc
         | Hc : (_ <=? _)%Z = _ |- _ => b2p Hc
         end.
  all: autorewrite with zlen in *.
  all: repeat match goal with Hc : ?a = ?b |- _ => is_var a; is_var b; subst a end.
  all: try match goal with
         | |- Inv0 _ _ (_ + 1) => apply T_inv0_step; try assumption; unfold ek; lia
         | |- Inv1 _ _ _ 0 0 (zeros _ _ _) => apply T_inv1_init; assumption
         | |- Inv4 _ _ ?k ?t ?x ?d ?t ?x ?d => eapply T_inv4_init; eassumption
         | |- Inv2 _ _ _ _ (_ + 1) => apply T_inv2_step; [assumption | lia | unfold sk; lia]
         | |- Inv4 _ _ _ _ _ _ (_ + 1) (_ + 1) (updZ _ _ _) =>
             apply T_inv4_step; [assumption | lia | unfold ek; lia | lia]
         end.
  all: try apply zlen_nonneg.
  all: try match goal with
         | |- CInv1 _ _ 0 0 (zeros _ _ _) => apply T_cinv1_init; reflexivity
         | |- CInv1 _ _ (_ + 1) 0 _ => apply T_cinv0_step; [assumption | assumption | lia | lia | unfold ek; lia]
         | H : CInv1 _ _ ?k ?t ?c |- CInv1 _ _ ?k ?t ?c => exact H
         | I1 : CInv1 _ _ ?k ?t0 ?c |- CInv4 _ _ ?k ?t ?x ?c ?t ?x ?c =>
             apply (T_cinv4_init ts ep k t0 c t x I1); lia
         | |- CInv4 _ _ _ _ _ _ (_ + 1) (_ + 1) (updZ _ _ _) =>
             apply T_cinv4_step; [assumption | lia | unfold ek; lia | lia]
         end.
  all: try match goal with
         | I1 : Inv1 _ _ ?k ?t0 ?x0 ?d0, I2 : Inv2 _ _ ?k ?t0 ?t1, I4 : Inv4 _ _ ?k ?t1 ?x0 ?d0 ?t ?x ?d
           |- Inv1 _ _ (?k + 1) ?t ?x ?d =>
             apply (T_inv1_next ts ep Hep k t0 x0 d0 t1 t x d I1);
             [ lia | lia | lia | lia | exact I2
             | unfold sk; first [left; lia | right; split; lia]
             | exact I4
             | unfold ek; first [left; lia | right; split; lia] ]
         | C1 : CInv1 _ _ ?k ?t0 ?c0, I2 : Inv2 _ _ ?k ?t0 ?t1, I4 : Inv4 _ _ ?k ?t1 ?x0 _ ?t ?x _,
           C4 : CInv4 _ _ ?k ?t1 ?x0 ?c0 ?t ?x ?c
           |- CInv1 _ _ (?k + 1) ?t ?c =>
             apply (T_cinv1_next ts ep Hep k t0 c0 t1 x0 t x c C1);
             [ lia | lia | lia | lia | exact I2
             | unfold sk; first [left; lia | right; split; lia]
             | exact C4
             | exact (proj2 (proj2 I4))
             | unfold ek; first [left; lia | right; split; lia] ]
         end.
  all: try apply T_result.
  all: try match goal with
         | I1 : Inv1 _ _ ?k ?t ?x ?d |- pyslice ?d 0 ?x = _ =>
             apply (T_final ts ep k t x d I1); [first [left; lia | right; lia] | lia]
         | C1 : CInv1 _ _ ?k ?t ?c |- ?c = index_cells _ =>
             apply (T_cfinal ts ep k t c C1); [lia | first [left; lia | right; lia]]
         | I1 : Inv1 _ _ ?k ?t0 ?x0 ?d0, I2 : Inv2 _ _ ?k ?t0 ?t1, I4 : Inv4 _ _ ?k ?t1 ?x0 ?d0 ?t ?x ?d
           |- pyslice ?d 0 ?x = _ =>
             apply (T_final ts ep (k + 1) t x d);
             [ apply (T_inv1_next ts ep Hep k t0 x0 d0 t1 t x d I1);
               [ lia | lia | lia | lia | exact I2
               | unfold sk; first [left; lia | right; split; lia]
               | exact I4
               | unfold ek; first [left; lia | right; split; lia] ]
             | first [left; lia | right; lia] | lia ]
         | C1 : CInv1 _ _ ?k ?t0 ?c0, I2 : Inv2 _ _ ?k ?t0 ?t1, I4 : Inv4 _ _ ?k ?t1 ?x0 _ ?t ?x _,
           C4 : CInv4 _ _ ?k ?t1 ?x0 ?c0 ?t ?x ?c
           |- ?c = index_cells _ =>
             apply (T_cfinal ts ep (k + 1) t c);
             [ apply (T_cinv1_next ts ep Hep k t0 c0 t1 x0 t x c C1);
               [ lia | lia | lia | lia | exact I2
               | unfold sk; first [left; lia | right; split; lia]
               | exact C4
               | exact (proj2 (proj2 I4))
               | unfold ek; first [left; lia | right; split; lia] ]
             | lia | first [left; lia | right; lia] ]
         end.
Qed.

(* with the specifications of the model (C03): for sorted time stamps and a canonical interval set the
   translated kernel returns the positions of the samples lying in the set and, per interval, the
   number of samples lying in it *)
Corollary k_jitrestrict_with_count_spec_func : forall ts ep fuel, sortedZ ts -> canonical ep ->
  match run fuel k_jitrestrict_with_count (jitrestrict_args ts ep) with
  | Return rs => rs = [index_array (filter_idx (fun x => mem x ep) 0%nat ts);
                       index_array (map (fun iv => count_if (fun x => inb x iv) ts) ep)]
  | OutOfFuel => True
  | _ => False
  end.
Proof.
  intros ts ep fuel Hs Hc.
  pose proof (k_jitrestrict_with_count_computes_model ts ep fuel (canonical_proper ep Hc)) as H.
  rewrite (restrict_idx_spec ts ep Hs Hc), (restrict_cnt_spec ts ep Hs Hc) in H. exact H.
Qed.

(* not vacuous: with enough fuel the kernel does return (termination itself is not proved) *)
Example k_jitrestrict_with_count_runs :
  run 100 k_jitrestrict_with_count (jitrestrict_args [0; 5; 9; 12] [(-3, -1); (4, 6); (7, 7); (8, 20)])
  = Return [index_array [1; 2; 3]%nat; index_array [0; 1; 0; 2]%nat].
Proof. vm_compute. reflexivity. Qed.

Print Assumptions k_jitrestrict_with_count_computes_model.
Print Assumptions k_jitrestrict_with_count_spec_func.
