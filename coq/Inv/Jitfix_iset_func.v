(* Functional correctness of the TRANSLATED _jitfix_iset against the functional model [fix_iset] of
   Model/Iset.v (the model the C01 theorems are about), by proof (partial correctness through
   [run_sound], as in Inv/Jitrestrict_func.v):

     for EVERY list l of (start_i, end_i) ticks (no sortedness, no start <= end needed), running the
     translated kernel on the arrays of starts l / ends l returns, whenever it returns, exactly the
     (zlen o) x 2 array of o = [fix_iset l], together with a 4-cell boolean array (the warning flags,
     whose content is left unspecified).

   Times: a tick t (nanoseconds) is the float t * 1e-9, i.e. the reduced fraction [qtick t]; the
   kernel's  newend -= 1.0e-6  is then exactly the model's  ne - us  ([fsub_us]).
   The kernel computes  max(end[i-1], end[i])  where the model tracks  Z.max ce e  with ce the end of
   the last absorbed interval: the same quantity, so sorted ends are not needed. *)
From Coq Require Import ZArith QArith String List Bool Lia.
From Verif Require Import Base.Prelude Model.Iset.
From Verif Require Import Jit.Lang Jit.Interp Jit.Safety Jit.Tactics Jit.ArrayFacts Gen.Kernels.
From Verif Require Import Inv.Jitrestrict_func.
Import ListNotations.
Open Scope Z_scope.

(* ---------- embedding of ticks: t nanoseconds is the float t * 1e-9, as a reduced fraction ---------- *)
Definition e9z : Z := 1000000000.
Definition qtick (t : Z) : Q := Qred (t # 1000000000).
Definition qcell (t : Z) : sval := VFlt (Some (qtick t)).
Definition qcells (l : list Z) : list sval := map qcell l.

Lemma zlen_qcells : forall l, zlen (qcells l) = zlen l.
Proof. intros; unfold qcells; apply zlen_map. Qed.

Lemma nth_qcells : forall l k, 0 <= k < zlen l -> to_flt (nthZ (qcells l) k) = Some (qtick (tk l k)).
Proof.
  intros l k H. unfold nthZ, qcells, tk.
  rewrite (nth_indep _ dflt (qcell 0)) by (rewrite map_length; unfold zlen in H; lia).
  rewrite map_nth. reflexivity.
Qed.

Lemma qtick_eq : forall t, (qtick t == t # 1000000000)%Q.
Proof. intros. unfold qtick. apply Qred_correct. Qed.

Lemma Qle_bool_qtick : forall a b, Qle_bool (qtick a) (qtick b) = (a <=? b).
Proof.
  intros a b. apply Bool.eq_true_iff_eq. rewrite Qle_bool_iff, !qtick_eq. rewrite Z.leb_le.
  unfold Qle. simpl. lia.
Qed.
Lemma Qeq_bool_qtick : forall a b, Qeq_bool (qtick a) (qtick b) = (a =? b).
Proof.
  intros a b. apply Bool.eq_true_iff_eq. rewrite Qeq_bool_iff, !qtick_eq. rewrite Z.eqb_eq.
  unfold Qeq. simpl. lia.
Qed.

Lemma cmp_lt_q : forall a b, cmp_flt Lt (Some (qtick a)) (Some (qtick b)) = (a <? b).
Proof. intros. unfold cmp_flt, cmp_q. rewrite Qle_bool_qtick. rewrite Z.ltb_antisym. reflexivity. Qed.
Lemma cmp_gt_q : forall a b, cmp_flt Gt (Some (qtick a)) (Some (qtick b)) = (b <? a).
Proof. intros. unfold cmp_flt, cmp_q. rewrite Qle_bool_qtick. rewrite Z.ltb_antisym. reflexivity. Qed.
Lemma cmp_eq_q : forall a b, cmp_flt Eq (Some (qtick a)) (Some (qtick b)) = (a =? b).
Proof. intros. unfold cmp_flt, cmp_q. apply Qeq_bool_qtick. Qed.

Lemma fmax_q : forall a b, fmax (Some (qtick a)) (Some (qtick b)) = Some (qtick (Z.max a b)).
Proof.
  intros. unfold fmax, f2. rewrite Qle_bool_qtick. destruct (Z.leb_spec a b); f_equal; f_equal; lia.
Qed.

(* the kernel's  newend -= 1.0e-6  is the model's  ne - us *)
Lemma fsub_us : forall a, fsub (Some (qtick a)) (Some (1 # 1000000)%Q) = Some (qtick (a - us)).
Proof.
  intros a. unfold fsub, f2, qsome, qtick. f_equal. apply Qred_complete.
  rewrite (Qred_correct (a # 1000000000)). unfold Qeq, Qminus, Qplus, Qopp, us. simpl. lia.
Qed.

#[local] Hint Rewrite zlen_qcells zlen_firsts zlen_seconds : zlen.

Definition pcells (o : iset) : list sval := flat_map (fun I => [qcell (fst I); qcell (snd I)]) o.

Section Model.
Variable l : iset.
Definition sk (k : Z) : Z := tk (firsts l) k.
Definition ek (k : Z) : Z := tk (seconds l) k.

Definition F0 (i ct : Z) (d : list sval) : Prop :=
  exists P, zlen P = ct /\ zlen d = 2 * zlen l /\ firstn (Z.to_nat (2 * ct)) d = pcells P
            /\ (P ++ fix_go None (skipn (Z.to_nat i) l))%list = fix_iset l.
Definition F5 (i ct : Z) (d : list sval) (qs qe : option Q) : Prop :=
  exists P ns ne, zlen P = ct /\ zlen d = 2 * zlen l /\ firstn (Z.to_nat (2 * ct)) d = pcells P
            /\ qs = Some (qtick ns) /\ qe = Some (qtick ne)
            /\ (P ++ fix_go (Some (ns, ne, ek i)) (skipn (Z.to_nat (i + 1)) l))%list = fix_iset l.

Lemma skipn_l : forall k, 0 <= k < zlen l ->
  skipn (Z.to_nat k) l = (sk k, ek k) :: skipn (Z.to_nat (k + 1)) l.
Proof.
  intros k H. unfold sk, ek, tk, firsts, seconds. replace (Z.to_nat (k + 1)) with (S (Z.to_nat k)) by lia.
  assert (Hn : (Z.to_nat k < length l)%nat) by (unfold zlen in H; lia).
  generalize (Z.to_nat k) Hn. clear H Hn. induction l as [|[s e] r IH]; intros n Hn; simpl in Hn; [lia|].
  destruct n; [reflexivity|]. simpl. apply IH. lia.
Qed.

Lemma firstn_updZ_snoc : forall (d : list sval) x v, 0 <= x < zlen d ->
  firstn (Z.to_nat (x + 1)) (updZ d x v) = (firstn (Z.to_nat x) d ++ [v])%list.
Proof.
  intros d x v Hx. unfold updZ. replace (Z.to_nat (x + 1)) with (S (Z.to_nat x)) by lia.
  rewrite (firstn_snoc _ (Z.to_nat x) dflt) by (rewrite upd_nth_length; unfold zlen in Hx; lia).
  rewrite firstn_upd_nth_ge by lia.
  rewrite nth_upd_nth_same by (unfold zlen in Hx; lia). reflexivity.
Qed.
Lemma firstn_updZ_two : forall (d : list sval) x a b, 0 <= x -> x + 1 < zlen d ->
  firstn (Z.to_nat (x + 2)) (updZ (updZ d x a) (x + 1) b) = (firstn (Z.to_nat x) d ++ [a; b])%list.
Proof.
  intros d x a b H0 H1. replace (x + 2) with (x + 1 + 1) by lia.
  rewrite firstn_updZ_snoc by (rewrite zlen_updZ; lia).
  rewrite firstn_updZ_snoc by lia. rewrite <- app_assoc. reflexivity.
Qed.
Lemma pcells_snoc : forall P x, pcells (P ++ [x]) = (pcells P ++ [qcell (fst x); qcell (snd x)])%list.
Proof. intros. unfold pcells. rewrite flat_map_app. simpl. reflexivity. Qed.

Lemma fix_none_unfold : forall k, 0 <= k < zlen l ->
  fix_go None (skipn (Z.to_nat k) l)
  = if ek k <=? sk k then fix_go None (skipn (Z.to_nat (k + 1)) l)
    else fix_go (Some (sk k, ek k, ek k)) (skipn (Z.to_nat (k + 1)) l).
Proof. intros k H. rewrite (skipn_l k H). reflexivity. Qed.

Lemma T0_init : F0 0 0 (zeros DFlt (Z.max 0 (zlen l) * 2) (VInt 0)).
Proof.
  exists []. repeat split.
  rewrite zlen_zeros. pose proof (zlen_nonneg l). lia.
Qed.

Lemma T1_skip : forall i ct d, F0 i ct d -> 0 <= i < zlen l -> ek i <= sk i -> F0 (i + 1) ct d.
Proof.
  intros i ct d (P & HP & Hd & Hf & HU) Hi Hle. exists P. repeat split; try assumption.
  rewrite <- HU. rewrite (fix_none_unfold i Hi).
  assert (E : (ek i <=? sk i) = true) by (apply Z.leb_le; lia). rewrite E. reflexivity.
Qed.

Lemma T1_break : forall i ct d, F0 i ct d -> 0 <= i < zlen l -> sk i < ek i ->
  F5 i ct d (Some (qtick (sk i))) (Some (qtick (ek i))).
Proof.
  intros i ct d (P & HP & Hd & Hf & HU) Hi Hlt. exists P, (sk i), (ek i). repeat split; try assumption.
  rewrite <- HU. rewrite (fix_none_unfold i Hi).
  assert (E : (ek i <=? sk i) = false) by (apply Z.leb_gt; lia). rewrite E. reflexivity.
Qed.

Lemma T5_step : forall i ct d qs qe, F5 i ct d qs qe -> 0 <= i -> i + 1 < zlen l -> sk (i + 1) < ek i ->
  F5 (i + 1) ct d qs (fmax (Some (qtick (ek i))) (Some (qtick (ek (i + 1))))).
Proof.
  intros i ct d qs qe (P & ns & ne & HP & Hd & Hf & -> & -> & HU) H0 Hi Hlt.
  exists P, ns, (Z.max (ek i) (ek (i + 1))). repeat split; try assumption.
  - apply fmax_q.
  - rewrite <- HU. rewrite (skipn_l (i + 1)) by lia. simpl fix_go.
    assert (E : (sk (i + 1) <? ek i) = true) by (apply Z.ltb_lt; lia). rewrite E. reflexivity.
Qed.

Lemma T_close : forall i ct d qs qe, F5 i ct d qs qe -> 0 <= i < zlen l -> 0 <= ct <= i ->
  (i + 1 < zlen l -> ek i <= sk (i + 1)) ->
  forall qe',
    ((i + 1 < zlen l /\ cmp_flt Eq qe (Some (qtick (sk (i + 1)))) = true
      /\ qe' = fsub qe (Some (1 # 1000000)%Q))
     \/ (i + 1 < zlen l /\ cmp_flt Eq qe (Some (qtick (sk (i + 1)))) = false /\ qe' = qe)
     \/ (zlen l <= i + 1 /\ qe' = qe)) ->
  (cmp_flt Gt qe' qs = true ->
     F0 (i + 1) (ct + 1) (updZ (updZ d (ct * 2 + 0) (VFlt qs)) (ct * 2 + 1) (VFlt qe')))
  /\ (cmp_flt Gt qe' qs = false -> F0 (i + 1) ct d).
Proof.
  intros i ct d qs qe (P & ns & ne & HP & Hd & Hf & -> & -> & HU) Hi Hct Hbrk qe' Hq.
  assert (X : exists ne', qe' = Some (qtick ne')
              /\ (P ++ (if ns <? ne' then [(ns, ne')] else [])
                    ++ fix_go None (skipn (Z.to_nat (i + 1)) l))%list = fix_iset l).
  { destruct Hq as [(Hlt & Hc & ->) | [(Hlt & Hc & ->) | (Hge & ->)]].
    - rewrite cmp_eq_q in Hc. exists (ne - us). split; [apply fsub_us|].
      rewrite <- HU. f_equal. rewrite (fix_none_unfold (i + 1)) by lia.
      rewrite (skipn_l (i + 1)) by lia. simpl fix_go.
      assert (E : (sk (i + 1) <? ek i) = false) by (apply Z.ltb_ge; lia). rewrite E.
      unfold close_pending. rewrite Hc. reflexivity.
    - rewrite cmp_eq_q in Hc. exists ne. split; [reflexivity|].
      rewrite <- HU. f_equal. rewrite (fix_none_unfold (i + 1)) by lia.
      rewrite (skipn_l (i + 1)) by lia. simpl fix_go.
      assert (E : (sk (i + 1) <? ek i) = false) by (apply Z.ltb_ge; lia). rewrite E.
      unfold close_pending. rewrite Hc. reflexivity.
    - exists ne. split; [reflexivity|].
      rewrite <- HU. rewrite skipn_all2 by (unfold zlen in Hge; lia). simpl fix_go.
      unfold close_pending. rewrite app_nil_r. reflexivity. }
  destruct X as (ne' & -> & HU'). rewrite cmp_gt_q. split; intros Hc; rewrite Hc in HU'.
  - exists (P ++ [(ns, ne')])%list. repeat split.
    + unfold zlen in *. rewrite app_length. simpl. lia.
    + rewrite !zlen_updZ. exact Hd.
    + replace (ct * 2 + 0) with (2 * ct) by lia. replace (ct * 2 + 1) with (2 * ct + 1) by lia.
      replace (2 * (ct + 1)) with (2 * ct + 2) by lia.
      rewrite firstn_updZ_two by lia. rewrite Hf. rewrite pcells_snoc. reflexivity.
    + rewrite <- app_assoc. exact HU'.
  - exists P. repeat split; assumption.
Qed.

Lemma norm_bound_id : forall n b, 0 <= b <= n -> norm_bound n b = b.
Proof. intros n b H. unfold norm_bound. destruct (Z.ltb_spec b 0); lia. Qed.

Lemma T_final : forall i ct d, F0 i ct d -> zlen l <= i -> 0 <= ct <= zlen l ->
  Z.max 0 (norm_bound (Z.max 0 (zlen l)) ct - norm_bound (Z.max 0 (zlen l)) 0) = zlen (fix_iset l)
  /\ slice d (norm_bound (Z.max 0 (zlen l)) 0 * 2) (norm_bound (Z.max 0 (zlen l)) ct * 2)
      = pcells (fix_iset l).
Proof.
  intros i ct d (P & HP & Hd & Hf & HU) Hi Hct.
  rewrite skipn_all2 in HU by (unfold zlen in Hi; lia). simpl in HU. rewrite app_nil_r in HU. subst P.
  rewrite !norm_bound_id by lia. split; [lia|].
  unfold slice. change (Z.to_nat (0 * 2)) with 0%nat. simpl skipn.
  replace (ct * 2 - 0 * 2) with (2 * ct) by lia. exact Hf.
Qed.
End Model.

Local Open Scope string_scope.
Definition ann_func (l : iset) (lb : nat) : annot :=
  match lb with
  | 0%nat => ALoop [("i", KInt); ("ct", KInt); ("newstart", KAny); ("newend", KAny);
                    ("to_warn", KArr); ("data", KArr)]
                   (fun st0 st => 0 <= getZ st "ct" <= getZ st "i" /\ getZ st "i" <= zlen l
                                  /\ F0 l (getZ st "i") (getZ st "ct") (getD st "data"))
  | 1%nat => ALoop [("i", KInt); ("newstart", KFlt); ("newend", KFlt); ("to_warn", KArr)]
                   (fun st0 st => getZ st0 "i" <= getZ st "i" <= zlen l
                                  /\ F0 l (getZ st "i") (getZ st "ct") (getD st "data"))
  | 5%nat => ALoop [("i", KInt); ("newend", KFlt); ("to_warn", KArr)]
                   (fun st0 st => getZ st0 "i" <= getZ st "i" < zlen l
                                  /\ F5 l (getZ st "i") (getZ st "ct") (getD st "data")
                                        (to_flt (getsc st "newstart")) (to_flt (getsc st "newend")))
  | _ => ANone
  end.

Definition fix_args (l : iset) : list value :=
  [Ar (A1 DFlt (qcells (firsts l))); Ar (A1 DFlt (qcells (seconds l)))].
Definition fix_post (o : iset) (rs : list value) : Prop :=
  exists w, zlen w = 4 /\ rs = [Ar (A2 DFlt (zlen o) 2 (pcells o)); Ar (A1 DBool w)].

Theorem k__jitfix_iset_computes_model : forall l fuel,
  match run fuel k__jitfix_iset (fix_args l) with
  | Return rs => fix_post (fix_iset l) rs
  | OutOfFuel => True
  | _ => False
  end.
Proof.
  intros l fuel. pose proof (zlen_nonneg l) as Hl0.
  pose proof (run_sound all_kernels (ann_func l) k__jitfix_iset
                (fix_post (fix_iset l)) (fix_args l) fuel) as RS.
  unfold run.
  match type of RS with ?P -> _ => assert (W : P) end.
  2: { specialize (RS W). unfold Interp.run in *.
       destruct (exec all_kernels fuel (fbody k__jitfix_iset) (init_store k__jitfix_iset (fix_args l)));
         simpl in *; auto. }
  clear RS. unfold fix_args.
  wp_compute k__jitfix_iset ann_func.
  vc k__jitfix_iset ann_func.
  all: try solve [arith].
  all: repeat match goal with
         | Hc : context [to_flt (nthZ (qcells ?l) ?k)] |- _ =>
             rewrite (nth_qcells l k) in Hc by (autorewrite with zlen; lia)
         | |- context [to_flt (nthZ (qcells ?l) ?k)] =>
             rewrite (nth_qcells l k) by (autorewrite with zlen; lia)
         end.
  all: autorewrite with zlen in *.
  all: try lia.
  all: change (Z.max 0 2) with 2 in *.
  all: repeat match goal with
         | Hc : context [cmp_flt Lt (Some (qtick _)) (Some (qtick _))] |- _ => rewrite cmp_lt_q in Hc
         | Hc : context [cmp_flt Eq (Some (qtick _)) (Some (qtick _))] |- _ => rewrite cmp_eq_q in Hc
         end.
  all: repeat match goal with
         | Hc : (_ <? _)%Z = _ |- _ => b2p Hc
         | Hc : (_ =? _)%Z = _ |- _ => b2p Hc
         end.
  all: repeat match goal with
         | |- context [?z + 1 - 1] => replace (z + 1 - 1) with z by lia
         end.
  all: try match goal with
         | |- F0 _ 0 0 _ => apply T0_init
         | I : F0 _ ?i ?ct ?d |- F0 _ ?i ?ct ?d => exact I
         | I : F0 _ ?i ?ct ?d |- F0 _ (?i + 1) ?ct ?d =>
             apply (T1_skip _ i ct d I); [lia | unfold sk, ek; lia]
         | I : F0 _ ?i ?ct ?d |- F5 _ ?i ?ct ?d _ _ =>
             apply (T1_break _ i ct d I); [lia | unfold sk, ek; lia]
         | I : F5 _ ?i ?ct ?d ?qs ?qe |- F5 _ (?i + 1) ?ct ?d ?qs _ =>
             apply (T5_step _ i ct d qs qe I); [lia | lia | unfold sk, ek; lia]
         end.
  all: try match goal with
         | I : F5 _ ?i ?ct ?d ?qs ?qe, Hg : cmp_flt Gt ?qe' ?qs = _ |- F0 _ (?i + 1) _ _ =>
             let TC := fresh "TC" in
             pose proof (T_close l i ct d qs qe I ltac:(lia) ltac:(lia)
                           ltac:(unfold sk, ek; intros; lia) qe') as TC;
             unfold sk in TC;
             let A := fresh "A" in let B := fresh "B" in
             destruct TC as [A B];
             [ first [ solve [left; repeat split; first [lia | assumption | reflexivity]]
                     | solve [right; left; repeat split; first [lia | assumption | reflexivity]]
                     | solve [right; right; repeat split; first [lia | assumption | reflexivity]] ]
             | first [exact (A Hg) | exact (B Hg)] ]
         | I : F0 _ ?i ?ct ?d |- fix_post _ [_; Ar (A1 DBool ?w)] =>
             let E1 := fresh "E" in let E2 := fresh "E" in
             destruct (T_final l i ct d I ltac:(lia) ltac:(lia)) as [E1 E2];
             rewrite E1, E2; exists w; split; [lia | reflexivity]
         end.
Qed.

(* the public constructor sorts both arrays and then calls the kernel: the kernel run on the sorted
   arrays returns [mk_iset] *)
Lemma firsts_combine : forall a b : list Z, length a = length b -> firsts (combine a b) = a.
Proof.
  induction a as [|x r IH]; intros [|y s] H; simpl in *; try discriminate; [reflexivity|].
  f_equal. apply IH. lia.
Qed.
Lemma seconds_combine : forall a b : list Z, length a = length b -> seconds (combine a b) = b.
Proof.
  induction a as [|x r IH]; intros [|y s] H; simpl in *; try discriminate; [reflexivity|].
  f_equal. apply IH. lia.
Qed.

Corollary k__jitfix_iset_computes_mk_iset : forall ss es fuel, length ss = length es ->
  match run fuel k__jitfix_iset [Ar (A1 DFlt (qcells (sortZ ss))); Ar (A1 DFlt (qcells (sortZ es)))] with
  | Return rs => fix_post (mk_iset ss es) rs
  | OutOfFuel => True
  | _ => False
  end.
Proof.
  intros ss es fuel H.
  assert (L : length (sortZ ss) = length (sortZ es)).
  { unfold sortZ. rewrite <- (Permutation.Permutation_length (ZSort.Permuted_sort ss)).
    rewrite <- (Permutation.Permutation_length (ZSort.Permuted_sort es)). exact H. }
  pose proof (k__jitfix_iset_computes_model (combine (sortZ ss) (sortZ es)) fuel) as K.
  unfold fix_args in K. rewrite (firsts_combine _ _ L), (seconds_combine _ _ L) in K. exact K.
Qed.

(* not vacuous: with enough fuel the kernel does return (termination itself is not proved);
   a join, an exact touch trimmed by one microsecond, a zero-length and an inverted interval *)
Example k__jitfix_iset_runs :
  exists w, run 200 k__jitfix_iset
              (fix_args [(0, 5000); (3000, 9000); (9000, 20000); (21000, 21000); (30000, 25000); (40000, 50000)])
            = Return [Ar (A2 DFlt 3 2 (pcells [(0, 8000); (9000, 20000); (40000, 50000)])); Ar (A1 DBool w)].
Proof. eexists. vm_compute. reflexivity. Qed.

Print Assumptions k__jitfix_iset_computes_model.
Print Assumptions k__jitfix_iset_computes_mk_iset.
