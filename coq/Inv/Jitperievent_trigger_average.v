(* C15: _jitperievent_trigger_average (kernel with `i_start = i` initialised, see Inv/Findings.v).
   Inputs as _perievent_trigger_average passes them: count_array has one row per time stamp,
   feature time stamps and data have the same length (trailing axes of the data collapsed, see
   py2jit), starts/ends of equal length, windows two non-negative integers. *)
From Coq Require Import ZArith QArith String List Bool Lia.
From Verif Require Import Jit.Lang Jit.Interp Jit.Safety Jit.Tactics Jit.ArrayFacts
  Gen.Kernels Inv.Jitrestrict_with_count.
Import ListNotations.
Open Scope Z_scope.
Local Open Scope string_scope.

Definition Pre__jitperievent_trigger_average (args : list value) : Prop :=
  exists d1 d2 d3 d4 d5 d6 ta n ca tt da s e w binsize,
    args = [Ar (A1 d1 ta); Ar (A2 d2 (zlen ta) n ca); Ar (A1 d3 tt); Ar (A1 d4 da);
            Ar (A1 d5 s); Ar (A1 d6 e); Ar (A1 DInt w); Sc binsize]
    /\ 0 <= n /\ zlen da = zlen tt /\ zlen s = zlen e /\ zlen w = 2 /\ nonneg_ints w.

Definition ann__jitperievent_trigger_average (l : nat) : annot :=
  match l with
  | 0%nat => ACall Pre_jitrestrict_with_count [RA1 DInt; RA1 DInt] post_rwc
  | 1%nat => ALoop [("k", KInt); ("t", KInt); ("t_start", KAny); ("maxi", KAny); ("i", KAny);
                    ("lbound", KAny); ("rbound", KAny); ("i_start", KAny); ("i_stop", KAny);
                    ("v", KAny); ("checknan", KAny); ("n", KAny); ("j", KAny);
                    ("new_data_array", KArr); ("hankel_array", KArr)]
                   (fun st0 st => 0 <= getZ st "t" <= getZ st0 "T")
  | 3%nat => ALoop [("t", KInt); ("i", KInt); ("i_start", KInt); ("lbound", KAny); ("rbound", KAny);
                    ("i_stop", KAny); ("v", KAny); ("checknan", KAny); ("n", KAny); ("j", KAny);
                    ("new_data_array", KArr); ("hankel_array", KArr)]
                   (fun st0 st => getZ st0 "t_start" <= getZ st "t" <= getZ st0 "T"
                                  /\ getZ st0 "i" <= getZ st "i" < getZ st0 "maxi"
                                  /\ getZ st "i_start" = getZ st "i")
  | 4%nat => ALoop [("i_start", KInt); ("i_stop", KAny); ("v", KAny); ("checknan", KAny);
                    ("hankel_array", KArr)]
                   (fun st0 st => getZ st0 "i" <= getZ st "i_start" < getZ st0 "maxi")
  | 5%nat => ALoop [("i_stop", KInt)]
                   (fun st0 st => getZ st0 "i" <= getZ st "i_stop" <= getZ st0 "maxi")
  | 7%nat => ALoop [("i_start", KInt)]
                   (fun st0 st => getZ st0 "i_start" <= getZ st "i_start" < getZ st0 "maxi")
  | 9%nat => ALoop [("hankel_array", KArr)] (fun _ _ => True)
  | 10%nat => ALoop [("n", KAny); ("new_data_array", KArr)] (fun _ _ => True)
  | 11%nat => ALoop [("n", KInt); ("new_data_array", KArr)] (fun _ _ => True)
  | 13%nat => ALoop [("j", KAny); ("n", KAny); ("new_data_array", KArr); ("hankel_array", KArr)]
                    (fun _ _ => True)
  | 14%nat => ALoop [("j", KInt); ("n", KAny); ("new_data_array", KArr); ("hankel_array", KArr)]
                    (fun _ _ => True)
  | 15%nat => ALoop [("n", KInt); ("new_data_array", KArr)] (fun _ _ => True)
  | 16%nat => ALoop [("n", KInt); ("new_data_array", KArr)] (fun _ _ => True)
  | _ => ANone
  end.

Theorem k__jitperievent_trigger_average_safe : forall args, Pre__jitperievent_trigger_average args ->
  forall fuel, safe_outcome (run fuel k__jitperievent_trigger_average args).
Proof.
  intros args (d1 & d2 & d3 & d4 & d5 & d6 & ta & n & ca & tt & da & s & e & w & binsize & ->
               & Hn & Hda & Hse & Hw & Nw) fuel.
  safe_start k__jitperievent_trigger_average ann__jitperievent_trigger_average.
  rewrite find_rwc.
  wp_compute k__jitperievent_trigger_average ann__jitperievent_trigger_average.
  lazy beta iota delta [post_rwc].
  vc k__jitperievent_trigger_average ann__jitperievent_trigger_average.
  1: do 6 eexists; split; [reflexivity | assumption].
  1: intros fu vs Hp; exact (k_jitrestrict_with_count_spec fu vs Hp).
  all: try assumption.
  all: try solve [rewrite ?Hda; assumption].
  all: try solve [arr_arith].
  all: repeat match goal with
         | Hx : context [nthZ (cumsum_int 0 ?d) ?k] |- _ =>
             rewrite (nthZ_cumsum_int d 0 k) in Hx by lia; cbn [to_int] in Hx
         | |- context [nthZ (cumsum_int 0 ?d) ?k] => rewrite (nthZ_cumsum_int d 0 k) by lia; cbn [to_int]
         end.
  all: try solve [arr_arith].
  all: match goal with |- ?G => idtac "GOAL" G end.
Qed.
