(* TOTAL correctness of the translated jitunion: for all interval lists A and B there is a fuel with
   which the kernel text runs to completion, and it returns the arrays of the model [k_union A B].

   Termination (Jit/Total.v used as a termination-only calculus) reuses the safety annotation
   [ann_jitunion] of Inv/Jitunion.v VERBATIM; the only new input is one variant per while loop
   (the two cursors i and j climb to m and n).  It holds for all arrays with start/end pairs of equal
   length.  Combined with the partial-correctness theorem of Inv/Jitunion_func.v by
   [total_of_partial_eq]. *)
From Coq Require Import ZArith QArith String List Bool Lia.
From Verif Require Import Base.Prelude Model.Iset.
From Verif Require Import Jit.Lang Jit.Interp Jit.Safety Jit.Tactics Jit.Total Gen.Kernels.
From Verif Require Import Inv.Jitunion Inv.Jitrestrict_func Inv.Jitunion_func.
Import ListNotations.
Open Scope Z_scope.
Local Open Scope string_scope.

Definition vnt_term (l : nat) (st : store) : Z :=
  match l with
  | 0%nat | 5%nat => (getZ st "m" - getZ st "i") + (getZ st "n" - getZ st "j")
  | 1%nat | 12%nat => getZ st "n" - getZ st "j"
  | 11%nat => getZ st "m" - getZ st "i"
  | _ => 0
  end.

Theorem k_jitunion_terminates : forall args, Pre_jitunion args ->
  exists fuel, run fuel k_jitunion args <> OutOfFuel.
Proof.
  intros args (d1 & d2 & d3 & d4 & s1 & e1 & s2 & e2 & -> & H1 & H2).
  unfold run. term_start k_jitunion ann_jitunion vnt_term.
  vc k_jitunion ann_jitunion.
Qed.

Lemma jitunion_args_pre : forall A B, Pre_jitunion (jitunion_args A B).
Proof.
  intros A B. unfold jitunion_args, Pre_jitunion. do 8 eexists. split; [reflexivity|].
  rewrite !zlen_tcells, !zlen_firsts, !zlen_seconds. split; reflexivity.
Qed.

Theorem k_jitunion_total : forall A B,
  exists fuel, run fuel k_jitunion (jitunion_args A B) = Return (iset_arrays (k_union A B)).
Proof.
  intros A B. unfold run. apply total_of_partial_eq.
  - intros fuel. exact (k_jitunion_computes_model A B fuel).
  - apply k_jitunion_terminates. apply jitunion_args_pre.
Qed.

(* non-vacuity: on a concrete input the fuel is found by computation, and the value is the model's *)
Example k_jitunion_total_ex :
  exists fuel, run fuel k_jitunion (jitunion_args [(0, 5); (10, 20)] [(3, 12); (30, 40)])
               = Return (iset_arrays (k_union [(0, 5); (10, 20)] [(3, 12); (30, 40)])).
Proof. exists 30%nat. vm_compute. reflexivity. Qed.

Print Assumptions k_jitunion_terminates.
Print Assumptions k_jitunion_total.
