(* TOTAL correctness of the translated jitrestrict_with_count: for every tick array ts and every
   interval list ep with start <= end there is a fuel with which the kernel text runs to completion,
   and it returns the index array and the per-interval counts of the model.

   Termination (Jit/Total.v used as a termination-only calculus): arithmetic loop facts and one
   variant per while loop, for ALL arrays with starts and ends of equal length.  Combined with the
   partial-correctness theorem of Inv/Jitrestrict_with_count_func.v by [total_of_partial_eq]. *)
From Coq Require Import ZArith QArith String List Bool Lia.
From Verif Require Import Base.Prelude Model.Restrict.
From Verif Require Import Jit.Lang Jit.Interp Jit.Safety Jit.Tactics Jit.Total Gen.Kernels.
From Verif Require Import Inv.Jitrestrict_with_count Inv.Jitrestrict_func Inv.Jitrestrict_with_count_func.
Import ListNotations.
Open Scope Z_scope.
Local Open Scope string_scope.

Definition ann_term (l : nat) : annot :=
  match l with
  | 0%nat => ALoop [("k", KInt)] (fun st0 st => 0 <= getZ st "k")
  | 1%nat => ALoop [("k", KInt); ("t", KInt); ("x", KInt); ("ix", KArr); ("count", KArr)]
                   (fun st0 st => 0 <= getZ st "k" /\ 0 <= getZ st "x" <= getZ st "t"
                                  /\ getZ st "t" <= getZ st0 "n")
  | 2%nat => ALoop [("t", KInt)] (fun st0 st => getZ st0 "t" <= getZ st "t" <= getZ st0 "n")
  | 4%nat => ALoop [("k", KInt); ("t", KInt); ("x", KInt); ("ix", KArr); ("count", KArr)]
                   (fun st0 st => getZ st "k" = getZ st0 "k" /\ 0 <= getZ st "x" <= getZ st "t"
                                  /\ getZ st "t" <= getZ st0 "n")
  | _ => ANone
  end.

Definition vnt_term (l : nat) (st : store) : Z :=
  match l with
  | 0%nat | 1%nat => getZ st "m" - getZ st "k"
  | 2%nat | 4%nat => getZ st "n" - getZ st "t"
  | _ => 0
  end.

Theorem k_jitrestrict_with_count_terminates : forall args, Pre_jitrestrict_with_count args ->
  exists fuel, run fuel k_jitrestrict_with_count args <> OutOfFuel.
Proof.
  intros args (d1 & d2 & d3 & ta & s & e & -> & H).
  unfold run. term_start k_jitrestrict_with_count ann_term vnt_term.
  vc k_jitrestrict_with_count ann_term.
Qed.

Theorem k_jitrestrict_with_count_total : forall ts ep, Forall (fun I => fst I <= snd I) ep ->
  exists fuel, run fuel k_jitrestrict_with_count (jitrestrict_args ts ep)
               = Return [index_array (restrict_idx ts ep); index_array (restrict_cnt ts ep)].
Proof.
  intros ts ep Hep. unfold run. apply total_of_partial_eq.
  - intros fuel. exact (k_jitrestrict_with_count_computes_model ts ep fuel Hep).
  - apply k_jitrestrict_with_count_terminates. unfold jitrestrict_args, Pre_jitrestrict_with_count.
    do 6 eexists. split; [reflexivity|].
    rewrite !zlen_tcells, zlen_firsts, zlen_seconds. reflexivity.
Qed.

(* the total contract used by the callers of this kernel ([Total.callee_total]) *)
Corollary k_jitrestrict_with_count_callee_total :
  callee_total all_kernels k_jitrestrict_with_count Pre_jitrestrict_with_count shape_rwc post_rwc.
Proof.
  apply callee_total_of_meets.
  - intros fuel vs HP. exact (k_jitrestrict_with_count_spec fuel vs HP).
  - exact k_jitrestrict_with_count_terminates.
Qed.

(* non-vacuity: on a concrete input the fuel is found by computation, and the value is the model's *)
Example k_jitrestrict_with_count_total_ex :
  exists fuel, run fuel k_jitrestrict_with_count (jitrestrict_args [0; 5; 9; 12] [(-3, -1); (4, 6); (7, 7); (8, 20)])
               = Return [index_array (restrict_idx [0; 5; 9; 12] [(-3, -1); (4, 6); (7, 7); (8, 20)]);
                         index_array (restrict_cnt [0; 5; 9; 12] [(-3, -1); (4, 6); (7, 7); (8, 20)])].
Proof. exists 30%nat. vm_compute. reflexivity. Qed.

Print Assumptions k_jitrestrict_with_count_terminates.
Print Assumptions k_jitrestrict_with_count_total.
Print Assumptions k_jitrestrict_with_count_callee_total.
