(* C15: jitunion.  Invariant throughout: 0 <= i <= m, 0 <= j <= n, 0 <= ct <= i + j, and a write
   only happens when one more interval of set 1 or set 2 is still to be consumed. *)
From Coq Require Import ZArith QArith String List Bool Lia.
From Verif Require Import Jit.Lang Jit.Interp Jit.Safety Jit.Tactics Gen.Kernels.
Import ListNotations.
Open Scope Z_scope.
Local Open Scope string_scope.

Definition Pre_jitunion (args : list value) : Prop :=
  exists d1 d2 d3 d4 s1 e1 s2 e2,
    args = [Ar (A1 d1 s1); Ar (A1 d2 e1); Ar (A1 d3 s2); Ar (A1 d4 e2)]
    /\ zlen s1 = zlen e1 /\ zlen s2 = zlen e2.

Local Notation inv_union := (fun st0 st : store =>
  0 <= getZ st "i" <= getZ st0 "m" /\ 0 <= getZ st "j" <= getZ st0 "n"
  /\ 0 <= getZ st "ct" <= getZ st "i" + getZ st "j").

Definition ann_jitunion (l : nat) : annot :=
  match l with
  | 0%nat => ALoop [("i", KInt); ("j", KInt); ("ct", KInt); ("newstart", KArr); ("newend", KArr)]
                   inv_union
  | 1%nat => ALoop [("j", KInt); ("ct", KInt); ("newstart", KArr); ("newend", KArr)]
                   (fun st0 st => getZ st0 "j" <= getZ st "j" <= getZ st0 "n"
                                  /\ 0 <= getZ st "ct" <= getZ st "i" + getZ st "j")
  | 5%nat => ALoop [("i", KInt); ("j", KInt); ("newend", KArr)]
                   (fun st0 st => getZ st0 "i" <= getZ st "i" <= getZ st0 "m"
                                  /\ getZ st0 "j" <= getZ st "j" <= getZ st0 "n")
  | 11%nat => ALoop [("i", KInt); ("ct", KInt); ("newstart", KArr); ("newend", KArr)]
                   (fun st0 st => 0 <= getZ st "i" <= getZ st0 "m"
                                  /\ 0 <= getZ st "ct" <= getZ st "i" + getZ st "j")
  | 12%nat => ALoop [("j", KInt); ("ct", KInt); ("newstart", KArr); ("newend", KArr)]
                   (fun st0 st => 0 <= getZ st "j" <= getZ st0 "n"
                                  /\ 0 <= getZ st "ct" <= getZ st "i" + getZ st "j")
  | _ => ANone
  end.

Theorem k_jitunion_safe : forall args, Pre_jitunion args ->
  forall fuel, safe_outcome (run fuel k_jitunion args).
Proof.
  intros args (d1 & d2 & d3 & d4 & s1 & e1 & s2 & e2 & -> & H1 & H2) fuel.
  safe_start k_jitunion ann_jitunion. vc k_jitunion ann_jitunion.
Qed.
