(* C15: jitrestrict_with_count.  Besides safety, the contract its callers rely on (jitcount,
   _jitcontinuous_perievent, _jitperievent_trigger_average and the Python wrappers): the returned
   index array holds positions of time_array, the counts are non-negative integers, one per
   interval, and they add up to the number of returned positions. *)
From Coq Require Import ZArith QArith String List Bool Lia.
From Verif Require Import Jit.Lang Jit.Interp Jit.Safety Jit.Tactics Jit.ArrayFacts Gen.Kernels.
Import ListNotations.
Open Scope Z_scope.
Local Open Scope string_scope.

Definition Pre_jitrestrict_with_count (args : list value) : Prop :=
  exists d1 d2 d3 ta s e,
    args = [Ar (A1 d1 ta); Ar (A1 d2 s); Ar (A1 d3 e)] /\ zlen s = zlen e.

(* result contract, as a function of the arguments *)
Definition post_rwc (args rs : list value) : Prop :=
  match args, rs with
  | Ar (A1 _ ta) :: Ar (A1 _ s) :: _, [Ar (A1 _ ix); Ar (A1 _ cnt)] =>
      idx_ok (zlen ta) ix = true /\ zlen cnt = zlen s /\ cnt_inv cnt (zlen ix)
  | _, _ => False
  end.
Definition shape_rwc : list rkind := [RA1 DInt; RA1 DInt].

Definition ann_jitrestrict_with_count (l : nat) : annot :=
  match l with
  | 0%nat => ALoop [("k", KInt)] (fun st0 st => 0 <= getZ st "k")
  | 1%nat => ALoop [("k", KInt); ("t", KInt); ("x", KInt); ("ix", KArr); ("count", KArr)]
                   (fun st0 st => 0 <= getZ st "k" /\ 0 <= getZ st "x" <= getZ st "t"
                                  /\ ix_inv (getZ st0 "n") (getD st "ix") (getZ st "x")
                                  /\ cnt_inv (getD st "count") (getZ st "x"))
  | 2%nat => ALoop [("t", KInt)] (fun st0 st => getZ st0 "t" <= getZ st "t")
  | 4%nat => ALoop [("k", KInt); ("t", KInt); ("x", KInt); ("ix", KArr); ("count", KArr)]
                   (fun st0 st => getZ st "k" = getZ st0 "k" /\ 0 <= getZ st "x" <= getZ st "t"
                                  /\ ix_inv (getZ st0 "n") (getD st "ix") (getZ st "x")
                                  /\ cnt_inv (getD st "count") (getZ st "x"))
  | _ => ANone
  end.

Theorem k_jitrestrict_with_count_spec : forall fuel args, Pre_jitrestrict_with_count args ->
  match run fuel k_jitrestrict_with_count args with
  | Err _ => False
  | Return rs => conforms shape_rwc rs /\ post_rwc args rs
  | _ => True
  end.
Proof.
  intros fuel args (d1 & d2 & d3 & ta & s & e & -> & H).
  unfold run.
  apply run_sound with (ann := ann_jitrestrict_with_count)
    (R := fun rs => conforms shape_rwc rs /\ post_rwc [Ar (A1 d1 ta); Ar (A1 d2 s); Ar (A1 d3 e)] rs).
  wp_compute k_jitrestrict_with_count ann_jitrestrict_with_count.
  lazy beta iota delta [conforms shape_rwc post_rwc].
  vc k_jitrestrict_with_count ann_jitrestrict_with_count.
  all: try assumption.
  all: try apply ix_inv_0; try apply cnt_inv_zeros.
  all: try (apply ix_inv_step; [assumption | arith | arith]).
  all: try (apply cnt_inv_incr; [assumption | arith]).
  all: try match goal with
           | Hi : ix_inv _ ?d ?x |- idx_ok _ (pyslice ?d 0 ?x) = true => exact (proj2 Hi)
           | Hi : ix_inv _ ?d ?x |- cnt_inv _ (zlen (pyslice ?d 0 ?x)) =>
               rewrite (zlen_pyslice_0 d x (proj1 Hi)); assumption
           end.
Qed.

Theorem k_jitrestrict_with_count_safe : forall args, Pre_jitrestrict_with_count args ->
  forall fuel, safe_outcome (run fuel k_jitrestrict_with_count args).
Proof.
  intros args HP fuel. pose proof (k_jitrestrict_with_count_spec fuel args HP) as S.
  destruct (run fuel k_jitrestrict_with_count args); simpl; auto.
Qed.

Lemma find_rwc : find_func all_kernels "jitrestrict_with_count" = Some k_jitrestrict_with_count.
Proof. reflexivity. Qed.
