(* TOTAL correctness of the translated jitthreshold: for every time array ts, data array, interval list
   ep, threshold and method 0..3 with  length data = length ts  and  ep = [] -> ts = []  there is a fuel
   with which the kernel text runs to completion, and it returns the four arrays of the model
   (Model/Threshold.v: [kept_times], the kept data, and the two lists of [thr_go]).

   Combination ([Jit.Total.total_of_partial_eq] / [total_of_partial]) of
     - the partial refinement theorems of Inv/Jitthreshold_func.v
         [k_jitthreshold_computes_thr_go], [k_jitthreshold_computes_model], [k_jitthreshold_support],
     - the termination theorem [k_jitthreshold_terminates] of Inv/Jitthreshold_term.v,
     - [threshold_args_pre]: the encoded arguments satisfy the safety/termination precondition
       [Pre_jitthreshold] (data as long as time, starts as long as ends, method in 0..3).  It needs
       length data = length ts  and  0 <= method <= 3, both hypotheses of the partial theorems already; it
       does NOT need  ep = [] -> ts = []  (the kernel terminates on an empty support too; that hypothesis is
       about the returned value only).
   Hypotheses: exactly those of the partial theorems. *)
From Coq Require Import ZArith QArith String List Bool Lia.
From Verif Require Import Base.Prelude Model.Threshold Proofs.ThresholdProofs.
From Verif Require Import Jit.Lang Jit.Interp Jit.Safety Jit.Tactics Jit.ArrayFacts Jit.Total Gen.Kernels.
From Verif Require Import Inv.Jitrestrict_func Inv.Jitfix_iset_func Inv.Jitremove_nan_func.
From Verif Require Import Inv.Jitthreshold Inv.Jitthreshold_func Inv.Jitthreshold_term.
Import ListNotations.
Open Scope Z_scope.

Lemma threshold_args_pre : forall ts dd data ep thr method,
  length data = length ts -> 0 <= method <= 3 ->
  Pre_jitthreshold (threshold_args ts dd data ep thr method).
Proof.
  intros ts dd data ep thr method Hd Hm. unfold threshold_args, Pre_jitthreshold.
  do 10 eexists. split; [reflexivity|].
  rewrite !zlen_qcells, zlen_firsts, zlen_seconds. repeat split; try lia.
  unfold zlen. rewrite Hd. reflexivity.
Qed.

Theorem k_jitthreshold_thr_go_total : forall ts dd data ep thr method,
  length data = length ts -> 0 <= method <= 3 -> (ep = [] -> ts = []) ->
  exists fuel, run fuel k_jitthreshold (threshold_args ts dd data ep thr method)
               = Return (threshold_result ts dd data ep (keptl method thr data)).
Proof.
  intros ts dd data ep thr method Hd Hmeth Hne. unfold run. apply total_of_partial_eq.
  - intros fuel. exact (k_jitthreshold_computes_thr_go ts dd data ep thr method fuel Hd Hmeth Hne).
  - apply k_jitthreshold_terminates. apply threshold_args_pre; assumption.
Qed.

(* the postcondition of [k_jitthreshold_computes_model] is an equation for rs together with a fact about the
   model ([threshold_support] is the [combine] of the two lists); it is kept verbatim *)
Theorem k_jitthreshold_total : forall ts dd data ep thr method,
  length data = length ts -> 0 <= method <= 3 -> (ep = [] -> ts = []) ->
  exists fuel rs, run fuel k_jitthreshold (threshold_args ts dd data ep thr method) = Return rs /\
      let kp := keptl method thr data in
      let l := combine ts kp in
      rs = [Ar (A1 DFlt (qcells (kept_times l)));
            Ar (A1 dd (map fst (filter snd (combine data kp))));
            Ar (A1 DFlt (hcells (fst (thr_go None ep l))));
            Ar (A1 DFlt (hcells (snd (thr_go None ep l))))]
      /\ threshold_support ep l = combine (fst (thr_go None ep l)) (snd (thr_go None ep l)).
Proof.
  intros ts dd data ep thr method Hd Hmeth Hne. unfold run.
  apply (total_of_partial all_kernels k_jitthreshold (threshold_args ts dd data ep thr method)
           (fun rs => let kp := keptl method thr data in
                      let l := combine ts kp in
                      rs = [Ar (A1 DFlt (qcells (kept_times l)));
                            Ar (A1 dd (map fst (filter snd (combine data kp))));
                            Ar (A1 DFlt (hcells (fst (thr_go None ep l))));
                            Ar (A1 DFlt (hcells (snd (thr_go None ep l))))]
                      /\ threshold_support ep l = combine (fst (thr_go None ep l)) (snd (thr_go None ep l)))).
  - intros fuel. exact (k_jitthreshold_computes_model ts dd data ep thr method fuel Hd Hmeth Hne).
  - apply k_jitthreshold_terminates. apply threshold_args_pre; assumption.
Qed.

(* under the hypotheses of the C07 theorems (canonical support, strictly increasing time stamps, samples
   inside the support) the returned new_starts / new_ends are the starts / ends of [threshold_support] *)
Corollary k_jitthreshold_support_total : forall ts dd data ep thr method,
  length data = length ts -> 0 <= method <= 3 ->
  canonical ep -> strictly_increasing ts -> Forall (fun x => mem x ep = true) ts ->
  exists fuel, run fuel k_jitthreshold (threshold_args ts dd data ep thr method)
               = Return (let kp := keptl method thr data in
                         let l := combine ts kp in
                         [Ar (A1 DFlt (qcells (kept_times l)));
                          Ar (A1 dd (map fst (filter snd (combine data kp))));
                          Ar (A1 DFlt (hcells (firsts (threshold_support ep l))));
                          Ar (A1 DFlt (hcells (seconds (threshold_support ep l))))]).
Proof.
  intros ts dd data ep thr method Hd Hmeth Hc Hs Hin. unfold run. apply total_of_partial_eq.
  - intros fuel. exact (k_jitthreshold_support ts dd data ep thr method fuel Hd Hmeth Hc Hs Hin).
  - apply k_jitthreshold_terminates. apply threshold_args_pre; assumption.
Qed.

(* non-vacuity: on concrete inputs the fuel is found by computation, and the value is the model's *)
Example k_jitthreshold_thr_go_total_ex :
  exists fuel, run fuel k_jitthreshold
                 (threshold_args [0; 10; 20; 30] DFlt (map fcell [2; 0; 2; 2]) [(0, 40)] (fcell 1) 0)
               = Return (threshold_result [0; 10; 20; 30] DFlt (map fcell [2; 0; 2; 2]) [(0, 40)]
                                          (keptl 0 (fcell 1) (map fcell [2; 0; 2; 2]))).
Proof. exists 1000%nat. vm_compute. reflexivity. Qed.

Example k_jitthreshold_total_ex :
  exists fuel, run fuel k_jitthreshold
      (threshold_args [5; 21; 30; 35] DFlt (map fcell [2; 2; 2; 0]) [(0, 10); (20, 40)] (fcell 1) 2)
  = Return [Ar (A1 DFlt (qcells [5; 21; 30])); Ar (A1 DFlt (map fcell [2; 2; 2]));
            Ar (A1 DFlt (hcells [0; 42])); Ar (A1 DFlt (hcells [20; 65]))].
Proof. exists 1000%nat. vm_compute. reflexivity. Qed.

Print Assumptions k_jitthreshold_thr_go_total.
Print Assumptions k_jitthreshold_total.
Print Assumptions k_jitthreshold_support_total.
