(* Functional correctness of the TRANSLATED jitrestrict against the hand-written functional model
   Model/Restrict.v (the model the C03 theorems are about), by proof:

     for every time array ts (integer ticks) and every interval list ep with start <= end,
     running the translated kernel (Gen/Kernels.v) on the arrays of ts / starts ep / ends ep
     returns, whenever it returns, exactly the index array [restrict_idx ts ep].

   Partial correctness (the wp calculus does not prove termination; OutOfFuel is allowed).
   Times are embedded as the rationals [inject_Z t] (any strictly increasing embedding of the
   ticks gives the same comparisons; the test driver uses t / 10^9).
   Neither sortedness of ts nor separation of the intervals is needed for the equality with the
   model; combined with [restrict_idx_spec] it gives the specification for sorted ts and canonical ep. *)
From Coq Require Import ZArith QArith String List Bool Lia.
From Verif Require Import Base.Prelude Model.Restrict Proofs.BaseLemmas Proofs.RestrictProofs.
From Verif Require Import Jit.Lang Jit.Interp Jit.Safety Jit.Tactics Jit.ArrayFacts Gen.Kernels.
Import ListNotations.
Open Scope Z_scope.

(* ---------- embedding of tick arrays ---------- *)
Definition tcell (t : Z) : sval := VFlt (Some (inject_Z t)).
Definition tcells (l : list Z) : list sval := map tcell l.
Definition tk (l : list Z) (k : Z) : Z := nth (Z.to_nat k) l 0.

Lemma zlen_tcells : forall l, zlen (tcells l) = zlen l.
Proof. intros; unfold tcells; apply zlen_map. Qed.

Lemma nth_tcells : forall l k, 0 <= k < zlen l -> to_flt (nthZ (tcells l) k) = Some (inject_Z (tk l k)).
Proof.
  intros l k H. unfold nthZ, tcells, tk.
  rewrite (nth_indep _ dflt (tcell 0)) by (rewrite map_length; unfold zlen in H; lia).
  rewrite map_nth. reflexivity.
Qed.

Lemma Qle_bool_inj : forall a b, Qle_bool (inject_Z a) (inject_Z b) = (a <=? b).
Proof. intros. unfold Qle_bool, inject_Z. simpl. rewrite !Z.mul_1_r. reflexivity. Qed.

Lemma cmp_lt_inj : forall a b, cmp_flt Lt (Some (inject_Z a)) (Some (inject_Z b)) = (a <? b).
Proof. intros. unfold cmp_flt, cmp_q. rewrite Qle_bool_inj. rewrite Z.ltb_antisym. reflexivity. Qed.
Lemma cmp_gt_inj : forall a b, cmp_flt Gt (Some (inject_Z a)) (Some (inject_Z b)) = (b <? a).
Proof. intros. unfold cmp_flt, cmp_q. rewrite Qle_bool_inj. rewrite Z.ltb_antisym. reflexivity. Qed.
Lemma cmp_ge_inj : forall a b, cmp_flt Ge (Some (inject_Z a)) (Some (inject_Z b)) = (b <=? a).
Proof. intros. unfold cmp_flt, cmp_q. rewrite Qle_bool_inj. reflexivity. Qed.

Definition firsts (ep : iset) : list Z := map fst ep.
Definition seconds (ep : iset) : list Z := map snd ep.
Lemma zlen_firsts : forall ep, zlen (firsts ep) = zlen ep.
Proof. intros; unfold firsts; apply zlen_map. Qed.
Lemma zlen_seconds : forall ep, zlen (seconds ep) = zlen ep.
Proof. intros; unfold seconds; apply zlen_map. Qed.
Definition index_cells (l : list nat) : list sval := map (fun i => VInt (Z.of_nat i)) l.
#[local] Hint Rewrite zlen_tcells zlen_firsts zlen_seconds : zlen.

(* ---------- the model, indexed by positions ---------- *)
Section Model.
Variable ts : list Z.
Variable ep : iset.
Hypothesis ep_ok : Forall (fun I => fst I <= snd I) ep.

Definition sk (k : Z) : Z := tk (firsts ep) k.
Definition ek (k : Z) : Z := tk (seconds ep) k.

Definition rest (k t : Z) : list nat :=
  concat (restrict_scan (skipn (Z.to_nat k) ep) (Z.to_nat t) (skipn (Z.to_nat t) ts)).
Definition dl (s t : Z) : nat * list Z := drop_lt s (Z.to_nat t) (skipn (Z.to_nat t) ts).
Definition tl (e t : Z) : list nat * (nat * list Z) := take_le e (Z.to_nat t) (skipn (Z.to_nat t) ts).
Definition at_pos (t : Z) : nat * list Z := (Z.to_nat t, skipn (Z.to_nat t) ts).
Definition idxs (d : list sval) (x : Z) : list nat :=
  map (fun v => Z.to_nat (to_int v)) (firstn (Z.to_nat x) d).

Lemma skipn_cons_nth : forall (l : list Z) n, (n < length l)%nat -> skipn n l = nth n l 0 :: skipn (S n) l.
Proof.
  induction l as [|x r IH]; intros n H; simpl in H; [lia|].
  destruct n; [reflexivity|]. simpl. apply IH. lia.
Qed.

Lemma skipn_pos : forall t, 0 <= t < zlen ts ->
  skipn (Z.to_nat t) ts = tk ts t :: skipn (Z.to_nat (t + 1)) ts.
Proof.
  intros t H. replace (Z.to_nat (t + 1)) with (S (Z.to_nat t)) by lia.
  apply skipn_cons_nth. unfold zlen in H. lia.
Qed.

Lemma skipn_end : forall t, zlen ts <= t -> skipn (Z.to_nat t) ts = [].
Proof. intros t H. apply skipn_all2. unfold zlen in H. lia. Qed.

Lemma dl_step : forall s t, 0 <= t < zlen ts -> tk ts t < s -> dl s t = dl s (t + 1).
Proof.
  intros s t H Hlt. unfold dl. rewrite skipn_pos by assumption. simpl.
  assert (E : (tk ts t <? s) = true) by (apply Z.ltb_lt; assumption). rewrite E.
  replace (S (Z.to_nat t)) with (Z.to_nat (t + 1)) by lia. reflexivity.
Qed.
Lemma dl_stop : forall s t, 0 <= t < zlen ts -> s <= tk ts t -> dl s t = at_pos t.
Proof.
  intros s t H Hge. unfold dl, at_pos. rewrite skipn_pos by assumption. simpl.
  assert (E : (tk ts t <? s) = false) by (apply Z.ltb_ge; assumption). rewrite E. reflexivity.
Qed.
Lemma dl_end : forall s t, zlen ts <= t -> dl s t = at_pos t.
Proof. intros s t H. unfold dl, at_pos. rewrite skipn_end by assumption. reflexivity. Qed.

Lemma tl_step : forall e t, 0 <= t < zlen ts -> tk ts t <= e ->
  tl e t = (Z.to_nat t :: fst (tl e (t + 1)), snd (tl e (t + 1))).
Proof.
  intros e t H Hle. unfold tl. rewrite skipn_pos by assumption. simpl.
  assert (E : (tk ts t <=? e) = true) by (apply Z.leb_le; assumption). rewrite E.
  replace (S (Z.to_nat t)) with (Z.to_nat (t + 1)) by lia.
  destruct (take_le e (Z.to_nat (t + 1)) (skipn (Z.to_nat (t + 1)) ts)) as [ix st]. reflexivity.
Qed.
Lemma tl_stop : forall e t, 0 <= t < zlen ts -> e < tk ts t -> tl e t = ([], at_pos t).
Proof.
  intros e t H Hgt. unfold tl, at_pos. rewrite skipn_pos by assumption. simpl.
  assert (E : (tk ts t <=? e) = false) by (apply Z.leb_gt; assumption). rewrite E. reflexivity.
Qed.
Lemma tl_end : forall e t, zlen ts <= t -> tl e t = ([], at_pos t).
Proof. intros e t H. unfold tl, at_pos. rewrite skipn_end by assumption. reflexivity. Qed.

Lemma skipn_ep : forall k, 0 <= k < zlen ep ->
  skipn (Z.to_nat k) ep = (sk k, ek k) :: skipn (Z.to_nat (k + 1)) ep.
Proof.
  intros k H. unfold sk, ek, tk, firsts, seconds. replace (Z.to_nat (k + 1)) with (S (Z.to_nat k)) by lia.
  assert (Hn : (Z.to_nat k < length ep)%nat) by (unfold zlen in H; lia).
  generalize (Z.to_nat k) Hn. clear H Hn. induction ep as [|[s e] r IH]; intros n Hn; simpl in Hn; [lia|].
  destruct n; [reflexivity|]. simpl. apply IH; [|lia]. inversion ep_ok; assumption.
Qed.

(* one interval of the model, from a position *)
Lemma rest_unfold : forall k t, 0 <= k < zlen ep ->
  rest k t = (let '(i1, l1) := dl (sk k) t in
              let '(ix, (i2, l2)) := take_le (ek k) i1 l1 in
              ix ++ concat (restrict_scan (skipn (Z.to_nat (k + 1)) ep) i2 l2))%list.
Proof.
  intros k t H. unfold rest. rewrite skipn_ep by assumption. simpl. unfold dl.
  destruct (drop_lt (sk k) (Z.to_nat t) (skipn (Z.to_nat t) ts)) as [i1 l1].
  destruct (take_le (ek k) i1 l1) as [ix [i2 l2]]. reflexivity.
Qed.

Lemma rest_via : forall k t t1, 0 <= k < zlen ep -> dl (sk k) t = at_pos t1 -> 0 <= t1 ->
  forall t2, snd (tl (ek k) t1) = at_pos t2 -> 0 <= t2 ->
  rest k t = (fst (tl (ek k) t1) ++ rest (k + 1) t2)%list.
Proof.
  intros k t t1 Hk Hd H1 t2 Ht H2. rewrite rest_unfold by assumption. rewrite Hd. unfold at_pos.
  unfold tl in Ht. unfold tl.
  destruct (take_le (ek k) (Z.to_nat t1) (skipn (Z.to_nat t1) ts)) as [ix [i2 l2]].
  simpl in Ht. unfold at_pos in Ht. injection Ht as -> ->. reflexivity.
Qed.

Lemma scan_nil : forall (A : iset) i, concat (restrict_scan A i []) = [].
Proof. induction A as [|[s e] r IH]; intros i; simpl; [reflexivity|]. apply IH. Qed.

Lemma rest_end_ts : forall k t, zlen ts <= t -> rest k t = [].
Proof. intros k t H. unfold rest. rewrite skipn_end by assumption. apply scan_nil. Qed.
Lemma rest_end_ep : forall k t, zlen ep <= k -> rest k t = [].
Proof.
  intros k t H. unfold rest. rewrite skipn_all2 by (unfold zlen in H; lia). reflexivity.
Qed.

(* the leading scan of the kernel skips intervals that end before the first sample *)
Lemma rest_skip_first : forall k, 0 <= k < zlen ep -> 0 < zlen ts -> ek k < tk ts 0 ->
  rest k 0 = rest (k + 1) 0.
Proof.
  intros k Hk Hn Hlt.
  assert (Hs : sk k <= ek k).
  { unfold sk, ek, tk, firsts, seconds. assert (Hn' : (Z.to_nat k < length ep)%nat) by (unfold zlen in Hk; lia).
    rewrite (nth_indep _ 0 (fst (0, 0))) by (rewrite map_length; lia).
    rewrite (nth_indep (map snd ep) 0 (snd (0, 0))) by (rewrite map_length; lia).
    rewrite !map_nth. eapply Forall_forall in ep_ok; [exact ep_ok|]. apply nth_In. exact Hn'. }
  rewrite (rest_via k 0 0 Hk) with (t2 := 0); try lia.
  - rewrite tl_stop by lia. reflexivity.
  - apply dl_stop; lia.
  - rewrite tl_stop by lia. reflexivity.
Qed.

(* the filled prefix of the index buffer *)
Lemma idxs_0 : forall d, idxs d 0 = [].
Proof. reflexivity. Qed.

Lemma idxs_snoc : forall d x t, 0 <= x < zlen d -> 0 <= t ->
  idxs (updZ d x (VInt t)) (x + 1) = (idxs d x ++ [Z.to_nat t])%list.
Proof.
  intros d x t Hx Ht. unfold idxs, updZ.
  replace (Z.to_nat (x + 1)) with (S (Z.to_nat x)) by lia.
  rewrite (firstn_snoc _ (Z.to_nat x) dflt) by (rewrite upd_nth_length; unfold zlen in Hx; lia).
  rewrite firstn_upd_nth_ge by lia.
  rewrite nth_upd_nth_same by (unfold zlen in Hx; lia).
  rewrite map_app. reflexivity.
Qed.

(* what the kernel returns: ix[0:x] *)
Lemma result_cells : forall d x, nonneg_ints d -> 0 <= x <= zlen d ->
  pyslice d 0 x = index_cells (idxs d x).
Proof.
  intros d x N Hx. rewrite pyslice_0 by assumption. unfold idxs, index_cells. rewrite map_map.
  assert (F : Forall nn_int (firstn (Z.to_nat x) d)).
  { apply Forall_forall. intros v Hv. unfold nonneg_ints in N.
    eapply Forall_forall in N; [exact N|]. rewrite <- (firstn_skipn (Z.to_nat x) d).
    apply in_or_app; left; exact Hv. }
  induction F as [|v r [z [-> Hz]] Fr IH]; [reflexivity|]. simpl. rewrite <- IH. f_equal. f_equal. lia.
Qed.

(* ---------- the loop invariants (list parts; the arithmetic parts are written in the facts) ---------- *)
Definition target : list nat := restrict_idx ts ep.

Definition Inv0 (k : Z) : Prop := rest k 0 = target.
Definition Inv1 (k t x : Z) (d : list sval) : Prop :=
  nonneg_ints d /\ (idxs d x ++ rest k t)%list = target.
Definition Inv2 (k t0 t : Z) : Prop := dl (sk k) t = dl (sk k) t0.
Definition Inv4 (k t1 x1 : Z) (d1 : list sval) (t x : Z) (d : list sval) : Prop :=
  nonneg_ints d
  /\ (idxs d x ++ fst (tl (ek k) t))%list = (idxs d1 x1 ++ fst (tl (ek k) t1))%list
  /\ snd (tl (ek k) t) = snd (tl (ek k) t1).

(* ---------- transitions ---------- *)
Lemma T_inv0_init : Inv0 0.
Proof. reflexivity. Qed.

Lemma T_inv0_step : forall k, Inv0 k -> 0 <= k < zlen ep -> 0 < zlen ts -> ek k < tk ts 0 -> Inv0 (k + 1).
Proof. unfold Inv0. intros k H Hk Hn Hlt. rewrite <- rest_skip_first by assumption. exact H. Qed.

Lemma T_inv1_init : forall k n, Inv0 k -> Inv1 k 0 0 (zeros DInt n (VInt 0)).
Proof. unfold Inv0, Inv1. intros k n H. split; [apply nonneg_zeros | exact H]. Qed.

Lemma T_inv2_init : forall k t, Inv2 k t t.
Proof. reflexivity. Qed.

Lemma T_inv2_step : forall k t0 t, Inv2 k t0 t -> 0 <= t < zlen ts -> tk ts t < sk k -> Inv2 k t0 (t + 1).
Proof. unfold Inv2. intros k t0 t H Ht Hlt. rewrite <- dl_step by assumption. exact H. Qed.

Lemma T_inv4_init : forall k t0 x d t, Inv1 k t0 x d -> Inv4 k t x d t x d.
Proof. unfold Inv1, Inv4. intros k t0 x d t [N _]. repeat split; assumption || reflexivity. Qed.

Lemma T_inv4_step : forall k t1 x1 d1 t x d, Inv4 k t1 x1 d1 t x d ->
  0 <= t < zlen ts -> tk ts t <= ek k -> 0 <= x < zlen d ->
  Inv4 k t1 x1 d1 (t + 1) (x + 1) (updZ d x (VInt t)).
Proof.
  unfold Inv4. intros k t1 x1 d1 t x d [N [E1 E2]] Ht Hle Hx.
  rewrite (tl_step (ek k) t Ht Hle) in E1, E2. simpl in E1, E2. repeat split.
  - apply nonneg_updZ; [assumption | lia].
  - rewrite idxs_snoc by lia. rewrite <- app_assoc. exact E1.
  - exact E2.
Qed.

(* after the two inner loops of interval k *)
Lemma T_inv1_next : forall k t0 x0 d0 t1 t x d,
  Inv1 k t0 x0 d0 -> 0 <= k < zlen ep -> 0 <= t0 -> 0 <= t1 -> 0 <= t ->
  Inv2 k t0 t1 -> (zlen ts <= t1 \/ (t1 < zlen ts /\ sk k <= tk ts t1)) ->
  Inv4 k t1 x0 d0 t x d -> (zlen ts <= t \/ (t < zlen ts /\ ek k < tk ts t)) ->
  Inv1 (k + 1) t x d.
Proof.
  unfold Inv1, Inv2, Inv4. intros k t0 x0 d0 t1 t x d [N0 E0] Hk H0 H1 Ht I2 X2 [N [E1 E2]] X4.
  assert (D : dl (sk k) t0 = at_pos t1).
  { rewrite <- I2. destruct X2 as [X2|[X2 X2']]; [apply dl_end | apply dl_stop]; lia. }
  assert (T : tl (ek k) t = ([], at_pos t)).
  { destruct X4 as [X4|[X4 X4']]; [apply tl_end | apply tl_stop]; lia. }
  rewrite T in E1, E2. simpl in E1, E2. rewrite app_nil_r in E1.
  split; [exact N|].
  rewrite (rest_via k t0 t1 Hk D H1 t (eq_sym E2) Ht) in E0.
  rewrite E1. rewrite <- app_assoc. exact E0.
Qed.

Lemma T_final : forall k t x d, Inv1 k t x d -> zlen ep <= k \/ zlen ts <= t -> 0 <= x <= zlen d ->
  pyslice d 0 x = index_cells target.
Proof.
  unfold Inv1. intros k t x d [N E] X Hx. rewrite result_cells by assumption. f_equal.
  destruct X as [X|X]; [rewrite rest_end_ep in E by assumption | rewrite rest_end_ts in E by assumption];
    rewrite app_nil_r in E; exact E.
Qed.

End Model.

Local Open Scope string_scope.

Definition ann_func (ts : list Z) (ep : iset) (l : nat) : annot :=
  match l with
  | 0%nat => ALoop [("k", KInt)]
                   (fun st0 st => 0 <= getZ st "k" <= zlen ep /\ Inv0 ts ep (getZ st "k"))
  | 1%nat => ALoop [("k", KInt); ("t", KInt); ("x", KInt); ("ix", KArr)]
                   (fun st0 st => 0 <= getZ st "k" <= zlen ep /\ 0 <= getZ st "x" <= getZ st "t"
                                  /\ getZ st "t" <= zlen ts
                                  /\ Inv1 ts ep (getZ st "k") (getZ st "t") (getZ st "x") (getD st "ix"))
  | 2%nat => ALoop [("t", KInt)]
                   (fun st0 st => getZ st0 "t" <= getZ st "t" <= zlen ts
                                  /\ Inv2 ts ep (getZ st0 "k") (getZ st0 "t") (getZ st "t"))
  | 4%nat => ALoop [("k", KInt); ("t", KInt); ("x", KInt); ("ix", KArr)]
                   (fun st0 st => getZ st "k" = getZ st0 "k"
                                  /\ getZ st0 "t" <= getZ st "t" <= zlen ts
                                  /\ getZ st0 "x" <= getZ st "x"
                                  /\ getZ st "x" - getZ st0 "x" <= getZ st "t" - getZ st0 "t"
                                  /\ Inv4 ts ep (getZ st0 "k") (getZ st0 "t") (getZ st0 "x") (getD st0 "ix")
                                          (getZ st "t") (getZ st "x") (getD st "ix"))
  | _ => ANone
  end.

Definition jitrestrict_args (ts : list Z) (ep : iset) : list value :=
  [Ar (A1 DFlt (tcells ts)); Ar (A1 DFlt (tcells (firsts ep))); Ar (A1 DFlt (tcells (seconds ep)))].

Definition index_array (l : list nat) : value := Ar (A1 DInt (index_cells l)).

Theorem k_jitrestrict_computes_restrict_idx : forall ts ep fuel,
  Forall (fun I => fst I <= snd I) ep ->
  match run fuel k_jitrestrict (jitrestrict_args ts ep) with
  | Return rs => rs = [index_array (restrict_idx ts ep)]
  | OutOfFuel => True
  | _ => False
  end.
Proof.
  intros ts ep fuel Hep.
  pose proof (run_sound all_kernels (ann_func ts ep) k_jitrestrict
                (fun rs => rs = [index_array (restrict_idx ts ep)]) (jitrestrict_args ts ep) fuel) as RS.
  unfold run.
  match type of RS with ?P -> _ => assert (W : P) end.
  2: { specialize (RS W). unfold Interp.run in *.
       destruct (exec all_kernels fuel (fbody k_jitrestrict) (init_store k_jitrestrict (jitrestrict_args ts ep)));
         simpl in *; auto. }
  clear RS. unfold jitrestrict_args, index_array.
  wp_compute k_jitrestrict ann_func.
  vc k_jitrestrict ann_func.
  all: try solve [arith].
  (* float comparisons of embedded ticks are integer comparisons *)
  all: repeat match goal with
         | Hc : context [to_flt (nthZ (tcells ?l) ?k)] |- _ =>
             rewrite (nth_tcells l k) in Hc by (autorewrite with zlen; lia)
         end.
  all: repeat match goal with
         | Hc : context [cmp_flt Lt (Some (inject_Z _)) (Some (inject_Z _))] |- _ => rewrite cmp_lt_inj in Hc
         | Hc : context [cmp_flt Gt (Some (inject_Z _)) (Some (inject_Z _))] |- _ => rewrite cmp_gt_inj in Hc
         | Hc : context [cmp_flt Ge (Some (inject_Z _)) (Some (inject_Z _))] |- _ => rewrite cmp_ge_inj in Hc
         end.
  all: repeat match goal with
         | Hc : (_ <? _)%Z = _ |- _ => b2p Hc
         | Hc : (_ <=? _)%Z = _ |- _ => b2p Hc
         end.
  all: autorewrite with zlen in *.
  all: repeat match goal with Hc : ?a = ?b |- _ => is_var a; is_var b; subst a end.
  all: try match goal with
         | |- Inv0 _ _ (_ + 1) => apply T_inv0_step; try assumption; unfold ek; lia
         | |- Inv1 _ _ _ 0 0 (zeros _ _ _) => apply T_inv1_init; assumption
         | |- Inv4 _ _ ?k ?t ?x ?d ?t ?x ?d => eapply T_inv4_init; eassumption
         | |- Inv2 _ _ _ _ (_ + 1) => apply T_inv2_step; [assumption | lia | unfold sk; lia]
         | |- Inv4 _ _ _ _ _ _ (_ + 1) (_ + 1) (updZ _ _ _) =>
             apply T_inv4_step; [assumption | lia | unfold ek; lia | lia]
         end.
  all: try apply zlen_nonneg.
  all: try match goal with
         | I1 : Inv1 _ _ ?k ?t0 ?x0 ?d0, I2 : Inv2 _ _ ?k ?t0 ?t1, I4 : Inv4 _ _ ?k ?t1 ?x0 ?d0 ?t ?x ?d
           |- Inv1 _ _ (?k + 1) ?t ?x ?d =>
             apply (T_inv1_next ts ep Hep k t0 x0 d0 t1 t x d I1);
             [ lia | lia | lia | lia | exact I2
             | unfold sk; first [left; lia | right; split; lia]
             | exact I4
             | unfold ek; first [left; lia | right; split; lia] ]
         end.
  all: try (f_equal; f_equal; f_equal).
  all: try match goal with
         | I1 : Inv1 _ _ ?k ?t ?x ?d |- pyslice ?d 0 ?x = _ =>
             apply (T_final ts ep k t x d I1); [first [left; lia | right; lia] | lia]
         | I1 : Inv1 _ _ ?k ?t0 ?x0 ?d0, I2 : Inv2 _ _ ?k ?t0 ?t1, I4 : Inv4 _ _ ?k ?t1 ?x0 ?d0 ?t ?x ?d
           |- pyslice ?d 0 ?x = _ =>
             apply (T_final ts ep (k + 1) t x d);
             [ apply (T_inv1_next ts ep Hep k t0 x0 d0 t1 t x d I1);
               [ lia | lia | lia | lia | exact I2
               | unfold sk; first [left; lia | right; split; lia]
               | exact I4
               | unfold ek; first [left; lia | right; split; lia] ]
             | first [left; lia | right; lia] | lia ]
         end.
Qed.

(* with the specification of the model (C03): for sorted time stamps and a canonical interval set the
   translated kernel returns the positions of the samples lying in the set *)
Lemma canonical_proper : forall ep, canonical ep -> Forall (fun I => fst I <= snd I) ep.
Proof.
  induction ep as [|[s e] r IH]; intros H; constructor.
  - simpl in *. lia.
  - apply IH. eapply canonical_tail. exact H.
Qed.

Corollary k_jitrestrict_spec : forall ts ep fuel, sortedZ ts -> canonical ep ->
  match run fuel k_jitrestrict (jitrestrict_args ts ep) with
  | Return rs => rs = [index_array (filter_idx (fun x => mem x ep) 0%nat ts)]
  | OutOfFuel => True
  | _ => False
  end.
Proof.
  intros ts ep fuel Hs Hc.
  pose proof (k_jitrestrict_computes_restrict_idx ts ep fuel (canonical_proper ep Hc)) as H.
  rewrite (restrict_idx_spec ts ep Hs Hc) in H. exact H.
Qed.

(* not vacuous: with enough fuel the kernel does return (termination itself is not proved) *)
Example k_jitrestrict_runs :
  run 100 k_jitrestrict (jitrestrict_args [0; 5; 9; 12] [(4, 6); (8, 20)])
  = Return [index_array [1; 2; 3]%nat].
Proof. vm_compute. reflexivity. Qed.
