(* C15: _jitbin_array, as called by jitbin_array: countin are the per-epoch counts returned by
   jitrestrict_with_count (non-negative integers, one per epoch, adding up to the number of samples),
   time_array/data_array the restricted samples (trailing axes of data collapsed, see py2jit),
   bin_size > 0. *)
From Coq Require Import ZArith QArith String List Bool Lia.
From Verif Require Import Jit.Lang Jit.Interp Jit.Safety Jit.Tactics Jit.ArrayFacts Jit.FloatFacts
  Gen.Kernels.
Import ListNotations.
Open Scope Z_scope.
Local Open Scope string_scope.

Definition Pre__jitbin_array (args : list value) : Prop :=
  exists d1 d2 c ta da s e q,
    args = [Ar (A1 DInt c); Ar (A1 d1 ta); Ar (A1 d2 da); Ar (A1 DFlt s); Ar (A1 DFlt e);
            Sc (VFlt (Some q))]
    /\ zlen s = zlen e /\ (0 < q)%Q /\ zlen c = zlen s /\ cnt_inv c (zlen ta) /\ zlen da = zlen ta.

Definition ann__jitbin_array (l : nat) : annot :=
  match l with
  | 0%nat => ALoop [("k", KInt); ("nb_bins", KArr)]
                   (fun st0 st => nonneg_ints (getD st "nb_bins"))
  | 2%nat => ALoop [("k", KInt); ("t", KInt); ("b", KInt); ("maxb", KAny); ("maxt", KAny);
                    ("lbound", KAny); ("xpos", KAny); ("rbound", KAny);
                    ("bins", KArr); ("cnt", KArr); ("average", KArr)]
                   (fun st0 st => 0 <= getZ st "k" <= getZ st0 "m"
                                  /\ getZ st "t" = psum (getD st0 "countin") (getZ st "k")
                                  /\ 0 <= getZ st "b" <= psum (getD st0 "nb_bins") (getZ st "k"))
  | 3%nat => ALoop [("b", KInt); ("t", KInt); ("lbound", KSc); ("xpos", KAny); ("rbound", KAny);
                    ("bins", KArr); ("cnt", KArr); ("average", KArr)]
                   (fun st0 st => getZ st0 "b" <= getZ st "b" <= getZ st0 "maxb"
                                  /\ getZ st0 "t" <= getZ st "t" <= getZ st0 "maxt")
  | 5%nat => ALoop [("t", KInt); ("cnt", KArr); ("average", KArr)]
                   (fun st0 st => getZ st0 "t" <= getZ st "t" <= getZ st0 "maxt")
  | _ => ANone
  end.

Theorem k__jitbin_array_safe : forall args, Pre__jitbin_array args ->
  forall fuel, safe_outcome (run fuel k__jitbin_array args).
Proof.
  intros args (d1 & d2 & c & ta & da & s & e & q & -> & H & Hq & Hc & Hcnt & Hda) fuel.
  safe_start k__jitbin_array ann__jitbin_array.
  vc k__jitbin_array ann__jitbin_array.
  all: try solve [arr_arith].
  all: try (apply nonneg_zeros).
  all: try (apply nonneg_updZ; [assumption|]; try lia).
  all: try (change (binop_flt Div ?a ?b) with (VFlt (fdiv a b)); apply nb_bins_nonneg; assumption).
  all: try (rewrite psum_0; lia).
  all: try (apply zlen_pyslice_eq; arith).
Qed.
