(* Sanity of the termination layer on a realistic defect: jitrestrict with the cursor advance
   `t += 1` of its first inner loop (label 2, source line 26) deleted.
   - the mutant is still SAFE (the safety annotations of Inv/Jitrestrict.v prove it unchanged:
     partial correctness cannot see the defect);
   - on a two-sample input it exhausts any fuel tried (here 4000) - and provably every fuel;
   - consequently no annotation/variant oracle gives it a total wp ([twp] is sound). *)
From Coq Require Import ZArith QArith String List Bool Lia.
From Verif Require Import Base.Prelude.
From Verif Require Import Jit.Lang Jit.Interp Jit.Safety Jit.Tactics Jit.Total Gen.Kernels.
From Verif Require Import Inv.Jitrestrict Inv.Jitrestrict_func.
Import ListNotations.
Open Scope Z_scope.
Local Open Scope string_scope.

Definition loop2_mutant : stmt :=
  SWhile 2%nat (ECmp Lt (EVar "t") (EVar "n"))
   (seq [SIf 3%nat (ECmp Ge (ERead1 2%nat "time_array" (EVar "t")) (ERead1 3%nat "starts" (EVar "k")))
           (seq [SBreak]) (SSkip);
         SSkip (* was: SAssign "t" (EBin Add (EVar "t") (EInt 1)) *)]).

Definition k_jitrestrict_mutant : func :=
  mkFunc "jitrestrict"
  ["time_array"; "starts"; "ends"]
  ["n"; "m"; "ix"; "k"; "t"; "x"; "_t0"]
  (seq [SAssign "n" (ELen "time_array");
SAssign "m" (ELen "starts");
SNew1 "ix" DInt (EVar "n") (EInt (0)%Z);
SAssign "k" (EInt (0)%Z);
SAssign "t" (EInt (0)%Z);
SAssign "x" (EInt (0)%Z);
SWhile 0%nat (EAnd (ECmp Lt (EVar "k") (EVar "m")) (EAnd (ECmp Lt (EVar "t") (EVar "n")) (ECmp Lt (ERead1 0%nat "ends" (EVar "k")) (ERead1 1%nat "time_array" (EVar "t")))))
 (seq [SAssign "k" (EBin Add (EVar "k") (EInt (1)%Z))]);
SWhile 1%nat (ECmp Lt (EVar "k") (EVar "m"))
 (seq [loop2_mutant;
SWhile 4%nat (ECmp Lt (EVar "t") (EVar "n"))
 (seq [SIf 5%nat (ECmp Gt (ERead1 4%nat "time_array" (EVar "t")) (ERead1 5%nat "ends" (EVar "k")))
 (seq [SAssign "k" (EBin Add (EVar "k") (EInt (1)%Z));
SBreak])
 (seq [SStore1 6%nat "ix" (EVar "x") (EVar "t");
SAssign "x" (EBin Add (EVar "x") (EInt (1)%Z))]);
SAssign "t" (EBin Add (EVar "t") (EInt (1)%Z))]);
SIf 6%nat (ECmp Eq (EVar "k") (EVar "m"))
 (seq [SBreak])
 (SSkip);
SIf 7%nat (ECmp Eq (EVar "t") (EVar "n"))
 (seq [SBreak])
 (SSkip)]);
SSlice "_t0" "ix" (EInt (0)%Z) (EVar "x");
SReturn [AVar "_t0"]]).

(* the partial calculus accepts the mutant with the unchanged safety annotations *)
Theorem mutant_safe : forall args, Pre_jitrestrict args ->
  forall fuel, safe_outcome (run fuel k_jitrestrict_mutant args).
Proof.
  intros args (d1 & d2 & d3 & ta & s & e & -> & H) fuel.
  unfold run; apply run_safe with (ann := ann_jitrestrict) (R := fun _ : list value => True).
  lazy beta iota zeta delta [loop2_mutant k_jitrestrict_mutant].
  wp_compute k_jitrestrict_mutant ann_jitrestrict. vc k_jitrestrict_mutant ann_jitrestrict.
Qed.

(* the first sample 0 lies before the interval (4, 6): the scan for its start never advances *)
Definition bad_args : list value := jitrestrict_args [0; 5] [(4, 6)].

Example mutant_spins_4000 : run 4000 k_jitrestrict_mutant bad_args = OutOfFuel.
Proof. vm_compute. reflexivity. Qed.

(* the original kernel returns on the same input *)
Example original_returns : exists fuel rs, run fuel k_jitrestrict bad_args = Return rs.
Proof. exists 20%nat. eexists. vm_compute. reflexivity. Qed.

(* every fuel: the state reached at the head of loop 2 is a fixed point of its body *)
Definition spin_state : store :=
  [("time_array", Ar (A1 DFlt (tcells [0; 5]))); ("starts", Ar (A1 DFlt (tcells [4])));
   ("ends", Ar (A1 DFlt (tcells [6]))); ("n", Sc (VInt 2)); ("m", Sc (VInt 1));
   ("ix", Ar (A1 DInt [VInt 0; VInt 0])); ("k", Sc (VInt 0)); ("t", Sc (VInt 0));
   ("x", Sc (VInt 0)); ("_t0", Undef)].

Lemma loop2_spins : forall fuel, exec all_kernels fuel loop2_mutant spin_state = OutOfFuel.
Proof.
  induction fuel as [|f IH]; [reflexivity|].
  change (exec all_kernels (S f) loop2_mutant spin_state)
    with (match exec all_kernels f (seq [SIf 3%nat (ECmp Ge (ERead1 2%nat "time_array" (EVar "t")) (ERead1 3%nat "starts" (EVar "k")))
                                           (seq [SBreak]) (SSkip); SSkip]) spin_state with
          | Normal st' => exec all_kernels f loop2_mutant st'
          | Break st' => Normal st'
          | o => o
          end).
  destruct f as [|[|[|f2]]]; [reflexivity | reflexivity | reflexivity |].
  change (exec all_kernels (S (S (S f2))) (seq [SIf 3%nat (ECmp Ge (ERead1 2%nat "time_array" (EVar "t")) (ERead1 3%nat "starts" (EVar "k")))
                                           (seq [SBreak]) (SSkip); SSkip]) spin_state)
    with (Normal spin_state).
  exact IH.
Qed.

Theorem mutant_has_no_total_wp : forall ann vnt Q, ~ twp all_kernels ann vnt loop2_mutant Q spin_state.
Proof.
  intros ann vnt Q H. destruct (twp_sound _ _ _ _ _ _ H) as [fuel P].
  rewrite loop2_spins in P. exact P.
Qed.

Print Assumptions mutant_safe.
Print Assumptions mutant_has_no_total_wp.
