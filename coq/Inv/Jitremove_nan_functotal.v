(* TOTAL correctness of the translated jitremove_nan: for every NON-EMPTY time array ts and every mask kp
   of kept rows of the same length there is a fuel with which the kernel text runs to completion, and it
   returns the two arrays (starts, ends) of  raw_runs (combine ts kp)  (Inv/Jitremove_nan_func.v; the runs
   of kept rows before the caller's singleton rule, [dropna_support] = map widen1 of them).

   Combination ([Jit.Total.total_of_partial_eq] / [total_of_partial]) of
     - the partial refinement theorems of Inv/Jitremove_nan_func.v
         [k_jitremove_nan_computes_raw_runs] (any embedding of the ticks, any dtype),
         [k_jitremove_nan_computes_model]    (tick encoding [qtick], with the model fact),
     - the termination theorem [k_jitremove_nan_terminates] of Inv/Jitremove_nan_term.v,
     - [remove_nan_args_pre]: the encoded arguments satisfy the safety/termination precondition
       [Pre_jitremove_nan] (index_nan as long as the time array, at least one row).  It needs
       length kp = length ts  and  ts <> [], the two hypotheses of the partial theorems.
   Hypotheses: exactly those of the partial theorems. *)
From Coq Require Import ZArith QArith String List Bool Lia.
From Verif Require Import Base.Prelude Model.Threshold Proofs.ThresholdProofs.
From Verif Require Import Jit.Lang Jit.Interp Jit.Safety Jit.Tactics Jit.ArrayFacts Jit.Total Gen.Kernels.
From Verif Require Import Inv.Jitrestrict_func Inv.Jitfix_iset_func.
From Verif Require Import Inv.Jitremove_nan Inv.Jitremove_nan_func Inv.Jitremove_nan_term.
Import ListNotations.
Open Scope Z_scope.

Lemma remove_nan_args_pre : forall dt cell ts kp,
  length kp = length ts -> ts <> [] -> Pre_jitremove_nan (remove_nan_args dt cell ts kp).
Proof.
  intros dt cell ts kp Hlen Hne. unfold remove_nan_args, Pre_jitremove_nan.
  do 4 eexists. split; [reflexivity|].
  rewrite zlen_nan_cells, zlen_cells. split.
  - unfold zlen. rewrite Hlen. reflexivity.
  - destruct ts; [contradiction | rewrite zlen_cons; pose proof (zlen_nonneg ts); lia].
Qed.

Lemma remove_nan_qargs_pre : forall ts kp,
  length kp = length ts -> ts <> [] -> Pre_jitremove_nan (remove_nan_qargs ts kp).
Proof. intros ts kp Hlen Hne. exact (remove_nan_args_pre DFlt qcell ts kp Hlen Hne). Qed.

Theorem k_jitremove_nan_raw_runs_total : forall dt cell ts kp,
  length kp = length ts -> ts <> [] ->
  exists fuel, run fuel k_jitremove_nan (remove_nan_args dt cell ts kp)
               = Return (remove_nan_result dt cell (raw_runs (combine ts kp))).
Proof.
  intros dt cell ts kp Hlen Hne. unfold run. apply total_of_partial_eq.
  - intros fuel. exact (k_jitremove_nan_computes_raw_runs dt cell ts kp fuel Hlen Hne).
  - apply k_jitremove_nan_terminates. apply remove_nan_args_pre; assumption.
Qed.

(* the postcondition of [k_jitremove_nan_computes_model] is an equation for rs together with a fact about the
   model ([dropna_support] is the caller's singleton rule applied to the runs); it is kept verbatim *)
Theorem k_jitremove_nan_total : forall ts kp,
  length kp = length ts -> ts <> [] ->
  exists fuel rs, run fuel k_jitremove_nan (remove_nan_qargs ts kp) = Return rs /\
      let R := raw_runs (combine ts kp) in
      rs = [Ar (A1 DFlt (qcells (firsts R))); Ar (A1 DFlt (qcells (seconds R)))]
      /\ dropna_support (combine ts kp) = map widen1 R.
Proof.
  intros ts kp Hlen Hne. unfold run.
  apply (total_of_partial all_kernels k_jitremove_nan (remove_nan_qargs ts kp)
           (fun rs => let R := raw_runs (combine ts kp) in
                      rs = [Ar (A1 DFlt (qcells (firsts R))); Ar (A1 DFlt (qcells (seconds R)))]
                      /\ dropna_support (combine ts kp) = map widen1 R)).
  - intros fuel. exact (k_jitremove_nan_computes_model ts kp fuel Hlen Hne).
  - apply k_jitremove_nan_terminates. apply remove_nan_qargs_pre; assumption.
Qed.

(* non-vacuity: on a concrete input the fuel is found by computation, and the value is the model's *)
Example k_jitremove_nan_total_ex :
  exists fuel, run fuel k_jitremove_nan (remove_nan_qargs [0; 10; 20; 30; 40] [true; true; false; true; false])
               = Return (let R := raw_runs (combine [0; 10; 20; 30; 40] [true; true; false; true; false]) in
                         [Ar (A1 DFlt (qcells (firsts R))); Ar (A1 DFlt (qcells (seconds R)))]).
Proof. exists 100%nat. vm_compute. reflexivity. Qed.

Print Assumptions k_jitremove_nan_raw_runs_total.
Print Assumptions k_jitremove_nan_total.
