(* C15: jitcount.  Inputs as Ts.count passes them: float arrays, starts/ends of equal length,
   bin_size > 0.  The bins buffer has sum(nb_bins) cells; b stays below the prefix sum of nb_bins,
   t below the prefix sum of the per-epoch counts returned by jitrestrict_with_count. *)
From Coq Require Import ZArith QArith String List Bool Lia.
From Verif Require Import Jit.Lang Jit.Interp Jit.Safety Jit.Tactics Jit.ArrayFacts Jit.FloatFacts
  Gen.Kernels Inv.Jitrestrict_with_count.
Import ListNotations.
Open Scope Z_scope.
Local Open Scope string_scope.

Definition Pre_jitcount (args : list value) : Prop :=
  exists d1 ta s e q,
    args = [Ar (A1 d1 ta); Ar (A1 DFlt s); Ar (A1 DFlt e); Sc (VFlt (Some q))]
    /\ zlen s = zlen e /\ (0 < q)%Q.

Definition ann_jitcount (l : nat) : annot :=
  match l with
  | 0%nat => ACall Pre_jitrestrict_with_count [RA1 DInt; RA1 DInt] post_rwc
  | 1%nat => ALoop [("k", KInt); ("nb_bins", KArr)]
                   (fun st0 st => nonneg_ints (getD st "nb_bins"))
  | 3%nat => ALoop [("k", KInt); ("t", KInt); ("b", KInt); ("maxb", KAny); ("maxt", KAny);
                    ("lbound", KAny); ("xpos", KAny); ("rbound", KAny); ("bins", KArr); ("cnt", KArr)]
                   (fun st0 st => 0 <= getZ st "k" <= getZ st0 "m"
                                  /\ getZ st "t" = psum (getD st0 "countin") (getZ st "k")
                                  /\ 0 <= getZ st "b" <= psum (getD st0 "nb_bins") (getZ st "k"))
  | 4%nat => ALoop [("b", KInt); ("t", KInt); ("lbound", KSc); ("xpos", KAny); ("rbound", KAny);
                    ("bins", KArr); ("cnt", KArr)]
                   (fun st0 st => getZ st0 "b" <= getZ st "b" <= getZ st0 "maxb"
                                  /\ getZ st0 "t" <= getZ st "t" <= getZ st0 "maxt")
  | 6%nat => ALoop [("t", KInt); ("cnt", KArr)]
                   (fun st0 st => getZ st0 "t" <= getZ st "t" <= getZ st0 "maxt")
  | _ => ANone
  end.

Theorem k_jitcount_safe : forall args, Pre_jitcount args ->
  forall fuel, safe_outcome (run fuel k_jitcount args).
Proof.
  intros args (d1 & ta & s & e & q & -> & H & Hq) fuel.
  safe_start k_jitcount ann_jitcount.
  rewrite find_rwc. wp_compute k_jitcount ann_jitcount.
  lazy beta iota delta [post_rwc].
  vc k_jitcount ann_jitcount.
  1: do 6 eexists; split; [reflexivity | assumption].
  1: intros fu vs Hp; exact (k_jitrestrict_with_count_spec fu vs Hp).
  1: assumption.
  all: try solve [arr_arith].
  all: try (apply nonneg_zeros).
  all: try (apply nonneg_updZ; [assumption|]; try lia).
  all: try (change (binop_flt Div ?a ?b) with (VFlt (fdiv a b)); apply nb_bins_nonneg; assumption).
  all: rewrite psum_0; lia.
Qed.
