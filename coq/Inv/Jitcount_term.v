(* Termination of the translated jitcount on every input of its safety precondition [Pre_jitcount]:
   some fuel makes the checked interpreter return (no error, no fuel exhaustion).
   Jit/Total.v used as a termination-only calculus: the safety annotation [ann_jitcount] of
   Inv/Jitcount.v is reused VERBATIM, the only new input is one variant per while loop; the call of
   jitrestrict_with_count uses the TOTAL contract proved in Inv/Jitrestrict_with_count_total.v. *)
From Coq Require Import ZArith QArith String List Bool Lia.
From Verif Require Import Jit.Lang Jit.Interp Jit.Safety Jit.Tactics Jit.ArrayFacts Jit.FloatFacts Jit.Total Gen.Kernels.
From Verif Require Import Inv.Jitrestrict_with_count Inv.Jitrestrict_with_count_total Inv.Jitcount.
Import ListNotations.
Open Scope Z_scope.
Local Open Scope string_scope.

Definition vnt_term (l : nat) (st : store) : Z :=
  match l with
  | 3%nat => getZ st "m" - getZ st "k"
  | 4%nat => getZ st "maxb" - getZ st "b"
  | 6%nat => getZ st "maxt" - getZ st "t"
  | _ => 0
  end.

Theorem k_jitcount_returns : forall args, Pre_jitcount args ->
  exists fuel rs, run fuel k_jitcount args = Return rs.
Proof.
  intros args (d1 & ta & s & e & q & -> & H & Hq).
  unfold run.
  match goal with |- exists fuel rs, Interp.run _ fuel _ ?a = _ =>
    destruct (run_total all_kernels ann_jitcount vnt_term k_jitcount (fun _ => True) a) as [fuel [rs [E _]]];
      [| exists fuel, rs; exact E]
  end.
  twp_compute k_jitcount ann_jitcount vnt_term.
  rewrite find_rwc. twp_compute k_jitcount ann_jitcount vnt_term.
  lazy beta iota delta [post_rwc].
  vc k_jitcount ann_jitcount.
  1: do 6 eexists; split; [reflexivity | assumption].
  1: exact k_jitrestrict_with_count_callee_total.
  all: try solve [arr_arith].
  all: try (apply nonneg_zeros).
  all: try (apply nonneg_updZ; [assumption|]; try lia).
  all: try (change (binop_flt Div ?a ?b) with (VFlt (fdiv a b)); apply nb_bins_nonneg; assumption).
  all: rewrite psum_0; lia.
Qed.

Corollary k_jitcount_terminates : forall args, Pre_jitcount args ->
  exists fuel, run fuel k_jitcount args <> OutOfFuel.
Proof.
  intros args HP. destruct (k_jitcount_returns args HP) as [fuel [rs E]]. exists fuel. rewrite E. discriminate.
Qed.

Print Assumptions k_jitcount_returns.
