(* TOTAL correctness of the translated jitvaluefrom: some fuel makes the kernel text run to completion,
   and it returns the float array of the model (Model/ValueFrom.v).

   Combination ([Jit.Total.total_of_partial_eq]) of
     - the partial refinement theorems of Inv/Jitvaluefrom_func.v
         [k_jitvaluefrom_computes_vf_all]      (arbitrary block decompositions, any scale p),
         [k_jitvaluefrom_computes_model]       (the instance _value_from builds, nanosecond ticks),
         [k_jitvaluefrom_computes_model_ticks] (the same with floats = ticks),
     - the termination theorem [k_jitvaluefrom_terminates] of Inv/Jitvaluefrom_term.v,
     - [vf_args_pre]: the encoded arguments satisfy the safety/termination precondition
       [Pre_jitvaluefrom]: the two count arrays have one cell per cell of [starts], their cells are
       non-negative integers and they sum to the lengths of the two time arrays.  This follows from the
       SAME two shape hypotheses as the partial theorem (zlen sss = zlen qss, zlen starts = zlen qss):
       the counts are the block lengths of the time arrays by construction ([cnt_inv_lens]).
   Nothing beyond the hypotheses of the partial theorems is needed. *)
From Coq Require Import ZArith QArith Qcanon String List Bool Lia.
From Verif Require Import Base.Prelude Model.Restrict Model.ValueFrom Proofs.BaseLemmas Proofs.RestrictProofs
  Proofs.ValueFromProofs.
From Verif Require Import Jit.Lang Jit.Interp Jit.Safety Jit.Tactics Jit.ArrayFacts Jit.Total Gen.Kernels.
From Verif Require Import Inv.Jitrestrict_func Inv.Jitrestrict_with_count_func Inv.Jitfix_iset_func.
From Verif Require Import Inv.Jitvaluefrom Inv.Jitvaluefrom_func Inv.Jitvaluefrom_term.
Import ListNotations.
Open Scope Z_scope.

(* ---------- the encoded arguments satisfy the precondition ---------- *)
Lemma nonneg_index_cells : forall l, nonneg_ints (index_cells l).
Proof.
  intros l. unfold nonneg_ints, index_cells. apply Forall_forall. intros x Hx.
  apply in_map_iff in Hx. destruct Hx as [n [<- _]]. exists (Z.of_nat n). split; [reflexivity | lia].
Qed.

Lemma cnt_inv_lens : forall L, cnt_inv (index_cells (lens L)) (zlen (concat L)).
Proof.
  intros L. split; [apply nonneg_index_cells|].
  rewrite <- psum_all. unfold psum. rewrite zlen_lens.
  rewrite psum_lens by (pose proof (zlen_nonneg L); lia).
  apply off_all. lia.
Qed.

Lemma vf_args_pre : forall p mode qss sss dt starts,
  zlen sss = zlen qss -> zlen starts = zlen qss ->
  Pre_jitvaluefrom (vf_args p mode qss sss dt starts).
Proof.
  intros p mode qss sss dt starts Hs Hm. unfold vf_args, Pre_jitvaluefrom.
  do 9 eexists. split; [reflexivity|].
  rewrite !zlen_lens, !zlen_scells. repeat split; try lia; try apply nonneg_index_cells;
    apply (proj2 (cnt_inv_lens _)).
Qed.

(* ---------- total correctness ---------- *)
Theorem k_jitvaluefrom_vf_all_total : forall p mode qss sss dt starts,
  zlen sss = zlen qss -> zlen starts = zlen qss ->
  exists fuel, run fuel k_jitvaluefrom (vf_args p mode qss sss dt starts)
               = Return [Ar (A1 DFlt (ocells (vf_all mode qss sss 0%nat)))].
Proof.
  intros p mode qss sss dt starts Hs Hm. unfold run. apply total_of_partial_eq.
  - intros fuel. exact (k_jitvaluefrom_computes_vf_all p mode qss sss dt starts fuel Hs Hm).
  - apply k_jitvaluefrom_terminates. apply vf_args_pre; assumption.
Qed.

Lemma jitvaluefrom_args_pre : forall mode qs sr0 ep, Pre_jitvaluefrom (jitvaluefrom_args mode qs sr0 ep).
Proof.
  intros mode qs sr0 ep.
  pose proof (vf_args_pre 1000000000 mode (per_interval qs ep) (per_interval sr0 ep)
                DFlt (qcells (firsts ep))) as K.
  unfold vf_args in K. rewrite !concat_per_interval, !lens_per_interval in K.
  apply K.
  - rewrite !zlen_per_interval. reflexivity.
  - rewrite zlen_qcells, zlen_firsts, zlen_per_interval. reflexivity.
Qed.

Theorem k_jitvaluefrom_total : forall mode qs sr0 ep,
  exists fuel, run fuel k_jitvaluefrom (jitvaluefrom_args mode qs sr0 ep)
               = Return [vf_result (value_from mode qs sr0 ep)].
Proof.
  intros mode qs sr0 ep. unfold run. apply total_of_partial_eq.
  - intros fuel. exact (k_jitvaluefrom_computes_model mode qs sr0 ep fuel).
  - apply k_jitvaluefrom_terminates. apply jitvaluefrom_args_pre.
Qed.

(* the same with floats = ticks, the encoding under which jitrestrict_with_count is proved to return
   these very count arrays (Inv/Jitrestrict_with_count_total.v) *)
Lemma jitvaluefrom_ticks_args_pre : forall mode qs sr0 ep,
  Pre_jitvaluefrom
    [Ar (A1 DFlt (tcells (restrict_ts qs ep))); Ar (A1 DFlt (tcells (restrict_ts sr0 ep)));
     index_array (restrict_cnt qs ep); index_array (restrict_cnt sr0 ep);
     Ar (A1 DFlt (tcells (firsts ep))); Sc (VInt mode)].
Proof.
  intros mode qs sr0 ep.
  pose proof (vf_args_pre 1 mode (per_interval qs ep) (per_interval sr0 ep)
                DFlt (tcells (firsts ep))) as K.
  unfold vf_args in K. rewrite !scells_1, !concat_per_interval, !lens_per_interval in K.
  apply K.
  - rewrite !zlen_per_interval. reflexivity.
  - rewrite zlen_tcells, zlen_firsts, zlen_per_interval. reflexivity.
Qed.

Theorem k_jitvaluefrom_total_ticks : forall mode qs sr0 ep,
  exists fuel, run fuel k_jitvaluefrom
                 [Ar (A1 DFlt (tcells (restrict_ts qs ep))); Ar (A1 DFlt (tcells (restrict_ts sr0 ep)));
                  index_array (restrict_cnt qs ep); index_array (restrict_cnt sr0 ep);
                  Ar (A1 DFlt (tcells (firsts ep))); Sc (VInt mode)]
               = Return [vf_result (value_from mode qs sr0 ep)].
Proof.
  intros mode qs sr0 ep. unfold run. apply total_of_partial_eq.
  - intros fuel. exact (k_jitvaluefrom_computes_model_ticks mode qs sr0 ep fuel).
  - apply k_jitvaluefrom_terminates. apply jitvaluefrom_ticks_args_pre.
Qed.

(* non-vacuity: on concrete inputs the fuel is found by computation, and the value is the model's *)
Example k_jitvaluefrom_total_ex :
  exists fuel, run fuel k_jitvaluefrom
                 (jitvaluefrom_args 1 [0; 1; 2; 6; 11; 12; 13; 30] [1; 1; 3; 5; 12; 12; 25; 26]
                                    [(0, 6); (10, 20); (22, 28); (29, 40)])
               = Return [vf_result (value_from 1 [0; 1; 2; 6; 11; 12; 13; 30] [1; 1; 3; 5; 12; 12; 25; 26]
                                               [(0, 6); (10, 20); (22, 28); (29, 40)])].
Proof. exists 2000%nat. vm_compute. reflexivity. Qed.

Example k_jitvaluefrom_vf_all_total_ex :
  exists fuel, run fuel k_jitvaluefrom
      (vf_args 7 0 [[5; 3; 9]; [4]; []; [1; 1]] [[4; 4; 8]; []; [2]; [0; 1; 3]] DInt [VInt 0; VInt 0; VInt 0; VInt 0])
  = Return [vf_result (vf_all 0 [[5; 3; 9]; [4]; []; [1; 1]] [[4; 4; 8]; []; [2]; [0; 1; 3]] 0%nat)].
Proof. exists 2000%nat. vm_compute. reflexivity. Qed.

Print Assumptions k_jitvaluefrom_vf_all_total.
Print Assumptions k_jitvaluefrom_total.
Print Assumptions k_jitvaluefrom_total_ticks.
