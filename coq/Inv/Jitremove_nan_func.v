(* Functional correctness of the TRANSLATED jitremove_nan against the functional model of
   Model/Threshold.v ([runs_go] / [dropna_support], the model the C07 dropna theorems are about), by proof
   (partial correctness through [run_sound], as in Inv/Jitrestrict_func.v):

     for EVERY non-empty time array ts and every mask of kept rows kp of the same length (no sortedness
     needed), running the translated kernel on the arrays of ts and of index_nan = (not kept) returns,
     whenever it returns, exactly the two arrays (starts, ends) of  R = raw_runs (combine ts kp),  the runs
     of kept rows [first, last] WITHOUT the singleton rule; and
        dropna_support (combine ts kp) = map widen1 R                      ([dropna_support_raw])
     where widen1 is the singleton rule applied by the Python caller _dropna after the kernel
     (ends[starts == ends] += 1e-6).

   The kernel never inspects the time stamps, so the main theorem is stated for an arbitrary embedding
   [cell : Z -> sval] of the ticks and any dtype of the time array; the instance for the tick encoding
   t |-> t * 1e-9 ([qtick]) is [k_jitremove_nan_computes_model].
   Hypotheses needed: length kp = length ts, and ts <> [] (the kernel reads index_nan[0]; its public
   caller returns early on an empty series).

   This file also holds the lemmas on boolean masks (b[mask] restricted to a prefix) shared with
   Inv/Jitthreshold_func.v. *)
From Coq Require Import ZArith QArith String List Bool Lia.
From Verif Require Import Base.Prelude Model.Threshold Proofs.ThresholdProofs.
From Verif Require Import Jit.Lang Jit.Interp Jit.Safety Jit.Tactics Jit.ArrayFacts Gen.Kernels.
From Verif Require Import Inv.Jitrestrict_func Inv.Jitfix_iset_func.
Import ListNotations.
Open Scope Z_scope.


(* ---------- boolean masks: x = b[mask] restricted to the first t cells ---------- *)
Definition bcells (l : list bool) : list sval := map VBool l.
Lemma zlen_bcells : forall l, zlen (bcells l) = zlen l.
Proof. intros; unfold bcells; apply zlen_map. Qed.

Lemma maskl_cons : forall x r b s, maskl (x :: r) (b :: s) = if truthy b then x :: maskl r s else maskl r s.
Proof. reflexivity. Qed.
Lemma maskl_nil : forall m, maskl [] m = [].
Proof. reflexivity. Qed.
Lemma maskl_app : forall a b a' b', length a = length b ->
  maskl (a ++ a') (b ++ b') = (maskl a b ++ maskl a' b')%list.
Proof.
  induction a as [|x r IH]; intros [|y s] a' b' H; simpl in H; try discriminate; [reflexivity|].
  rewrite <- !app_comm_cons, !maskl_cons. rewrite IH by lia. destruct (truthy y); reflexivity.
Qed.

Definition pm (t : Z) (d m : list sval) : list sval :=
  maskl (firstn (Z.to_nat t) d) (firstn (Z.to_nat t) m).
Definition tail_false (t : Z) (m : list sval) : Prop :=
  forall j, t <= j < zlen m -> truthy (nthZ m j) = false.

Lemma pm_0 : forall d m, pm 0 d m = [].
Proof. reflexivity. Qed.

Lemma pm_succ : forall t d m, 0 <= t < zlen d -> t < zlen m ->
  pm (t + 1) d m = (pm t d m ++ (if truthy (nthZ m t) then [nthZ d t] else []))%list.
Proof.
  intros t d m Hd Hm. unfold pm, zlen in *. replace (Z.to_nat (t + 1)) with (S (Z.to_nat t)) by lia.
  rewrite (firstn_snoc d (Z.to_nat t) dflt) by lia. rewrite (firstn_snoc m (Z.to_nat t) dflt) by lia.
  rewrite maskl_app by (rewrite !firstn_length; lia). unfold nthZ.
  rewrite maskl_cons. destruct (truthy (nth (Z.to_nat t) m dflt)); reflexivity.
Qed.

Lemma pm_upd_m : forall t d m v, 0 <= t -> pm t d (updZ m t v) = pm t d m.
Proof. intros. unfold pm, updZ. rewrite firstn_upd_nth_ge by lia. reflexivity. Qed.
Lemma pm_upd_d : forall t d m v, 0 <= t -> pm t (updZ d t v) m = pm t d m.
Proof. intros. unfold pm, updZ. rewrite firstn_upd_nth_ge by lia. reflexivity. Qed.

Lemma nthZ_updZ_same : forall d t v, 0 <= t < zlen d -> nthZ (updZ d t v) t = v.
Proof. intros. unfold nthZ, updZ. apply nth_upd_nth_same. unfold zlen in H. lia. Qed.
Lemma nth_upd_nth_other : forall {A} (d : list A) n m v dv, n <> m -> nth n (upd_nth m d v) dv = nth n d dv.
Proof.
  induction d as [|x r IH]; intros n m v dv H; destruct n, m; simpl; try reflexivity; try lia.
  apply IH. lia.
Qed.
Lemma nthZ_updZ_other : forall d t j v, 0 <= t -> 0 <= j -> j <> t -> nthZ (updZ d t v) j = nthZ d j.
Proof. intros. unfold nthZ, updZ. apply nth_upd_nth_other. lia. Qed.

Lemma pm_skip : forall t d m, 0 <= t < zlen d -> zlen m = zlen d -> tail_false t m -> pm (t + 1) d m = pm t d m.
Proof.
  intros t d m Hd Hm T. rewrite pm_succ by lia. rewrite (T t) by lia. apply app_nil_r.
Qed.
Lemma pm_set : forall t d m, 0 <= t < zlen d -> zlen m = zlen d ->
  pm (t + 1) d (updZ m t (VBool true)) = (pm t d m ++ [nthZ d t])%list.
Proof.
  intros t d m Hd Hm. rewrite pm_succ by (rewrite ?zlen_updZ; lia).
  rewrite nthZ_updZ_same by lia. rewrite pm_upd_m by lia. reflexivity.
Qed.
Lemma pm_set2 : forall t d m v, 0 <= t < zlen d -> zlen m = zlen d ->
  pm (t + 1) (updZ d t v) (updZ m t (VBool true)) = (pm t d m ++ [v])%list.
Proof.
  intros t d m v Hd Hm. rewrite pm_set by (rewrite ?zlen_updZ; lia).
  rewrite nthZ_updZ_same by lia. rewrite pm_upd_d by lia. reflexivity.
Qed.
Lemma pm_all : forall t d m, zlen d = t -> zlen m = t -> pm t d m = maskl d m.
Proof.
  intros t d m Hd Hm. unfold pm. subst t. unfold zlen in *. rewrite Nat2Z.id at 1. rewrite firstn_all.
  replace (Z.to_nat (Z.of_nat (length d))) with (length m) by lia. rewrite firstn_all. reflexivity.
Qed.

Lemma tail_false_zeros : forall n, tail_false 0 (zeros DBool n (VInt 0)).
Proof.
  intros n j _. unfold nthZ, zeros.
  destruct (nth_in_or_default (Z.to_nat j) (repeat (coerce DBool (VInt 0)) (Z.to_nat n)) dflt) as [I|E].
  - apply repeat_spec in I. rewrite I. reflexivity.
  - rewrite E. reflexivity.
Qed.
Lemma tail_false_upd : forall t m v, 0 <= t -> tail_false t m -> tail_false (t + 1) (updZ m t v).
Proof.
  intros t m v Ht T j Hj. rewrite zlen_updZ in Hj. rewrite nthZ_updZ_other by lia. apply T. lia.
Qed.
Lemma tail_false_next : forall t m, tail_false t m -> tail_false (t + 1) m.
Proof. intros t m T j Hj. apply T. lia. Qed.

(* ---------- samples (time, kept) by position ---------- *)
Section Samples.
Variable ts : list Z.
Variable kp : list bool.
Hypothesis Hlen : length kp = length ts.
Definition smp : list (Z * bool) := combine ts kp.
Definition bk (t : Z) : bool := nth (Z.to_nat t) kp false.

Lemma skipn_smp : forall t, 0 <= t < zlen ts ->
  skipn (Z.to_nat t) smp = (tk ts t, bk t) :: skipn (Z.to_nat (t + 1)) smp.
Proof.
  intros t H. unfold smp, tk, bk. replace (Z.to_nat (t + 1)) with (S (Z.to_nat t)) by lia.
  assert (Hn : (Z.to_nat t < length ts)%nat) by (unfold zlen in H; lia).
  revert Hn Hlen. generalize (Z.to_nat t). generalize kp. clear. 
  induction ts as [|x r IH]; intros [|b s] n Hn Hl; simpl in *; try lia.
  destruct n; [reflexivity|]. simpl. apply IH; lia.
Qed.
Lemma skipn_smp_end : forall t, zlen ts <= t -> skipn (Z.to_nat t) smp = [].
Proof.
  intros t H. apply skipn_all2. unfold smp. rewrite combine_length. unfold zlen in H. lia.
Qed.
Lemma bk_end : forall t, zlen ts <= t -> bk t = false.
Proof. intros t H. unfold bk. apply nth_overflow. unfold zlen in H. lia. Qed.
Lemma nth_bcells : forall f t, 0 <= t < zlen ts -> nthZ (bcells (map f kp)) t = VBool (f (bk t)).
Proof.
  intros f t H. unfold nthZ, bcells, bk. rewrite map_map.
  rewrite (nth_indep _ dflt (VBool (f false))) by (rewrite map_length; unfold zlen in H; lia).
  rewrite (map_nth (fun x => VBool (f x))). reflexivity.
Qed.
End Samples.


(* ---------- the model without the singleton rule, and its two projections ---------- *)
Fixpoint raw_go (cur : option (Z * Z)) (l : list (Z * bool)) : iset :=
  match l with
  | [] => match cur with Some (a, b) => [(a, b)] | None => [] end
  | (x, kx) :: r =>
      if kx then raw_go (Some (match cur with Some (a, _) => a | None => x end, x)) r
      else match cur with
           | Some (a, b) => (a, b) :: raw_go None r
           | None => raw_go None r
           end
  end.
Definition raw_runs (l : list (Z * bool)) : iset := raw_go None l.
Definition widen1 (I : Z * Z) : Z * Z := (fst I, if fst I =? snd I then snd I + us else snd I).

Lemma runs_go_raw : forall l cur, runs_go cur l = map widen1 (raw_go cur l).
Proof.
  induction l as [|[x kx] r IH]; intros cur; simpl.
  - destruct cur as [[a b]|]; reflexivity.
  - destruct kx; [apply IH|]. destruct cur as [[a b]|]; simpl; rewrite IH; reflexivity.
Qed.
Lemma dropna_support_raw : forall l, dropna_support l = map widen1 (raw_runs l).
Proof. intros. apply runs_go_raw. Qed.

Fixpoint st_go (pk : bool) (l : list (Z * bool)) : list Z :=
  match l with
  | [] => []
  | (x, kx) :: r => (if kx && negb pk then [x] else []) ++ st_go kx r
  end.
Fixpoint en_go (l : list (Z * bool)) : list Z :=
  match l with
  | [] => []
  | (x, kx) :: r => (if kx && negb (nextk r) then [x] else []) ++ en_go r
  end.

Lemma raw_fst : forall l cur,
  map fst (raw_go cur l)
  = ((match cur with Some (a, _) => [a] | None => [] end)
     ++ st_go (match cur with Some _ => true | None => false end) l)%list.
Proof.
  induction l as [|[x kx] r IH]; intros cur; simpl.
  - destruct cur as [[a b]|]; reflexivity.
  - destruct kx; simpl.
    + rewrite IH. destruct cur as [[a b]|]; reflexivity.
    + destruct cur as [[a b]|]; simpl; rewrite IH; reflexivity.
Qed.
Lemma raw_snd : forall l,
  (forall a b, map snd (raw_go (Some (a, b)) l) = en_go ((b, true) :: l))
  /\ map snd (raw_go None l) = en_go l.
Proof.
  induction l as [|[x kx] r [IH1 IH2]]; [split; reflexivity|].
  destruct kx; split; intros.
  - change (raw_go (Some (a, b)) ((x, true) :: r)) with (raw_go (Some (a, x)) r). rewrite IH1. reflexivity.
  - change (raw_go None ((x, true) :: r)) with (raw_go (Some (x, x)) r). apply IH1.
  - change (raw_go (Some (a, b)) ((x, false) :: r)) with ((a, b) :: raw_go None r).
    change (en_go ((b, true) :: (x, false) :: r)) with (b :: en_go r).
    simpl map. rewrite IH2. reflexivity.
  - change (raw_go None ((x, false) :: r)) with (raw_go None r). exact IH2.
Qed.
Lemma raw_runs_fst : forall l, map fst (raw_runs l) = st_go false l.
Proof. intros. unfold raw_runs. rewrite raw_fst. reflexivity. Qed.
Lemma raw_runs_snd : forall l, map snd (raw_runs l) = en_go l.
Proof. intros. apply raw_snd. Qed.

(* ---------- the loop invariants ---------- *)
Section Inv.
Variable ts : list Z.
Variable kp : list bool.
Hypothesis Hlen : length kp = length ts.
Variable cell : Z -> sval.
Definition cells (l : list Z) : list sval := map cell l.
Notation l := (smp ts kp).
Notation bk := (bk kp).
Notation n := (zlen ts).

Lemma zlen_cells : forall x, zlen (cells x) = zlen x.
Proof. intros; unfold cells; apply zlen_map. Qed.
Lemma nth_cells : forall x k, 0 <= k < zlen x -> nthZ (cells x) k = cell (tk x k).
Proof.
  intros x k H. unfold nthZ, cells, tk.
  rewrite (nth_indep _ dflt (cell 0)) by (rewrite map_length; unfold zlen in H; lia).
  rewrite map_nth. reflexivity.
Qed.

Definition SInv (t : Z) (m : list sval) : Prop :=
  zlen m = n /\ tail_false t m
  /\ (pm t (cells ts) m ++ cells (st_go (bk (t - 1)) (skipn (Z.to_nat t) l)))%list = cells (st_go false l).
Definition EInv (t : Z) (m : list sval) : Prop :=
  zlen m = n /\ tail_false t m
  /\ (pm t (cells ts) m ++ cells (en_go (skipn (Z.to_nat t) l)))%list = cells (en_go l).

Lemma nextk_skipn : forall t, 0 <= t -> nextk (skipn (Z.to_nat t) l) = bk t.
Proof.
  intros t H. destruct (Z_lt_le_dec t n) as [Hl|Hg].
  - rewrite (skipn_smp ts kp Hlen t) by lia. reflexivity.
  - rewrite (skipn_smp_end ts kp Hlen t Hg). symmetry. apply (bk_end ts kp Hlen). exact Hg.
Qed.

Lemma S_gen : forall t m pk, 0 <= t < n -> zlen m = n -> tail_false t m ->
  (pm t (cells ts) m ++ cells (st_go pk (skipn (Z.to_nat t) l)))%list = cells (st_go false l) ->
  SInv (t + 1) (if bk t && negb pk then updZ m t (VBool true) else m).
Proof.
  intros t m pk Ht Hz T E. rewrite (skipn_smp ts kp Hlen t Ht) in E. simpl st_go in E.
  unfold SInv. replace (t + 1 - 1) with t by lia.
  destruct (bk t && negb pk); repeat split.
  - rewrite zlen_updZ. exact Hz.
  - apply tail_false_upd; [lia | exact T].
  - rewrite pm_set by (rewrite ?zlen_cells; lia). rewrite nth_cells by lia.
    rewrite <- app_assoc. exact E.
  - exact Hz.
  - apply tail_false_next. exact T.
  - rewrite pm_skip by (rewrite ?zlen_cells; lia || assumption). exact E.
Qed.

Lemma S_init_set : 0 < n -> bk 0 = true -> SInv 1 (updZ (zeros DBool n (VInt 0)) 0 (VBool true)).
Proof.
  intros Hn Hb. pose proof (S_gen 0 (zeros DBool n (VInt 0)) false) as G. rewrite Hb in G. apply G.
  - lia.
  - rewrite zlen_zeros. lia.
  - apply tail_false_zeros.
  - reflexivity.
Qed.
Lemma S_init_skip : 0 < n -> bk 0 = false -> SInv 1 (zeros DBool n (VInt 0)).
Proof.
  intros Hn Hb. pose proof (S_gen 0 (zeros DBool n (VInt 0)) false) as G. rewrite Hb in G. apply G.
  - lia.
  - rewrite zlen_zeros. lia.
  - apply tail_false_zeros.
  - reflexivity.
Qed.
Lemma S_set : forall t m, SInv t m -> 1 <= t < n -> bk (t - 1) = false -> bk t = true ->
  SInv (t + 1) (updZ m t (VBool true)).
Proof.
  intros t m (Hz & T & E) Ht H1 H2. pose proof (S_gen t m (bk (t - 1)) ltac:(lia) Hz T E) as G.
  rewrite H1, H2 in G. exact G.
Qed.
Lemma S_skip : forall t m, SInv t m -> 1 <= t < n -> (bk (t - 1) = true \/ bk t = false) ->
  SInv (t + 1) m.
Proof.
  intros t m (Hz & T & E) Ht H. pose proof (S_gen t m (bk (t - 1)) ltac:(lia) Hz T E) as G.
  destruct H as [H|H]; rewrite H in G; [rewrite andb_false_r in G|]; exact G.
Qed.

Lemma E_gen : forall t m, EInv t m -> 0 <= t < n ->
  EInv (t + 1) (if bk t && negb (bk (t + 1)) then updZ m t (VBool true) else m).
Proof.
  intros t m (Hz & T & E) Ht. rewrite (skipn_smp ts kp Hlen t Ht) in E. simpl en_go in E.
  rewrite nextk_skipn in E by lia. unfold EInv.
  destruct (bk t && negb (bk (t + 1))); repeat split.
  - rewrite zlen_updZ. exact Hz.
  - apply tail_false_upd; [lia | exact T].
  - rewrite pm_set by (rewrite ?zlen_cells; lia). rewrite nth_cells by lia.
    rewrite <- app_assoc. exact E.
  - exact Hz.
  - apply tail_false_next. exact T.
  - rewrite pm_skip by (rewrite ?zlen_cells; lia || assumption). exact E.
Qed.
Lemma E_init : EInv 0 (zeros DBool n (VInt 0)).
Proof.
  repeat split.
  - rewrite zlen_zeros. pose proof (zlen_nonneg ts). lia.
  - apply tail_false_zeros.
Qed.
Lemma E_set : forall t m, EInv (t - 1) m -> 1 <= t <= n -> bk (t - 1) = true -> bk t = false ->
  EInv t (updZ m (t - 1) (VBool true)).
Proof.
  intros t m I Ht H1 H2. pose proof (E_gen (t - 1) m I ltac:(lia)) as G.
  replace (t - 1 + 1) with t in G by lia. rewrite H1, H2 in G. exact G.
Qed.
Lemma E_skip : forall t m, EInv (t - 1) m -> 1 <= t <= n -> (bk (t - 1) = false \/ bk t = true) ->
  EInv t m.
Proof.
  intros t m I Ht H. pose proof (E_gen (t - 1) m I ltac:(lia)) as G.
  replace (t - 1 + 1) with t in G by lia.
  destruct H as [H|H]; rewrite H in G; [|rewrite andb_false_r in G]; exact G.
Qed.

Lemma S_final : forall m, SInv n m -> maskl (cells ts) m = cells (map fst (raw_runs l)).
Proof.
  intros m (Hz & T & E). rewrite (skipn_smp_end ts kp Hlen n) in E by lia. simpl in E. rewrite app_nil_r in E.
  rewrite pm_all in E by (rewrite ?zlen_cells; lia). rewrite raw_runs_fst. exact E.
Qed.
Lemma E_final : forall m, EInv n m -> maskl (cells ts) m = cells (map snd (raw_runs l)).
Proof.
  intros m (Hz & T & E). rewrite (skipn_smp_end ts kp Hlen n) in E by lia. simpl in E. rewrite app_nil_r in E.
  rewrite pm_all in E by (rewrite ?zlen_cells; lia). rewrite raw_runs_snd. exact E.
Qed.
End Inv.

Local Open Scope string_scope.


Definition ann_remove_nan (ts : list Z) (kp : list bool) (cell : Z -> sval) (lb : nat) : annot :=
  match lb with
  | 1%nat => ALoop [("t", KInt); ("ix_start", KArr); ("ix_end", KArr)]
               (fun st0 st => 1 <= getZ st "t" <= zlen ts
                              /\ SInv ts kp cell (getZ st "t") (getD st "ix_start")
                              /\ EInv ts kp cell (getZ st "t" - 1) (getD st "ix_end"))
  | _ => ANone
  end.

Definition nan_cells (kp : list bool) : list sval := bcells (map negb kp).
Lemma zlen_nan_cells : forall kp, zlen (nan_cells kp) = zlen kp.
Proof. intros. unfold nan_cells, bcells. rewrite !zlen_map. reflexivity. Qed.
Lemma nth_nan : forall (ts : list Z) (kp : list bool), length kp = length ts -> forall j, 0 <= j < zlen ts ->
  truthy (nthZ (nan_cells kp) j) = negb (bk kp j).
Proof. intros ts kp H j Hj. unfold nan_cells. rewrite (nth_bcells ts kp H negb j Hj). reflexivity. Qed.
Definition remove_nan_args (dt : dtype) (cell : Z -> sval) (ts : list Z) (kp : list bool) : list value :=
  [Ar (A1 dt (cells cell ts)); Ar (A1 DBool (nan_cells kp))].
Definition remove_nan_result (dt : dtype) (cell : Z -> sval) (R : iset) : list value :=
  [Ar (A1 dt (cells cell (firsts R))); Ar (A1 dt (cells cell (seconds R)))].

#[local] Hint Rewrite zlen_cells zlen_bcells zlen_nan_cells : zlen.

Theorem k_jitremove_nan_computes_raw_runs : forall dt cell ts kp fuel,
  length kp = length ts -> ts <> [] ->
  match run fuel k_jitremove_nan (remove_nan_args dt cell ts kp) with
  | Return rs => rs = remove_nan_result dt cell (raw_runs (combine ts kp))
  | OutOfFuel => True
  | _ => False
  end.
Proof.
  intros dt cell ts kp fuel Hlen Hne.
  assert (Hn : 1 <= zlen ts) by (destruct ts; [contradiction | rewrite zlen_cons; pose proof (zlen_nonneg ts); lia]).
  pose proof (run_sound all_kernels (ann_remove_nan ts kp cell) k_jitremove_nan
                (fun rs => rs = remove_nan_result dt cell (raw_runs (combine ts kp)))
                (remove_nan_args dt cell ts kp) fuel) as RS.
  unfold run.
  match type of RS with ?P -> _ => assert (W : P) end.
  2: { specialize (RS W). unfold Interp.run in *.
       destruct (exec all_kernels fuel (fbody k_jitremove_nan) (init_store k_jitremove_nan (remove_nan_args dt cell ts kp)));
         simpl in *; auto. }
  clear RS. unfold remove_nan_args, remove_nan_result. fold (smp ts kp).
  assert (Hk : zlen kp = zlen ts) by (unfold zlen; lia).
  wp_compute k_jitremove_nan ann_remove_nan.
  vc k_jitremove_nan ann_remove_nan.
  all: try solve [arith].
  all: autorewrite with zlen in *.
  all: try lia.
  all: repeat match goal with
         | Hl : length ?kp = length ?ts, Hc : context [truthy (nthZ (nan_cells ?kp) ?j)] |- _ =>
             rewrite (nth_nan ts kp Hl j) in Hc by lia
         end.
  all: repeat match goal with
         | Hc : negb _ = true |- _ => rewrite negb_true_iff in Hc
         | Hc : negb _ = false |- _ => rewrite negb_false_iff in Hc
         end.
  all: repeat match goal with
         | |- context [?z + 1 - 1] => replace (z + 1 - 1) with z by lia
         end.
  all: try match goal with
         | |- SInv _ _ _ 1 (updZ _ _ _) => apply S_init_set; [assumption | lia | assumption]
         | |- SInv _ _ _ 1 (zeros _ _ _) => apply S_init_skip; [assumption | lia | assumption]
         | |- EInv _ _ _ (1 - 1) _ => apply E_init; assumption
         | |- SInv _ _ _ (_ + 1) (updZ _ _ _) => apply S_set; [assumption | assumption | lia | assumption | assumption]
         | |- SInv _ _ _ (_ + 1) _ =>
             apply S_skip; [assumption | assumption | lia | first [left; assumption | right; assumption]]
         | |- EInv _ _ _ _ (updZ _ _ _) => apply E_set; [assumption | assumption | lia | assumption | assumption]
         | |- EInv _ _ _ _ _ =>
             apply E_skip; [assumption | assumption | lia | first [left; assumption | right; assumption]]
         end.
  (* after the loop t = n; ix_end[len(ix_end) - 1] is position n - 1 *)
  all: match goal with
       | Ha : zlen ?ts <= ?z, Hb : ?z <= zlen ?ts |- _ => assert (Ez : z = zlen ts) by lia; subst z
       end.
  all: repeat match goal with
         | Hd : zlen ?d = Z.max 0 _ |- context [zlen ?d] => rewrite Hd
         end.
  all: rewrite ?Z.max_r by lia; rewrite ?Hk in *.
  all: f_equal; [f_equal; f_equal; apply S_final | f_equal; f_equal; f_equal; apply E_final].
  all: try assumption.
  all: match goal with
       | |- EInv _ _ _ _ (updZ _ _ _) =>
           apply E_set; [assumption | assumption | lia | assumption | apply (bk_end ts kp Hlen); lia]
       | |- EInv _ _ _ _ _ => apply E_skip; [assumption | assumption | lia | left; assumption]
       end.
Qed.

(* the tick encoding t |-> t * 1e-9 and the model of dropna: the kernel returns the runs R, and the
   caller's singleton rule turns R into [dropna_support] *)
Definition remove_nan_qargs (ts : list Z) (kp : list bool) : list value :=
  [Ar (A1 DFlt (qcells ts)); Ar (A1 DBool (nan_cells kp))].

Theorem k_jitremove_nan_computes_model : forall ts kp fuel,
  length kp = length ts -> ts <> [] ->
  match run fuel k_jitremove_nan (remove_nan_qargs ts kp) with
  | Return rs =>
      let R := raw_runs (combine ts kp) in
      rs = [Ar (A1 DFlt (qcells (firsts R))); Ar (A1 DFlt (qcells (seconds R)))]
      /\ dropna_support (combine ts kp) = map widen1 R
  | OutOfFuel => True
  | _ => False
  end.
Proof.
  intros ts kp fuel Hlen Hne.
  pose proof (k_jitremove_nan_computes_raw_runs DFlt qcell ts kp fuel Hlen Hne) as K.
  unfold remove_nan_qargs. unfold remove_nan_args, remove_nan_result in K.
  change (cells qcell) with qcells in K.
  destruct (run fuel k_jitremove_nan [Ar (A1 DFlt (qcells ts)); Ar (A1 DBool (nan_cells kp))]); auto.
  split; [exact K | apply dropna_support_raw].
Qed.

(* not vacuous: with enough fuel the kernel does return (termination itself is not proved);
   two runs, the second one a singleton (widened by the caller, not by the kernel) *)
Example k_jitremove_nan_runs :
  run 100 k_jitremove_nan (remove_nan_qargs [0; 10; 20; 30; 40] [true; true; false; true; false])
  = Return [Ar (A1 DFlt (qcells [0; 30])); Ar (A1 DFlt (qcells [10; 30]))]
  /\ dropna_support (combine [0; 10; 20; 30; 40] [true; true; false; true; false]) = [(0, 10); (30, 1030)].
Proof. split; vm_compute; reflexivity. Qed.

Print Assumptions k_jitremove_nan_computes_raw_runs.
Print Assumptions k_jitremove_nan_computes_model.
