(* TOTAL correctness of the translated _jitfix_iset: for every interval list l there is a fuel with
   which the kernel text runs to completion, and the result satisfies [fix_post (fix_iset l)]
   (the data array of the model and a 4-cell warning array).

   Termination (Jit/Total.v used as a termination-only calculus) reuses the safety annotation
   [ann__jitfix_iset] of Inv/Jitfix_iset.v VERBATIM; the only new input is the variant m - i of the
   three while loops.  It holds for all pairs of arrays of equal length.  Combined with the
   partial-correctness theorem of Inv/Jitfix_iset_func.v by [total_of_partial]. *)
From Coq Require Import ZArith QArith String List Bool Lia.
From Verif Require Import Base.Prelude Model.Iset.
From Verif Require Import Jit.Lang Jit.Interp Jit.Safety Jit.Tactics Jit.Total Gen.Kernels.
From Verif Require Import Inv.Jitfix_iset Inv.Jitrestrict_func Inv.Jitfix_iset_func.
Import ListNotations.
Open Scope Z_scope.
Local Open Scope string_scope.

Definition vnt_term (l : nat) (st : store) : Z :=
  match l with
  | 0%nat | 1%nat | 5%nat => getZ st "m" - getZ st "i"
  | _ => 0
  end.

Theorem k__jitfix_iset_terminates : forall args, Pre__jitfix_iset args ->
  exists fuel, run fuel k__jitfix_iset args <> OutOfFuel.
Proof.
  intros args (d1 & d2 & s & e & -> & H).
  unfold run. term_start k__jitfix_iset ann__jitfix_iset vnt_term.
  vc k__jitfix_iset ann__jitfix_iset.
Qed.

Lemma fix_args_pre : forall l, Pre__jitfix_iset (fix_args l).
Proof.
  intros l. unfold fix_args, Pre__jitfix_iset. do 4 eexists. split; [reflexivity|].
  rewrite !zlen_qcells, zlen_firsts, zlen_seconds. reflexivity.
Qed.

Theorem k__jitfix_iset_total : forall l,
  exists fuel rs, run fuel k__jitfix_iset (fix_args l) = Return rs /\ fix_post (fix_iset l) rs.
Proof.
  intros l. unfold run. apply total_of_partial.
  - intros fuel. exact (k__jitfix_iset_computes_model l fuel).
  - apply k__jitfix_iset_terminates. apply fix_args_pre.
Qed.

(* non-vacuity: on a concrete input the fuel is found by computation, and the data is the model's *)
Example k__jitfix_iset_total_ex :
  exists fuel w, run fuel k__jitfix_iset
      (fix_args [(0, 5000); (3000, 9000); (9000, 20000); (21000, 21000); (30000, 25000); (40000, 50000)])
    = Return [Ar (A2 DFlt 3 2 (pcells (fix_iset
        [(0, 5000); (3000, 9000); (9000, 20000); (21000, 21000); (30000, 25000); (40000, 50000)])));
              Ar (A1 DBool w)].
Proof. exists 40%nat. eexists. vm_compute. reflexivity. Qed.

Print Assumptions k__jitfix_iset_terminates.
Print Assumptions k__jitfix_iset_total.
