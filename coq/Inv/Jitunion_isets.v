(* C15: jitunion_isets *)
From Coq Require Import ZArith QArith String List Bool Lia.
From Verif Require Import Jit.Lang Jit.Interp Jit.Safety Jit.Tactics Gen.Kernels.
Import ListNotations.
Open Scope Z_scope.
Local Open Scope string_scope.

Definition Pre_jitunion_isets (args : list value) : Prop :=
  exists d1 d2 s e, args = [Ar (A1 d1 s); Ar (A1 d2 e)] /\ zlen s = zlen e.

Definition ann_jitunion_isets (l : nat) : annot :=
  match l with
  | 1%nat => ALoop [("i", KInt); ("ct", KInt); ("e", KSc); ("new_start", KArr); ("new_end", KArr)]
                   (fun st0 st => 0 <= getZ st "ct" < getZ st "i" /\ getZ st "i" <= getZ st0 "n")
  | _ => ANone
  end.

Theorem k_jitunion_isets_safe : forall args, Pre_jitunion_isets args ->
  forall fuel, safe_outcome (run fuel k_jitunion_isets args).
Proof.
  intros args (d1 & d2 & s & e & -> & H) fuel.
  safe_start k_jitunion_isets ann_jitunion_isets. vc k_jitunion_isets ann_jitunion_isets.
  all: try (rewrite <- ?H; apply idx_ok_argsort).
Qed.
