(* C15: jitrestrict indexes its arrays within bounds and reads only assigned variables,
   for every time_array and every pair starts/ends of equal length (empty arrays included). *)
From Coq Require Import ZArith QArith String List Bool Lia.
From Verif Require Import Jit.Lang Jit.Interp Jit.Safety Jit.Tactics Gen.Kernels.
Import ListNotations.
Open Scope Z_scope.
Local Open Scope string_scope.

Definition Pre_jitrestrict (args : list value) : Prop :=
  exists d1 d2 d3 ta s e,
    args = [Ar (A1 d1 ta); Ar (A1 d2 s); Ar (A1 d3 e)] /\ zlen s = zlen e.

Definition ann_jitrestrict (l : nat) : annot :=
  match l with
  | 0%nat => ALoop [("k", KInt)] (fun st0 st => 0 <= getZ st "k")
  | 1%nat => ALoop [("k", KInt); ("t", KInt); ("x", KInt); ("ix", KArr)]
                   (fun st0 st => 0 <= getZ st "k" /\ 0 <= getZ st "x" <= getZ st "t")
  | 2%nat => ALoop [("t", KInt)] (fun st0 st => getZ st0 "t" <= getZ st "t")
  | 4%nat => ALoop [("k", KInt); ("t", KInt); ("x", KInt); ("ix", KArr)]
                   (fun st0 st => getZ st "k" = getZ st0 "k" /\ 0 <= getZ st "x" <= getZ st "t")
  | _ => ANone
  end.

Theorem k_jitrestrict_safe : forall args, Pre_jitrestrict args ->
  forall fuel, safe_outcome (run fuel k_jitrestrict args).
Proof.
  intros args (d1 & d2 & d3 & ta & s & e & -> & H) fuel.
  safe_start k_jitrestrict ann_jitrestrict. vc k_jitrestrict ann_jitrestrict.
Qed.
