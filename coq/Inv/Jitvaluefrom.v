(* C15: jitvaluefrom, as called by _value_from: count / count_target are the per-epoch counts of
   the two (already restricted) series, as returned by jitrestrict_with_count. *)
From Coq Require Import ZArith QArith String List Bool Lia.
From Verif Require Import Jit.Lang Jit.Interp Jit.Safety Jit.Tactics Jit.ArrayFacts Gen.Kernels.
Import ListNotations.
Open Scope Z_scope.
Local Open Scope string_scope.

Definition Pre_jitvaluefrom (args : list value) : Prop :=
  exists d1 d2 d3 ta tt c ct s mode,
    args = [Ar (A1 d1 ta); Ar (A1 d2 tt); Ar (A1 DInt c); Ar (A1 DInt ct); Ar (A1 d3 s);
            Sc (VInt mode)]
    /\ zlen c = zlen s /\ zlen ct = zlen s
    /\ cnt_inv c (zlen ta) /\ cnt_inv ct (zlen tt).

Definition ann_jitvaluefrom (l : nat) : annot :=
  match l with
  | 1%nat => ALoop [("k", KInt); ("t", KAny); ("i", KAny); ("maxt", KAny); ("maxi", KAny);
                    ("interval", KAny); ("nan_cond", KAny); ("new_interval", KAny);
                    ("break_cond", KAny); ("idx", KArr)]
                   (fun _ _ => True)
  | 3%nat => ALoop [("t", KInt); ("i", KInt); ("interval", KAny); ("nan_cond", KAny);
                    ("new_interval", KAny); ("break_cond", KAny); ("idx", KArr)]
                   (fun st0 st => getZ st0 "t" <= getZ st "t"
                                  /\ getZ st0 "i" <= getZ st "i" < getZ st0 "maxi")
  | 4%nat => ALoop [("interval", KSc)] (fun _ _ => True)
  | 5%nat => ALoop [("i", KInt); ("interval", KSc); ("nan_cond", KSc);
                    ("new_interval", KAny); ("break_cond", KAny); ("idx", KArr)]
                   (fun st0 st => getZ st0 "i" <= getZ st "i" <= getZ st0 "maxi")
  | 6%nat => ALoop [("new_interval", KSc); ("break_cond", KSc); ("nan_cond", KSc)] (fun _ _ => True)
  | 9%nat => ALoop [("new_interval", KAny); ("nan_cond", KSc); ("idx", KArr)] (fun _ _ => True)
  | 10%nat => ALoop [("new_interval", KAny); ("nan_cond", KSc)] (fun _ _ => True)
  | _ => ANone
  end.

Theorem k_jitvaluefrom_safe : forall args, Pre_jitvaluefrom args ->
  forall fuel, safe_outcome (run fuel k_jitvaluefrom args).
Proof.
  intros args (d1 & d2 & d3 & ta & tt & c & ct & s & mode & -> & Hc & Hct & Ic & Ict) fuel.
  safe_start k_jitvaluefrom ann_jitvaluefrom.
  vc k_jitvaluefrom ann_jitvaluefrom.
  all: arr_arith.
Qed.
