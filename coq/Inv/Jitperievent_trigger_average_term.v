(* Termination of the translated _jitperievent_trigger_average on every input of its safety
   precondition: some fuel makes the checked interpreter return (no error, no fuel exhaustion).
   Jit/Total.v used as a termination-only calculus: the safety annotation of
   Inv/Jitperievent_trigger_average.v is reused VERBATIM, the only new input is one variant per while
   loop; the call of jitrestrict_with_count uses the TOTAL contract of
   Inv/Jitrestrict_with_count_total.v. *)
From Coq Require Import ZArith QArith String List Bool Lia.
From Verif Require Import Jit.Lang Jit.Interp Jit.Safety Jit.Tactics Jit.ArrayFacts Jit.FloatFacts Jit.Total Gen.Kernels.
From Verif Require Import Inv.Jitrestrict_with_count Inv.Jitrestrict_with_count_total
  Inv.Jitperievent_trigger_average.
Import ListNotations.
Open Scope Z_scope.
Local Open Scope string_scope.

Definition vnt_term (l : nat) (st : store) : Z :=
  match l with
  | 3%nat => getZ st "T" - getZ st "t"
  | 5%nat => getZ st "maxi" - getZ st "i_stop"
  | 7%nat => getZ st "i_stop" - getZ st "i_start"
  | _ => 0
  end.

Theorem k__jitperievent_trigger_average_returns : forall args, Pre__jitperievent_trigger_average args ->
  exists fuel rs, run fuel k__jitperievent_trigger_average args = Return rs.
Proof.
  intros args (d1 & d2 & d3 & d4 & d5 & d6 & ta & n & ca & tt & da & s & e & w & binsize & ->
               & Hn & Hda & Hse & Hw & Nw).
  unfold run.
  match goal with |- exists fuel rs, Interp.run _ fuel _ ?a = _ =>
    destruct (run_total all_kernels ann__jitperievent_trigger_average vnt_term
                k__jitperievent_trigger_average (fun _ => True) a) as [fuel [rs [E _]]];
      [| exists fuel, rs; exact E]
  end.
  twp_compute k__jitperievent_trigger_average ann__jitperievent_trigger_average vnt_term.
  rewrite find_rwc.
  twp_compute k__jitperievent_trigger_average ann__jitperievent_trigger_average vnt_term.
  lazy beta iota delta [post_rwc].
  vc k__jitperievent_trigger_average ann__jitperievent_trigger_average.
  1: do 6 eexists; split; [reflexivity | assumption].
  1: exact k_jitrestrict_with_count_callee_total.
  all: try assumption.
  all: try solve [rewrite ?Hda; assumption].
  all: try solve [arr_arith].
  all: repeat match goal with
         | Hx : context [nthZ (cumsum_int 0 ?d) ?k] |- _ =>
             rewrite (nthZ_cumsum_int d 0 k) in Hx by lia; cbn [to_int] in Hx
         | |- context [nthZ (cumsum_int 0 ?d) ?k] => rewrite (nthZ_cumsum_int d 0 k) by lia; cbn [to_int]
         end.
  all: try solve [arr_arith].
  all: match goal with |- ?G => idtac "GOAL" G end.
Qed.

Corollary k__jitperievent_trigger_average_terminates : forall args, Pre__jitperievent_trigger_average args ->
  exists fuel, run fuel k__jitperievent_trigger_average args <> OutOfFuel.
Proof.
  intros args HP. destruct (k__jitperievent_trigger_average_returns args HP) as [fuel [rs E]].
  exists fuel. rewrite E. discriminate.
Qed.

Print Assumptions k__jitperievent_trigger_average_returns.
