(* Termination of the translated _jitcontinuous_perievent on every input of its safety precondition:
   some fuel makes the checked interpreter return (no error, no fuel exhaustion).
   Jit/Total.v used as a termination-only calculus: the safety annotation of
   Inv/Jitcontinuous_perievent.v is reused VERBATIM, the only new input is one variant per while loop;
   the two calls of jitrestrict_with_count use the TOTAL contract of Inv/Jitrestrict_with_count_total.v. *)
From Coq Require Import ZArith QArith String List Bool Lia.
From Verif Require Import Jit.Lang Jit.Interp Jit.Safety Jit.Tactics Jit.ArrayFacts Jit.FloatFacts Jit.Total Gen.Kernels.
From Verif Require Import Inv.Jitrestrict_with_count Inv.Jitrestrict_with_count_total Inv.Jitcontinuous_perievent.
Import ListNotations.
Open Scope Z_scope.
Local Open Scope string_scope.

Definition vnt_term (l : nat) (st : store) : Z :=
  match l with
  | 5%nat => getZ st "maxi" - getZ st "i"
  | 6%nat => getZ st "maxt" - getZ st "t"
  | _ => 0
  end.

Theorem k__jitcontinuous_perievent_returns : forall args, Pre__jitcontinuous_perievent args ->
  exists fuel rs, run fuel k__jitcontinuous_perievent args = Return rs.
Proof.
  intros args (d1 & d2 & d3 & d4 & ta & tt & s & e & w & -> & H & Hw).
  unfold run.
  match goal with |- exists fuel rs, Interp.run _ fuel _ ?a = _ =>
    destruct (run_total all_kernels ann__jitcontinuous_perievent vnt_term k__jitcontinuous_perievent (fun _ => True) a) as [fuel [rs [E _]]];
      [| exists fuel, rs; exact E]
  end.
  twp_compute k__jitcontinuous_perievent ann__jitcontinuous_perievent vnt_term.
  rewrite find_rwc. twp_compute k__jitcontinuous_perievent ann__jitcontinuous_perievent vnt_term.
  lazy beta iota delta [post_rwc].
  vc k__jitcontinuous_perievent ann__jitcontinuous_perievent.
  1,3: do 6 eexists; split; [reflexivity | assumption].
  1,2: exact k_jitrestrict_with_count_callee_total.
  all: try solve [autorewrite with zlen; assumption].
  all: change (Z.max 0 2) with 2 in *; rewrite ?(Z.max_r 0 (zlen s)) in * by lia.
  (* the two columns of [count] are the count arrays returned by the two calls *)
  1: { rewrite column_set_col_same by (try lia; rewrite zlen_coerce_cells; assumption).
       rewrite coerce_cells_nonneg
         by (match goal with Hc : cnt_inv ?c _ |- nonneg_ints ?c => exact (proj1 Hc) end).
       autorewrite with zlen. assumption. }
  1: { rewrite column_set_col_other by lia.
       rewrite column_set_col_same by (try lia; rewrite zlen_coerce_cells; assumption).
       rewrite coerce_cells_nonneg
         by (match goal with Hc : cnt_inv ?c _ |- nonneg_ints ?c => exact (proj1 Hc) end).
       autorewrite with zlen. assumption. }
  all: repeat match goal with
         | Hx : context [nthZ ?d (?k * 2 + ?j)] |- _ =>
             rewrite <- (nthZ_column (zlen s) 2 d j k) in Hx by lia
         | |- context [nthZ ?d (?k * 2 + ?j)] => rewrite <- (nthZ_column (zlen s) 2 d j k) by lia
         end.
  all: arr_arith.
Qed.

Corollary k__jitcontinuous_perievent_terminates : forall args, Pre__jitcontinuous_perievent args ->
  exists fuel, run fuel k__jitcontinuous_perievent args <> OutOfFuel.
Proof.
  intros args HP. destruct (k__jitcontinuous_perievent_returns args HP) as [fuel [rs E]].
  exists fuel. rewrite E. discriminate.
Qed.

Print Assumptions k__jitcontinuous_perievent_returns.
