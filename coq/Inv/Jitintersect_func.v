(* Functional correctness of the TRANSLATED jitintersect against the hand-written functional model
   Model/Iset.v [k_inter_meta] (the model the C02 intersection theorems are about), by proof:

     for all interval lists A B (integer ticks; NO hypothesis: neither start <= end, nor sortedness,
     nor separation is needed), running the translated kernel (Gen/Kernels.v) on the arrays
     starts A / ends A / starts B / ends B returns, whenever it returns, exactly
       newstart = the starts of [k_inter_meta A B], newend = its ends,
       newmeta  = the (len, 2) integer array of its parent indices (i, j).

   Partial correctness through [run_sound] (OutOfFuel allowed; any Err and any other Return excluded).
   Times are embedded as the rationals [inject_Z t] as in Inv/Jitrestrict_func.v; max/min of embedded
   ticks are the embedded Z.max/Z.min ([fmax_inj], [fmin_inj]).

   Invariant of the outer loop: (the rows decoded from the first ct cells of the three buffers)
   ++ inter_go (A from i) (B from j) i j = k_inter_meta A B;  of the inner scan: the model is unchanged
   by skipping the intervals of B that end at or before start1[i]. *)
From Coq Require Import ZArith QArith String List Bool Lia.
From Verif Require Import Base.Prelude Model.Iset Proofs.InterDiffProofs.
From Verif Require Import Jit.Lang Jit.Interp Jit.Safety Jit.Tactics Jit.ArrayFacts Gen.Kernels.
From Verif Require Import Inv.Jitrestrict_func.
Import ListNotations.
Open Scope Z_scope.

#[local] Hint Rewrite zlen_tcells zlen_firsts zlen_seconds : zlen.

(* ---------- encoding of inputs and outputs ---------- *)
Definition iset_args (A B : iset) : list value :=
  [Ar (A1 DFlt (tcells (firsts A))); Ar (A1 DFlt (tcells (seconds A)));
   Ar (A1 DFlt (tcells (firsts B))); Ar (A1 DFlt (tcells (seconds B)))].

Notation imeta := (Z * Z * (nat * nat))%type.
Definition col_s (r : list imeta) : list Z := map (fun x => fst (fst x)) r.
Definition col_e (r : list imeta) : list Z := map (fun x => snd (fst x)) r.
Definition mcells (r : list imeta) : list sval :=
  flat_map (fun x => [VInt (Z.of_nat (fst (snd x))); VInt (Z.of_nat (snd (snd x)))]) r.
Definition inter_result (r : list imeta) : list value :=
  [Ar (A1 DFlt (tcells (col_s r))); Ar (A1 DFlt (tcells (col_e r))); Ar (A2 DInt (zlen r) 2 (mcells r))].

(* ---------- generic facts ---------- *)
Lemma fmax_inj : forall a b, fmax (Some (inject_Z a)) (Some (inject_Z b)) = Some (inject_Z (Z.max a b)).
Proof.
  intros. unfold fmax, f2. rewrite Qle_bool_inj. destruct (Z.leb_spec a b).
  - rewrite Z.max_r by lia. reflexivity.
  - rewrite Z.max_l by lia. reflexivity.
Qed.
Lemma fmin_inj : forall a b, fmin (Some (inject_Z a)) (Some (inject_Z b)) = Some (inject_Z (Z.min a b)).
Proof.
  intros. unfold fmin, f2. rewrite Qle_bool_inj. destruct (Z.leb_spec a b).
  - rewrite Z.min_l by lia. reflexivity.
  - rewrite Z.min_r by lia. reflexivity.
Qed.

Lemma skipn_pair : forall (l : iset) k, 0 <= k < zlen l ->
  skipn (Z.to_nat k) l = (tk (firsts l) k, tk (seconds l) k) :: skipn (S (Z.to_nat k)) l.
Proof.
  intros l k H. unfold tk, firsts, seconds.
  assert (Hn : (Z.to_nat k < length l)%nat) by (unfold zlen in H; lia).
  generalize (Z.to_nat k) Hn. clear. induction l as [|[s e] r IH]; intros n Hn; simpl in Hn; [lia|].
  destruct n; [reflexivity|]. simpl. apply IH. lia.
Qed.

Lemma firstn_updZ_snoc : forall d x y v, 0 <= x < zlen d -> y = x + 1 ->
  firstn (Z.to_nat y) (updZ d x v) = (firstn (Z.to_nat x) d ++ [v])%list.
Proof.
  intros d x y v Hx ->. unfold updZ.
  replace (Z.to_nat (x + 1)) with (S (Z.to_nat x)) by lia.
  rewrite (firstn_snoc _ (Z.to_nat x) dflt) by (rewrite upd_nth_length; unfold zlen in Hx; lia).
  rewrite firstn_upd_nth_ge by lia.
  rewrite nth_upd_nth_same by (unfold zlen in Hx; lia). reflexivity.
Qed.

Lemma firstn_updZ_ge : forall d x y v, 0 <= x <= y ->
  firstn (Z.to_nat x) (updZ d y v) = firstn (Z.to_nat x) d.
Proof. intros. unfold updZ. apply firstn_upd_nth_ge. lia. Qed.

Lemma norm_bound_id : forall n b, 0 <= b <= n -> norm_bound n b = b.
Proof.
  intros. unfold norm_bound. assert (E : (b <? 0) = false) by (apply Z.ltb_ge; lia). rewrite E. lia.
Qed.

Lemma tcells_app : forall a b, tcells (a ++ b) = (tcells a ++ tcells b)%list.
Proof. intros. unfold tcells. apply map_app. Qed.

(* ---------- the filled prefix of the three output buffers ---------- *)
Definition filled (pre : list imeta) (ct : Z) (ns ne mt : list sval) : Prop :=
  zlen pre = ct
  /\ firstn (Z.to_nat ct) ns = tcells (col_s pre)
  /\ firstn (Z.to_nat ct) ne = tcells (col_e pre)
  /\ firstn (Z.to_nat (2 * ct)) mt = mcells pre.

Lemma filled_0 : forall ns ne mt, filled [] 0 ns ne mt.
Proof. intros. repeat split. Qed.

Lemma filled_snoc : forall pre ct ns ne mt a b i j,
  filled pre ct ns ne mt -> ct < zlen ns -> ct < zlen ne -> 2 * ct + 1 < zlen mt -> 0 <= i -> 0 <= j ->
  filled (pre ++ [(a, b, (Z.to_nat i, Z.to_nat j))]) (ct + 1)
         (updZ ns ct (tcell a)) (updZ ne ct (tcell b))
         (updZ (updZ mt (ct * 2 + 0) (VInt i)) (ct * 2 + 1) (VInt j)).
Proof.
  intros pre ct ns ne mt a b i j (L & F1 & F2 & F3) H1 H2 H3 Hi Hj.
  assert (0 <= ct) by (rewrite <- L; apply zlen_nonneg).
  unfold filled, col_s, col_e, mcells. rewrite !map_app, flat_map_app. cbn [map flat_map fst snd app].
  repeat split.
  - unfold zlen in *. rewrite app_length. simpl. lia.
  - rewrite (firstn_updZ_snoc ns ct) by lia. rewrite F1, tcells_app. reflexivity.
  - rewrite (firstn_updZ_snoc ne ct) by lia. rewrite F2, tcells_app. reflexivity.
  - rewrite (firstn_updZ_snoc _ (ct * 2 + 1)) by (rewrite ?zlen_updZ; lia).
    rewrite (firstn_updZ_snoc _ (ct * 2 + 0)) by lia.
    replace (Z.to_nat (ct * 2 + 0)) with (Z.to_nat (2 * ct)) by lia.
    rewrite F3, <- app_assoc. rewrite !Z2Nat.id by lia. reflexivity.
Qed.

Lemma filled_result : forall pre ct ns ne mt R,
  filled pre ct ns ne mt -> ct <= zlen ns -> ct <= zlen ne -> ct <= R ->
  [Ar (A1 DFlt (pyslice ns 0 ct)); Ar (A1 DFlt (pyslice ne 0 ct));
   Ar (A2 DInt (Z.max 0 (norm_bound R ct - norm_bound R 0)) 2
          (slice mt (norm_bound R 0 * 2) (norm_bound R ct * 2)))] = inter_result pre.
Proof.
  intros pre ct ns ne mt R (L & F1 & F2 & F3) H1 H2 H3.
  assert (0 <= ct) by (rewrite <- L; apply zlen_nonneg).
  rewrite !pyslice_0 by lia. rewrite !norm_bound_id by lia. unfold inter_result, slice.
  rewrite F1, F2. replace (Z.max 0 (ct - 0)) with (zlen pre) by lia.
  change (Z.to_nat (0 * 2)) with 0%nat. cbn [skipn].
  replace (Z.to_nat (ct * 2 - 0 * 2)) with (Z.to_nat (2 * ct)) by lia. rewrite F3. reflexivity.
Qed.

(* ---------- the model, indexed by positions ---------- *)
Section Model.
Variables A B : iset.

Definition s1 (k : Z) : Z := tk (firsts A) k.
Definition e1 (k : Z) : Z := tk (seconds A) k.
Definition s2 (k : Z) : Z := tk (firsts B) k.
Definition e2 (k : Z) : Z := tk (seconds B) k.

Definition IG (i j : Z) : list imeta :=
  inter_go (skipn (Z.to_nat i) A) (skipn (Z.to_nat j) B) (Z.to_nat i) (Z.to_nat j).

Lemma IG_end_A : forall i j, zlen A <= i -> IG i j = [].
Proof. intros. unfold IG. rewrite skipn_all2 by (unfold zlen in *; lia). reflexivity. Qed.
Lemma IG_end_B : forall i j, zlen B <= j -> IG i j = [].
Proof. intros. unfold IG. rewrite (skipn_all2 B) by (unfold zlen in *; lia). apply inter_go_nil_r. Qed.

Lemma IG_unfold : forall i j, 0 <= i < zlen A -> 0 <= j < zlen B ->
  IG i j = if e2 j <=? s1 i then IG i (j + 1)
           else if s2 j <? e1 i then
                  (Z.max (s1 i) (s2 j), Z.min (e1 i) (e2 j), (Z.to_nat i, Z.to_nat j))
                  :: (if e2 j <? e1 i then IG i (j + 1) else IG (i + 1) j)
                else IG (i + 1) j.
Proof.
  intros i j Hi Hj. unfold IG.
  replace (Z.to_nat (i + 1)) with (S (Z.to_nat i)) by lia.
  replace (Z.to_nat (j + 1)) with (S (Z.to_nat j)) by lia.
  rewrite (skipn_pair A i), (skipn_pair B j) by assumption.
  rewrite inter_go_cons. reflexivity.
Qed.

Lemma IG_skip : forall i j, 0 <= i < zlen A -> 0 <= j < zlen B -> e2 j <= s1 i -> IG i j = IG i (j + 1).
Proof.
  intros i j Hi Hj H. rewrite IG_unfold by assumption.
  assert (E : (e2 j <=? s1 i) = true) by (apply Z.leb_le; lia). rewrite E. reflexivity.
Qed.
Lemma IG_emit_j : forall i j, 0 <= i < zlen A -> 0 <= j < zlen B -> s1 i < e2 j -> s2 j < e1 i -> e2 j < e1 i ->
  IG i j = (Z.max (s1 i) (s2 j), Z.min (e1 i) (e2 j), (Z.to_nat i, Z.to_nat j)) :: IG i (j + 1).
Proof.
  intros i j Hi Hj H H' H''. rewrite IG_unfold by assumption.
  assert (E : (e2 j <=? s1 i) = false) by (apply Z.leb_gt; lia). rewrite E.
  assert (E' : (s2 j <? e1 i) = true) by (apply Z.ltb_lt; lia). rewrite E'.
  assert (E'' : (e2 j <? e1 i) = true) by (apply Z.ltb_lt; lia). rewrite E''. reflexivity.
Qed.
Lemma IG_emit_i : forall i j, 0 <= i < zlen A -> 0 <= j < zlen B -> s1 i < e2 j -> s2 j < e1 i -> e1 i <= e2 j ->
  IG i j = (Z.max (s1 i) (s2 j), Z.min (e1 i) (e2 j), (Z.to_nat i, Z.to_nat j)) :: IG (i + 1) j.
Proof.
  intros i j Hi Hj H H' H''. rewrite IG_unfold by assumption.
  assert (E : (e2 j <=? s1 i) = false) by (apply Z.leb_gt; lia). rewrite E.
  assert (E' : (s2 j <? e1 i) = true) by (apply Z.ltb_lt; lia). rewrite E'.
  assert (E'' : (e2 j <? e1 i) = false) by (apply Z.ltb_ge; lia). rewrite E''. reflexivity.
Qed.
Lemma IG_next_i : forall i j, 0 <= i < zlen A -> 0 <= j < zlen B -> s1 i < e2 j -> e1 i <= s2 j ->
  IG i j = IG (i + 1) j.
Proof.
  intros i j Hi Hj H H'. rewrite IG_unfold by assumption.
  assert (E : (e2 j <=? s1 i) = false) by (apply Z.leb_gt; lia). rewrite E.
  assert (E' : (s2 j <? e1 i) = false) by (apply Z.ltb_ge; lia). rewrite E'. reflexivity.
Qed.

(* ---------- loop invariants ---------- *)
Definition target : list imeta := k_inter_meta A B.

Definition Inv0 (i j ct : Z) (ns ne mt : list sval) : Prop :=
  exists pre, filled pre ct ns ne mt /\ (pre ++ IG i j)%list = target.
Definition Inv1 (i j0 j : Z) : Prop := IG i j = IG i j0.

Lemma T_inv0_init : forall ns ne mt, Inv0 0 0 0 ns ne mt.
Proof. intros. exists []. split; [apply filled_0 | reflexivity]. Qed.

Lemma T_inv1_init : forall i j, Inv1 i j j.
Proof. reflexivity. Qed.
Lemma T_inv1_step : forall i j0 j, Inv1 i j0 j -> 0 <= i < zlen A -> 0 <= j < zlen B -> e2 j <= s1 i ->
  Inv1 i j0 (j + 1).
Proof. unfold Inv1. intros i j0 j H Hi Hj Hle. rewrite <- IG_skip by assumption. exact H. Qed.


Lemma T_emit : forall i j0 j ct ns ne mt i' j',
  Inv0 i j0 ct ns ne mt -> Inv1 i j0 j -> 0 <= i < zlen A -> 0 <= j < zlen B ->
  ct < zlen ns -> ct < zlen ne -> 2 * ct + 1 < zlen mt ->
  IG i j = (Z.max (s1 i) (s2 j), Z.min (e1 i) (e2 j), (Z.to_nat i, Z.to_nat j)) :: IG i' j' ->
  Inv0 i' j' (ct + 1)
    (updZ ns ct (VFlt (fmax (Some (inject_Z (s1 i))) (Some (inject_Z (s2 j))))))
    (updZ ne ct (VFlt (fmin (Some (inject_Z (e1 i))) (Some (inject_Z (e2 j))))))
    (updZ (updZ mt (ct * 2 + 0) (VInt i)) (ct * 2 + 1) (VInt j)).
Proof.
  unfold Inv0, Inv1. intros i j0 j ct ns ne mt i' j' [pre [F E]] I1 Hi Hj H1 H2 H3 U.
  exists (pre ++ [(Z.max (s1 i) (s2 j), Z.min (e1 i) (e2 j), (Z.to_nat i, Z.to_nat j))])%list. split.
  - rewrite fmax_inj, fmin_inj. apply filled_snoc; try assumption; lia.
  - rewrite <- app_assoc. cbn [app]. rewrite <- U, I1. exact E.
Qed.

Lemma T_emit_j : forall i j0 j ct ns ne mt,
  Inv0 i j0 ct ns ne mt -> Inv1 i j0 j -> 0 <= i < zlen A -> 0 <= j < zlen B ->
  ct < zlen ns -> ct < zlen ne -> 2 * ct + 1 < zlen mt ->
  s1 i < e2 j -> s2 j < e1 i -> e2 j < e1 i ->
  Inv0 i (j + 1) (ct + 1)
    (updZ ns ct (VFlt (fmax (Some (inject_Z (s1 i))) (Some (inject_Z (s2 j))))))
    (updZ ne ct (VFlt (fmin (Some (inject_Z (e1 i))) (Some (inject_Z (e2 j))))))
    (updZ (updZ mt (ct * 2 + 0) (VInt i)) (ct * 2 + 1) (VInt j)).
Proof. intros. eapply T_emit; eauto. apply IG_emit_j; assumption. Qed.

Lemma T_emit_i : forall i j0 j ct ns ne mt,
  Inv0 i j0 ct ns ne mt -> Inv1 i j0 j -> 0 <= i < zlen A -> 0 <= j < zlen B ->
  ct < zlen ns -> ct < zlen ne -> 2 * ct + 1 < zlen mt ->
  s1 i < e2 j -> s2 j < e1 i -> e1 i <= e2 j ->
  Inv0 (i + 1) j (ct + 1)
    (updZ ns ct (VFlt (fmax (Some (inject_Z (s1 i))) (Some (inject_Z (s2 j))))))
    (updZ ne ct (VFlt (fmin (Some (inject_Z (e1 i))) (Some (inject_Z (e2 j))))))
    (updZ (updZ mt (ct * 2 + 0) (VInt i)) (ct * 2 + 1) (VInt j)).
Proof. intros. eapply T_emit; eauto. apply IG_emit_i; assumption. Qed.

Lemma T_next_i : forall i j0 j ct ns ne mt,
  Inv0 i j0 ct ns ne mt -> Inv1 i j0 j -> 0 <= i < zlen A -> 0 <= j < zlen B ->
  s1 i < e2 j -> e1 i <= s2 j ->
  Inv0 (i + 1) j ct ns ne mt.
Proof.
  unfold Inv0, Inv1. intros i j0 j ct ns ne mt [pre [F E]] I1 Hi Hj H1 H2.
  exists pre. split; [exact F|]. rewrite <- IG_next_i, I1 by assumption. exact E.
Qed.

Lemma T_final : forall i j ct ns ne mt R,
  Inv0 i j ct ns ne mt -> zlen A <= i \/ zlen B <= j -> ct <= zlen ns -> ct <= zlen ne -> ct <= R ->
  [Ar (A1 DFlt (pyslice ns 0 ct)); Ar (A1 DFlt (pyslice ne 0 ct));
   Ar (A2 DInt (Z.max 0 (norm_bound R ct - norm_bound R 0)) 2
          (slice mt (norm_bound R 0 * 2) (norm_bound R ct * 2)))] = inter_result target.
Proof.
  unfold Inv0. intros i j ct ns ne mt R [pre [F E]] X H1 H2 H3.
  rewrite (filled_result pre) by assumption. f_equal.
  destruct X as [X|X]; [rewrite IG_end_A in E by assumption | rewrite IG_end_B in E by assumption];
    rewrite app_nil_r in E; exact E.
Qed.

Lemma T_final_j : forall i j0 j ct ns ne mt R,
  Inv0 i j0 ct ns ne mt -> Inv1 i j0 j -> zlen B <= j -> ct <= zlen ns -> ct <= zlen ne -> ct <= R ->
  [Ar (A1 DFlt (pyslice ns 0 ct)); Ar (A1 DFlt (pyslice ne 0 ct));
   Ar (A2 DInt (Z.max 0 (norm_bound R ct - norm_bound R 0)) 2
          (slice mt (norm_bound R 0 * 2) (norm_bound R ct * 2)))] = inter_result target.
Proof.
  intros i j0 j ct ns ne mt R I0 I1 X H1 H2 H3. apply (T_final i j); try assumption; [|right; assumption].
  unfold Inv0, Inv1 in *. destruct I0 as [pre [F E]]. exists pre. split; [exact F|]. rewrite I1. exact E.
Qed.

End Model.

Local Open Scope string_scope.
Definition ann_func (A B : iset) (l : nat) : annot :=
  match l with
  | 0%nat => ALoop [("i", KInt); ("j", KInt); ("ct", KInt);
                    ("newstart", KArr); ("newend", KArr); ("newmeta", KArr)]
                   (fun st0 st => 0 <= getZ st "i" <= zlen A /\ 0 <= getZ st "j" <= zlen B
                                  /\ 0 <= getZ st "ct" <= getZ st "i" + getZ st "j"
                                  /\ zlen (getD st "newmeta") = 2 * (zlen A + zlen B)
                                  /\ Inv0 A B (getZ st "i") (getZ st "j") (getZ st "ct")
                                       (getD st "newstart") (getD st "newend") (getD st "newmeta"))
  | 1%nat => ALoop [("j", KInt)]
                   (fun st0 st => getZ st0 "j" <= getZ st "j" <= zlen B
                                  /\ Inv1 A B (getZ st0 "i") (getZ st0 "j") (getZ st "j"))
  | _ => ANone
  end.

Theorem k_jitintersect_computes_model : forall A B fuel,
  match run fuel k_jitintersect (iset_args A B) with
  | Return rs => rs = inter_result (k_inter_meta A B)
  | OutOfFuel => True
  | _ => False
  end.
Proof.
  intros A B fuel.
  pose proof (run_sound all_kernels (ann_func A B) k_jitintersect
                (fun rs => rs = inter_result (k_inter_meta A B)) (iset_args A B) fuel) as RS.
  unfold run.
  match type of RS with ?P -> _ => assert (W : P) end.
  2: { specialize (RS W). unfold Interp.run in *.
       destruct (exec all_kernels fuel (fbody k_jitintersect) (init_store k_jitintersect (iset_args A B)));
         simpl in *; auto. }
  clear RS. unfold iset_args. pose proof (zlen_nonneg A) as HA0. pose proof (zlen_nonneg B) as HB0.
  wp_compute k_jitintersect ann_func.
  change (Z.max 0 2) with 2.
  vc k_jitintersect ann_func.
  all: try solve [arith].
  all: repeat match goal with
         | Hc : context [to_flt (nthZ (tcells ?l) ?k)] |- _ =>
             rewrite (nth_tcells l k) in Hc by (autorewrite with zlen; lia)
         | |- context [to_flt (nthZ (tcells ?l) ?k)] =>
             rewrite (nth_tcells l k) by (autorewrite with zlen; lia)
         end.
  all: repeat match goal with
         | Hc : context [cmp_flt Lt (Some (inject_Z _)) (Some (inject_Z _))] |- _ => rewrite cmp_lt_inj in Hc
         | Hc : context [cmp_flt Gt (Some (inject_Z _)) (Some (inject_Z _))] |- _ => rewrite cmp_gt_inj in Hc
         end.
  all: repeat match goal with
         | Hc : (_ <? _)%Z = _ |- _ => b2p Hc
         | Hc : (_ <=? _)%Z = _ |- _ => b2p Hc
         end.
  all: autorewrite with zlen in *.
  all: repeat match goal with Hc : ?a = ?b |- _ => is_var a; is_var b; subst a end.
  all: try apply zlen_nonneg.
  all: try apply T_inv0_init.
  all: try lia.
  all: try match goal with
         | I0 : Inv0 _ _ ?i ?j0 ?ct ?ns ?ne ?mt, I1 : Inv1 _ _ ?i ?j0 ?j |- Inv0 _ _ ?i (?j + 1) (?ct + 1) _ _ _ =>
             apply (T_emit_j A B i j0 j ct ns ne mt I0 I1); unfold s1, e1, s2, e2; lia
         | I0 : Inv0 _ _ ?i ?j0 ?ct ?ns ?ne ?mt, I1 : Inv1 _ _ ?i ?j0 ?j |- Inv0 _ _ (?i + 1) ?j (?ct + 1) _ _ _ =>
             apply (T_emit_i A B i j0 j ct ns ne mt I0 I1); unfold s1, e1, s2, e2; lia
         | I0 : Inv0 _ _ ?i ?j0 ?ct ?ns ?ne ?mt, I1 : Inv1 _ _ ?i ?j0 ?j |- Inv0 _ _ (?i + 1) ?j ?ct ?ns ?ne ?mt =>
             apply (T_next_i A B i j0 j ct ns ne mt I0 I1); unfold s1, e1, s2, e2; lia
         | |- Inv1 _ _ _ _ (_ + 1) => apply T_inv1_step; [assumption | lia | lia | unfold s1, e2; lia]
         | I0 : Inv0 _ _ ?i ?j0 ?ct ?ns ?ne ?mt, I1 : Inv1 _ _ ?i ?j0 ?j |- _ = inter_result _ =>
             apply (T_final_j A B i j0 j ct ns ne mt _ I0 I1); lia
         | I0 : Inv0 _ _ ?i ?j ?ct ?ns ?ne ?mt |- _ = inter_result _ =>
             apply (T_final A B i j ct ns ne mt _ I0); [left; lia | lia | lia | lia]
         end.
Qed.

(* not vacuous: with enough fuel the kernel does return (termination itself is not proved) *)
Example k_jitintersect_runs :
  run 100 k_jitintersect (iset_args [(0, 10); (20, 30)] [(5, 25)])
  = Return (inter_result [(5, 10, (0%nat, 0%nat)); (20, 25, (1%nat, 0%nat))]).
Proof. vm_compute. reflexivity. Qed.

(* the interval arrays are those of the model [k_inter] *)
Lemma col_s_inter : forall A B, col_s (k_inter_meta A B) = starts (k_inter A B).
Proof. intros. unfold col_s, starts, k_inter. rewrite map_map. reflexivity. Qed.
Lemma col_e_inter : forall A B, col_e (k_inter_meta A B) = ends (k_inter A B).
Proof. intros. unfold col_e, ends, k_inter. rewrite map_map. reflexivity. Qed.

Print Assumptions k_jitintersect_computes_model.
