(* Functional correctness of the TRANSLATED jitunion_isets against the functional model
   [k_union_n] of Model/Iset.v, by proof (partial correctness through [run_sound], as in
   Inv/Jitrestrict_func.v):

     for every list l of (start, end) ticks, running the translated kernel on the arrays of
     starts l / ends l returns, whenever it returns, exactly the two arrays of [k_union_n l].

   Hypothesis: the starts are pairwise distinct OR every interval has start <= end.
   It is needed only because of TIES: the interpreter's argsort ([Interp.argsort]) places, among equal
   keys, the later position first, the model's [sort_by_start] is stable, and on a tie involving an
   interval with end < start the sweep [union_n_go] depends on the order (see [tie_disagreement]).
   Without any hypothesis the kernel computes the sweep of [sort_r l] (insertion from the right),
   theorem [k_jitunion_isets_computes_sorted].
   Times are embedded as in Jitrestrict_func ([tcells]: the rationals [inject_Z t]); the kernel only
   compares, copies and takes maxima of times. *)
From Coq Require Import ZArith QArith String List Bool Lia Permutation.
From Verif Require Import Base.Prelude Model.Iset.
From Verif Require Import Jit.Lang Jit.Interp Jit.Safety Jit.Tactics Jit.ArrayFacts Gen.Kernels.
From Verif Require Import Inv.Jitrestrict_func.
Import ListNotations.
Open Scope Z_scope.

(* ---------- the two insertion sorts ---------- *)
Definition sort_r (l : iset) : iset := fold_right insert_by_start [] l.

Lemma sort_by_start_rev : forall l, sort_by_start l = sort_r (rev l).
Proof. intros l. unfold sort_by_start, sort_r. symmetry. apply fold_left_rev_right. Qed.

(* two lists that differ by exchanging neighbours with the same start *)
Inductive tieq : iset -> iset -> Prop :=
| tq_refl : forall l, tieq l l
| tq_swap : forall s e1 e2 r, tieq ((s, e1) :: (s, e2) :: r) ((s, e2) :: (s, e1) :: r)
| tq_cons : forall x l1 l2, tieq l1 l2 -> tieq (x :: l1) (x :: l2)
| tq_trans : forall l1 l2 l3, tieq l1 l2 -> tieq l2 l3 -> tieq l1 l3.

Definition proper (I : Z * Z) : Prop := fst I <= snd I.

Lemma tieq_perm : forall l1 l2, tieq l1 l2 -> Permutation l1 l2.
Proof.
  induction 1.
  - apply Permutation_refl.
  - apply perm_swap.
  - apply perm_skip; assumption.
  - eapply perm_trans; eassumption.
Qed.

Lemma tieq_union : forall l1 l2, tieq l1 l2 -> Forall proper l1 ->
  forall cs ce, union_n_go cs ce l1 = union_n_go cs ce l2.
Proof.
  induction 1 as [l | s e1 e2 r | [s e] l1 l2 H IH | l1 l2 l3 H1 IH1 H2 IH2]; intros F cs ce.
  - reflexivity.
  - inversion F as [|? ? P1 F']; subst. inversion F' as [|? ? P2 _]; subst.
    unfold proper in P1, P2. simpl in P1, P2. simpl.
    destruct (Z.ltb_spec ce s).
    + assert (E1 : (e1 <? s) = false) by (apply Z.ltb_ge; lia).
      assert (E2 : (e2 <? s) = false) by (apply Z.ltb_ge; lia).
      rewrite E1, E2. rewrite (Z.max_comm e1 e2). reflexivity.
    + assert (E1 : (Z.max ce e1 <? s) = false) by (apply Z.ltb_ge; lia).
      assert (E2 : (Z.max ce e2 <? s) = false) by (apply Z.ltb_ge; lia).
      rewrite E1, E2. f_equal. lia.
  - inversion F; subst. simpl. destruct (ce <? s); rewrite IH by assumption; reflexivity.
  - rewrite IH1 by assumption. apply IH2.
    eapply Permutation_Forall; [apply tieq_perm; exact H1 | exact F].
Qed.

Lemma tieq_nodup : forall l1 l2, tieq l1 l2 -> NoDup (map fst l1) -> l1 = l2.
Proof.
  induction 1 as [l | s e1 e2 r | x l1 l2 H IH | l1 l2 l3 H1 IH1 H2 IH2]; intros N.
  - reflexivity.
  - simpl in N. inversion N as [|? ? N1 _]; subst. exfalso. apply N1. left. reflexivity.
  - simpl in N. inversion N; subst. f_equal. apply IH. assumption.
  - rewrite <- (IH1 N) in *. apply IH2. exact N.
Qed.

Lemma tieq_insert : forall x l1 l2, tieq l1 l2 -> tieq (insert_by_start x l1) (insert_by_start x l2).
Proof.
  intros x. induction 1 as [l | s e1 e2 r | y l1 l2 H IH | l1 l2 l3 H1 IH1 H2 IH2].
  - apply tq_refl.
  - simpl. destruct (fst x <? s).
    + apply tq_cons. apply tq_swap.
    + apply tq_swap.
  - simpl. destruct (fst x <? fst y).
    + apply tq_cons. apply tq_cons. exact H.
    + apply tq_cons. exact IH.
  - eapply tq_trans; eassumption.
Qed.

Lemma insert_comm : forall x y l,
  tieq (insert_by_start x (insert_by_start y l)) (insert_by_start y (insert_by_start x l)).
Proof.
  intros [sx ex] [sy ey] l. induction l as [|[sz ez] r IH]; simpl.
  - destruct (Z.ltb_spec sy sx), (Z.ltb_spec sx sy); try lia; try apply tq_refl.
    assert (sx = sy) by lia. subst. apply tq_swap.
  - destruct (Z.ltb_spec sy sz), (Z.ltb_spec sx sz); simpl.
    + destruct (Z.ltb_spec sx sy), (Z.ltb_spec sy sx); try lia.
      * destruct (Z.ltb_spec sy sz); try lia. apply tq_refl.
      * destruct (Z.ltb_spec sx sz); try lia. apply tq_refl.
      * destruct (Z.ltb_spec sx sz), (Z.ltb_spec sy sz); try lia.
        assert (sx = sy) by lia. subst. apply tq_swap.
    + destruct (Z.ltb_spec sx sy); try lia. destruct (Z.ltb_spec sx sz); try lia.
      destruct (Z.ltb_spec sy sz); try lia. apply tq_refl.
    + destruct (Z.ltb_spec sy sx); try lia. destruct (Z.ltb_spec sy sz); try lia.
      destruct (Z.ltb_spec sx sz); try lia. apply tq_refl.
    + destruct (Z.ltb_spec sx sz); try lia. destruct (Z.ltb_spec sy sz); try lia.
      apply tq_cons. exact IH.
Qed.

Lemma sort_r_perm : forall l l', Permutation l l' -> tieq (sort_r l) (sort_r l').
Proof.
  induction 1 as [| x l l' H IH | x y l | l l' l'' H1 IH1 H2 IH2].
  - apply tq_refl.
  - simpl. apply tieq_insert. exact IH.
  - simpl. apply insert_comm.
  - eapply tq_trans; eassumption.
Qed.

Lemma insert_perm : forall x l, Permutation (insert_by_start x l) (x :: l).
Proof.
  intros x. induction l as [|y r IH]; simpl; [apply Permutation_refl|].
  destruct (fst x <? fst y); [apply Permutation_refl|].
  eapply perm_trans; [apply perm_skip; exact IH | apply perm_swap].
Qed.
Lemma sort_r_is_perm : forall l, Permutation (sort_r l) l.
Proof.
  induction l as [|x r IH]; simpl; [apply Permutation_refl|].
  eapply perm_trans; [apply insert_perm | apply perm_skip; exact IH].
Qed.

(* the n-ary union of a start-sorted list *)
Definition un (S : iset) : iset := match S with [] => [] | (s, e) :: r => union_n_go s e r end.

Lemma tieq_un : forall l1 l2, tieq l1 l2 -> Forall proper l1 -> un l1 = un l2.
Proof.
  induction 1 as [l | s e1 e2 r | [s e] l1 l2 H IH | l1 l2 l3 H1 IH1 H2 IH2]; intros F.
  - reflexivity.
  - inversion F as [|? ? P1 F']; subst. inversion F' as [|? ? P2 _]; subst.
    unfold proper in P1, P2. simpl in P1, P2. simpl.
    assert (E1 : (e1 <? s) = false) by (apply Z.ltb_ge; lia).
    assert (E2 : (e2 <? s) = false) by (apply Z.ltb_ge; lia).
    rewrite E1, E2. rewrite (Z.max_comm e1 e2). reflexivity.
  - inversion F; subst. simpl. apply tieq_union; assumption.
  - rewrite IH1 by assumption. apply IH2.
    eapply Permutation_Forall; [apply tieq_perm; exact H1 | exact F].
Qed.

Theorem union_model_sort_r : forall l,
  NoDup (map fst l) \/ Forall proper l -> k_union_n l = un (sort_r l).
Proof.
  intros l H. unfold k_union_n. fold (un (sort_by_start l)). rewrite sort_by_start_rev.
  pose proof (sort_r_perm (rev l) l (Permutation_sym (Permutation_rev l))) as T.
  destruct H as [N|F].
  - rewrite (tieq_nodup _ _ T); [reflexivity|].
    eapply Permutation_NoDup; [|exact N]. apply Permutation_map.
    eapply perm_trans; [apply Permutation_rev | apply Permutation_sym; apply sort_r_is_perm].
  - apply tieq_un; [exact T|].
    eapply Permutation_Forall; [|exact F].
    eapply perm_trans; [apply Permutation_rev | apply Permutation_sym; apply sort_r_is_perm].
Qed.

(* ---------- the interpreter's argsort on embedded ticks is [sort_r] ---------- *)
Fixpoint tag (o : Z) (l : iset) : list ((Z * Z) * Z) :=
  match l with [] => [] | x :: r => (x, o) :: tag (o + 1) r end.
Fixpoint insT (x : (Z * Z) * Z) (l : list ((Z * Z) * Z)) : list ((Z * Z) * Z) :=
  match l with
  | [] => [x]
  | y :: r => if fst (fst x) <? fst (fst y) then x :: l else y :: insT x r
  end.
Definition sortT (l : list ((Z * Z) * Z)) := fold_right insT [] l.
Definition enc (p : (Z * Z) * Z) : option Q * Z := (Some (inject_Z (fst (fst p))), snd p).

Lemma combine_tag : forall l o,
  combine (map to_flt (tcells (firsts l))) (zrange o (length l)) = map enc (tag o l).
Proof.
  induction l as [|[s e] r IH]; intros o; [reflexivity|].
  simpl. f_equal. apply IH.
Qed.

Lemma ins_enc : forall x L, ins (fst (enc x)) (snd (enc x)) (map enc L) = map enc (insT x L).
Proof.
  intros x. induction L as [|y r IH]; [reflexivity|].
  simpl map. destruct y as [[sy ey] j]. destruct x as [[sx ex] i]. simpl in *.
  rewrite Qle_bool_inj. rewrite Z.ltb_antisym. destruct (sy <=? sx); simpl.
  - f_equal. exact IH.
  - reflexivity.
Qed.

Lemma isort_enc : forall L, isort (map enc L) = map enc (sortT L).
Proof.
  induction L as [|x r IH]; [reflexivity|].
  simpl. rewrite IH. apply (ins_enc x (sortT r)).
Qed.

Lemma map_fst_insT : forall x L, map fst (insT x L) = insert_by_start (fst x) (map fst L).
Proof.
  intros x. induction L as [|y r IH]; [reflexivity|].
  simpl. destruct (fst (fst x) <? fst (fst y)); simpl; [reflexivity|]. f_equal. exact IH.
Qed.
Lemma map_fst_sortT : forall L, map fst (sortT L) = sort_r (map fst L).
Proof.
  induction L as [|x r IH]; [reflexivity|]. simpl. rewrite map_fst_insT, IH. reflexivity.
Qed.
Lemma map_fst_tag : forall l o, map fst (tag o l) = l.
Proof. induction l as [|x r IH]; intros o; simpl; [reflexivity|]. f_equal. apply IH. Qed.

Lemma in_insT : forall p x L, In p (insT x L) -> p = x \/ In p L.
Proof.
  intros p x. induction L as [|y r IH]; simpl; intros H.
  - destruct H as [<-|[]]. left; reflexivity.
  - destruct (fst (fst x) <? fst (fst y)); simpl in H.
    + destruct H as [<-|H]; [left; reflexivity | right; exact H].
    + destruct H as [<-|H]; [right; left; reflexivity|].
      destruct (IH H) as [->|H']; [left; reflexivity | right; right; exact H'].
Qed.
Lemma in_sortT : forall p L, In p (sortT L) -> In p L.
Proof.
  intros p. induction L as [|x r IH]; simpl; intros H; [contradiction|].
  destruct (in_insT _ _ _ H) as [->|H']; [left; reflexivity | right; apply IH; exact H'].
Qed.
Lemma in_tag : forall l o p, In p (tag o l) ->
  o <= snd p < o + zlen l /\ nth (Z.to_nat (snd p - o)) l (0, 0) = fst p.
Proof.
  induction l as [|x r IH]; intros o p H; simpl in H; [contradiction|].
  rewrite zlen_cons. pose proof (zlen_nonneg r). destruct H as [<-|H].
  - simpl. split; [lia|]. rewrite Z.sub_diag. reflexivity.
  - apply IH in H. destruct H as [H1 H2]. split; [lia|].
    replace (Z.to_nat (snd p - o)) with (S (Z.to_nat (snd p - (o + 1)))) by lia. exact H2.
Qed.

Lemma gather_sorted : forall (f : Z * Z -> Z) l,
  gather (tcells (map f l)) (argsort (tcells (firsts l))) = tcells (map f (sort_r l)).
Proof.
  intros f l. unfold argsort.
  replace (length (tcells (firsts l))) with (length l)
    by (unfold tcells, firsts; rewrite !map_length; reflexivity).
  assert (E : sort_r l = map fst (sortT (tag 0 l))) by (rewrite map_fst_sortT, map_fst_tag; reflexivity).
  rewrite E. rewrite combine_tag, isort_enc. unfold gather. rewrite !map_map.
  unfold tcells. rewrite !map_map.
  apply map_ext_in. intros p Hp. apply in_sortT in Hp. apply in_tag in Hp.
  destruct Hp as [H1 H2]. simpl. rewrite Z.sub_0_r in H2.
  unfold nthZ. rewrite (nth_indep _ dflt (tcell (f (0, 0)))) by (rewrite !map_length; unfold zlen in H1; lia).
  rewrite (map_nth (fun x => tcell (f x))). rewrite H2. reflexivity.
Qed.

Lemma gather_firsts : forall l,
  gather (tcells (firsts l)) (argsort (tcells (firsts l))) = tcells (firsts (sort_r l)).
Proof. intros. apply (gather_sorted fst). Qed.
Lemma gather_seconds : forall l,
  gather (tcells (seconds l)) (argsort (tcells (firsts l))) = tcells (seconds (sort_r l)).
Proof. intros. apply (gather_sorted snd). Qed.
Lemma zlen_sort_r : forall l, zlen (sort_r l) = zlen l.
Proof. intros. unfold zlen. rewrite (Permutation_length (sort_r_is_perm l)). reflexivity. Qed.
#[local] Hint Rewrite zlen_tcells zlen_firsts zlen_seconds zlen_sort_r : zlen.

(* ---------- the sweep, indexed by positions in the sorted list ---------- *)
Section Model.
Variable S : iset.
Definition InvU (i ct : Z) (q : option Q) (ns ne : list sval) : Prop :=
  exists P cs ce,
    zlen P = ct /\ q = Some (inject_Z ce)
    /\ firstn (Z.to_nat (ct + 1)) ns = tcells (firsts P ++ [cs])
    /\ firstn (Z.to_nat ct) ne = tcells (seconds P)
    /\ (P ++ union_n_go cs ce (skipn (Z.to_nat i) S))%list = un S.

Definition sk (k : Z) : Z := tk (firsts S) k.
Definition ek (k : Z) : Z := tk (seconds S) k.

Lemma skipn_S : forall k, 0 <= k < zlen S ->
  skipn (Z.to_nat k) S = (sk k, ek k) :: skipn (Z.to_nat (k + 1)) S.
Proof.
  intros k H. unfold sk, ek, tk, firsts, seconds. replace (Z.to_nat (k + 1)) with (Datatypes.S (Z.to_nat k)) by lia.
  assert (Hn : (Z.to_nat k < length S)%nat) by (unfold zlen in H; lia).
  generalize (Z.to_nat k) Hn. clear H Hn. induction S as [|[s e] r IH]; intros n Hn; simpl in Hn; [lia|].
  destruct n; [reflexivity|]. simpl. apply IH. lia.
Qed.

Lemma firstn_updZ_snoc : forall (d : list sval) x v, 0 <= x < zlen d ->
  firstn (Z.to_nat (x + 1)) (updZ d x v) = (firstn (Z.to_nat x) d ++ [v])%list.
Proof.
  intros d x v Hx. unfold updZ. replace (Z.to_nat (x + 1)) with (Datatypes.S (Z.to_nat x)) by lia.
  rewrite (firstn_snoc _ (Z.to_nat x) dflt) by (rewrite upd_nth_length; unfold zlen in Hx; lia).
  rewrite firstn_upd_nth_ge by lia.
  rewrite nth_upd_nth_same by (unfold zlen in Hx; lia). reflexivity.
Qed.
Lemma firstn_updZ_ge : forall (d : list sval) x y v, 0 <= x <= y ->
  firstn (Z.to_nat x) (updZ d y v) = firstn (Z.to_nat x) d.
Proof. intros. unfold updZ. apply firstn_upd_nth_ge. lia. Qed.

Lemma tcells_snoc : forall a x, tcells (a ++ [x]) = (tcells a ++ [VFlt (Some (inject_Z x))])%list.
Proof. intros. unfold tcells. rewrite map_app. reflexivity. Qed.
Lemma firsts_snoc : forall (P : iset) x, firsts (P ++ [x]) = (firsts P ++ [fst x])%list.
Proof. intros. unfold firsts. rewrite map_app. reflexivity. Qed.
Lemma seconds_snoc : forall (P : iset) x, seconds (P ++ [x]) = (seconds P ++ [snd x])%list.
Proof. intros. unfold seconds. rewrite map_app. reflexivity. Qed.

Lemma T_init : forall n, n = zlen S -> 0 < n ->
  InvU 1 0 (Some (inject_Z (ek 0)))
       (updZ (zeros DFlt n (VInt 0)) 0 (VFlt (Some (inject_Z (sk 0))))) (zeros DFlt n (VInt 0)).
Proof.
  intros n -> Hn. exists [], (sk 0), (ek 0). repeat split.
  - change (Z.to_nat (0 + 1)) with (Z.to_nat (0 + 1)). rewrite firstn_updZ_snoc by (rewrite zlen_zeros; lia).
    reflexivity.
  - pose proof (skipn_S 0 ltac:(lia)) as E. change (Z.to_nat 0) with 0%nat in E. simpl skipn in E.
    change (Z.to_nat 1) with (Z.to_nat (0 + 1)). rewrite E. reflexivity.
Qed.

Lemma T_new : forall i ct q ns ne, InvU i ct q ns ne -> 0 <= i < zlen S -> 0 <= ct -> ct + 1 < zlen ns ->
  ct < zlen ne ->
  cmp_flt Gt (Some (inject_Z (sk i))) q = true ->
  InvU (i + 1) (ct + 1) (Some (inject_Z (ek i)))
       (updZ ns (ct + 1) (VFlt (Some (inject_Z (sk i))))) (updZ ne ct (VFlt q)).
Proof.
  intros i ct q ns ne (P & cs & ce & HP & -> & Hs & He & HU) Hi Hct Hns Hne Hc.
  rewrite cmp_gt_inj in Hc. apply Z.ltb_lt in Hc.
  exists (P ++ [(cs, ce)])%list, (sk i), (ek i). repeat split.
  - unfold zlen in *. rewrite app_length. simpl. lia.
  - rewrite firstn_updZ_snoc by lia. rewrite Hs. rewrite firsts_snoc. simpl fst.
    rewrite (tcells_snoc _ (sk i)). reflexivity.
  - rewrite firstn_updZ_snoc by lia. rewrite He. rewrite seconds_snoc. simpl snd.
    rewrite (tcells_snoc _ ce). reflexivity.
  - rewrite <- HU. rewrite (skipn_S i Hi). simpl union_n_go.
    assert (E : (ce <? sk i) = true) by (apply Z.ltb_lt; lia). rewrite E.
    rewrite <- app_assoc. reflexivity.
Qed.

Lemma fmax_inj : forall a b, fmax (Some (inject_Z a)) (Some (inject_Z b)) = Some (inject_Z (Z.max a b)).
Proof.
  intros. unfold fmax, f2. rewrite Qle_bool_inj. destruct (Z.leb_spec a b); f_equal; f_equal; lia.
Qed.

Lemma T_merge : forall i ct q ns ne, InvU i ct q ns ne -> 0 <= i < zlen S ->
  cmp_flt Gt (Some (inject_Z (sk i))) q = false ->
  InvU (i + 1) ct (fmax q (Some (inject_Z (ek i)))) ns ne.
Proof.
  intros i ct q ns ne (P & cs & ce & HP & -> & Hs & He & HU) Hi Hc.
  rewrite cmp_gt_inj in Hc. apply Z.ltb_ge in Hc.
  exists P, cs, (Z.max ce (ek i)). repeat split; try assumption.
  - apply fmax_inj.
  - rewrite <- HU. rewrite (skipn_S i Hi). simpl union_n_go.
    assert (E : (ce <? sk i) = false) by (apply Z.ltb_ge; lia). rewrite E. reflexivity.
Qed.

Lemma T_final : forall i ct q ns ne, InvU i ct q ns ne -> zlen S <= i -> 0 <= ct -> ct < zlen ns ->
  ct < zlen ne ->
  pyslice ns 0 (ct + 1) = tcells (firsts (un S))
  /\ pyslice (updZ ne ct (VFlt q)) 0 (ct + 1) = tcells (seconds (un S)).
Proof.
  intros i ct q ns ne (P & cs & ce & HP & -> & Hs & He & HU) Hi Hct Hns Hne.
  rewrite skipn_all2 in HU by (unfold zlen in Hi; lia). simpl in HU. rewrite <- HU.
  rewrite !pyslice_0 by (rewrite ?zlen_updZ; lia). split.
  - rewrite Hs. rewrite firsts_snoc. reflexivity.
  - rewrite firstn_updZ_snoc by lia. rewrite He. rewrite seconds_snoc. simpl snd.
    rewrite (tcells_snoc _ ce). reflexivity.
Qed.

Lemma T_empty : zlen S = 0 -> zeros DFlt (zlen S) (VInt 0) = tcells (firsts (un S))
                              /\ zeros DFlt (zlen S) (VInt 0) = tcells (seconds (un S)).
Proof.
  intros H. destruct S as [|x r]; [|rewrite zlen_cons in H; pose proof (zlen_nonneg r); lia].
  split; reflexivity.
Qed.
End Model.

Local Open Scope string_scope.
Definition ann_func (l : iset) (lb : nat) : annot :=
  match lb with
  | 1%nat => ALoop [("i", KInt); ("ct", KInt); ("e", KFlt); ("new_start", KArr); ("new_end", KArr)]
                   (fun st0 st => 1 <= getZ st "i" <= zlen l /\ 0 <= getZ st "ct" < getZ st "i"
                                  /\ InvU (sort_r l) (getZ st "i") (getZ st "ct") (to_flt (getsc st "e"))
                                          (getD st "new_start") (getD st "new_end"))
  | _ => ANone
  end.

Definition union_args (l : iset) : list value :=
  [Ar (A1 DFlt (tcells (firsts l))); Ar (A1 DFlt (tcells (seconds l)))].
Definition iset_arrays (o : iset) : list value :=
  [Ar (A1 DFlt (tcells (firsts o))); Ar (A1 DFlt (tcells (seconds o)))].

Lemma k_jitunion_isets_computes_sorted : forall l fuel,
  match run fuel k_jitunion_isets (union_args l) with
  | Return rs => rs = iset_arrays (un (sort_r l))
  | OutOfFuel => True
  | _ => False
  end.
Proof.
  intros l fuel. pose proof (zlen_nonneg l) as Hl0.
  pose proof (run_sound all_kernels (ann_func l) k_jitunion_isets
                (fun rs => rs = iset_arrays (un (sort_r l))) (union_args l) fuel) as RS.
  unfold run.
  match type of RS with ?P -> _ => assert (W : P) end.
  2: { specialize (RS W). unfold Interp.run in *.
       destruct (exec all_kernels fuel (fbody k_jitunion_isets) (init_store k_jitunion_isets (union_args l)));
         simpl in *; auto. }
  clear RS. unfold union_args, iset_arrays.
  wp_compute k_jitunion_isets ann_func.
  vc k_jitunion_isets ann_func.
  all: rewrite ?gather_firsts, ?gather_seconds in *.
  all: try solve [arith].
  all: try (rewrite <- (zlen_firsts l); apply idx_ok_argsort).
  all: try (rewrite zlen_seconds, <- (zlen_firsts l); apply idx_ok_argsort).
  all: repeat match goal with
         | Hc : context [to_flt (nthZ (tcells ?l) ?k)] |- _ =>
             rewrite (nth_tcells l k) in Hc by (autorewrite with zlen; lia)
         | |- context [to_flt (nthZ (tcells ?l) ?k)] =>
             rewrite (nth_tcells l k) by (autorewrite with zlen; lia)
         end.
  all: autorewrite with zlen in *.
  all: try lia.
  all: try (replace (zlen l) with (zlen (tcells (firsts l))) by arith; apply idx_ok_argsort).
  all: try match goal with
         | |- InvU _ 1 0 _ _ _ => apply T_init; autorewrite with zlen; lia
         | I : InvU _ ?i ?ct ?q ?ns ?ne |- InvU _ (?i + 1) (?ct + 1) _ _ _ =>
             apply (T_new _ i ct q ns ne I); autorewrite with zlen; try lia; assumption
         | I : InvU _ ?i ?ct ?q ?ns ?ne |- InvU _ (?i + 1) ?ct _ _ _ =>
             apply (T_merge _ i ct q ns ne I); autorewrite with zlen; try lia; assumption
         end.
  - destruct (T_empty (sort_r l)) as [E1 E2]; [autorewrite with zlen; lia|].
    rewrite zlen_sort_r in E1, E2. rewrite <- E1, <- E2. reflexivity.
  - match goal with
    | I : InvU _ ?i ?ct ?q ?ns ?ne |- _ =>
        destruct (T_final _ i ct q ns ne I) as [E1 E2]; autorewrite with zlen; try lia
    end.
    rewrite E1, E2. reflexivity.
Qed.

Theorem k_jitunion_isets_computes_model : forall l fuel,
  NoDup (firsts l) \/ Forall (fun I => fst I <= snd I) l ->
  match run fuel k_jitunion_isets (union_args l) with
  | Return rs => rs = iset_arrays (k_union_n l)
  | OutOfFuel => True
  | _ => False
  end.
Proof.
  intros l fuel H. rewrite (union_model_sort_r l H). apply k_jitunion_isets_computes_sorted.
Qed.

(* not vacuous: with enough fuel the kernel does return *)
Example k_jitunion_isets_runs :
  run 100 k_jitunion_isets (union_args [(7, 8); (1, 3); (2, 9); (20, 30); (15, 16); (0, 1)])
  = Return (iset_arrays [(0, 9); (15, 16); (20, 30)]).
Proof. vm_compute. reflexivity. Qed.

(* the hypothesis cannot be dropped: equal starts, one interval with end < start *)
Example tie_disagreement :
  run 100 k_jitunion_isets (union_args [(5, 3); (5, 7)]) = Return (iset_arrays [(5, 7)])
  /\ k_union_n [(5, 3); (5, 7)] = [(5, 3); (5, 7)].
Proof. split; vm_compute; reflexivity. Qed.

Print Assumptions k_jitunion_isets_computes_sorted.
Print Assumptions k_jitunion_isets_computes_model.
