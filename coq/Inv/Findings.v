(* C15 findings: inputs that satisfy what the public callers guarantee and on which the checked
   interpreter reports an error on the translated kernel.  Each is proved by computation and is
   meant to be replayed on the real kernel (.py_func, or compiled with NUMBA_BOUNDSCHECK=1). *)
From Coq Require Import ZArith QArith String List Bool.
From Verif Require Import Jit.Lang Jit.Interp Gen.Kernels.
Import ListNotations.
Open Scope Z_scope.
Local Open Scope string_scope.

Definition fl (n : Z) (d : positive) : sval := VFlt (Some (n # d)).

(* 1. HISTORY (repaired since: `i_start = i` is now set before the scan; the repaired kernel is the
   one in Gen/Kernels.v).  _jitperievent_trigger_average read the local i_start before assigning it.
   One count bin at t = 0 s (bin size 1 s), one feature sample at 5 s, epoch [0, 10]:
   the first bin of the epoch holds no feature sample, the branch that assigns i_start is skipped,
   and `i = i_start` follows.  What the wrapper guarantees: starts/ends of equal length,
   count_array has one row per time stamp, data and time stamps of the feature have equal length,
   windows holds two non-negative integers, binsize > 0. *)
Definition Pre_trigger_average (args : list value) : Prop :=
  exists ta n ca tt da s e w0 w1 q,
    args = [Ar (A1 DFlt ta); Ar (A2 DFlt (zlen ta) n ca); Ar (A1 DFlt tt); Ar (A1 DFlt da);
            Ar (A1 DFlt s); Ar (A1 DFlt e); Ar (A1 DInt [VInt w0; VInt w1]); Sc (VFlt (Some q))]
    /\ zlen ca = zlen ta * n /\ zlen da = zlen tt /\ zlen s = zlen e
    /\ 0 <= w0 /\ 0 <= w1 /\ (0 < q)%Q.

(* the kernel as translated from the source BEFORE the repair (`i_start = i` initialisation);
   frozen here because Gen/Kernels.v follows the current source *)
(* _jitperievent_trigger_average: pynapple/process/_process_functions.py:74  sha256(normalised ast) = 6642ca82caff930c827ff330d49d24455ceaabcb1058f43d652fa15401610ab6  sites = 26
   labels (statement@source line): 0=call@88 1=for@105 2=if@106 3=while@111 4=if@115 5=while@119 6=if@120 7=while@125 8=if@126 9=if@135 10=if@138 11=for@139 12=if@152 13=if@153 14=for@154 15=for@155 16=for@168 17=if@169 *)
Definition k__jitperievent_trigger_average_before_fix : func :=
  mkFunc "_jitperievent_trigger_average"
  ["time_array"; "count_array"; "time_target_array"; "data_target_array"; "starts"; "ends"; "windows"; "binsize"]
  ["T"; "N"; "N_epochs"; "idx"; "count"; "max_count"; "new_data_array"; "t"; "hankel_array"; "k"; "t_start"; "maxi"; "i"; "lbound"; "rbound"; "i_start"; "i_stop"; "v"; "checknan"; "n"; "j"; "total"]
  (seq [SAssign "T" (ELen "time_array");
SAssign "N" (ECols "count_array");
SAssign "N_epochs" (ELen "starts");
SCall 0%nat [TVar "idx"; TVar "count"] "jitrestrict_with_count" [AVar "time_target_array"; AVar "starts"; AVar "ends"];
SGather 0%nat "time_target_array" "time_target_array" "idx";
SGather 1%nat "data_target_array" "data_target_array" "idx";
SCumsum "max_count" "count";
SNew2 "new_data_array" DFlt (EBin Add (EUn ToInt (ESumAll "windows")) (EInt (1)%Z)) (ECols "count_array") (EFlt (0 # 1)%Q);
SAssign "t" (EInt (0)%Z);
SNew1 "hankel_array" DFlt (ELen "new_data_array") (EInt (0)%Z);
SFor 1%nat "k" (EInt (0)%Z) (EVar "N_epochs")
 (seq [SIf 2%nat (ECmp Gt (ERead1 2%nat "count" (EVar "k")) (EInt (0)%Z))
 (seq [SAssign "t_start" (EVar "t");
SAssign "maxi" (ERead1 3%nat "max_count" (EVar "k"));
SAssign "i" (EBin Sub (EVar "maxi") (ERead1 4%nat "count" (EVar "k")));
SWhile 3%nat (ECmp Lt (EVar "t") (EVar "T"))
 (seq [SAssign "lbound" (ERead1 5%nat "time_array" (EVar "t"));
SAssign "rbound" (EUn Round9 (EBin Add (EVar "lbound") (EVar "binsize")));
SIf 4%nat (ECmp Lt (ERead1 6%nat "time_target_array" (EVar "i")) (EVar "rbound"))
 (seq [SAssign "i_start" (EVar "i");
SAssign "i_stop" (EVar "i");
SWhile 5%nat (ECmp Lt (EVar "i_stop") (EVar "maxi"))
 (seq [SIf 6%nat (ECmp Lt (ERead1 7%nat "time_target_array" (EVar "i_stop")) (EVar "rbound"))
 (seq [SAssign "i_stop" (EBin Add (EVar "i_stop") (EInt (1)%Z))])
 (seq [SBreak])]);
SWhile 7%nat (ECmp Lt (EVar "i_start") (EBin Sub (EVar "i_stop") (EInt (1)%Z)))
 (seq [SIf 8%nat (ECmp Lt (ERead1 8%nat "time_target_array" (EVar "i_start")) (EVar "lbound"))
 (seq [SAssign "i_start" (EBin Add (EVar "i_start") (EInt (1)%Z))])
 (seq [SBreak])]);
SAssign "v" (EBin Div (ESum "data_target_array" (EVar "i_start") (EVar "i_stop")) (EUn ToFlt (EBin Sub (EVar "i_stop") (EVar "i_start"))));
SAssign "checknan" (EVar "v");
SIf 9%nat (ENot (EUn IsNan (EVar "checknan")))
 (seq [SStore1 9%nat "hankel_array" (EBin Sub (ELen "hankel_array") (EInt (1)%Z)) (EVar "v")])
 (SSkip)])
 (SSkip);
SIf 10%nat (ECmp Ge (EBin Sub (EVar "t") (EVar "t_start")) (ERead1 10%nat "windows" (EInt (1)%Z)))
 (seq [SFor 11%nat "n" (EInt (0)%Z) (EVar "N")
 (seq [SColUpd 13%nat "new_data_array" (EVar "n") Add (Some "hankel_array") (ERead2 11%nat "count_array" (EBin Sub (EVar "t") (ERead1 12%nat "windows" (EInt (1)%Z))) (EVar "n"))])])
 (SSkip);
SShiftLeft "hankel_array";
SStore1 14%nat "hankel_array" (EBin Sub (ELen "hankel_array") (EInt (1)%Z)) (EFlt (0 # 1)%Q);
SAssign "t" (EBin Add (EVar "t") (EInt (1)%Z));
SAssign "i" (EVar "i_start");
SIf 12%nat (EOr (ECmp Eq (EVar "t") (EVar "T")) (ECmp Gt (ERead1 15%nat "time_array" (EVar "t")) (ERead1 16%nat "ends" (EVar "k"))))
 (seq [SIf 13%nat (ECmp Gt (EBin Sub (EVar "t") (EVar "t_start")) (ERead1 17%nat "windows" (EInt (1)%Z)))
 (seq [SFor 14%nat "j" (EInt (0)%Z) (ERead1 18%nat "windows" (EInt (1)%Z))
 (seq [SFor 15%nat "n" (EInt (0)%Z) (EVar "N")
 (seq [SColUpd 21%nat "new_data_array" (EVar "n") Add (Some "hankel_array") (ERead2 19%nat "count_array" (EBin Add (EBin Sub (EVar "t") (ERead1 20%nat "windows" (EInt (1)%Z))) (EVar "j")) (EVar "n"))]);
SShiftLeft "hankel_array";
SStore1 22%nat "hankel_array" (EBin Sub (ELen "hankel_array") (EInt (1)%Z)) (EFlt (0 # 1)%Q)])])
 (SSkip);
SArrScale "hankel_array" (EFlt (0 # 1)%Q);
SBreak])
 (SSkip)])])
 (SSkip)]);
SColSums "total" "count_array";
SFor 16%nat "n" (EInt (0)%Z) (EVar "N")
 (seq [SIf 17%nat (ECmp Gt (ERead1 23%nat "total" (EVar "n")) (EFlt (0 # 1)%Q))
 (seq [SColUpd 25%nat "new_data_array" (EVar "n") Div None (ERead1 24%nat "total" (EVar "n"))])
 (SSkip)]);
SReturn [AVar "new_data_array"]]).

Definition w_trigger : list value :=
  [Ar (A1 DFlt [fl 0 1]); Ar (A2 DFlt 1 1 [fl 1 1]); Ar (A1 DFlt [fl 5 1]); Ar (A1 DFlt [fl 1 1]);
   Ar (A1 DFlt [fl 0 1]); Ar (A1 DFlt [fl 10 1]); Ar (A1 DInt [VInt 0; VInt 0]); Sc (fl 1 1)].

Theorem k__jitperievent_trigger_average_refuted :
  exists args fuel, Pre_trigger_average args /\
    run fuel k__jitperievent_trigger_average_before_fix args = Err (Uninit "i_start").
Proof.
  exists w_trigger, 200%nat. split.
  - exists [fl 0 1], 1, [fl 1 1], [fl 5 1], [fl 1 1], [fl 0 1], [fl 10 1], 0, 0, 1%Q.
    repeat split; try reflexivity; try discriminate.
  - vm_compute. reflexivity.
Qed.

(* 2. HISTORY: jitcount / _jitbin_array are proved safe for bin_size > 0 (Inv/Jitcount.v,
   Inv/Jitbin_array.v).  When this was found, Ts.count / TsGroup.count / bin_average did not validate
   the sign of bin_size; they now raise ValueError for bin_size <= 0, so the arguments below are no
   longer reachable through the public API (the kernels themselves are unchanged).  With bin_size = -1 s and the
   epochs [0, 0.5], [1, 3] the bin counts are 1 and -1, the bins buffer has 0 cells, and the first
   epoch writes bins[0]. *)
Definition w_count_negative : list value :=
  [Ar (A1 DFlt []); Ar (A1 DFlt [fl 0 1; fl 1 1]); Ar (A1 DFlt [fl 1 2; fl 3 1]); Sc (fl (-1) 1)].

Theorem k_jitcount_negative_bin_size_refuted :
  exists site, run 200 k_jitcount w_count_negative = Err (OOB site).
Proof. eexists. vm_compute. reflexivity. Qed.

Definition w_bin_array_negative : list value :=
  [Ar (A1 DInt [VInt 0; VInt 0]); Ar (A1 DFlt []); Ar (A1 DFlt []);
   Ar (A1 DFlt [fl 0 1; fl 1 1]); Ar (A1 DFlt [fl 1 2; fl 3 1]); Sc (fl (-1) 1)].

Theorem k__jitbin_array_negative_bin_size_refuted :
  exists site, run 200 k__jitbin_array w_bin_array_negative = Err (OOB site).
Proof. eexists. vm_compute. reflexivity. Qed.

(* 3. HISTORY (repaired since: the inner loop is now `while t + interval_size < end[k] and n <= N`;
   the repaired kernel is the one in Gen/Kernels.v, proved safe and terminating whenever start and
   end have equal lengths, Inv/Overlap_split.v).  Before the repair _overlap_split was proved safe
   only for interval_size > 0, 0 <= overlap < 1 and start_k <= end_k.  compute_mean_psd validates
   overlap but not the sign of interval_size: with interval_size = -1 s, overlap = 0 and the epoch
   [0, 0.5] the buffer has one row, the scan `t + interval_size < end[k]` never stopped, and the
   second window was written out of bounds.  On the repaired kernel the same arguments return the
   one-row buffer. *)
(* the kernel as translated from the source BEFORE the repair (inner loop without `and n <= N`);
   frozen here because Gen/Kernels.v follows the current source *)
(* _overlap_split: pynapple/process/spectrum.py:18  sites = 5
   labels: 0 = outer while (epochs), 1 = inner while (windows) *)
Definition k__overlap_split_before_fix : func :=
  mkFunc "_overlap_split"
  ["start"; "end"; "interval_size"; "overlap"]
  ["N"; "slices"; "k"; "n"; "t"; "_t0"]
  (seq [SAssign "N" (EUn ToInt (EUn Ceil (EBin Div (ESumDiff 0%nat "end" "start") (EBin Mul (EVar "interval_size") (EBin Sub (EInt (1)%Z) (EVar "overlap"))))));
SNew2 "slices" DFlt (EBin Add (EVar "N") (EInt (1)%Z)) (EInt (2)%Z) (EInt (0)%Z);
SAssign "k" (EInt (0)%Z);
SAssign "n" (EInt (0)%Z);
SWhile 0%nat (ECmp Lt (EVar "k") (ELen "start"))
 (seq [SAssign "t" (ERead1 1%nat "start" (EVar "k"));
SWhile 1%nat (ECmp Lt (EBin Add (EVar "t") (EVar "interval_size")) (ERead1 2%nat "end" (EVar "k")))
 (seq [SStore2 3%nat "slices" (EVar "n") (EInt (0)%Z) (EVar "t");
SStore2 4%nat "slices" (EVar "n") (EInt (1)%Z) (EBin Add (EVar "t") (EVar "interval_size"));
SAssign "t" (EBin Add (EVar "t") (EBin Mul (EBin Sub (EInt (1)%Z) (EVar "overlap")) (EVar "interval_size")));
SAssign "n" (EBin Add (EVar "n") (EInt (1)%Z))]);
SAssign "k" (EBin Add (EVar "k") (EInt (1)%Z))]);
SSlice "_t0" "slices" (EInt (0)%Z) (EVar "n");
SReturn [AVar "_t0"]]).

Definition w_overlap_negative : list value :=
  [Ar (A1 DFlt [fl 0 1]); Ar (A1 DFlt [fl 1 2]); Sc (fl (-1) 1); Sc (fl 0 1)].

Theorem k__overlap_split_negative_interval_size_refuted :
  exists site, run 200 k__overlap_split_before_fix w_overlap_negative = Err (OOB site).
Proof. eexists. vm_compute. reflexivity. Qed.

(* the repaired kernel on the same arguments: one window [0, -1], no error *)
Theorem k__overlap_split_negative_interval_size_repaired :
  run 200 k__overlap_split w_overlap_negative
  = Return [Ar (A2 DFlt 1 2 [fl 0 1; fl (-1) 1])].
Proof. vm_compute. reflexivity. Qed.

(* 4. HISTORY (repaired since: the test that decides whether a bin is reported is now
   `np.round(2 * lbound + bin_size, 9) > 2 * ends[k]`, the doubled exact centre against the doubled end; the
   repaired kernels are the ones in Gen/Kernels.v, proved to compute the functional models count_binned /
   bin_sum_cnt for EVERY bin size > 0, Inv/Jitcount_func.v and Inv/Jitbin_array_func.v).  Before the repair
   jitcount and _jitbin_array compared the bin centre ROUNDED to a whole nanosecond with the end of the
   interval (`xpos = np.round(lbound + bin_size / 2, 9); if xpos > ends[k]`): for an odd number of ns the
   centre lies on a half tick, np.round (half to even) moves a centre half a tick beyond the end onto the end,
   and that bin was reported although its exact centre exceeds the end.  With ts = [0 ns], the interval
   [0, 0] and bin_size = 1 ns the old kernels report one bin (centre 0, count 1 / mean of the sample), the
   property and the repaired kernels none. *)
(* the kernels as translated from the source BEFORE the repair (`if xpos > ends[k]`); frozen here because
   Gen/Kernels.v follows the current source *)
(* jitcount: pynapple/core/_jitted_functions.py:186  sha256(normalised ast) = 310a9fd0a4b5732d43da51a60c27ec707453061e604b65d5e69be18679b3e57f  sites = 15
   labels (statement@source line): 0=call@187 1=for@193 2=if@194 3=while@207 4=while@212 5=if@214 6=while@219 7=if@220 *)
Definition k_jitcount_before_fix : func :=
  mkFunc "jitcount"
  ["time_array"; "starts"; "ends"; "bin_size"]
  ["idx"; "countin"; "m"; "nb_bins"; "k"; "nb"; "bins"; "cnt"; "t"; "b"; "maxb"; "maxt"; "lbound"; "xpos"; "rbound"; "new_time_array"; "new_data_array"]
  (seq [SCall 0%nat [TVar "idx"; TVar "countin"] "jitrestrict_with_count" [AVar "time_array"; AVar "starts"; AVar "ends"];
SGather 0%nat "time_array" "time_array" "idx";
SAssign "m" (ELen "starts");
SNew1 "nb_bins" DInt (EVar "m") (EInt (0)%Z);
SFor 1%nat "k" (EInt (0)%Z) (EVar "m")
 (seq [SIf 2%nat (ECmp Gt (EBin Sub (ERead1 1%nat "ends" (EVar "k")) (ERead1 2%nat "starts" (EVar "k"))) (EVar "bin_size"))
 (seq [SStore1 5%nat "nb_bins" (EVar "k") (EUn ToInt (EUn Ceil (EBin Div (EBin Sub (EBin Add (ERead1 3%nat "ends" (EVar "k")) (EVar "bin_size")) (ERead1 4%nat "starts" (EVar "k"))) (EVar "bin_size"))))])
 (seq [SStore1 6%nat "nb_bins" (EVar "k") (EInt (1)%Z)])]);
SAssign "nb" (ESumAll "nb_bins");
SNew1 "bins" DFlt (EVar "nb") (EInt (0)%Z);
SNew1 "cnt" DInt (EVar "nb") (EInt (0)%Z);
SAssign "k" (EInt (0)%Z);
SAssign "t" (EInt (0)%Z);
SAssign "b" (EInt (0)%Z);
SWhile 3%nat (ECmp Lt (EVar "k") (EVar "m"))
 (seq [SAssign "maxb" (EBin Add (EVar "b") (ERead1 7%nat "nb_bins" (EVar "k")));
SAssign "maxt" (EBin Add (EVar "t") (ERead1 8%nat "countin" (EVar "k")));
SAssign "lbound" (ERead1 9%nat "starts" (EVar "k"));
SWhile 4%nat (ECmp Lt (EVar "b") (EVar "maxb"))
 (seq [SAssign "xpos" (EUn Round9 (EBin Add (EVar "lbound") (EBin Div (EVar "bin_size") (EInt (2)%Z))));
SIf 5%nat (ECmp Gt (EVar "xpos") (ERead1 10%nat "ends" (EVar "k")))
 (seq [SBreak])
 (seq [SStore1 11%nat "bins" (EVar "b") (EVar "xpos");
SAssign "rbound" (EUn Round9 (EBin Add (EVar "lbound") (EVar "bin_size")));
SWhile 6%nat (ECmp Lt (EVar "t") (EVar "maxt"))
 (seq [SIf 7%nat (ECmp Lt (ERead1 12%nat "time_array" (EVar "t")) (EVar "rbound"))
 (seq [SStore1 14%nat "cnt" (EVar "b") (EBin Add (ERead1 13%nat "cnt" (EVar "b")) (EInt (1)%Z));
SAssign "t" (EBin Add (EVar "t") (EInt (1)%Z))])
 (seq [SBreak])]);
SAssign "lbound" (EBin Add (EVar "lbound") (EVar "bin_size"));
SAssign "lbound" (EUn Round9 (EVar "lbound"));
SAssign "b" (EBin Add (EVar "b") (EInt (1)%Z))])]);
SAssign "t" (EVar "maxt");
SAssign "k" (EBin Add (EVar "k") (EInt (1)%Z))]);
SSlice "new_time_array" "bins" (EInt (0)%Z) (EVar "b");
SSlice "new_data_array" "cnt" (EInt (0)%Z) (EVar "b");
SReturn [AVar "new_time_array"; AVar "new_data_array"]]).

(* _jitbin_array: pynapple/core/_jitted_functions.py:371  sha256(normalised ast) = f9ac6aa3c5ad6c94b40c8ec14722587895a90a4bab6f3363f030663661371de4  sites = 18
   labels (statement@source line): 0=for@376 1=if@377 2=while@391 3=while@396 4=if@398 5=while@403 6=if@404 *)
Definition k__jitbin_array_before_fix : func :=
  mkFunc "_jitbin_array"
  ["countin"; "time_array"; "data_array"; "starts"; "ends"; "bin_size"]
  ["m"; "nb_bins"; "k"; "nb"; "bins"; "cnt"; "average"; "t"; "b"; "maxb"; "maxt"; "lbound"; "xpos"; "rbound"; "new_time_array"; "_t0"; "_t1"; "new_data_array"]
  (seq [SAssign "m" (ELen "starts");
SNew1 "nb_bins" DInt (EVar "m") (EInt (0)%Z);
SFor 0%nat "k" (EInt (0)%Z) (EVar "m")
 (seq [SIf 1%nat (ECmp Gt (EBin Sub (ERead1 0%nat "ends" (EVar "k")) (ERead1 1%nat "starts" (EVar "k"))) (EVar "bin_size"))
 (seq [SStore1 4%nat "nb_bins" (EVar "k") (EUn ToInt (EUn Ceil (EBin Div (EBin Sub (EBin Add (ERead1 2%nat "ends" (EVar "k")) (EVar "bin_size")) (ERead1 3%nat "starts" (EVar "k"))) (EVar "bin_size"))))])
 (seq [SStore1 5%nat "nb_bins" (EVar "k") (EInt (1)%Z)])]);
SAssign "nb" (ESumAll "nb_bins");
SNew1 "bins" DFlt (EVar "nb") (EInt (0)%Z);
SNew1 "cnt" DFlt (EVar "nb") (EInt (0)%Z);
SNew1 "average" DFlt (EVar "nb") (EInt (0)%Z);
SAssign "k" (EInt (0)%Z);
SAssign "t" (EInt (0)%Z);
SAssign "b" (EInt (0)%Z);
SWhile 2%nat (ECmp Lt (EVar "k") (EVar "m"))
 (seq [SAssign "maxb" (EBin Add (EVar "b") (ERead1 6%nat "nb_bins" (EVar "k")));
SAssign "maxt" (EBin Add (EVar "t") (ERead1 7%nat "countin" (EVar "k")));
SAssign "lbound" (ERead1 8%nat "starts" (EVar "k"));
SWhile 3%nat (ECmp Lt (EVar "b") (EVar "maxb"))
 (seq [SAssign "xpos" (EUn Round9 (EBin Add (EVar "lbound") (EBin Div (EVar "bin_size") (EInt (2)%Z))));
SIf 4%nat (ECmp Gt (EVar "xpos") (ERead1 9%nat "ends" (EVar "k")))
 (seq [SBreak])
 (seq [SStore1 10%nat "bins" (EVar "b") (EVar "xpos");
SAssign "rbound" (EUn Round9 (EBin Add (EVar "lbound") (EVar "bin_size")));
SWhile 5%nat (ECmp Lt (EVar "t") (EVar "maxt"))
 (seq [SIf 6%nat (ECmp Lt (ERead1 11%nat "time_array" (EVar "t")) (EVar "rbound"))
 (seq [SStore1 13%nat "cnt" (EVar "b") (EBin Add (ERead1 12%nat "cnt" (EVar "b")) (EFlt (1 # 1)%Q));
SStore1 16%nat "average" (EVar "b") (EBin Add (ERead1 14%nat "average" (EVar "b")) (ERead1 15%nat "data_array" (EVar "t")));
SAssign "t" (EBin Add (EVar "t") (EInt (1)%Z))])
 (seq [SBreak])]);
SAssign "lbound" (EBin Add (EVar "lbound") (EVar "bin_size"));
SAssign "lbound" (EUn Round9 (EVar "lbound"));
SAssign "b" (EBin Add (EVar "b") (EInt (1)%Z))])]);
SAssign "t" (EVar "maxt");
SAssign "k" (EBin Add (EVar "k") (EInt (1)%Z))]);
SSlice "new_time_array" "bins" (EInt (0)%Z) (EVar "b");
SSlice "_t0" "average" (EInt (0)%Z) (EVar "b");
SSlice "_t1" "cnt" (EInt (0)%Z) (EVar "b");
SArrDiv 17%nat "new_data_array" "_t0" "_t1";
SReturn [AVar "new_time_array"; AVar "new_data_array"]]).

Definition ns (n : Z) : sval := VFlt (Some (Qred (n # 1000000000))).
Definition w_count_odd : list value :=
  [Ar (A1 DFlt [ns 0]); Ar (A1 DFlt [ns 0]); Ar (A1 DFlt [ns 0]); Sc (ns 1)].
Definition w_bin_array_odd : list value :=
  [Ar (A1 DInt [VInt 1]); Ar (A1 DFlt [ns 0]); Ar (A1 DFlt [fl 9 1]);
   Ar (A1 DFlt [ns 0]); Ar (A1 DFlt [ns 0]); Sc (ns 1)].

(* one bin, whose exact centre 0.5 ns lies beyond the end 0 ns *)
Theorem k_jitcount_odd_bin_size_refuted :
  run 200 k_jitcount_before_fix w_count_odd = Return [Ar (A1 DFlt [fl 0 1]); Ar (A1 DInt [VInt 1])].
Proof. vm_compute. reflexivity. Qed.
Theorem k__jitbin_array_odd_bin_size_refuted :
  run 300 k__jitbin_array_before_fix w_bin_array_odd = Return [Ar (A1 DFlt [fl 0 1]); Ar (A1 DFlt [fl 9 1])].
Proof. vm_compute. reflexivity. Qed.

(* the repaired kernels on the same arguments: no bin *)
Theorem k_jitcount_odd_bin_size_repaired :
  run 200 k_jitcount w_count_odd = Return [Ar (A1 DFlt []); Ar (A1 DInt [])].
Proof. vm_compute. reflexivity. Qed.
Theorem k__jitbin_array_odd_bin_size_repaired :
  run 300 k__jitbin_array w_bin_array_odd = Return [Ar (A1 DFlt []); Ar (A1 DFlt [])].
Proof. vm_compute. reflexivity. Qed.
