(* C15 findings: inputs that satisfy what the public callers guarantee and on which the checked
   interpreter reports an error on the translated kernel.  Each is proved by computation and is
   meant to be replayed on the real kernel (.py_func, or compiled with NUMBA_BOUNDSCHECK=1). *)
From Coq Require Import ZArith QArith String List Bool.
From Verif Require Import Jit.Lang Jit.Interp Gen.Kernels.
Import ListNotations.
Open Scope Z_scope.
Local Open Scope string_scope.

Definition fl (n : Z) (d : positive) : sval := VFlt (Some (n # d)).

(* 1. HISTORY (repaired since: `i_start = i` is now set before the scan; the repaired kernel is the
   one in Gen/Kernels.v).  _jitperievent_trigger_average read the local i_start before assigning it.
   One count bin at t = 0 s (bin size 1 s), one feature sample at 5 s, epoch [0, 10]:
   the first bin of the epoch holds no feature sample, the branch that assigns i_start is skipped,
   and `i = i_start` follows.  What the wrapper guarantees: starts/ends of equal length,
   count_array has one row per time stamp, data and time stamps of the feature have equal length,
   windows holds two non-negative integers, binsize > 0. *)
Definition Pre_trigger_average (args : list value) : Prop :=
  exists ta n ca tt da s e w0 w1 q,
    args = [Ar (A1 DFlt ta); Ar (A2 DFlt (zlen ta) n ca); Ar (A1 DFlt tt); Ar (A1 DFlt da);
            Ar (A1 DFlt s); Ar (A1 DFlt e); Ar (A1 DInt [VInt w0; VInt w1]); Sc (VFlt (Some q))]
    /\ zlen ca = zlen ta * n /\ zlen da = zlen tt /\ zlen s = zlen e
    /\ 0 <= w0 /\ 0 <= w1 /\ (0 < q)%Q.

(* the kernel as translated from the source BEFORE the repair (`i_start = i` initialisation);
   frozen here because Gen/Kernels.v follows the current source *)
(* _jitperievent_trigger_average: pynapple/process/_process_functions.py:74  sha256(normalised ast) = 6642ca82caff930c827ff330d49d24455ceaabcb1058f43d652fa15401610ab6  sites = 26
   labels (statement@source line): 0=call@88 1=for@105 2=if@106 3=while@111 4=if@115 5=while@119 6=if@120 7=while@125 8=if@126 9=if@135 10=if@138 11=for@139 12=if@152 13=if@153 14=for@154 15=for@155 16=for@168 17=if@169 *)
Definition k__jitperievent_trigger_average_before_fix : func :=
  mkFunc "_jitperievent_trigger_average"
  ["time_array"; "count_array"; "time_target_array"; "data_target_array"; "starts"; "ends"; "windows"; "binsize"]
  ["T"; "N"; "N_epochs"; "idx"; "count"; "max_count"; "new_data_array"; "t"; "hankel_array"; "k"; "t_start"; "maxi"; "i"; "lbound"; "rbound"; "i_start"; "i_stop"; "v"; "checknan"; "n"; "j"; "total"]
  (seq [SAssign "T" (ELen "time_array");
SAssign "N" (ECols "count_array");
SAssign "N_epochs" (ELen "starts");
SCall 0%nat [TVar "idx"; TVar "count"] "jitrestrict_with_count" [AVar "time_target_array"; AVar "starts"; AVar "ends"];
SGather 0%nat "time_target_array" "time_target_array" "idx";
SGather 1%nat "data_target_array" "data_target_array" "idx";
SCumsum "max_count" "count";
SNew2 "new_data_array" DFlt (EBin Add (EUn ToInt (ESumAll "windows")) (EInt (1)%Z)) (ECols "count_array") (EFlt (0 # 1)%Q);
SAssign "t" (EInt (0)%Z);
SNew1 "hankel_array" DFlt (ELen "new_data_array") (EInt (0)%Z);
SFor 1%nat "k" (EInt (0)%Z) (EVar "N_epochs")
 (seq [SIf 2%nat (ECmp Gt (ERead1 2%nat "count" (EVar "k")) (EInt (0)%Z))
 (seq [SAssign "t_start" (EVar "t");
SAssign "maxi" (ERead1 3%nat "max_count" (EVar "k"));
SAssign "i" (EBin Sub (EVar "maxi") (ERead1 4%nat "count" (EVar "k")));
SWhile 3%nat (ECmp Lt (EVar "t") (EVar "T"))
 (seq [SAssign "lbound" (ERead1 5%nat "time_array" (EVar "t"));
SAssign "rbound" (EUn Round9 (EBin Add (EVar "lbound") (EVar "binsize")));
SIf 4%nat (ECmp Lt (ERead1 6%nat "time_target_array" (EVar "i")) (EVar "rbound"))
 (seq [SAssign "i_start" (EVar "i");
SAssign "i_stop" (EVar "i");
SWhile 5%nat (ECmp Lt (EVar "i_stop") (EVar "maxi"))
 (seq [SIf 6%nat (ECmp Lt (ERead1 7%nat "time_target_array" (EVar "i_stop")) (EVar "rbound"))
 (seq [SAssign "i_stop" (EBin Add (EVar "i_stop") (EInt (1)%Z))])
 (seq [SBreak])]);
SWhile 7%nat (ECmp Lt (EVar "i_start") (EBin Sub (EVar "i_stop") (EInt (1)%Z)))
 (seq [SIf 8%nat (ECmp Lt (ERead1 8%nat "time_target_array" (EVar "i_start")) (EVar "lbound"))
 (seq [SAssign "i_start" (EBin Add (EVar "i_start") (EInt (1)%Z))])
 (seq [SBreak])]);
SAssign "v" (EBin Div (ESum "data_target_array" (EVar "i_start") (EVar "i_stop")) (EUn ToFlt (EBin Sub (EVar "i_stop") (EVar "i_start"))));
SAssign "checknan" (EVar "v");
SIf 9%nat (ENot (EUn IsNan (EVar "checknan")))
 (seq [SStore1 9%nat "hankel_array" (EBin Sub (ELen "hankel_array") (EInt (1)%Z)) (EVar "v")])
 (SSkip)])
 (SSkip);
SIf 10%nat (ECmp Ge (EBin Sub (EVar "t") (EVar "t_start")) (ERead1 10%nat "windows" (EInt (1)%Z)))
 (seq [SFor 11%nat "n" (EInt (0)%Z) (EVar "N")
 (seq [SColUpd 13%nat "new_data_array" (EVar "n") Add (Some "hankel_array") (ERead2 11%nat "count_array" (EBin Sub (EVar "t") (ERead1 12%nat "windows" (EInt (1)%Z))) (EVar "n"))])])
 (SSkip);
SShiftLeft "hankel_array";
SStore1 14%nat "hankel_array" (EBin Sub (ELen "hankel_array") (EInt (1)%Z)) (EFlt (0 # 1)%Q);
SAssign "t" (EBin Add (EVar "t") (EInt (1)%Z));
SAssign "i" (EVar "i_start");
SIf 12%nat (EOr (ECmp Eq (EVar "t") (EVar "T")) (ECmp Gt (ERead1 15%nat "time_array" (EVar "t")) (ERead1 16%nat "ends" (EVar "k"))))
 (seq [SIf 13%nat (ECmp Gt (EBin Sub (EVar "t") (EVar "t_start")) (ERead1 17%nat "windows" (EInt (1)%Z)))
 (seq [SFor 14%nat "j" (EInt (0)%Z) (ERead1 18%nat "windows" (EInt (1)%Z))
 (seq [SFor 15%nat "n" (EInt (0)%Z) (EVar "N")
 (seq [SColUpd 21%nat "new_data_array" (EVar "n") Add (Some "hankel_array") (ERead2 19%nat "count_array" (EBin Add (EBin Sub (EVar "t") (ERead1 20%nat "windows" (EInt (1)%Z))) (EVar "j")) (EVar "n"))]);
SShiftLeft "hankel_array";
SStore1 22%nat "hankel_array" (EBin Sub (ELen "hankel_array") (EInt (1)%Z)) (EFlt (0 # 1)%Q)])])
 (SSkip);
SArrScale "hankel_array" (EFlt (0 # 1)%Q);
SBreak])
 (SSkip)])])
 (SSkip)]);
SColSums "total" "count_array";
SFor 16%nat "n" (EInt (0)%Z) (EVar "N")
 (seq [SIf 17%nat (ECmp Gt (ERead1 23%nat "total" (EVar "n")) (EFlt (0 # 1)%Q))
 (seq [SColUpd 25%nat "new_data_array" (EVar "n") Div None (ERead1 24%nat "total" (EVar "n"))])
 (SSkip)]);
SReturn [AVar "new_data_array"]]).

Definition w_trigger : list value :=
  [Ar (A1 DFlt [fl 0 1]); Ar (A2 DFlt 1 1 [fl 1 1]); Ar (A1 DFlt [fl 5 1]); Ar (A1 DFlt [fl 1 1]);
   Ar (A1 DFlt [fl 0 1]); Ar (A1 DFlt [fl 10 1]); Ar (A1 DInt [VInt 0; VInt 0]); Sc (fl 1 1)].

Theorem k__jitperievent_trigger_average_refuted :
  exists args fuel, Pre_trigger_average args /\
    run fuel k__jitperievent_trigger_average_before_fix args = Err (Uninit "i_start").
Proof.
  exists w_trigger, 200%nat. split.
  - exists [fl 0 1], 1, [fl 1 1], [fl 5 1], [fl 1 1], [fl 0 1], [fl 10 1], 0, 0, 1%Q.
    repeat split; try reflexivity; try discriminate.
  - vm_compute. reflexivity.
Qed.

(* 2. HISTORY: jitcount / _jitbin_array are proved safe for bin_size > 0 (Inv/Jitcount.v,
   Inv/Jitbin_array.v).  When this was found, Ts.count / TsGroup.count / bin_average did not validate
   the sign of bin_size; they now raise ValueError for bin_size <= 0, so the arguments below are no
   longer reachable through the public API (the kernels themselves are unchanged).  With bin_size = -1 s and the
   epochs [0, 0.5], [1, 3] the bin counts are 1 and -1, the bins buffer has 0 cells, and the first
   epoch writes bins[0]. *)
Definition w_count_negative : list value :=
  [Ar (A1 DFlt []); Ar (A1 DFlt [fl 0 1; fl 1 1]); Ar (A1 DFlt [fl 1 2; fl 3 1]); Sc (fl (-1) 1)].

Theorem k_jitcount_negative_bin_size_refuted :
  exists site, run 200 k_jitcount w_count_negative = Err (OOB site).
Proof. eexists. vm_compute. reflexivity. Qed.

Definition w_bin_array_negative : list value :=
  [Ar (A1 DInt [VInt 0; VInt 0]); Ar (A1 DFlt []); Ar (A1 DFlt []);
   Ar (A1 DFlt [fl 0 1; fl 1 1]); Ar (A1 DFlt [fl 1 2; fl 3 1]); Sc (fl (-1) 1)].

Theorem k__jitbin_array_negative_bin_size_refuted :
  exists site, run 200 k__jitbin_array w_bin_array_negative = Err (OOB site).
Proof. eexists. vm_compute. reflexivity. Qed.

(* 3. HISTORY (repaired since: the inner loop is now `while t + interval_size < end[k] and n <= N`;
   the repaired kernel is the one in Gen/Kernels.v, proved safe and terminating whenever start and
   end have equal lengths, Inv/Overlap_split.v).  Before the repair _overlap_split was proved safe
   only for interval_size > 0, 0 <= overlap < 1 and start_k <= end_k.  compute_mean_psd validates
   overlap but not the sign of interval_size: with interval_size = -1 s, overlap = 0 and the epoch
   [0, 0.5] the buffer has one row, the scan `t + interval_size < end[k]` never stopped, and the
   second window was written out of bounds.  On the repaired kernel the same arguments return the
   one-row buffer. *)
(* the kernel as translated from the source BEFORE the repair (inner loop without `and n <= N`);
   frozen here because Gen/Kernels.v follows the current source *)
(* _overlap_split: pynapple/process/spectrum.py:18  sites = 5
   labels: 0 = outer while (epochs), 1 = inner while (windows) *)
Definition k__overlap_split_before_fix : func :=
  mkFunc "_overlap_split"
  ["start"; "end"; "interval_size"; "overlap"]
  ["N"; "slices"; "k"; "n"; "t"; "_t0"]
  (seq [SAssign "N" (EUn ToInt (EUn Ceil (EBin Div (ESumDiff 0%nat "end" "start") (EBin Mul (EVar "interval_size") (EBin Sub (EInt (1)%Z) (EVar "overlap"))))));
SNew2 "slices" DFlt (EBin Add (EVar "N") (EInt (1)%Z)) (EInt (2)%Z) (EInt (0)%Z);
SAssign "k" (EInt (0)%Z);
SAssign "n" (EInt (0)%Z);
SWhile 0%nat (ECmp Lt (EVar "k") (ELen "start"))
 (seq [SAssign "t" (ERead1 1%nat "start" (EVar "k"));
SWhile 1%nat (ECmp Lt (EBin Add (EVar "t") (EVar "interval_size")) (ERead1 2%nat "end" (EVar "k")))
 (seq [SStore2 3%nat "slices" (EVar "n") (EInt (0)%Z) (EVar "t");
SStore2 4%nat "slices" (EVar "n") (EInt (1)%Z) (EBin Add (EVar "t") (EVar "interval_size"));
SAssign "t" (EBin Add (EVar "t") (EBin Mul (EBin Sub (EInt (1)%Z) (EVar "overlap")) (EVar "interval_size")));
SAssign "n" (EBin Add (EVar "n") (EInt (1)%Z))]);
SAssign "k" (EBin Add (EVar "k") (EInt (1)%Z))]);
SSlice "_t0" "slices" (EInt (0)%Z) (EVar "n");
SReturn [AVar "_t0"]]).

Definition w_overlap_negative : list value :=
  [Ar (A1 DFlt [fl 0 1]); Ar (A1 DFlt [fl 1 2]); Sc (fl (-1) 1); Sc (fl 0 1)].

Theorem k__overlap_split_negative_interval_size_refuted :
  exists site, run 200 k__overlap_split_before_fix w_overlap_negative = Err (OOB site).
Proof. eexists. vm_compute. reflexivity. Qed.

(* the repaired kernel on the same arguments: one window [0, -1], no error *)
Theorem k__overlap_split_negative_interval_size_repaired :
  run 200 k__overlap_split w_overlap_negative
  = Return [Ar (A2 DFlt 1 2 [fl 0 1; fl (-1) 1])].
Proof. vm_compute. reflexivity. Qed.
