(* Termination of the translated jitthreshold on every input of its safety precondition [Pre_jitthreshold]:
   some fuel makes the checked interpreter return (no error, no fuel exhaustion).
   Jit/Total.v used as a termination-only calculus: the safety annotation [ann_jitthreshold] of
   Inv/Jitthreshold.v is reused VERBATIM, the only new input is one variant per while loop. *)
From Coq Require Import ZArith QArith String List Bool Lia.
From Verif Require Import Jit.Lang Jit.Interp Jit.Safety Jit.Tactics Jit.ArrayFacts Jit.Total Gen.Kernels.
From Verif Require Import Inv.Jitthreshold.
Import ListNotations.
Open Scope Z_scope.
Local Open Scope string_scope.

Definition vnt_term (l : nat) (st : store) : Z :=
  match l with
  | 5%nat => getZ st "m" - getZ st "k"
  | _ => 0
  end.

Theorem k_jitthreshold_returns : forall args, Pre_jitthreshold args ->
  exists fuel rs, run fuel k_jitthreshold args = Return rs.
Proof.
  intros args (d1 & d2 & d3 & d4 & ta & da & s & e & thr & method & -> & H1 & H2 & H4).
  unfold run.
  match goal with |- exists fuel rs, Interp.run _ fuel _ ?a = _ =>
    destruct (run_total all_kernels ann_jitthreshold vnt_term k_jitthreshold (fun _ => True) a) as [fuel [rs [E _]]];
      [| exists fuel, rs; exact E]
  end.
  twp_compute k_jitthreshold ann_jitthreshold vnt_term.
  vc k_jitthreshold ann_jitthreshold.
Qed.

Corollary k_jitthreshold_terminates : forall args, Pre_jitthreshold args ->
  exists fuel, run fuel k_jitthreshold args <> OutOfFuel.
Proof.
  intros args HP. destruct (k_jitthreshold_returns args HP) as [fuel [rs E]]. exists fuel. rewrite E. discriminate.
Qed.

Print Assumptions k_jitthreshold_returns.
