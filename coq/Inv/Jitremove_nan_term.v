(* Termination of the translated jitremove_nan on every input of its safety precondition [Pre_jitremove_nan]:
   some fuel makes the checked interpreter return (no error, no fuel exhaustion).
   Jit/Total.v used as a termination-only calculus: the safety annotation [ann_jitremove_nan] of
   Inv/Jitremove_nan.v is reused VERBATIM, the only new input is one variant per while loop. *)
From Coq Require Import ZArith QArith String List Bool Lia.
From Verif Require Import Jit.Lang Jit.Interp Jit.Safety Jit.Tactics Jit.ArrayFacts Jit.Total Gen.Kernels.
From Verif Require Import Inv.Jitremove_nan.
Import ListNotations.
Open Scope Z_scope.
Local Open Scope string_scope.

Definition vnt_term (l : nat) (st : store) : Z :=
  match l with
  | 1%nat => getZ st "n" - getZ st "t"
  | _ => 0
  end.

Theorem k_jitremove_nan_returns : forall args, Pre_jitremove_nan args ->
  exists fuel rs, run fuel k_jitremove_nan args = Return rs.
Proof.
  intros args (d1 & d2 & ta & nan & -> & H1 & H2).
  unfold run.
  match goal with |- exists fuel rs, Interp.run _ fuel _ ?a = _ =>
    destruct (run_total all_kernels ann_jitremove_nan vnt_term k_jitremove_nan (fun _ => True) a) as [fuel [rs [E _]]];
      [| exists fuel, rs; exact E]
  end.
  twp_compute k_jitremove_nan ann_jitremove_nan vnt_term.
  vc k_jitremove_nan ann_jitremove_nan.
Qed.

Corollary k_jitremove_nan_terminates : forall args, Pre_jitremove_nan args ->
  exists fuel, run fuel k_jitremove_nan args <> OutOfFuel.
Proof.
  intros args HP. destruct (k_jitremove_nan_returns args HP) as [fuel [rs E]]. exists fuel. rewrite E. discriminate.
Qed.

Print Assumptions k_jitremove_nan_returns.
