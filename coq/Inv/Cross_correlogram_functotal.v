(* TOTAL correctness of the translated _cross_correlogram: for every reference train t1 and target train
   t2 (integer ticks, no sortedness needed), every bin size b > 0 and every window w with
   [round9_exact b w] there is a fuel with which the kernel text runs to completion, and it returns the
   two arrays (rates, bin centres) of the model ([xcorr_result t1 t2 b w], Model/Correlogram.v).

   Combination ([Jit.Total.total_of_partial_eq]) of
     - the partial refinement theorem [k__cross_correlogram_computes_model] of
       Inv/Cross_correlogram_func.v (and its corollaries for small bins and for the specification),
     - the termination theorem [k__cross_correlogram_terminates] of Inv/Cross_correlogram_term.v,
     - [xcorr_args_pre]: the encoded arguments satisfy the safety/termination precondition
       [Pre__cross_correlogram], which is a pure shape condition (two 1-d arrays, two scalars): it needs
       NOTHING about the data, in particular neither 0 < b nor [round9_exact b w] - the kernel terminates
       without them, they are needed for the returned VALUE only.
   Hypotheses: exactly those of the partial theorems. *)
From Coq Require Import ZArith QArith Qround String List Bool Lia.
From Verif Require Import Base.Prelude Model.Correlogram.
From Verif Require Import Jit.Lang Jit.Interp Jit.Safety Jit.Tactics Jit.ArrayFacts Jit.FloatFacts Jit.Total Gen.Kernels.
From Verif Require Import Inv.Jitrestrict_func Inv.Jitfix_iset_func.
From Verif Require Import Inv.Cross_correlogram Inv.Cross_correlogram_func Inv.Cross_correlogram_term.
Import ListNotations.
Open Scope Z_scope.

Lemma xcorr_args_pre : forall t1 t2 b w, Pre__cross_correlogram (xcorr_args t1 t2 b w).
Proof. intros. unfold xcorr_args, Pre__cross_correlogram. do 6 eexists. reflexivity. Qed.

Theorem k__cross_correlogram_total : forall t1 t2 b w, 0 < b -> round9_exact b w ->
  exists fuel, run fuel k__cross_correlogram (xcorr_args t1 t2 b w) = Return (xcorr_result t1 t2 b w).
Proof.
  intros t1 t2 b w Hb Hr. unfold run. apply total_of_partial_eq.
  - intros fuel. exact (k__cross_correlogram_computes_model t1 t2 b w fuel Hb Hr).
  - apply k__cross_correlogram_terminates. apply xcorr_args_pre.
Qed.

(* bin sizes below 2 s: no rounding hypothesis *)
Corollary k__cross_correlogram_total_small_bins : forall t1 t2 b w, 0 < b < 2000000000 ->
  exists fuel, run fuel k__cross_correlogram (xcorr_args t1 t2 b w) = Return (xcorr_result t1 t2 b w).
Proof.
  intros t1 t2 b w Hb. unfold run. apply total_of_partial_eq.
  - intros fuel. exact (k__cross_correlogram_computes_model_small_bins t1 t2 b w fuel Hb).
  - apply k__cross_correlogram_terminates. apply xcorr_args_pre.
Qed.

(* with the specification of the model (C16): sorted trains, w >= 0 *)
Corollary k__cross_correlogram_spec_total : forall t1 t2 b w,
  0 < b -> 0 <= w -> round9_exact b w -> sortedZ t1 -> sortedZ t2 ->
  exists fuel, run fuel k__cross_correlogram (xcorr_args t1 t2 b w)
               = Return [Ar (A1 DFlt (rate_cells (length t1) b (xcorr_spec t1 t2 b w)));
                         Ar (A1 DFlt (hcells (xcorr_centres2 b w)))].
Proof.
  intros t1 t2 b w Hb Hw Hr H1 H2. unfold run. apply total_of_partial_eq.
  - intros fuel. exact (k__cross_correlogram_spec t1 t2 b w fuel Hb Hw Hr H1 H2).
  - apply k__cross_correlogram_terminates. apply xcorr_args_pre.
Qed.

(* non-vacuity: on a concrete input (unsorted reference, coincident samples, a lag on a bin edge) the fuel is
   found by computation, and the value is the model's *)
Example k__cross_correlogram_total_ex :
  exists fuel, run fuel k__cross_correlogram (xcorr_args [20; 0; 10; 3] [1; 5; 5; 12; 30] 5 7)
               = Return (xcorr_result [20; 0; 10; 3] [1; 5; 5; 12; 30] 5 7).
Proof. exists 5000%nat. vm_compute. reflexivity. Qed.

Print Assumptions k__cross_correlogram_total.
Print Assumptions k__cross_correlogram_total_small_bins.
Print Assumptions k__cross_correlogram_spec_total.
