(* Functional correctness of the TRANSLATED jitthreshold against the functional model of
   Model/Threshold.v ([thr_go] / [threshold_support] and [kept_times], the model the C07 threshold theorems
   are about), by proof (partial correctness through [run_sound], as in Inv/Jitrestrict_func.v):

     for EVERY time array ts (integer ticks), data array, interval list ep, threshold and method 0..3
     (above, below, aboveequal, belowequal) with  length data = length ts  and  ep = [] -> ts = [],
     running the translated kernel returns, whenever it returns, exactly
        time_array[ix], data_array[ix], new_starts, new_ends
     where ix = (data <op> thr) is the list of kept flags kp, the first array is [kept_times (combine ts kp)],
     and new_starts / new_ends are the two lists (SS, EE) = thr_go None ep (combine ts kp), whose [combine]
     is [threshold_support ep (combine ts kp)] by definition.

   Encoding: a tick t (nanoseconds) is the float t * 1e-9, the reduced fraction [qtick t]; the model's
   outputs are DOUBLED ticks d (half-nanoseconds) and are the floats d * 0.5e-9, [htick d]; the kernel's
     time[t] - (time[t] - time[t-1]) / 2   is exactly [htick (x + p)]  ([mid_q]),
   and a copied boundary starts[k] / time[t] is [htick (2 * s)] = [qtick s]  ([htick_double]).

   Hypotheses.  Neither sortedness of ts, nor canonicity of ep, nor "samples inside the support" is needed
   for the equality with the model.  What IS needed is  ep = [] -> ts = []  : on an empty support with a
   non-empty series the kernel (guards "m > 0") and the model (which reads [hd (0, 0) []]) disagree, e.g.
   ts = [1; 2] all kept, ep = []: the kernel returns the interval [1, 2] (ticks), the model [0, 0].
   The model is only used with samples inside the support, which implies the hypothesis
   ([k_jitthreshold_support]). *)
From Coq Require Import ZArith QArith String List Bool Lia.
From Verif Require Import Base.Prelude Model.Threshold Proofs.ThresholdProofs.
From Verif Require Import Jit.Lang Jit.Interp Jit.Safety Jit.Tactics Jit.ArrayFacts Gen.Kernels.
From Verif Require Import Inv.Jitrestrict_func Inv.Jitfix_iset_func Inv.Jitremove_nan_func.
Import ListNotations.
Open Scope Z_scope.


(* ---------- doubled ticks as floats: d half-nanoseconds is d * 0.5e-9 ---------- *)
Definition htick (d : Z) : Q := Qred (d # 2000000000).
Definition hcell (d : Z) : sval := VFlt (Some (htick d)).
Definition hcells (l : list Z) : list sval := map hcell l.

Lemma htick_double : forall x, htick (2 * x) = qtick x.
Proof. intros. unfold htick, qtick. apply Qred_complete. unfold Qeq. simpl. lia. Qed.

Lemma htick_eq : forall d, (htick d == d # 2000000000)%Q.
Proof. intros. unfold htick. apply Qred_correct. Qed.

(* the kernel's  time[t] - (time[t] - time[t-1]) / 2  is the midpoint, i.e. the doubled tick x + p *)
Lemma mid_q : forall x p,
  fsub (Some (qtick x)) (fdiv (fsub (Some (qtick x)) (Some (qtick p))) (Some (qz 2))) = Some (htick (x + p)).
Proof.
  intros x p. unfold fsub, fdiv, f2, qsome.
  change (Qeq_bool (qz 2) 0) with false. cbv iota. f_equal. unfold htick. apply Qred_complete.
  rewrite !Qred_correct. rewrite !qtick_eq.
  unfold Qeq, Qminus, Qplus, Qopp, Qdiv, Qmult, Qinv, qz, inject_Z. simpl. lia.
Qed.

Lemma zlen_hcells : forall l, zlen (hcells l) = zlen l.
Proof. intros; unfold hcells; apply zlen_map. Qed.

(* ---------- the comparison array ix = data_array <op> thr ---------- *)
Definition mop (method : Z) : cmpop :=
  if method =? 0 then Gt else if method =? 1 then Lt else if method =? 2 then Ge else Le.
Definition keptl (method : Z) (thr : sval) (data : list sval) : list bool :=
  map (fun c => eval_cmp (mop method) c thr) data.
Lemma cmp_cells_keptl : forall method thr data,
  cmp_cells (mop method) thr data = bcells (keptl method thr data).
Proof. intros. unfold cmp_cells, bcells, keptl. rewrite map_map. reflexivity. Qed.

(* ---------- the model, indexed by positions ---------- *)
Section Model.
Variable ts : list Z.
Variable kp : list bool.
Hypothesis Hlen : length kp = length ts.
Variable ep : iset.
Notation l := (smp ts kp).
Notation bk := (bk kp).
Notation n := (zlen ts).
Notation m := (zlen ep).
Notation sk := (Jitfix_iset_func.sk ep).
Notation ek := (Jitfix_iset_func.ek ep).
Notation skipn_ep := (Jitfix_iset_func.skipn_l ep).

Definition prv (t : Z) : option (Z * bool) :=
  if t =? 0 then None else Some (tk ts (t - 1), bk (t - 1)).
Definition G (t k : Z) : list Z * list Z :=
  thr_go (prv t) (skipn (Z.to_nat k) ep) (skipn (Z.to_nat t) l).
Definition mfirst (t k : Z) : bool := (t =? 0) || (tk ts (t - 1) <? sk k).
Definition mlast (t k : Z) : bool := (t + 1 =? n) || (ek k <? tk ts (t + 1)).
Definition mstart (t k : Z) : Z :=
  if negb (mfirst t k) then tk ts t + tk ts (t - 1) else if mlast t k then 2 * sk k else 2 * tk ts t.
Definition mend (t k : Z) : Z :=
  if negb (mlast t k) then tk ts t + tk ts (t + 1) else if mfirst t k then 2 * ek k else 2 * tk ts t.
Definition sflag (t k : Z) : bool := bk t && (mfirst t k || negb (bk (t - 1))).
Definition eflag (t k : Z) : bool := bk t && (mlast t k || negb (bk (t + 1))).

Lemma adv_stop : forall x k, 0 <= k < m -> (m - 1 <= k \/ x <= ek k) ->
  advance x (skipn (Z.to_nat k) ep) = skipn (Z.to_nat k) ep.
Proof.
  intros x k Hk H. rewrite (skipn_ep k Hk). rewrite advance_cons.
  destruct (skipn (Z.to_nat (k + 1)) ep) as [|i r] eqn:E; [reflexivity|].
  destruct H as [H|H].
  - rewrite skipn_all2 in E by (unfold zlen in *; lia). discriminate E.
  - assert (X : (ek k <? x) = false) by (apply Z.ltb_ge; lia). rewrite X. reflexivity.
Qed.
Lemma adv_step : forall x k, 0 <= k -> k < m - 1 -> ek k < x ->
  advance x (skipn (Z.to_nat k) ep) = advance x (skipn (Z.to_nat (k + 1)) ep).
Proof.
  intros x k H0 Hk H. rewrite (skipn_ep k) by lia. rewrite advance_cons.
  rewrite (skipn_ep (k + 1)) by lia.
  assert (X : (ek k <? x) = true) by (apply Z.ltb_lt; lia). rewrite X. reflexivity.
Qed.

Lemma G_adv : forall t k, 0 <= t < n -> 0 <= k -> k < m - 1 -> ek k < tk ts t -> G t k = G t (k + 1).
Proof.
  intros t k Ht H0 Hk H. unfold G. rewrite (skipn_smp ts kp Hlen t Ht).
  cbn [thr_go]. rewrite (adv_step (tk ts t) k H0 Hk H). reflexivity.
Qed.

Lemma prv_succ : forall t, 0 <= t -> prv (t + 1) = Some (tk ts t, bk t).
Proof.
  intros t H. unfold prv. assert (E : (t + 1 =? 0) = false) by (apply Z.eqb_neq; lia). rewrite E.
  replace (t + 1 - 1) with t by lia. reflexivity.
Qed.

Lemma G_step : forall t k, 0 <= t < n -> 0 <= k < m -> (m - 1 <= k \/ tk ts t <= ek k) ->
  G t k = ((if sflag t k then [mstart t k] else []) ++ fst (G (t + 1) k),
           (if eflag t k then [mend t k] else []) ++ snd (G (t + 1) k))%list.
Proof.
  intros t k Ht Hk Hx. unfold G at 1. rewrite (skipn_smp ts kp Hlen t Ht).
  assert (A : advance (tk ts t) (skipn (Z.to_nat k) ep) = (sk k, ek k) :: skipn (Z.to_nat (k + 1)) ep).
  { rewrite (adv_stop (tk ts t) k Hk Hx). apply (skipn_ep k Hk). }
  rewrite (thr_go_step _ _ _ _ _ _ _ _ A). rewrite <- (skipn_ep k Hk).
  rewrite <- (prv_succ t) by lia. fold (G (t + 1) k).
  destruct (G (t + 1) k) as [SS EE]. cbn [fst snd].
  assert (F : firstb (prv t) (sk k) = mfirst t k).
  { unfold prv, mfirst. destruct (t =? 0); reflexivity. }
  assert (P : prevk (prv t) = if t =? 0 then false else bk (t - 1)).
  { unfold prv. destruct (t =? 0); reflexivity. }
  assert (L : lastb (skipn (Z.to_nat (t + 1)) l) (ek k) = mlast t k).
  { unfold mlast. destruct (Z.eqb_spec (t + 1) n) as [E|E].
    - rewrite (skipn_smp_end ts kp Hlen) by lia. reflexivity.
    - rewrite (skipn_smp ts kp Hlen (t + 1)) by lia. reflexivity. }
  assert (N : nextk (skipn (Z.to_nat (t + 1)) l) = bk (t + 1)).
  { apply (nextk_skipn ts kp Hlen). lia. }
  assert (SV : startv (prv t) (skipn (Z.to_nat (t + 1)) l) (tk ts t) (sk k) (ek k) = mstart t k
               \/ mfirst t k || negb (prevk (prv t)) = false).
  { unfold startv, mstart. rewrite F, L. destruct (mfirst t k) eqn:E1; cbn [negb]; [left; reflexivity|].
    unfold mfirst in E1. unfold prv in *. destruct (t =? 0); [discriminate E1|]. left. reflexivity. }
  assert (EV : endv (prv t) (skipn (Z.to_nat (t + 1)) l) (tk ts t) (sk k) (ek k) = mend t k).
  { unfold endv, mend. rewrite F, L. destruct (mlast t k) eqn:E1; cbn [negb]; [reflexivity|].
    unfold mlast in E1. destruct (Z.eqb_spec (t + 1) n) as [E|E]; [discriminate E1|].
    rewrite (skipn_smp ts kp Hlen (t + 1)) by lia. reflexivity. }
  assert (SF : firstb (prv t) (sk k) || negb (prevk (prv t)) = mfirst t k || negb (bk (t - 1))).
  { rewrite F, P. unfold mfirst. destruct (t =? 0); reflexivity. }
  unfold sflag, eflag. rewrite SF, L, N, EV.
  destruct (bk t); cbn [andb]; [|reflexivity].
  destruct SV as [-> | SV]; [reflexivity|].
  rewrite P in SV. unfold mfirst in *. destruct (t =? 0); [discriminate SV|].
  cbn [orb] in *. rewrite SV. reflexivity.
Qed.

Lemma G_end : forall t k, n <= t -> G t k = ([], []).
Proof. intros t k H. unfold G. rewrite (skipn_smp_end ts kp Hlen t H). reflexivity. Qed.

(* ---------- the loop invariants: the start side and the end side are independent ---------- *)
Definition target : list Z * list Z := thr_go None ep l.
Definition InvS (t k : Z) (mk d : list sval) : Prop :=
  zlen mk = n /\ zlen d = n /\ tail_false t mk
  /\ (pm t d mk ++ hcells (fst (G t k)))%list = hcells (fst target).
Definition InvE (t k : Z) (mk d : list sval) : Prop :=
  zlen mk = n /\ zlen d = n /\ tail_false t mk
  /\ (pm t d mk ++ hcells (snd (G t k)))%list = hcells (snd target).

Lemma S_init : InvS 0 0 (zeros DBool n (VInt 0)) (zeros DFlt n (VInt 0)).
Proof.
  pose proof (zlen_nonneg ts). repeat split.
  - rewrite zlen_zeros; lia.
  - rewrite zlen_zeros; lia.
  - apply tail_false_zeros.
Qed.
Lemma E_init : InvE 0 0 (zeros DBool n (VInt 0)) (zeros DFlt n (VInt 0)).
Proof.
  pose proof (zlen_nonneg ts). repeat split.
  - rewrite zlen_zeros; lia.
  - rewrite zlen_zeros; lia.
  - apply tail_false_zeros.
Qed.

Lemma S_adv : forall t k mk d, InvS t k mk d -> 0 <= t < n -> 0 <= k -> k < m - 1 -> ek k < tk ts t ->
  InvS t (k + 1) mk d.
Proof. intros t k mk d I Ht H0 Hk H. unfold InvS in *. rewrite <- (G_adv t k Ht H0 Hk H). exact I. Qed.
Lemma E_adv : forall t k mk d, InvE t k mk d -> 0 <= t < n -> 0 <= k -> k < m - 1 -> ek k < tk ts t ->
  InvE t (k + 1) mk d.
Proof. intros t k mk d I Ht H0 Hk H. unfold InvE in *. rewrite <- (G_adv t k Ht H0 Hk H). exact I. Qed.

Lemma S_gen : forall t k mk d v, InvS t k mk d -> 0 <= t < n -> 0 <= k < m ->
  (m - 1 <= k \/ tk ts t <= ek k) -> (sflag t k = true -> v = hcell (mstart t k)) ->
  InvS (t + 1) k (if sflag t k then updZ mk t (VBool true) else mk) (if sflag t k then updZ d t v else d).
Proof.
  intros t k mk d v (Z1 & Z2 & T & E) Ht Hk Hx Hv. rewrite (G_step t k Ht Hk Hx) in E. cbn [fst] in E.
  unfold InvS. destruct (sflag t k); repeat split.
  - rewrite zlen_updZ. exact Z1.
  - rewrite zlen_updZ. exact Z2.
  - apply tail_false_upd; [lia | exact T].
  - rewrite pm_set2 by lia. rewrite (Hv eq_refl). rewrite <- app_assoc. exact E.
  - exact Z1.
  - exact Z2.
  - apply tail_false_next. exact T.
  - rewrite pm_skip by (lia || assumption). exact E.
Qed.
Lemma E_gen : forall t k mk d v, InvE t k mk d -> 0 <= t < n -> 0 <= k < m ->
  (m - 1 <= k \/ tk ts t <= ek k) -> (eflag t k = true -> v = hcell (mend t k)) ->
  InvE (t + 1) k (if eflag t k then updZ mk t (VBool true) else mk) (if eflag t k then updZ d t v else d).
Proof.
  intros t k mk d v (Z1 & Z2 & T & E) Ht Hk Hx Hv. rewrite (G_step t k Ht Hk Hx) in E. cbn [snd] in E.
  unfold InvE. destruct (eflag t k); repeat split.
  - rewrite zlen_updZ. exact Z1.
  - rewrite zlen_updZ. exact Z2.
  - apply tail_false_upd; [lia | exact T].
  - rewrite pm_set2 by lia. rewrite (Hv eq_refl). rewrite <- app_assoc. exact E.
  - exact Z1.
  - exact Z2.
  - apply tail_false_next. exact T.
  - rewrite pm_skip by (lia || assumption). exact E.
Qed.

(* leaf forms *)
Lemma S_skip : forall t k mk d, InvS t k mk d -> 0 <= t < n -> 0 <= k < m ->
  (m - 1 <= k \/ tk ts t <= ek k) -> sflag t k = false -> InvS (t + 1) k mk d.
Proof.
  intros t k mk d I Ht Hk Hx Hf. pose proof (S_gen t k mk d (VInt 0) I Ht Hk Hx) as X.
  rewrite Hf in X. apply X. discriminate.
Qed.
Lemma S_set : forall t k mk d v, InvS t k mk d -> 0 <= t < n -> 0 <= k < m ->
  (m - 1 <= k \/ tk ts t <= ek k) -> sflag t k = true -> v = hcell (mstart t k) ->
  InvS (t + 1) k (updZ mk t (VBool true)) (updZ d t v).
Proof.
  intros t k mk d v I Ht Hk Hx Hf Hv. pose proof (S_gen t k mk d v I Ht Hk Hx) as X.
  rewrite Hf in X. apply X. intros _. exact Hv.
Qed.
Lemma E_skip : forall t k mk d, InvE t k mk d -> 0 <= t < n -> 0 <= k < m ->
  (m - 1 <= k \/ tk ts t <= ek k) -> eflag t k = false -> InvE (t + 1) k mk d.
Proof.
  intros t k mk d I Ht Hk Hx Hf. pose proof (E_gen t k mk d (VInt 0) I Ht Hk Hx) as X.
  rewrite Hf in X. apply X. discriminate.
Qed.
Lemma E_set : forall t k mk d v, InvE t k mk d -> 0 <= t < n -> 0 <= k < m ->
  (m - 1 <= k \/ tk ts t <= ek k) -> eflag t k = true -> v = hcell (mend t k) ->
  InvE (t + 1) k (updZ mk t (VBool true)) (updZ d t v).
Proof.
  intros t k mk d v I Ht Hk Hx Hf Hv. pose proof (E_gen t k mk d v I Ht Hk Hx) as X.
  rewrite Hf in X. apply X. intros _. exact Hv.
Qed.

Lemma S_final : forall t k mk d, InvS t k mk d -> t = n -> maskl d mk = hcells (fst target).
Proof.
  intros t k mk d (Z1 & Z2 & T & E) ->. rewrite G_end in E by lia. cbn [fst hcells map] in E.
  rewrite app_nil_r in E. rewrite pm_all in E by assumption. exact E.
Qed.
Lemma E_final : forall t k mk d, InvE t k mk d -> t = n -> maskl d mk = hcells (snd target).
Proof.
  intros t k mk d (Z1 & Z2 & T & E) ->. rewrite G_end in E by lia. cbn [snd hcells map] in E.
  rewrite app_nil_r in E. rewrite pm_all in E by assumption. exact E.
Qed.

(* the kept samples: time_array[ix] *)
Lemma mask_kept : maskl (qcells ts) (bcells kp) = qcells (kept_times l).
Proof.
  unfold kept_times, smp. revert Hlen. generalize kp. clear.
  induction ts as [|x r IH]; intros [|b s] H; simpl in H; try discriminate; [reflexivity|].
  change (qcells (x :: r)) with (qcell x :: qcells r). change (bcells (b :: s)) with (VBool b :: bcells s).
  rewrite maskl_cons. cbn [truthy combine filter snd]. rewrite IH by lia.
  destruct b; reflexivity.
Qed.
End Model.

Local Open Scope string_scope.


Definition ann_threshold (ts : list Z) (kp : list bool) (ep : iset) (lb : nat) : annot :=
  match lb with
  | 0%nat => ALoop [("ix", KArr1)] (fun st0 st => getar st "ix" = A1 DBool (bcells kp))
  | 4%nat => ALoop [("t", KInt); ("k", KInt); ("first", KAny); ("last", KAny);
                    ("ix_start", KArr); ("ix_end", KArr); ("new_start", KArr); ("new_end", KArr)]
               (fun st0 st => 0 <= getZ st "k" /\ (0 < zlen ep -> getZ st "k" < zlen ep)
                              /\ InvS ts kp ep (getZ st "t") (getZ st "k") (getD st "ix_start") (getD st "new_start")
                              /\ InvE ts kp ep (getZ st "t") (getZ st "k") (getD st "ix_end") (getD st "new_end"))
  | 5%nat => ALoop [("k", KInt)]
               (fun st0 st => 0 <= getZ st "k" /\ (0 < zlen ep -> getZ st "k" < zlen ep)
                              /\ InvS ts kp ep (getZ st "t") (getZ st "k") (getD st "ix_start") (getD st "new_start")
                              /\ InvE ts kp ep (getZ st "t") (getZ st "k") (getD st "ix_end") (getD st "new_end"))
  | 7%nat => ALoop [("ix_start", KArr); ("new_start", KArr)]
               (fun st0 st => InvS ts kp ep (getZ st "t" + 1) (getZ st "k") (getD st "ix_start") (getD st "new_start"))
  | 10%nat => ALoop [("ix_end", KArr); ("new_end", KArr)]
               (fun st0 st => InvE ts kp ep (getZ st "t" + 1) (getZ st "k") (getD st "ix_end") (getD st "new_end"))
  | _ => ANone
  end.

Definition threshold_args (ts : list Z) (dd : dtype) (data : list sval) (ep : iset) (thr : sval) (method : Z)
  : list value :=
  [Ar (A1 DFlt (qcells ts)); Ar (A1 dd data); Ar (A1 DFlt (qcells (firsts ep))); Ar (A1 DFlt (qcells (seconds ep)));
   Sc thr; Sc (VInt method)].
Definition threshold_result (ts : list Z) (dd : dtype) (data : list sval) (ep : iset) (kp : list bool) : list value :=
  [Ar (A1 DFlt (qcells (kept_times (smp ts kp)))); Ar (A1 dd (maskl data (bcells kp)));
   Ar (A1 DFlt (hcells (fst (target ts kp ep)))); Ar (A1 DFlt (hcells (snd (target ts kp ep))))].

Lemma nth_kept : forall (ts : list Z) (kp : list bool), length kp = length ts -> forall j, 0 <= j < zlen ts ->
  truthy (coerce DBool (nthZ (bcells kp) j)) = bk kp j.
Proof.
  intros ts kp H j Hj. unfold nthZ, bcells, bk.
  rewrite (nth_indep _ dflt (VBool false)) by (rewrite map_length; unfold zlen in Hj; lia).
  rewrite map_nth. reflexivity.
Qed.

Ltac rw_bk := repeat match goal with H : bk _ _ = _ |- _ => rewrite H end.
Ltac bsolve :=
  repeat match goal with
         | |- context [(?a =? ?b)%Z] => destruct (Z.eqb_spec a b)
         | |- context [(?a <? ?b)%Z] => destruct (Z.ltb_spec a b)
         end;
  cbn [orb andb negb]; first [reflexivity | lia | do 3 f_equal; lia].
Ltac flag_goal :=
  unfold sflag, eflag, mfirst, mlast, Jitfix_iset_func.sk, Jitfix_iset_func.ek; rw_bk; bsolve.
Ltac value_goal :=
  unfold hcell, mstart, mend, mfirst, mlast, Jitfix_iset_func.sk, Jitfix_iset_func.ek; bsolve.
Ltac exit_cond := first [left; lia | right; unfold Jitfix_iset_func.ek; lia].

#[local] Hint Rewrite zlen_qcells zlen_firsts zlen_seconds zlen_bcells zlen_hcells : zlen.

Theorem k_jitthreshold_computes_thr_go : forall ts dd data ep thr method fuel,
  length data = length ts -> 0 <= method <= 3 -> (ep = [] -> ts = []) ->
  match run fuel k_jitthreshold (threshold_args ts dd data ep thr method) with
  | Return rs => rs = threshold_result ts dd data ep (keptl method thr data)
  | OutOfFuel => True
  | _ => False
  end.
Proof.
  intros ts dd data ep thr method fuel Hd Hmeth Hne.
  set (kp := keptl method thr data).
  assert (Hlen : length kp = length ts) by (unfold kp, keptl; rewrite map_length; exact Hd).
  assert (Hm : 0 < zlen ts -> 0 < zlen ep).
  { intros H. destruct ep; [rewrite (Hne eq_refl) in H; unfold zlen in H; simpl in H; lia|].
    rewrite zlen_cons. pose proof (zlen_nonneg ep). lia. }
  pose proof (run_sound all_kernels (ann_threshold ts kp ep) k_jitthreshold
                (fun rs => rs = threshold_result ts dd data ep kp)
                (threshold_args ts dd data ep thr method) fuel) as RS.
  unfold run.
  match type of RS with ?P -> _ => assert (W : P) end.
  2: { specialize (RS W). unfold Interp.run in *.
       destruct (exec all_kernels fuel (fbody k_jitthreshold) (init_store k_jitthreshold (threshold_args ts dd data ep thr method)));
         simpl in *; auto. }
  clear RS. unfold threshold_args, threshold_result.
  assert (Hdz : zlen data = zlen ts) by (unfold zlen; lia).
  assert (Hkz : zlen kp = zlen ts) by (unfold zlen; lia).
  pose proof (cmp_cells_keptl method thr data) as Hcc. fold kp in Hcc.
  clearbody kp.
  wp_compute k_jitthreshold ann_threshold.
  vc k_jitthreshold ann_threshold.
  all: try solve [arith].
  all: try match goal with H : A1 _ _ = A1 _ _ |- _ => injection H as ? ?; subst end.
  all: autorewrite with zlen in *.
  all: try lia.
  all: try assumption.
  all: repeat match goal with
         | Hc : context [to_flt (nthZ (qcells ?l) ?k)] |- _ =>
             rewrite (nth_qcells l k) in Hc by (autorewrite with zlen; lia)
         | |- context [to_flt (nthZ (qcells ?l) ?k)] =>
             rewrite (nth_qcells l k) by (autorewrite with zlen; lia)
         end.
  all: repeat match goal with
         | Hc : context [cmp_flt Lt (Some (qtick _)) (Some (qtick _))] |- _ => rewrite cmp_lt_q in Hc
         | Hc : context [cmp_flt Gt (Some (qtick _)) (Some (qtick _))] |- _ => rewrite cmp_gt_q in Hc
         end.
  all: repeat match goal with
         | Hc : (_ <? _)%Z = _ |- _ => b2p Hc
         end.
  all: repeat match goal with
         | Hl : length ?kp = length ?ts, Hc : context [truthy (coerce DBool (nthZ (bcells ?kp) ?j))] |- _ =>
             rewrite (nth_kept ts kp Hl j) in Hc by lia
         end.
  all: rewrite ?mid_q; rewrite <- ?htick_double.
  all: try match goal with
         | Hm : ?method = _ |- A1 DBool (cmp_cells _ _ _) = _ => subst method; rewrite <- Hcc; reflexivity
         | |- InvS _ _ _ 0 0 _ _ => apply S_init; assumption
         | |- InvE _ _ _ 0 0 _ _ => apply E_init; assumption
         | |- InvS _ _ _ (?t + 1) ?k (updZ _ ?t _) (updZ _ ?t _) =>
             apply S_set; [assumption | assumption | lia | lia | exit_cond | flag_goal | value_goal]
         | |- InvE _ _ _ (?t + 1) ?k (updZ _ ?t _) (updZ _ ?t _) =>
             apply E_set; [assumption | assumption | lia | lia | exit_cond | flag_goal | value_goal]
         | |- InvS _ _ _ ?t (?k + 1) _ _ =>
             apply S_adv; [assumption | assumption | lia | lia | lia | unfold Jitfix_iset_func.ek; lia]
         | |- InvE _ _ _ ?t (?k + 1) _ _ =>
             apply E_adv; [assumption | assumption | lia | lia | lia | unfold Jitfix_iset_func.ek; lia]
         | |- InvS _ _ _ (?t + 1) ?k _ _ =>
             apply S_skip; [assumption | assumption | lia | lia | exit_cond | flag_goal]
         | |- InvE _ _ _ (?t + 1) ?k _ _ =>
             apply E_skip; [assumption | assumption | lia | lia | exit_cond | flag_goal]
         end.
  all: try match goal with
         | |- [Ar (A1 _ ?a); ?x; Ar (A1 _ ?b); Ar (A1 _ ?c)] = [Ar (A1 _ ?a'); ?x; Ar (A1 _ ?b'); Ar (A1 _ ?c')] =>
             replace a with a'; [replace b with b'; [replace c with c'; [reflexivity|] |] |]; symmetry
         end.
  all: try (apply mask_kept; assumption).
  all: try solve [eapply S_final; [assumption | first [eassumption | apply S_init; assumption] | lia]].
  all: try solve [eapply E_final; [assumption | first [eassumption | apply E_init; assumption] | lia]].
  (* the empty series: the loop is not entered *)
  assert (Ets : ts = []) by (destruct ts; [reflexivity | rewrite zlen_cons in *; pose proof (zlen_nonneg ts); lia]).
  subst ts. destruct kp; [|discriminate Hlen]. reflexivity.
Qed.

(* ---------- the two lists of [thr_go] have the same length under the C07 hypotheses ---------- *)

Lemma thr_go_len l : forall prev ep, Inv prev ep l ->
  (length (fst (thr_go prev ep l)) + (if opn prev ep l then 1 else 0) = length (snd (thr_go prev ep l)))%nat.
Proof.
  induction l as [|[x kx] r IH]; intros prev ep HI; [reflexivity|].
  destruct (Inv_cons _ _ _ _ _ HI) as (s0 & e0 & rest0 & s & e & rest & Hep & Hadv & Hx & Hse & Hs0 & Hmov & Hstay & Hincl & HI').
  rewrite (thr_go_step _ _ _ _ _ _ _ _ Hadv).
  pose proof (IH _ _ HI') as IHl.
  destruct (thr_go (Some (x, kx)) ((s, e) :: rest) r) as [SS EE] eqn:Hrec.
  cbn [fst snd] in IHl.
  unfold opn. rewrite Hadv. cbn [hd fst].
  destruct kx.
  - pose proof (opn_next _ _ _ _ _ HI') as Hn. rewrite Hn in IHl.
    destruct (lastb r e || negb (nextk r)) eqn:Hclose; cbn [negb] in IHl;
    destruct (prevk prev), (firstb prev s); cbn [andb orb negb app fst snd length]; lia.
  - cbn [fst snd]. 
    assert (O : opn (Some (x, false)) ((s, e) :: rest) r = false) by (destruct r as [|[y [|]] r']; reflexivity).
    rewrite O in IHl. lia.
Qed.

Lemma thr_go_lengths ep l :
  canonical ep -> strictly_increasing (map fst l) -> Forall (fun x => mem x ep = true) (map fst l) ->
  length (fst (thr_go None ep l)) = length (snd (thr_go None ep l)).
Proof.
  intros H1 H2 H3. assert (HI : Inv None ep l) by (repeat split; assumption).
  pose proof (thr_go_len l None ep HI) as L.
  assert (O : opn None ep l = false) by (destruct l as [|[x [|]] r]; reflexivity).
  rewrite O in L. lia.
Qed.

(* ---------- the statement against the model ---------- *)
Lemma maskl_filter : forall (d : list sval) (kp : list bool), length kp = length d ->
  maskl d (bcells kp) = map fst (filter snd (combine d kp)).
Proof.
  induction d as [|x r IH]; intros [|b s] H; simpl in H; try discriminate; [reflexivity|].
  change (bcells (b :: s)) with (VBool b :: bcells s). rewrite maskl_cons. cbn [truthy combine filter snd].
  rewrite IH by lia. destruct b; reflexivity.
Qed.

Theorem k_jitthreshold_computes_model : forall ts dd data ep thr method fuel,
  length data = length ts -> 0 <= method <= 3 -> (ep = [] -> ts = []) ->
  match run fuel k_jitthreshold (threshold_args ts dd data ep thr method) with
  | Return rs =>
      let kp := keptl method thr data in
      let l := combine ts kp in
      rs = [Ar (A1 DFlt (qcells (kept_times l)));
            Ar (A1 dd (map fst (filter snd (combine data kp))));
            Ar (A1 DFlt (hcells (fst (thr_go None ep l))));
            Ar (A1 DFlt (hcells (snd (thr_go None ep l))))]
      /\ threshold_support ep l = combine (fst (thr_go None ep l)) (snd (thr_go None ep l))
  | OutOfFuel => True
  | _ => False
  end.
Proof.
  intros ts dd data ep thr method fuel Hd Hmeth Hne.
  pose proof (k_jitthreshold_computes_thr_go ts dd data ep thr method fuel Hd Hmeth Hne) as K.
  destruct (run fuel k_jitthreshold (threshold_args ts dd data ep thr method)); auto.
  cbv zeta. split.
  - rewrite K. unfold threshold_result. rewrite maskl_filter by (unfold keptl; rewrite map_length; reflexivity).
    reflexivity.
  - unfold threshold_support. destruct (thr_go None ep (combine ts (keptl method thr data))); reflexivity.
Qed.

(* under the hypotheses of the C07 theorems (canonical support, strictly increasing time stamps, samples
   inside the support) the two lists have the same length, so the kernel's new_starts / new_ends are the
   starts / ends of [threshold_support] *)
Lemma map_fst_combine : forall {A B} (a : list A) (b : list B), length a = length b -> map fst (combine a b) = a.
Proof.
  induction a as [|x r IH]; intros [|y s] H; simpl in *; try discriminate; [reflexivity|].
  f_equal. apply IH. lia.
Qed.
Lemma map_snd_combine : forall {A B} (a : list A) (b : list B), length a = length b -> map snd (combine a b) = b.
Proof.
  induction a as [|x r IH]; intros [|y s] H; simpl in *; try discriminate; [reflexivity|].
  f_equal. apply IH. lia.
Qed.

Corollary k_jitthreshold_support : forall ts dd data ep thr method fuel,
  length data = length ts -> 0 <= method <= 3 ->
  canonical ep -> strictly_increasing ts -> Forall (fun x => mem x ep = true) ts ->
  match run fuel k_jitthreshold (threshold_args ts dd data ep thr method) with
  | Return rs =>
      let kp := keptl method thr data in
      let l := combine ts kp in
      rs = [Ar (A1 DFlt (qcells (kept_times l)));
            Ar (A1 dd (map fst (filter snd (combine data kp))));
            Ar (A1 DFlt (hcells (firsts (threshold_support ep l))));
            Ar (A1 DFlt (hcells (seconds (threshold_support ep l))))]
  | OutOfFuel => True
  | _ => False
  end.
Proof.
  intros ts dd data ep thr method fuel Hd Hmeth Hc Hs Hin.
  assert (Hne : ep = [] -> ts = []).
  { intros ->. destruct ts as [|x r]; [reflexivity|]. inversion Hin as [|? ? Hx _]. discriminate Hx. }
  pose proof (k_jitthreshold_computes_model ts dd data ep thr method fuel Hd Hmeth Hne) as K.
  destruct (run fuel k_jitthreshold (threshold_args ts dd data ep thr method)); auto.
  cbv zeta in *. destruct K as [K1 K2]. rewrite K1, K2.
  assert (Hk : length ts = length (keptl method thr data)) by (unfold keptl; rewrite map_length; lia).
  assert (Hf : map fst (combine ts (keptl method thr data)) = ts) by (apply map_fst_combine; exact Hk).
  pose proof (thr_go_lengths ep (combine ts (keptl method thr data)) Hc) as HL.
  rewrite Hf in HL. specialize (HL Hs Hin).
  unfold firsts, seconds. rewrite (map_fst_combine _ _ HL), (map_snd_combine _ _ HL). reflexivity.
Qed.

(* not vacuous: with enough fuel the kernel does return (termination itself is not proved).
   values 2 0 2 2 above 1 on one interval: a run closed at a midpoint, a run opened at a midpoint;
   then two intervals, the first holding a single kept sample (its interval is copied) *)
Definition fcell (z : Z) : sval := VFlt (Some (inject_Z z)).
Example k_jitthreshold_runs :
  run 1000 k_jitthreshold (threshold_args [0; 10; 20; 30] DFlt (map fcell [2; 0; 2; 2]) [(0, 40)] (fcell 1) 0)
  = Return [Ar (A1 DFlt (qcells [0; 20; 30])); Ar (A1 DFlt (map fcell [2; 2; 2]));
            Ar (A1 DFlt (hcells [0; 30])); Ar (A1 DFlt (hcells [10; 60]))].
Proof. vm_compute. reflexivity. Qed.
Example k_jitthreshold_runs2 :
  run 1000 k_jitthreshold
      (threshold_args [5; 21; 30; 35] DFlt (map fcell [2; 2; 2; 0]) [(0, 10); (20, 40)] (fcell 1) 2)
  = Return [Ar (A1 DFlt (qcells [5; 21; 30])); Ar (A1 DFlt (map fcell [2; 2; 2]));
            Ar (A1 DFlt (hcells [0; 42])); Ar (A1 DFlt (hcells [20; 65]))]
  /\ threshold_support [(0, 10); (20, 40)] (combine [5; 21; 30; 35] [true; true; true; false]) = [(0, 20); (42, 65)].
Proof. split; vm_compute; reflexivity. Qed.

Print Assumptions k_jitthreshold_computes_thr_go.
Print Assumptions k_jitthreshold_computes_model.
Print Assumptions k_jitthreshold_support.
