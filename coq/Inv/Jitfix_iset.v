(* C15: _jitfix_iset *)
From Coq Require Import ZArith QArith String List Bool Lia.
From Verif Require Import Jit.Lang Jit.Interp Jit.Safety Jit.Tactics Gen.Kernels.
Import ListNotations.
Open Scope Z_scope.
Local Open Scope string_scope.

Definition Pre__jitfix_iset (args : list value) : Prop :=
  exists d1 d2 s e, args = [Ar (A1 d1 s); Ar (A1 d2 e)] /\ zlen s = zlen e.

Definition ann__jitfix_iset (l : nat) : annot :=
  match l with
  | 0%nat => ALoop [("i", KInt); ("ct", KInt); ("newstart", KAny); ("newend", KAny);
                    ("to_warn", KArr); ("data", KArr)]
                   (fun st0 st => 0 <= getZ st "ct" <= getZ st "i")
  | 1%nat => ALoop [("i", KInt); ("newstart", KSc); ("newend", KSc); ("to_warn", KArr)]
                   (fun st0 st => getZ st0 "i" <= getZ st "i")
  | 5%nat => ALoop [("i", KInt); ("newend", KSc); ("to_warn", KArr)]
                   (fun st0 st => getZ st0 "i" <= getZ st "i" < getZ st0 "m")
  | _ => ANone
  end.

Theorem k__jitfix_iset_safe : forall args, Pre__jitfix_iset args ->
  forall fuel, safe_outcome (run fuel k__jitfix_iset args).
Proof.
  intros args (d1 & d2 & s & e & -> & H) fuel.
  safe_start k__jitfix_iset ann__jitfix_iset. vc k__jitfix_iset ann__jitfix_iset.
Qed.
