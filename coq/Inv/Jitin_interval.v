(* C15: jitin_interval *)
From Coq Require Import ZArith QArith String List Bool Lia.
From Verif Require Import Jit.Lang Jit.Interp Jit.Safety Jit.Tactics Gen.Kernels.
Import ListNotations.
Open Scope Z_scope.
Local Open Scope string_scope.

Definition Pre_jitin_interval (args : list value) : Prop :=
  exists d1 d2 d3 ta s e,
    args = [Ar (A1 d1 ta); Ar (A1 d2 s); Ar (A1 d3 e)] /\ zlen s = zlen e.

Definition ann_jitin_interval (l : nat) : annot :=
  match l with
  | 0%nat => ALoop [("k", KInt)] (fun st0 st => 0 <= getZ st "k")
  | 1%nat => ALoop [("k", KInt); ("t", KInt); ("data", KArr)]
                   (fun st0 st => 0 <= getZ st "k" /\ 0 <= getZ st "t")
  | 2%nat => ALoop [("t", KInt)] (fun st0 st => getZ st0 "t" <= getZ st "t")
  | 4%nat => ALoop [("k", KInt); ("t", KInt); ("data", KArr)]
                   (fun st0 st => getZ st "k" = getZ st0 "k" /\ 0 <= getZ st "t")
  | _ => ANone
  end.

Theorem k_jitin_interval_safe : forall args, Pre_jitin_interval args ->
  forall fuel, safe_outcome (run fuel k_jitin_interval args).
Proof.
  intros args (d1 & d2 & d3 & ta & s & e & -> & H) fuel.
  safe_start k_jitin_interval ann_jitin_interval. vc k_jitin_interval ann_jitin_interval.
Qed.
