(* TOTAL correctness of the translated jitrestrict: for every tick array ts and every interval list
   ep with start <= end there is a fuel with which the checked interpreter runs the kernel text to
   completion, and the value returned is the index array of the model [restrict_idx ts ep].

   Termination is proved with the total-correctness calculus of Jit/Total.v, used as a
   termination-only calculus (trivial postcondition): arithmetic loop facts (the safety facts of
   Inv/Jitrestrict.v strengthened by t <= n) and one integer variant per while loop.  It holds for
   ALL arrays (any dtype, any contents; starts and ends of equal length) - no sortedness, no
   start <= end.  The functional part is the partial-correctness theorem of Inv/Jitrestrict_func.v;
   the two are combined by [total_of_partial_eq]. *)
From Coq Require Import ZArith QArith String List Bool Lia.
From Verif Require Import Base.Prelude Model.Restrict.
From Verif Require Import Jit.Lang Jit.Interp Jit.Safety Jit.Tactics Jit.Total Gen.Kernels.
From Verif Require Import Inv.Jitrestrict Inv.Jitrestrict_func.
Import ListNotations.
Open Scope Z_scope.
Local Open Scope string_scope.

Definition ann_term (l : nat) : annot :=
  match l with
  | 0%nat => ALoop [("k", KInt)] (fun st0 st => 0 <= getZ st "k")
  | 1%nat => ALoop [("k", KInt); ("t", KInt); ("x", KInt); ("ix", KArr)]
                   (fun st0 st => 0 <= getZ st "k" /\ 0 <= getZ st "x" <= getZ st "t"
                                  /\ getZ st "t" <= getZ st0 "n")
  | 2%nat => ALoop [("t", KInt)] (fun st0 st => getZ st0 "t" <= getZ st "t" <= getZ st0 "n")
  | 4%nat => ALoop [("k", KInt); ("t", KInt); ("x", KInt); ("ix", KArr)]
                   (fun st0 st => getZ st "k" = getZ st0 "k" /\ 0 <= getZ st "x" <= getZ st "t"
                                  /\ getZ st "t" <= getZ st0 "n")
  | _ => ANone
  end.

(* one variant per while loop: the interval cursor k climbs to m (labels 0, 1), the sample cursor t
   climbs to n (labels 2, 4) *)
Definition vnt_term (l : nat) (st : store) : Z :=
  match l with
  | 0%nat | 1%nat => getZ st "m" - getZ st "k"
  | 2%nat | 4%nat => getZ st "n" - getZ st "t"
  | _ => 0
  end.

Theorem k_jitrestrict_terminates : forall args, Pre_jitrestrict args ->
  exists fuel, run fuel k_jitrestrict args <> OutOfFuel.
Proof.
  intros args (d1 & d2 & d3 & ta & s & e & -> & H).
  unfold run. term_start k_jitrestrict ann_term vnt_term.
  vc k_jitrestrict ann_term.
Qed.

Theorem k_jitrestrict_total : forall ts ep, Forall (fun I => fst I <= snd I) ep ->
  exists fuel, run fuel k_jitrestrict (jitrestrict_args ts ep) = Return [index_array (restrict_idx ts ep)].
Proof.
  intros ts ep Hep. unfold run. apply total_of_partial_eq.
  - intros fuel. exact (k_jitrestrict_computes_restrict_idx ts ep fuel Hep).
  - apply k_jitrestrict_terminates. unfold jitrestrict_args, Pre_jitrestrict.
    do 6 eexists. split; [reflexivity|].
    rewrite !zlen_tcells, zlen_firsts, zlen_seconds. reflexivity.
Qed.

(* non-vacuity: on a concrete input the fuel is found by computation, and the value is the model's *)
Example k_jitrestrict_total_ex :
  exists fuel, run fuel k_jitrestrict (jitrestrict_args [0; 5; 9; 12] [(4, 6); (8, 20)])
               = Return [index_array (restrict_idx [0; 5; 9; 12] [(4, 6); (8, 20)])].
Proof. exists 20%nat. vm_compute. reflexivity. Qed.

Print Assumptions k_jitrestrict_terminates.
Print Assumptions k_jitrestrict_total.
