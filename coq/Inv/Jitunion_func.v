(* Functional correctness of the TRANSLATED jitunion against the hand-written functional model
   Model/Iset.v [k_union] (the model the C02 union theorems are about), by proof:

     for ALL interval lists A and B (no canonicity, no properness, no order is needed),
     running the translated kernel (Gen/Kernels.v) on the arrays of starts/ends of A and of B
     returns, whenever it returns, exactly the two arrays starts / ends of [k_union A B].

   Partial correctness (the wp calculus does not prove termination; OutOfFuel is allowed).
   Times are embedded as the rationals [inject_Z t], as in Inv/Jitrestrict_func.v.

   Structure:
   1. the model's sweep [union_go] does not depend on its fuel once the fuel is sufficient
      (outer mode 2(|A|+|B|)+1, chain mode 2(|A|+|B|)); [usweep] is the sweep with that fuel and
      obeys the fuel-free recursion equations [usweep_none_cons], [usweep_some_cons];
   2. [urest chain i j] = what the model still emits from positions (i, j), with one equation per
      path through the kernel's loops;
   3. invariants: (cells written so far) ++ cells (urest chain i j) = cells (k_union A B); inside a
      chain the start of the pending interval is the cell newstart[ct], already written;
   4. the verification condition of the kernel text under these annotations. *)
From Coq Require Import ZArith QArith String List Bool Lia.
From Verif Require Import Base.Prelude Model.Iset Proofs.UnionProofs.
From Verif Require Import Jit.Lang Jit.Interp Jit.Safety Jit.Tactics Jit.ArrayFacts Gen.Kernels.
From Verif Require Import Inv.Jitrestrict_func.
Import ListNotations.
Open Scope Z_scope.

#[local] Hint Rewrite zlen_tcells zlen_firsts zlen_seconds : zlen.

(* ---------- fuel independence of the model's sweep ---------- *)
Definition union_need (chain : option Z) (A B : iset) : nat :=
  match chain with
  | None => (2 * (length A + length B) + 1)%nat
  | Some _ => (2 * (length A + length B))%nat
  end.

Lemma union_go_fuel : forall f1 f2 chain A B,
  (union_need chain A B <= f1)%nat -> (union_need chain A B <= f2)%nat ->
  union_go f1 chain A B = union_go f2 chain A B.
Proof.
  induction f1 as [|f1 IH]; intros f2 chain A B H1 H2.
  { destruct chain as [ns|]; cbn [union_need] in *; [|lia].
    destruct A as [|[sA eA] A']; [|cbn [length] in *; lia].
    destruct f2; [reflexivity|]. cbn [union_go]. reflexivity. }
  destruct f2 as [|f2].
  { destruct chain as [ns|]; cbn [union_need] in *; [|lia].
    destruct A as [|[sA eA] A']; [|cbn [length] in *; lia].
    cbn [union_go]. reflexivity. }
  destruct chain as [ns|]; cbn [union_need] in *.
  - destruct A as [|[sA eA] A']; [reflexivity|].
    destruct B as [|[sB eB] B']; [reflexivity|].
    cbn [union_go length] in *.
    destruct (eA <? eB).
    + destruct A' as [|[sA' eA'] A'']; cbn [List.tl length] in *.
      * f_equal. apply IH; cbn [union_need length]; lia.
      * destruct (eB <? sA'); [f_equal; apply IH; cbn [union_need length]; lia|].
        destruct (eA' <? sB); [f_equal; apply IH; cbn [union_need length]; lia|].
        apply IH; cbn [union_need length]; lia.
    + destruct B' as [|[sB' eB'] B'']; cbn [List.tl length] in *.
      * f_equal. apply IH; cbn [union_need length]; lia.
      * destruct (eB' <? sA); [f_equal; apply IH; cbn [union_need length]; lia|].
        destruct (eA <? sB'); [f_equal; apply IH; cbn [union_need length]; lia|].
        apply IH; cbn [union_need length]; lia.
  - destruct A as [|[sA eA] A']; [reflexivity|].
    destruct B as [|[sB eB] B']; [reflexivity|].
    cbn [union_go length] in *.
    destruct (eB <=? sA); [f_equal; apply IH; cbn [union_need length]; lia|].
    destruct (sB <? eA); [|f_equal]; apply IH; cbn [union_need length]; lia.
Qed.

(* the sweep with exactly the fuel it needs *)
Definition usweep (chain : option Z) (A B : iset) : iset := union_go (union_need chain A B) chain A B.

Lemma usweep_of_fuel : forall f chain A B, (union_need chain A B <= f)%nat -> union_go f chain A B = usweep chain A B.
Proof. intros. unfold usweep. apply union_go_fuel; [assumption | apply le_n]. Qed.

Lemma k_union_U : forall A B, k_union A B = usweep None A B.
Proof. intros. unfold k_union. apply usweep_of_fuel. cbn [union_need]. lia. Qed.

Lemma usweep_nil_l : forall B, usweep None [] B = B.
Proof. intros. unfold usweep. cbn [union_need]. rewrite Nat.add_1_r. reflexivity. Qed.
Lemma usweep_nil_r : forall A, usweep None A [] = A.
Proof. intros. unfold usweep. cbn [union_need]. rewrite Nat.add_1_r. destruct A as [|[s e] r]; reflexivity. Qed.

Lemma usweep_none_cons : forall sA eA A' sB eB B',
  usweep None ((sA, eA) :: A') ((sB, eB) :: B') =
  if eB <=? sA then (sB, eB) :: usweep None ((sA, eA) :: A') B'
  else if sB <? eA then usweep (Some (Z.min sA sB)) ((sA, eA) :: A') ((sB, eB) :: B')
  else (sA, eA) :: usweep None A' ((sB, eB) :: B').
Proof.
  intros. unfold usweep at 1. cbn [union_need]. rewrite Nat.add_1_r. cbn [union_go].
  destruct (eB <=? sA); [f_equal; apply usweep_of_fuel; cbn [union_need length]; lia|].
  destruct (sB <? eA); [|f_equal]; apply usweep_of_fuel; cbn [union_need length]; lia.
Qed.

Lemma usweep_some_cons : forall ns sA eA A' sB eB B',
  usweep (Some ns) ((sA, eA) :: A') ((sB, eB) :: B') =
  let ne := Z.max eA eB in
  let A1 := if eA <? eB then A' else (sA, eA) :: A' in
  let B1 := if eA <? eB then (sB, eB) :: B' else B' in
  match A1, B1 with
  | [], _ => (ns, ne) :: usweep None [] (List.tl B1)
  | _, [] => (ns, ne) :: usweep None (List.tl A1) []
  | (sA', eA') :: _, (sB', eB') :: _ =>
      if eB' <? sA' then (ns, ne) :: usweep None A1 (List.tl B1)
      else if eA' <? sB' then (ns, ne) :: usweep None (List.tl A1) B1
      else usweep (Some ns) A1 B1
  end.
Proof.
  intros. unfold usweep at 1. cbn [union_need length].
  replace (2 * (S (length A') + S (length B')))%nat with (S (2 * (length A' + length B') + 3))%nat by lia.
  cbn [union_go]. cbv zeta.
  destruct (eA <? eB).
  - destruct A' as [|[sA' eA'] A'']; cbn [List.tl].
    + f_equal. apply usweep_of_fuel; cbn [union_need length]; lia.
    + destruct (eB <? sA'); [f_equal; apply usweep_of_fuel; cbn [union_need length]; lia|].
      destruct (eA' <? sB); [f_equal|]; apply usweep_of_fuel; cbn [union_need length]; lia.
  - destruct B' as [|[sB' eB'] B'']; cbn [List.tl].
    + f_equal. apply usweep_of_fuel; cbn [union_need length]; lia.
    + destruct (eB' <? sA); [f_equal; apply usweep_of_fuel; cbn [union_need length]; lia|].
      destruct (eA <? sB'); [f_equal|]; apply usweep_of_fuel; cbn [union_need length]; lia.
Qed.

(* ---------- positions in an interval list ---------- *)
Lemma skipn_iv : forall (L : iset) k, 0 <= k < zlen L ->
  skipn (Z.to_nat k) L = (tk (firsts L) k, tk (seconds L) k) :: skipn (Z.to_nat (k + 1)) L.
Proof.
  intros L k H. unfold tk, firsts, seconds. replace (Z.to_nat (k + 1)) with (S (Z.to_nat k)) by lia.
  assert (Hn : (Z.to_nat k < length L)%nat) by (unfold zlen in H; lia).
  generalize (Z.to_nat k) Hn. clear H Hn. induction L as [|[s e] r IH]; intros n Hn; simpl in Hn; [lia|].
  destruct n; [reflexivity|]. simpl. apply IH. lia.
Qed.
Lemma skipn_iv_end : forall (L : iset) k, zlen L <= k -> skipn (Z.to_nat k) L = [].
Proof. intros L k H. apply skipn_all2. unfold zlen in H. lia. Qed.
Lemma tl_skipn : forall (L : iset) k, 0 <= k -> List.tl (skipn (Z.to_nat k) L) = skipn (Z.to_nat (k + 1)) L.
Proof.
  intros L k H. replace (Z.to_nat (k + 1)) with (S (Z.to_nat k)) by lia.
  generalize (Z.to_nat k). clear H. induction L as [|x r IH]; intros n.
  - destruct n; reflexivity.
  - destruct n; [reflexivity|]. cbn [skipn]. rewrite IH. reflexivity.
Qed.

Section Pos.
Variables A B : iset.

Definition sA (k : Z) : Z := tk (firsts A) k.
Definition eA (k : Z) : Z := tk (seconds A) k.
Definition sB (k : Z) : Z := tk (firsts B) k.
Definition eB (k : Z) : Z := tk (seconds B) k.

(* what the model still emits from positions (i, j) *)
Definition urest (chain : option Z) (i j : Z) : iset :=
  usweep chain (skipn (Z.to_nat i) A) (skipn (Z.to_nat j) B).

Lemma skA : forall i, 0 <= i < zlen A ->
  skipn (Z.to_nat i) A = (sA i, eA i) :: skipn (Z.to_nat (i + 1)) A.
Proof. intros. apply skipn_iv. assumption. Qed.
Lemma skB : forall j, 0 <= j < zlen B ->
  skipn (Z.to_nat j) B = (sB j, eB j) :: skipn (Z.to_nat (j + 1)) B.
Proof. intros. apply skipn_iv. assumption. Qed.

Lemma urest_start : urest None 0 0 = k_union A B.
Proof. unfold urest. rewrite k_union_U. reflexivity. Qed.

Lemma urest_endA : forall i j, zlen A <= i -> urest None i j = skipn (Z.to_nat j) B.
Proof. intros. unfold urest. rewrite skipn_iv_end by assumption. apply usweep_nil_l. Qed.
Lemma urest_endB : forall i j, zlen B <= j -> urest None i j = skipn (Z.to_nat i) A.
Proof. intros. unfold urest. rewrite (skipn_iv_end B) by assumption. apply usweep_nil_r. Qed.
Lemma urest_end : forall i j, zlen A <= i -> zlen B <= j -> urest None i j = [].
Proof. intros. rewrite urest_endA by assumption. apply skipn_iv_end. assumption. Qed.

Lemma urest_copyA : forall i j, 0 <= i < zlen A -> zlen B <= j ->
  urest None i j = (sA i, eA i) :: urest None (i + 1) j.
Proof.
  intros. rewrite !urest_endB by assumption. apply skA. assumption.
Qed.
Lemma urest_copyB : forall i j, zlen A <= i -> 0 <= j < zlen B ->
  urest None i j = (sB j, eB j) :: urest None i (j + 1).
Proof.
  intros. rewrite !urest_endA by assumption. apply skB. assumption.
Qed.

Lemma urest_takeB : forall i j, 0 <= i < zlen A -> 0 <= j < zlen B -> eB j <= sA i ->
  urest None i j = (sB j, eB j) :: urest None i (j + 1).
Proof.
  intros i j Hi Hj H. unfold urest. rewrite (skB j Hj). rewrite (skA i Hi).
  rewrite usweep_none_cons.
  assert (E : (eB j <=? sA i) = true) by (apply Z.leb_le; assumption). rewrite E. reflexivity.
Qed.
Lemma urest_chain : forall i j, 0 <= i < zlen A -> 0 <= j < zlen B -> sA i < eB j -> sB j < eA i ->
  urest None i j = urest (Some (Z.min (sA i) (sB j))) i j.
Proof.
  intros i j Hi Hj H H'. unfold urest. rewrite (skB j Hj). rewrite (skA i Hi).
  rewrite usweep_none_cons.
  assert (E : (eB j <=? sA i) = false) by (apply Z.leb_gt; assumption). rewrite E.
  assert (E' : (sB j <? eA i) = true) by (apply Z.ltb_lt; assumption). rewrite E'. reflexivity.
Qed.
Lemma urest_takeA : forall i j, 0 <= i < zlen A -> 0 <= j < zlen B -> sA i < eB j -> eA i <= sB j ->
  urest None i j = (sA i, eA i) :: urest None (i + 1) j.
Proof.
  intros i j Hi Hj H H'. unfold urest. rewrite (skB j Hj). rewrite (skA i Hi).
  rewrite usweep_none_cons.
  assert (E : (eB j <=? sA i) = false) by (apply Z.leb_gt; assumption). rewrite E.
  assert (E' : (sB j <? eA i) = false) by (apply Z.ltb_ge; assumption). rewrite E'.
  rewrite <- (skB j Hj). reflexivity.
Qed.

(* one iteration of the chain loop: the set whose interval ends first advances *)
Definition Adv (i j i' j' : Z) : Prop :=
  (eA i < eB j /\ i' = i + 1 /\ j' = j) \/ (eB j <= eA i /\ i' = i /\ j' = j + 1).

Lemma urest_some_unfold : forall ns i j i' j', 0 <= i < zlen A -> 0 <= j < zlen B -> Adv i j i' j' ->
  urest (Some ns) i j =
  let ne := Z.max (eA i) (eB j) in
  let A1 := skipn (Z.to_nat i') A in
  let B1 := skipn (Z.to_nat j') B in
  match A1, B1 with
  | [], _ => (ns, ne) :: usweep None [] (List.tl B1)
  | _, [] => (ns, ne) :: usweep None (List.tl A1) []
  | (sA', eA') :: _, (sB', eB') :: _ =>
      if eB' <? sA' then (ns, ne) :: usweep None A1 (List.tl B1)
      else if eA' <? sB' then (ns, ne) :: usweep None (List.tl A1) B1
      else usweep (Some ns) A1 B1
  end.
Proof.
  intros ns i j i' j' Hi Hj Ha.
  destruct Ha as [(H & -> & ->)|(H & -> & ->)]; unfold urest; cbv zeta.
  - rewrite (skB j Hj). rewrite (skA i Hi). rewrite usweep_some_cons. cbv zeta.
    assert (E : (eA i <? eB j) = true) by (apply Z.ltb_lt; assumption). rewrite E. reflexivity.
  - rewrite (skA i Hi). rewrite (skB j Hj). rewrite usweep_some_cons. cbv zeta.
    assert (E : (eA i <? eB j) = false) by (apply Z.ltb_ge; assumption). rewrite E. reflexivity.
Qed.

Lemma Adv_bounds : forall i j i' j', Adv i j i' j' -> 0 <= i -> 0 <= j -> 0 <= i' /\ 0 <= j'.
Proof. intros i j i' j' [(H & -> & ->)|(H & -> & ->)] Hi Hj; lia. Qed.

Lemma urest_some_endA : forall ns i j i' j', 0 <= i < zlen A -> 0 <= j < zlen B -> Adv i j i' j' ->
  zlen A <= i' ->
  urest (Some ns) i j = (ns, Z.max (eA i) (eB j)) :: urest None i' (j' + 1).
Proof.
  intros ns i j i' j' Hi Hj Ha H. rewrite (urest_some_unfold ns i j i' j' Hi Hj Ha). cbv zeta.
  destruct (Adv_bounds _ _ _ _ Ha) as [Hi' Hj']; try lia.
  unfold urest. rewrite (skipn_iv_end A i' H). rewrite tl_skipn by assumption. reflexivity.
Qed.
Lemma urest_some_endB : forall ns i j i' j', 0 <= i < zlen A -> 0 <= j < zlen B -> Adv i j i' j' ->
  i' < zlen A -> zlen B <= j' ->
  urest (Some ns) i j = (ns, Z.max (eA i) (eB j)) :: urest None (i' + 1) j'.
Proof.
  intros ns i j i' j' Hi Hj Ha H H'. rewrite (urest_some_unfold ns i j i' j' Hi Hj Ha). cbv zeta.
  destruct (Adv_bounds _ _ _ _ Ha) as [Hi' Hj']; try lia.
  unfold urest. rewrite (skipn_iv_end B j' H'). rewrite <- (tl_skipn A i') by assumption.
  rewrite (skA i') by lia. reflexivity.
Qed.
Lemma urest_some_brkB : forall ns i j i' j', 0 <= i < zlen A -> 0 <= j < zlen B -> Adv i j i' j' ->
  i' < zlen A -> j' < zlen B -> eB j' < sA i' ->
  urest (Some ns) i j = (ns, Z.max (eA i) (eB j)) :: urest None i' (j' + 1).
Proof.
  intros ns i j i' j' Hi Hj Ha H H' Hc. rewrite (urest_some_unfold ns i j i' j' Hi Hj Ha). cbv zeta.
  destruct (Adv_bounds _ _ _ _ Ha) as [Hi' Hj']; try lia.
  unfold urest. rewrite <- (tl_skipn B j') by assumption.
  rewrite (skA i') by lia. rewrite (skB j') by lia.
  assert (E : (eB j' <? sA i') = true) by (apply Z.ltb_lt; assumption). rewrite E. reflexivity.
Qed.
Lemma urest_some_brkA : forall ns i j i' j', 0 <= i < zlen A -> 0 <= j < zlen B -> Adv i j i' j' ->
  i' < zlen A -> j' < zlen B -> sA i' <= eB j' -> eA i' < sB j' ->
  urest (Some ns) i j = (ns, Z.max (eA i) (eB j)) :: urest None (i' + 1) j'.
Proof.
  intros ns i j i' j' Hi Hj Ha H H' Hc Hc'. rewrite (urest_some_unfold ns i j i' j' Hi Hj Ha). cbv zeta.
  destruct (Adv_bounds _ _ _ _ Ha) as [Hi' Hj']; try lia.
  unfold urest. rewrite <- (tl_skipn A i') by assumption.
  rewrite (skA i') by lia. rewrite (skB j') by lia.
  assert (E : (eB j' <? sA i') = false) by (apply Z.ltb_ge; assumption). rewrite E.
  assert (E' : (eA i' <? sB j') = true) by (apply Z.ltb_lt; assumption). rewrite E'. reflexivity.
Qed.
Lemma urest_some_cont : forall ns i j i' j', 0 <= i < zlen A -> 0 <= j < zlen B -> Adv i j i' j' ->
  i' < zlen A -> j' < zlen B -> sA i' <= eB j' -> sB j' <= eA i' ->
  urest (Some ns) i j = urest (Some ns) i' j'.
Proof.
  intros ns i j i' j' Hi Hj Ha H H' Hc Hc'. rewrite (urest_some_unfold ns i j i' j' Hi Hj Ha). cbv zeta.
  destruct (Adv_bounds _ _ _ _ Ha) as [Hi' Hj']; try lia.
  unfold urest.
  rewrite (skA i') by lia. rewrite (skB j') by lia.
  assert (E : (eB j' <? sA i') = false) by (apply Z.ltb_ge; assumption). rewrite E.
  assert (E' : (eA i' <? sB j') = false) by (apply Z.ltb_ge; assumption). rewrite E'. reflexivity.
Qed.

End Pos.

(* ---------- the output written so far ---------- *)
Definition cellsP (l : iset) : list (sval * sval) := map (fun I => (tcell (fst I), tcell (snd I))) l.
Definition outp (ns ne : list sval) (ct : Z) : list (sval * sval) :=
  combine (firstn (Z.to_nat ct) ns) (firstn (Z.to_nat ct) ne).

Lemma combine_app : forall {X Y} (a a' : list X) (b b' : list Y), length a = length b ->
  combine (a ++ a') (b ++ b') = (combine a b ++ combine a' b')%list.
Proof.
  induction a as [|x a IH]; intros a' b b' H; destruct b as [|y b]; simpl in H; try discriminate; [reflexivity|].
  simpl. rewrite IH by lia. reflexivity.
Qed.

Lemma map_fst_combine : forall {X Y} (a : list X) (b : list Y), length a = length b -> map fst (combine a b) = a.
Proof.
  induction a as [|x a IH]; intros b H; destruct b as [|y b]; simpl in H; try discriminate; [reflexivity|].
  simpl. rewrite IH by lia. reflexivity.
Qed.
Lemma map_snd_combine : forall {X Y} (a : list X) (b : list Y), length a = length b -> map snd (combine a b) = b.
Proof.
  induction a as [|x a IH]; intros b H; destruct b as [|y b]; simpl in H; try discriminate; [reflexivity|].
  simpl. rewrite IH by lia. reflexivity.
Qed.

Lemma outp_0 : forall ns ne, outp ns ne 0 = [].
Proof. reflexivity. Qed.

Lemma outp_upd_s : forall ns ne ct v, 0 <= ct -> outp (updZ ns ct v) ne ct = outp ns ne ct.
Proof. intros. unfold outp, updZ. rewrite firstn_upd_nth_ge by lia. reflexivity. Qed.
Lemma outp_upd_e : forall ns ne ct v, 0 <= ct -> outp ns (updZ ne ct v) ct = outp ns ne ct.
Proof. intros. unfold outp, updZ. rewrite firstn_upd_nth_ge by lia. reflexivity. Qed.

Lemma outp_snoc : forall ns ne ct, 0 <= ct < zlen ns -> ct < zlen ne ->
  outp ns ne (ct + 1) = (outp ns ne ct ++ [(nthZ ns ct, nthZ ne ct)])%list.
Proof.
  intros ns ne ct H H'. unfold outp, nthZ, zlen in *.
  replace (Z.to_nat (ct + 1)) with (S (Z.to_nat ct)) by lia.
  rewrite (firstn_snoc ns (Z.to_nat ct) dflt) by lia.
  rewrite (firstn_snoc ne (Z.to_nat ct) dflt) by lia.
  rewrite combine_app by (rewrite !firstn_length; lia). reflexivity.
Qed.

Lemma nthZ_updZ_same : forall d k v, 0 <= k < zlen d -> nthZ (updZ d k v) k = v.
Proof. intros d k v H. unfold nthZ, updZ. apply nth_upd_nth_same. unfold zlen in H. lia. Qed.

Lemma outp_emit : forall ns ne ct a b Rest, 0 <= ct < zlen ns -> ct < zlen ne ->
  nthZ ns ct = tcell a -> nthZ ne ct = tcell b ->
  (outp ns ne (ct + 1) ++ cellsP Rest = outp ns ne ct ++ cellsP ((a, b) :: Rest))%list.
Proof.
  intros ns ne ct a b Rest H H' Ea Eb. rewrite outp_snoc by assumption. rewrite Ea, Eb.
  rewrite <- app_assoc. reflexivity.
Qed.

(* both cells of entry ct written *)
Lemma emit2 : forall ns ne ct a b Rest, 0 <= ct < zlen ns -> ct < zlen ne ->
  (outp (updZ ns ct (tcell a)) (updZ ne ct (tcell b)) (ct + 1) ++ cellsP Rest
   = outp ns ne ct ++ cellsP ((a, b) :: Rest))%list.
Proof.
  intros ns ne ct a b Rest H H'.
  rewrite (outp_emit _ _ ct a b) by (autorewrite with zlen; try lia; apply nthZ_updZ_same; lia).
  rewrite outp_upd_s, outp_upd_e by lia. reflexivity.
Qed.
(* the start cell was written earlier (chain), the end cell now *)
Lemma emit1 : forall ns ne ct a b Rest, 0 <= ct < zlen ns -> ct < zlen ne -> nthZ ns ct = tcell a ->
  (outp ns (updZ ne ct (tcell b)) (ct + 1) ++ cellsP Rest
   = outp ns ne ct ++ cellsP ((a, b) :: Rest))%list.
Proof.
  intros ns ne ct a b Rest H H' Ea.
  rewrite (outp_emit _ _ ct a b) by (autorewrite with zlen; try lia; try assumption; apply nthZ_updZ_same; lia).
  rewrite outp_upd_e by lia. reflexivity.
Qed.

(* cells computed by the kernel from embedded ticks *)
Lemma fmin_inj : forall a b, VFlt (fmin (Some (inject_Z a)) (Some (inject_Z b))) = tcell (Z.min a b).
Proof.
  intros. unfold fmin, f2, tcell. rewrite Qle_bool_inj.
  destruct (Z.leb_spec a b); [rewrite Z.min_l by lia | rewrite Z.min_r by lia]; reflexivity.
Qed.
Lemma fmax_inj : forall a b, VFlt (fmax (Some (inject_Z a)) (Some (inject_Z b))) = tcell (Z.max a b).
Proof.
  intros. unfold fmax, f2, tcell. rewrite Qle_bool_inj.
  destruct (Z.leb_spec a b); [rewrite Z.max_r by lia | rewrite Z.max_l by lia]; reflexivity.
Qed.

(* ---------- invariants ---------- *)
Section Inv.
Variables A B : iset.
Definition utarget : list (sval * sval) := cellsP (k_union A B).

(* outside a chain *)
Definition InvN (i j ct : Z) (ns ne : list sval) : Prop :=
  (outp ns ne ct ++ cellsP (urest A B None i j))%list = utarget.
(* inside the chain entered at (i0, j0): the start of the pending interval is already in ns[ct] *)
Definition InvC (i0 j0 i j ct : Z) (ns ne : list sval) : Prop :=
  nthZ ns ct = tcell (Z.min (sA A i0) (sB B j0))
  /\ (outp ns ne ct ++ cellsP (urest A B (Some (Z.min (sA A i0) (sB B j0))) i j))%list = utarget.

Lemma T_init : forall ns ne, InvN 0 0 0 ns ne.
Proof. intros. unfold InvN. rewrite outp_0, urest_start. reflexivity. Qed.

Lemma T_takeB : forall i j ct ns ne, InvN i j ct ns ne ->
  0 <= i < zlen A -> 0 <= j < zlen B -> eB B j <= sA A i -> 0 <= ct < zlen ns -> ct < zlen ne ->
  InvN i (j + 1) (ct + 1) (updZ ns ct (tcell (sB B j))) (updZ ne ct (tcell (eB B j))).
Proof.
  unfold InvN. intros i j ct ns ne H Hi Hj Hc Hct Hct'.
  rewrite emit2 by assumption. rewrite <- (urest_takeB A B i j) by assumption. exact H.
Qed.
Lemma T_takeA : forall i j ct ns ne, InvN i j ct ns ne ->
  0 <= i < zlen A -> 0 <= j < zlen B -> sA A i < eB B j -> eA A i <= sB B j -> 0 <= ct < zlen ns -> ct < zlen ne ->
  InvN (i + 1) j (ct + 1) (updZ ns ct (tcell (sA A i))) (updZ ne ct (tcell (eA A i))).
Proof.
  unfold InvN. intros i j ct ns ne H Hi Hj Hc Hc' Hct Hct'.
  rewrite emit2 by assumption. rewrite <- (urest_takeA A B i j) by assumption. exact H.
Qed.
Lemma T_copyA : forall i j ct ns ne, InvN i j ct ns ne ->
  0 <= i < zlen A -> zlen B <= j -> 0 <= ct < zlen ns -> ct < zlen ne ->
  InvN (i + 1) j (ct + 1) (updZ ns ct (tcell (sA A i))) (updZ ne ct (tcell (eA A i))).
Proof.
  unfold InvN. intros i j ct ns ne H Hi Hj Hct Hct'.
  rewrite emit2 by assumption. rewrite <- (urest_copyA A B i j) by assumption. exact H.
Qed.
Lemma T_copyB : forall i j ct ns ne, InvN i j ct ns ne ->
  zlen A <= i -> 0 <= j < zlen B -> 0 <= ct < zlen ns -> ct < zlen ne ->
  InvN i (j + 1) (ct + 1) (updZ ns ct (tcell (sB B j))) (updZ ne ct (tcell (eB B j))).
Proof.
  unfold InvN. intros i j ct ns ne H Hi Hj Hct Hct'.
  rewrite emit2 by assumption. rewrite <- (urest_copyB A B i j) by assumption. exact H.
Qed.

Lemma T_chain_enter : forall i j ct ns ne, InvN i j ct ns ne ->
  0 <= i < zlen A -> 0 <= j < zlen B -> sA A i < eB B j -> sB B j < eA A i -> 0 <= ct < zlen ns ->
  InvC i j i j ct (updZ ns ct (tcell (Z.min (sA A i) (sB B j)))) ne.
Proof.
  unfold InvN, InvC. intros i j ct ns ne H Hi Hj Hc Hc' Hct. split.
  - apply nthZ_updZ_same. assumption.
  - rewrite outp_upd_s by lia. rewrite <- (urest_chain A B i j) by assumption. exact H.
Qed.

Lemma T_chain_cont : forall i0 j0 i j i' j' ct ns ne v, InvC i0 j0 i j ct ns ne ->
  0 <= i < zlen A -> 0 <= j < zlen B -> Adv A B i j i' j' ->
  i' < zlen A -> j' < zlen B -> sA A i' <= eB B j' -> sB B j' <= eA A i' -> 0 <= ct ->
  InvC i0 j0 i' j' ct ns (updZ ne ct v).
Proof.
  unfold InvC. intros i0 j0 i j i' j' ct ns ne v [H0 H] Hi Hj Ha Hi' Hj' Hc Hc' Hct. split; [exact H0|].
  rewrite outp_upd_e by assumption.
  rewrite <- (urest_some_cont A B _ i j i' j') by assumption. exact H.
Qed.

Lemma T_chain_endA : forall i0 j0 i j i' j' ct ns ne, InvC i0 j0 i j ct ns ne ->
  0 <= i < zlen A -> 0 <= j < zlen B -> Adv A B i j i' j' -> zlen A <= i' ->
  0 <= ct < zlen ns -> ct < zlen ne ->
  InvN i' (j' + 1) (ct + 1) ns (updZ ne ct (tcell (Z.max (eA A i) (eB B j)))).
Proof.
  unfold InvC, InvN. intros i0 j0 i j i' j' ct ns ne [H0 H] Hi Hj Ha Hi' Hct Hct'.
  rewrite (emit1 _ _ _ _ _ _ Hct Hct' H0).
  rewrite <- (urest_some_endA A B _ i j i' j') by assumption. exact H.
Qed.
Lemma T_chain_endB : forall i0 j0 i j i' j' ct ns ne, InvC i0 j0 i j ct ns ne ->
  0 <= i < zlen A -> 0 <= j < zlen B -> Adv A B i j i' j' -> i' < zlen A -> zlen B <= j' ->
  0 <= ct < zlen ns -> ct < zlen ne ->
  InvN (i' + 1) j' (ct + 1) ns (updZ ne ct (tcell (Z.max (eA A i) (eB B j)))).
Proof.
  unfold InvC, InvN. intros i0 j0 i j i' j' ct ns ne [H0 H] Hi Hj Ha Hi' Hj' Hct Hct'.
  rewrite (emit1 _ _ _ _ _ _ Hct Hct' H0).
  rewrite <- (urest_some_endB A B _ i j i' j') by assumption. exact H.
Qed.
Lemma T_chain_brkB : forall i0 j0 i j i' j' ct ns ne, InvC i0 j0 i j ct ns ne ->
  0 <= i < zlen A -> 0 <= j < zlen B -> Adv A B i j i' j' -> i' < zlen A -> j' < zlen B ->
  eB B j' < sA A i' -> 0 <= ct < zlen ns -> ct < zlen ne ->
  InvN i' (j' + 1) (ct + 1) ns (updZ ne ct (tcell (Z.max (eA A i) (eB B j)))).
Proof.
  unfold InvC, InvN. intros i0 j0 i j i' j' ct ns ne [H0 H] Hi Hj Ha Hi' Hj' Hc Hct Hct'.
  rewrite (emit1 _ _ _ _ _ _ Hct Hct' H0).
  rewrite <- (urest_some_brkB A B _ i j i' j') by assumption. exact H.
Qed.
Lemma T_chain_brkA : forall i0 j0 i j i' j' ct ns ne, InvC i0 j0 i j ct ns ne ->
  0 <= i < zlen A -> 0 <= j < zlen B -> Adv A B i j i' j' -> i' < zlen A -> j' < zlen B ->
  sA A i' <= eB B j' -> eA A i' < sB B j' -> 0 <= ct < zlen ns -> ct < zlen ne ->
  InvN (i' + 1) j' (ct + 1) ns (updZ ne ct (tcell (Z.max (eA A i) (eB B j)))).
Proof.
  unfold InvC, InvN. intros i0 j0 i j i' j' ct ns ne [H0 H] Hi Hj Ha Hi' Hj' Hc Hc' Hct Hct'.
  rewrite (emit1 _ _ _ _ _ _ Hct Hct' H0).
  rewrite <- (urest_some_brkA A B _ i j i' j') by assumption. exact H.
Qed.

(* what is returned *)
Lemma T_final : forall i j ct ns ne, InvN i j ct ns ne -> zlen A <= i -> zlen B <= j ->
  zlen ns = zlen ne -> 0 <= ct <= zlen ns ->
  pyslice ns 0 ct = tcells (firsts (k_union A B)) /\ pyslice ne 0 ct = tcells (seconds (k_union A B)).
Proof.
  unfold InvN, utarget. intros i j ct ns ne H Hi Hj Hl Hct.
  rewrite urest_end in H by assumption. cbn [cellsP map] in H. rewrite app_nil_r in H.
  rewrite !pyslice_0 by lia. unfold outp in H.
  assert (L : length (firstn (Z.to_nat ct) ns) = length (firstn (Z.to_nat ct) ne)).
  { rewrite !firstn_length. unfold zlen in *. lia. }
  split.
  - rewrite <- (map_fst_combine _ _ L). rewrite H. unfold cellsP, tcells, firsts. rewrite !map_map. reflexivity.
  - rewrite <- (map_snd_combine _ _ L). rewrite H. unfold cellsP, tcells, seconds. rewrite !map_map. reflexivity.
Qed.

End Inv.

Local Open Scope string_scope.

Definition ann_func (A B : iset) (l : nat) : annot :=
  match l with
  | 0%nat => ALoop [("i", KInt); ("j", KInt); ("ct", KInt); ("newstart", KArr); ("newend", KArr)]
      (fun st0 st => 0 <= getZ st "i" <= zlen A /\ 0 <= getZ st "j" <= zlen B
                     /\ 0 <= getZ st "ct" <= getZ st "i" + getZ st "j"
                     /\ InvN A B (getZ st "i") (getZ st "j") (getZ st "ct") (getD st "newstart") (getD st "newend"))
  | 1%nat => ALoop [("j", KInt); ("ct", KInt); ("newstart", KArr); ("newend", KArr)]
      (fun st0 st => getZ st0 "j" <= getZ st "j" <= zlen B
                     /\ 0 <= getZ st "ct" <= getZ st "i" + getZ st "j"
                     /\ InvN A B (getZ st "i") (getZ st "j") (getZ st "ct") (getD st "newstart") (getD st "newend"))
  | 5%nat => ALoop [("i", KInt); ("j", KInt); ("newend", KArr)]
      (fun st0 st => getZ st0 "i" <= getZ st "i" < zlen A /\ getZ st0 "j" <= getZ st "j" < zlen B
                     /\ InvC A B (getZ st0 "i") (getZ st0 "j") (getZ st "i") (getZ st "j") (getZ st "ct")
                             (getD st "newstart") (getD st "newend"))
  | 11%nat => ALoop [("i", KInt); ("ct", KInt); ("newstart", KArr); ("newend", KArr)]
      (fun st0 st => 0 <= getZ st "i" <= zlen A
                     /\ 0 <= getZ st "ct" <= getZ st "i" + getZ st "j"
                     /\ (getZ st "i" < zlen A -> zlen B <= getZ st "j")
                     /\ InvN A B (getZ st "i") (getZ st "j") (getZ st "ct") (getD st "newstart") (getD st "newend"))
  | 12%nat => ALoop [("j", KInt); ("ct", KInt); ("newstart", KArr); ("newend", KArr)]
      (fun st0 st => 0 <= getZ st "j" <= zlen B
                     /\ 0 <= getZ st "ct" <= getZ st "i" + getZ st "j"
                     /\ InvN A B (getZ st "i") (getZ st "j") (getZ st "ct") (getD st "newstart") (getD st "newend"))
  | _ => ANone
  end.

Definition jitunion_args (A B : iset) : list value :=
  [Ar (A1 DFlt (tcells (firsts A))); Ar (A1 DFlt (tcells (seconds A)));
   Ar (A1 DFlt (tcells (firsts B))); Ar (A1 DFlt (tcells (seconds B)))].
Definition iset_arrays (l : iset) : list value :=
  [Ar (A1 DFlt (tcells (firsts l))); Ar (A1 DFlt (tcells (seconds l)))].

Theorem k_jitunion_computes_model : forall A B fuel,
  match run fuel k_jitunion (jitunion_args A B) with
  | Return rs => rs = iset_arrays (k_union A B)
  | OutOfFuel => True
  | _ => False
  end.
Proof.
  intros A B fuel.
  pose proof (run_sound all_kernels (ann_func A B) k_jitunion
                (fun rs => rs = iset_arrays (k_union A B)) (jitunion_args A B) fuel) as RS.
  unfold run.
  match type of RS with ?P -> _ => assert (W : P) end.
  2: { specialize (RS W). unfold Interp.run in *.
       destruct (exec all_kernels fuel (fbody k_jitunion) (init_store k_jitunion (jitunion_args A B)));
         simpl in *; auto. }
  clear RS. unfold jitunion_args, iset_arrays.
  wp_compute k_jitunion ann_func.
  vc k_jitunion ann_func.
  all: try solve [arith].
  all: try apply zlen_nonneg.
  (* reads of embedded ticks; float comparisons / min / max of embedded ticks are the integer ones *)
  all: repeat match goal with
         | Hc : context [to_flt (nthZ (tcells ?l) ?k)] |- _ =>
             rewrite (nth_tcells l k) in Hc by (autorewrite with zlen; lia)
         | |- context [to_flt (nthZ (tcells ?l) ?k)] =>
             rewrite (nth_tcells l k) by (autorewrite with zlen; lia)
         end.
  all: repeat match goal with
         | Hc : context [cmp_flt Lt (Some (inject_Z _)) (Some (inject_Z _))] |- _ => rewrite cmp_lt_inj in Hc
         | Hc : context [cmp_flt Gt (Some (inject_Z _)) (Some (inject_Z _))] |- _ => rewrite cmp_gt_inj in Hc
         | Hc : context [fmin (Some (inject_Z _)) (Some (inject_Z _))] |- _ => rewrite fmin_inj in Hc
         end.
  all: rewrite ?fmin_inj, ?fmax_inj.
  all: repeat match goal with
         | |- context [VFlt (Some (inject_Z ?x))] => change (VFlt (Some (inject_Z x))) with (tcell x)
         end.
  all: repeat match goal with
         | Hc : (_ <? _)%Z = _ |- _ => b2p Hc
         end.
  all: try assumption.
  all: try apply T_init.
  all: try match goal with
         | I : InvN _ _ ?i ?j ?ct ?ns ?ne |- InvC _ _ ?i ?j ?i ?j ?ct _ ?ne =>
             apply (T_chain_enter _ _ i j ct ns ne I); unfold sA, eA, sB, eB; autorewrite with zlen; lia
         | I : InvC _ _ ?i0 ?j0 ?i ?j ?ct ?ns ?ne |- InvC _ _ ?i0 ?j0 ?i' ?j' ?ct ?ns (updZ ?ne ?ct _) =>
             apply (T_chain_cont _ _ i0 j0 i j i' j' ct ns ne _ I); unfold Adv, sA, eA, sB, eB; autorewrite with zlen; lia
         | I : InvC _ _ ?i0 ?j0 ?i ?j ?ct ?ns ?ne |- InvN _ _ _ _ (?ct + 1) ?ns (updZ ?ne ?ct _) =>
             first [ solve [eapply (T_chain_endA _ _ i0 j0 i j _ _ ct ns ne I); unfold Adv, sA, eA, sB, eB; autorewrite with zlen; lia]
                   | solve [eapply (T_chain_endB _ _ i0 j0 i j _ _ ct ns ne I); unfold Adv, sA, eA, sB, eB; autorewrite with zlen; lia]
                   | solve [eapply (T_chain_brkB _ _ i0 j0 i j _ _ ct ns ne I); unfold Adv, sA, eA, sB, eB; autorewrite with zlen; lia]
                   | solve [eapply (T_chain_brkA _ _ i0 j0 i j _ _ ct ns ne I); unfold Adv, sA, eA, sB, eB; autorewrite with zlen; lia] ]
         | I : InvN _ _ ?i ?j ?ct ?ns ?ne |- InvN _ _ (?i + 1) ?j (?ct + 1) (updZ ?ns ?ct _) (updZ ?ne ?ct _) =>
             first [ solve [apply (T_takeA _ _ i j ct ns ne I); unfold sA, eA, sB, eB; autorewrite with zlen; lia]
                   | solve [apply (T_copyA _ _ i j ct ns ne I); autorewrite with zlen; lia] ]
         | I : InvN _ _ ?i ?j ?ct ?ns ?ne |- InvN _ _ ?i (?j + 1) (?ct + 1) (updZ ?ns ?ct _) (updZ ?ne ?ct _) =>
             first [ solve [apply (T_takeB _ _ i j ct ns ne I); unfold sA, eA, sB, eB; autorewrite with zlen; lia]
                   | solve [apply (T_copyB _ _ i j ct ns ne I); autorewrite with zlen; lia] ]
         | I : InvN _ _ ?i ?j ?ct ?ns ?ne |- [Ar (A1 DFlt (pyslice ?ns 0 ?ct)); _] = _ =>
             destruct (T_final _ _ i j ct ns ne I) as [-> ->]; [lia | lia | lia | lia | reflexivity]
         end.
Qed.

(* with the specification of the model (C02, Proofs/UnionProofs.v): for canonical inputs the
   translated kernel returns a weakly canonical interval list whose points are those of A or B *)
Corollary k_jitunion_spec : forall A B fuel, canonical A -> canonical B ->
  match run fuel k_jitunion (jitunion_args A B) with
  | Return rs => exists l, rs = iset_arrays l /\ weakly_canonical l
                           /\ forall x, mem x l = mem x A || mem x B
  | OutOfFuel => True
  | _ => False
  end.
Proof.
  intros A B fuel HA HB. pose proof (k_jitunion_computes_model A B fuel) as H.
  destruct (run fuel k_jitunion (jitunion_args A B)); try exact H.
  exists (k_union A B). split; [exact H|]. split.
  - apply union_raw_wf; assumption.
  - intros x. apply union_mem; assumption.
Qed.

(* not vacuous: with enough fuel the kernel does return (termination itself is not proved) *)
Example k_jitunion_runs :
  run 100 k_jitunion (jitunion_args [(0, 5); (10, 20)] [(3, 12); (30, 40)])
  = Return (iset_arrays [(0, 20); (30, 40)]).
Proof. vm_compute. reflexivity. Qed.

Print Assumptions k_jitunion_computes_model.
Print Assumptions k_jitunion_spec.
