(* C15: _cross_correlogram.  Safe for all arrays and all scalar arguments: the positivity of
   binsize and the sign of windowsize are not needed for memory safety (a non-positive number of
   bins gives empty buffers and loops that do not run). *)
From Coq Require Import ZArith QArith String List Bool Lia.
From Verif Require Import Jit.Lang Jit.Interp Jit.Safety Jit.Tactics Gen.Kernels.
Import ListNotations.
Open Scope Z_scope.
Local Open Scope string_scope.

Definition Pre__cross_correlogram (args : list value) : Prop :=
  exists d1 d2 t1 t2 binsize windowsize,
    args = [Ar (A1 d1 t1); Ar (A1 d2 t2); Sc binsize; Sc windowsize].

Definition ann__cross_correlogram (l : nat) : annot :=
  match l with
  | 0%nat => ALoop [("nbins", KSc)] (fun _ _ => True)
  | 1%nat => ALoop [("i1", KInt); ("i2", KInt); ("lbound", KAny); ("rbound", KAny); ("leftb", KAny);
                    ("j", KAny); ("k", KAny); ("C", KArr)]
                   (fun st0 st => 0 <= getZ st "i2" <= getZ st0 "nt2")
  | 2%nat => ALoop [("i2", KInt)] (fun st0 st => getZ st0 "i2" <= getZ st "i2" <= getZ st0 "nt2")
  | 3%nat => ALoop [("i2", KInt)] (fun st0 st => 0 <= getZ st "i2" <= getZ st0 "i2")
  | 4%nat => ALoop [("j", KInt); ("k", KAny); ("rbound", KSc); ("leftb", KInt); ("C", KArr)]
                   (fun st0 st => 0 <= getZ st "leftb" <= getZ st0 "nt2")
  | 5%nat => ALoop [("leftb", KInt); ("k", KInt)]
                   (fun st0 st => getZ st0 "leftb" <= getZ st "leftb" <= getZ st0 "nt2")
  | 6%nat => ALoop [("j", KInt); ("B", KArr)] (fun _ _ => True)
  | _ => ANone
  end.

Theorem k__cross_correlogram_safe : forall args, Pre__cross_correlogram args ->
  forall fuel, safe_outcome (run fuel k__cross_correlogram args).
Proof.
  intros args (d1 & d2 & t1 & t2 & binsize & windowsize & ->) fuel.
  safe_start k__cross_correlogram ann__cross_correlogram.
  vc k__cross_correlogram ann__cross_correlogram.
Qed.
