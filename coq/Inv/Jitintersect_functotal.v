(* TOTAL correctness of the translated jitintersect: for all interval lists A and B there is a fuel
   with which the kernel text runs to completion, and it returns the three arrays of the model
   [k_inter_meta A B].

   Combination ([Jit.Total.total_of_partial_eq]) of
     - the partial refinement theorem [k_jitintersect_computes_model] of Inv/Jitintersect_func.v,
     - the termination theorem [k_jitintersect_terminates] of Inv/Jitintersect_term.v,
     - [iset_args_pre]: the encoded arguments satisfy the safety/termination precondition
       [Pre_jitintersect] (four 1-d arrays, start/end pairs of equal length).
   No hypothesis beyond those of the partial theorem (there are none). *)
From Coq Require Import ZArith QArith String List Bool Lia.
From Verif Require Import Base.Prelude Model.Iset Proofs.InterDiffProofs.
From Verif Require Import Jit.Lang Jit.Interp Jit.Safety Jit.Tactics Jit.ArrayFacts Jit.Total Gen.Kernels.
From Verif Require Import Inv.Jitintersect Inv.Jitrestrict_func Inv.Jitintersect_func Inv.Jitintersect_term.
Import ListNotations.
Open Scope Z_scope.

Lemma iset_args_pre : forall A B, Pre_jitintersect (iset_args A B).
Proof.
  intros A B. unfold iset_args, Pre_jitintersect. do 8 eexists. split; [reflexivity|].
  rewrite !zlen_tcells, !zlen_firsts, !zlen_seconds. split; reflexivity.
Qed.

Theorem k_jitintersect_total : forall A B,
  exists fuel, run fuel k_jitintersect (iset_args A B) = Return (inter_result (k_inter_meta A B)).
Proof.
  intros A B. unfold run. apply total_of_partial_eq.
  - intros fuel. exact (k_jitintersect_computes_model A B fuel).
  - apply k_jitintersect_terminates. apply iset_args_pre.
Qed.

(* non-vacuity: on a concrete input the fuel is found by computation, and the value is the model's *)
Example k_jitintersect_total_ex :
  exists fuel, run fuel k_jitintersect (iset_args [(0, 10); (20, 30)] [(5, 25)])
               = Return (inter_result (k_inter_meta [(0, 10); (20, 30)] [(5, 25)])).
Proof. exists 100%nat. vm_compute. reflexivity. Qed.

Print Assumptions k_jitintersect_total.
