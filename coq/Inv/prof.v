(* C15: _jitcontinuous_perievent.  Inputs as _perievent_continuous passes them: starts/ends of
   equal length, windowsize an integer array with two cells. *)
From Coq Require Import ZArith QArith String List Bool Lia.
From Verif Require Import Jit.Lang Jit.Interp Jit.Safety Jit.Tactics Jit.ArrayFacts
  Gen.Kernels Inv.Jitrestrict_with_count.
Import ListNotations.
Open Scope Z_scope.
Local Open Scope string_scope.

Definition Pre__jitcontinuous_perievent (args : list value) : Prop :=
  exists d1 d2 d3 d4 ta tt s e w,
    args = [Ar (A1 d1 ta); Ar (A1 d2 tt); Ar (A1 d3 s); Ar (A1 d4 e); Ar (A1 DInt w)]
    /\ zlen s = zlen e /\ zlen w = 2.

Definition ann__jitcontinuous_perievent (l : nat) : annot :=
  match l with
  | 0%nat => ACall Pre_jitrestrict_with_count [RA1 DInt; RA1 DInt] post_rwc
  | 1%nat => ACall Pre_jitrestrict_with_count [RA1 DInt; RA1 DInt] post_rwc
  | 3%nat => ALoop [("k", KInt); ("t", KAny); ("i", KAny); ("maxt", KAny); ("maxi", KAny);
                    ("start_t", KAny); ("interval", KAny); ("t_pos", KAny); ("new_interval", KAny);
                    ("left", KAny); ("right", KAny); ("count", KArr);
                    ("slice_idx", KArr); ("start_w", KArr)]
                   (fun st0 st =>
                      cnt_inv (column (getZ st0 "N_epochs") 2 (getD st "count") 0)
                              (zlen (getD st0 "time_array"))
                      /\ cnt_inv (column (getZ st0 "N_epochs") 2 (getD st "count") 1)
                                 (zlen (getD st0 "time_target_array")))
  | 5%nat => ALoop [("t", KInt); ("i", KInt); ("interval", KAny); ("t_pos", KAny);
                    ("new_interval", KAny); ("left", KAny); ("right", KAny);
                    ("slice_idx", KArr); ("start_w", KArr)]
                   (fun st0 st => getZ st0 "t" <= getZ st "t" < getZ st0 "maxt"
                                  /\ getZ st0 "i" <= getZ st "i")
  | 6%nat => ALoop [("t", KInt); ("interval", KSc); ("t_pos", KInt); ("new_interval", KAny)]
                   (fun st0 st => getZ st0 "t" <= getZ st "t" <= getZ st0 "maxt")
  | _ => ANone
  end.

Theorem k__jitcontinuous_perievent_safe : forall args, Pre__jitcontinuous_perievent args ->
  forall fuel, safe_outcome (run fuel k__jitcontinuous_perievent args).
Proof.
  intros args (d1 & d2 & d3 & d4 & ta & tt & s & e & w & -> & H & Hw) fuel.
  safe_start k__jitcontinuous_perievent ann__jitcontinuous_perievent.
  rewrite find_rwc. wp_compute k__jitcontinuous_perievent ann__jitcontinuous_perievent.
  lazy beta iota delta [post_rwc].
  Time vc k__jitcontinuous_perievent ann__jitcontinuous_perievent.
  1,4: do 6 eexists; split; [reflexivity | assumption].
  1,3: intros fu vs Hp; exact (k_jitrestrict_with_count_spec fu vs Hp).
  1,2: assumption.
  Time all: try solve [autorewrite with zlen; assumption].
  Time all: change (Z.max 0 2) with 2 in *; rewrite ?(Z.max_r 0 (zlen s)) in * by lia.
  (* the two columns of [count] are the count arrays returned by the two calls *)
  1: { rewrite column_set_col_same by (try lia; rewrite zlen_coerce_cells; assumption).
       rewrite coerce_cells_nonneg by (destruct H15; assumption).
       autorewrite with zlen. assumption. }
  1: { rewrite column_set_col_other by lia.
       rewrite column_set_col_same by (try lia; rewrite zlen_coerce_cells; assumption).
       rewrite coerce_cells_nonneg by (destruct H10; assumption).
       autorewrite with zlen. assumption. }
  Time all: repeat match goal with
         | Hx : context [nthZ ?d (?k * 2 + ?j)] |- _ =>
             rewrite <- (nthZ_column (zlen s) 2 d j k) in Hx by lia
         | |- context [nthZ ?d (?k * 2 + ?j)] => rewrite <- (nthZ_column (zlen s) 2 d j k) by lia
         end.
  Time all: arr_arith.
Time Qed.
